import GoLevel.Proofs.LocksCount
/-! Every step of a configuration with the three fixes keeps an owner for a token that is in `writeLockC`. -/
namespace GoLevel.Locks
set_option linter.unusedSimpArgs false

theorem step_tokW (s t : St) (f : Bool) (cfg : Cfg) (h3 : Fixed3 cfg)
    (h : Step cfg f s t) (inv : TokW s) : TokW t := by
  unfold TokW at *
  obtain ⟨f1, f2, f3⟩ := h3
  have c1 := b2n_le s.trOpen
  have c2 := b2n_le s.ehTok
  have c3 := b2n_le s.closeTok
  have c4 := b2n_le s.tok
  cases h with
  | startPut _ i hi =>
    have l1 := le_tot tokW _ _ _ hi
    (try simp only [St.setDone, St.setBg, ↓reduceIte, Bool.false_eq_true, Bool.and_false, Bool.and_true, Bool.false_and, Bool.true_and]) <;> (repeat' split) <;> simp_all [tot_set_eq _ _ _ _ _ hi, tot_ackWs_tok, tot_ackWs_clk, tot_ackWs_trlk, tokW, b2n_true, b2n_false, bgClk_run, bgClk_idle, bgClk_exited, bgClk_parked, bgClk_clearW, bgClk_afterCmd, bphClk, St.bg, onOk, onErr, selNext, afterSetErr, srAllW, srW] <;> (try omega)
  | startWrite _ i hi =>
    have l1 := le_tot tokW _ _ _ hi
    (try simp only [St.setDone, St.setBg, ↓reduceIte, Bool.false_eq_true, Bool.and_false, Bool.and_true, Bool.false_and, Bool.true_and]) <;> (repeat' split) <;> simp_all [tot_set_eq _ _ _ _ _ hi, tot_ackWs_tok, tot_ackWs_clk, tot_ackWs_trlk, tokW, b2n_true, b2n_false, bgClk_run, bgClk_idle, bgClk_exited, bgClk_parked, bgClk_clearW, bgClk_afterCmd, bphClk, St.bg, onOk, onErr, selNext, afterSetErr, srAllW, srW] <;> (try omega)
  | startOtx _ i hi =>
    have l1 := le_tot tokW _ _ _ hi
    (try simp only [St.setDone, St.setBg, ↓reduceIte, Bool.false_eq_true, Bool.and_false, Bool.and_true, Bool.false_and, Bool.true_and]) <;> (repeat' split) <;> simp_all [tot_set_eq _ _ _ _ _ hi, tot_ackWs_tok, tot_ackWs_clk, tot_ackWs_trlk, tokW, b2n_true, b2n_false, bgClk_run, bgClk_idle, bgClk_exited, bgClk_parked, bgClk_clearW, bgClk_afterCmd, bphClk, St.bg, onOk, onErr, selNext, afterSetErr, srAllW, srW] <;> (try omega)
  | startCommit _ i hi hu =>
    have l1 := le_tot tokW _ _ _ hi
    (try simp only [St.setDone, St.setBg, ↓reduceIte, Bool.false_eq_true, Bool.and_false, Bool.and_true, Bool.false_and, Bool.true_and]) <;> (repeat' split) <;> simp_all [tot_set_eq _ _ _ _ _ hi, tot_ackWs_tok, tot_ackWs_clk, tot_ackWs_trlk, tokW, b2n_true, b2n_false, bgClk_run, bgClk_idle, bgClk_exited, bgClk_parked, bgClk_clearW, bgClk_afterCmd, bphClk, St.bg, onOk, onErr, selNext, afterSetErr, srAllW, srW] <;> (try omega)
  | startDiscard _ i hi hu =>
    have l1 := le_tot tokW _ _ _ hi
    (try simp only [St.setDone, St.setBg, ↓reduceIte, Bool.false_eq_true, Bool.and_false, Bool.and_true, Bool.false_and, Bool.true_and]) <;> (repeat' split) <;> simp_all [tot_set_eq _ _ _ _ _ hi, tot_ackWs_tok, tot_ackWs_clk, tot_ackWs_trlk, tokW, b2n_true, b2n_false, bgClk_run, bgClk_idle, bgClk_exited, bgClk_parked, bgClk_clearW, bgClk_afterCmd, bphClk, St.bg, onOk, onErr, selNext, afterSetErr, srAllW, srW] <;> (try omega)
  | startCR _ i hi =>
    have l1 := le_tot tokW _ _ _ hi
    (try simp only [St.setDone, St.setBg, ↓reduceIte, Bool.false_eq_true, Bool.and_false, Bool.and_true, Bool.false_and, Bool.true_and]) <;> (repeat' split) <;> simp_all [tot_set_eq _ _ _ _ _ hi, tot_ackWs_tok, tot_ackWs_clk, tot_ackWs_trlk, tokW, b2n_true, b2n_false, bgClk_run, bgClk_idle, bgClk_exited, bgClk_parked, bgClk_clearW, bgClk_afterCmd, bphClk, St.bg, onOk, onErr, selNext, afterSetErr, srAllW, srW] <;> (try omega)
  | startSR _ i hi ha =>
    have l1 := le_tot tokW _ _ _ hi
    (try simp only [St.setDone, St.setBg, ↓reduceIte, Bool.false_eq_true, Bool.and_false, Bool.and_true, Bool.false_and, Bool.true_and]) <;> (repeat' split) <;> simp_all [tot_set_eq _ _ _ _ _ hi, tot_ackWs_tok, tot_ackWs_clk, tot_ackWs_trlk, tokW, b2n_true, b2n_false, bgClk_run, bgClk_idle, bgClk_exited, bgClk_parked, bgClk_clearW, bgClk_afterCmd, bphClk, St.bg, onOk, onErr, selNext, afterSetErr, srAllW, srW] <;> (try omega)
  | startClose _ i hi =>
    have l1 := le_tot tokW _ _ _ hi
    (try simp only [St.setDone, St.setBg, ↓reduceIte, Bool.false_eq_true, Bool.and_false, Bool.and_true, Bool.false_and, Bool.true_and]) <;> (repeat' split) <;> simp_all [tot_set_eq _ _ _ _ _ hi, tot_ackWs_tok, tot_ackWs_clk, tot_ackWs_trlk, tokW, b2n_true, b2n_false, bgClk_run, bgClk_idle, bgClk_exited, bgClk_parked, bgClk_clearW, bgClk_afterCmd, bphClk, St.bg, onOk, onErr, selNext, afterSetErr, srAllW, srW] <;> (try omega)
  | selTok _ i p q hi hq ht =>
    have l1 := le_tot tokW _ _ _ hi
    cases p <;> simp only [selNext] at hq <;> (try contradiction) <;> cases hq <;> simp_all [tot_set_eq _ _ _ _ _ hi, tot_ackWs_tok, tot_ackWs_clk, tot_ackWs_trlk, tokW, b2n_true, b2n_false, bgClk_run, bgClk_idle, bgClk_exited, bgClk_parked, bgClk_clearW, bgClk_afterCmd, bphClk, St.bg, onOk, onErr, selNext, afterSetErr, srAllW, srW] <;> (try omega)
  | selPerErr _ i p q hi hq he =>
    have l1 := le_tot tokW _ _ _ hi
    cases p <;> simp only [selNext] at hq <;> (try contradiction) <;> cases hq <;> simp_all [tot_set_eq _ _ _ _ _ hi, tot_ackWs_tok, tot_ackWs_clk, tot_ackWs_trlk, tokW, b2n_true, b2n_false, bgClk_run, bgClk_idle, bgClk_exited, bgClk_parked, bgClk_clearW, bgClk_afterCmd, bphClk, St.bg, onOk, onErr, selNext, afterSetErr, srAllW, srW] <;> (try omega)
  | selClosed _ i p q hi hq hc =>
    have l1 := le_tot tokW _ _ _ hi
    cases p <;> simp only [selNext] at hq <;> (try contradiction) <;> cases hq <;> simp_all [tot_set_eq _ _ _ _ _ hi, tot_ackWs_tok, tot_ackWs_clk, tot_ackWs_trlk, tokW, b2n_true, b2n_false, bgClk_run, bgClk_idle, bgClk_exited, bgClk_parked, bgClk_clearW, bgClk_afterCmd, bphClk, St.bg, onOk, onErr, selNext, afterSetErr, srAllW, srW] <;> (try omega)
  | putNoWait _ i hi =>
    have l1 := le_tot tokW _ _ _ hi
    (try simp only [St.setDone, St.setBg, ↓reduceIte, Bool.false_eq_true, Bool.and_false, Bool.and_true, Bool.false_and, Bool.true_and]) <;> (repeat' split) <;> simp_all [tot_set_eq _ _ _ _ _ hi, tot_ackWs_tok, tot_ackWs_clk, tot_ackWs_trlk, tokW, b2n_true, b2n_false, bgClk_run, bgClk_idle, bgClk_exited, bgClk_parked, bgClk_clearW, bgClk_afterCmd, bphClk, St.bg, onOk, onErr, selNext, afterSetErr, srAllW, srW] <;> (try omega)
  | putWait _ i b hi =>
    have l1 := le_tot tokW _ _ _ hi
    cases b <;> (try simp only [St.setDone, St.setBg, ↓reduceIte, Bool.false_eq_true, Bool.and_false, Bool.and_true, Bool.false_and, Bool.true_and]) <;> (repeat' split) <;> simp_all [tot_set_eq _ _ _ _ _ hi, tot_ackWs_tok, tot_ackWs_clk, tot_ackWs_trlk, tokW, b2n_true, b2n_false, bgClk_run, bgClk_idle, bgClk_exited, bgClk_parked, bgClk_clearW, bgClk_afterCmd, bphClk, St.bg, onOk, onErr, selNext, afterSetErr, srAllW, srW] <;> (try omega)
  | putJournalOk _ i hi =>
    have l1 := le_tot tokW _ _ _ hi
    (try simp only [St.setDone, St.setBg, ↓reduceIte, Bool.false_eq_true, Bool.and_false, Bool.and_true, Bool.false_and, Bool.true_and]) <;> (repeat' split) <;> simp_all [tot_set_eq _ _ _ _ _ hi, tot_ackWs_tok, tot_ackWs_clk, tot_ackWs_trlk, tokW, b2n_true, b2n_false, bgClk_run, bgClk_idle, bgClk_exited, bgClk_parked, bgClk_clearW, bgClk_afterCmd, bphClk, St.bg, onOk, onErr, selNext, afterSetErr, srAllW, srW] <;> (try omega)
  | putJournalFail _ i hi =>
    have l1 := le_tot tokW _ _ _ hi
    (try simp only [St.setDone, St.setBg, ↓reduceIte, Bool.false_eq_true, Bool.and_false, Bool.and_true, Bool.false_and, Bool.true_and]) <;> (repeat' split) <;> simp_all [tot_set_eq _ _ _ _ _ hi, tot_ackWs_tok, tot_ackWs_clk, tot_ackWs_trlk, tokW, b2n_true, b2n_false, bgClk_run, bgClk_idle, bgClk_exited, bgClk_parked, bgClk_clearW, bgClk_afterCmd, bphClk, St.bg, onOk, onErr, selNext, afterSetErr, srAllW, srW] <;> (try omega)
  | putUnlock _ i r hi =>
    have l1 := le_tot tokW _ _ _ hi
    cases r <;> (try simp only [St.setDone, St.setBg, ↓reduceIte, Bool.false_eq_true, Bool.and_false, Bool.and_true, Bool.false_and, Bool.true_and]) <;> (repeat' split) <;> simp_all [tot_set_eq _ _ _ _ _ hi, tot_ackWs_tok, tot_ackWs_clk, tot_ackWs_trlk, tokW, b2n_true, b2n_false, bgClk_run, bgClk_idle, bgClk_exited, bgClk_parked, bgClk_clearW, bgClk_afterCmd, bphClk, St.bg, onOk, onErr, selNext, afterSetErr, srAllW, srW] <;> (try omega)
  | cwSendGo _ i b site lg hi hb hro =>
    have l1 := le_tot tokW _ _ _ hi
    cases site <;> cases b <;> cases lg <;> (try simp only [St.setDone, St.setBg, ↓reduceIte, Bool.false_eq_true, Bool.and_false, Bool.and_true, Bool.false_and, Bool.true_and]) <;> (repeat' split) <;> simp_all [tot_set_eq _ _ _ _ _ hi, tot_ackWs_tok, tot_ackWs_clk, tot_ackWs_trlk, tokW, b2n_true, b2n_false, bgClk_run, bgClk_idle, bgClk_exited, bgClk_parked, bgClk_clearW, bgClk_afterCmd, bphClk, St.bg, onOk, onErr, selNext, afterSetErr, srAllW, srW] <;> (try omega)
  | cwSendRO _ i site lg hi hb hp hro =>
    have l1 := le_tot tokW _ _ _ hi
    cases site <;> cases lg <;> (try simp only [St.setDone, St.setBg, ↓reduceIte, Bool.false_eq_true, Bool.and_false, Bool.and_true, Bool.false_and, Bool.true_and]) <;> (repeat' split) <;> simp_all [tot_set_eq _ _ _ _ _ hi, tot_ackWs_tok, tot_ackWs_clk, tot_ackWs_trlk, tokW, b2n_true, b2n_false, bgClk_run, bgClk_idle, bgClk_exited, bgClk_parked, bgClk_clearW, bgClk_afterCmd, bphClk, St.bg, onOk, onErr, selNext, afterSetErr, srAllW, srW] <;> (try omega)
  | cwSendErr _ i b site lg hi he =>
    have l1 := le_tot tokW _ _ _ hi
    cases site <;> cases b <;> cases lg <;> (try simp only [St.setDone, St.setBg, ↓reduceIte, Bool.false_eq_true, Bool.and_false, Bool.and_true, Bool.false_and, Bool.true_and]) <;> (repeat' split) <;> simp_all [tot_set_eq _ _ _ _ _ hi, tot_ackWs_tok, tot_ackWs_clk, tot_ackWs_trlk, tokW, b2n_true, b2n_false, bgClk_run, bgClk_idle, bgClk_exited, bgClk_parked, bgClk_clearW, bgClk_afterCmd, bphClk, St.bg, onOk, onErr, selNext, afterSetErr, srAllW, srW] <;> (try omega)
  | cwAckErr _ i b site lg hi he =>
    have l1 := le_tot tokW _ _ _ hi
    cases site <;> cases b <;> cases lg <;> (try simp only [St.setDone, St.setBg, ↓reduceIte, Bool.false_eq_true, Bool.and_false, Bool.and_true, Bool.false_and, Bool.true_and]) <;> (repeat' split) <;> simp_all [tot_set_eq _ _ _ _ _ hi, tot_ackWs_tok, tot_ackWs_clk, tot_ackWs_trlk, tokW, b2n_true, b2n_false, bgClk_run, bgClk_idle, bgClk_exited, bgClk_parked, bgClk_clearW, bgClk_afterCmd, bphClk, St.bg, onOk, onErr, selNext, afterSetErr, srAllW, srW] <;> (try omega)
  | otxRotate _ i lg hi =>
    have l1 := le_tot tokW _ _ _ hi
    cases lg <;> (try simp only [St.setDone, St.setBg, ↓reduceIte, Bool.false_eq_true, Bool.and_false, Bool.and_true, Bool.false_and, Bool.true_and]) <;> (repeat' split) <;> simp_all [tot_set_eq _ _ _ _ _ hi, tot_ackWs_tok, tot_ackWs_clk, tot_ackWs_trlk, tokW, b2n_true, b2n_false, bgClk_run, bgClk_idle, bgClk_exited, bgClk_parked, bgClk_clearW, bgClk_afterCmd, bphClk, St.bg, onOk, onErr, selNext, afterSetErr, srAllW, srW] <;> (try omega)
  | otxNoRotate _ i lg hi =>
    have l1 := le_tot tokW _ _ _ hi
    cases lg <;> (try simp only [St.setDone, St.setBg, ↓reduceIte, Bool.false_eq_true, Bool.and_false, Bool.and_true, Bool.false_and, Bool.true_and]) <;> (repeat' split) <;> simp_all [tot_set_eq _ _ _ _ _ hi, tot_ackWs_tok, tot_ackWs_clk, tot_ackWs_trlk, tokW, b2n_true, b2n_false, bgClk_run, bgClk_idle, bgClk_exited, bgClk_parked, bgClk_clearW, bgClk_afterCmd, bphClk, St.bg, onOk, onErr, selNext, afterSetErr, srAllW, srW] <;> (try omega)
  | otxNewMemOk _ i lg hi =>
    have l1 := le_tot tokW _ _ _ hi
    cases lg <;> (try simp only [St.setDone, St.setBg, ↓reduceIte, Bool.false_eq_true, Bool.and_false, Bool.and_true, Bool.false_and, Bool.true_and]) <;> (repeat' split) <;> simp_all [tot_set_eq _ _ _ _ _ hi, tot_ackWs_tok, tot_ackWs_clk, tot_ackWs_trlk, tokW, b2n_true, b2n_false, bgClk_run, bgClk_idle, bgClk_exited, bgClk_parked, bgClk_clearW, bgClk_afterCmd, bphClk, St.bg, onOk, onErr, selNext, afterSetErr, srAllW, srW] <;> (try omega)
  | otxNewMemFail _ i lg hi =>
    have l1 := le_tot tokW _ _ _ hi
    cases lg <;> (try simp only [St.setDone, St.setBg, ↓reduceIte, Bool.false_eq_true, Bool.and_false, Bool.and_true, Bool.false_and, Bool.true_and]) <;> (repeat' split) <;> simp_all [tot_set_eq _ _ _ _ _ hi, tot_ackWs_tok, tot_ackWs_clk, tot_ackWs_trlk, tokW, b2n_true, b2n_false, bgClk_run, bgClk_idle, bgClk_exited, bgClk_parked, bgClk_clearW, bgClk_afterCmd, bphClk, St.bg, onOk, onErr, selNext, afterSetErr, srAllW, srW] <;> (try omega)
  | otxNoWaitComp _ i lg hi =>
    have l1 := le_tot tokW _ _ _ hi
    cases lg <;> (try simp only [St.setDone, St.setBg, ↓reduceIte, Bool.false_eq_true, Bool.and_false, Bool.and_true, Bool.false_and, Bool.true_and]) <;> (repeat' split) <;> simp_all [tot_set_eq _ _ _ _ _ hi, tot_ackWs_tok, tot_ackWs_clk, tot_ackWs_trlk, tokW, b2n_true, b2n_false, bgClk_run, bgClk_idle, bgClk_exited, bgClk_parked, bgClk_clearW, bgClk_afterCmd, bphClk, St.bg, onOk, onErr, selNext, afterSetErr, srAllW, srW] <;> (try omega)
  | otxWaitComp _ i lg hi =>
    have l1 := le_tot tokW _ _ _ hi
    cases lg <;> (try simp only [St.setDone, St.setBg, ↓reduceIte, Bool.false_eq_true, Bool.and_false, Bool.and_true, Bool.false_and, Bool.true_and]) <;> (repeat' split) <;> simp_all [tot_set_eq _ _ _ _ _ hi, tot_ackWs_tok, tot_ackWs_clk, tot_ackWs_trlk, tokW, b2n_true, b2n_false, bgClk_run, bgClk_idle, bgClk_exited, bgClk_parked, bgClk_clearW, bgClk_afterCmd, bphClk, St.bg, onOk, onErr, selNext, afterSetErr, srAllW, srW] <;> (try omega)
  | otxFail _ i lg hi =>
    have l1 := le_tot tokW _ _ _ hi
    cases lg <;> (try simp only [St.setDone, St.setBg, ↓reduceIte, Bool.false_eq_true, Bool.and_false, Bool.and_true, Bool.false_and, Bool.true_and]) <;> (repeat' split) <;> simp_all [tot_set_eq _ _ _ _ _ hi, tot_ackWs_tok, tot_ackWs_clk, tot_ackWs_trlk, tokW, b2n_true, b2n_false, bgClk_run, bgClk_idle, bgClk_exited, bgClk_parked, bgClk_clearW, bgClk_afterCmd, bphClk, St.bg, onOk, onErr, selNext, afterSetErr, srAllW, srW] <;> (try omega)
  | otxRel _ i lg hi =>
    have l1 := le_tot tokW _ _ _ hi
    cases lg <;> (try simp only [St.setDone, St.setBg, ↓reduceIte, Bool.false_eq_true, Bool.and_false, Bool.and_true, Bool.false_and, Bool.true_and]) <;> (repeat' split) <;> simp_all [tot_set_eq _ _ _ _ _ hi, tot_ackWs_tok, tot_ackWs_clk, tot_ackWs_trlk, tokW, b2n_true, b2n_false, bgClk_run, bgClk_idle, bgClk_exited, bgClk_parked, bgClk_clearW, bgClk_afterCmd, bphClk, St.bg, onOk, onErr, selNext, afterSetErr, srAllW, srW] <;> (try omega)
  | otxDone _ i lg hi =>
    have l1 := le_tot tokW _ _ _ hi
    cases lg <;> (try simp only [St.setDone, St.setBg, ↓reduceIte, Bool.false_eq_true, Bool.and_false, Bool.and_true, Bool.false_and, Bool.true_and]) <;> (repeat' split) <;> simp_all [tot_set_eq _ _ _ _ _ hi, tot_ackWs_tok, tot_ackWs_clk, tot_ackWs_trlk, tokW, b2n_true, b2n_false, bgClk_run, bgClk_idle, bgClk_exited, bgClk_parked, bgClk_clearW, bgClk_afterCmd, bphClk, St.bg, onOk, onErr, selNext, afterSetErr, srAllW, srW] <;> (try omega)
  | lgWriteOk _ i hi =>
    have l1 := le_tot tokW _ _ _ hi
    (try simp only [St.setDone, St.setBg, ↓reduceIte, Bool.false_eq_true, Bool.and_false, Bool.and_true, Bool.false_and, Bool.true_and]) <;> (repeat' split) <;> simp_all [tot_set_eq _ _ _ _ _ hi, tot_ackWs_tok, tot_ackWs_clk, tot_ackWs_trlk, tokW, b2n_true, b2n_false, bgClk_run, bgClk_idle, bgClk_exited, bgClk_parked, bgClk_clearW, bgClk_afterCmd, bphClk, St.bg, onOk, onErr, selNext, afterSetErr, srAllW, srW] <;> (try omega)
  | lgWriteFail _ i hi =>
    have l1 := le_tot tokW _ _ _ hi
    (try simp only [St.setDone, St.setBg, ↓reduceIte, Bool.false_eq_true, Bool.and_false, Bool.and_true, Bool.false_and, Bool.true_and]) <;> (repeat' split) <;> simp_all [tot_set_eq _ _ _ _ _ hi, tot_ackWs_tok, tot_ackWs_clk, tot_ackWs_trlk, tokW, b2n_true, b2n_false, bgClk_run, bgClk_idle, bgClk_exited, bgClk_parked, bgClk_clearW, bgClk_afterCmd, bphClk, St.bg, onOk, onErr, selNext, afterSetErr, srAllW, srW] <;> (try omega)
  | cmLockTr _ i lg hi hl =>
    have l1 := le_tot tokW _ _ _ hi
    cases lg <;> (try simp only [St.setDone, St.setBg, ↓reduceIte, Bool.false_eq_true, Bool.and_false, Bool.and_true, Bool.false_and, Bool.true_and]) <;> (repeat' split) <;> simp_all [tot_set_eq _ _ _ _ _ hi, tot_ackWs_tok, tot_ackWs_clk, tot_ackWs_trlk, tokW, b2n_true, b2n_false, bgClk_run, bgClk_idle, bgClk_exited, bgClk_parked, bgClk_clearW, bgClk_afterCmd, bphClk, St.bg, onOk, onErr, selNext, afterSetErr, srAllW, srW] <;> (try omega)
  | cmFlushOk _ i lg hi =>
    have l1 := le_tot tokW _ _ _ hi
    cases lg <;> (try simp only [St.setDone, St.setBg, ↓reduceIte, Bool.false_eq_true, Bool.and_false, Bool.and_true, Bool.false_and, Bool.true_and]) <;> (repeat' split) <;> simp_all [tot_set_eq _ _ _ _ _ hi, tot_ackWs_tok, tot_ackWs_clk, tot_ackWs_trlk, tokW, b2n_true, b2n_false, bgClk_run, bgClk_idle, bgClk_exited, bgClk_parked, bgClk_clearW, bgClk_afterCmd, bphClk, St.bg, onOk, onErr, selNext, afterSetErr, srAllW, srW] <;> (try omega)
  | cmFlushEmpty _ i lg hi =>
    have l1 := le_tot tokW _ _ _ hi
    cases lg <;> (try simp only [St.setDone, St.setBg, ↓reduceIte, Bool.false_eq_true, Bool.and_false, Bool.and_true, Bool.false_and, Bool.true_and]) <;> (repeat' split) <;> simp_all [tot_set_eq _ _ _ _ _ hi, tot_ackWs_tok, tot_ackWs_clk, tot_ackWs_trlk, tokW, b2n_true, b2n_false, bgClk_run, bgClk_idle, bgClk_exited, bgClk_parked, bgClk_clearW, bgClk_afterCmd, bphClk, St.bg, onOk, onErr, selNext, afterSetErr, srAllW, srW] <;> (try omega)
  | cmFlushFail _ i lg hi =>
    have l1 := le_tot tokW _ _ _ hi
    cases lg <;> (try simp only [St.setDone, St.setBg, ↓reduceIte, Bool.false_eq_true, Bool.and_false, Bool.and_true, Bool.false_and, Bool.true_and]) <;> (repeat' split) <;> simp_all [tot_set_eq _ _ _ _ _ hi, tot_ackWs_tok, tot_ackWs_clk, tot_ackWs_trlk, tokW, b2n_true, b2n_false, bgClk_run, bgClk_idle, bgClk_exited, bgClk_parked, bgClk_clearW, bgClk_afterCmd, bphClk, St.bg, onOk, onErr, selNext, afterSetErr, srAllW, srW] <;> (try omega)
  | cmLockClk _ i lg hi hl =>
    have l1 := le_tot tokW _ _ _ hi
    cases lg <;> (try simp only [St.setDone, St.setBg, ↓reduceIte, Bool.false_eq_true, Bool.and_false, Bool.and_true, Bool.false_and, Bool.true_and]) <;> (repeat' split) <;> simp_all [tot_set_eq _ _ _ _ _ hi, tot_ackWs_tok, tot_ackWs_clk, tot_ackWs_trlk, tokW, b2n_true, b2n_false, bgClk_run, bgClk_idle, bgClk_exited, bgClk_parked, bgClk_clearW, bgClk_afterCmd, bphClk, St.bg, onOk, onErr, selNext, afterSetErr, srAllW, srW] <;> (try omega)
  | cmTryOk _ i k lg hi =>
    have l1 := le_tot tokW _ _ _ hi
    cases lg <;> (try simp only [St.setDone, St.setBg, ↓reduceIte, Bool.false_eq_true, Bool.and_false, Bool.and_true, Bool.false_and, Bool.true_and]) <;> (repeat' split) <;> simp_all [tot_set_eq _ _ _ _ _ hi, tot_ackWs_tok, tot_ackWs_clk, tot_ackWs_trlk, tokW, b2n_true, b2n_false, bgClk_run, bgClk_idle, bgClk_exited, bgClk_parked, bgClk_clearW, bgClk_afterCmd, bphClk, St.bg, onOk, onErr, selNext, afterSetErr, srAllW, srW] <;> (try omega)
  | cmTryFail _ i k lg hi =>
    have l1 := le_tot tokW _ _ _ hi
    cases lg <;> (try simp only [St.setDone, St.setBg, ↓reduceIte, Bool.false_eq_true, Bool.and_false, Bool.and_true, Bool.false_and, Bool.true_and]) <;> (repeat' split) <;> simp_all [tot_set_eq _ _ _ _ _ hi, tot_ackWs_tok, tot_ackWs_clk, tot_ackWs_trlk, tokW, b2n_true, b2n_false, bgClk_run, bgClk_idle, bgClk_exited, bgClk_parked, bgClk_clearW, bgClk_afterCmd, bphClk, St.bg, onOk, onErr, selNext, afterSetErr, srAllW, srW] <;> (try omega)
  | cmSleepTimer _ i k lg hi =>
    have l1 := le_tot tokW _ _ _ hi
    cases lg <;> (try simp only [St.setDone, St.setBg, ↓reduceIte, Bool.false_eq_true, Bool.and_false, Bool.and_true, Bool.false_and, Bool.true_and]) <;> (repeat' split) <;> simp_all [tot_set_eq _ _ _ _ _ hi, tot_ackWs_tok, tot_ackWs_clk, tot_ackWs_trlk, tokW, b2n_true, b2n_false, bgClk_run, bgClk_idle, bgClk_exited, bgClk_parked, bgClk_clearW, bgClk_afterCmd, bphClk, St.bg, onOk, onErr, selNext, afterSetErr, srAllW, srW] <;> (try omega)
  | cmSleepClosed _ i k lg hi hc =>
    have l1 := le_tot tokW _ _ _ hi
    cases lg <;> (try simp only [St.setDone, St.setBg, ↓reduceIte, Bool.false_eq_true, Bool.and_false, Bool.and_true, Bool.false_and, Bool.true_and]) <;> (repeat' split) <;> simp_all [tot_set_eq _ _ _ _ _ hi, tot_ackWs_tok, tot_ackWs_clk, tot_ackWs_trlk, tokW, b2n_true, b2n_false, bgClk_run, bgClk_idle, bgClk_exited, bgClk_parked, bgClk_clearW, bgClk_afterCmd, bphClk, St.bg, onOk, onErr, selNext, afterSetErr, srAllW, srW] <;> (try omega)
  | cmFail3 _ i lg hi =>
    have l1 := le_tot tokW _ _ _ hi
    cases lg <;> (try simp only [St.setDone, St.setBg, ↓reduceIte, Bool.false_eq_true, Bool.and_false, Bool.and_true, Bool.false_and, Bool.true_and]) <;> (repeat' split) <;> simp_all [tot_set_eq _ _ _ _ _ hi, tot_ackWs_tok, tot_ackWs_clk, tot_ackWs_trlk, tokW, b2n_true, b2n_false, bgClk_run, bgClk_idle, bgClk_exited, bgClk_parked, bgClk_clearW, bgClk_afterCmd, bphClk, St.bg, onOk, onErr, selNext, afterSetErr, srAllW, srW] <;> (try omega)
  | cmAfterOk _ i lg hi =>
    have l1 := le_tot tokW _ _ _ hi
    cases lg <;> (try simp only [St.setDone, St.setBg, ↓reduceIte, Bool.false_eq_true, Bool.and_false, Bool.and_true, Bool.false_and, Bool.true_and]) <;> (repeat' split) <;> simp_all [tot_set_eq _ _ _ _ _ hi, tot_ackWs_tok, tot_ackWs_clk, tot_ackWs_trlk, tokW, b2n_true, b2n_false, bgClk_run, bgClk_idle, bgClk_exited, bgClk_parked, bgClk_clearW, bgClk_afterCmd, bphClk, St.bg, onOk, onErr, selNext, afterSetErr, srAllW, srW] <;> (try omega)
  | cmNoWaitComp _ i lg hi =>
    have l1 := le_tot tokW _ _ _ hi
    cases lg <;> (try simp only [St.setDone, St.setBg, ↓reduceIte, Bool.false_eq_true, Bool.and_false, Bool.and_true, Bool.false_and, Bool.true_and]) <;> (repeat' split) <;> simp_all [tot_set_eq _ _ _ _ _ hi, tot_ackWs_tok, tot_ackWs_clk, tot_ackWs_trlk, tokW, b2n_true, b2n_false, bgClk_run, bgClk_idle, bgClk_exited, bgClk_parked, bgClk_clearW, bgClk_afterCmd, bphClk, St.bg, onOk, onErr, selNext, afterSetErr, srAllW, srW] <;> (try omega)
  | cmWaitComp _ i lg hi =>
    have l1 := le_tot tokW _ _ _ hi
    cases lg <;> (try simp only [St.setDone, St.setBg, ↓reduceIte, Bool.false_eq_true, Bool.and_false, Bool.and_true, Bool.false_and, Bool.true_and]) <;> (repeat' split) <;> simp_all [tot_set_eq _ _ _ _ _ hi, tot_ackWs_tok, tot_ackWs_clk, tot_ackWs_trlk, tokW, b2n_true, b2n_false, bgClk_run, bgClk_idle, bgClk_exited, bgClk_parked, bgClk_clearW, bgClk_afterCmd, bphClk, St.bg, onOk, onErr, selNext, afterSetErr, srAllW, srW] <;> (try omega)
  | cmDone _ i lg hi =>
    have l1 := le_tot tokW _ _ _ hi
    cases lg <;> (try simp only [St.setDone, St.setBg, ↓reduceIte, Bool.false_eq_true, Bool.and_false, Bool.and_true, Bool.false_and, Bool.true_and]) <;> (repeat' split) <;> simp_all [tot_set_eq _ _ _ _ _ hi, tot_ackWs_tok, tot_ackWs_clk, tot_ackWs_trlk, tokW, b2n_true, b2n_false, bgClk_run, bgClk_idle, bgClk_exited, bgClk_parked, bgClk_clearW, bgClk_afterCmd, bphClk, St.bg, onOk, onErr, selNext, afterSetErr, srAllW, srW] <;> (try omega)
  | cmRet _ i ok lg hi =>
    have l1 := le_tot tokW _ _ _ hi
    cases ok <;> cases lg <;> (try simp only [St.setDone, St.setBg, ↓reduceIte, Bool.false_eq_true, Bool.and_false, Bool.and_true, Bool.false_and, Bool.true_and]) <;> (repeat' split) <;> simp_all [tot_set_eq _ _ _ _ _ hi, tot_ackWs_tok, tot_ackWs_clk, tot_ackWs_trlk, tokW, b2n_true, b2n_false, bgClk_run, bgClk_idle, bgClk_exited, bgClk_parked, bgClk_clearW, bgClk_afterCmd, bphClk, St.bg, onOk, onErr, selNext, afterSetErr, srAllW, srW] <;> (try omega)
  | dcLockTr _ i lg hi hl =>
    have l1 := le_tot tokW _ _ _ hi
    cases lg <;> (try simp only [St.setDone, St.setBg, ↓reduceIte, Bool.false_eq_true, Bool.and_false, Bool.and_true, Bool.false_and, Bool.true_and]) <;> (repeat' split) <;> simp_all [tot_set_eq _ _ _ _ _ hi, tot_ackWs_tok, tot_ackWs_clk, tot_ackWs_trlk, tokW, b2n_true, b2n_false, bgClk_run, bgClk_idle, bgClk_exited, bgClk_parked, bgClk_clearW, bgClk_afterCmd, bphClk, St.bg, onOk, onErr, selNext, afterSetErr, srAllW, srW] <;> (try omega)
  | dcBody _ i lg hi =>
    have l1 := le_tot tokW _ _ _ hi
    cases lg <;> (try simp only [St.setDone, St.setBg, ↓reduceIte, Bool.false_eq_true, Bool.and_false, Bool.and_true, Bool.false_and, Bool.true_and]) <;> (repeat' split) <;> simp_all [tot_set_eq _ _ _ _ _ hi, tot_ackWs_tok, tot_ackWs_clk, tot_ackWs_trlk, tokW, b2n_true, b2n_false, bgClk_run, bgClk_idle, bgClk_exited, bgClk_parked, bgClk_clearW, bgClk_afterCmd, bphClk, St.bg, onOk, onErr, selNext, afterSetErr, srAllW, srW] <;> (try omega)
  | crNoOverlap _ i hi =>
    have l1 := le_tot tokW _ _ _ hi
    (try simp only [St.setDone, St.setBg, ↓reduceIte, Bool.false_eq_true, Bool.and_false, Bool.and_true, Bool.false_and, Bool.true_and]) <;> (repeat' split) <;> simp_all [tot_set_eq _ _ _ _ _ hi, tot_ackWs_tok, tot_ackWs_clk, tot_ackWs_trlk, tokW, b2n_true, b2n_false, bgClk_run, bgClk_idle, bgClk_exited, bgClk_parked, bgClk_clearW, bgClk_afterCmd, bphClk, St.bg, onOk, onErr, selNext, afterSetErr, srAllW, srW] <;> (try omega)
  | crOverlap _ i hi =>
    have l1 := le_tot tokW _ _ _ hi
    (try simp only [St.setDone, St.setBg, ↓reduceIte, Bool.false_eq_true, Bool.and_false, Bool.and_true, Bool.false_and, Bool.true_and]) <;> (repeat' split) <;> simp_all [tot_set_eq _ _ _ _ _ hi, tot_ackWs_tok, tot_ackWs_clk, tot_ackWs_trlk, tokW, b2n_true, b2n_false, bgClk_run, bgClk_idle, bgClk_exited, bgClk_parked, bgClk_clearW, bgClk_afterCmd, bphClk, St.bg, onOk, onErr, selNext, afterSetErr, srAllW, srW] <;> (try omega)
  | crNewMemOk _ i hi =>
    have l1 := le_tot tokW _ _ _ hi
    (try simp only [St.setDone, St.setBg, ↓reduceIte, Bool.false_eq_true, Bool.and_false, Bool.and_true, Bool.false_and, Bool.true_and]) <;> (repeat' split) <;> simp_all [tot_set_eq _ _ _ _ _ hi, tot_ackWs_tok, tot_ackWs_clk, tot_ackWs_trlk, tokW, b2n_true, b2n_false, bgClk_run, bgClk_idle, bgClk_exited, bgClk_parked, bgClk_clearW, bgClk_afterCmd, bphClk, St.bg, onOk, onErr, selNext, afterSetErr, srAllW, srW] <;> (try omega)
  | crNewMemFail _ i hi =>
    have l1 := le_tot tokW _ _ _ hi
    (try simp only [St.setDone, St.setBg, ↓reduceIte, Bool.false_eq_true, Bool.and_false, Bool.and_true, Bool.false_and, Bool.true_and]) <;> (repeat' split) <;> simp_all [tot_set_eq _ _ _ _ _ hi, tot_ackWs_tok, tot_ackWs_clk, tot_ackWs_trlk, tokW, b2n_true, b2n_false, bgClk_run, bgClk_idle, bgClk_exited, bgClk_parked, bgClk_clearW, bgClk_afterCmd, bphClk, St.bg, onOk, onErr, selNext, afterSetErr, srAllW, srW] <;> (try omega)
  | crRelM _ i hi =>
    have l1 := le_tot tokW _ _ _ hi
    (try simp only [St.setDone, St.setBg, ↓reduceIte, Bool.false_eq_true, Bool.and_false, Bool.and_true, Bool.false_and, Bool.true_and]) <;> (repeat' split) <;> simp_all [tot_set_eq _ _ _ _ _ hi, tot_ackWs_tok, tot_ackWs_clk, tot_ackWs_trlk, tokW, b2n_true, b2n_false, bgClk_run, bgClk_idle, bgClk_exited, bgClk_parked, bgClk_clearW, bgClk_afterCmd, bphClk, St.bg, onOk, onErr, selNext, afterSetErr, srAllW, srW] <;> (try omega)
  | crRelOk _ i hi =>
    have l1 := le_tot tokW _ _ _ hi
    (try simp only [St.setDone, St.setBg, ↓reduceIte, Bool.false_eq_true, Bool.and_false, Bool.and_true, Bool.false_and, Bool.true_and]) <;> (repeat' split) <;> simp_all [tot_set_eq _ _ _ _ _ hi, tot_ackWs_tok, tot_ackWs_clk, tot_ackWs_trlk, tokW, b2n_true, b2n_false, bgClk_run, bgClk_idle, bgClk_exited, bgClk_parked, bgClk_clearW, bgClk_afterCmd, bphClk, St.bg, onOk, onErr, selNext, afterSetErr, srAllW, srW] <;> (try omega)
  | crRelFail _ i hi =>
    have l1 := le_tot tokW _ _ _ hi
    (try simp only [St.setDone, St.setBg, ↓reduceIte, Bool.false_eq_true, Bool.and_false, Bool.and_true, Bool.false_and, Bool.true_and]) <;> (repeat' split) <;> simp_all [tot_set_eq _ _ _ _ _ hi, tot_ackWs_tok, tot_ackWs_clk, tot_ackWs_trlk, tokW, b2n_true, b2n_false, bgClk_run, bgClk_idle, bgClk_exited, bgClk_parked, bgClk_clearW, bgClk_afterCmd, bphClk, St.bg, onOk, onErr, selNext, afterSetErr, srAllW, srW] <;> (try omega)
  | srSend _ i hi he =>
    have l1 := le_tot tokW _ _ _ hi
    (try simp only [St.setDone, St.setBg, ↓reduceIte, Bool.false_eq_true, Bool.and_false, Bool.and_true, Bool.false_and, Bool.true_and]) <;> (repeat' split) <;> simp_all [tot_set_eq _ _ _ _ _ hi, tot_ackWs_tok, tot_ackWs_clk, tot_ackWs_trlk, tokW, b2n_true, b2n_false, bgClk_run, bgClk_idle, bgClk_exited, bgClk_parked, bgClk_clearW, bgClk_afterCmd, bphClk, St.bg, onOk, onErr, selNext, afterSetErr, srAllW, srW] <;> (try omega)
  | srPerErr _ i hi he =>
    have l1 := le_tot tokW _ _ _ hi
    (try simp only [St.setDone, St.setBg, ↓reduceIte, Bool.false_eq_true, Bool.and_false, Bool.and_true, Bool.false_and, Bool.true_and]) <;> (repeat' split) <;> simp_all [tot_set_eq _ _ _ _ _ hi, tot_ackWs_tok, tot_ackWs_clk, tot_ackWs_trlk, tokW, b2n_true, b2n_false, bgClk_run, bgClk_idle, bgClk_exited, bgClk_parked, bgClk_clearW, bgClk_afterCmd, bphClk, St.bg, onOk, onErr, selNext, afterSetErr, srAllW, srW] <;> (try omega)
  | srClosed _ i hi hc =>
    have l1 := le_tot tokW _ _ _ hi
    (try simp only [St.setDone, St.setBg, ↓reduceIte, Bool.false_eq_true, Bool.and_false, Bool.and_true, Bool.false_and, Bool.true_and]) <;> (repeat' split) <;> simp_all [tot_set_eq _ _ _ _ _ hi, tot_ackWs_tok, tot_ackWs_clk, tot_ackWs_trlk, tokW, b2n_true, b2n_false, bgClk_run, bgClk_idle, bgClk_exited, bgClk_parked, bgClk_clearW, bgClk_afterCmd, bphClk, St.bg, onOk, onErr, selNext, afterSetErr, srAllW, srW] <;> (try omega)
  | clCheckTr _ i hi =>
    have l1 := le_tot tokW _ _ _ hi
    (try simp only [St.setDone, St.setBg, ↓reduceIte, Bool.false_eq_true, Bool.and_false, Bool.and_true, Bool.false_and, Bool.true_and]) <;> (repeat' split) <;> simp_all [tot_set_eq _ _ _ _ _ hi, tot_ackWs_tok, tot_ackWs_clk, tot_ackWs_trlk, tokW, b2n_true, b2n_false, bgClk_run, bgClk_idle, bgClk_exited, bgClk_parked, bgClk_clearW, bgClk_afterCmd, bphClk, St.bg, onOk, onErr, selNext, afterSetErr, srAllW, srW] <;> (try omega)
  | clLockTr _ i hi hl =>
    have l1 := le_tot tokW _ _ _ hi
    (try simp only [St.setDone, St.setBg, ↓reduceIte, Bool.false_eq_true, Bool.and_false, Bool.and_true, Bool.false_and, Bool.true_and]) <;> (repeat' split) <;> simp_all [tot_set_eq _ _ _ _ _ hi, tot_ackWs_tok, tot_ackWs_clk, tot_ackWs_trlk, tokW, b2n_true, b2n_false, bgClk_run, bgClk_idle, bgClk_exited, bgClk_parked, bgClk_clearW, bgClk_afterCmd, bphClk, St.bg, onOk, onErr, selNext, afterSetErr, srAllW, srW] <;> (try omega)
  | clBody _ i hi =>
    have l1 := le_tot tokW _ _ _ hi
    (try simp only [St.setDone, St.setBg, ↓reduceIte, Bool.false_eq_true, Bool.and_false, Bool.and_true, Bool.false_and, Bool.true_and]) <;> (repeat' split) <;> simp_all [tot_set_eq _ _ _ _ _ hi, tot_ackWs_tok, tot_ackWs_clk, tot_ackWs_trlk, tokW, b2n_true, b2n_false, bgClk_run, bgClk_idle, bgClk_exited, bgClk_parked, bgClk_clearW, bgClk_afterCmd, bphClk, St.bg, onOk, onErr, selNext, afterSetErr, srAllW, srW] <;> (try omega)
  | clAcq _ i hi ht =>
    have l1 := le_tot tokW _ _ _ hi
    (try simp only [St.setDone, St.setBg, ↓reduceIte, Bool.false_eq_true, Bool.and_false, Bool.and_true, Bool.false_and, Bool.true_and]) <;> (repeat' split) <;> simp_all [tot_set_eq _ _ _ _ _ hi, tot_ackWs_tok, tot_ackWs_clk, tot_ackWs_trlk, tokW, b2n_true, b2n_false, bgClk_run, bgClk_idle, bgClk_exited, bgClk_parked, bgClk_clearW, bgClk_afterCmd, bphClk, St.bg, onOk, onErr, selNext, afterSetErr, srAllW, srW] <;> (try omega)
  | clAcqKept _ i hi he hk hs =>
    have l1 := le_tot tokW _ _ _ hi
    (try simp only [St.setDone, St.setBg, ↓reduceIte, Bool.false_eq_true, Bool.and_false, Bool.and_true, Bool.false_and, Bool.true_and]) <;> (repeat' split) <;> simp_all [tot_set_eq _ _ _ _ _ hi, tot_ackWs_tok, tot_ackWs_clk, tot_ackWs_trlk, tokW, b2n_true, b2n_false, bgClk_run, bgClk_idle, bgClk_exited, bgClk_parked, bgClk_clearW, bgClk_afterCmd, bphClk, St.bg, onOk, onErr, selNext, afterSetErr, srAllW, srW] <;> (try omega)
  | clWait _ i hi hm ht =>
    have l1 := le_tot tokW _ _ _ hi
    (try simp only [St.setDone, St.setBg, ↓reduceIte, Bool.false_eq_true, Bool.and_false, Bool.and_true, Bool.false_and, Bool.true_and]) <;> (repeat' split) <;> simp_all [tot_set_eq _ _ _ _ _ hi, tot_ackWs_tok, tot_ackWs_clk, tot_ackWs_trlk, tokW, b2n_true, b2n_false, bgClk_run, bgClk_idle, bgClk_exited, bgClk_parked, bgClk_clearW, bgClk_afterCmd, bphClk, St.bg, onOk, onErr, selNext, afterSetErr, srAllW, srW] <;> (try omega)
  | ehAcquire _ he ht =>
    (try simp only [St.setDone, St.setBg, ↓reduceIte, Bool.false_eq_true, Bool.and_false, Bool.and_true, Bool.false_and, Bool.true_and]) <;> (repeat' split) <;> simp_all [tot_ackWs_tok, tot_ackWs_clk, tot_ackWs_trlk, tokW, b2n_true, b2n_false, bgClk_run, bgClk_idle, bgClk_exited, bgClk_parked, bgClk_clearW, bgClk_afterCmd, bphClk, St.bg, onOk, onErr, selNext, afterSetErr, srAllW, srW] <;> (try omega)
  | ehClose _ he hc =>
    (try simp only [St.setDone, St.setBg, ↓reduceIte, Bool.false_eq_true, Bool.and_false, Bool.and_true, Bool.false_and, Bool.true_and]) <;> (repeat' split) <;> simp_all [tot_ackWs_tok, tot_ackWs_clk, tot_ackWs_trlk, tokW, b2n_true, b2n_false, bgClk_run, bgClk_idle, bgClk_exited, bgClk_parked, bgClk_clearW, bgClk_afterCmd, bphClk, St.bg, onOk, onErr, selNext, afterSetErr, srAllW, srW] <;> (try omega)
  | ehTake _ he ht =>
    (try simp only [St.setDone, St.setBg, ↓reduceIte, Bool.false_eq_true, Bool.and_false, Bool.and_true, Bool.false_and, Bool.true_and]) <;> (repeat' split) <;> simp_all [tot_ackWs_tok, tot_ackWs_clk, tot_ackWs_trlk, tokW, b2n_true, b2n_false, bgClk_run, bgClk_idle, bgClk_exited, bgClk_parked, bgClk_clearW, bgClk_afterCmd, bphClk, St.bg, onOk, onErr, selNext, afterSetErr, srAllW, srW] <;> (try omega)
  | bgExitIdle _ b hb hc =>
    cases b <;> (try simp only [St.setDone, St.setBg, ↓reduceIte, Bool.false_eq_true, Bool.and_false, Bool.and_true, Bool.false_and, Bool.true_and]) <;> (repeat' split) <;> simp_all [tot_ackWs_tok, tot_ackWs_clk, tot_ackWs_trlk, tokW, b2n_true, b2n_false, bgClk_run, bgClk_idle, bgClk_exited, bgClk_parked, bgClk_clearW, bgClk_afterCmd, bphClk, St.bg, onOk, onErr, selNext, afterSetErr, srAllW, srW] <;> (try omega)
  | bgExitParked _ hb hc =>
    (try simp only [St.setDone, St.setBg, ↓reduceIte, Bool.false_eq_true, Bool.and_false, Bool.and_true, Bool.false_and, Bool.true_and]) <;> (repeat' split) <;> simp_all [tot_ackWs_tok, tot_ackWs_clk, tot_ackWs_trlk, tokW, b2n_true, b2n_false, bgClk_run, bgClk_idle, bgClk_exited, bgClk_parked, bgClk_clearW, bgClk_afterCmd, bphClk, St.bg, onOk, onErr, selNext, afterSetErr, srAllW, srW] <;> (try omega)
  | bgWorkCorrupt _ b w hb hk =>
    cases b <;> (try simp only [St.setDone, St.setBg, ↓reduceIte, Bool.false_eq_true, Bool.and_false, Bool.and_true, Bool.false_and, Bool.true_and]) <;> (repeat' split) <;> simp_all [tot_ackWs_tok, tot_ackWs_clk, tot_ackWs_trlk, tokW, b2n_true, b2n_false, bgClk_run, bgClk_idle, bgClk_exited, bgClk_parked, bgClk_clearW, bgClk_afterCmd, bphClk, St.bg, onOk, onErr, selNext, afterSetErr, srAllW, srW] <;> (try omega)
  | bgCommitCorrupt _ b w hb hk =>
    cases b <;> (try simp only [St.setDone, St.setBg, ↓reduceIte, Bool.false_eq_true, Bool.and_false, Bool.and_true, Bool.false_and, Bool.true_and]) <;> (repeat' split) <;> simp_all [tot_ackWs_tok, tot_ackWs_clk, tot_ackWs_trlk, tokW, b2n_true, b2n_false, bgClk_run, bgClk_idle, bgClk_exited, bgClk_parked, bgClk_clearW, bgClk_afterCmd, bphClk, St.bg, onOk, onErr, selNext, afterSetErr, srAllW, srW] <;> (try omega)
  | bgSetErrCorrupt _ b w c hb he =>
    cases b <;> cases c <;> (try simp only [St.setDone, St.setBg, ↓reduceIte, Bool.false_eq_true, Bool.and_false, Bool.and_true, Bool.false_and, Bool.true_and]) <;> (repeat' split) <;> simp_all [tot_ackWs_tok, tot_ackWs_clk, tot_ackWs_trlk, tokW, b2n_true, b2n_false, bgClk_run, bgClk_idle, bgClk_exited, bgClk_parked, bgClk_clearW, bgClk_afterCmd, bphClk, St.bg, onOk, onErr, selNext, afterSetErr, srAllW, srW] <;> (try omega)
  | bgWorkOk _ b w hb =>
    cases b <;> (try simp only [St.setDone, St.setBg, ↓reduceIte, Bool.false_eq_true, Bool.and_false, Bool.and_true, Bool.false_and, Bool.true_and]) <;> (repeat' split) <;> simp_all [tot_ackWs_tok, tot_ackWs_clk, tot_ackWs_trlk, tokW, b2n_true, b2n_false, bgClk_run, bgClk_idle, bgClk_exited, bgClk_parked, bgClk_clearW, bgClk_afterCmd, bphClk, St.bg, onOk, onErr, selNext, afterSetErr, srAllW, srW] <;> (try omega)
  | bgWorkFail _ b w hb =>
    cases b <;> (try simp only [St.setDone, St.setBg, ↓reduceIte, Bool.false_eq_true, Bool.and_false, Bool.and_true, Bool.false_and, Bool.true_and]) <;> (repeat' split) <;> simp_all [tot_ackWs_tok, tot_ackWs_clk, tot_ackWs_trlk, tokW, b2n_true, b2n_false, bgClk_run, bgClk_idle, bgClk_exited, bgClk_parked, bgClk_clearW, bgClk_afterCmd, bphClk, St.bg, onOk, onErr, selNext, afterSetErr, srAllW, srW] <;> (try omega)
  | bgCommitOk _ b w hb =>
    cases b <;> (try simp only [St.setDone, St.setBg, ↓reduceIte, Bool.false_eq_true, Bool.and_false, Bool.and_true, Bool.false_and, Bool.true_and]) <;> (repeat' split) <;> simp_all [tot_ackWs_tok, tot_ackWs_clk, tot_ackWs_trlk, tokW, b2n_true, b2n_false, bgClk_run, bgClk_idle, bgClk_exited, bgClk_parked, bgClk_clearW, bgClk_afterCmd, bphClk, St.bg, onOk, onErr, selNext, afterSetErr, srAllW, srW] <;> (try omega)
  | bgCommitFail _ b w hb =>
    cases b <;> (try simp only [St.setDone, St.setBg, ↓reduceIte, Bool.false_eq_true, Bool.and_false, Bool.and_true, Bool.false_and, Bool.true_and]) <;> (repeat' split) <;> simp_all [tot_ackWs_tok, tot_ackWs_clk, tot_ackWs_trlk, tokW, b2n_true, b2n_false, bgClk_run, bgClk_idle, bgClk_exited, bgClk_parked, bgClk_clearW, bgClk_afterCmd, bphClk, St.bg, onOk, onErr, selNext, afterSetErr, srAllW, srW] <;> (try omega)
  | bgSetErr _ b w ok c hb he =>
    cases b <;> cases ok <;> cases c <;> (try simp only [St.setDone, St.setBg, ↓reduceIte, Bool.false_eq_true, Bool.and_false, Bool.and_true, Bool.false_and, Bool.true_and]) <;> (repeat' split) <;> simp_all [tot_ackWs_tok, tot_ackWs_clk, tot_ackWs_trlk, tokW, b2n_true, b2n_false, bgClk_run, bgClk_idle, bgClk_exited, bgClk_parked, bgClk_clearW, bgClk_afterCmd, bphClk, St.bg, onOk, onErr, selNext, afterSetErr, srAllW, srW] <;> (try omega)
  | bgSetErrPer _ b w c hb he =>
    cases b <;> cases c <;> (try simp only [St.setDone, St.setBg, ↓reduceIte, Bool.false_eq_true, Bool.and_false, Bool.and_true, Bool.false_and, Bool.true_and]) <;> (repeat' split) <;> simp_all [tot_ackWs_tok, tot_ackWs_clk, tot_ackWs_trlk, tokW, b2n_true, b2n_false, bgClk_run, bgClk_idle, bgClk_exited, bgClk_parked, bgClk_clearW, bgClk_afterCmd, bphClk, St.bg, onOk, onErr, selNext, afterSetErr, srAllW, srW] <;> (try omega)
  | bgBackoff _ b w c hb =>
    cases b <;> cases c <;> (try simp only [St.setDone, St.setBg, ↓reduceIte, Bool.false_eq_true, Bool.and_false, Bool.and_true, Bool.false_and, Bool.true_and]) <;> (repeat' split) <;> simp_all [tot_ackWs_tok, tot_ackWs_clk, tot_ackWs_trlk, tokW, b2n_true, b2n_false, bgClk_run, bgClk_idle, bgClk_exited, bgClk_parked, bgClk_clearW, bgClk_afterCmd, bphClk, St.bg, onOk, onErr, selNext, afterSetErr, srAllW, srW] <;> (try omega)
  | bgLockClk _ b w hb hl =>
    cases b <;> (try simp only [St.setDone, St.setBg, ↓reduceIte, Bool.false_eq_true, Bool.and_false, Bool.and_true, Bool.false_and, Bool.true_and]) <;> (repeat' split) <;> simp_all [tot_ackWs_tok, tot_ackWs_clk, tot_ackWs_trlk, tokW, b2n_true, b2n_false, bgClk_run, bgClk_idle, bgClk_exited, bgClk_parked, bgClk_clearW, bgClk_afterCmd, bphClk, St.bg, onOk, onErr, selNext, afterSetErr, srAllW, srW] <;> (try omega)
  | bgAck _ b w hb =>
    cases b <;> (try simp only [St.setDone, St.setBg, ↓reduceIte, Bool.false_eq_true, Bool.and_false, Bool.and_true, Bool.false_and, Bool.true_and]) <;> (repeat' split) <;> simp_all [tot_ackWs_tok, tot_ackWs_clk, tot_ackWs_trlk, tokW, b2n_true, b2n_false, bgClk_run, bgClk_idle, bgClk_exited, bgClk_parked, bgClk_clearW, bgClk_afterCmd, bphClk, St.bg, onOk, onErr, selNext, afterSetErr, srAllW, srW] <;> (try omega)
  | bgExit _ b w ph hb hx =>
    cases b <;> cases ph <;> (try simp only [St.setDone, St.setBg, ↓reduceIte, Bool.false_eq_true, Bool.and_false, Bool.and_true, Bool.false_and, Bool.true_and]) <;> (repeat' split) <;> simp_all [tot_ackWs_tok, tot_ackWs_clk, tot_ackWs_trlk, tokW, b2n_true, b2n_false, bgClk_run, bgClk_idle, bgClk_exited, bgClk_parked, bgClk_clearW, bgClk_afterCmd, bphClk, St.bg, onOk, onErr, selNext, afterSetErr, srAllW, srW] <;> (try omega)

end GoLevel.Locks
