import GoLevel.Proofs.ConcBasicStep
/-!
# The cover invariant (I3): buffers and tables together answer like the history, at every position
at or above the compaction floor
-/
namespace GoLevel.Conc

/-- private entries not yet in a version, and the write buffer -/
def bufPartL (σ : State) : List Entry := privOut σ.tr ++ memBuf σ
/-- … plus the frozen buffer: everything a read consults besides the tables -/
def bufPart (σ : State) : List Entry := bufPartL σ ++ frozenBuf σ

structure Cover (c : UCmp) (σ : State) : Prop where
  /-- the buffers are an intact top segment of everything written -/
  intact : ∀ h ∈ univ σ, h ∈ bufPart σ ∨ ∀ x ∈ bufPart σ, h.seq < x.seq
  order : ∀ f ∈ frozenBuf σ, ∀ m ∈ bufPartL σ, f.seq < m.seq
  cov : ∀ k s, σ.floor ≤ s → view c (bufPart σ ++ σ.tabs) k s = view c (univ σ) k s
  /-- once the flush is committed the frozen buffer is redundant -/
  cov2 : σ.flushed = true → ∀ k s, σ.floor ≤ s → view c (bufPartL σ ++ σ.tabs) k s = view c (univ σ) k s

theorem cover_init (c : UCmp) : Cover c init := by
  constructor <;> simp [init, univ, privOf, bufPart, bufPartL, privOut, memBuf, frozenBuf, optBuf, getBuf]

theorem privOut_sub (tr : Option TrState) : ∀ e ∈ privOut tr, e ∈ privOf tr := by
  intro e he
  cases tr with
  | none => cases he
  | some t =>
    simp only [privOut] at he
    split at he
    · cases he
    · exact he

theorem Basic.bufPartL_univ {σ : State} (hb : Basic σ) : ∀ e ∈ bufPartL σ, e ∈ univ σ := by
  intro e he
  rcases List.mem_append.1 he with he | he
  · exact List.mem_append_right _ (privOut_sub _ e he)
  · exact hb.buf_univ _ e he

theorem Basic.frozenBuf_univ {σ : State} (hb : Basic σ) : ∀ e ∈ frozenBuf σ, e ∈ univ σ :=
  fun e he => List.mem_append_left _ (hb.optBuf_hist _ e he)

theorem Basic.bufPart_univ {σ : State} (hb : Basic σ) : ∀ e ∈ bufPart σ, e ∈ univ σ := by
  intro e he
  rcases List.mem_append.1 he with he | he
  · exact hb.bufPartL_univ e he
  · exact hb.frozenBuf_univ e he

theorem Basic.src_univ {σ : State} (hb : Basic σ) : ∀ e ∈ bufPart σ ++ σ.tabs, e ∈ univ σ := by
  intro e he
  rcases List.mem_append.1 he with he | he
  · exact hb.bufPart_univ e he
  · exact hb.tab_univ e he

theorem Basic.srcL_univ {σ : State} (hb : Basic σ) : ∀ e ∈ bufPartL σ ++ σ.tabs, e ∈ univ σ := by
  intro e he
  rcases List.mem_append.1 he with he | he
  · exact hb.bufPartL_univ e he
  · exact hb.tab_univ e he

/-- a frozen buffer excludes an open transaction -/
theorem Basic.privOut_nil_of_frozen {σ : State} (hb : Basic σ) (h : σ.frozen ≠ none) : privOut σ.tr = [] := by
  cases ht : σ.tr with
  | none => rfl
  | some t => exact absurd (hb.trExcl t ht).2.2.1 h

/-- the logical buffer part is intact too -/
theorem Cover.intactL {c : UCmp} {σ : State} (hc : Cover c σ) :
    ∀ h ∈ univ σ, h ∈ bufPartL σ ∨ ∀ x ∈ bufPartL σ, h.seq < x.seq := by
  intro h hh
  rcases hc.intact h hh with h1 | h1
  · rcases List.mem_append.1 h1 with h1 | h1
    · exact Or.inl h1
    · exact Or.inr (hc.order h h1)
  · exact Or.inr (fun x hx => h1 x (List.mem_append_left _ hx))

end GoLevel.Conc
