import GoLevel.Proofs.CacheLocksDrain
/-! The lock-level cache system (C17), part 9: `Phi` never grows while `Close` is announced, and a holder's step
makes it smaller. -/
namespace GoLevel.CacheL
open GoLevel.CacheM

set_option linter.unusedSimpArgs false

theorem wt_pos (B : Nat) (i : Instr) : 1 ≤ wt B i := by
  cases i <;> simp [wt] <;> omega

theorem set_self {α : Type} {l : List α} {t : Nat} {a : α} (h : l[t]? = some a) : l.set t a = l := by
  apply List.ext_getElem?; intro j
  by_cases hj : j = t
  · subst hj; rw [get_set_self h, h]
  · rw [get_set_ne hj]

/-- The lock bookkeeping of a base step changes at most the stepping thread's `held`. -/
theorem afterBase_tl {ls : LSys} {t : Nat} {th : LThread} {i : Instr} {b' : Sys} (hth : ls.tl[t]? = some th) :
    ∃ held', (afterBase ls t th i b').tl = ls.tl.set t { th with held := held' } ∧
      (held' = th.held ∨ (∃ l', rlockOf ls i = some l' ∧ held' = l' :: th.held) ∨ (∃ l', th.held = l' :: held')) := by
  unfold afterBase
  split
  · rename_i l hl
    split
    · exact ⟨l :: th.held, by simp, Or.inr (Or.inl ⟨l, hl, rfl⟩)⟩
    · exact ⟨th.held, by simp [set_self hth], Or.inl rfl⟩
  · split
    · split
      · rename_i l rest hh
        exact ⟨rest, by simp, Or.inr (Or.inr ⟨l, hh⟩)⟩
      · exact ⟨th.held, by simp [set_self hth], Or.inl rfl⟩
    · exact ⟨th.held, by simp [set_self hth], Or.inl rfl⟩

/-- A base step of thread `t` (not the `RLock` of a call), seen from any lock state `ls'` that has the new base
and the new `held` of thread `t`. -/
theorem phi_thread_step {ls ls' : LSys} {l : LockId} {t : Nat} {th : LThread} {i : Instr} {rest : List Instr}
    {sh' : Shared} {push : List Instr} {evs : List Ev} {held' : List LockId}
    (hth : ls.tl[t]? = some th) (hT : ls.base.threads[t]? = some (i :: rest))
    (he : exec ls.base.sh i = some (sh', push, evs))
    (hbase : ls'.base = { sh := sh', threads := ls.base.threads.set t (push ++ rest), log := ls.base.log ++ evs })
    (htl : ls'.tl = ls.tl.set t { th with held := held' })
    (hen : isEnter i = false) (hcl : isCloseLock i = false ∨ l ∉ th.held)
    (hheld : l ∈ held' → l ∈ th.held) :
    ls'.tl.length = ls.tl.length ∧ bnd ls'.base ≤ bnd ls.base ∧
    (∀ j, phiAt l ls' (bnd ls'.base) j ≤ phiAt l ls (bnd ls.base) j) ∧
    (l ∈ th.held → isCloseLock i = false → phiAt l ls' (bnd ls'.base) t < phiAt l ls (bnd ls.base) t) := by
  have hcp : (pending ls'.base).countP promoteLike + (i :: rest).countP promoteLike =
      (pending ls.base).countP promoteLike + (push ++ rest).countP promoteLike := by
    rw [hbase]; exact countP_set_flatten promoteLike hT
  have hbe := bnd_exec he hen
  have hmem : i ∈ pending ls.base := mem_of_getElem?_flatten _ t _ i hT List.mem_cons_self
  have hR : ls'.base.sh.lru.recent.length = sh'.lru.recent.length := by rw [hbase]
  rw [List.countP_cons, List.countP_append] at hcp
  have hB : bnd ls'.base ≤ bnd ls.base := by
    unfold bnd; rw [hR]
    by_cases hp : promoteLike i = true
    · have := List.countP_pos_iff.mpr ⟨i, hmem, hp⟩
      simp only [hp, if_true] at hcp hbe; omega
    · simp only [hp, Bool.false_eq_true, if_false] at hcp hbe; omega
  have hBi : ls.base.sh.lru.recent.length + (if promoteLike i then 1 else 0) ≤ bnd ls.base := by
    unfold bnd
    by_cases hp : promoteLike i = true
    · have := List.countP_pos_iff.mpr ⟨i, hmem, hp⟩
      simp only [hp, if_true]; omega
    · simp only [hp, Bool.false_eq_true, if_false]; omega
  have hstep : isCloseLock i = false → tw (bnd ls.base) push < wt (bnd ls.base) i := fun hc =>
    step_weight he hc hen hBi
  have hth' : ls'.tl[t]? = some { th with held := held' } := by rw [htl]; exact get_set_self hth
  have hT' : ls'.base.threads[t]? = some (push ++ rest) := by rw [hbase]; exact get_set_self hT
  refine ⟨by rw [htl]; simp, hB, fun j => ?_, fun hl hc => ?_⟩
  · by_cases hj : j = t
    · subst hj
      rw [phiAt_eq hth' hT', phiAt_eq hth hT]
      by_cases hl' : l ∈ held'
      · have hl := hheld hl'
        have hc : isCloseLock i = false := by
          rcases hcl with h1 | h1
          · exact h1
          · exact absurd hl h1
        have h1 := tw_mono hB (push ++ rest)
        have h2 := hstep hc
        simp only [hl', hl, if_true, tw_append, tw_cons] at h1 ⊢; omega
      · simp only [hl', if_false]; exact Nat.zero_le _
    · have h1 : ls'.tl[j]? = ls.tl[j]? := by rw [htl]; exact get_set_ne hj
      have h2 : ls'.base.threads[j]? = ls.base.threads[j]? := by rw [hbase]; exact get_set_ne hj
      rw [phiAt_congr h1 h2]; exact phiAt_mono hB j
  · rw [phiAt_eq hth' hT', phiAt_eq hth hT]
    have h1 := tw_mono hB (push ++ rest)
    have h2 := hstep hc
    have h3 := wt_pos (bnd ls.base) i
    simp only [hl, if_true, tw_append, tw_cons] at h1 ⊢
    split <;> omega

/-- An ordinary step of thread `t` (idle phase, not `Close`, not the `RLock` of a call). -/
theorem phi_base_step {ls : LSys} {l : LockId} {t : Nat} {th : LThread} {i : Instr} {rest : List Instr} {b' : Sys}
    (hth : ls.tl[t]? = some th) (hT : ls.base.threads[t]? = some (i :: rest))
    (hen : isEnter i = false) (hcl : isCloseLock i = false ∨ l ∉ th.held)
    (hnew : ∀ l', rlockOf ls i = some l' → l' ≠ l)
    (hs : sysStep false ls.base (.step t) = some b') :
    (afterBase ls t th i b').tl.length = ls.tl.length ∧
    (∀ j, phiAt l (afterBase ls t th i b') (bnd (afterBase ls t th i b').base) j ≤ phiAt l ls (bnd ls.base) j) ∧
    (l ∈ th.held → isCloseLock i = false →
      phiAt l (afterBase ls t th i b') (bnd (afterBase ls t th i b').base) t < phiAt l ls (bnd ls.base) t) := by
  rcases sysStep_cases hs with ⟨_, _, hcall, _⟩ | ⟨t', i', rest', sh', push, evs, hact, ht', he, _, rfl⟩
  · cases hcall
  injection hact with hact; subst hact
  rw [hT] at ht'; injection ht' with ht'; injection ht' with hi hr; subst hi; subst hr
  obtain ⟨held', htl, hheld⟩ := afterBase_tl (i := i)
    (b' := { sh := sh', threads := ls.base.threads.set t (push ++ rest), log := ls.base.log ++ evs }) hth
  have := phi_thread_step (l := l) hth hT he (afterBase_base _ _ _ _ _) htl hen hcl (by
    intro hl'
    rcases hheld with h1 | ⟨l', h1, h2⟩ | ⟨l', h1⟩
    · rw [h1] at hl'; exact hl'
    · rw [h2] at hl'
      rcases List.mem_cons.mp hl' with h3 | h3
      · exact absurd h3.symm (hnew l' h1)
      · exact h3
    · rw [h1]; exact List.mem_cons_of_mem _ hl')
  exact ⟨this.1, this.2.2.1, this.2.2.2⟩

/-- **`Phi` never grows** while a `Close` is announced on `mu` and on the lock in question (no new readers). -/
theorem phi_noninc {ls ls' : LSys} {a : Act} {l : LockId} (hr : LReachable ls) (huum : ls.unrefUsesMu = false)
    (hmw : ls.mu.writer ≠ none) (hlw : (ls.lock l).writer ≠ none) (hs : lstep ls a = some ls') :
    Phi l ls' ≤ Phi l ls := by
  have hI := linv_reachable hr huum
  suffices h : ls'.tl.length = ls.tl.length ∧ ∀ j, phiAt l ls' (bnd ls'.base) j ≤ phiAt l ls (bnd ls.base) j by
    unfold Phi; rw [h.1]; exact sum_le_pointwise (fun j _ => h.2 j)
  have hphase : ∀ {t : Nat} {th : LThread} {p : Phase} {mu' un' : RW}, ls.tl[t]? = some th →
      ({ ls with tl := ls.tl.set t { th with phase := p }, mu := mu', un := un' } : LSys).tl.length = ls.tl.length ∧
      ∀ j, phiAt l { ls with tl := ls.tl.set t { th with phase := p }, mu := mu', un := un' } (bnd ls.base) j ≤
        phiAt l ls (bnd ls.base) j := by
    intro t th p mu' un' hth
    refine ⟨by simp, fun j => ?_⟩
    by_cases hj : j = t
    · subst hj
      simp [phiAt, get_set_self hth, hth]
    · simp [phiAt, get_set_ne hj]
  cases a with
  | call t c =>
    simp only [lstep] at hs
    cases hth : ls.tl[t]? with
    | none => simp [hth] at hs
    | some th =>
      simp only [hth] at hs
      split at hs
      · cases hb : sysStep false ls.base (.call t c) with
        | none => rw [hb] at hs; cases hs
        | some b' =>
          rw [hb] at hs
          have := (Option.some.inj hs).symm; subst this
          rcases sysStep_cases hb with ⟨t', c', hact, ht', _, rfl⟩ | ⟨_, _, _, _, _, _, hact, _⟩
          · injection hact with h1 h2; subst h1; subst h2
            have hheld : th.held = [] := by simpa using hI.k1 t th [] hth ht'
            have hcp := countP_set_flatten (new := startCall c) promoteLike ht'
            have hB : bnd { ls.base with threads := ls.base.threads.set t (startCall c) } = bnd ls.base := by
              have h0 : (startCall c).countP promoteLike = 0 := by cases c <;> simp [startCall, promoteLike]
              unfold bnd pending
              simp only [List.countP_nil] at hcp
              simp only []; omega
            refine ⟨rfl, fun j => ?_⟩
            simp only [hB]
            by_cases hj : j = t
            · subst hj
              simp [phiAt, hth, hheld]
            · simp [phiAt, get_set_ne hj]
          · cases hact
      · cases hs
  | step t =>
    obtain ⟨th, T, hth, hT, hc⟩ := lstepThread_cases hs
    rcases hc with ⟨_, _, rfl⟩ | ⟨_, hu, _⟩ | ⟨_, _, _, rfl⟩ | ⟨_, _, rfl⟩ | ⟨hp, hb⟩ | ⟨_, rfl⟩ | ⟨_, rfl⟩ |
      ⟨_, _, _, rfl⟩ | ⟨hp, i, rest, b', hTi, hcl, hfree, hb, rfl⟩
    · exact hphase hth
    · rw [huum] at hu; cases hu
    · exact hphase hth
    · exact hphase hth
    · -- the body of `Close`
      obtain ⟨b', hsb, rfl⟩ := closeBody_cases hb
      have hk3 := hI.k3 t th T hth hT (by rw [hp]; simp)
      obtain ⟨f, hTf⟩ := hk3.2 (by rw [hp]; rfl)
      subst hTf
      have h1 := phi_base_step (l := l) hth hT rfl (Or.inr (by rw [hk3.1]; simp)) (by intro l' hl'; cases hl') hsb
      have hab : afterBase ls t th (.closeLock f) b' = { ls with base := b' } := by
        simp [afterBase, rlockOf, isRunlock]
      rw [hab] at h1
      refine ⟨by simp [setPhase], fun j => ?_⟩
      refine Nat.le_trans (Nat.le_of_eq ?_) (h1.2.1 j)
      simp only [setPhase]
      by_cases hj : j = t
      · subst hj
        simp [phiAt, get_set_self hth, hth]
      · exact phiAt_congr (ls := { ls with base := b' }) (get_set_ne hj) rfl
    · exact hphase hth
    · exact hphase hth
    · exact hphase hth
    · subst hTi
      have hen : isEnter i = false := by
        cases hi : isEnter i with
        | false => rfl
        | true =>
          have : rlockOf ls i = some .mu := by cases i <;> simp_all [isEnter, rlockOf]
          exact absurd (hfree _ this) hmw
      have h1 := phi_base_step (l := l) hth hT hen (Or.inl hcl)
        (by intro l' hl' heq; subst heq; exact hlw (hfree _ hl')) hb
      exact ⟨h1.1, h1.2.1⟩

/-- **A holder's step makes `Phi` smaller**, and every holder can take one (given that `unrefMu` has no writer, or
the holder holds `unrefMu`). -/
theorem phi_holder_dec {ls : LSys} {l : LockId} (hr : LReachable ls) (huum : ls.unrefUsesMu = false)
    (hlw : (ls.lock l).writer ≠ none) {t : Nat} {th : LThread} (hth : ls.tl[t]? = some th) (hl : l ∈ th.held)
    (hun : ls.un.writer = none ∨ LockId.un ∈ th.held) :
    ∃ ls', lstepThread ls t = some ls' ∧ Phi l ls' < Phi l ls := by
  obtain ⟨i, rest, b', hT, hcl, hen, hp, hb, hstep⟩ := holder_enabled hr huum hth hl hun
  refine ⟨_, hstep, ?_⟩
  have hfree : ∀ l', rlockOf ls i = some l' → l' ≠ l := by
    intro l' hl' heq; subst heq
    -- the step is enabled, so the lock it takes has no writer
    obtain ⟨th2, T2, hth2, hT2, hc⟩ := lstepThread_cases hstep
    rw [hth] at hth2; cases hth2
    rw [hT] at hT2; cases hT2
    rcases hc with ⟨h1, _⟩ | ⟨h1, _⟩ | ⟨h1, _⟩ | ⟨h1, _⟩ | ⟨h1, _⟩ | ⟨h1, _⟩ | ⟨h1, _⟩ | ⟨_, ⟨f, r, h2⟩, _⟩ |
      ⟨_, i2, r2, b2, h2, _, hf, _⟩
    any_goals (rw [hp] at h1; cases h1)
    · injection h2 with h2 _; subst h2; simp [isCloseLock] at hcl
    · injection h2 with h2 _; subst h2
      exact hlw (hf _ hl')
  have h1 := phi_base_step (l := l) hth hT hen (Or.inl hcl) hfree hb
  have hlt : t < ls.tl.length := (List.getElem?_eq_some_iff.mp hth).1
  unfold Phi
  rw [h1.1]
  exact sum_lt_pointwise (fun j _ => h1.2.1 j) (List.mem_range.mpr hlt) (h1.2.2 hl hcl)

/-- When nothing is left to do for the holders, there are no holders: the lock has no readers. -/
theorem phi_zero {ls : LSys} {l : LockId} (hr : LReachable ls) (huum : ls.unrefUsesMu = false)
    (h0 : Phi l ls = 0) : (ls.lock l).readers = 0 := by
  have hI := linv_reachable hr huum
  have hcnt : (ls.lock l).readers = cnt l ls.tl := by cases l <;> simp [LSys.lock, hI.k2m, hI.k2u]
  rw [hcnt]
  rcases Nat.eq_zero_or_pos (cnt l ls.tl) with h | h
  · exact h
  · exfalso
    obtain ⟨t, th, hth, hl⟩ := cnt_pos h
    have hlt := (List.getElem?_eq_some_iff.mp hth).1
    have hlt2 : t < ls.base.threads.length := by rw [← hI.len]; exact hlt
    have hT : ls.base.threads[t]? = some ls.base.threads[t] := List.getElem?_eq_getElem hlt2
    have hk1 := hI.k1 t th _ hth hT
    have hpos : 0 < th.held.length := List.length_pos_of_mem hl
    have hphi : 0 < phiAt l ls (bnd ls.base) t := by
      rw [phiAt_eq hth hT, if_pos hl]
      generalize ls.base.threads[t] = T at hk1
      cases T with
      | nil => simp at hk1; simp [hk1] at hpos
      | cons i rest => have := wt_pos (bnd ls.base) i; simp; omega
    have : phiAt l ls (bnd ls.base) t ≤ Phi l ls := by
      unfold Phi
      have hm : t ∈ List.range ls.tl.length := List.mem_range.mpr hlt
      obtain ⟨A, B, hAB⟩ := List.append_of_mem hm
      rw [hAB]; simp only [List.map_append, List.map_cons, List.sum_append, List.sum_cons]; omega
    omega

end GoLevel.CacheL
