import GoLevel.Proofs.ConcView
/-!
# Step inversion lemmas and the basic invariants (I1, I2) of the concurrent system
-/
namespace GoLevel.Conc

/-! ## inversion: what a successful step tells -/

theorem doWriteInsert_some {σ σ' : State} {es : List Entry} (h : doWriteInsert σ es = some σ') :
    σ.tr = none ∧ consec (σ.pub + σ.pending.length) es = true ∧
    σ' = { σ with hist := σ.hist ++ es, bufs := (σ.mem, memBuf σ ++ es) :: σ.bufs, pending := σ.pending ++ es } := by
  unfold doWriteInsert at h; split at h
  · rename_i g; exact ⟨g.1, g.2, (Option.some.inj h).symm⟩
  · cases h

theorem doPublish_some {σ σ' : State} (h : doPublish σ = some σ') :
    σ.tr = none ∧
    σ' = { σ with pub := σ.pub + σ.pending.length, pending := [],
                  groups := ⟨σ.pub, σ.pub + σ.pending.length, σ.pending⟩ :: σ.groups } := by
  unfold doPublish at h; split at h
  · rename_i g; exact ⟨g, (Option.some.inj h).symm⟩
  · cases h

theorem doSeqSkip_some {σ σ' : State} {n : Nat} (h : doSeqSkip σ n = some σ') :
    σ.tr = none ∧ σ.pending = [] ∧
    σ' = { σ with pub := σ.pub + n, groups := ⟨σ.pub, σ.pub + n, []⟩ :: σ.groups } := by
  unfold doSeqSkip at h; split at h
  · rename_i g; exact ⟨g.1, g.2, (Option.some.inj h).symm⟩
  · cases h

theorem doRotate_some {σ σ' : State} (h : doRotate σ = some σ') :
    σ.tr = none ∧ σ.pending = [] ∧ σ.frozen = none ∧
    σ' = { σ with frozen := some σ.mem, mem := σ.nextId, nextId := σ.nextId + 1, flushed := false } := by
  unfold doRotate at h; split at h
  · rename_i g; exact ⟨g.1, g.2.1, g.2.2, (Option.some.inj h).symm⟩
  · cases h

theorem doFlushInstall_some {σ σ' : State} (h : doFlushInstall σ = some σ') :
    ∃ f, σ.frozen = some f ∧ σ.flushed = false ∧
    σ' = { σ with tabs := σ.tabs ++ getBuf σ f, flushed := true } := by
  unfold doFlushInstall at h; split at h
  · rename_i f hf
    split at h
    · rename_i g; exact ⟨f, hf, g, (Option.some.inj h).symm⟩
    · cases h
  · cases h

theorem doFlushDrop_some {cfg : Cfg} {σ σ' : State} (h : doFlushDrop cfg σ = some σ') :
    σ.frozen ≠ none ∧ (σ.flushed = true ∨ cfg.dropEarly = true) ∧
    σ' = { σ with frozen := none, flushed := false } := by
  unfold doFlushDrop at h; split at h
  · rename_i g; exact ⟨g.1, g.2, (Option.some.inj h).symm⟩
  · cases h

theorem doCompStart_some {σ σ' : State} (h : doCompStart σ = some σ') :
    σ.comp = none ∧ σ' = { σ with comp := some (minSeq σ), floor := minSeq σ } := by
  unfold doCompStart at h; split at h
  · rename_i g; exact ⟨g, (Option.some.inj h).symm⟩
  · cases h

theorem doCompCommit_some {σ σ' : State} {nt : List Entry} (h : doCompCommit σ nt = some σ') :
    ∃ m, σ.comp = some m ∧ (∀ e ∈ nt, e ∈ σ.tabs) ∧ σ' = { σ with tabs := nt, comp := none } := by
  unfold doCompCommit at h; split at h
  · rename_i m hm
    split at h
    · rename_i g
      refine ⟨m, hm, ?_, (Option.some.inj h).symm⟩
      intro e he
      have := List.all_eq_true.1 g e he
      exact of_decide_eq_true this
    · cases h
  · cases h

theorem doSnapAcquire_some {σ σ' : State} (h : doSnapAcquire σ = some σ') :
    σ' = { σ with snaps := σ.snaps ++ [(.user σ.nextId, σ.pub)], nextId := σ.nextId + 1 } :=
  (Option.some.inj h).symm

theorem doSnapRelease_some {σ σ' : State} {id : Nat} (h : doSnapRelease σ id = some σ') :
    σ' = { σ with snaps := σ.snaps.filter (fun p => decide (p.1 ≠ .user id)) } :=
  (Option.some.inj h).symm

theorem doRNew_some {σ σ' : State} (h : doRNew σ = some σ') :
    σ' = { σ with readers := σ.readers ++ [{}] } := (Option.some.inj h).symm

theorem doRSeq_some {σ σ' : State} {i : Nat} (h : doRSeq σ i = some σ') :
    ∃ r, σ.readers[i]? = some r ∧ r.seq? = none ∧
    σ' = { σ with readers := σ.readers.set i { r with seq? := some σ.pub, live := true, reg := true },
                  snaps := σ.snaps ++ [(.reader i, σ.pub)] } := by
  unfold doRSeq at h; split at h
  · rename_i r hr
    split at h
    · rename_i g; exact ⟨r, hr, g, (Option.some.inj h).symm⟩
    · cases h
  · cases h

theorem doRSeqSnap_some {σ σ' : State} {i id : Nat} (h : doRSeqSnap σ i id = some σ') :
    ∃ r s, σ.readers[i]? = some r ∧ σ.snaps.lookup (.user id) = some s ∧ r.seq? = none ∧
    σ' = { σ with readers := σ.readers.set i { r with seq? := some s, live := false, reg := true },
                  snaps := σ.snaps ++ [(.reader i, s)] } := by
  unfold doRSeqSnap at h; split at h
  · rename_i r s hr hs
    split at h
    · rename_i g; exact ⟨r, s, hr, hs, g, (Option.some.inj h).symm⟩
    · cases h
  · cases h

theorem doRMems_some {cfg : Cfg} {σ σ' : State} {i : Nat} (h : doRMems cfg σ i = some σ') :
    ∃ r, σ.readers[i]? = some r ∧ r.seq? ≠ none ∧ r.mems? = none ∧ (r.ver? = none ∨ cfg.verFirst = true) ∧
    σ' = setReader σ i { r with mems? := some (σ.mem, σ.frozen) } := by
  unfold doRMems at h; split at h
  · rename_i r hr
    split at h
    · rename_i g; exact ⟨r, hr, g.1, g.2.1, g.2.2, (Option.some.inj h).symm⟩
    · cases h
  · cases h

theorem doRVer_some {cfg : Cfg} {σ σ' : State} {i : Nat} (h : doRVer cfg σ i = some σ') :
    ∃ r, σ.readers[i]? = some r ∧ r.seq? ≠ none ∧ r.ver? = none ∧ (r.mems? ≠ none ∨ cfg.verFirst = true) ∧
    σ' = setReader σ i { r with ver? := some σ.tabs } := by
  unfold doRVer at h; split at h
  · rename_i r hr
    split at h
    · rename_i g; exact ⟨r, hr, g.1, g.2.1, g.2.2, (Option.some.inj h).symm⟩
    · cases h
  · cases h

theorem doRLookup_some {c : UCmp} {σ σ' : State} {i : Nat} {k : Bytes} (h : doRLookup c σ i k = some σ') :
    ∃ r s mf v, σ.readers[i]? = some r ∧ r.seq? = some s ∧ r.mems? = some mf ∧ r.ver? = some v ∧
    σ' = setReader σ i { r with results := r.results ++ [(k, view c (readSrc σ mf v) k s)] } := by
  unfold doRLookup at h; split at h
  · rename_i r hr
    split at h
    · rename_i s mf v hs hm hv; exact ⟨r, s, mf, v, hr, hs, hm, hv, (Option.some.inj h).symm⟩
    · cases h
  · cases h

theorem doRRelease_some {σ σ' : State} {i : Nat} (h : doRRelease σ i = some σ') :
    ∃ r, σ.readers[i]? = some r ∧ r.reg = true ∧ r.mems? ≠ none ∧ r.ver? ≠ none ∧
    σ' = { σ with readers := σ.readers.set i { r with reg := false },
                  snaps := σ.snaps.filter (fun p => decide (p.1 ≠ .reader i)) } := by
  unfold doRRelease at h; split at h
  · rename_i r hr
    split at h
    · rename_i g; exact ⟨r, hr, g.1, g.2.1, g.2.2, (Option.some.inj h).symm⟩
    · cases h
  · cases h

theorem doTrOpen_some {cfg : Cfg} {σ σ' : State} (h : doTrOpen cfg σ = some σ') :
    σ.tr = none ∧ σ.pending = [] ∧ memBuf σ = [] ∧ (σ.frozen = none ∨ cfg.trOverFrozen = true) ∧
    σ' = { σ with tr := some ⟨σ.pub, [], false, []⟩ } := by
  unfold doTrOpen at h; split at h
  · rename_i g; exact ⟨g.1, g.2.1, g.2.2.1, g.2.2.2, (Option.some.inj h).symm⟩
  · cases h

theorem doTrPut_some {σ σ' : State} {e : Entry} (h : doTrPut σ e = some σ') :
    ∃ t, σ.tr = some t ∧ t.installed = false ∧ e.seq = t.base + t.priv.length + 1 ∧
    σ' = { σ with tr := some { t with priv := t.priv ++ [e] } } := by
  unfold doTrPut at h; split at h
  · rename_i t ht
    split at h
    · rename_i g; exact ⟨t, ht, g.1, g.2, (Option.some.inj h).symm⟩
    · cases h
  · cases h

theorem doTrGet_some {c : UCmp} {σ σ' : State} {k : Bytes} (h : doTrGet c σ k = some σ') :
    ∃ t, σ.tr = some t ∧ t.installed = false ∧
    σ' = { σ with tr := some { t with results := t.results ++
      [(k, t.base + t.priv.length,
        view c (t.priv ++ (memBuf σ ++ frozenBuf σ ++ σ.tabs)) k (t.base + t.priv.length))] } } := by
  unfold doTrGet at h; split at h
  · rename_i t ht
    split at h
    · rename_i g; exact ⟨t, ht, g, (Option.some.inj h).symm⟩
    · cases h
  · cases h

theorem doTrInstall_some {σ σ' : State} (h : doTrInstall σ = some σ') :
    ∃ t, σ.tr = some t ∧ t.installed = false ∧
    σ' = { σ with tabs := σ.tabs ++ t.priv, tr := some { t with installed := true } } := by
  unfold doTrInstall at h; split at h
  · rename_i t ht
    split at h
    · rename_i g; exact ⟨t, ht, g, (Option.some.inj h).symm⟩
    · cases h
  · cases h

theorem doTrPublish_some {σ σ' : State} (h : doTrPublish σ = some σ') :
    ∃ t, σ.tr = some t ∧ t.installed = true ∧
    σ' = { σ with hist := σ.hist ++ t.priv, pub := t.base + t.priv.length, tr := none,
                  groups := ⟨t.base, t.base + t.priv.length, t.priv⟩ :: σ.groups } := by
  unfold doTrPublish at h; split at h
  · rename_i t ht
    split at h
    · rename_i g; exact ⟨t, ht, g, (Option.some.inj h).symm⟩
    · cases h
  · cases h

theorem doTrDiscard_some {σ σ' : State} (h : doTrDiscard Cfg.real σ = some σ') :
    ∃ t, σ.tr = some t ∧ t.installed = false ∧
      σ' = { σ with tr := none, pub := max σ.pub (t.base + t.priv.length),
                    groups := ⟨σ.pub, max σ.pub (t.base + t.priv.length), []⟩ :: σ.groups } := by
  unfold doTrDiscard at h; split at h
  · rename_i t ht
    split at h
    · rename_i g; exact ⟨t, ht, g, (Option.some.inj h).symm⟩
    · cases h
  · cases h

end GoLevel.Conc
