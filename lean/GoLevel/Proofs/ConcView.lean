import GoLevel.Model.Conc
/-!
# `newest` / `view` as functions of the *set* of entries (for collections with unique sequence numbers)

Everything the concurrency proofs need to know about `view`:
* `newest_congr` / `view_congr_le`: only the members at or below the read position matter;
* `view_newer_congr`: appending the same strictly newer entries to two collections with equal views keeps
  the views equal (a write);
* `view_comp_congr`: replacing the tables by a view-equivalent collection under a buffer part that is an
  intact top segment of the history keeps the read result (a compaction).
-/
namespace GoLevel.Conc

variable {c : UCmp} {k : Bytes} {s : Nat}

def Match (c : UCmp) (k : Bytes) (s : Nat) (e : Entry) : Prop := c.cmp e.ukey k = .eq ∧ e.seq ≤ s

/-- sequence numbers identify entries -/
def Uniq (L : List Entry) : Prop := ∀ a ∈ L, ∀ b ∈ L, a.seq = b.seq → a = b

theorem Uniq.sub {L U : List Entry} (hU : Uniq U) (h : ∀ e ∈ L, e ∈ U) : Uniq L :=
  fun a ha b hb hab => hU a (h a ha) b (h b hb) hab

theorem num_lt_of_seq_lt {a b : Entry} (h : a.seq < b.seq) : a.key.num < b.key.num := by
  simp only [Entry.seq, IKey.seq] at h; omega

theorem seq_le_of_num_le {a b : Entry} (h : a.key.num ≤ b.key.num) : a.seq ≤ b.seq := by
  simp only [Entry.seq, IKey.seq]; omega

def nstep (c : UCmp) (k : Bytes) (s : Nat) (best : Option Entry) (e : Entry) : Option Entry :=
  if c.cmp e.ukey k = .eq ∧ e.seq ≤ s then
    match best with
    | some b => if e.key.num > b.key.num then some e else best
    | none => some e
  else best

theorem newest_eq_foldl (es : List Entry) : newest c es k s = es.foldl (nstep c k s) none := rfl

theorem fold_spec (L : List Entry) : ∀ (acc : Option Entry) (r : Entry),
    L.foldl (nstep c k s) acc = some r →
    (acc = some r ∨ (r ∈ L ∧ Match c k s r)) ∧ (∀ e ∈ L, Match c k s e → e.key.num ≤ r.key.num) ∧
    (∀ b, acc = some b → b.key.num ≤ r.key.num) := by
  induction L with
  | nil =>
    intro acc r h
    simp only [List.foldl_nil] at h
    subst h
    refine ⟨Or.inl rfl, by simp, ?_⟩
    intro b hb; cases hb; exact Nat.le_refl _
  | cons x xs ih =>
    intro acc r h
    simp only [List.foldl_cons] at h
    obtain ⟨h1, h2, h3⟩ := ih _ _ h
    by_cases hm : c.cmp x.ukey k = .eq ∧ x.seq ≤ s
    · -- x matches
      cases acc with
      | none =>
        have hn : nstep c k s none x = some x := by simp [nstep, hm]
        rw [hn] at h1 h3
        refine ⟨Or.inr ?_, ?_, by simp⟩
        · rcases h1 with h1 | h1
          · cases h1; exact ⟨List.mem_cons_self, hm⟩
          · exact ⟨List.mem_cons_of_mem _ h1.1, h1.2⟩
        · intro e he hme
          rcases List.mem_cons.1 he with rfl | he
          · exact h3 _ rfl
          · exact h2 e he hme
      | some b =>
        by_cases hgt : x.key.num > b.key.num
        · have hn : nstep c k s (some b) x = some x := by simp [nstep, hm, hgt]
          rw [hn] at h1 h3
          have hx := h3 _ rfl
          refine ⟨Or.inr ?_, ?_, ?_⟩
          · rcases h1 with h1 | h1
            · cases h1; exact ⟨List.mem_cons_self, hm⟩
            · exact ⟨List.mem_cons_of_mem _ h1.1, h1.2⟩
          · intro e he hme
            rcases List.mem_cons.1 he with rfl | he
            · exact hx
            · exact h2 e he hme
          · intro b' hb'; cases hb'; omega
        · have hn : nstep c k s (some b) x = some b := by simp [nstep, hm, hgt]
          rw [hn] at h1 h3
          have hb := h3 _ rfl
          refine ⟨?_, ?_, ?_⟩
          · rcases h1 with h1 | h1
            · exact Or.inl h1
            · exact Or.inr ⟨List.mem_cons_of_mem _ h1.1, h1.2⟩
          · intro e he hme
            rcases List.mem_cons.1 he with rfl | he
            · omega
            · exact h2 e he hme
          · intro b' hb'; cases hb'; exact hb
    · have hn : nstep c k s acc x = acc := by simp [nstep, hm]
      rw [hn] at h1 h3
      refine ⟨?_, ?_, h3⟩
      · rcases h1 with h1 | h1
        · exact Or.inl h1
        · exact Or.inr ⟨List.mem_cons_of_mem _ h1.1, h1.2⟩
      · intro e he hme
        rcases List.mem_cons.1 he with rfl | he
        · exact absurd hme hm
        · exact h2 e he hme

theorem fold_none (L : List Entry) : ∀ (acc : Option Entry),
    L.foldl (nstep c k s) acc = none ↔ acc = none ∧ ∀ e ∈ L, ¬ Match c k s e := by
  induction L with
  | nil => intro acc; simp
  | cons x xs ih =>
    intro acc
    simp only [List.foldl_cons, ih]
    by_cases hm : c.cmp x.ukey k = .eq ∧ x.seq ≤ s
    · constructor
      · intro ⟨h, _⟩
        exfalso
        cases acc with
        | none => simp [nstep, hm] at h
        | some b =>
          by_cases hgt : x.key.num > b.key.num <;> simp [nstep, hm, hgt] at h
      · intro ⟨_, h⟩
        exact absurd hm (h x List.mem_cons_self)
    · have hn : nstep c k s acc x = acc := by simp [nstep, hm]
      rw [hn]
      constructor
      · intro ⟨h, h'⟩
        refine ⟨h, ?_⟩
        intro e he
        rcases List.mem_cons.1 he with rfl | he
        · exact hm
        · exact h' e he
      · intro ⟨h, h'⟩
        exact ⟨h, fun e he => h' e (List.mem_cons_of_mem _ he)⟩

theorem newest_none_iff (L : List Entry) : newest c L k s = none ↔ ∀ e ∈ L, ¬ Match c k s e := by
  rw [newest_eq_foldl, fold_none]; simp

/-- `r` is a newest matching member of `L` -/
def Best (c : UCmp) (k : Bytes) (s : Nat) (L : List Entry) (r : Entry) : Prop :=
  r ∈ L ∧ Match c k s r ∧ ∀ e ∈ L, Match c k s e → e.key.num ≤ r.key.num

theorem newest_some_spec {L : List Entry} {r : Entry} (h : newest c L k s = some r) : Best c k s L r := by
  rw [newest_eq_foldl] at h
  obtain ⟨h1, h2, _⟩ := fold_spec L none r h
  rcases h1 with h1 | h1
  · cases h1
  · exact ⟨h1.1, h1.2, h2⟩

theorem newest_of_best {L : List Entry} {r : Entry} (hU : Uniq L) (h : Best c k s L r) :
    newest c L k s = some r := by
  cases hn : newest c L k s with
  | none => exact absurd h.2.1 ((newest_none_iff L).1 hn r h.1)
  | some r' =>
    have h' := newest_some_spec hn
    have e1 := h.2.2 r' h'.1 h'.2.1
    have e2 := h'.2.2 r h.1 h.2.1
    have : r'.seq = r.seq := Nat.le_antisymm (seq_le_of_num_le e1) (seq_le_of_num_le e2)
    rw [hU r' h'.1 r h.1 this]

/-- only the matching members count -/
theorem newest_congr {U L1 L2 : List Entry} (hU : Uniq U) (_h1 : ∀ e ∈ L1, e ∈ U) (h2 : ∀ e ∈ L2, e ∈ U)
    (h : ∀ e, Match c k s e → (e ∈ L1 ↔ e ∈ L2)) : newest c L1 k s = newest c L2 k s := by
  cases hn : newest c L1 k s with
  | none =>
    symm; rw [newest_none_iff]
    intro e he hm
    exact (newest_none_iff L1).1 hn e ((h e hm).2 he) hm
  | some r =>
    symm
    have hb := newest_some_spec hn
    apply newest_of_best (hU.sub h2)
    exact ⟨(h r hb.2.1).1 hb.1, hb.2.1, fun e he hm => hb.2.2 e ((h e hm).2 he) hm⟩

theorem view_congr {U L1 L2 : List Entry} (hU : Uniq U) (h1 : ∀ e ∈ L1, e ∈ U) (h2 : ∀ e ∈ L2, e ∈ U)
    (h : ∀ e, Match c k s e → (e ∈ L1 ↔ e ∈ L2)) : view c L1 k s = view c L2 k s := by
  simp only [view, newest_congr hU h1 h2 h]

/-- only the members at or below the read position count -/
theorem view_congr_le {U L1 L2 : List Entry} (hU : Uniq U) (h1 : ∀ e ∈ L1, e ∈ U) (h2 : ∀ e ∈ L2, e ∈ U)
    (h : ∀ e, e.seq ≤ s → (e ∈ L1 ↔ e ∈ L2)) : view c L1 k s = view c L2 k s :=
  view_congr hU h1 h2 (fun e hm => h e hm.2)

/-- a write: the same strictly newer entries appended to two collections with equal views -/
theorem view_newer_congr {U A A' E : List Entry} (hU : Uniq U)
    (hA : ∀ e ∈ A, e ∈ U) (hA' : ∀ e ∈ A', e ∈ U) (hE : ∀ e ∈ E, e ∈ U)
    (hnew : ∀ e ∈ E, (∀ a ∈ A, a.seq < e.seq) ∧ (∀ a ∈ A', a.seq < e.seq))
    (h : view c A k s = view c A' k s) : view c (A ++ E) k s = view c (A' ++ E) k s := by
  have hAE : ∀ e ∈ A ++ E, e ∈ U := by
    intro e he; rcases List.mem_append.1 he with he | he; exact hA e he; exact hE e he
  have hAE' : ∀ e ∈ A' ++ E, e ∈ U := by
    intro e he; rcases List.mem_append.1 he with he | he; exact hA' e he; exact hE e he
  cases hn : newest c E k s with
  | none =>
    have hno := (newest_none_iff E).1 hn
    have e1 : view c (A ++ E) k s = view c A k s :=
      view_congr hU hAE hA (fun e hm => by
        simp only [List.mem_append]
        exact ⟨fun h => h.elim id (fun h => absurd hm (hno e h)), Or.inl⟩)
    have e2 : view c (A' ++ E) k s = view c A' k s :=
      view_congr hU hAE' hA' (fun e hm => by
        simp only [List.mem_append]
        exact ⟨fun h => h.elim id (fun h => absurd hm (hno e h)), Or.inl⟩)
    rw [e1, e2, h]
  | some r =>
    have hb := newest_some_spec hn
    have b1 : newest c (A ++ E) k s = some r := by
      apply newest_of_best (hU.sub hAE)
      refine ⟨List.mem_append_right _ hb.1, hb.2.1, ?_⟩
      intro e he hm
      rcases List.mem_append.1 he with he | he
      · exact Nat.le_of_lt (num_lt_of_seq_lt ((hnew r hb.1).1 e he))
      · exact hb.2.2 e he hm
    have b2 : newest c (A' ++ E) k s = some r := by
      apply newest_of_best (hU.sub hAE')
      refine ⟨List.mem_append_right _ hb.1, hb.2.1, ?_⟩
      intro e he hm
      rcases List.mem_append.1 he with he | he
      · exact Nat.le_of_lt (num_lt_of_seq_lt ((hnew r hb.1).2 e he))
      · exact hb.2.2 e he hm
    simp only [view, b1, b2]

/-- `B` is an intact top segment of `U` as far as position `s` is concerned: whatever of `U` at or below
`s` is not in `B` is older than all of `B` -/
def Intact (U B : List Entry) (s : Nat) : Prop :=
  ∀ h ∈ U, h.seq ≤ s → h ∈ B ∨ ∀ x ∈ B, h.seq < x.seq

/-- a compaction: under an intact buffer part, swapping the table collection for a view-equivalent one
keeps a correct read correct -/
theorem view_comp_congr {U B T T' : List Entry} (hU : Uniq U)
    (hB : ∀ e ∈ B, e ∈ U) (hT : ∀ e ∈ T, e ∈ U) (hT' : ∀ e ∈ T', e ∈ U)
    (hint : Intact U B s)
    (hcov : view c (B ++ T) k s = view c U k s)
    (heq : view c T' k s = view c T k s) : view c (B ++ T') k s = view c U k s := by
  have hBT : ∀ e ∈ B ++ T, e ∈ U := by
    intro e he; rcases List.mem_append.1 he with he | he; exact hB e he; exact hT e he
  have hBT' : ∀ e ∈ B ++ T', e ∈ U := by
    intro e he; rcases List.mem_append.1 he with he | he; exact hB e he; exact hT' e he
  cases hn : newest c U k s with
  | none =>
    have hno := (newest_none_iff U).1 hn
    have : newest c (B ++ T') k s = none := by
      rw [newest_none_iff]; intro e he; exact hno e (hBT' e he)
    simp only [view, this, hn]
  | some r =>
    have hb := newest_some_spec hn
    rcases hint r hb.1 hb.2.1.2 with hr | hr
    · have : newest c (B ++ T') k s = some r := by
        apply newest_of_best (hU.sub hBT')
        exact ⟨List.mem_append_left _ hr, hb.2.1, fun e he hm => hb.2.2 e (hBT' e he) hm⟩
      simp only [view, this, hn]
    · -- nothing in `B` matches
      have hnoB : ∀ e ∈ B, ¬ Match c k s e := by
        intro e he hm
        have h1 := hb.2.2 e (hB e he) hm
        have h2 := num_lt_of_seq_lt (hr e he)
        omega
      have e1 : view c (B ++ T') k s = view c T' k s :=
        view_congr hU hBT' hT' (fun e hm => by
          simp only [List.mem_append]
          exact ⟨fun h => h.elim (fun h => absurd hm (hnoB e h)) id, Or.inr⟩)
      have e2 : view c (B ++ T) k s = view c T k s :=
        view_congr hU hBT hT (fun e hm => by
          simp only [List.mem_append]
          exact ⟨fun h => h.elim (fun h => absurd hm (hnoB e h)) id, Or.inr⟩)
      rw [e1, heq, ← e2, hcov]

/-- entries above the read position are invisible -/
theorem view_append_above {U A E : List Entry} (hU : Uniq U) (hA : ∀ e ∈ A, e ∈ U) (hE : ∀ e ∈ E, e ∈ U)
    (h : ∀ e ∈ E, s < e.seq) : view c (A ++ E) k s = view c A k s := by
  apply view_congr_le hU _ hA
  · intro e hs
    simp only [List.mem_append]
    exact ⟨fun h' => h'.elim id (fun h' => by have := h e h'; omega), Or.inl⟩
  · intro e he; rcases List.mem_append.1 he with he | he; exact hA e he; exact hE e he


/-- reading above everything a collection holds is reading at its top -/
theorem view_clip {L : List Entry} {p : Nat} (hU : Uniq L) (hL : ∀ e ∈ L, e.seq ≤ p) (hp : p ≤ s) :
    view c L k s = view c L k p := by
  have hm : ∀ e ∈ L, Match c k s e ↔ Match c k p e := by
    intro e he
    have := hL e he
    simp only [Match]
    constructor
    · intro h; exact ⟨h.1, this⟩
    · intro h; exact ⟨h.1, by omega⟩
  have : newest c L k s = newest c L k p := by
    cases hn : newest c L k p with
    | none =>
      rw [newest_none_iff] at hn ⊢
      intro e he hme; exact hn e he ((hm e he).1 hme)
    | some r =>
      have hb := newest_some_spec hn
      apply newest_of_best hU
      exact ⟨hb.1, (hm r hb.1).2 hb.2.1, fun e he hme => hb.2.2 e he ((hm e he).1 hme)⟩
  simp only [view, this]

/-- a write seen from both sides: sources and universe both gain the same strictly newer entries -/
theorem view_write {U U' L L' E : List Entry} (hU' : Uniq U')
    (hUU : ∀ e, e ∈ U' ↔ e ∈ U ∨ e ∈ E) (hLL : ∀ e, e ∈ L' ↔ e ∈ L ∨ e ∈ E)
    (hL : ∀ e ∈ L, e ∈ U) (hnew : ∀ e ∈ E, ∀ u ∈ U, u.seq < e.seq)
    (h : view c L k s = view c U k s) : view c L' k s = view c U' k s := by
  have hUsub : ∀ e ∈ U, e ∈ U' := fun e he => (hUU e).2 (Or.inl he)
  have hEsub : ∀ e ∈ E, e ∈ U' := fun e he => (hUU e).2 (Or.inr he)
  have hLsub : ∀ e ∈ L, e ∈ U' := fun e he => hUsub e (hL e he)
  have hLE : ∀ e ∈ L ++ E, e ∈ U' := by
    intro e he; rcases List.mem_append.1 he with he | he; exact hLsub e he; exact hEsub e he
  have hUE : ∀ e ∈ U ++ E, e ∈ U' := by
    intro e he; rcases List.mem_append.1 he with he | he; exact hUsub e he; exact hEsub e he
  have hL' : ∀ e ∈ L', e ∈ U' := by
    intro e he; rcases (hLL e).1 he with he | he; exact hLsub e he; exact hEsub e he
  have e1 : view c L' k s = view c (L ++ E) k s :=
    view_congr hU' hL' hLE (fun e _ => by rw [hLL, List.mem_append])
  have e2 : view c U' k s = view c (U ++ E) k s :=
    view_congr hU' (fun e he => he) hUE (fun e _ => by rw [hUU, List.mem_append])
  rw [e1, e2]
  exact view_newer_congr hU' hLsub hUsub hEsub
    (fun e he => ⟨fun a ha => hnew e he a (hL a ha), fun a ha => hnew e he a ha⟩) h


/-! ## entries above the read position never matter (no uniqueness needed) -/

def leF (s : Nat) (L : List Entry) : List Entry := L.filter (fun e => decide (e.seq ≤ s))

theorem fold_leF (L : List Entry) : ∀ acc : Option Entry,
    L.foldl (nstep c k s) acc = (leF s L).foldl (nstep c k s) acc := by
  induction L with
  | nil => intro acc; rfl
  | cons x xs ih =>
    intro acc
    by_cases hx : x.seq ≤ s
    · have : leF s (x :: xs) = x :: leF s xs := by simp [leF, hx]
      rw [this, List.foldl_cons, List.foldl_cons, ih]
    · have : leF s (x :: xs) = leF s xs := by simp [leF, hx]
      have hn : nstep c k s acc x = acc := by
        simp only [nstep]
        rw [if_neg]
        intro h; exact hx h.2
      rw [this, List.foldl_cons, hn, ih]

theorem view_leF (L : List Entry) : view c L k s = view c (leF s L) k s := by
  simp only [view, newest_eq_foldl]
  rw [fold_leF]

theorem view_eq_of_leF {L1 L2 : List Entry} (h : leF s L1 = leF s L2) : view c L1 k s = view c L2 k s := by
  rw [view_leF L1, view_leF L2, h]

theorem leF_append (A B : List Entry) : leF s (A ++ B) = leF s A ++ leF s B := by
  simp [leF]

theorem leF_above {E : List Entry} (h : ∀ e ∈ E, s < e.seq) : leF s E = [] := by
  simp only [leF, List.filter_eq_nil_iff, decide_eq_true_eq]
  intro e he; have := h e he; omega

theorem leF_append_above {A E : List Entry} (h : ∀ e ∈ E, s < e.seq) : leF s (A ++ E) = leF s A := by
  rw [leF_append, leF_above h, List.append_nil]

end GoLevel.Conc
