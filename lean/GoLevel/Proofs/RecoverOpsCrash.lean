import GoLevel.Proofs.RecoverOpsOpen
/-!
`Recover` at the level of storage operations, part 3: every crash image of phases 1 and 2 (`recoverTable`).

* A second `Recover` reads exactly what the first one read (`TSame`).
* What `CURRENT` leads to is either the old, unreadable situation, or the manifest `Recover` wrote with its one
  record complete (`MGood`); hence an `Open` that succeeds is complete (`open_of_mgood`).
-/
namespace GoLevel.Dur
open GoLevel

/-- the manifest `CURRENT` names on `r0` — if there is one — does not pass `session.recover` (lost, truncated,
    garbled: the situation `Recover` is for) -/
def OldUnreadable (dcfg : Cfg) (r0 : RDisk) : Prop :=
  ∀ c mf, r0.disk.current = some c → lookup r0.disk.manifests c = some mf → (replayM dcfg mf.all).view? = none

/-- where `CURRENT` can lead on a crash image of `recoverTable` -/
structure MGood (dcfg : Cfg) (r0 : RDisk) (m : Nat) (snap : MRec) (d : Disk) : Prop where
  cur : d.current = r0.disk.current ∨ d.current = some m
  other : ∀ c, c ≠ m → lookup d.manifests c = lookup r0.disk.manifests c
  mine : d.current = some m → ∀ mf, lookup d.manifests m = some mf →
    mf.all = [snap] ∨ (replayM dcfg mf.all).view? = none

/-! ## the shape of `recoverR` -/

def freshRState : RState := ⟨⟨[], 0, 0, 0⟩, [], [], [], 0⟩

def anyFile (d : Disk) : Bool := !(d.manifests.isEmpty && d.journals.isEmpty && d.tables.isEmpty)

/-- the test of `session.recover` when there is no entry point: "corrupted" if this holds, "no DB" otherwise
    (with the repair of D12 manifests alone do not count when `GetMeta` itself said "not exist") -/
def refusesNoEntry (dcfg : Cfg) (d : Disk) : Bool :=
  if d.current = none ∧ dcfg.manifestsAloneAreNoDB = true then !(d.journals.isEmpty && d.tables.isEmpty) else anyFile d

theorem refusesNoEntry_false {dcfg : Cfg} {d : Disk} (h : ¬ refusesNoEntry dcfg d = true) :
    d.tables = [] ∧ d.journals = [] := by
  unfold refusesNoEntry anyFile at h
  split at h <;>
    simp only [Bool.not_eq_true', Bool.not_eq_false, Bool.and_eq_true, List.isEmpty_iff] at h
  · exact ⟨h.2, h.1⟩
  · exact ⟨h.2, h.1.2⟩

theorem recoverR_unreadable (dcfg : Cfg) {d : Disk} {c : Nat} {mf : LogFile MRec} (hc : d.current = some c)
    (hm : lookup d.manifests c = some mf) (hv : (replayM dcfg mf.all).view? = none) :
    recoverR dcfg d = .error .corrupted := by
  unfold recoverR; simp only [hc, hm, hv]

theorem recoverR_no_manifest (dcfg : Cfg) {d : Disk}
    (h : d.current = none ∨ ∃ c, d.current = some c ∧ lookup d.manifests c = none) :
    recoverR dcfg d = if refusesNoEntry dcfg d then .error .corrupted else .ok freshRState := by
  unfold recoverR refusesNoEntry anyFile freshRState
  rcases h with h | ⟨c, h1, h2⟩
  · simp only [h, true_and]
  · simp only [h1, h2, reduceCtorEq, false_and, if_false]

theorem rebuild_empty (cfg : RCfg) {r0 : RDisk} (ht : r0.disk.tables = []) (hj : r0.disk.journals = []) :
    (rebuild (scanIn cfg r0)).entries = [] ∧ (rebuild (scanIn cfg r0)).seq = 0 := by
  simp [rebuild, scanIn, tableNums, journalNums, ht, hj, Files.nums, sortNums, Rebuilt.entries, maxSeqOf, replayJ]

/-- **an `Open` that succeeds on such a storage is complete**, and — unless there is no table and no journal
    at all — it has run on the manifest `Recover` wrote -/
theorem open_of_mgood (dcfg : Cfg) {cfg : RCfg} {r0 r : RDisk} (hT : TSame cfg r0 r) (hold : OldUnreadable dcfg r0)
    (hG : MGood dcfg r0 (manifestNum r0) (recoverRec (manifestNum r0) (tablePhase cfg r0).2) r.disk)
    {rs : RState} (hopen : recoverR dcfg r.disk = .ok rs) :
    rs.entries = (rebuild (scanIn cfg r0)).entries ∧ rs.seq = (rebuild (scanIn cfg r0)).seq ∧
    ((r0.disk.tables ≠ [] ∨ r0.disk.journals ≠ []) →
      r.disk.current = some (manifestNum r0) ∧
      ∃ mf, lookup r.disk.manifests (manifestNum r0) = some mf ∧
        mf.all = [recoverRec (manifestNum r0) (tablePhase cfg r0).2] ∧
        rs.mv.live = (tablePhase cfg r0).2.added) := by
  -- no manifest to read: `Open` refuses unless the storage is empty
  have hnone : (r.disk.current = none ∨ ∃ c, r.disk.current = some c ∧ lookup r.disk.manifests c = none) →
      rs.entries = (rebuild (scanIn cfg r0)).entries ∧ rs.seq = (rebuild (scanIn cfg r0)).seq ∧
      ¬ (r0.disk.tables ≠ [] ∨ r0.disk.journals ≠ []) := by
    intro h
    rw [recoverR_no_manifest dcfg h] at hopen
    by_cases ha : refusesNoEntry dcfg r.disk = true
    · rw [if_pos ha] at hopen; cases hopen
    · rw [if_neg ha] at hopen
      have hrs : rs = freshRState := by cases hopen; rfl
      have ha' : r.disk.tables = [] ∧ r.disk.journals = [] := refusesNoEntry_false ha
      have ht0 : r0.disk.tables = [] := by
        have := hT.nums
        rw [ha'.1] at this
        have h2 : r0.disk.tables.map (·.1) = [] := this.symm
        exact List.map_eq_nil_iff.1 h2
      have hj0 : r0.disk.journals = [] := by rw [← hT.journals]; exact ha'.2
      obtain ⟨e1, e2⟩ := rebuild_empty cfg ht0 hj0
      subst hrs
      refine ⟨by rw [e1]; rfl, by rw [e2]; rfl, ?_⟩
      rintro (h | h)
      · exact h ht0
      · exact h hj0
  cases hcur : r.disk.current with
  | none =>
    obtain ⟨a, b, c⟩ := hnone (Or.inl hcur)
    exact ⟨a, b, fun h => absurd h c⟩
  | some c =>
    cases hm : lookup r.disk.manifests c with
    | none =>
      obtain ⟨a, b, c'⟩ := hnone (Or.inr ⟨c, hcur, hm⟩)
      exact ⟨a, b, fun h => absurd h c'⟩
    | some mf =>
      by_cases hcm : c = manifestNum r0
      · subst hcm
        rcases hG.mine hcur mf hm with hall | hv
        · obtain ⟨rs', h1, h2, h3, h4⟩ := open_on_recover_manifest dcfg hT hcur hm hall
          rw [h1] at hopen
          have : rs' = rs := by cases hopen; rfl
          subst this
          exact ⟨h2, h3, fun _ => ⟨rfl, mf, hm, hall, h4⟩⟩
        · rw [recoverR_unreadable dcfg hcur hm hv] at hopen; cases hopen
      · -- `CURRENT` still names the old manifest
        have hc0 : r0.disk.current = some c := by
          rcases hG.cur with h | h
          · rw [← h]; exact hcur
          · rw [hcur] at h; exact absurd (Option.some.inj h) hcm
        have hm0 : lookup r0.disk.manifests c = some mf := by rw [← hG.other c hcm]; exact hm
        rw [recoverR_unreadable dcfg hcur hm (hold c mf hc0 hm0)] at hopen
        cases hopen

/-! ## `MGood` on every crash image of `recoverTable` -/

theorem rcrash_manifest_lookup (ch : RCrash) (r : RDisk) (c : Nat) :
    lookup (rcrash ch r).disk.manifests c =
      (lookup r.disk.manifests c).map (crashManifest (ch.base.cutM c) (ch.base.tornM c)) := by
  show lookup (r.disk.manifests.map fun p => (p.1, crashManifest (ch.base.cutM p.1) (ch.base.tornM p.1) p.2)) c = _
  exact lookup_map_snd r.disk.manifests (fun n f => crashManifest (ch.base.cutM n) (ch.base.tornM n) f) c

theorem rcrash_current (ch : RCrash) (r : RDisk) : (rcrash ch r).disk.current = r.disk.current := rfl

theorem view_nil (dcfg : Cfg) : (replayM dcfg []).view? = none := by simp [replayM, MAcc.view?]

theorem view_torn (dcfg : Cfg) (hc : dcfg.failedRecordLeavesNoTrace = true) (r : MRec) :
    (replayM dcfg [{ r with torn := true }]).view? = none := by
  simp [replayM, MAcc.step, hc, MAcc.view?]

/-- what a crash can leave of a manifest that holds one unsynced record -/
theorem crashManifest_one (k : Nat) (torn : Bool) (snap : MRec) :
    (crashManifest k torn ⟨[], [snap]⟩).all = [] ∨ (crashManifest k torn ⟨[], [snap]⟩).all = [snap] ∨
    (crashManifest k torn ⟨[], [snap]⟩).all = [{ snap with torn := true }] := by
  cases k with
  | zero => cases torn <;> simp [crashManifest, crashLog, LogFile.all]
  | succ k => cases torn <;> simp [crashManifest, crashLog, LogFile.all]

/-- `CURRENT` and the manifests untouched: the old situation -/
theorem MGood.of_msame {dcfg : Cfg} {r0 r : RDisk} (hd : r0.durable) (hold : OldUnreadable dcfg r0)
    (hM : MSame r0 r) (ch : RCrash) (m : Nat) (snap : MRec) : MGood dcfg r0 m snap (rcrash ch r).disk := by
  have hl : ∀ c, lookup (rcrash ch r).disk.manifests c = lookup r0.disk.manifests c := by
    intro c
    rw [rcrash_manifest_lookup, hM.2]
    cases h : lookup r0.disk.manifests c with
    | none => rfl
    | some mf =>
      simp only [Option.map_some]
      rw [crashManifest_durable _ _ _ (hd.1 _ (lookup_some_mem h))]
  refine ⟨Or.inl (by rw [rcrash_current]; exact hM.1), fun c _ => hl c, ?_⟩
  intro hc mf hm
  rw [rcrash_current, hM.1] at hc
  rw [hl] at hm
  exact Or.inr (hold _ _ hc hm)

/-- the states `newManifest` goes through, as seen after a crash -/
theorem MGood.of_new {dcfg : Cfg} (hc : dcfg.failedRecordLeavesNoTrace = true) {r0 r : RDisk} (hd : r0.durable)
    {m : Nat} {snap : MRec} (ch : RCrash)
    (hcur : r.disk.current = r0.disk.current ∨ r.disk.current = some m)
    (hother : ∀ c, c ≠ m → lookup r.disk.manifests c = lookup r0.disk.manifests c)
    (hmine : lookup r.disk.manifests m = some {} ∨ lookup r.disk.manifests m = some ⟨[], [snap]⟩ ∨
      lookup r.disk.manifests m = some ⟨[snap], []⟩) :
    MGood dcfg r0 m snap (rcrash ch r).disk := by
  refine ⟨by rw [rcrash_current]; exact hcur, fun c hcm => ?_, ?_⟩
  · rw [rcrash_manifest_lookup, hother c hcm]
    cases h : lookup r0.disk.manifests c with
    | none => rfl
    | some mf =>
      simp only [Option.map_some]
      rw [crashManifest_durable _ _ _ (hd.1 _ (lookup_some_mem h))]
  · intro _ mf hm
    rw [rcrash_manifest_lookup] at hm
    rcases hmine with h | h | h
    · rw [h] at hm
      simp only [Option.map_some, Option.some.injEq] at hm
      subst hm
      right
      rw [crashManifest_durable _ _ _ rfl]
      exact view_nil dcfg
    · rw [h] at hm
      simp only [Option.map_some, Option.some.injEq] at hm
      subst hm
      rcases crashManifest_one (ch.base.cutM m) (ch.base.tornM m) snap with e | e | e
      · right; rw [e]; exact view_nil dcfg
      · left; exact e
      · right; rw [e]; exact view_torn dcfg hc snap
    · rw [h] at hm
      simp only [Option.map_some, Option.some.injEq] at hm
      subst hm
      left
      rw [crashManifest_durable _ _ _ rfl]
      rfl

/-- manifest operations leave tables, journals and damage marks alone -/
theorem TSame.base_manifest {cfg : RCfg} {r0 r : RDisk} (h : TSame cfg r0 r) (op : Op)
    (hop : (r.disk.apply op).tables = r.disk.tables ∧ (r.disk.apply op).journals = r.disk.journals) :
    TSame cfg r0 (r.apply (.base op)) :=
  h.of_eq hop.1 hop.2 rfl

/-- the manifests after each of the four operations of `newManifest` -/
theorem newManifest_states (r : RDisk) (m : Nat) (x : MRec) :
    let r1 := r.apply (.base (.create .manifest m))
    let r2 := r1.apply (.base (.writeM m x))
    let r3 := r2.apply (.base (.sync .manifest m))
    let r4 := r3.apply (.base (.setMeta m))
    (∀ c, c ≠ m → lookup r1.disk.manifests c = lookup r.disk.manifests c ∧
      lookup r2.disk.manifests c = lookup r.disk.manifests c ∧
      lookup r3.disk.manifests c = lookup r.disk.manifests c ∧
      lookup r4.disk.manifests c = lookup r.disk.manifests c) ∧
    lookup r1.disk.manifests m = some {} ∧ lookup r2.disk.manifests m = some ⟨[], [x]⟩ ∧
    lookup r3.disk.manifests m = some ⟨[x], []⟩ ∧ lookup r4.disk.manifests m = some ⟨[x], []⟩ ∧
    r1.disk.current = r.disk.current ∧ r2.disk.current = r.disk.current ∧ r3.disk.current = r.disk.current ∧
    r4.disk.current = some m := by
  intro r1 r2 r3 r4
  have e1 : r1.disk.manifests = r.disk.manifests.set m {} := rfl
  have e2 : r2.disk.manifests = r1.disk.manifests.modify m (·.append x) := rfl
  have e3 : r3.disk.manifests = r2.disk.manifests.modify m (·.sync) := rfl
  have e4 : r4.disk.manifests = r3.disk.manifests := rfl
  refine ⟨fun c hcm => ?_, ?_, ?_, ?_, ?_, rfl, rfl, rfl, rfl⟩
  · rw [e4, e3, e2, e1]
    simp only [lookup_modify, lookup_set, if_neg hcm, and_self]
  · rw [e1, lookup_set, if_pos rfl]
  · rw [e2, e1, lookup_modify, if_pos rfl, lookup_set, if_pos rfl]; rfl
  · rw [e3, e2, e1, lookup_modify, if_pos rfl, lookup_modify, if_pos rfl, lookup_set, if_pos rfl]; rfl
  · rw [e4, e3, e2, e1, lookup_modify, if_pos rfl, lookup_modify, if_pos rfl, lookup_set, if_pos rfl]; rfl

/-- **phase 2**: every crash image of `newManifest` (the code since 170f82e) -/
theorem manifest_reach {dcfg : Cfg} (hc : dcfg.failedRecordLeavesNoTrace = true) {cfg : RCfg}
    (hcfg : cfg.createsEmptyManifestFirst = false) {r0 r r' : RDisk} (hd : r0.durable)
    (hold : OldUnreadable dcfg r0) (hT : TSame cfg r0 r) (hM : MSame r0 r) (m : Nat) (a : TAcc)
    (h : Reach (manifestOps cfg m a) r r') (ch : RCrash) :
    TSame cfg r0 (rcrash ch r') ∧ MGood dcfg r0 m (recoverRec m a) (rcrash ch r').disk := by
  unfold manifestOps at h
  rw [hcfg] at h
  simp only [Bool.false_eq_true, if_false] at h
  -- the storage after each of the four operations
  have hT1 : TSame cfg r0 (r.apply (.base (.create .manifest m))) := hT.base_manifest _ ⟨rfl, rfl⟩
  have hT2 := hT1.base_manifest (.writeM m (recoverRec m a)) ⟨rfl, rfl⟩
  have hT3 := hT2.base_manifest (.sync .manifest m) ⟨rfl, rfl⟩
  have hT4 := hT3.base_manifest (.setMeta m) ⟨rfl, rfl⟩
  obtain ⟨so, s1, s2, s3, s4, c1, c2, c3, c4⟩ := newManifest_states r m (recoverRec m a)
  rcases reach_cons h with rfl | h
  · exact ⟨hT.crash hd ch, MGood.of_msame hd hold hM ch m _⟩
  rcases reach_cons h with rfl | h
  · exact ⟨hT1.crash hd ch, MGood.of_new hc hd ch (Or.inl (c1.trans hM.1))
      (fun c hcm => by rw [(so c hcm).1, hM.2]) (Or.inl s1)⟩
  rcases reach_cons h with rfl | h
  · exact ⟨hT2.crash hd ch, MGood.of_new hc hd ch (Or.inl (c2.trans hM.1))
      (fun c hcm => by rw [(so c hcm).2.1, hM.2]) (Or.inr (Or.inl s2))⟩
  rcases reach_cons h with rfl | h
  · exact ⟨hT3.crash hd ch, MGood.of_new hc hd ch (Or.inl (c3.trans hM.1))
      (fun c hcm => by rw [(so c hcm).2.2.1, hM.2]) (Or.inr (Or.inr s3))⟩
  · rw [reach_nil h]
    exact ⟨hT4.crash hd ch, MGood.of_new hc hd ch (Or.inr c4)
      (fun c hcm => by rw [(so c hcm).2.2.2, hM.2]) (Or.inr (Or.inr s4))⟩

/-- **phases 1 and 2**: every crash image of `recoverTable` -/
theorem recoverTable_reach {dcfg : Cfg} (hc : dcfg.failedRecordLeavesNoTrace = true) {cfg : RCfg}
    (hcfg : cfg.createsEmptyManifestFirst = false) {r0 r' : RDisk} (hd : r0.durable)
    (hold : OldUnreadable dcfg r0) (h : Reach (recoverTableOps cfg r0) r0 r') (ch : RCrash) :
    TSame cfg r0 (rcrash ch r') ∧
    MGood dcfg r0 (manifestNum r0) (recoverRec (manifestNum r0) (tablePhase cfg r0).2) (rcrash ch r').disk := by
  unfold recoverTableOps at h
  simp only at h
  have h0 : TSame cfg r0 r0 := TSame.refl cfg hd
  have m0 : MSame r0 r0 := ⟨rfl, rfl⟩
  rcases reach_append h with h1 | h2
  · obtain ⟨t, m⟩ := tableLoop_reach cfg r0 _ _ _ _ h0 m0 h1
    exact ⟨t.crash hd ch, MGood.of_msame hd hold m ch _ _⟩
  · obtain ⟨t, m⟩ := tableLoop_reach cfg r0 _ _ _ _ h0 m0 (reach_all (tablePhase cfg r0).1 r0)
    exact manifest_reach hc hcfg hd hold t m _ _ h2 ch

/-- the storage when `recoverTable` returns -/
theorem recoverTable_done {cfg : RCfg} (hcfg : cfg.createsEmptyManifestFirst = false) {r0 : RDisk}
    (hd : r0.durable) :
    let r2 := r0.applyAll (recoverTableOps cfg r0)
    TSame cfg r0 r2 ∧ r2.disk.current = some (manifestNum r0) ∧
    ∃ mf, lookup r2.disk.manifests (manifestNum r0) = some mf ∧
      mf.all = [recoverRec (manifestNum r0) (tablePhase cfg r0).2] := by
  intro r2
  have h0 : TSame cfg r0 r0 := TSame.refl cfg hd
  obtain ⟨t, _⟩ := tableLoop_reach cfg r0 _ _ _ _ h0 ⟨rfl, rfl⟩ (reach_all (tablePhase cfg r0).1 r0)
  have e : r2 = (r0.applyAll (tablePhase cfg r0).1).applyAll
      (manifestOps cfg (manifestNum r0) (tablePhase cfg r0).2) := by
    show r0.applyAll (recoverTableOps cfg r0) = _
    unfold recoverTableOps
    exact applyAll_append _ _ _
  rw [e]
  unfold manifestOps
  rw [hcfg]
  simp only [Bool.false_eq_true, if_false]
  generalize r0.applyAll (tablePhase cfg r0).1 = r1 at t ⊢
  have hT1 : TSame cfg r0 (r1.apply (.base (.create .manifest (manifestNum r0)))) := t.base_manifest _ ⟨rfl, rfl⟩
  have hT2 := hT1.base_manifest (.writeM (manifestNum r0) (recoverRec (manifestNum r0) (tablePhase cfg r0).2)) ⟨rfl, rfl⟩
  have hT3 := hT2.base_manifest (.sync .manifest (manifestNum r0)) ⟨rfl, rfl⟩
  have hT4 := hT3.base_manifest (.setMeta (manifestNum r0)) ⟨rfl, rfl⟩
  obtain ⟨_, _, _, _, s4, _, _, _, c4⟩ :=
    newManifest_states r1 (manifestNum r0) (recoverRec (manifestNum r0) (tablePhase cfg r0).2)
  exact ⟨hT4, c4, ⟨[recoverRec (manifestNum r0) (tablePhase cfg r0).2], []⟩, s4, rfl⟩

end GoLevel.Dur
