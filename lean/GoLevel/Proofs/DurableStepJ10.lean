import GoLevel.Proofs.DurableStepJ9
/-!
Job steps, part 10: the removals (`rmJ`, `rmT`, `rmM`).
-/
namespace GoLevel.Dur

/-- `RunOK` when a journal other than the current one is removed after the commit -/
theorem RunOK.rmJ {cfg : Cfg} {s : St} {d : Disk} (h : RunOK cfg s d) (j' : Job) (n : Nat) (hn : n ≠ s.jcur)
    (hnc : ¬ FlushPending { s with job := some j' })
    (hmfd : MfdOK { s with job := some j' } { d with journals := d.journals.erase n })
    (hlimbo : LimboOK { s with job := some j' } { d with journals := d.journals.erase n }) :
    RunOK cfg { s with job := some j' } { d with journals := d.journals.erase n } := by
  obtain ⟨r1, r2, r3, r4, r5, r6, r7, r8, r9, r10⟩ := h
  refine ⟨r1, ⟨hmfd, r2.2⟩, ?_, ?_, ⟨?_, r5.2⟩, r6, ?_, ?_, (fun hc => by cases hc), hlimbo⟩
  · show Holds (lookup (d.journals.erase n) s.jcur) _
    rw [lookup_erase, if_neg (fun e => hn e.symm)]
    exact r3
  · exact ⟨r4.1, fun p hp => r4.2 p (mem_erase.1 hp).1⟩
  · exact fun p hp => r5.1 p (mem_erase.1 hp).1
  · rcases frozenOK_iff.1 r7 with ⟨h1, h2⟩ | ⟨fz, jf, h1, h2, f1, f2, f3, f4, f5, f6⟩
    · exact frozenOK_iff.2 (Or.inl ⟨h1, h2⟩)
    · exact frozenOK_iff.2 (Or.inr ⟨fz, jf, h1, h2, f1, f2, f3, fun p hp => f4 p (mem_erase.1 hp).1,
        fun p hp => f5 p (mem_erase.1 hp).1,
        fun hx => absurd hx hnc⟩)
  · exact r8.imp (fun mf hmf => hmf.imp (fun v0 hv0 p hp => hv0 p (mem_erase.1 hp).1))

/-- `RecOK` when a journal is removed after the commit -/
theorem RecOK.rmJ {cfg : Cfg} {s : St} {d : Disk} {r : Recov} (h : RecOK cfg s d r) (j' : Job) (n : Nat)
    (hbc : j'.pc.beforeCommit = false) (hmfd : MfdOK { s with job := some j' } { d with journals := d.journals.erase n }) :
    RecOK cfg { s with job := some j' } { d with journals := d.journals.erase n } r := by
  obtain ⟨r1, r2, r3, r4, r5, r6, r7, r8, r9, r10⟩ := h
  have hnc : ¬ NoCommitYet { s with job := some j' } := by
    unfold NoCommitYet; simp [Holds', hbc]
  refine ⟨hmfd, r2, r3, r4, ⟨fun p hp => r5.1 p (mem_erase.1 hp).1, r5.2⟩,
    fun p hp => r6 p (mem_erase.1 hp).1, ?_, fun hx => absurd hx hnc, ?_, r10⟩
  · unfold MdbOK at r7 ⊢
    split
    · rename_i o ho
      rw [ho] at r7
      exact ⟨fun p hp => r7.1 p (mem_erase.1 hp).1, r7.2.1, fun hx => absurd hx hnc⟩
    · rename_i ho; rw [ho] at r7; exact r7
  · have : lastView cfg { d with journals := d.journals.erase n } = lastView cfg d := rfl
    rw [this]
    exact r9.imp (fun v hv => ⟨fun p hp => hv.1 p (mem_erase.1 hp).1, hv.2⟩)

/-- the manifest clause after the commit, unpacked -/
theorem JobOK.post_facts {cfg : Cfg} {s : St} {d : Disk} {j : Job} (h : JobOK cfg s d j) (hp : j.pc.post = true) :
    Settled cfg s d (MirrorL s) ∧ (∀ e, j.edit = some e → s.manifestOpen = true ∧ ∀ x, e.jn = some x → s.stJn = x) := by
  have := h.manifest
  unfold JobManifestOK at this
  cases he : j.edit with
  | none => rw [he] at this; exact ⟨this, fun e he' => by cases he'⟩
  | some e =>
    rw [he] at this
    simp only at this
    have key : JobManifest cfg s d e j.pc = (s.manifestOpen = true ∧ Settled cfg s d (MirrorL s) ∧
        ∀ x, e.jn = some x → s.stJn = x) := by
      cases hpc : j.pc <;> rw [hpc] at hp <;> simp_all [JPc.post, JobManifest]
    rw [key] at this
    exact ⟨this.2.1, fun e' he' => by cases he'; exact ⟨this.1, this.2.2⟩⟩

/-- in the post-commit pcs the running process has written the manifest: it is settled -/
theorem JobOK.post_settled {cfg : Cfg} {s : St} {d : Disk} {j : Job} (h : JobOK cfg s d j) (hp : j.pc.post = true)
    (hopen : s.manifestOpen = true) (hl : s.limbo = none) :
    ∃ mf v, curManifest d = some mf ∧ mf.unsynced = [] ∧ lastView cfg d = some v ∧ viewAt cfg mf 0 = some v ∧
      Mirror s v := by
  obtain ⟨hs, _⟩ := h.post_facts hp
  unfold Settled at hs
  rw [holds_iff] at hs
  obtain ⟨mf, hc, hu, hl'⟩ := hs
  have hu := hu hopen hl
  rw [holds_iff] at hl'
  obtain ⟨v, hv, hm⟩ := hl'
  refine ⟨mf, v, hc, hu, hv, ?_, (MirrorL.of_none hl).1 hm⟩
  rw [lastView_eq hc, hu] at hv
  exact hv


theorem Inv.post_open {cfg : Cfg} {s : St} {d : Disk} (h : Inv cfg s d) {j : Job} (hj : s.job = some j)
    (hp : j.pc.post = true) : s.manifestOpen = true := by
  have hok := h.job
  rw [hj] at hok
  have hok : JobOK cfg s d j := hok
  cases he : j.edit with
  | some e => exact ((hok.post_facts hp).2 e he).1
  | none =>
    -- only a flush job has no edit, and it runs in the running phase
    have hk := hok.kind
    unfold JobKindOK at hk
    rcases hok.kinds with hkk | hkk | hkk | hkk | hkk <;> rw [hkk] at hk <;> simp only at hk
    rotate_right 2
    · rw [he] at hk; exact absurd hk.2.2.2 (by simp)
    · obtain ⟨_, _, _, _, hk⟩ := hk
      rw [he] at hk
      revert hk
      cases s.tr <;> simp [Holds]
    · exact (h.run hk.1).mfd.2
    · obtain ⟨_, _, hk⟩ := hk
      rw [holds_iff] at hk
      obtain ⟨r, _, hk⟩ := hk
      rw [holds_iff] at hk
      obtain ⟨o, _, _, _, hk⟩ := hk
      rw [holds_iff] at hk
      obtain ⟨x, _, hk⟩ := hk
      rw [he] at hk
      exact absurd hk id
    · obtain ⟨_, hk⟩ := hk
      rw [holds_iff] at hk
      obtain ⟨r, _, _, _, _, hk⟩ := hk
      rw [holds_iff] at hk
      obtain ⟨x, _, hk⟩ := hk
      rw [he] at hk
      exact absurd hk id

/-- behind the commit the storage is not ahead of the session — except beside the job that only drops an empty
    frozen buffer (it has no edit), whose journal holds nothing that must survive -/
theorem Inv.post_cases {cfg : Cfg} {s : St} {d : Disk} (h : Inv cfg s d) {j : Job} (hj : s.job = some j)
    (hp : j.pc.post = true) :
    (s.limbo = none ∧ j.edit ≠ none) ∨ (j.edit = none ∧ j.kind = .flush ∧ s.phase = .running ∧ j.rmTables = [] ∧
      ∃ jf, s.jfrozen = some jf ∧ j.rmJournals = [jf] ∧ jf < s.jcur ∧
        ∀ p ∈ d.journals, p.1 = jf → ∀ g ∈ p.2.all, g ∉ must s) := by
  have hok := h.job
  rw [hj] at hok
  have hok : JobOK cfg s d j := hok
  have hjb : j.pc.beforeCommit = false := by cases hpc : j.pc <;> rw [hpc] at hp <;> simp_all [JPc.post, JPc.beforeCommit]
  cases he : j.edit with
  | some e => exact Or.inl ⟨h.limbo_none_of_post hj he hjb, fun hx => by cases hx⟩
  | none =>
    right
    have hk := hok.kind
    unfold JobKindOK at hk
    rcases hok.kinds with hkk | hkk | hkk | hkk | hkk <;> rw [hkk] at hk <;> simp only at hk
    rotate_right 2
    · rw [he] at hk; exact absurd hk.2.2.2 (by simp)
    · obtain ⟨_, _, _, _, hk⟩ := hk
      rw [he] at hk
      revert hk
      cases s.tr <;> simp [Holds]
    · obtain ⟨hph, hk⟩ := hk
      have hfr := (h.run hph).frozen
      rcases frozenOK_iff.1 hfr with ⟨h1, h2⟩ | ⟨fz, jf, h1, h2, f1, f2, f3, f4, f5, f6⟩
      · rw [h1, h2] at hk; exact absurd hk id
      · rw [h1, h2, he] at hk
        simp only at hk
        obtain ⟨hfz, _, hrmj, _⟩ := hk
        refine ⟨rfl, hkk, hph, ?_, jf, h2, hrmj, f1, fun p hp hpn g hg hm => ?_⟩
        · rcases hok.one.2 with h3 | h3 | h3
          · exact h3
          · rw [hkk] at h3; cases h3
          · rw [hkk] at h3; cases h3
        · have := (f5 p hp hpn).2.1 g hg hm
          rw [hfz] at this; cases this
    · obtain ⟨_, _, hk⟩ := hk
      rw [holds_iff] at hk
      obtain ⟨r, _, hk⟩ := hk
      rw [holds_iff] at hk
      obtain ⟨o, _, _, _, hk⟩ := hk
      rw [holds_iff] at hk
      obtain ⟨x, _, hk⟩ := hk
      rw [he] at hk
      exact absurd hk id
    · obtain ⟨_, hk⟩ := hk
      rw [holds_iff] at hk
      obtain ⟨r, _, _, _, _, hk⟩ := hk
      rw [holds_iff] at hk
      obtain ⟨x, _, hk⟩ := hk
      rw [he] at hk
      exact absurd hk id

/-- the limbo facts along the removals -/
theorem Inv.post_limbo {cfg : Cfg} {s : St} {d d' : Disk} (h : Inv cfg s d) {j : Job} (hj : s.job = some j)
    (hp : j.pc.post = true) (pc' : JPc) (hp' : pc'.post = true) (et : j.edit = none → d'.tables = d.tables) :
    LimboOK { s with job := some { j with pc := pc' }, nextFile := s.nextFile } d' := by
  rcases h.post_cases hj hp with ⟨hl, _⟩ | ⟨he, _, hr, _⟩
  · exact LimboOK.of_none hl
  · exact (h.run hr).limbo.job_pc hj { j with pc := pc' } s.nextFile rfl rfl
      (fun hx => by cases hpc : j.pc <;> rw [hpc] at hp hx <;> first | (simp [JPc.retry] at hx; done) | (simp [JPc.post] at hp; done))
      (Or.inl he) (et he)
      (Nat.le_refl _)

/-- `JobOK` for the next pc among the removals; the caller supplies what depends on the disk -/
theorem JobOK.post_next {cfg : Cfg} {s : St} {d d' : Disk} {j : Job} (h : JobOK cfg s d j) (hp : j.pc.post = true)
    (pc' : JPc) (hp' : pc'.post = true) (hcm : curManifest d' = curManifest d)
    (hmk : MkJournalOK { s with job := some { j with pc := pc' } } d' { j with pc := pc' })
    (hrm : Holds (lastView cfg d') (RemovalsOK { s with job := some { j with pc := pc' } } d' { j with pc := pc' }))
    (hlg : ∀ v, lastView cfg d = some v → ∀ o ∈ j.outs, o.1 ∈ v.live → lookup d'.tables o.1 = lookup d.tables o.1) :
    JobOK cfg { s with job := some { j with pc := pc' } } d' { j with pc := pc' } := by
  obtain ⟨h1, h2, h3, h4, h5, h6, h7, h8, h9, h10, h11, h12⟩ := h
  have hjb : j.pc.beforeCommit = false := by cases hpc : j.pc <;> rw [hpc] at hp <;> simp_all [JPc.post, JPc.beforeCommit]
  have hnb : pc'.beforeCommit = false := by cases pc' <;> simp_all [JPc.post, JPc.beforeCommit]
  have hlv : lastView cfg d' = lastView cfg d := by unfold lastView; rw [hcm]
  refine ⟨h1, ?_, ?_, ⟨h4.1, fun hb => by rw [hnb] at hb; cases hb⟩, h5, ?_, ?_, hmk, hrm, fun _ => hp', ?_, ?_⟩
  rotate_right 2
  · exact Holds'.imp (o := j.edit) h11 (fun e he0 => he0.transport (j' := { j with pc := pc' }) rfl rfl (fun _ => rfl)
      (fun hb => nomatch hnb.symm.trans hb) (fun hb => nomatch hnb.symm.trans hb)
      (fun hb => nomatch hnb.symm.trans hb))
  · intro _
    have h12' := h12 hjb
    rw [hlv]
    rw [holds_iff] at h12' ⊢
    obtain ⟨v, hv, h12'⟩ := h12'
    exact ⟨v, hv, fun o ho => ⟨(h12' o ho).1, by rw [hlg v hv o ho (h12' o ho).1]; exact (h12' o ho).2⟩⟩
  · exact h2.transport rfl rfl rfl rfl rfl rfl rfl rfl rfl rfl rfl rfl (fun hb => by
      have : pc'.beforeCommit = true := hb
      rw [hnb] at this; cases this) rfl rfl (fun _ => rfl)
  · unfold JobManifestOK at h3 ⊢
    show match j.edit with
      | some e => JobManifest cfg _ d' e pc'
      | none => _
    cases he : j.edit with
    | none =>
      rw [he] at h3
      simp only at h3 ⊢
      unfold Settled at h3 ⊢
      rw [hcm, hlv]
      exact h3
    | some e =>
      rw [he] at h3
      simp only at h3 ⊢
      have key : ∀ pc : JPc, pc.post = true → ∀ (s0 : St) (d0 : Disk),
          JobManifest cfg s0 d0 e pc = (s0.manifestOpen = true ∧ Settled cfg s0 d0 (MirrorL s0) ∧
            ∀ x, e.jn = some x → s0.stJn = x) := by
        intro pc hpc s0 d0
        cases pc <;> simp_all [JPc.post, JobManifest]
      rw [key _ hp] at h3
      rw [key _ hp']
      refine ⟨h3.1, ?_, h3.2.2⟩
      have := h3.2.1
      unfold Settled at this ⊢
      rw [hcm, hlv]
      exact this
  · intro i o hio
    unfold OutOK
    have : pc'.tablesDone = true := by cases pc' <;> simp_all [JPc.post, JPc.tablesDone]
    split
    · rename_i heq; simp only at heq; rw [heq] at this; cases this
    · rename_i heq; simp only at heq; rw [heq] at this; cases this
    · rename_i heq; simp only at heq; rw [heq] at this; cases this
    · intro hb; rw [hnb] at hb; cases hb
  · unfold PcIdxOK
    have : pc'.tablesDone = true := by cases pc' <;> simp_all [JPc.post, JPc.tablesDone]
    split
    · rename_i heq; simp only at heq; rw [heq] at this; cases this
    · rename_i heq; simp only at heq; rw [heq] at this; cases this
    · rename_i heq; simp only at heq; rw [heq] at this; cases this
    · trivial

end GoLevel.Dur
