import GoLevel.Proofs.LocksCount
/-! Further invariants (three fixes, `compactionError` as coded, and the fourth fix or no `SetReadOnly`) used by
the progress theorem and by the theorems about `SetReadOnly`. -/
namespace GoLevel.Locks
open CompErr
set_option linter.unusedSimpArgs false

/-- threads of `DB.Write`'s large-batch path that will still end the internal transaction -/
def lgW : Pc → Nat
  | .lgWrite | .cmLockTr true | .cmFlush true | .cmLockClk true | .cmTry _ true | .cmSleep _ true
  | .cmFail3 true | .cmAfterOk true | .cmWaitComp true | .cmDone true | .cmRet false true
  | .dcLockTr true | .dcBody true => 1
  | .cwSend _ .cmWaitT true | .cwAck _ .cmWaitT true => 1
  | _ => 0
def clAllW : Pc → Nat | .clCheckTr | .clLockTr | .clBody | .clAcq | .clWait => 1 | _ => 0
def clPreW : Pc → Nat | .clCheckTr | .clLockTr | .clBody | .clAcq => 1 | _ => 0

theorem tot_ackWs_srw' (ws : List Pc) (w : Option Nat) (b : Bool) : tot srW (ackWs ws w b) = tot srW ws :=
  tot_ackWs _ (by intro b site lg; cases site <;> simp [onOk, srW]) ws w b
theorem tot_ackWs_lgw (ws : List Pc) (w : Option Nat) (b : Bool) : tot lgW (ackWs ws w b) = tot lgW ws :=
  tot_ackWs _ (by intro b site lg; cases site <;> cases lg <;> simp [onOk, lgW]) ws w b
theorem tot_ackWs_clall (ws : List Pc) (w : Option Nat) (b : Bool) : tot clAllW (ackWs ws w b) = tot clAllW ws :=
  tot_ackWs _ (by intro b site lg; cases site <;> simp [onOk, clAllW]) ws w b
theorem tot_ackWs_clpre (ws : List Pc) (w : Option Nat) (b : Bool) : tot clPreW (ackWs ws w b) = tot clPreW ws :=
  tot_ackWs _ (by intro b site lg; cases site <;> simp [onOk, clPreW]) ws w b

theorem tot_le_tot (f g : Pc → Nat) (h : ∀ p, f p ≤ g p) (ws : List Pc) : tot f ws ≤ tot g ws := by
  induction ws with
  | nil => simp [tot]
  | cons x xs ih => rw [tot_cons, tot_cons]; have := h x; omega

theorem afterCmd_parked (cfg : Cfg) (s : St) (b : Bool) (h : afterCmd cfg s b = .parked) : b = true ∧ s.ro = true := by
  unfold afterCmd at h
  split at h
  · rename_i hc; simp at hc; exact ⟨hc.1.1, hc.2⟩
  · cases h

@[simp] theorem clearW_eq_parked (x : Bg) (i : Nat) : clearW x i = .parked ↔ x = .parked := by
  unfold clearW; split
  · split <;> simp
  · rfl

/-- `compactionError` is in (or leaving) its persistent-error loop -/
def perW : Eh → Nat | .hasperr => 1 | .closing => 1 | _ => 0
@[simp] theorem perW_hasperr : perW .hasperr = 1 := rfl
@[simp] theorem perW_closing : perW .closing = 1 := rfl
@[simp] theorem perW_noerr : perW .noerr = 0 := rfl
@[simp] theorem perW_haserr : perW .haserr = 0 := rfl
@[simp] theorem perW_exited : perW .exited = 0 := rfl

/-- `closed ∨ persistent error`: the alternatives of every wait are enabled -/
def Alt (s : St) : Prop := s.closed = true ∨ s.eh = .hasperr

/-- goroutines end only when the DB is closed (or, for a compaction, in the persistent-error state);
`tCompaction` parks only when the DB is read-only, and a read-only DB is in the persistent-error state -/
def PInvA (s : St) : Prop :=
  (s.mc = .exited → Alt s) ∧ (s.tc = .exited → Alt s) ∧ (s.eh = .exited → s.closed = true) ∧
  (s.eh = .closing → s.closed = true) ∧ (s.tc = .parked → s.ro = true) ∧ (s.ro = true → Alt s) ∧
  s.mc ≠ .parked

/-- the token held for `compWriteLocking` will be released by `compactionError` or by the `SetReadOnly`
that took it; an internal transaction of `DB.Write` is always being finished by its thread -/
def PInvB (s : St) : Prop :=
  b2n s.ehTok ≤ perW s.eh + tot srW s.ws ∧ (s.ehTok = true → s.cwl = true ∨ 0 < tot srW s.ws)

/-- before 832d000: a `SetReadOnly` between its two `select`s has set `compWriteLocking` -/
def CwlOk (cfg : Cfg) (s : St) : Prop :=
  cfg.srSetsWriteLocking = true → 0 < tot srW s.ws → s.cwl = true

/-- while the DB is open the accounting of the token is exact -/
def OpenE (s : St) : Prop := s.closed = false → TokE s

def PInvD (s : St) : Prop :=
  b2n (s.trOpen && !s.trUser) ≤ tot lgW s.ws

/-- at most one `Close` gets past `setClosed` -/
def PInvC (s : St) : Prop :=
  tot clAllW s.ws ≤ b2n s.closed ∧ b2n s.closeTok ≤ b2n s.closed ∧
  tot clPreW s.ws + b2n s.closeTok ≤ 1

/-- `SetReadOnly`: while the DB is open, a thread between the two `select`s (there is at most one) still has its
token in `writeLockC`; once `compReadOnly` is set the machine is in (or past) `hasperr` with `ErrReadOnly`, and while the
DB is open the token stays in `writeLockC` -/
def PInvE (s : St) : Prop :=
  (s.closed = false → tot srW s.ws ≤ b2n s.ehTok) ∧
  (s.ro = true → s.ehErr = .readonly ∧ (s.eh = .hasperr ∨ s.eh = .closing ∨ s.eh = .exited)) ∧
  (s.ro = true → s.closed = false → s.ehTok = true ∧ tot srW s.ws = 0)


end GoLevel.Locks
