import GoLevel.Proofs.LocksCount
/-! Further invariants (three fixes, and the fourth or no `SetReadOnly`) used by the progress theorem. -/
namespace GoLevel.Locks
set_option linter.unusedSimpArgs false

def srW : Pc → Nat | .srSet => 1 | _ => 0
/-- threads of `DB.Write`'s large-batch path that will still end the internal transaction -/
def lgW : Pc → Nat
  | .lgWrite | .cmLockTr true | .cmFlush true | .cmLockClk true | .cmTry _ true | .cmSleep _ true
  | .cmFail3 true | .cmAfterOk true | .cmWaitComp true | .cmDone true | .cmRet false true
  | .dcLockTr true | .dcBody true => 1
  | .cwSend _ .cmWaitT true | .cwAck _ .cmWaitT true => 1
  | _ => 0
def clAllW : Pc → Nat | .clCheckTr | .clLockTr | .clBody | .clAcq | .clWait => 1 | _ => 0
def clPreW : Pc → Nat | .clCheckTr | .clLockTr | .clBody | .clAcq => 1 | _ => 0

theorem tot_ackWs_srw' (ws : List Pc) (w : Option Nat) (b : Bool) : tot srW (ackWs ws w b) = tot srW ws :=
  tot_ackWs _ (by intro b site lg; cases site <;> simp [onOk, srW]) ws w b
theorem tot_ackWs_lgw (ws : List Pc) (w : Option Nat) (b : Bool) : tot lgW (ackWs ws w b) = tot lgW ws :=
  tot_ackWs _ (by intro b site lg; cases site <;> cases lg <;> simp [onOk, lgW]) ws w b
theorem tot_ackWs_clall (ws : List Pc) (w : Option Nat) (b : Bool) : tot clAllW (ackWs ws w b) = tot clAllW ws :=
  tot_ackWs _ (by intro b site lg; cases site <;> simp [onOk, clAllW]) ws w b
theorem tot_ackWs_clpre (ws : List Pc) (w : Option Nat) (b : Bool) : tot clPreW (ackWs ws w b) = tot clPreW ws :=
  tot_ackWs _ (by intro b site lg; cases site <;> simp [onOk, clPreW]) ws w b

theorem tot_le_tot (f g : Pc → Nat) (h : ∀ p, f p ≤ g p) (ws : List Pc) : tot f ws ≤ tot g ws := by
  induction ws with
  | nil => simp [tot]
  | cons x xs ih => rw [tot_cons, tot_cons]; have := h x; omega

def perW : Eh → Nat | .hasperr => 1 | _ => 0
@[simp] theorem perW_hasperr : perW .hasperr = 1 := rfl
@[simp] theorem perW_noerr : perW .noerr = 0 := rfl
@[simp] theorem perW_haserr : perW .haserr = 0 := rfl
@[simp] theorem perW_exited : perW .exited = 0 := rfl

/-- `closed ∨ persistent error`: the alternatives of every wait are enabled -/
def Alt (s : St) : Prop := s.closed = true ∨ s.eh = .hasperr

/-- goroutines end only when the DB is closed (or, for a compaction, in the persistent-error state) -/
def PInvA (s : St) : Prop :=
  (s.mc = .exited → Alt s) ∧ (s.tc = .exited → Alt s) ∧ (s.eh = .exited → s.closed = true)

/-- the token held for `compWriteLocking` will be released by `compactionError` or by the `SetReadOnly`
that took it; an internal transaction of `DB.Write` is always being finished by its thread -/
def PInvB (s : St) : Prop :=
  b2n s.ehTok ≤ perW s.eh + tot srW s.ws

def PInvD (s : St) : Prop :=
  b2n (s.trOpen && !s.trUser) ≤ tot lgW s.ws

/-- at most one `Close` gets past `setClosed` -/
def PInvC (s : St) : Prop :=
  tot clAllW s.ws ≤ b2n s.closed ∧ b2n s.closeTok ≤ b2n s.closed ∧
  tot clPreW s.ws + b2n s.closeTok ≤ 1

theorem step_pinvA (s t : St) (f : Bool) (cfg : Cfg) (hfx : Fixed3 cfg)
    (h4 : cfg.setReadOnlyReleasesOnClose = true ∨ NoSR s) (h : Step cfg f s t) (inv : PInvA s) : PInvA t := by
  unfold PInvA Alt at *
  obtain ⟨h1, h2, h3⟩ := inv
  obtain ⟨f1, f2, f3⟩ := hfx
  cases h with
  | startPut _ i hi =>
    clear h4
    have l0 := le_tot srW _ _ _ hi
    have l1 := le_tot lgW _ _ _ hi
    have l2 := le_tot clAllW _ _ _ hi
    have l3 := le_tot clPreW _ _ _ hi
    (try simp only [St.setDone, St.setBg]) <;> (repeat' split) <;> simp_all [tot_set_eq _ _ _ _ _ hi, tot_ackWs_srw', tot_ackWs_lgw, tot_ackWs_clall, tot_ackWs_clpre, b2n_true, b2n_false, clearW_idle, clearW_exited, clearW_eq_exited, srW, lgW, clAllW, clPreW, St.bg, onOk, onErr, selNext, afterSetErr, srAllW] <;> (try omega)
  | startWrite _ i hi =>
    clear h4
    have l0 := le_tot srW _ _ _ hi
    have l1 := le_tot lgW _ _ _ hi
    have l2 := le_tot clAllW _ _ _ hi
    have l3 := le_tot clPreW _ _ _ hi
    (try simp only [St.setDone, St.setBg]) <;> (repeat' split) <;> simp_all [tot_set_eq _ _ _ _ _ hi, tot_ackWs_srw', tot_ackWs_lgw, tot_ackWs_clall, tot_ackWs_clpre, b2n_true, b2n_false, clearW_idle, clearW_exited, clearW_eq_exited, srW, lgW, clAllW, clPreW, St.bg, onOk, onErr, selNext, afterSetErr, srAllW] <;> (try omega)
  | startOtx _ i hi =>
    clear h4
    have l0 := le_tot srW _ _ _ hi
    have l1 := le_tot lgW _ _ _ hi
    have l2 := le_tot clAllW _ _ _ hi
    have l3 := le_tot clPreW _ _ _ hi
    (try simp only [St.setDone, St.setBg]) <;> (repeat' split) <;> simp_all [tot_set_eq _ _ _ _ _ hi, tot_ackWs_srw', tot_ackWs_lgw, tot_ackWs_clall, tot_ackWs_clpre, b2n_true, b2n_false, clearW_idle, clearW_exited, clearW_eq_exited, srW, lgW, clAllW, clPreW, St.bg, onOk, onErr, selNext, afterSetErr, srAllW] <;> (try omega)
  | startCommit _ i hi hu =>
    clear h4
    have l0 := le_tot srW _ _ _ hi
    have l1 := le_tot lgW _ _ _ hi
    have l2 := le_tot clAllW _ _ _ hi
    have l3 := le_tot clPreW _ _ _ hi
    (try simp only [St.setDone, St.setBg]) <;> (repeat' split) <;> simp_all [tot_set_eq _ _ _ _ _ hi, tot_ackWs_srw', tot_ackWs_lgw, tot_ackWs_clall, tot_ackWs_clpre, b2n_true, b2n_false, clearW_idle, clearW_exited, clearW_eq_exited, srW, lgW, clAllW, clPreW, St.bg, onOk, onErr, selNext, afterSetErr, srAllW] <;> (try omega)
  | startDiscard _ i hi hu =>
    clear h4
    have l0 := le_tot srW _ _ _ hi
    have l1 := le_tot lgW _ _ _ hi
    have l2 := le_tot clAllW _ _ _ hi
    have l3 := le_tot clPreW _ _ _ hi
    (try simp only [St.setDone, St.setBg]) <;> (repeat' split) <;> simp_all [tot_set_eq _ _ _ _ _ hi, tot_ackWs_srw', tot_ackWs_lgw, tot_ackWs_clall, tot_ackWs_clpre, b2n_true, b2n_false, clearW_idle, clearW_exited, clearW_eq_exited, srW, lgW, clAllW, clPreW, St.bg, onOk, onErr, selNext, afterSetErr, srAllW] <;> (try omega)
  | startCR _ i hi =>
    clear h4
    have l0 := le_tot srW _ _ _ hi
    have l1 := le_tot lgW _ _ _ hi
    have l2 := le_tot clAllW _ _ _ hi
    have l3 := le_tot clPreW _ _ _ hi
    (try simp only [St.setDone, St.setBg]) <;> (repeat' split) <;> simp_all [tot_set_eq _ _ _ _ _ hi, tot_ackWs_srw', tot_ackWs_lgw, tot_ackWs_clall, tot_ackWs_clpre, b2n_true, b2n_false, clearW_idle, clearW_exited, clearW_eq_exited, srW, lgW, clAllW, clPreW, St.bg, onOk, onErr, selNext, afterSetErr, srAllW] <;> (try omega)
  | startSR _ i hi ha =>
    clear h4
    have l0 := le_tot srW _ _ _ hi
    have l1 := le_tot lgW _ _ _ hi
    have l2 := le_tot clAllW _ _ _ hi
    have l3 := le_tot clPreW _ _ _ hi
    (try simp only [St.setDone, St.setBg]) <;> (repeat' split) <;> simp_all [tot_set_eq _ _ _ _ _ hi, tot_ackWs_srw', tot_ackWs_lgw, tot_ackWs_clall, tot_ackWs_clpre, b2n_true, b2n_false, clearW_idle, clearW_exited, clearW_eq_exited, srW, lgW, clAllW, clPreW, St.bg, onOk, onErr, selNext, afterSetErr, srAllW] <;> (try omega)
  | startClose _ i hi =>
    clear h4
    have l0 := le_tot srW _ _ _ hi
    have l1 := le_tot lgW _ _ _ hi
    have l2 := le_tot clAllW _ _ _ hi
    have l3 := le_tot clPreW _ _ _ hi
    (try simp only [St.setDone, St.setBg]) <;> (repeat' split) <;> simp_all [tot_set_eq _ _ _ _ _ hi, tot_ackWs_srw', tot_ackWs_lgw, tot_ackWs_clall, tot_ackWs_clpre, b2n_true, b2n_false, clearW_idle, clearW_exited, clearW_eq_exited, srW, lgW, clAllW, clPreW, St.bg, onOk, onErr, selNext, afterSetErr, srAllW] <;> (try omega)
  | selTok _ i p q hi hq ht =>
    clear h4
    have l0 := le_tot srW _ _ _ hi
    have l1 := le_tot lgW _ _ _ hi
    have l2 := le_tot clAllW _ _ _ hi
    have l3 := le_tot clPreW _ _ _ hi
    cases p <;> simp only [selNext] at hq <;> (try contradiction) <;> cases hq <;> simp_all [tot_set_eq _ _ _ _ _ hi, tot_ackWs_srw', tot_ackWs_lgw, tot_ackWs_clall, tot_ackWs_clpre, b2n_true, b2n_false, clearW_idle, clearW_exited, clearW_eq_exited, srW, lgW, clAllW, clPreW, St.bg, onOk, onErr, selNext, afterSetErr, srAllW] <;> (try omega)
  | selPerErr _ i p q hi hq he =>
    clear h4
    have l0 := le_tot srW _ _ _ hi
    have l1 := le_tot lgW _ _ _ hi
    have l2 := le_tot clAllW _ _ _ hi
    have l3 := le_tot clPreW _ _ _ hi
    cases p <;> simp only [selNext] at hq <;> (try contradiction) <;> cases hq <;> simp_all [tot_set_eq _ _ _ _ _ hi, tot_ackWs_srw', tot_ackWs_lgw, tot_ackWs_clall, tot_ackWs_clpre, b2n_true, b2n_false, clearW_idle, clearW_exited, clearW_eq_exited, srW, lgW, clAllW, clPreW, St.bg, onOk, onErr, selNext, afterSetErr, srAllW] <;> (try omega)
  | selClosed _ i p q hi hq hc =>
    clear h4
    have l0 := le_tot srW _ _ _ hi
    have l1 := le_tot lgW _ _ _ hi
    have l2 := le_tot clAllW _ _ _ hi
    have l3 := le_tot clPreW _ _ _ hi
    cases p <;> simp only [selNext] at hq <;> (try contradiction) <;> cases hq <;> simp_all [tot_set_eq _ _ _ _ _ hi, tot_ackWs_srw', tot_ackWs_lgw, tot_ackWs_clall, tot_ackWs_clpre, b2n_true, b2n_false, clearW_idle, clearW_exited, clearW_eq_exited, srW, lgW, clAllW, clPreW, St.bg, onOk, onErr, selNext, afterSetErr, srAllW] <;> (try omega)
  | putNoWait _ i hi =>
    clear h4
    have l0 := le_tot srW _ _ _ hi
    have l1 := le_tot lgW _ _ _ hi
    have l2 := le_tot clAllW _ _ _ hi
    have l3 := le_tot clPreW _ _ _ hi
    (try simp only [St.setDone, St.setBg]) <;> (repeat' split) <;> simp_all [tot_set_eq _ _ _ _ _ hi, tot_ackWs_srw', tot_ackWs_lgw, tot_ackWs_clall, tot_ackWs_clpre, b2n_true, b2n_false, clearW_idle, clearW_exited, clearW_eq_exited, srW, lgW, clAllW, clPreW, St.bg, onOk, onErr, selNext, afterSetErr, srAllW] <;> (try omega)
  | putWait _ i b hi =>
    clear h4
    have l0 := le_tot srW _ _ _ hi
    have l1 := le_tot lgW _ _ _ hi
    have l2 := le_tot clAllW _ _ _ hi
    have l3 := le_tot clPreW _ _ _ hi
    cases b <;> (try simp only [St.setDone, St.setBg]) <;> (repeat' split) <;> simp_all [tot_set_eq _ _ _ _ _ hi, tot_ackWs_srw', tot_ackWs_lgw, tot_ackWs_clall, tot_ackWs_clpre, b2n_true, b2n_false, clearW_idle, clearW_exited, clearW_eq_exited, srW, lgW, clAllW, clPreW, St.bg, onOk, onErr, selNext, afterSetErr, srAllW] <;> (try omega)
  | putJournalOk _ i hi =>
    clear h4
    have l0 := le_tot srW _ _ _ hi
    have l1 := le_tot lgW _ _ _ hi
    have l2 := le_tot clAllW _ _ _ hi
    have l3 := le_tot clPreW _ _ _ hi
    (try simp only [St.setDone, St.setBg]) <;> (repeat' split) <;> simp_all [tot_set_eq _ _ _ _ _ hi, tot_ackWs_srw', tot_ackWs_lgw, tot_ackWs_clall, tot_ackWs_clpre, b2n_true, b2n_false, clearW_idle, clearW_exited, clearW_eq_exited, srW, lgW, clAllW, clPreW, St.bg, onOk, onErr, selNext, afterSetErr, srAllW] <;> (try omega)
  | putJournalFail _ i hi =>
    clear h4
    have l0 := le_tot srW _ _ _ hi
    have l1 := le_tot lgW _ _ _ hi
    have l2 := le_tot clAllW _ _ _ hi
    have l3 := le_tot clPreW _ _ _ hi
    (try simp only [St.setDone, St.setBg]) <;> (repeat' split) <;> simp_all [tot_set_eq _ _ _ _ _ hi, tot_ackWs_srw', tot_ackWs_lgw, tot_ackWs_clall, tot_ackWs_clpre, b2n_true, b2n_false, clearW_idle, clearW_exited, clearW_eq_exited, srW, lgW, clAllW, clPreW, St.bg, onOk, onErr, selNext, afterSetErr, srAllW] <;> (try omega)
  | putUnlock _ i r hi =>
    clear h4
    have l0 := le_tot srW _ _ _ hi
    have l1 := le_tot lgW _ _ _ hi
    have l2 := le_tot clAllW _ _ _ hi
    have l3 := le_tot clPreW _ _ _ hi
    cases r <;> (try simp only [St.setDone, St.setBg]) <;> (repeat' split) <;> simp_all [tot_set_eq _ _ _ _ _ hi, tot_ackWs_srw', tot_ackWs_lgw, tot_ackWs_clall, tot_ackWs_clpre, b2n_true, b2n_false, clearW_idle, clearW_exited, clearW_eq_exited, srW, lgW, clAllW, clPreW, St.bg, onOk, onErr, selNext, afterSetErr, srAllW] <;> (try omega)
  | cwSendGo _ i b site lg hi hb =>
    clear h4
    have l0 := le_tot srW _ _ _ hi
    have l1 := le_tot lgW _ _ _ hi
    have l2 := le_tot clAllW _ _ _ hi
    have l3 := le_tot clPreW _ _ _ hi
    cases site <;> cases b <;> cases lg <;> (try simp only [St.setDone, St.setBg]) <;> (repeat' split) <;> simp_all [tot_set_eq _ _ _ _ _ hi, tot_ackWs_srw', tot_ackWs_lgw, tot_ackWs_clall, tot_ackWs_clpre, b2n_true, b2n_false, clearW_idle, clearW_exited, clearW_eq_exited, srW, lgW, clAllW, clPreW, St.bg, onOk, onErr, selNext, afterSetErr, srAllW] <;> (try omega)
  | cwSendErr _ i b site lg hi he =>
    clear h4
    have l0 := le_tot srW _ _ _ hi
    have l1 := le_tot lgW _ _ _ hi
    have l2 := le_tot clAllW _ _ _ hi
    have l3 := le_tot clPreW _ _ _ hi
    cases site <;> cases b <;> cases lg <;> (try simp only [St.setDone, St.setBg]) <;> (repeat' split) <;> simp_all [tot_set_eq _ _ _ _ _ hi, tot_ackWs_srw', tot_ackWs_lgw, tot_ackWs_clall, tot_ackWs_clpre, b2n_true, b2n_false, clearW_idle, clearW_exited, clearW_eq_exited, srW, lgW, clAllW, clPreW, St.bg, onOk, onErr, selNext, afterSetErr, srAllW] <;> (try omega)
  | cwAckErr _ i b site lg hi he =>
    clear h4
    have l0 := le_tot srW _ _ _ hi
    have l1 := le_tot lgW _ _ _ hi
    have l2 := le_tot clAllW _ _ _ hi
    have l3 := le_tot clPreW _ _ _ hi
    cases site <;> cases b <;> cases lg <;> (try simp only [St.setDone, St.setBg]) <;> (repeat' split) <;> simp_all [tot_set_eq _ _ _ _ _ hi, tot_ackWs_srw', tot_ackWs_lgw, tot_ackWs_clall, tot_ackWs_clpre, b2n_true, b2n_false, clearW_idle, clearW_exited, clearW_eq_exited, srW, lgW, clAllW, clPreW, St.bg, onOk, onErr, selNext, afterSetErr, srAllW] <;> (try omega)
  | otxRotate _ i lg hi =>
    clear h4
    have l0 := le_tot srW _ _ _ hi
    have l1 := le_tot lgW _ _ _ hi
    have l2 := le_tot clAllW _ _ _ hi
    have l3 := le_tot clPreW _ _ _ hi
    cases lg <;> (try simp only [St.setDone, St.setBg]) <;> (repeat' split) <;> simp_all [tot_set_eq _ _ _ _ _ hi, tot_ackWs_srw', tot_ackWs_lgw, tot_ackWs_clall, tot_ackWs_clpre, b2n_true, b2n_false, clearW_idle, clearW_exited, clearW_eq_exited, srW, lgW, clAllW, clPreW, St.bg, onOk, onErr, selNext, afterSetErr, srAllW] <;> (try omega)
  | otxNoRotate _ i lg hi =>
    clear h4
    have l0 := le_tot srW _ _ _ hi
    have l1 := le_tot lgW _ _ _ hi
    have l2 := le_tot clAllW _ _ _ hi
    have l3 := le_tot clPreW _ _ _ hi
    cases lg <;> (try simp only [St.setDone, St.setBg]) <;> (repeat' split) <;> simp_all [tot_set_eq _ _ _ _ _ hi, tot_ackWs_srw', tot_ackWs_lgw, tot_ackWs_clall, tot_ackWs_clpre, b2n_true, b2n_false, clearW_idle, clearW_exited, clearW_eq_exited, srW, lgW, clAllW, clPreW, St.bg, onOk, onErr, selNext, afterSetErr, srAllW] <;> (try omega)
  | otxNewMemOk _ i lg hi =>
    clear h4
    have l0 := le_tot srW _ _ _ hi
    have l1 := le_tot lgW _ _ _ hi
    have l2 := le_tot clAllW _ _ _ hi
    have l3 := le_tot clPreW _ _ _ hi
    cases lg <;> (try simp only [St.setDone, St.setBg]) <;> (repeat' split) <;> simp_all [tot_set_eq _ _ _ _ _ hi, tot_ackWs_srw', tot_ackWs_lgw, tot_ackWs_clall, tot_ackWs_clpre, b2n_true, b2n_false, clearW_idle, clearW_exited, clearW_eq_exited, srW, lgW, clAllW, clPreW, St.bg, onOk, onErr, selNext, afterSetErr, srAllW] <;> (try omega)
  | otxNewMemFail _ i lg hi =>
    clear h4
    have l0 := le_tot srW _ _ _ hi
    have l1 := le_tot lgW _ _ _ hi
    have l2 := le_tot clAllW _ _ _ hi
    have l3 := le_tot clPreW _ _ _ hi
    cases lg <;> (try simp only [St.setDone, St.setBg]) <;> (repeat' split) <;> simp_all [tot_set_eq _ _ _ _ _ hi, tot_ackWs_srw', tot_ackWs_lgw, tot_ackWs_clall, tot_ackWs_clpre, b2n_true, b2n_false, clearW_idle, clearW_exited, clearW_eq_exited, srW, lgW, clAllW, clPreW, St.bg, onOk, onErr, selNext, afterSetErr, srAllW] <;> (try omega)
  | otxNoWaitComp _ i lg hi =>
    clear h4
    have l0 := le_tot srW _ _ _ hi
    have l1 := le_tot lgW _ _ _ hi
    have l2 := le_tot clAllW _ _ _ hi
    have l3 := le_tot clPreW _ _ _ hi
    cases lg <;> (try simp only [St.setDone, St.setBg]) <;> (repeat' split) <;> simp_all [tot_set_eq _ _ _ _ _ hi, tot_ackWs_srw', tot_ackWs_lgw, tot_ackWs_clall, tot_ackWs_clpre, b2n_true, b2n_false, clearW_idle, clearW_exited, clearW_eq_exited, srW, lgW, clAllW, clPreW, St.bg, onOk, onErr, selNext, afterSetErr, srAllW] <;> (try omega)
  | otxWaitComp _ i lg hi =>
    clear h4
    have l0 := le_tot srW _ _ _ hi
    have l1 := le_tot lgW _ _ _ hi
    have l2 := le_tot clAllW _ _ _ hi
    have l3 := le_tot clPreW _ _ _ hi
    cases lg <;> (try simp only [St.setDone, St.setBg]) <;> (repeat' split) <;> simp_all [tot_set_eq _ _ _ _ _ hi, tot_ackWs_srw', tot_ackWs_lgw, tot_ackWs_clall, tot_ackWs_clpre, b2n_true, b2n_false, clearW_idle, clearW_exited, clearW_eq_exited, srW, lgW, clAllW, clPreW, St.bg, onOk, onErr, selNext, afterSetErr, srAllW] <;> (try omega)
  | otxFail _ i lg hi =>
    clear h4
    have l0 := le_tot srW _ _ _ hi
    have l1 := le_tot lgW _ _ _ hi
    have l2 := le_tot clAllW _ _ _ hi
    have l3 := le_tot clPreW _ _ _ hi
    cases lg <;> (try simp only [St.setDone, St.setBg]) <;> (repeat' split) <;> simp_all [tot_set_eq _ _ _ _ _ hi, tot_ackWs_srw', tot_ackWs_lgw, tot_ackWs_clall, tot_ackWs_clpre, b2n_true, b2n_false, clearW_idle, clearW_exited, clearW_eq_exited, srW, lgW, clAllW, clPreW, St.bg, onOk, onErr, selNext, afterSetErr, srAllW] <;> (try omega)
  | otxRel _ i lg hi =>
    clear h4
    have l0 := le_tot srW _ _ _ hi
    have l1 := le_tot lgW _ _ _ hi
    have l2 := le_tot clAllW _ _ _ hi
    have l3 := le_tot clPreW _ _ _ hi
    cases lg <;> (try simp only [St.setDone, St.setBg]) <;> (repeat' split) <;> simp_all [tot_set_eq _ _ _ _ _ hi, tot_ackWs_srw', tot_ackWs_lgw, tot_ackWs_clall, tot_ackWs_clpre, b2n_true, b2n_false, clearW_idle, clearW_exited, clearW_eq_exited, srW, lgW, clAllW, clPreW, St.bg, onOk, onErr, selNext, afterSetErr, srAllW] <;> (try omega)
  | otxDone _ i lg hi =>
    clear h4
    have l0 := le_tot srW _ _ _ hi
    have l1 := le_tot lgW _ _ _ hi
    have l2 := le_tot clAllW _ _ _ hi
    have l3 := le_tot clPreW _ _ _ hi
    cases lg <;> (try simp only [St.setDone, St.setBg]) <;> (repeat' split) <;> simp_all [tot_set_eq _ _ _ _ _ hi, tot_ackWs_srw', tot_ackWs_lgw, tot_ackWs_clall, tot_ackWs_clpre, b2n_true, b2n_false, clearW_idle, clearW_exited, clearW_eq_exited, srW, lgW, clAllW, clPreW, St.bg, onOk, onErr, selNext, afterSetErr, srAllW] <;> (try omega)
  | lgWriteOk _ i hi =>
    clear h4
    have l0 := le_tot srW _ _ _ hi
    have l1 := le_tot lgW _ _ _ hi
    have l2 := le_tot clAllW _ _ _ hi
    have l3 := le_tot clPreW _ _ _ hi
    (try simp only [St.setDone, St.setBg]) <;> (repeat' split) <;> simp_all [tot_set_eq _ _ _ _ _ hi, tot_ackWs_srw', tot_ackWs_lgw, tot_ackWs_clall, tot_ackWs_clpre, b2n_true, b2n_false, clearW_idle, clearW_exited, clearW_eq_exited, srW, lgW, clAllW, clPreW, St.bg, onOk, onErr, selNext, afterSetErr, srAllW] <;> (try omega)
  | lgWriteFail _ i hi =>
    clear h4
    have l0 := le_tot srW _ _ _ hi
    have l1 := le_tot lgW _ _ _ hi
    have l2 := le_tot clAllW _ _ _ hi
    have l3 := le_tot clPreW _ _ _ hi
    (try simp only [St.setDone, St.setBg]) <;> (repeat' split) <;> simp_all [tot_set_eq _ _ _ _ _ hi, tot_ackWs_srw', tot_ackWs_lgw, tot_ackWs_clall, tot_ackWs_clpre, b2n_true, b2n_false, clearW_idle, clearW_exited, clearW_eq_exited, srW, lgW, clAllW, clPreW, St.bg, onOk, onErr, selNext, afterSetErr, srAllW] <;> (try omega)
  | cmLockTr _ i lg hi hl =>
    clear h4
    have l0 := le_tot srW _ _ _ hi
    have l1 := le_tot lgW _ _ _ hi
    have l2 := le_tot clAllW _ _ _ hi
    have l3 := le_tot clPreW _ _ _ hi
    cases lg <;> (try simp only [St.setDone, St.setBg]) <;> (repeat' split) <;> simp_all [tot_set_eq _ _ _ _ _ hi, tot_ackWs_srw', tot_ackWs_lgw, tot_ackWs_clall, tot_ackWs_clpre, b2n_true, b2n_false, clearW_idle, clearW_exited, clearW_eq_exited, srW, lgW, clAllW, clPreW, St.bg, onOk, onErr, selNext, afterSetErr, srAllW] <;> (try omega)
  | cmFlushOk _ i lg hi =>
    clear h4
    have l0 := le_tot srW _ _ _ hi
    have l1 := le_tot lgW _ _ _ hi
    have l2 := le_tot clAllW _ _ _ hi
    have l3 := le_tot clPreW _ _ _ hi
    cases lg <;> (try simp only [St.setDone, St.setBg]) <;> (repeat' split) <;> simp_all [tot_set_eq _ _ _ _ _ hi, tot_ackWs_srw', tot_ackWs_lgw, tot_ackWs_clall, tot_ackWs_clpre, b2n_true, b2n_false, clearW_idle, clearW_exited, clearW_eq_exited, srW, lgW, clAllW, clPreW, St.bg, onOk, onErr, selNext, afterSetErr, srAllW] <;> (try omega)
  | cmFlushEmpty _ i lg hi =>
    clear h4
    have l0 := le_tot srW _ _ _ hi
    have l1 := le_tot lgW _ _ _ hi
    have l2 := le_tot clAllW _ _ _ hi
    have l3 := le_tot clPreW _ _ _ hi
    cases lg <;> (try simp only [St.setDone, St.setBg]) <;> (repeat' split) <;> simp_all [tot_set_eq _ _ _ _ _ hi, tot_ackWs_srw', tot_ackWs_lgw, tot_ackWs_clall, tot_ackWs_clpre, b2n_true, b2n_false, clearW_idle, clearW_exited, clearW_eq_exited, srW, lgW, clAllW, clPreW, St.bg, onOk, onErr, selNext, afterSetErr, srAllW] <;> (try omega)
  | cmFlushFail _ i lg hi =>
    clear h4
    have l0 := le_tot srW _ _ _ hi
    have l1 := le_tot lgW _ _ _ hi
    have l2 := le_tot clAllW _ _ _ hi
    have l3 := le_tot clPreW _ _ _ hi
    cases lg <;> (try simp only [St.setDone, St.setBg]) <;> (repeat' split) <;> simp_all [tot_set_eq _ _ _ _ _ hi, tot_ackWs_srw', tot_ackWs_lgw, tot_ackWs_clall, tot_ackWs_clpre, b2n_true, b2n_false, clearW_idle, clearW_exited, clearW_eq_exited, srW, lgW, clAllW, clPreW, St.bg, onOk, onErr, selNext, afterSetErr, srAllW] <;> (try omega)
  | cmLockClk _ i lg hi hl =>
    clear h4
    have l0 := le_tot srW _ _ _ hi
    have l1 := le_tot lgW _ _ _ hi
    have l2 := le_tot clAllW _ _ _ hi
    have l3 := le_tot clPreW _ _ _ hi
    cases lg <;> (try simp only [St.setDone, St.setBg]) <;> (repeat' split) <;> simp_all [tot_set_eq _ _ _ _ _ hi, tot_ackWs_srw', tot_ackWs_lgw, tot_ackWs_clall, tot_ackWs_clpre, b2n_true, b2n_false, clearW_idle, clearW_exited, clearW_eq_exited, srW, lgW, clAllW, clPreW, St.bg, onOk, onErr, selNext, afterSetErr, srAllW] <;> (try omega)
  | cmTryOk _ i k lg hi =>
    clear h4
    have l0 := le_tot srW _ _ _ hi
    have l1 := le_tot lgW _ _ _ hi
    have l2 := le_tot clAllW _ _ _ hi
    have l3 := le_tot clPreW _ _ _ hi
    cases lg <;> (try simp only [St.setDone, St.setBg]) <;> (repeat' split) <;> simp_all [tot_set_eq _ _ _ _ _ hi, tot_ackWs_srw', tot_ackWs_lgw, tot_ackWs_clall, tot_ackWs_clpre, b2n_true, b2n_false, clearW_idle, clearW_exited, clearW_eq_exited, srW, lgW, clAllW, clPreW, St.bg, onOk, onErr, selNext, afterSetErr, srAllW] <;> (try omega)
  | cmTryFail _ i k lg hi =>
    clear h4
    have l0 := le_tot srW _ _ _ hi
    have l1 := le_tot lgW _ _ _ hi
    have l2 := le_tot clAllW _ _ _ hi
    have l3 := le_tot clPreW _ _ _ hi
    cases lg <;> (try simp only [St.setDone, St.setBg]) <;> (repeat' split) <;> simp_all [tot_set_eq _ _ _ _ _ hi, tot_ackWs_srw', tot_ackWs_lgw, tot_ackWs_clall, tot_ackWs_clpre, b2n_true, b2n_false, clearW_idle, clearW_exited, clearW_eq_exited, srW, lgW, clAllW, clPreW, St.bg, onOk, onErr, selNext, afterSetErr, srAllW] <;> (try omega)
  | cmSleepTimer _ i k lg hi =>
    clear h4
    have l0 := le_tot srW _ _ _ hi
    have l1 := le_tot lgW _ _ _ hi
    have l2 := le_tot clAllW _ _ _ hi
    have l3 := le_tot clPreW _ _ _ hi
    cases lg <;> (try simp only [St.setDone, St.setBg]) <;> (repeat' split) <;> simp_all [tot_set_eq _ _ _ _ _ hi, tot_ackWs_srw', tot_ackWs_lgw, tot_ackWs_clall, tot_ackWs_clpre, b2n_true, b2n_false, clearW_idle, clearW_exited, clearW_eq_exited, srW, lgW, clAllW, clPreW, St.bg, onOk, onErr, selNext, afterSetErr, srAllW] <;> (try omega)
  | cmSleepClosed _ i k lg hi hc =>
    clear h4
    have l0 := le_tot srW _ _ _ hi
    have l1 := le_tot lgW _ _ _ hi
    have l2 := le_tot clAllW _ _ _ hi
    have l3 := le_tot clPreW _ _ _ hi
    cases lg <;> (try simp only [St.setDone, St.setBg]) <;> (repeat' split) <;> simp_all [tot_set_eq _ _ _ _ _ hi, tot_ackWs_srw', tot_ackWs_lgw, tot_ackWs_clall, tot_ackWs_clpre, b2n_true, b2n_false, clearW_idle, clearW_exited, clearW_eq_exited, srW, lgW, clAllW, clPreW, St.bg, onOk, onErr, selNext, afterSetErr, srAllW] <;> (try omega)
  | cmFail3 _ i lg hi =>
    clear h4
    have l0 := le_tot srW _ _ _ hi
    have l1 := le_tot lgW _ _ _ hi
    have l2 := le_tot clAllW _ _ _ hi
    have l3 := le_tot clPreW _ _ _ hi
    cases lg <;> (try simp only [St.setDone, St.setBg]) <;> (repeat' split) <;> simp_all [tot_set_eq _ _ _ _ _ hi, tot_ackWs_srw', tot_ackWs_lgw, tot_ackWs_clall, tot_ackWs_clpre, b2n_true, b2n_false, clearW_idle, clearW_exited, clearW_eq_exited, srW, lgW, clAllW, clPreW, St.bg, onOk, onErr, selNext, afterSetErr, srAllW] <;> (try omega)
  | cmAfterOk _ i lg hi =>
    clear h4
    have l0 := le_tot srW _ _ _ hi
    have l1 := le_tot lgW _ _ _ hi
    have l2 := le_tot clAllW _ _ _ hi
    have l3 := le_tot clPreW _ _ _ hi
    cases lg <;> (try simp only [St.setDone, St.setBg]) <;> (repeat' split) <;> simp_all [tot_set_eq _ _ _ _ _ hi, tot_ackWs_srw', tot_ackWs_lgw, tot_ackWs_clall, tot_ackWs_clpre, b2n_true, b2n_false, clearW_idle, clearW_exited, clearW_eq_exited, srW, lgW, clAllW, clPreW, St.bg, onOk, onErr, selNext, afterSetErr, srAllW] <;> (try omega)
  | cmNoWaitComp _ i lg hi =>
    clear h4
    have l0 := le_tot srW _ _ _ hi
    have l1 := le_tot lgW _ _ _ hi
    have l2 := le_tot clAllW _ _ _ hi
    have l3 := le_tot clPreW _ _ _ hi
    cases lg <;> (try simp only [St.setDone, St.setBg]) <;> (repeat' split) <;> simp_all [tot_set_eq _ _ _ _ _ hi, tot_ackWs_srw', tot_ackWs_lgw, tot_ackWs_clall, tot_ackWs_clpre, b2n_true, b2n_false, clearW_idle, clearW_exited, clearW_eq_exited, srW, lgW, clAllW, clPreW, St.bg, onOk, onErr, selNext, afterSetErr, srAllW] <;> (try omega)
  | cmWaitComp _ i lg hi =>
    clear h4
    have l0 := le_tot srW _ _ _ hi
    have l1 := le_tot lgW _ _ _ hi
    have l2 := le_tot clAllW _ _ _ hi
    have l3 := le_tot clPreW _ _ _ hi
    cases lg <;> (try simp only [St.setDone, St.setBg]) <;> (repeat' split) <;> simp_all [tot_set_eq _ _ _ _ _ hi, tot_ackWs_srw', tot_ackWs_lgw, tot_ackWs_clall, tot_ackWs_clpre, b2n_true, b2n_false, clearW_idle, clearW_exited, clearW_eq_exited, srW, lgW, clAllW, clPreW, St.bg, onOk, onErr, selNext, afterSetErr, srAllW] <;> (try omega)
  | cmDone _ i lg hi =>
    clear h4
    have l0 := le_tot srW _ _ _ hi
    have l1 := le_tot lgW _ _ _ hi
    have l2 := le_tot clAllW _ _ _ hi
    have l3 := le_tot clPreW _ _ _ hi
    cases lg <;> (try simp only [St.setDone, St.setBg]) <;> (repeat' split) <;> simp_all [tot_set_eq _ _ _ _ _ hi, tot_ackWs_srw', tot_ackWs_lgw, tot_ackWs_clall, tot_ackWs_clpre, b2n_true, b2n_false, clearW_idle, clearW_exited, clearW_eq_exited, srW, lgW, clAllW, clPreW, St.bg, onOk, onErr, selNext, afterSetErr, srAllW] <;> (try omega)
  | cmRet _ i ok lg hi =>
    clear h4
    have l0 := le_tot srW _ _ _ hi
    have l1 := le_tot lgW _ _ _ hi
    have l2 := le_tot clAllW _ _ _ hi
    have l3 := le_tot clPreW _ _ _ hi
    cases ok <;> cases lg <;> (try simp only [St.setDone, St.setBg]) <;> (repeat' split) <;> simp_all [tot_set_eq _ _ _ _ _ hi, tot_ackWs_srw', tot_ackWs_lgw, tot_ackWs_clall, tot_ackWs_clpre, b2n_true, b2n_false, clearW_idle, clearW_exited, clearW_eq_exited, srW, lgW, clAllW, clPreW, St.bg, onOk, onErr, selNext, afterSetErr, srAllW] <;> (try omega)
  | dcLockTr _ i lg hi hl =>
    clear h4
    have l0 := le_tot srW _ _ _ hi
    have l1 := le_tot lgW _ _ _ hi
    have l2 := le_tot clAllW _ _ _ hi
    have l3 := le_tot clPreW _ _ _ hi
    cases lg <;> (try simp only [St.setDone, St.setBg]) <;> (repeat' split) <;> simp_all [tot_set_eq _ _ _ _ _ hi, tot_ackWs_srw', tot_ackWs_lgw, tot_ackWs_clall, tot_ackWs_clpre, b2n_true, b2n_false, clearW_idle, clearW_exited, clearW_eq_exited, srW, lgW, clAllW, clPreW, St.bg, onOk, onErr, selNext, afterSetErr, srAllW] <;> (try omega)
  | dcBody _ i lg hi =>
    clear h4
    have l0 := le_tot srW _ _ _ hi
    have l1 := le_tot lgW _ _ _ hi
    have l2 := le_tot clAllW _ _ _ hi
    have l3 := le_tot clPreW _ _ _ hi
    cases lg <;> (try simp only [St.setDone, St.setBg]) <;> (repeat' split) <;> simp_all [tot_set_eq _ _ _ _ _ hi, tot_ackWs_srw', tot_ackWs_lgw, tot_ackWs_clall, tot_ackWs_clpre, b2n_true, b2n_false, clearW_idle, clearW_exited, clearW_eq_exited, srW, lgW, clAllW, clPreW, St.bg, onOk, onErr, selNext, afterSetErr, srAllW] <;> (try omega)
  | crNoOverlap _ i hi =>
    clear h4
    have l0 := le_tot srW _ _ _ hi
    have l1 := le_tot lgW _ _ _ hi
    have l2 := le_tot clAllW _ _ _ hi
    have l3 := le_tot clPreW _ _ _ hi
    (try simp only [St.setDone, St.setBg]) <;> (repeat' split) <;> simp_all [tot_set_eq _ _ _ _ _ hi, tot_ackWs_srw', tot_ackWs_lgw, tot_ackWs_clall, tot_ackWs_clpre, b2n_true, b2n_false, clearW_idle, clearW_exited, clearW_eq_exited, srW, lgW, clAllW, clPreW, St.bg, onOk, onErr, selNext, afterSetErr, srAllW] <;> (try omega)
  | crOverlap _ i hi =>
    clear h4
    have l0 := le_tot srW _ _ _ hi
    have l1 := le_tot lgW _ _ _ hi
    have l2 := le_tot clAllW _ _ _ hi
    have l3 := le_tot clPreW _ _ _ hi
    (try simp only [St.setDone, St.setBg]) <;> (repeat' split) <;> simp_all [tot_set_eq _ _ _ _ _ hi, tot_ackWs_srw', tot_ackWs_lgw, tot_ackWs_clall, tot_ackWs_clpre, b2n_true, b2n_false, clearW_idle, clearW_exited, clearW_eq_exited, srW, lgW, clAllW, clPreW, St.bg, onOk, onErr, selNext, afterSetErr, srAllW] <;> (try omega)
  | crNewMemOk _ i hi =>
    clear h4
    have l0 := le_tot srW _ _ _ hi
    have l1 := le_tot lgW _ _ _ hi
    have l2 := le_tot clAllW _ _ _ hi
    have l3 := le_tot clPreW _ _ _ hi
    (try simp only [St.setDone, St.setBg]) <;> (repeat' split) <;> simp_all [tot_set_eq _ _ _ _ _ hi, tot_ackWs_srw', tot_ackWs_lgw, tot_ackWs_clall, tot_ackWs_clpre, b2n_true, b2n_false, clearW_idle, clearW_exited, clearW_eq_exited, srW, lgW, clAllW, clPreW, St.bg, onOk, onErr, selNext, afterSetErr, srAllW] <;> (try omega)
  | crNewMemFail _ i hi =>
    clear h4
    have l0 := le_tot srW _ _ _ hi
    have l1 := le_tot lgW _ _ _ hi
    have l2 := le_tot clAllW _ _ _ hi
    have l3 := le_tot clPreW _ _ _ hi
    (try simp only [St.setDone, St.setBg]) <;> (repeat' split) <;> simp_all [tot_set_eq _ _ _ _ _ hi, tot_ackWs_srw', tot_ackWs_lgw, tot_ackWs_clall, tot_ackWs_clpre, b2n_true, b2n_false, clearW_idle, clearW_exited, clearW_eq_exited, srW, lgW, clAllW, clPreW, St.bg, onOk, onErr, selNext, afterSetErr, srAllW] <;> (try omega)
  | crRelM _ i hi =>
    clear h4
    have l0 := le_tot srW _ _ _ hi
    have l1 := le_tot lgW _ _ _ hi
    have l2 := le_tot clAllW _ _ _ hi
    have l3 := le_tot clPreW _ _ _ hi
    (try simp only [St.setDone, St.setBg]) <;> (repeat' split) <;> simp_all [tot_set_eq _ _ _ _ _ hi, tot_ackWs_srw', tot_ackWs_lgw, tot_ackWs_clall, tot_ackWs_clpre, b2n_true, b2n_false, clearW_idle, clearW_exited, clearW_eq_exited, srW, lgW, clAllW, clPreW, St.bg, onOk, onErr, selNext, afterSetErr, srAllW] <;> (try omega)
  | crRelOk _ i hi =>
    clear h4
    have l0 := le_tot srW _ _ _ hi
    have l1 := le_tot lgW _ _ _ hi
    have l2 := le_tot clAllW _ _ _ hi
    have l3 := le_tot clPreW _ _ _ hi
    (try simp only [St.setDone, St.setBg]) <;> (repeat' split) <;> simp_all [tot_set_eq _ _ _ _ _ hi, tot_ackWs_srw', tot_ackWs_lgw, tot_ackWs_clall, tot_ackWs_clpre, b2n_true, b2n_false, clearW_idle, clearW_exited, clearW_eq_exited, srW, lgW, clAllW, clPreW, St.bg, onOk, onErr, selNext, afterSetErr, srAllW] <;> (try omega)
  | crRelFail _ i hi =>
    clear h4
    have l0 := le_tot srW _ _ _ hi
    have l1 := le_tot lgW _ _ _ hi
    have l2 := le_tot clAllW _ _ _ hi
    have l3 := le_tot clPreW _ _ _ hi
    (try simp only [St.setDone, St.setBg]) <;> (repeat' split) <;> simp_all [tot_set_eq _ _ _ _ _ hi, tot_ackWs_srw', tot_ackWs_lgw, tot_ackWs_clall, tot_ackWs_clpre, b2n_true, b2n_false, clearW_idle, clearW_exited, clearW_eq_exited, srW, lgW, clAllW, clPreW, St.bg, onOk, onErr, selNext, afterSetErr, srAllW] <;> (try omega)
  | srSend _ i hi he =>
    clear h4
    have l0 := le_tot srW _ _ _ hi
    have l1 := le_tot lgW _ _ _ hi
    have l2 := le_tot clAllW _ _ _ hi
    have l3 := le_tot clPreW _ _ _ hi
    rcases he with he | he <;> (try simp only [St.setDone, St.setBg]) <;> (repeat' split) <;> simp_all [tot_set_eq _ _ _ _ _ hi, tot_ackWs_srw', tot_ackWs_lgw, tot_ackWs_clall, tot_ackWs_clpre, b2n_true, b2n_false, clearW_idle, clearW_exited, clearW_eq_exited, srW, lgW, clAllW, clPreW, St.bg, onOk, onErr, selNext, afterSetErr, srAllW] <;> (try omega)
  | srPerErr _ i hi he =>
    clear h4
    have l0 := le_tot srW _ _ _ hi
    have l1 := le_tot lgW _ _ _ hi
    have l2 := le_tot clAllW _ _ _ hi
    have l3 := le_tot clPreW _ _ _ hi
    (try simp only [St.setDone, St.setBg]) <;> (repeat' split) <;> simp_all [tot_set_eq _ _ _ _ _ hi, tot_ackWs_srw', tot_ackWs_lgw, tot_ackWs_clall, tot_ackWs_clpre, b2n_true, b2n_false, clearW_idle, clearW_exited, clearW_eq_exited, srW, lgW, clAllW, clPreW, St.bg, onOk, onErr, selNext, afterSetErr, srAllW] <;> (try omega)
  | srClosed _ i hi hc =>
    have l0 := le_tot srW _ _ _ hi
    have l1 := le_tot lgW _ _ _ hi
    have l2 := le_tot clAllW _ _ _ hi
    have l3 := le_tot clPreW _ _ _ hi
    have ls := le_tot srAllW _ _ _ hi
    rcases h4 with h4 | ⟨_, h4⟩ <;> (try simp only [St.setDone, St.setBg]) <;> (repeat' split) <;> simp_all [tot_set_eq _ _ _ _ _ hi, tot_ackWs_srw', tot_ackWs_lgw, tot_ackWs_clall, tot_ackWs_clpre, b2n_true, b2n_false, clearW_idle, clearW_exited, clearW_eq_exited, srW, lgW, clAllW, clPreW, St.bg, onOk, onErr, selNext, afterSetErr, srAllW] <;> (try omega)
  | clCheckTr _ i hi =>
    clear h4
    have l0 := le_tot srW _ _ _ hi
    have l1 := le_tot lgW _ _ _ hi
    have l2 := le_tot clAllW _ _ _ hi
    have l3 := le_tot clPreW _ _ _ hi
    (try simp only [St.setDone, St.setBg]) <;> (repeat' split) <;> simp_all [tot_set_eq _ _ _ _ _ hi, tot_ackWs_srw', tot_ackWs_lgw, tot_ackWs_clall, tot_ackWs_clpre, b2n_true, b2n_false, clearW_idle, clearW_exited, clearW_eq_exited, srW, lgW, clAllW, clPreW, St.bg, onOk, onErr, selNext, afterSetErr, srAllW] <;> (try omega)
  | clLockTr _ i hi hl =>
    clear h4
    have l0 := le_tot srW _ _ _ hi
    have l1 := le_tot lgW _ _ _ hi
    have l2 := le_tot clAllW _ _ _ hi
    have l3 := le_tot clPreW _ _ _ hi
    (try simp only [St.setDone, St.setBg]) <;> (repeat' split) <;> simp_all [tot_set_eq _ _ _ _ _ hi, tot_ackWs_srw', tot_ackWs_lgw, tot_ackWs_clall, tot_ackWs_clpre, b2n_true, b2n_false, clearW_idle, clearW_exited, clearW_eq_exited, srW, lgW, clAllW, clPreW, St.bg, onOk, onErr, selNext, afterSetErr, srAllW] <;> (try omega)
  | clBody _ i hi =>
    clear h4
    have l0 := le_tot srW _ _ _ hi
    have l1 := le_tot lgW _ _ _ hi
    have l2 := le_tot clAllW _ _ _ hi
    have l3 := le_tot clPreW _ _ _ hi
    (try simp only [St.setDone, St.setBg]) <;> (repeat' split) <;> simp_all [tot_set_eq _ _ _ _ _ hi, tot_ackWs_srw', tot_ackWs_lgw, tot_ackWs_clall, tot_ackWs_clpre, b2n_true, b2n_false, clearW_idle, clearW_exited, clearW_eq_exited, srW, lgW, clAllW, clPreW, St.bg, onOk, onErr, selNext, afterSetErr, srAllW] <;> (try omega)
  | clAcq _ i hi ht =>
    clear h4
    have l0 := le_tot srW _ _ _ hi
    have l1 := le_tot lgW _ _ _ hi
    have l2 := le_tot clAllW _ _ _ hi
    have l3 := le_tot clPreW _ _ _ hi
    (try simp only [St.setDone, St.setBg]) <;> (repeat' split) <;> simp_all [tot_set_eq _ _ _ _ _ hi, tot_ackWs_srw', tot_ackWs_lgw, tot_ackWs_clall, tot_ackWs_clpre, b2n_true, b2n_false, clearW_idle, clearW_exited, clearW_eq_exited, srW, lgW, clAllW, clPreW, St.bg, onOk, onErr, selNext, afterSetErr, srAllW] <;> (try omega)
  | clWait _ i hi hm ht =>
    clear h4
    have l0 := le_tot srW _ _ _ hi
    have l1 := le_tot lgW _ _ _ hi
    have l2 := le_tot clAllW _ _ _ hi
    have l3 := le_tot clPreW _ _ _ hi
    (try simp only [St.setDone, St.setBg]) <;> (repeat' split) <;> simp_all [tot_set_eq _ _ _ _ _ hi, tot_ackWs_srw', tot_ackWs_lgw, tot_ackWs_clall, tot_ackWs_clpre, b2n_true, b2n_false, clearW_idle, clearW_exited, clearW_eq_exited, srW, lgW, clAllW, clPreW, St.bg, onOk, onErr, selNext, afterSetErr, srAllW] <;> (try omega)
  | ehAcquire _ he ht hn =>
    clear h4
    (try simp only [St.setDone, St.setBg]) <;> (repeat' split) <;> simp_all [tot_ackWs_srw', tot_ackWs_lgw, tot_ackWs_clall, tot_ackWs_clpre, b2n_true, b2n_false, clearW_idle, clearW_exited, clearW_eq_exited, srW, lgW, clAllW, clPreW, St.bg, onOk, onErr, selNext, afterSetErr, srAllW] <;> (try omega)
  | ehExit _ he hc =>
    clear h4
    cases he' : s.eh <;> (try simp only [St.setDone, St.setBg]) <;> (repeat' split) <;> simp_all [tot_ackWs_srw', tot_ackWs_lgw, tot_ackWs_clall, tot_ackWs_clpre, b2n_true, b2n_false, clearW_idle, clearW_exited, clearW_eq_exited, srW, lgW, clAllW, clPreW, St.bg, onOk, onErr, selNext, afterSetErr, srAllW] <;> (try omega)
  | bgExitIdle _ b hb hc =>
    clear h4
    cases b <;> (try simp only [St.setDone, St.setBg]) <;> (repeat' split) <;> simp_all [tot_ackWs_srw', tot_ackWs_lgw, tot_ackWs_clall, tot_ackWs_clpre, b2n_true, b2n_false, clearW_idle, clearW_exited, clearW_eq_exited, srW, lgW, clAllW, clPreW, St.bg, onOk, onErr, selNext, afterSetErr, srAllW] <;> (try omega)
  | bgWorkOk _ b w hb =>
    clear h4
    cases b <;> (try simp only [St.setDone, St.setBg]) <;> (repeat' split) <;> simp_all [tot_ackWs_srw', tot_ackWs_lgw, tot_ackWs_clall, tot_ackWs_clpre, b2n_true, b2n_false, clearW_idle, clearW_exited, clearW_eq_exited, srW, lgW, clAllW, clPreW, St.bg, onOk, onErr, selNext, afterSetErr, srAllW] <;> (try omega)
  | bgWorkFail _ b w hb =>
    clear h4
    cases b <;> (try simp only [St.setDone, St.setBg]) <;> (repeat' split) <;> simp_all [tot_ackWs_srw', tot_ackWs_lgw, tot_ackWs_clall, tot_ackWs_clpre, b2n_true, b2n_false, clearW_idle, clearW_exited, clearW_eq_exited, srW, lgW, clAllW, clPreW, St.bg, onOk, onErr, selNext, afterSetErr, srAllW] <;> (try omega)
  | bgCommitOk _ b w hb =>
    clear h4
    cases b <;> (try simp only [St.setDone, St.setBg]) <;> (repeat' split) <;> simp_all [tot_ackWs_srw', tot_ackWs_lgw, tot_ackWs_clall, tot_ackWs_clpre, b2n_true, b2n_false, clearW_idle, clearW_exited, clearW_eq_exited, srW, lgW, clAllW, clPreW, St.bg, onOk, onErr, selNext, afterSetErr, srAllW] <;> (try omega)
  | bgCommitFail _ b w hb =>
    clear h4
    cases b <;> (try simp only [St.setDone, St.setBg]) <;> (repeat' split) <;> simp_all [tot_ackWs_srw', tot_ackWs_lgw, tot_ackWs_clall, tot_ackWs_clpre, b2n_true, b2n_false, clearW_idle, clearW_exited, clearW_eq_exited, srW, lgW, clAllW, clPreW, St.bg, onOk, onErr, selNext, afterSetErr, srAllW] <;> (try omega)
  | bgSetErr _ b w ok c hb he =>
    clear h4
    rcases he with he | he <;> cases b <;> cases ok <;> cases c <;> (try simp only [St.setDone, St.setBg]) <;> (repeat' split) <;> simp_all [tot_ackWs_srw', tot_ackWs_lgw, tot_ackWs_clall, tot_ackWs_clpre, b2n_true, b2n_false, clearW_idle, clearW_exited, clearW_eq_exited, srW, lgW, clAllW, clPreW, St.bg, onOk, onErr, selNext, afterSetErr, srAllW] <;> (try omega)
  | bgSetErrPer _ b w c hb he =>
    clear h4
    cases b <;> cases c <;> (try simp only [St.setDone, St.setBg]) <;> (repeat' split) <;> simp_all [tot_ackWs_srw', tot_ackWs_lgw, tot_ackWs_clall, tot_ackWs_clpre, b2n_true, b2n_false, clearW_idle, clearW_exited, clearW_eq_exited, srW, lgW, clAllW, clPreW, St.bg, onOk, onErr, selNext, afterSetErr, srAllW] <;> (try omega)
  | bgBackoff _ b w c hb =>
    clear h4
    cases b <;> cases c <;> (try simp only [St.setDone, St.setBg]) <;> (repeat' split) <;> simp_all [tot_ackWs_srw', tot_ackWs_lgw, tot_ackWs_clall, tot_ackWs_clpre, b2n_true, b2n_false, clearW_idle, clearW_exited, clearW_eq_exited, srW, lgW, clAllW, clPreW, St.bg, onOk, onErr, selNext, afterSetErr, srAllW] <;> (try omega)
  | bgLockClk _ b w hb hl =>
    clear h4
    cases b <;> (try simp only [St.setDone, St.setBg]) <;> (repeat' split) <;> simp_all [tot_ackWs_srw', tot_ackWs_lgw, tot_ackWs_clall, tot_ackWs_clpre, b2n_true, b2n_false, clearW_idle, clearW_exited, clearW_eq_exited, srW, lgW, clAllW, clPreW, St.bg, onOk, onErr, selNext, afterSetErr, srAllW] <;> (try omega)
  | bgAck _ b w hb =>
    clear h4
    cases b <;> (try simp only [St.setDone, St.setBg]) <;> (repeat' split) <;> simp_all [tot_ackWs_srw', tot_ackWs_lgw, tot_ackWs_clall, tot_ackWs_clpre, b2n_true, b2n_false, clearW_idle, clearW_exited, clearW_eq_exited, srW, lgW, clAllW, clPreW, St.bg, onOk, onErr, selNext, afterSetErr, srAllW] <;> (try omega)
  | bgExit _ b w ph hb hx =>
    clear h4
    cases b <;> cases ph <;> (try simp only [St.setDone, St.setBg]) <;> (repeat' split) <;> simp_all [tot_ackWs_srw', tot_ackWs_lgw, tot_ackWs_clall, tot_ackWs_clpre, b2n_true, b2n_false, clearW_idle, clearW_exited, clearW_eq_exited, srW, lgW, clAllW, clPreW, St.bg, onOk, onErr, selNext, afterSetErr, srAllW] <;> (try omega) <;> (try (rcases hx with hx | hx <;> simp_all))

theorem step_pinvB (s t : St) (f : Bool) (cfg : Cfg) (hfx : Fixed3 cfg)
    (h4 : cfg.setReadOnlyReleasesOnClose = true ∨ NoSR s) (h : Step cfg f s t) (inv : PInvB s) : PInvB t := by
  unfold PInvB at *
  have c3 := b2n_le s.ehTok
  obtain ⟨f1, f2, f3⟩ := hfx
  cases h with
  | startPut _ i hi =>
    clear h4
    have l0 := le_tot srW _ _ _ hi
    have l1 := le_tot lgW _ _ _ hi
    have l2 := le_tot clAllW _ _ _ hi
    have l3 := le_tot clPreW _ _ _ hi
    (try simp only [St.setDone, St.setBg]) <;> (repeat' split) <;> simp_all [tot_set_eq _ _ _ _ _ hi, tot_ackWs_srw', tot_ackWs_lgw, tot_ackWs_clall, tot_ackWs_clpre, b2n_true, b2n_false, clearW_idle, clearW_exited, clearW_eq_exited, srW, lgW, clAllW, clPreW, St.bg, onOk, onErr, selNext, afterSetErr, srAllW] <;> (try omega)
  | startWrite _ i hi =>
    clear h4
    have l0 := le_tot srW _ _ _ hi
    have l1 := le_tot lgW _ _ _ hi
    have l2 := le_tot clAllW _ _ _ hi
    have l3 := le_tot clPreW _ _ _ hi
    (try simp only [St.setDone, St.setBg]) <;> (repeat' split) <;> simp_all [tot_set_eq _ _ _ _ _ hi, tot_ackWs_srw', tot_ackWs_lgw, tot_ackWs_clall, tot_ackWs_clpre, b2n_true, b2n_false, clearW_idle, clearW_exited, clearW_eq_exited, srW, lgW, clAllW, clPreW, St.bg, onOk, onErr, selNext, afterSetErr, srAllW] <;> (try omega)
  | startOtx _ i hi =>
    clear h4
    have l0 := le_tot srW _ _ _ hi
    have l1 := le_tot lgW _ _ _ hi
    have l2 := le_tot clAllW _ _ _ hi
    have l3 := le_tot clPreW _ _ _ hi
    (try simp only [St.setDone, St.setBg]) <;> (repeat' split) <;> simp_all [tot_set_eq _ _ _ _ _ hi, tot_ackWs_srw', tot_ackWs_lgw, tot_ackWs_clall, tot_ackWs_clpre, b2n_true, b2n_false, clearW_idle, clearW_exited, clearW_eq_exited, srW, lgW, clAllW, clPreW, St.bg, onOk, onErr, selNext, afterSetErr, srAllW] <;> (try omega)
  | startCommit _ i hi hu =>
    clear h4
    have l0 := le_tot srW _ _ _ hi
    have l1 := le_tot lgW _ _ _ hi
    have l2 := le_tot clAllW _ _ _ hi
    have l3 := le_tot clPreW _ _ _ hi
    (try simp only [St.setDone, St.setBg]) <;> (repeat' split) <;> simp_all [tot_set_eq _ _ _ _ _ hi, tot_ackWs_srw', tot_ackWs_lgw, tot_ackWs_clall, tot_ackWs_clpre, b2n_true, b2n_false, clearW_idle, clearW_exited, clearW_eq_exited, srW, lgW, clAllW, clPreW, St.bg, onOk, onErr, selNext, afterSetErr, srAllW] <;> (try omega)
  | startDiscard _ i hi hu =>
    clear h4
    have l0 := le_tot srW _ _ _ hi
    have l1 := le_tot lgW _ _ _ hi
    have l2 := le_tot clAllW _ _ _ hi
    have l3 := le_tot clPreW _ _ _ hi
    (try simp only [St.setDone, St.setBg]) <;> (repeat' split) <;> simp_all [tot_set_eq _ _ _ _ _ hi, tot_ackWs_srw', tot_ackWs_lgw, tot_ackWs_clall, tot_ackWs_clpre, b2n_true, b2n_false, clearW_idle, clearW_exited, clearW_eq_exited, srW, lgW, clAllW, clPreW, St.bg, onOk, onErr, selNext, afterSetErr, srAllW] <;> (try omega)
  | startCR _ i hi =>
    clear h4
    have l0 := le_tot srW _ _ _ hi
    have l1 := le_tot lgW _ _ _ hi
    have l2 := le_tot clAllW _ _ _ hi
    have l3 := le_tot clPreW _ _ _ hi
    (try simp only [St.setDone, St.setBg]) <;> (repeat' split) <;> simp_all [tot_set_eq _ _ _ _ _ hi, tot_ackWs_srw', tot_ackWs_lgw, tot_ackWs_clall, tot_ackWs_clpre, b2n_true, b2n_false, clearW_idle, clearW_exited, clearW_eq_exited, srW, lgW, clAllW, clPreW, St.bg, onOk, onErr, selNext, afterSetErr, srAllW] <;> (try omega)
  | startSR _ i hi ha =>
    clear h4
    have l0 := le_tot srW _ _ _ hi
    have l1 := le_tot lgW _ _ _ hi
    have l2 := le_tot clAllW _ _ _ hi
    have l3 := le_tot clPreW _ _ _ hi
    (try simp only [St.setDone, St.setBg]) <;> (repeat' split) <;> simp_all [tot_set_eq _ _ _ _ _ hi, tot_ackWs_srw', tot_ackWs_lgw, tot_ackWs_clall, tot_ackWs_clpre, b2n_true, b2n_false, clearW_idle, clearW_exited, clearW_eq_exited, srW, lgW, clAllW, clPreW, St.bg, onOk, onErr, selNext, afterSetErr, srAllW] <;> (try omega)
  | startClose _ i hi =>
    clear h4
    have l0 := le_tot srW _ _ _ hi
    have l1 := le_tot lgW _ _ _ hi
    have l2 := le_tot clAllW _ _ _ hi
    have l3 := le_tot clPreW _ _ _ hi
    (try simp only [St.setDone, St.setBg]) <;> (repeat' split) <;> simp_all [tot_set_eq _ _ _ _ _ hi, tot_ackWs_srw', tot_ackWs_lgw, tot_ackWs_clall, tot_ackWs_clpre, b2n_true, b2n_false, clearW_idle, clearW_exited, clearW_eq_exited, srW, lgW, clAllW, clPreW, St.bg, onOk, onErr, selNext, afterSetErr, srAllW] <;> (try omega)
  | selTok _ i p q hi hq ht =>
    clear h4
    have l0 := le_tot srW _ _ _ hi
    have l1 := le_tot lgW _ _ _ hi
    have l2 := le_tot clAllW _ _ _ hi
    have l3 := le_tot clPreW _ _ _ hi
    cases p <;> simp only [selNext] at hq <;> (try contradiction) <;> cases hq <;> simp_all [tot_set_eq _ _ _ _ _ hi, tot_ackWs_srw', tot_ackWs_lgw, tot_ackWs_clall, tot_ackWs_clpre, b2n_true, b2n_false, clearW_idle, clearW_exited, clearW_eq_exited, srW, lgW, clAllW, clPreW, St.bg, onOk, onErr, selNext, afterSetErr, srAllW] <;> (try omega)
  | selPerErr _ i p q hi hq he =>
    clear h4
    have l0 := le_tot srW _ _ _ hi
    have l1 := le_tot lgW _ _ _ hi
    have l2 := le_tot clAllW _ _ _ hi
    have l3 := le_tot clPreW _ _ _ hi
    cases p <;> simp only [selNext] at hq <;> (try contradiction) <;> cases hq <;> simp_all [tot_set_eq _ _ _ _ _ hi, tot_ackWs_srw', tot_ackWs_lgw, tot_ackWs_clall, tot_ackWs_clpre, b2n_true, b2n_false, clearW_idle, clearW_exited, clearW_eq_exited, srW, lgW, clAllW, clPreW, St.bg, onOk, onErr, selNext, afterSetErr, srAllW] <;> (try omega)
  | selClosed _ i p q hi hq hc =>
    clear h4
    have l0 := le_tot srW _ _ _ hi
    have l1 := le_tot lgW _ _ _ hi
    have l2 := le_tot clAllW _ _ _ hi
    have l3 := le_tot clPreW _ _ _ hi
    cases p <;> simp only [selNext] at hq <;> (try contradiction) <;> cases hq <;> simp_all [tot_set_eq _ _ _ _ _ hi, tot_ackWs_srw', tot_ackWs_lgw, tot_ackWs_clall, tot_ackWs_clpre, b2n_true, b2n_false, clearW_idle, clearW_exited, clearW_eq_exited, srW, lgW, clAllW, clPreW, St.bg, onOk, onErr, selNext, afterSetErr, srAllW] <;> (try omega)
  | putNoWait _ i hi =>
    clear h4
    have l0 := le_tot srW _ _ _ hi
    have l1 := le_tot lgW _ _ _ hi
    have l2 := le_tot clAllW _ _ _ hi
    have l3 := le_tot clPreW _ _ _ hi
    (try simp only [St.setDone, St.setBg]) <;> (repeat' split) <;> simp_all [tot_set_eq _ _ _ _ _ hi, tot_ackWs_srw', tot_ackWs_lgw, tot_ackWs_clall, tot_ackWs_clpre, b2n_true, b2n_false, clearW_idle, clearW_exited, clearW_eq_exited, srW, lgW, clAllW, clPreW, St.bg, onOk, onErr, selNext, afterSetErr, srAllW] <;> (try omega)
  | putWait _ i b hi =>
    clear h4
    have l0 := le_tot srW _ _ _ hi
    have l1 := le_tot lgW _ _ _ hi
    have l2 := le_tot clAllW _ _ _ hi
    have l3 := le_tot clPreW _ _ _ hi
    cases b <;> (try simp only [St.setDone, St.setBg]) <;> (repeat' split) <;> simp_all [tot_set_eq _ _ _ _ _ hi, tot_ackWs_srw', tot_ackWs_lgw, tot_ackWs_clall, tot_ackWs_clpre, b2n_true, b2n_false, clearW_idle, clearW_exited, clearW_eq_exited, srW, lgW, clAllW, clPreW, St.bg, onOk, onErr, selNext, afterSetErr, srAllW] <;> (try omega)
  | putJournalOk _ i hi =>
    clear h4
    have l0 := le_tot srW _ _ _ hi
    have l1 := le_tot lgW _ _ _ hi
    have l2 := le_tot clAllW _ _ _ hi
    have l3 := le_tot clPreW _ _ _ hi
    (try simp only [St.setDone, St.setBg]) <;> (repeat' split) <;> simp_all [tot_set_eq _ _ _ _ _ hi, tot_ackWs_srw', tot_ackWs_lgw, tot_ackWs_clall, tot_ackWs_clpre, b2n_true, b2n_false, clearW_idle, clearW_exited, clearW_eq_exited, srW, lgW, clAllW, clPreW, St.bg, onOk, onErr, selNext, afterSetErr, srAllW] <;> (try omega)
  | putJournalFail _ i hi =>
    clear h4
    have l0 := le_tot srW _ _ _ hi
    have l1 := le_tot lgW _ _ _ hi
    have l2 := le_tot clAllW _ _ _ hi
    have l3 := le_tot clPreW _ _ _ hi
    (try simp only [St.setDone, St.setBg]) <;> (repeat' split) <;> simp_all [tot_set_eq _ _ _ _ _ hi, tot_ackWs_srw', tot_ackWs_lgw, tot_ackWs_clall, tot_ackWs_clpre, b2n_true, b2n_false, clearW_idle, clearW_exited, clearW_eq_exited, srW, lgW, clAllW, clPreW, St.bg, onOk, onErr, selNext, afterSetErr, srAllW] <;> (try omega)
  | putUnlock _ i r hi =>
    clear h4
    have l0 := le_tot srW _ _ _ hi
    have l1 := le_tot lgW _ _ _ hi
    have l2 := le_tot clAllW _ _ _ hi
    have l3 := le_tot clPreW _ _ _ hi
    cases r <;> (try simp only [St.setDone, St.setBg]) <;> (repeat' split) <;> simp_all [tot_set_eq _ _ _ _ _ hi, tot_ackWs_srw', tot_ackWs_lgw, tot_ackWs_clall, tot_ackWs_clpre, b2n_true, b2n_false, clearW_idle, clearW_exited, clearW_eq_exited, srW, lgW, clAllW, clPreW, St.bg, onOk, onErr, selNext, afterSetErr, srAllW] <;> (try omega)
  | cwSendGo _ i b site lg hi hb =>
    clear h4
    have l0 := le_tot srW _ _ _ hi
    have l1 := le_tot lgW _ _ _ hi
    have l2 := le_tot clAllW _ _ _ hi
    have l3 := le_tot clPreW _ _ _ hi
    cases site <;> cases b <;> cases lg <;> (try simp only [St.setDone, St.setBg]) <;> (repeat' split) <;> simp_all [tot_set_eq _ _ _ _ _ hi, tot_ackWs_srw', tot_ackWs_lgw, tot_ackWs_clall, tot_ackWs_clpre, b2n_true, b2n_false, clearW_idle, clearW_exited, clearW_eq_exited, srW, lgW, clAllW, clPreW, St.bg, onOk, onErr, selNext, afterSetErr, srAllW] <;> (try omega)
  | cwSendErr _ i b site lg hi he =>
    clear h4
    have l0 := le_tot srW _ _ _ hi
    have l1 := le_tot lgW _ _ _ hi
    have l2 := le_tot clAllW _ _ _ hi
    have l3 := le_tot clPreW _ _ _ hi
    cases site <;> cases b <;> cases lg <;> (try simp only [St.setDone, St.setBg]) <;> (repeat' split) <;> simp_all [tot_set_eq _ _ _ _ _ hi, tot_ackWs_srw', tot_ackWs_lgw, tot_ackWs_clall, tot_ackWs_clpre, b2n_true, b2n_false, clearW_idle, clearW_exited, clearW_eq_exited, srW, lgW, clAllW, clPreW, St.bg, onOk, onErr, selNext, afterSetErr, srAllW] <;> (try omega)
  | cwAckErr _ i b site lg hi he =>
    clear h4
    have l0 := le_tot srW _ _ _ hi
    have l1 := le_tot lgW _ _ _ hi
    have l2 := le_tot clAllW _ _ _ hi
    have l3 := le_tot clPreW _ _ _ hi
    cases site <;> cases b <;> cases lg <;> (try simp only [St.setDone, St.setBg]) <;> (repeat' split) <;> simp_all [tot_set_eq _ _ _ _ _ hi, tot_ackWs_srw', tot_ackWs_lgw, tot_ackWs_clall, tot_ackWs_clpre, b2n_true, b2n_false, clearW_idle, clearW_exited, clearW_eq_exited, srW, lgW, clAllW, clPreW, St.bg, onOk, onErr, selNext, afterSetErr, srAllW] <;> (try omega)
  | otxRotate _ i lg hi =>
    clear h4
    have l0 := le_tot srW _ _ _ hi
    have l1 := le_tot lgW _ _ _ hi
    have l2 := le_tot clAllW _ _ _ hi
    have l3 := le_tot clPreW _ _ _ hi
    cases lg <;> (try simp only [St.setDone, St.setBg]) <;> (repeat' split) <;> simp_all [tot_set_eq _ _ _ _ _ hi, tot_ackWs_srw', tot_ackWs_lgw, tot_ackWs_clall, tot_ackWs_clpre, b2n_true, b2n_false, clearW_idle, clearW_exited, clearW_eq_exited, srW, lgW, clAllW, clPreW, St.bg, onOk, onErr, selNext, afterSetErr, srAllW] <;> (try omega)
  | otxNoRotate _ i lg hi =>
    clear h4
    have l0 := le_tot srW _ _ _ hi
    have l1 := le_tot lgW _ _ _ hi
    have l2 := le_tot clAllW _ _ _ hi
    have l3 := le_tot clPreW _ _ _ hi
    cases lg <;> (try simp only [St.setDone, St.setBg]) <;> (repeat' split) <;> simp_all [tot_set_eq _ _ _ _ _ hi, tot_ackWs_srw', tot_ackWs_lgw, tot_ackWs_clall, tot_ackWs_clpre, b2n_true, b2n_false, clearW_idle, clearW_exited, clearW_eq_exited, srW, lgW, clAllW, clPreW, St.bg, onOk, onErr, selNext, afterSetErr, srAllW] <;> (try omega)
  | otxNewMemOk _ i lg hi =>
    clear h4
    have l0 := le_tot srW _ _ _ hi
    have l1 := le_tot lgW _ _ _ hi
    have l2 := le_tot clAllW _ _ _ hi
    have l3 := le_tot clPreW _ _ _ hi
    cases lg <;> (try simp only [St.setDone, St.setBg]) <;> (repeat' split) <;> simp_all [tot_set_eq _ _ _ _ _ hi, tot_ackWs_srw', tot_ackWs_lgw, tot_ackWs_clall, tot_ackWs_clpre, b2n_true, b2n_false, clearW_idle, clearW_exited, clearW_eq_exited, srW, lgW, clAllW, clPreW, St.bg, onOk, onErr, selNext, afterSetErr, srAllW] <;> (try omega)
  | otxNewMemFail _ i lg hi =>
    clear h4
    have l0 := le_tot srW _ _ _ hi
    have l1 := le_tot lgW _ _ _ hi
    have l2 := le_tot clAllW _ _ _ hi
    have l3 := le_tot clPreW _ _ _ hi
    cases lg <;> (try simp only [St.setDone, St.setBg]) <;> (repeat' split) <;> simp_all [tot_set_eq _ _ _ _ _ hi, tot_ackWs_srw', tot_ackWs_lgw, tot_ackWs_clall, tot_ackWs_clpre, b2n_true, b2n_false, clearW_idle, clearW_exited, clearW_eq_exited, srW, lgW, clAllW, clPreW, St.bg, onOk, onErr, selNext, afterSetErr, srAllW] <;> (try omega)
  | otxNoWaitComp _ i lg hi =>
    clear h4
    have l0 := le_tot srW _ _ _ hi
    have l1 := le_tot lgW _ _ _ hi
    have l2 := le_tot clAllW _ _ _ hi
    have l3 := le_tot clPreW _ _ _ hi
    cases lg <;> (try simp only [St.setDone, St.setBg]) <;> (repeat' split) <;> simp_all [tot_set_eq _ _ _ _ _ hi, tot_ackWs_srw', tot_ackWs_lgw, tot_ackWs_clall, tot_ackWs_clpre, b2n_true, b2n_false, clearW_idle, clearW_exited, clearW_eq_exited, srW, lgW, clAllW, clPreW, St.bg, onOk, onErr, selNext, afterSetErr, srAllW] <;> (try omega)
  | otxWaitComp _ i lg hi =>
    clear h4
    have l0 := le_tot srW _ _ _ hi
    have l1 := le_tot lgW _ _ _ hi
    have l2 := le_tot clAllW _ _ _ hi
    have l3 := le_tot clPreW _ _ _ hi
    cases lg <;> (try simp only [St.setDone, St.setBg]) <;> (repeat' split) <;> simp_all [tot_set_eq _ _ _ _ _ hi, tot_ackWs_srw', tot_ackWs_lgw, tot_ackWs_clall, tot_ackWs_clpre, b2n_true, b2n_false, clearW_idle, clearW_exited, clearW_eq_exited, srW, lgW, clAllW, clPreW, St.bg, onOk, onErr, selNext, afterSetErr, srAllW] <;> (try omega)
  | otxFail _ i lg hi =>
    clear h4
    have l0 := le_tot srW _ _ _ hi
    have l1 := le_tot lgW _ _ _ hi
    have l2 := le_tot clAllW _ _ _ hi
    have l3 := le_tot clPreW _ _ _ hi
    cases lg <;> (try simp only [St.setDone, St.setBg]) <;> (repeat' split) <;> simp_all [tot_set_eq _ _ _ _ _ hi, tot_ackWs_srw', tot_ackWs_lgw, tot_ackWs_clall, tot_ackWs_clpre, b2n_true, b2n_false, clearW_idle, clearW_exited, clearW_eq_exited, srW, lgW, clAllW, clPreW, St.bg, onOk, onErr, selNext, afterSetErr, srAllW] <;> (try omega)
  | otxRel _ i lg hi =>
    clear h4
    have l0 := le_tot srW _ _ _ hi
    have l1 := le_tot lgW _ _ _ hi
    have l2 := le_tot clAllW _ _ _ hi
    have l3 := le_tot clPreW _ _ _ hi
    cases lg <;> (try simp only [St.setDone, St.setBg]) <;> (repeat' split) <;> simp_all [tot_set_eq _ _ _ _ _ hi, tot_ackWs_srw', tot_ackWs_lgw, tot_ackWs_clall, tot_ackWs_clpre, b2n_true, b2n_false, clearW_idle, clearW_exited, clearW_eq_exited, srW, lgW, clAllW, clPreW, St.bg, onOk, onErr, selNext, afterSetErr, srAllW] <;> (try omega)
  | otxDone _ i lg hi =>
    clear h4
    have l0 := le_tot srW _ _ _ hi
    have l1 := le_tot lgW _ _ _ hi
    have l2 := le_tot clAllW _ _ _ hi
    have l3 := le_tot clPreW _ _ _ hi
    cases lg <;> (try simp only [St.setDone, St.setBg]) <;> (repeat' split) <;> simp_all [tot_set_eq _ _ _ _ _ hi, tot_ackWs_srw', tot_ackWs_lgw, tot_ackWs_clall, tot_ackWs_clpre, b2n_true, b2n_false, clearW_idle, clearW_exited, clearW_eq_exited, srW, lgW, clAllW, clPreW, St.bg, onOk, onErr, selNext, afterSetErr, srAllW] <;> (try omega)
  | lgWriteOk _ i hi =>
    clear h4
    have l0 := le_tot srW _ _ _ hi
    have l1 := le_tot lgW _ _ _ hi
    have l2 := le_tot clAllW _ _ _ hi
    have l3 := le_tot clPreW _ _ _ hi
    (try simp only [St.setDone, St.setBg]) <;> (repeat' split) <;> simp_all [tot_set_eq _ _ _ _ _ hi, tot_ackWs_srw', tot_ackWs_lgw, tot_ackWs_clall, tot_ackWs_clpre, b2n_true, b2n_false, clearW_idle, clearW_exited, clearW_eq_exited, srW, lgW, clAllW, clPreW, St.bg, onOk, onErr, selNext, afterSetErr, srAllW] <;> (try omega)
  | lgWriteFail _ i hi =>
    clear h4
    have l0 := le_tot srW _ _ _ hi
    have l1 := le_tot lgW _ _ _ hi
    have l2 := le_tot clAllW _ _ _ hi
    have l3 := le_tot clPreW _ _ _ hi
    (try simp only [St.setDone, St.setBg]) <;> (repeat' split) <;> simp_all [tot_set_eq _ _ _ _ _ hi, tot_ackWs_srw', tot_ackWs_lgw, tot_ackWs_clall, tot_ackWs_clpre, b2n_true, b2n_false, clearW_idle, clearW_exited, clearW_eq_exited, srW, lgW, clAllW, clPreW, St.bg, onOk, onErr, selNext, afterSetErr, srAllW] <;> (try omega)
  | cmLockTr _ i lg hi hl =>
    clear h4
    have l0 := le_tot srW _ _ _ hi
    have l1 := le_tot lgW _ _ _ hi
    have l2 := le_tot clAllW _ _ _ hi
    have l3 := le_tot clPreW _ _ _ hi
    cases lg <;> (try simp only [St.setDone, St.setBg]) <;> (repeat' split) <;> simp_all [tot_set_eq _ _ _ _ _ hi, tot_ackWs_srw', tot_ackWs_lgw, tot_ackWs_clall, tot_ackWs_clpre, b2n_true, b2n_false, clearW_idle, clearW_exited, clearW_eq_exited, srW, lgW, clAllW, clPreW, St.bg, onOk, onErr, selNext, afterSetErr, srAllW] <;> (try omega)
  | cmFlushOk _ i lg hi =>
    clear h4
    have l0 := le_tot srW _ _ _ hi
    have l1 := le_tot lgW _ _ _ hi
    have l2 := le_tot clAllW _ _ _ hi
    have l3 := le_tot clPreW _ _ _ hi
    cases lg <;> (try simp only [St.setDone, St.setBg]) <;> (repeat' split) <;> simp_all [tot_set_eq _ _ _ _ _ hi, tot_ackWs_srw', tot_ackWs_lgw, tot_ackWs_clall, tot_ackWs_clpre, b2n_true, b2n_false, clearW_idle, clearW_exited, clearW_eq_exited, srW, lgW, clAllW, clPreW, St.bg, onOk, onErr, selNext, afterSetErr, srAllW] <;> (try omega)
  | cmFlushEmpty _ i lg hi =>
    clear h4
    have l0 := le_tot srW _ _ _ hi
    have l1 := le_tot lgW _ _ _ hi
    have l2 := le_tot clAllW _ _ _ hi
    have l3 := le_tot clPreW _ _ _ hi
    cases lg <;> (try simp only [St.setDone, St.setBg]) <;> (repeat' split) <;> simp_all [tot_set_eq _ _ _ _ _ hi, tot_ackWs_srw', tot_ackWs_lgw, tot_ackWs_clall, tot_ackWs_clpre, b2n_true, b2n_false, clearW_idle, clearW_exited, clearW_eq_exited, srW, lgW, clAllW, clPreW, St.bg, onOk, onErr, selNext, afterSetErr, srAllW] <;> (try omega)
  | cmFlushFail _ i lg hi =>
    clear h4
    have l0 := le_tot srW _ _ _ hi
    have l1 := le_tot lgW _ _ _ hi
    have l2 := le_tot clAllW _ _ _ hi
    have l3 := le_tot clPreW _ _ _ hi
    cases lg <;> (try simp only [St.setDone, St.setBg]) <;> (repeat' split) <;> simp_all [tot_set_eq _ _ _ _ _ hi, tot_ackWs_srw', tot_ackWs_lgw, tot_ackWs_clall, tot_ackWs_clpre, b2n_true, b2n_false, clearW_idle, clearW_exited, clearW_eq_exited, srW, lgW, clAllW, clPreW, St.bg, onOk, onErr, selNext, afterSetErr, srAllW] <;> (try omega)
  | cmLockClk _ i lg hi hl =>
    clear h4
    have l0 := le_tot srW _ _ _ hi
    have l1 := le_tot lgW _ _ _ hi
    have l2 := le_tot clAllW _ _ _ hi
    have l3 := le_tot clPreW _ _ _ hi
    cases lg <;> (try simp only [St.setDone, St.setBg]) <;> (repeat' split) <;> simp_all [tot_set_eq _ _ _ _ _ hi, tot_ackWs_srw', tot_ackWs_lgw, tot_ackWs_clall, tot_ackWs_clpre, b2n_true, b2n_false, clearW_idle, clearW_exited, clearW_eq_exited, srW, lgW, clAllW, clPreW, St.bg, onOk, onErr, selNext, afterSetErr, srAllW] <;> (try omega)
  | cmTryOk _ i k lg hi =>
    clear h4
    have l0 := le_tot srW _ _ _ hi
    have l1 := le_tot lgW _ _ _ hi
    have l2 := le_tot clAllW _ _ _ hi
    have l3 := le_tot clPreW _ _ _ hi
    cases lg <;> (try simp only [St.setDone, St.setBg]) <;> (repeat' split) <;> simp_all [tot_set_eq _ _ _ _ _ hi, tot_ackWs_srw', tot_ackWs_lgw, tot_ackWs_clall, tot_ackWs_clpre, b2n_true, b2n_false, clearW_idle, clearW_exited, clearW_eq_exited, srW, lgW, clAllW, clPreW, St.bg, onOk, onErr, selNext, afterSetErr, srAllW] <;> (try omega)
  | cmTryFail _ i k lg hi =>
    clear h4
    have l0 := le_tot srW _ _ _ hi
    have l1 := le_tot lgW _ _ _ hi
    have l2 := le_tot clAllW _ _ _ hi
    have l3 := le_tot clPreW _ _ _ hi
    cases lg <;> (try simp only [St.setDone, St.setBg]) <;> (repeat' split) <;> simp_all [tot_set_eq _ _ _ _ _ hi, tot_ackWs_srw', tot_ackWs_lgw, tot_ackWs_clall, tot_ackWs_clpre, b2n_true, b2n_false, clearW_idle, clearW_exited, clearW_eq_exited, srW, lgW, clAllW, clPreW, St.bg, onOk, onErr, selNext, afterSetErr, srAllW] <;> (try omega)
  | cmSleepTimer _ i k lg hi =>
    clear h4
    have l0 := le_tot srW _ _ _ hi
    have l1 := le_tot lgW _ _ _ hi
    have l2 := le_tot clAllW _ _ _ hi
    have l3 := le_tot clPreW _ _ _ hi
    cases lg <;> (try simp only [St.setDone, St.setBg]) <;> (repeat' split) <;> simp_all [tot_set_eq _ _ _ _ _ hi, tot_ackWs_srw', tot_ackWs_lgw, tot_ackWs_clall, tot_ackWs_clpre, b2n_true, b2n_false, clearW_idle, clearW_exited, clearW_eq_exited, srW, lgW, clAllW, clPreW, St.bg, onOk, onErr, selNext, afterSetErr, srAllW] <;> (try omega)
  | cmSleepClosed _ i k lg hi hc =>
    clear h4
    have l0 := le_tot srW _ _ _ hi
    have l1 := le_tot lgW _ _ _ hi
    have l2 := le_tot clAllW _ _ _ hi
    have l3 := le_tot clPreW _ _ _ hi
    cases lg <;> (try simp only [St.setDone, St.setBg]) <;> (repeat' split) <;> simp_all [tot_set_eq _ _ _ _ _ hi, tot_ackWs_srw', tot_ackWs_lgw, tot_ackWs_clall, tot_ackWs_clpre, b2n_true, b2n_false, clearW_idle, clearW_exited, clearW_eq_exited, srW, lgW, clAllW, clPreW, St.bg, onOk, onErr, selNext, afterSetErr, srAllW] <;> (try omega)
  | cmFail3 _ i lg hi =>
    clear h4
    have l0 := le_tot srW _ _ _ hi
    have l1 := le_tot lgW _ _ _ hi
    have l2 := le_tot clAllW _ _ _ hi
    have l3 := le_tot clPreW _ _ _ hi
    cases lg <;> (try simp only [St.setDone, St.setBg]) <;> (repeat' split) <;> simp_all [tot_set_eq _ _ _ _ _ hi, tot_ackWs_srw', tot_ackWs_lgw, tot_ackWs_clall, tot_ackWs_clpre, b2n_true, b2n_false, clearW_idle, clearW_exited, clearW_eq_exited, srW, lgW, clAllW, clPreW, St.bg, onOk, onErr, selNext, afterSetErr, srAllW] <;> (try omega)
  | cmAfterOk _ i lg hi =>
    clear h4
    have l0 := le_tot srW _ _ _ hi
    have l1 := le_tot lgW _ _ _ hi
    have l2 := le_tot clAllW _ _ _ hi
    have l3 := le_tot clPreW _ _ _ hi
    cases lg <;> (try simp only [St.setDone, St.setBg]) <;> (repeat' split) <;> simp_all [tot_set_eq _ _ _ _ _ hi, tot_ackWs_srw', tot_ackWs_lgw, tot_ackWs_clall, tot_ackWs_clpre, b2n_true, b2n_false, clearW_idle, clearW_exited, clearW_eq_exited, srW, lgW, clAllW, clPreW, St.bg, onOk, onErr, selNext, afterSetErr, srAllW] <;> (try omega)
  | cmNoWaitComp _ i lg hi =>
    clear h4
    have l0 := le_tot srW _ _ _ hi
    have l1 := le_tot lgW _ _ _ hi
    have l2 := le_tot clAllW _ _ _ hi
    have l3 := le_tot clPreW _ _ _ hi
    cases lg <;> (try simp only [St.setDone, St.setBg]) <;> (repeat' split) <;> simp_all [tot_set_eq _ _ _ _ _ hi, tot_ackWs_srw', tot_ackWs_lgw, tot_ackWs_clall, tot_ackWs_clpre, b2n_true, b2n_false, clearW_idle, clearW_exited, clearW_eq_exited, srW, lgW, clAllW, clPreW, St.bg, onOk, onErr, selNext, afterSetErr, srAllW] <;> (try omega)
  | cmWaitComp _ i lg hi =>
    clear h4
    have l0 := le_tot srW _ _ _ hi
    have l1 := le_tot lgW _ _ _ hi
    have l2 := le_tot clAllW _ _ _ hi
    have l3 := le_tot clPreW _ _ _ hi
    cases lg <;> (try simp only [St.setDone, St.setBg]) <;> (repeat' split) <;> simp_all [tot_set_eq _ _ _ _ _ hi, tot_ackWs_srw', tot_ackWs_lgw, tot_ackWs_clall, tot_ackWs_clpre, b2n_true, b2n_false, clearW_idle, clearW_exited, clearW_eq_exited, srW, lgW, clAllW, clPreW, St.bg, onOk, onErr, selNext, afterSetErr, srAllW] <;> (try omega)
  | cmDone _ i lg hi =>
    clear h4
    have l0 := le_tot srW _ _ _ hi
    have l1 := le_tot lgW _ _ _ hi
    have l2 := le_tot clAllW _ _ _ hi
    have l3 := le_tot clPreW _ _ _ hi
    cases lg <;> (try simp only [St.setDone, St.setBg]) <;> (repeat' split) <;> simp_all [tot_set_eq _ _ _ _ _ hi, tot_ackWs_srw', tot_ackWs_lgw, tot_ackWs_clall, tot_ackWs_clpre, b2n_true, b2n_false, clearW_idle, clearW_exited, clearW_eq_exited, srW, lgW, clAllW, clPreW, St.bg, onOk, onErr, selNext, afterSetErr, srAllW] <;> (try omega)
  | cmRet _ i ok lg hi =>
    clear h4
    have l0 := le_tot srW _ _ _ hi
    have l1 := le_tot lgW _ _ _ hi
    have l2 := le_tot clAllW _ _ _ hi
    have l3 := le_tot clPreW _ _ _ hi
    cases ok <;> cases lg <;> (try simp only [St.setDone, St.setBg]) <;> (repeat' split) <;> simp_all [tot_set_eq _ _ _ _ _ hi, tot_ackWs_srw', tot_ackWs_lgw, tot_ackWs_clall, tot_ackWs_clpre, b2n_true, b2n_false, clearW_idle, clearW_exited, clearW_eq_exited, srW, lgW, clAllW, clPreW, St.bg, onOk, onErr, selNext, afterSetErr, srAllW] <;> (try omega)
  | dcLockTr _ i lg hi hl =>
    clear h4
    have l0 := le_tot srW _ _ _ hi
    have l1 := le_tot lgW _ _ _ hi
    have l2 := le_tot clAllW _ _ _ hi
    have l3 := le_tot clPreW _ _ _ hi
    cases lg <;> (try simp only [St.setDone, St.setBg]) <;> (repeat' split) <;> simp_all [tot_set_eq _ _ _ _ _ hi, tot_ackWs_srw', tot_ackWs_lgw, tot_ackWs_clall, tot_ackWs_clpre, b2n_true, b2n_false, clearW_idle, clearW_exited, clearW_eq_exited, srW, lgW, clAllW, clPreW, St.bg, onOk, onErr, selNext, afterSetErr, srAllW] <;> (try omega)
  | dcBody _ i lg hi =>
    clear h4
    have l0 := le_tot srW _ _ _ hi
    have l1 := le_tot lgW _ _ _ hi
    have l2 := le_tot clAllW _ _ _ hi
    have l3 := le_tot clPreW _ _ _ hi
    cases lg <;> (try simp only [St.setDone, St.setBg]) <;> (repeat' split) <;> simp_all [tot_set_eq _ _ _ _ _ hi, tot_ackWs_srw', tot_ackWs_lgw, tot_ackWs_clall, tot_ackWs_clpre, b2n_true, b2n_false, clearW_idle, clearW_exited, clearW_eq_exited, srW, lgW, clAllW, clPreW, St.bg, onOk, onErr, selNext, afterSetErr, srAllW] <;> (try omega)
  | crNoOverlap _ i hi =>
    clear h4
    have l0 := le_tot srW _ _ _ hi
    have l1 := le_tot lgW _ _ _ hi
    have l2 := le_tot clAllW _ _ _ hi
    have l3 := le_tot clPreW _ _ _ hi
    (try simp only [St.setDone, St.setBg]) <;> (repeat' split) <;> simp_all [tot_set_eq _ _ _ _ _ hi, tot_ackWs_srw', tot_ackWs_lgw, tot_ackWs_clall, tot_ackWs_clpre, b2n_true, b2n_false, clearW_idle, clearW_exited, clearW_eq_exited, srW, lgW, clAllW, clPreW, St.bg, onOk, onErr, selNext, afterSetErr, srAllW] <;> (try omega)
  | crOverlap _ i hi =>
    clear h4
    have l0 := le_tot srW _ _ _ hi
    have l1 := le_tot lgW _ _ _ hi
    have l2 := le_tot clAllW _ _ _ hi
    have l3 := le_tot clPreW _ _ _ hi
    (try simp only [St.setDone, St.setBg]) <;> (repeat' split) <;> simp_all [tot_set_eq _ _ _ _ _ hi, tot_ackWs_srw', tot_ackWs_lgw, tot_ackWs_clall, tot_ackWs_clpre, b2n_true, b2n_false, clearW_idle, clearW_exited, clearW_eq_exited, srW, lgW, clAllW, clPreW, St.bg, onOk, onErr, selNext, afterSetErr, srAllW] <;> (try omega)
  | crNewMemOk _ i hi =>
    clear h4
    have l0 := le_tot srW _ _ _ hi
    have l1 := le_tot lgW _ _ _ hi
    have l2 := le_tot clAllW _ _ _ hi
    have l3 := le_tot clPreW _ _ _ hi
    (try simp only [St.setDone, St.setBg]) <;> (repeat' split) <;> simp_all [tot_set_eq _ _ _ _ _ hi, tot_ackWs_srw', tot_ackWs_lgw, tot_ackWs_clall, tot_ackWs_clpre, b2n_true, b2n_false, clearW_idle, clearW_exited, clearW_eq_exited, srW, lgW, clAllW, clPreW, St.bg, onOk, onErr, selNext, afterSetErr, srAllW] <;> (try omega)
  | crNewMemFail _ i hi =>
    clear h4
    have l0 := le_tot srW _ _ _ hi
    have l1 := le_tot lgW _ _ _ hi
    have l2 := le_tot clAllW _ _ _ hi
    have l3 := le_tot clPreW _ _ _ hi
    (try simp only [St.setDone, St.setBg]) <;> (repeat' split) <;> simp_all [tot_set_eq _ _ _ _ _ hi, tot_ackWs_srw', tot_ackWs_lgw, tot_ackWs_clall, tot_ackWs_clpre, b2n_true, b2n_false, clearW_idle, clearW_exited, clearW_eq_exited, srW, lgW, clAllW, clPreW, St.bg, onOk, onErr, selNext, afterSetErr, srAllW] <;> (try omega)
  | crRelM _ i hi =>
    clear h4
    have l0 := le_tot srW _ _ _ hi
    have l1 := le_tot lgW _ _ _ hi
    have l2 := le_tot clAllW _ _ _ hi
    have l3 := le_tot clPreW _ _ _ hi
    (try simp only [St.setDone, St.setBg]) <;> (repeat' split) <;> simp_all [tot_set_eq _ _ _ _ _ hi, tot_ackWs_srw', tot_ackWs_lgw, tot_ackWs_clall, tot_ackWs_clpre, b2n_true, b2n_false, clearW_idle, clearW_exited, clearW_eq_exited, srW, lgW, clAllW, clPreW, St.bg, onOk, onErr, selNext, afterSetErr, srAllW] <;> (try omega)
  | crRelOk _ i hi =>
    clear h4
    have l0 := le_tot srW _ _ _ hi
    have l1 := le_tot lgW _ _ _ hi
    have l2 := le_tot clAllW _ _ _ hi
    have l3 := le_tot clPreW _ _ _ hi
    (try simp only [St.setDone, St.setBg]) <;> (repeat' split) <;> simp_all [tot_set_eq _ _ _ _ _ hi, tot_ackWs_srw', tot_ackWs_lgw, tot_ackWs_clall, tot_ackWs_clpre, b2n_true, b2n_false, clearW_idle, clearW_exited, clearW_eq_exited, srW, lgW, clAllW, clPreW, St.bg, onOk, onErr, selNext, afterSetErr, srAllW] <;> (try omega)
  | crRelFail _ i hi =>
    clear h4
    have l0 := le_tot srW _ _ _ hi
    have l1 := le_tot lgW _ _ _ hi
    have l2 := le_tot clAllW _ _ _ hi
    have l3 := le_tot clPreW _ _ _ hi
    (try simp only [St.setDone, St.setBg]) <;> (repeat' split) <;> simp_all [tot_set_eq _ _ _ _ _ hi, tot_ackWs_srw', tot_ackWs_lgw, tot_ackWs_clall, tot_ackWs_clpre, b2n_true, b2n_false, clearW_idle, clearW_exited, clearW_eq_exited, srW, lgW, clAllW, clPreW, St.bg, onOk, onErr, selNext, afterSetErr, srAllW] <;> (try omega)
  | srSend _ i hi he =>
    clear h4
    have l0 := le_tot srW _ _ _ hi
    have l1 := le_tot lgW _ _ _ hi
    have l2 := le_tot clAllW _ _ _ hi
    have l3 := le_tot clPreW _ _ _ hi
    rcases he with he | he <;> (try simp only [St.setDone, St.setBg]) <;> (repeat' split) <;> simp_all [tot_set_eq _ _ _ _ _ hi, tot_ackWs_srw', tot_ackWs_lgw, tot_ackWs_clall, tot_ackWs_clpre, b2n_true, b2n_false, clearW_idle, clearW_exited, clearW_eq_exited, srW, lgW, clAllW, clPreW, St.bg, onOk, onErr, selNext, afterSetErr, srAllW] <;> (try omega)
  | srPerErr _ i hi he =>
    clear h4
    have l0 := le_tot srW _ _ _ hi
    have l1 := le_tot lgW _ _ _ hi
    have l2 := le_tot clAllW _ _ _ hi
    have l3 := le_tot clPreW _ _ _ hi
    (try simp only [St.setDone, St.setBg]) <;> (repeat' split) <;> simp_all [tot_set_eq _ _ _ _ _ hi, tot_ackWs_srw', tot_ackWs_lgw, tot_ackWs_clall, tot_ackWs_clpre, b2n_true, b2n_false, clearW_idle, clearW_exited, clearW_eq_exited, srW, lgW, clAllW, clPreW, St.bg, onOk, onErr, selNext, afterSetErr, srAllW] <;> (try omega)
  | srClosed _ i hi hc =>
    have l0 := le_tot srW _ _ _ hi
    have l1 := le_tot lgW _ _ _ hi
    have l2 := le_tot clAllW _ _ _ hi
    have l3 := le_tot clPreW _ _ _ hi
    have ls := le_tot srAllW _ _ _ hi
    rcases h4 with h4 | ⟨_, h4⟩ <;> (try simp only [St.setDone, St.setBg]) <;> (repeat' split) <;> simp_all [tot_set_eq _ _ _ _ _ hi, tot_ackWs_srw', tot_ackWs_lgw, tot_ackWs_clall, tot_ackWs_clpre, b2n_true, b2n_false, clearW_idle, clearW_exited, clearW_eq_exited, srW, lgW, clAllW, clPreW, St.bg, onOk, onErr, selNext, afterSetErr, srAllW] <;> (try omega)
  | clCheckTr _ i hi =>
    clear h4
    have l0 := le_tot srW _ _ _ hi
    have l1 := le_tot lgW _ _ _ hi
    have l2 := le_tot clAllW _ _ _ hi
    have l3 := le_tot clPreW _ _ _ hi
    (try simp only [St.setDone, St.setBg]) <;> (repeat' split) <;> simp_all [tot_set_eq _ _ _ _ _ hi, tot_ackWs_srw', tot_ackWs_lgw, tot_ackWs_clall, tot_ackWs_clpre, b2n_true, b2n_false, clearW_idle, clearW_exited, clearW_eq_exited, srW, lgW, clAllW, clPreW, St.bg, onOk, onErr, selNext, afterSetErr, srAllW] <;> (try omega)
  | clLockTr _ i hi hl =>
    clear h4
    have l0 := le_tot srW _ _ _ hi
    have l1 := le_tot lgW _ _ _ hi
    have l2 := le_tot clAllW _ _ _ hi
    have l3 := le_tot clPreW _ _ _ hi
    (try simp only [St.setDone, St.setBg]) <;> (repeat' split) <;> simp_all [tot_set_eq _ _ _ _ _ hi, tot_ackWs_srw', tot_ackWs_lgw, tot_ackWs_clall, tot_ackWs_clpre, b2n_true, b2n_false, clearW_idle, clearW_exited, clearW_eq_exited, srW, lgW, clAllW, clPreW, St.bg, onOk, onErr, selNext, afterSetErr, srAllW] <;> (try omega)
  | clBody _ i hi =>
    clear h4
    have l0 := le_tot srW _ _ _ hi
    have l1 := le_tot lgW _ _ _ hi
    have l2 := le_tot clAllW _ _ _ hi
    have l3 := le_tot clPreW _ _ _ hi
    (try simp only [St.setDone, St.setBg]) <;> (repeat' split) <;> simp_all [tot_set_eq _ _ _ _ _ hi, tot_ackWs_srw', tot_ackWs_lgw, tot_ackWs_clall, tot_ackWs_clpre, b2n_true, b2n_false, clearW_idle, clearW_exited, clearW_eq_exited, srW, lgW, clAllW, clPreW, St.bg, onOk, onErr, selNext, afterSetErr, srAllW] <;> (try omega)
  | clAcq _ i hi ht =>
    clear h4
    have l0 := le_tot srW _ _ _ hi
    have l1 := le_tot lgW _ _ _ hi
    have l2 := le_tot clAllW _ _ _ hi
    have l3 := le_tot clPreW _ _ _ hi
    (try simp only [St.setDone, St.setBg]) <;> (repeat' split) <;> simp_all [tot_set_eq _ _ _ _ _ hi, tot_ackWs_srw', tot_ackWs_lgw, tot_ackWs_clall, tot_ackWs_clpre, b2n_true, b2n_false, clearW_idle, clearW_exited, clearW_eq_exited, srW, lgW, clAllW, clPreW, St.bg, onOk, onErr, selNext, afterSetErr, srAllW] <;> (try omega)
  | clWait _ i hi hm ht =>
    clear h4
    have l0 := le_tot srW _ _ _ hi
    have l1 := le_tot lgW _ _ _ hi
    have l2 := le_tot clAllW _ _ _ hi
    have l3 := le_tot clPreW _ _ _ hi
    (try simp only [St.setDone, St.setBg]) <;> (repeat' split) <;> simp_all [tot_set_eq _ _ _ _ _ hi, tot_ackWs_srw', tot_ackWs_lgw, tot_ackWs_clall, tot_ackWs_clpre, b2n_true, b2n_false, clearW_idle, clearW_exited, clearW_eq_exited, srW, lgW, clAllW, clPreW, St.bg, onOk, onErr, selNext, afterSetErr, srAllW] <;> (try omega)
  | ehAcquire _ he ht hn =>
    clear h4
    (try simp only [St.setDone, St.setBg]) <;> (repeat' split) <;> simp_all [tot_ackWs_srw', tot_ackWs_lgw, tot_ackWs_clall, tot_ackWs_clpre, b2n_true, b2n_false, clearW_idle, clearW_exited, clearW_eq_exited, srW, lgW, clAllW, clPreW, St.bg, onOk, onErr, selNext, afterSetErr, srAllW] <;> (try omega)
  | ehExit _ he hc =>
    clear h4
    cases he' : s.eh <;> (try simp only [St.setDone, St.setBg]) <;> (repeat' split) <;> simp_all [tot_ackWs_srw', tot_ackWs_lgw, tot_ackWs_clall, tot_ackWs_clpre, b2n_true, b2n_false, clearW_idle, clearW_exited, clearW_eq_exited, srW, lgW, clAllW, clPreW, St.bg, onOk, onErr, selNext, afterSetErr, srAllW] <;> (try omega)
  | bgExitIdle _ b hb hc =>
    clear h4
    cases b <;> (try simp only [St.setDone, St.setBg]) <;> (repeat' split) <;> simp_all [tot_ackWs_srw', tot_ackWs_lgw, tot_ackWs_clall, tot_ackWs_clpre, b2n_true, b2n_false, clearW_idle, clearW_exited, clearW_eq_exited, srW, lgW, clAllW, clPreW, St.bg, onOk, onErr, selNext, afterSetErr, srAllW] <;> (try omega)
  | bgWorkOk _ b w hb =>
    clear h4
    cases b <;> (try simp only [St.setDone, St.setBg]) <;> (repeat' split) <;> simp_all [tot_ackWs_srw', tot_ackWs_lgw, tot_ackWs_clall, tot_ackWs_clpre, b2n_true, b2n_false, clearW_idle, clearW_exited, clearW_eq_exited, srW, lgW, clAllW, clPreW, St.bg, onOk, onErr, selNext, afterSetErr, srAllW] <;> (try omega)
  | bgWorkFail _ b w hb =>
    clear h4
    cases b <;> (try simp only [St.setDone, St.setBg]) <;> (repeat' split) <;> simp_all [tot_ackWs_srw', tot_ackWs_lgw, tot_ackWs_clall, tot_ackWs_clpre, b2n_true, b2n_false, clearW_idle, clearW_exited, clearW_eq_exited, srW, lgW, clAllW, clPreW, St.bg, onOk, onErr, selNext, afterSetErr, srAllW] <;> (try omega)
  | bgCommitOk _ b w hb =>
    clear h4
    cases b <;> (try simp only [St.setDone, St.setBg]) <;> (repeat' split) <;> simp_all [tot_ackWs_srw', tot_ackWs_lgw, tot_ackWs_clall, tot_ackWs_clpre, b2n_true, b2n_false, clearW_idle, clearW_exited, clearW_eq_exited, srW, lgW, clAllW, clPreW, St.bg, onOk, onErr, selNext, afterSetErr, srAllW] <;> (try omega)
  | bgCommitFail _ b w hb =>
    clear h4
    cases b <;> (try simp only [St.setDone, St.setBg]) <;> (repeat' split) <;> simp_all [tot_ackWs_srw', tot_ackWs_lgw, tot_ackWs_clall, tot_ackWs_clpre, b2n_true, b2n_false, clearW_idle, clearW_exited, clearW_eq_exited, srW, lgW, clAllW, clPreW, St.bg, onOk, onErr, selNext, afterSetErr, srAllW] <;> (try omega)
  | bgSetErr _ b w ok c hb he =>
    clear h4
    rcases he with he | he <;> cases b <;> cases ok <;> cases c <;> (try simp only [St.setDone, St.setBg]) <;> (repeat' split) <;> simp_all [tot_ackWs_srw', tot_ackWs_lgw, tot_ackWs_clall, tot_ackWs_clpre, b2n_true, b2n_false, clearW_idle, clearW_exited, clearW_eq_exited, srW, lgW, clAllW, clPreW, St.bg, onOk, onErr, selNext, afterSetErr, srAllW] <;> (try omega)
  | bgSetErrPer _ b w c hb he =>
    clear h4
    cases b <;> cases c <;> (try simp only [St.setDone, St.setBg]) <;> (repeat' split) <;> simp_all [tot_ackWs_srw', tot_ackWs_lgw, tot_ackWs_clall, tot_ackWs_clpre, b2n_true, b2n_false, clearW_idle, clearW_exited, clearW_eq_exited, srW, lgW, clAllW, clPreW, St.bg, onOk, onErr, selNext, afterSetErr, srAllW] <;> (try omega)
  | bgBackoff _ b w c hb =>
    clear h4
    cases b <;> cases c <;> (try simp only [St.setDone, St.setBg]) <;> (repeat' split) <;> simp_all [tot_ackWs_srw', tot_ackWs_lgw, tot_ackWs_clall, tot_ackWs_clpre, b2n_true, b2n_false, clearW_idle, clearW_exited, clearW_eq_exited, srW, lgW, clAllW, clPreW, St.bg, onOk, onErr, selNext, afterSetErr, srAllW] <;> (try omega)
  | bgLockClk _ b w hb hl =>
    clear h4
    cases b <;> (try simp only [St.setDone, St.setBg]) <;> (repeat' split) <;> simp_all [tot_ackWs_srw', tot_ackWs_lgw, tot_ackWs_clall, tot_ackWs_clpre, b2n_true, b2n_false, clearW_idle, clearW_exited, clearW_eq_exited, srW, lgW, clAllW, clPreW, St.bg, onOk, onErr, selNext, afterSetErr, srAllW] <;> (try omega)
  | bgAck _ b w hb =>
    clear h4
    cases b <;> (try simp only [St.setDone, St.setBg]) <;> (repeat' split) <;> simp_all [tot_ackWs_srw', tot_ackWs_lgw, tot_ackWs_clall, tot_ackWs_clpre, b2n_true, b2n_false, clearW_idle, clearW_exited, clearW_eq_exited, srW, lgW, clAllW, clPreW, St.bg, onOk, onErr, selNext, afterSetErr, srAllW] <;> (try omega)
  | bgExit _ b w ph hb hx =>
    clear h4
    cases b <;> cases ph <;> (try simp only [St.setDone, St.setBg]) <;> (repeat' split) <;> simp_all [tot_ackWs_srw', tot_ackWs_lgw, tot_ackWs_clall, tot_ackWs_clpre, b2n_true, b2n_false, clearW_idle, clearW_exited, clearW_eq_exited, srW, lgW, clAllW, clPreW, St.bg, onOk, onErr, selNext, afterSetErr, srAllW] <;> (try omega) <;> (try (rcases hx with hx | hx <;> simp_all))

theorem step_pinvD (s t : St) (f : Bool) (cfg : Cfg) (hfx : Fixed3 cfg)
    (h4 : cfg.setReadOnlyReleasesOnClose = true ∨ NoSR s) (h : Step cfg f s t) (inv : PInvD s) : PInvD t := by
  unfold PInvD at *
  have c3 := b2n_le (s.trOpen && !s.trUser)
  obtain ⟨f1, f2, f3⟩ := hfx
  cases h with
  | startPut _ i hi =>
    clear h4
    have l0 := le_tot srW _ _ _ hi
    have l1 := le_tot lgW _ _ _ hi
    have l2 := le_tot clAllW _ _ _ hi
    have l3 := le_tot clPreW _ _ _ hi
    (try simp only [St.setDone, St.setBg]) <;> (repeat' split) <;> simp_all [tot_set_eq _ _ _ _ _ hi, tot_ackWs_srw', tot_ackWs_lgw, tot_ackWs_clall, tot_ackWs_clpre, b2n_true, b2n_false, clearW_idle, clearW_exited, clearW_eq_exited, srW, lgW, clAllW, clPreW, St.bg, onOk, onErr, selNext, afterSetErr, srAllW] <;> (try omega)
  | startWrite _ i hi =>
    clear h4
    have l0 := le_tot srW _ _ _ hi
    have l1 := le_tot lgW _ _ _ hi
    have l2 := le_tot clAllW _ _ _ hi
    have l3 := le_tot clPreW _ _ _ hi
    (try simp only [St.setDone, St.setBg]) <;> (repeat' split) <;> simp_all [tot_set_eq _ _ _ _ _ hi, tot_ackWs_srw', tot_ackWs_lgw, tot_ackWs_clall, tot_ackWs_clpre, b2n_true, b2n_false, clearW_idle, clearW_exited, clearW_eq_exited, srW, lgW, clAllW, clPreW, St.bg, onOk, onErr, selNext, afterSetErr, srAllW] <;> (try omega)
  | startOtx _ i hi =>
    clear h4
    have l0 := le_tot srW _ _ _ hi
    have l1 := le_tot lgW _ _ _ hi
    have l2 := le_tot clAllW _ _ _ hi
    have l3 := le_tot clPreW _ _ _ hi
    (try simp only [St.setDone, St.setBg]) <;> (repeat' split) <;> simp_all [tot_set_eq _ _ _ _ _ hi, tot_ackWs_srw', tot_ackWs_lgw, tot_ackWs_clall, tot_ackWs_clpre, b2n_true, b2n_false, clearW_idle, clearW_exited, clearW_eq_exited, srW, lgW, clAllW, clPreW, St.bg, onOk, onErr, selNext, afterSetErr, srAllW] <;> (try omega)
  | startCommit _ i hi hu =>
    clear h4
    have l0 := le_tot srW _ _ _ hi
    have l1 := le_tot lgW _ _ _ hi
    have l2 := le_tot clAllW _ _ _ hi
    have l3 := le_tot clPreW _ _ _ hi
    (try simp only [St.setDone, St.setBg]) <;> (repeat' split) <;> simp_all [tot_set_eq _ _ _ _ _ hi, tot_ackWs_srw', tot_ackWs_lgw, tot_ackWs_clall, tot_ackWs_clpre, b2n_true, b2n_false, clearW_idle, clearW_exited, clearW_eq_exited, srW, lgW, clAllW, clPreW, St.bg, onOk, onErr, selNext, afterSetErr, srAllW] <;> (try omega)
  | startDiscard _ i hi hu =>
    clear h4
    have l0 := le_tot srW _ _ _ hi
    have l1 := le_tot lgW _ _ _ hi
    have l2 := le_tot clAllW _ _ _ hi
    have l3 := le_tot clPreW _ _ _ hi
    (try simp only [St.setDone, St.setBg]) <;> (repeat' split) <;> simp_all [tot_set_eq _ _ _ _ _ hi, tot_ackWs_srw', tot_ackWs_lgw, tot_ackWs_clall, tot_ackWs_clpre, b2n_true, b2n_false, clearW_idle, clearW_exited, clearW_eq_exited, srW, lgW, clAllW, clPreW, St.bg, onOk, onErr, selNext, afterSetErr, srAllW] <;> (try omega)
  | startCR _ i hi =>
    clear h4
    have l0 := le_tot srW _ _ _ hi
    have l1 := le_tot lgW _ _ _ hi
    have l2 := le_tot clAllW _ _ _ hi
    have l3 := le_tot clPreW _ _ _ hi
    (try simp only [St.setDone, St.setBg]) <;> (repeat' split) <;> simp_all [tot_set_eq _ _ _ _ _ hi, tot_ackWs_srw', tot_ackWs_lgw, tot_ackWs_clall, tot_ackWs_clpre, b2n_true, b2n_false, clearW_idle, clearW_exited, clearW_eq_exited, srW, lgW, clAllW, clPreW, St.bg, onOk, onErr, selNext, afterSetErr, srAllW] <;> (try omega)
  | startSR _ i hi ha =>
    clear h4
    have l0 := le_tot srW _ _ _ hi
    have l1 := le_tot lgW _ _ _ hi
    have l2 := le_tot clAllW _ _ _ hi
    have l3 := le_tot clPreW _ _ _ hi
    (try simp only [St.setDone, St.setBg]) <;> (repeat' split) <;> simp_all [tot_set_eq _ _ _ _ _ hi, tot_ackWs_srw', tot_ackWs_lgw, tot_ackWs_clall, tot_ackWs_clpre, b2n_true, b2n_false, clearW_idle, clearW_exited, clearW_eq_exited, srW, lgW, clAllW, clPreW, St.bg, onOk, onErr, selNext, afterSetErr, srAllW] <;> (try omega)
  | startClose _ i hi =>
    clear h4
    have l0 := le_tot srW _ _ _ hi
    have l1 := le_tot lgW _ _ _ hi
    have l2 := le_tot clAllW _ _ _ hi
    have l3 := le_tot clPreW _ _ _ hi
    (try simp only [St.setDone, St.setBg]) <;> (repeat' split) <;> simp_all [tot_set_eq _ _ _ _ _ hi, tot_ackWs_srw', tot_ackWs_lgw, tot_ackWs_clall, tot_ackWs_clpre, b2n_true, b2n_false, clearW_idle, clearW_exited, clearW_eq_exited, srW, lgW, clAllW, clPreW, St.bg, onOk, onErr, selNext, afterSetErr, srAllW] <;> (try omega)
  | selTok _ i p q hi hq ht =>
    clear h4
    have l0 := le_tot srW _ _ _ hi
    have l1 := le_tot lgW _ _ _ hi
    have l2 := le_tot clAllW _ _ _ hi
    have l3 := le_tot clPreW _ _ _ hi
    cases p <;> simp only [selNext] at hq <;> (try contradiction) <;> cases hq <;> simp_all [tot_set_eq _ _ _ _ _ hi, tot_ackWs_srw', tot_ackWs_lgw, tot_ackWs_clall, tot_ackWs_clpre, b2n_true, b2n_false, clearW_idle, clearW_exited, clearW_eq_exited, srW, lgW, clAllW, clPreW, St.bg, onOk, onErr, selNext, afterSetErr, srAllW] <;> (try omega)
  | selPerErr _ i p q hi hq he =>
    clear h4
    have l0 := le_tot srW _ _ _ hi
    have l1 := le_tot lgW _ _ _ hi
    have l2 := le_tot clAllW _ _ _ hi
    have l3 := le_tot clPreW _ _ _ hi
    cases p <;> simp only [selNext] at hq <;> (try contradiction) <;> cases hq <;> simp_all [tot_set_eq _ _ _ _ _ hi, tot_ackWs_srw', tot_ackWs_lgw, tot_ackWs_clall, tot_ackWs_clpre, b2n_true, b2n_false, clearW_idle, clearW_exited, clearW_eq_exited, srW, lgW, clAllW, clPreW, St.bg, onOk, onErr, selNext, afterSetErr, srAllW] <;> (try omega)
  | selClosed _ i p q hi hq hc =>
    clear h4
    have l0 := le_tot srW _ _ _ hi
    have l1 := le_tot lgW _ _ _ hi
    have l2 := le_tot clAllW _ _ _ hi
    have l3 := le_tot clPreW _ _ _ hi
    cases p <;> simp only [selNext] at hq <;> (try contradiction) <;> cases hq <;> simp_all [tot_set_eq _ _ _ _ _ hi, tot_ackWs_srw', tot_ackWs_lgw, tot_ackWs_clall, tot_ackWs_clpre, b2n_true, b2n_false, clearW_idle, clearW_exited, clearW_eq_exited, srW, lgW, clAllW, clPreW, St.bg, onOk, onErr, selNext, afterSetErr, srAllW] <;> (try omega)
  | putNoWait _ i hi =>
    clear h4
    have l0 := le_tot srW _ _ _ hi
    have l1 := le_tot lgW _ _ _ hi
    have l2 := le_tot clAllW _ _ _ hi
    have l3 := le_tot clPreW _ _ _ hi
    (try simp only [St.setDone, St.setBg]) <;> (repeat' split) <;> simp_all [tot_set_eq _ _ _ _ _ hi, tot_ackWs_srw', tot_ackWs_lgw, tot_ackWs_clall, tot_ackWs_clpre, b2n_true, b2n_false, clearW_idle, clearW_exited, clearW_eq_exited, srW, lgW, clAllW, clPreW, St.bg, onOk, onErr, selNext, afterSetErr, srAllW] <;> (try omega)
  | putWait _ i b hi =>
    clear h4
    have l0 := le_tot srW _ _ _ hi
    have l1 := le_tot lgW _ _ _ hi
    have l2 := le_tot clAllW _ _ _ hi
    have l3 := le_tot clPreW _ _ _ hi
    cases b <;> (try simp only [St.setDone, St.setBg]) <;> (repeat' split) <;> simp_all [tot_set_eq _ _ _ _ _ hi, tot_ackWs_srw', tot_ackWs_lgw, tot_ackWs_clall, tot_ackWs_clpre, b2n_true, b2n_false, clearW_idle, clearW_exited, clearW_eq_exited, srW, lgW, clAllW, clPreW, St.bg, onOk, onErr, selNext, afterSetErr, srAllW] <;> (try omega)
  | putJournalOk _ i hi =>
    clear h4
    have l0 := le_tot srW _ _ _ hi
    have l1 := le_tot lgW _ _ _ hi
    have l2 := le_tot clAllW _ _ _ hi
    have l3 := le_tot clPreW _ _ _ hi
    (try simp only [St.setDone, St.setBg]) <;> (repeat' split) <;> simp_all [tot_set_eq _ _ _ _ _ hi, tot_ackWs_srw', tot_ackWs_lgw, tot_ackWs_clall, tot_ackWs_clpre, b2n_true, b2n_false, clearW_idle, clearW_exited, clearW_eq_exited, srW, lgW, clAllW, clPreW, St.bg, onOk, onErr, selNext, afterSetErr, srAllW] <;> (try omega)
  | putJournalFail _ i hi =>
    clear h4
    have l0 := le_tot srW _ _ _ hi
    have l1 := le_tot lgW _ _ _ hi
    have l2 := le_tot clAllW _ _ _ hi
    have l3 := le_tot clPreW _ _ _ hi
    (try simp only [St.setDone, St.setBg]) <;> (repeat' split) <;> simp_all [tot_set_eq _ _ _ _ _ hi, tot_ackWs_srw', tot_ackWs_lgw, tot_ackWs_clall, tot_ackWs_clpre, b2n_true, b2n_false, clearW_idle, clearW_exited, clearW_eq_exited, srW, lgW, clAllW, clPreW, St.bg, onOk, onErr, selNext, afterSetErr, srAllW] <;> (try omega)
  | putUnlock _ i r hi =>
    clear h4
    have l0 := le_tot srW _ _ _ hi
    have l1 := le_tot lgW _ _ _ hi
    have l2 := le_tot clAllW _ _ _ hi
    have l3 := le_tot clPreW _ _ _ hi
    cases r <;> (try simp only [St.setDone, St.setBg]) <;> (repeat' split) <;> simp_all [tot_set_eq _ _ _ _ _ hi, tot_ackWs_srw', tot_ackWs_lgw, tot_ackWs_clall, tot_ackWs_clpre, b2n_true, b2n_false, clearW_idle, clearW_exited, clearW_eq_exited, srW, lgW, clAllW, clPreW, St.bg, onOk, onErr, selNext, afterSetErr, srAllW] <;> (try omega)
  | cwSendGo _ i b site lg hi hb =>
    clear h4
    have l0 := le_tot srW _ _ _ hi
    have l1 := le_tot lgW _ _ _ hi
    have l2 := le_tot clAllW _ _ _ hi
    have l3 := le_tot clPreW _ _ _ hi
    cases site <;> cases b <;> cases lg <;> (try simp only [St.setDone, St.setBg]) <;> (repeat' split) <;> simp_all [tot_set_eq _ _ _ _ _ hi, tot_ackWs_srw', tot_ackWs_lgw, tot_ackWs_clall, tot_ackWs_clpre, b2n_true, b2n_false, clearW_idle, clearW_exited, clearW_eq_exited, srW, lgW, clAllW, clPreW, St.bg, onOk, onErr, selNext, afterSetErr, srAllW] <;> (try omega)
  | cwSendErr _ i b site lg hi he =>
    clear h4
    have l0 := le_tot srW _ _ _ hi
    have l1 := le_tot lgW _ _ _ hi
    have l2 := le_tot clAllW _ _ _ hi
    have l3 := le_tot clPreW _ _ _ hi
    cases site <;> cases b <;> cases lg <;> (try simp only [St.setDone, St.setBg]) <;> (repeat' split) <;> simp_all [tot_set_eq _ _ _ _ _ hi, tot_ackWs_srw', tot_ackWs_lgw, tot_ackWs_clall, tot_ackWs_clpre, b2n_true, b2n_false, clearW_idle, clearW_exited, clearW_eq_exited, srW, lgW, clAllW, clPreW, St.bg, onOk, onErr, selNext, afterSetErr, srAllW] <;> (try omega)
  | cwAckErr _ i b site lg hi he =>
    clear h4
    have l0 := le_tot srW _ _ _ hi
    have l1 := le_tot lgW _ _ _ hi
    have l2 := le_tot clAllW _ _ _ hi
    have l3 := le_tot clPreW _ _ _ hi
    cases site <;> cases b <;> cases lg <;> (try simp only [St.setDone, St.setBg]) <;> (repeat' split) <;> simp_all [tot_set_eq _ _ _ _ _ hi, tot_ackWs_srw', tot_ackWs_lgw, tot_ackWs_clall, tot_ackWs_clpre, b2n_true, b2n_false, clearW_idle, clearW_exited, clearW_eq_exited, srW, lgW, clAllW, clPreW, St.bg, onOk, onErr, selNext, afterSetErr, srAllW] <;> (try omega)
  | otxRotate _ i lg hi =>
    clear h4
    have l0 := le_tot srW _ _ _ hi
    have l1 := le_tot lgW _ _ _ hi
    have l2 := le_tot clAllW _ _ _ hi
    have l3 := le_tot clPreW _ _ _ hi
    cases lg <;> (try simp only [St.setDone, St.setBg]) <;> (repeat' split) <;> simp_all [tot_set_eq _ _ _ _ _ hi, tot_ackWs_srw', tot_ackWs_lgw, tot_ackWs_clall, tot_ackWs_clpre, b2n_true, b2n_false, clearW_idle, clearW_exited, clearW_eq_exited, srW, lgW, clAllW, clPreW, St.bg, onOk, onErr, selNext, afterSetErr, srAllW] <;> (try omega)
  | otxNoRotate _ i lg hi =>
    clear h4
    have l0 := le_tot srW _ _ _ hi
    have l1 := le_tot lgW _ _ _ hi
    have l2 := le_tot clAllW _ _ _ hi
    have l3 := le_tot clPreW _ _ _ hi
    cases lg <;> (try simp only [St.setDone, St.setBg]) <;> (repeat' split) <;> simp_all [tot_set_eq _ _ _ _ _ hi, tot_ackWs_srw', tot_ackWs_lgw, tot_ackWs_clall, tot_ackWs_clpre, b2n_true, b2n_false, clearW_idle, clearW_exited, clearW_eq_exited, srW, lgW, clAllW, clPreW, St.bg, onOk, onErr, selNext, afterSetErr, srAllW] <;> (try omega)
  | otxNewMemOk _ i lg hi =>
    clear h4
    have l0 := le_tot srW _ _ _ hi
    have l1 := le_tot lgW _ _ _ hi
    have l2 := le_tot clAllW _ _ _ hi
    have l3 := le_tot clPreW _ _ _ hi
    cases lg <;> (try simp only [St.setDone, St.setBg]) <;> (repeat' split) <;> simp_all [tot_set_eq _ _ _ _ _ hi, tot_ackWs_srw', tot_ackWs_lgw, tot_ackWs_clall, tot_ackWs_clpre, b2n_true, b2n_false, clearW_idle, clearW_exited, clearW_eq_exited, srW, lgW, clAllW, clPreW, St.bg, onOk, onErr, selNext, afterSetErr, srAllW] <;> (try omega)
  | otxNewMemFail _ i lg hi =>
    clear h4
    have l0 := le_tot srW _ _ _ hi
    have l1 := le_tot lgW _ _ _ hi
    have l2 := le_tot clAllW _ _ _ hi
    have l3 := le_tot clPreW _ _ _ hi
    cases lg <;> (try simp only [St.setDone, St.setBg]) <;> (repeat' split) <;> simp_all [tot_set_eq _ _ _ _ _ hi, tot_ackWs_srw', tot_ackWs_lgw, tot_ackWs_clall, tot_ackWs_clpre, b2n_true, b2n_false, clearW_idle, clearW_exited, clearW_eq_exited, srW, lgW, clAllW, clPreW, St.bg, onOk, onErr, selNext, afterSetErr, srAllW] <;> (try omega)
  | otxNoWaitComp _ i lg hi =>
    clear h4
    have l0 := le_tot srW _ _ _ hi
    have l1 := le_tot lgW _ _ _ hi
    have l2 := le_tot clAllW _ _ _ hi
    have l3 := le_tot clPreW _ _ _ hi
    cases lg <;> (try simp only [St.setDone, St.setBg]) <;> (repeat' split) <;> simp_all [tot_set_eq _ _ _ _ _ hi, tot_ackWs_srw', tot_ackWs_lgw, tot_ackWs_clall, tot_ackWs_clpre, b2n_true, b2n_false, clearW_idle, clearW_exited, clearW_eq_exited, srW, lgW, clAllW, clPreW, St.bg, onOk, onErr, selNext, afterSetErr, srAllW] <;> (try omega)
  | otxWaitComp _ i lg hi =>
    clear h4
    have l0 := le_tot srW _ _ _ hi
    have l1 := le_tot lgW _ _ _ hi
    have l2 := le_tot clAllW _ _ _ hi
    have l3 := le_tot clPreW _ _ _ hi
    cases lg <;> (try simp only [St.setDone, St.setBg]) <;> (repeat' split) <;> simp_all [tot_set_eq _ _ _ _ _ hi, tot_ackWs_srw', tot_ackWs_lgw, tot_ackWs_clall, tot_ackWs_clpre, b2n_true, b2n_false, clearW_idle, clearW_exited, clearW_eq_exited, srW, lgW, clAllW, clPreW, St.bg, onOk, onErr, selNext, afterSetErr, srAllW] <;> (try omega)
  | otxFail _ i lg hi =>
    clear h4
    have l0 := le_tot srW _ _ _ hi
    have l1 := le_tot lgW _ _ _ hi
    have l2 := le_tot clAllW _ _ _ hi
    have l3 := le_tot clPreW _ _ _ hi
    cases lg <;> (try simp only [St.setDone, St.setBg]) <;> (repeat' split) <;> simp_all [tot_set_eq _ _ _ _ _ hi, tot_ackWs_srw', tot_ackWs_lgw, tot_ackWs_clall, tot_ackWs_clpre, b2n_true, b2n_false, clearW_idle, clearW_exited, clearW_eq_exited, srW, lgW, clAllW, clPreW, St.bg, onOk, onErr, selNext, afterSetErr, srAllW] <;> (try omega)
  | otxRel _ i lg hi =>
    clear h4
    have l0 := le_tot srW _ _ _ hi
    have l1 := le_tot lgW _ _ _ hi
    have l2 := le_tot clAllW _ _ _ hi
    have l3 := le_tot clPreW _ _ _ hi
    cases lg <;> (try simp only [St.setDone, St.setBg]) <;> (repeat' split) <;> simp_all [tot_set_eq _ _ _ _ _ hi, tot_ackWs_srw', tot_ackWs_lgw, tot_ackWs_clall, tot_ackWs_clpre, b2n_true, b2n_false, clearW_idle, clearW_exited, clearW_eq_exited, srW, lgW, clAllW, clPreW, St.bg, onOk, onErr, selNext, afterSetErr, srAllW] <;> (try omega)
  | otxDone _ i lg hi =>
    clear h4
    have l0 := le_tot srW _ _ _ hi
    have l1 := le_tot lgW _ _ _ hi
    have l2 := le_tot clAllW _ _ _ hi
    have l3 := le_tot clPreW _ _ _ hi
    cases lg <;> (try simp only [St.setDone, St.setBg]) <;> (repeat' split) <;> simp_all [tot_set_eq _ _ _ _ _ hi, tot_ackWs_srw', tot_ackWs_lgw, tot_ackWs_clall, tot_ackWs_clpre, b2n_true, b2n_false, clearW_idle, clearW_exited, clearW_eq_exited, srW, lgW, clAllW, clPreW, St.bg, onOk, onErr, selNext, afterSetErr, srAllW] <;> (try omega)
  | lgWriteOk _ i hi =>
    clear h4
    have l0 := le_tot srW _ _ _ hi
    have l1 := le_tot lgW _ _ _ hi
    have l2 := le_tot clAllW _ _ _ hi
    have l3 := le_tot clPreW _ _ _ hi
    (try simp only [St.setDone, St.setBg]) <;> (repeat' split) <;> simp_all [tot_set_eq _ _ _ _ _ hi, tot_ackWs_srw', tot_ackWs_lgw, tot_ackWs_clall, tot_ackWs_clpre, b2n_true, b2n_false, clearW_idle, clearW_exited, clearW_eq_exited, srW, lgW, clAllW, clPreW, St.bg, onOk, onErr, selNext, afterSetErr, srAllW] <;> (try omega)
  | lgWriteFail _ i hi =>
    clear h4
    have l0 := le_tot srW _ _ _ hi
    have l1 := le_tot lgW _ _ _ hi
    have l2 := le_tot clAllW _ _ _ hi
    have l3 := le_tot clPreW _ _ _ hi
    (try simp only [St.setDone, St.setBg]) <;> (repeat' split) <;> simp_all [tot_set_eq _ _ _ _ _ hi, tot_ackWs_srw', tot_ackWs_lgw, tot_ackWs_clall, tot_ackWs_clpre, b2n_true, b2n_false, clearW_idle, clearW_exited, clearW_eq_exited, srW, lgW, clAllW, clPreW, St.bg, onOk, onErr, selNext, afterSetErr, srAllW] <;> (try omega)
  | cmLockTr _ i lg hi hl =>
    clear h4
    have l0 := le_tot srW _ _ _ hi
    have l1 := le_tot lgW _ _ _ hi
    have l2 := le_tot clAllW _ _ _ hi
    have l3 := le_tot clPreW _ _ _ hi
    cases lg <;> (try simp only [St.setDone, St.setBg]) <;> (repeat' split) <;> simp_all [tot_set_eq _ _ _ _ _ hi, tot_ackWs_srw', tot_ackWs_lgw, tot_ackWs_clall, tot_ackWs_clpre, b2n_true, b2n_false, clearW_idle, clearW_exited, clearW_eq_exited, srW, lgW, clAllW, clPreW, St.bg, onOk, onErr, selNext, afterSetErr, srAllW] <;> (try omega)
  | cmFlushOk _ i lg hi =>
    clear h4
    have l0 := le_tot srW _ _ _ hi
    have l1 := le_tot lgW _ _ _ hi
    have l2 := le_tot clAllW _ _ _ hi
    have l3 := le_tot clPreW _ _ _ hi
    cases lg <;> (try simp only [St.setDone, St.setBg]) <;> (repeat' split) <;> simp_all [tot_set_eq _ _ _ _ _ hi, tot_ackWs_srw', tot_ackWs_lgw, tot_ackWs_clall, tot_ackWs_clpre, b2n_true, b2n_false, clearW_idle, clearW_exited, clearW_eq_exited, srW, lgW, clAllW, clPreW, St.bg, onOk, onErr, selNext, afterSetErr, srAllW] <;> (try omega)
  | cmFlushEmpty _ i lg hi =>
    clear h4
    have l0 := le_tot srW _ _ _ hi
    have l1 := le_tot lgW _ _ _ hi
    have l2 := le_tot clAllW _ _ _ hi
    have l3 := le_tot clPreW _ _ _ hi
    cases lg <;> (try simp only [St.setDone, St.setBg]) <;> (repeat' split) <;> simp_all [tot_set_eq _ _ _ _ _ hi, tot_ackWs_srw', tot_ackWs_lgw, tot_ackWs_clall, tot_ackWs_clpre, b2n_true, b2n_false, clearW_idle, clearW_exited, clearW_eq_exited, srW, lgW, clAllW, clPreW, St.bg, onOk, onErr, selNext, afterSetErr, srAllW] <;> (try omega)
  | cmFlushFail _ i lg hi =>
    clear h4
    have l0 := le_tot srW _ _ _ hi
    have l1 := le_tot lgW _ _ _ hi
    have l2 := le_tot clAllW _ _ _ hi
    have l3 := le_tot clPreW _ _ _ hi
    cases lg <;> (try simp only [St.setDone, St.setBg]) <;> (repeat' split) <;> simp_all [tot_set_eq _ _ _ _ _ hi, tot_ackWs_srw', tot_ackWs_lgw, tot_ackWs_clall, tot_ackWs_clpre, b2n_true, b2n_false, clearW_idle, clearW_exited, clearW_eq_exited, srW, lgW, clAllW, clPreW, St.bg, onOk, onErr, selNext, afterSetErr, srAllW] <;> (try omega)
  | cmLockClk _ i lg hi hl =>
    clear h4
    have l0 := le_tot srW _ _ _ hi
    have l1 := le_tot lgW _ _ _ hi
    have l2 := le_tot clAllW _ _ _ hi
    have l3 := le_tot clPreW _ _ _ hi
    cases lg <;> (try simp only [St.setDone, St.setBg]) <;> (repeat' split) <;> simp_all [tot_set_eq _ _ _ _ _ hi, tot_ackWs_srw', tot_ackWs_lgw, tot_ackWs_clall, tot_ackWs_clpre, b2n_true, b2n_false, clearW_idle, clearW_exited, clearW_eq_exited, srW, lgW, clAllW, clPreW, St.bg, onOk, onErr, selNext, afterSetErr, srAllW] <;> (try omega)
  | cmTryOk _ i k lg hi =>
    clear h4
    have l0 := le_tot srW _ _ _ hi
    have l1 := le_tot lgW _ _ _ hi
    have l2 := le_tot clAllW _ _ _ hi
    have l3 := le_tot clPreW _ _ _ hi
    cases lg <;> (try simp only [St.setDone, St.setBg]) <;> (repeat' split) <;> simp_all [tot_set_eq _ _ _ _ _ hi, tot_ackWs_srw', tot_ackWs_lgw, tot_ackWs_clall, tot_ackWs_clpre, b2n_true, b2n_false, clearW_idle, clearW_exited, clearW_eq_exited, srW, lgW, clAllW, clPreW, St.bg, onOk, onErr, selNext, afterSetErr, srAllW] <;> (try omega)
  | cmTryFail _ i k lg hi =>
    clear h4
    have l0 := le_tot srW _ _ _ hi
    have l1 := le_tot lgW _ _ _ hi
    have l2 := le_tot clAllW _ _ _ hi
    have l3 := le_tot clPreW _ _ _ hi
    cases lg <;> (try simp only [St.setDone, St.setBg]) <;> (repeat' split) <;> simp_all [tot_set_eq _ _ _ _ _ hi, tot_ackWs_srw', tot_ackWs_lgw, tot_ackWs_clall, tot_ackWs_clpre, b2n_true, b2n_false, clearW_idle, clearW_exited, clearW_eq_exited, srW, lgW, clAllW, clPreW, St.bg, onOk, onErr, selNext, afterSetErr, srAllW] <;> (try omega)
  | cmSleepTimer _ i k lg hi =>
    clear h4
    have l0 := le_tot srW _ _ _ hi
    have l1 := le_tot lgW _ _ _ hi
    have l2 := le_tot clAllW _ _ _ hi
    have l3 := le_tot clPreW _ _ _ hi
    cases lg <;> (try simp only [St.setDone, St.setBg]) <;> (repeat' split) <;> simp_all [tot_set_eq _ _ _ _ _ hi, tot_ackWs_srw', tot_ackWs_lgw, tot_ackWs_clall, tot_ackWs_clpre, b2n_true, b2n_false, clearW_idle, clearW_exited, clearW_eq_exited, srW, lgW, clAllW, clPreW, St.bg, onOk, onErr, selNext, afterSetErr, srAllW] <;> (try omega)
  | cmSleepClosed _ i k lg hi hc =>
    clear h4
    have l0 := le_tot srW _ _ _ hi
    have l1 := le_tot lgW _ _ _ hi
    have l2 := le_tot clAllW _ _ _ hi
    have l3 := le_tot clPreW _ _ _ hi
    cases lg <;> (try simp only [St.setDone, St.setBg]) <;> (repeat' split) <;> simp_all [tot_set_eq _ _ _ _ _ hi, tot_ackWs_srw', tot_ackWs_lgw, tot_ackWs_clall, tot_ackWs_clpre, b2n_true, b2n_false, clearW_idle, clearW_exited, clearW_eq_exited, srW, lgW, clAllW, clPreW, St.bg, onOk, onErr, selNext, afterSetErr, srAllW] <;> (try omega)
  | cmFail3 _ i lg hi =>
    clear h4
    have l0 := le_tot srW _ _ _ hi
    have l1 := le_tot lgW _ _ _ hi
    have l2 := le_tot clAllW _ _ _ hi
    have l3 := le_tot clPreW _ _ _ hi
    cases lg <;> (try simp only [St.setDone, St.setBg]) <;> (repeat' split) <;> simp_all [tot_set_eq _ _ _ _ _ hi, tot_ackWs_srw', tot_ackWs_lgw, tot_ackWs_clall, tot_ackWs_clpre, b2n_true, b2n_false, clearW_idle, clearW_exited, clearW_eq_exited, srW, lgW, clAllW, clPreW, St.bg, onOk, onErr, selNext, afterSetErr, srAllW] <;> (try omega)
  | cmAfterOk _ i lg hi =>
    clear h4
    have l0 := le_tot srW _ _ _ hi
    have l1 := le_tot lgW _ _ _ hi
    have l2 := le_tot clAllW _ _ _ hi
    have l3 := le_tot clPreW _ _ _ hi
    cases lg <;> (try simp only [St.setDone, St.setBg]) <;> (repeat' split) <;> simp_all [tot_set_eq _ _ _ _ _ hi, tot_ackWs_srw', tot_ackWs_lgw, tot_ackWs_clall, tot_ackWs_clpre, b2n_true, b2n_false, clearW_idle, clearW_exited, clearW_eq_exited, srW, lgW, clAllW, clPreW, St.bg, onOk, onErr, selNext, afterSetErr, srAllW] <;> (try omega)
  | cmNoWaitComp _ i lg hi =>
    clear h4
    have l0 := le_tot srW _ _ _ hi
    have l1 := le_tot lgW _ _ _ hi
    have l2 := le_tot clAllW _ _ _ hi
    have l3 := le_tot clPreW _ _ _ hi
    cases lg <;> (try simp only [St.setDone, St.setBg]) <;> (repeat' split) <;> simp_all [tot_set_eq _ _ _ _ _ hi, tot_ackWs_srw', tot_ackWs_lgw, tot_ackWs_clall, tot_ackWs_clpre, b2n_true, b2n_false, clearW_idle, clearW_exited, clearW_eq_exited, srW, lgW, clAllW, clPreW, St.bg, onOk, onErr, selNext, afterSetErr, srAllW] <;> (try omega)
  | cmWaitComp _ i lg hi =>
    clear h4
    have l0 := le_tot srW _ _ _ hi
    have l1 := le_tot lgW _ _ _ hi
    have l2 := le_tot clAllW _ _ _ hi
    have l3 := le_tot clPreW _ _ _ hi
    cases lg <;> (try simp only [St.setDone, St.setBg]) <;> (repeat' split) <;> simp_all [tot_set_eq _ _ _ _ _ hi, tot_ackWs_srw', tot_ackWs_lgw, tot_ackWs_clall, tot_ackWs_clpre, b2n_true, b2n_false, clearW_idle, clearW_exited, clearW_eq_exited, srW, lgW, clAllW, clPreW, St.bg, onOk, onErr, selNext, afterSetErr, srAllW] <;> (try omega)
  | cmDone _ i lg hi =>
    clear h4
    have l0 := le_tot srW _ _ _ hi
    have l1 := le_tot lgW _ _ _ hi
    have l2 := le_tot clAllW _ _ _ hi
    have l3 := le_tot clPreW _ _ _ hi
    cases lg <;> (try simp only [St.setDone, St.setBg]) <;> (repeat' split) <;> simp_all [tot_set_eq _ _ _ _ _ hi, tot_ackWs_srw', tot_ackWs_lgw, tot_ackWs_clall, tot_ackWs_clpre, b2n_true, b2n_false, clearW_idle, clearW_exited, clearW_eq_exited, srW, lgW, clAllW, clPreW, St.bg, onOk, onErr, selNext, afterSetErr, srAllW] <;> (try omega)
  | cmRet _ i ok lg hi =>
    clear h4
    have l0 := le_tot srW _ _ _ hi
    have l1 := le_tot lgW _ _ _ hi
    have l2 := le_tot clAllW _ _ _ hi
    have l3 := le_tot clPreW _ _ _ hi
    cases ok <;> cases lg <;> (try simp only [St.setDone, St.setBg]) <;> (repeat' split) <;> simp_all [tot_set_eq _ _ _ _ _ hi, tot_ackWs_srw', tot_ackWs_lgw, tot_ackWs_clall, tot_ackWs_clpre, b2n_true, b2n_false, clearW_idle, clearW_exited, clearW_eq_exited, srW, lgW, clAllW, clPreW, St.bg, onOk, onErr, selNext, afterSetErr, srAllW] <;> (try omega)
  | dcLockTr _ i lg hi hl =>
    clear h4
    have l0 := le_tot srW _ _ _ hi
    have l1 := le_tot lgW _ _ _ hi
    have l2 := le_tot clAllW _ _ _ hi
    have l3 := le_tot clPreW _ _ _ hi
    cases lg <;> (try simp only [St.setDone, St.setBg]) <;> (repeat' split) <;> simp_all [tot_set_eq _ _ _ _ _ hi, tot_ackWs_srw', tot_ackWs_lgw, tot_ackWs_clall, tot_ackWs_clpre, b2n_true, b2n_false, clearW_idle, clearW_exited, clearW_eq_exited, srW, lgW, clAllW, clPreW, St.bg, onOk, onErr, selNext, afterSetErr, srAllW] <;> (try omega)
  | dcBody _ i lg hi =>
    clear h4
    have l0 := le_tot srW _ _ _ hi
    have l1 := le_tot lgW _ _ _ hi
    have l2 := le_tot clAllW _ _ _ hi
    have l3 := le_tot clPreW _ _ _ hi
    cases lg <;> (try simp only [St.setDone, St.setBg]) <;> (repeat' split) <;> simp_all [tot_set_eq _ _ _ _ _ hi, tot_ackWs_srw', tot_ackWs_lgw, tot_ackWs_clall, tot_ackWs_clpre, b2n_true, b2n_false, clearW_idle, clearW_exited, clearW_eq_exited, srW, lgW, clAllW, clPreW, St.bg, onOk, onErr, selNext, afterSetErr, srAllW] <;> (try omega)
  | crNoOverlap _ i hi =>
    clear h4
    have l0 := le_tot srW _ _ _ hi
    have l1 := le_tot lgW _ _ _ hi
    have l2 := le_tot clAllW _ _ _ hi
    have l3 := le_tot clPreW _ _ _ hi
    (try simp only [St.setDone, St.setBg]) <;> (repeat' split) <;> simp_all [tot_set_eq _ _ _ _ _ hi, tot_ackWs_srw', tot_ackWs_lgw, tot_ackWs_clall, tot_ackWs_clpre, b2n_true, b2n_false, clearW_idle, clearW_exited, clearW_eq_exited, srW, lgW, clAllW, clPreW, St.bg, onOk, onErr, selNext, afterSetErr, srAllW] <;> (try omega)
  | crOverlap _ i hi =>
    clear h4
    have l0 := le_tot srW _ _ _ hi
    have l1 := le_tot lgW _ _ _ hi
    have l2 := le_tot clAllW _ _ _ hi
    have l3 := le_tot clPreW _ _ _ hi
    (try simp only [St.setDone, St.setBg]) <;> (repeat' split) <;> simp_all [tot_set_eq _ _ _ _ _ hi, tot_ackWs_srw', tot_ackWs_lgw, tot_ackWs_clall, tot_ackWs_clpre, b2n_true, b2n_false, clearW_idle, clearW_exited, clearW_eq_exited, srW, lgW, clAllW, clPreW, St.bg, onOk, onErr, selNext, afterSetErr, srAllW] <;> (try omega)
  | crNewMemOk _ i hi =>
    clear h4
    have l0 := le_tot srW _ _ _ hi
    have l1 := le_tot lgW _ _ _ hi
    have l2 := le_tot clAllW _ _ _ hi
    have l3 := le_tot clPreW _ _ _ hi
    (try simp only [St.setDone, St.setBg]) <;> (repeat' split) <;> simp_all [tot_set_eq _ _ _ _ _ hi, tot_ackWs_srw', tot_ackWs_lgw, tot_ackWs_clall, tot_ackWs_clpre, b2n_true, b2n_false, clearW_idle, clearW_exited, clearW_eq_exited, srW, lgW, clAllW, clPreW, St.bg, onOk, onErr, selNext, afterSetErr, srAllW] <;> (try omega)
  | crNewMemFail _ i hi =>
    clear h4
    have l0 := le_tot srW _ _ _ hi
    have l1 := le_tot lgW _ _ _ hi
    have l2 := le_tot clAllW _ _ _ hi
    have l3 := le_tot clPreW _ _ _ hi
    (try simp only [St.setDone, St.setBg]) <;> (repeat' split) <;> simp_all [tot_set_eq _ _ _ _ _ hi, tot_ackWs_srw', tot_ackWs_lgw, tot_ackWs_clall, tot_ackWs_clpre, b2n_true, b2n_false, clearW_idle, clearW_exited, clearW_eq_exited, srW, lgW, clAllW, clPreW, St.bg, onOk, onErr, selNext, afterSetErr, srAllW] <;> (try omega)
  | crRelM _ i hi =>
    clear h4
    have l0 := le_tot srW _ _ _ hi
    have l1 := le_tot lgW _ _ _ hi
    have l2 := le_tot clAllW _ _ _ hi
    have l3 := le_tot clPreW _ _ _ hi
    (try simp only [St.setDone, St.setBg]) <;> (repeat' split) <;> simp_all [tot_set_eq _ _ _ _ _ hi, tot_ackWs_srw', tot_ackWs_lgw, tot_ackWs_clall, tot_ackWs_clpre, b2n_true, b2n_false, clearW_idle, clearW_exited, clearW_eq_exited, srW, lgW, clAllW, clPreW, St.bg, onOk, onErr, selNext, afterSetErr, srAllW] <;> (try omega)
  | crRelOk _ i hi =>
    clear h4
    have l0 := le_tot srW _ _ _ hi
    have l1 := le_tot lgW _ _ _ hi
    have l2 := le_tot clAllW _ _ _ hi
    have l3 := le_tot clPreW _ _ _ hi
    (try simp only [St.setDone, St.setBg]) <;> (repeat' split) <;> simp_all [tot_set_eq _ _ _ _ _ hi, tot_ackWs_srw', tot_ackWs_lgw, tot_ackWs_clall, tot_ackWs_clpre, b2n_true, b2n_false, clearW_idle, clearW_exited, clearW_eq_exited, srW, lgW, clAllW, clPreW, St.bg, onOk, onErr, selNext, afterSetErr, srAllW] <;> (try omega)
  | crRelFail _ i hi =>
    clear h4
    have l0 := le_tot srW _ _ _ hi
    have l1 := le_tot lgW _ _ _ hi
    have l2 := le_tot clAllW _ _ _ hi
    have l3 := le_tot clPreW _ _ _ hi
    (try simp only [St.setDone, St.setBg]) <;> (repeat' split) <;> simp_all [tot_set_eq _ _ _ _ _ hi, tot_ackWs_srw', tot_ackWs_lgw, tot_ackWs_clall, tot_ackWs_clpre, b2n_true, b2n_false, clearW_idle, clearW_exited, clearW_eq_exited, srW, lgW, clAllW, clPreW, St.bg, onOk, onErr, selNext, afterSetErr, srAllW] <;> (try omega)
  | srSend _ i hi he =>
    clear h4
    have l0 := le_tot srW _ _ _ hi
    have l1 := le_tot lgW _ _ _ hi
    have l2 := le_tot clAllW _ _ _ hi
    have l3 := le_tot clPreW _ _ _ hi
    rcases he with he | he <;> (try simp only [St.setDone, St.setBg]) <;> (repeat' split) <;> simp_all [tot_set_eq _ _ _ _ _ hi, tot_ackWs_srw', tot_ackWs_lgw, tot_ackWs_clall, tot_ackWs_clpre, b2n_true, b2n_false, clearW_idle, clearW_exited, clearW_eq_exited, srW, lgW, clAllW, clPreW, St.bg, onOk, onErr, selNext, afterSetErr, srAllW] <;> (try omega)
  | srPerErr _ i hi he =>
    clear h4
    have l0 := le_tot srW _ _ _ hi
    have l1 := le_tot lgW _ _ _ hi
    have l2 := le_tot clAllW _ _ _ hi
    have l3 := le_tot clPreW _ _ _ hi
    (try simp only [St.setDone, St.setBg]) <;> (repeat' split) <;> simp_all [tot_set_eq _ _ _ _ _ hi, tot_ackWs_srw', tot_ackWs_lgw, tot_ackWs_clall, tot_ackWs_clpre, b2n_true, b2n_false, clearW_idle, clearW_exited, clearW_eq_exited, srW, lgW, clAllW, clPreW, St.bg, onOk, onErr, selNext, afterSetErr, srAllW] <;> (try omega)
  | srClosed _ i hi hc =>
    have l0 := le_tot srW _ _ _ hi
    have l1 := le_tot lgW _ _ _ hi
    have l2 := le_tot clAllW _ _ _ hi
    have l3 := le_tot clPreW _ _ _ hi
    have ls := le_tot srAllW _ _ _ hi
    rcases h4 with h4 | ⟨_, h4⟩ <;> (try simp only [St.setDone, St.setBg]) <;> (repeat' split) <;> simp_all [tot_set_eq _ _ _ _ _ hi, tot_ackWs_srw', tot_ackWs_lgw, tot_ackWs_clall, tot_ackWs_clpre, b2n_true, b2n_false, clearW_idle, clearW_exited, clearW_eq_exited, srW, lgW, clAllW, clPreW, St.bg, onOk, onErr, selNext, afterSetErr, srAllW] <;> (try omega)
  | clCheckTr _ i hi =>
    clear h4
    have l0 := le_tot srW _ _ _ hi
    have l1 := le_tot lgW _ _ _ hi
    have l2 := le_tot clAllW _ _ _ hi
    have l3 := le_tot clPreW _ _ _ hi
    (try simp only [St.setDone, St.setBg]) <;> (repeat' split) <;> simp_all [tot_set_eq _ _ _ _ _ hi, tot_ackWs_srw', tot_ackWs_lgw, tot_ackWs_clall, tot_ackWs_clpre, b2n_true, b2n_false, clearW_idle, clearW_exited, clearW_eq_exited, srW, lgW, clAllW, clPreW, St.bg, onOk, onErr, selNext, afterSetErr, srAllW] <;> (try omega)
  | clLockTr _ i hi hl =>
    clear h4
    have l0 := le_tot srW _ _ _ hi
    have l1 := le_tot lgW _ _ _ hi
    have l2 := le_tot clAllW _ _ _ hi
    have l3 := le_tot clPreW _ _ _ hi
    (try simp only [St.setDone, St.setBg]) <;> (repeat' split) <;> simp_all [tot_set_eq _ _ _ _ _ hi, tot_ackWs_srw', tot_ackWs_lgw, tot_ackWs_clall, tot_ackWs_clpre, b2n_true, b2n_false, clearW_idle, clearW_exited, clearW_eq_exited, srW, lgW, clAllW, clPreW, St.bg, onOk, onErr, selNext, afterSetErr, srAllW] <;> (try omega)
  | clBody _ i hi =>
    clear h4
    have l0 := le_tot srW _ _ _ hi
    have l1 := le_tot lgW _ _ _ hi
    have l2 := le_tot clAllW _ _ _ hi
    have l3 := le_tot clPreW _ _ _ hi
    (try simp only [St.setDone, St.setBg]) <;> (repeat' split) <;> simp_all [tot_set_eq _ _ _ _ _ hi, tot_ackWs_srw', tot_ackWs_lgw, tot_ackWs_clall, tot_ackWs_clpre, b2n_true, b2n_false, clearW_idle, clearW_exited, clearW_eq_exited, srW, lgW, clAllW, clPreW, St.bg, onOk, onErr, selNext, afterSetErr, srAllW] <;> (try omega)
  | clAcq _ i hi ht =>
    clear h4
    have l0 := le_tot srW _ _ _ hi
    have l1 := le_tot lgW _ _ _ hi
    have l2 := le_tot clAllW _ _ _ hi
    have l3 := le_tot clPreW _ _ _ hi
    (try simp only [St.setDone, St.setBg]) <;> (repeat' split) <;> simp_all [tot_set_eq _ _ _ _ _ hi, tot_ackWs_srw', tot_ackWs_lgw, tot_ackWs_clall, tot_ackWs_clpre, b2n_true, b2n_false, clearW_idle, clearW_exited, clearW_eq_exited, srW, lgW, clAllW, clPreW, St.bg, onOk, onErr, selNext, afterSetErr, srAllW] <;> (try omega)
  | clWait _ i hi hm ht =>
    clear h4
    have l0 := le_tot srW _ _ _ hi
    have l1 := le_tot lgW _ _ _ hi
    have l2 := le_tot clAllW _ _ _ hi
    have l3 := le_tot clPreW _ _ _ hi
    (try simp only [St.setDone, St.setBg]) <;> (repeat' split) <;> simp_all [tot_set_eq _ _ _ _ _ hi, tot_ackWs_srw', tot_ackWs_lgw, tot_ackWs_clall, tot_ackWs_clpre, b2n_true, b2n_false, clearW_idle, clearW_exited, clearW_eq_exited, srW, lgW, clAllW, clPreW, St.bg, onOk, onErr, selNext, afterSetErr, srAllW] <;> (try omega)
  | ehAcquire _ he ht hn =>
    clear h4
    (try simp only [St.setDone, St.setBg]) <;> (repeat' split) <;> simp_all [tot_ackWs_srw', tot_ackWs_lgw, tot_ackWs_clall, tot_ackWs_clpre, b2n_true, b2n_false, clearW_idle, clearW_exited, clearW_eq_exited, srW, lgW, clAllW, clPreW, St.bg, onOk, onErr, selNext, afterSetErr, srAllW] <;> (try omega)
  | ehExit _ he hc =>
    clear h4
    cases he' : s.eh <;> (try simp only [St.setDone, St.setBg]) <;> (repeat' split) <;> simp_all [tot_ackWs_srw', tot_ackWs_lgw, tot_ackWs_clall, tot_ackWs_clpre, b2n_true, b2n_false, clearW_idle, clearW_exited, clearW_eq_exited, srW, lgW, clAllW, clPreW, St.bg, onOk, onErr, selNext, afterSetErr, srAllW] <;> (try omega)
  | bgExitIdle _ b hb hc =>
    clear h4
    cases b <;> (try simp only [St.setDone, St.setBg]) <;> (repeat' split) <;> simp_all [tot_ackWs_srw', tot_ackWs_lgw, tot_ackWs_clall, tot_ackWs_clpre, b2n_true, b2n_false, clearW_idle, clearW_exited, clearW_eq_exited, srW, lgW, clAllW, clPreW, St.bg, onOk, onErr, selNext, afterSetErr, srAllW] <;> (try omega)
  | bgWorkOk _ b w hb =>
    clear h4
    cases b <;> (try simp only [St.setDone, St.setBg]) <;> (repeat' split) <;> simp_all [tot_ackWs_srw', tot_ackWs_lgw, tot_ackWs_clall, tot_ackWs_clpre, b2n_true, b2n_false, clearW_idle, clearW_exited, clearW_eq_exited, srW, lgW, clAllW, clPreW, St.bg, onOk, onErr, selNext, afterSetErr, srAllW] <;> (try omega)
  | bgWorkFail _ b w hb =>
    clear h4
    cases b <;> (try simp only [St.setDone, St.setBg]) <;> (repeat' split) <;> simp_all [tot_ackWs_srw', tot_ackWs_lgw, tot_ackWs_clall, tot_ackWs_clpre, b2n_true, b2n_false, clearW_idle, clearW_exited, clearW_eq_exited, srW, lgW, clAllW, clPreW, St.bg, onOk, onErr, selNext, afterSetErr, srAllW] <;> (try omega)
  | bgCommitOk _ b w hb =>
    clear h4
    cases b <;> (try simp only [St.setDone, St.setBg]) <;> (repeat' split) <;> simp_all [tot_ackWs_srw', tot_ackWs_lgw, tot_ackWs_clall, tot_ackWs_clpre, b2n_true, b2n_false, clearW_idle, clearW_exited, clearW_eq_exited, srW, lgW, clAllW, clPreW, St.bg, onOk, onErr, selNext, afterSetErr, srAllW] <;> (try omega)
  | bgCommitFail _ b w hb =>
    clear h4
    cases b <;> (try simp only [St.setDone, St.setBg]) <;> (repeat' split) <;> simp_all [tot_ackWs_srw', tot_ackWs_lgw, tot_ackWs_clall, tot_ackWs_clpre, b2n_true, b2n_false, clearW_idle, clearW_exited, clearW_eq_exited, srW, lgW, clAllW, clPreW, St.bg, onOk, onErr, selNext, afterSetErr, srAllW] <;> (try omega)
  | bgSetErr _ b w ok c hb he =>
    clear h4
    rcases he with he | he <;> cases b <;> cases ok <;> cases c <;> (try simp only [St.setDone, St.setBg]) <;> (repeat' split) <;> simp_all [tot_ackWs_srw', tot_ackWs_lgw, tot_ackWs_clall, tot_ackWs_clpre, b2n_true, b2n_false, clearW_idle, clearW_exited, clearW_eq_exited, srW, lgW, clAllW, clPreW, St.bg, onOk, onErr, selNext, afterSetErr, srAllW] <;> (try omega)
  | bgSetErrPer _ b w c hb he =>
    clear h4
    cases b <;> cases c <;> (try simp only [St.setDone, St.setBg]) <;> (repeat' split) <;> simp_all [tot_ackWs_srw', tot_ackWs_lgw, tot_ackWs_clall, tot_ackWs_clpre, b2n_true, b2n_false, clearW_idle, clearW_exited, clearW_eq_exited, srW, lgW, clAllW, clPreW, St.bg, onOk, onErr, selNext, afterSetErr, srAllW] <;> (try omega)
  | bgBackoff _ b w c hb =>
    clear h4
    cases b <;> cases c <;> (try simp only [St.setDone, St.setBg]) <;> (repeat' split) <;> simp_all [tot_ackWs_srw', tot_ackWs_lgw, tot_ackWs_clall, tot_ackWs_clpre, b2n_true, b2n_false, clearW_idle, clearW_exited, clearW_eq_exited, srW, lgW, clAllW, clPreW, St.bg, onOk, onErr, selNext, afterSetErr, srAllW] <;> (try omega)
  | bgLockClk _ b w hb hl =>
    clear h4
    cases b <;> (try simp only [St.setDone, St.setBg]) <;> (repeat' split) <;> simp_all [tot_ackWs_srw', tot_ackWs_lgw, tot_ackWs_clall, tot_ackWs_clpre, b2n_true, b2n_false, clearW_idle, clearW_exited, clearW_eq_exited, srW, lgW, clAllW, clPreW, St.bg, onOk, onErr, selNext, afterSetErr, srAllW] <;> (try omega)
  | bgAck _ b w hb =>
    clear h4
    cases b <;> (try simp only [St.setDone, St.setBg]) <;> (repeat' split) <;> simp_all [tot_ackWs_srw', tot_ackWs_lgw, tot_ackWs_clall, tot_ackWs_clpre, b2n_true, b2n_false, clearW_idle, clearW_exited, clearW_eq_exited, srW, lgW, clAllW, clPreW, St.bg, onOk, onErr, selNext, afterSetErr, srAllW] <;> (try omega)
  | bgExit _ b w ph hb hx =>
    clear h4
    cases b <;> cases ph <;> (try simp only [St.setDone, St.setBg]) <;> (repeat' split) <;> simp_all [tot_ackWs_srw', tot_ackWs_lgw, tot_ackWs_clall, tot_ackWs_clpre, b2n_true, b2n_false, clearW_idle, clearW_exited, clearW_eq_exited, srW, lgW, clAllW, clPreW, St.bg, onOk, onErr, selNext, afterSetErr, srAllW] <;> (try omega) <;> (try (rcases hx with hx | hx <;> simp_all))

theorem step_pinvC (s t : St) (f : Bool) (cfg : Cfg) (hfx : Fixed3 cfg)
    (h4 : cfg.setReadOnlyReleasesOnClose = true ∨ NoSR s) (h : Step cfg f s t) (inv : PInvC s) : PInvC t := by
  unfold PInvC at *
  obtain ⟨h6, h7, h8⟩ := inv
  have c1 := b2n_le s.closed
  have c2 := b2n_le s.closeTok
  have hle := tot_le_tot clPreW clAllW (by intro p; cases p <;> simp [clPreW, clAllW]) s.ws
  obtain ⟨f1, f2, f3⟩ := hfx
  cases h with
  | startPut _ i hi =>
    clear h4
    have l0 := le_tot srW _ _ _ hi
    have l1 := le_tot lgW _ _ _ hi
    have l2 := le_tot clAllW _ _ _ hi
    have l3 := le_tot clPreW _ _ _ hi
    (try simp only [St.setDone, St.setBg]) <;> (repeat' split) <;> simp_all [tot_set_eq _ _ _ _ _ hi, tot_ackWs_srw', tot_ackWs_lgw, tot_ackWs_clall, tot_ackWs_clpre, b2n_true, b2n_false, clearW_idle, clearW_exited, clearW_eq_exited, srW, lgW, clAllW, clPreW, St.bg, onOk, onErr, selNext, afterSetErr, srAllW] <;> (try omega)
  | startWrite _ i hi =>
    clear h4
    have l0 := le_tot srW _ _ _ hi
    have l1 := le_tot lgW _ _ _ hi
    have l2 := le_tot clAllW _ _ _ hi
    have l3 := le_tot clPreW _ _ _ hi
    (try simp only [St.setDone, St.setBg]) <;> (repeat' split) <;> simp_all [tot_set_eq _ _ _ _ _ hi, tot_ackWs_srw', tot_ackWs_lgw, tot_ackWs_clall, tot_ackWs_clpre, b2n_true, b2n_false, clearW_idle, clearW_exited, clearW_eq_exited, srW, lgW, clAllW, clPreW, St.bg, onOk, onErr, selNext, afterSetErr, srAllW] <;> (try omega)
  | startOtx _ i hi =>
    clear h4
    have l0 := le_tot srW _ _ _ hi
    have l1 := le_tot lgW _ _ _ hi
    have l2 := le_tot clAllW _ _ _ hi
    have l3 := le_tot clPreW _ _ _ hi
    (try simp only [St.setDone, St.setBg]) <;> (repeat' split) <;> simp_all [tot_set_eq _ _ _ _ _ hi, tot_ackWs_srw', tot_ackWs_lgw, tot_ackWs_clall, tot_ackWs_clpre, b2n_true, b2n_false, clearW_idle, clearW_exited, clearW_eq_exited, srW, lgW, clAllW, clPreW, St.bg, onOk, onErr, selNext, afterSetErr, srAllW] <;> (try omega)
  | startCommit _ i hi hu =>
    clear h4
    have l0 := le_tot srW _ _ _ hi
    have l1 := le_tot lgW _ _ _ hi
    have l2 := le_tot clAllW _ _ _ hi
    have l3 := le_tot clPreW _ _ _ hi
    (try simp only [St.setDone, St.setBg]) <;> (repeat' split) <;> simp_all [tot_set_eq _ _ _ _ _ hi, tot_ackWs_srw', tot_ackWs_lgw, tot_ackWs_clall, tot_ackWs_clpre, b2n_true, b2n_false, clearW_idle, clearW_exited, clearW_eq_exited, srW, lgW, clAllW, clPreW, St.bg, onOk, onErr, selNext, afterSetErr, srAllW] <;> (try omega)
  | startDiscard _ i hi hu =>
    clear h4
    have l0 := le_tot srW _ _ _ hi
    have l1 := le_tot lgW _ _ _ hi
    have l2 := le_tot clAllW _ _ _ hi
    have l3 := le_tot clPreW _ _ _ hi
    (try simp only [St.setDone, St.setBg]) <;> (repeat' split) <;> simp_all [tot_set_eq _ _ _ _ _ hi, tot_ackWs_srw', tot_ackWs_lgw, tot_ackWs_clall, tot_ackWs_clpre, b2n_true, b2n_false, clearW_idle, clearW_exited, clearW_eq_exited, srW, lgW, clAllW, clPreW, St.bg, onOk, onErr, selNext, afterSetErr, srAllW] <;> (try omega)
  | startCR _ i hi =>
    clear h4
    have l0 := le_tot srW _ _ _ hi
    have l1 := le_tot lgW _ _ _ hi
    have l2 := le_tot clAllW _ _ _ hi
    have l3 := le_tot clPreW _ _ _ hi
    (try simp only [St.setDone, St.setBg]) <;> (repeat' split) <;> simp_all [tot_set_eq _ _ _ _ _ hi, tot_ackWs_srw', tot_ackWs_lgw, tot_ackWs_clall, tot_ackWs_clpre, b2n_true, b2n_false, clearW_idle, clearW_exited, clearW_eq_exited, srW, lgW, clAllW, clPreW, St.bg, onOk, onErr, selNext, afterSetErr, srAllW] <;> (try omega)
  | startSR _ i hi ha =>
    clear h4
    have l0 := le_tot srW _ _ _ hi
    have l1 := le_tot lgW _ _ _ hi
    have l2 := le_tot clAllW _ _ _ hi
    have l3 := le_tot clPreW _ _ _ hi
    (try simp only [St.setDone, St.setBg]) <;> (repeat' split) <;> simp_all [tot_set_eq _ _ _ _ _ hi, tot_ackWs_srw', tot_ackWs_lgw, tot_ackWs_clall, tot_ackWs_clpre, b2n_true, b2n_false, clearW_idle, clearW_exited, clearW_eq_exited, srW, lgW, clAllW, clPreW, St.bg, onOk, onErr, selNext, afterSetErr, srAllW] <;> (try omega)
  | startClose _ i hi =>
    clear h4
    have l0 := le_tot srW _ _ _ hi
    have l1 := le_tot lgW _ _ _ hi
    have l2 := le_tot clAllW _ _ _ hi
    have l3 := le_tot clPreW _ _ _ hi
    (try simp only [St.setDone, St.setBg]) <;> (repeat' split) <;> simp_all [tot_set_eq _ _ _ _ _ hi, tot_ackWs_srw', tot_ackWs_lgw, tot_ackWs_clall, tot_ackWs_clpre, b2n_true, b2n_false, clearW_idle, clearW_exited, clearW_eq_exited, srW, lgW, clAllW, clPreW, St.bg, onOk, onErr, selNext, afterSetErr, srAllW] <;> (try omega)
  | selTok _ i p q hi hq ht =>
    clear h4
    have l0 := le_tot srW _ _ _ hi
    have l1 := le_tot lgW _ _ _ hi
    have l2 := le_tot clAllW _ _ _ hi
    have l3 := le_tot clPreW _ _ _ hi
    cases p <;> simp only [selNext] at hq <;> (try contradiction) <;> cases hq <;> simp_all [tot_set_eq _ _ _ _ _ hi, tot_ackWs_srw', tot_ackWs_lgw, tot_ackWs_clall, tot_ackWs_clpre, b2n_true, b2n_false, clearW_idle, clearW_exited, clearW_eq_exited, srW, lgW, clAllW, clPreW, St.bg, onOk, onErr, selNext, afterSetErr, srAllW] <;> (try omega)
  | selPerErr _ i p q hi hq he =>
    clear h4
    have l0 := le_tot srW _ _ _ hi
    have l1 := le_tot lgW _ _ _ hi
    have l2 := le_tot clAllW _ _ _ hi
    have l3 := le_tot clPreW _ _ _ hi
    cases p <;> simp only [selNext] at hq <;> (try contradiction) <;> cases hq <;> simp_all [tot_set_eq _ _ _ _ _ hi, tot_ackWs_srw', tot_ackWs_lgw, tot_ackWs_clall, tot_ackWs_clpre, b2n_true, b2n_false, clearW_idle, clearW_exited, clearW_eq_exited, srW, lgW, clAllW, clPreW, St.bg, onOk, onErr, selNext, afterSetErr, srAllW] <;> (try omega)
  | selClosed _ i p q hi hq hc =>
    clear h4
    have l0 := le_tot srW _ _ _ hi
    have l1 := le_tot lgW _ _ _ hi
    have l2 := le_tot clAllW _ _ _ hi
    have l3 := le_tot clPreW _ _ _ hi
    cases p <;> simp only [selNext] at hq <;> (try contradiction) <;> cases hq <;> simp_all [tot_set_eq _ _ _ _ _ hi, tot_ackWs_srw', tot_ackWs_lgw, tot_ackWs_clall, tot_ackWs_clpre, b2n_true, b2n_false, clearW_idle, clearW_exited, clearW_eq_exited, srW, lgW, clAllW, clPreW, St.bg, onOk, onErr, selNext, afterSetErr, srAllW] <;> (try omega)
  | putNoWait _ i hi =>
    clear h4
    have l0 := le_tot srW _ _ _ hi
    have l1 := le_tot lgW _ _ _ hi
    have l2 := le_tot clAllW _ _ _ hi
    have l3 := le_tot clPreW _ _ _ hi
    (try simp only [St.setDone, St.setBg]) <;> (repeat' split) <;> simp_all [tot_set_eq _ _ _ _ _ hi, tot_ackWs_srw', tot_ackWs_lgw, tot_ackWs_clall, tot_ackWs_clpre, b2n_true, b2n_false, clearW_idle, clearW_exited, clearW_eq_exited, srW, lgW, clAllW, clPreW, St.bg, onOk, onErr, selNext, afterSetErr, srAllW] <;> (try omega)
  | putWait _ i b hi =>
    clear h4
    have l0 := le_tot srW _ _ _ hi
    have l1 := le_tot lgW _ _ _ hi
    have l2 := le_tot clAllW _ _ _ hi
    have l3 := le_tot clPreW _ _ _ hi
    cases b <;> (try simp only [St.setDone, St.setBg]) <;> (repeat' split) <;> simp_all [tot_set_eq _ _ _ _ _ hi, tot_ackWs_srw', tot_ackWs_lgw, tot_ackWs_clall, tot_ackWs_clpre, b2n_true, b2n_false, clearW_idle, clearW_exited, clearW_eq_exited, srW, lgW, clAllW, clPreW, St.bg, onOk, onErr, selNext, afterSetErr, srAllW] <;> (try omega)
  | putJournalOk _ i hi =>
    clear h4
    have l0 := le_tot srW _ _ _ hi
    have l1 := le_tot lgW _ _ _ hi
    have l2 := le_tot clAllW _ _ _ hi
    have l3 := le_tot clPreW _ _ _ hi
    (try simp only [St.setDone, St.setBg]) <;> (repeat' split) <;> simp_all [tot_set_eq _ _ _ _ _ hi, tot_ackWs_srw', tot_ackWs_lgw, tot_ackWs_clall, tot_ackWs_clpre, b2n_true, b2n_false, clearW_idle, clearW_exited, clearW_eq_exited, srW, lgW, clAllW, clPreW, St.bg, onOk, onErr, selNext, afterSetErr, srAllW] <;> (try omega)
  | putJournalFail _ i hi =>
    clear h4
    have l0 := le_tot srW _ _ _ hi
    have l1 := le_tot lgW _ _ _ hi
    have l2 := le_tot clAllW _ _ _ hi
    have l3 := le_tot clPreW _ _ _ hi
    (try simp only [St.setDone, St.setBg]) <;> (repeat' split) <;> simp_all [tot_set_eq _ _ _ _ _ hi, tot_ackWs_srw', tot_ackWs_lgw, tot_ackWs_clall, tot_ackWs_clpre, b2n_true, b2n_false, clearW_idle, clearW_exited, clearW_eq_exited, srW, lgW, clAllW, clPreW, St.bg, onOk, onErr, selNext, afterSetErr, srAllW] <;> (try omega)
  | putUnlock _ i r hi =>
    clear h4
    have l0 := le_tot srW _ _ _ hi
    have l1 := le_tot lgW _ _ _ hi
    have l2 := le_tot clAllW _ _ _ hi
    have l3 := le_tot clPreW _ _ _ hi
    cases r <;> (try simp only [St.setDone, St.setBg]) <;> (repeat' split) <;> simp_all [tot_set_eq _ _ _ _ _ hi, tot_ackWs_srw', tot_ackWs_lgw, tot_ackWs_clall, tot_ackWs_clpre, b2n_true, b2n_false, clearW_idle, clearW_exited, clearW_eq_exited, srW, lgW, clAllW, clPreW, St.bg, onOk, onErr, selNext, afterSetErr, srAllW] <;> (try omega)
  | cwSendGo _ i b site lg hi hb =>
    clear h4
    have l0 := le_tot srW _ _ _ hi
    have l1 := le_tot lgW _ _ _ hi
    have l2 := le_tot clAllW _ _ _ hi
    have l3 := le_tot clPreW _ _ _ hi
    cases site <;> cases b <;> cases lg <;> (try simp only [St.setDone, St.setBg]) <;> (repeat' split) <;> simp_all [tot_set_eq _ _ _ _ _ hi, tot_ackWs_srw', tot_ackWs_lgw, tot_ackWs_clall, tot_ackWs_clpre, b2n_true, b2n_false, clearW_idle, clearW_exited, clearW_eq_exited, srW, lgW, clAllW, clPreW, St.bg, onOk, onErr, selNext, afterSetErr, srAllW] <;> (try omega)
  | cwSendErr _ i b site lg hi he =>
    clear h4
    have l0 := le_tot srW _ _ _ hi
    have l1 := le_tot lgW _ _ _ hi
    have l2 := le_tot clAllW _ _ _ hi
    have l3 := le_tot clPreW _ _ _ hi
    cases site <;> cases b <;> cases lg <;> (try simp only [St.setDone, St.setBg]) <;> (repeat' split) <;> simp_all [tot_set_eq _ _ _ _ _ hi, tot_ackWs_srw', tot_ackWs_lgw, tot_ackWs_clall, tot_ackWs_clpre, b2n_true, b2n_false, clearW_idle, clearW_exited, clearW_eq_exited, srW, lgW, clAllW, clPreW, St.bg, onOk, onErr, selNext, afterSetErr, srAllW] <;> (try omega)
  | cwAckErr _ i b site lg hi he =>
    clear h4
    have l0 := le_tot srW _ _ _ hi
    have l1 := le_tot lgW _ _ _ hi
    have l2 := le_tot clAllW _ _ _ hi
    have l3 := le_tot clPreW _ _ _ hi
    cases site <;> cases b <;> cases lg <;> (try simp only [St.setDone, St.setBg]) <;> (repeat' split) <;> simp_all [tot_set_eq _ _ _ _ _ hi, tot_ackWs_srw', tot_ackWs_lgw, tot_ackWs_clall, tot_ackWs_clpre, b2n_true, b2n_false, clearW_idle, clearW_exited, clearW_eq_exited, srW, lgW, clAllW, clPreW, St.bg, onOk, onErr, selNext, afterSetErr, srAllW] <;> (try omega)
  | otxRotate _ i lg hi =>
    clear h4
    have l0 := le_tot srW _ _ _ hi
    have l1 := le_tot lgW _ _ _ hi
    have l2 := le_tot clAllW _ _ _ hi
    have l3 := le_tot clPreW _ _ _ hi
    cases lg <;> (try simp only [St.setDone, St.setBg]) <;> (repeat' split) <;> simp_all [tot_set_eq _ _ _ _ _ hi, tot_ackWs_srw', tot_ackWs_lgw, tot_ackWs_clall, tot_ackWs_clpre, b2n_true, b2n_false, clearW_idle, clearW_exited, clearW_eq_exited, srW, lgW, clAllW, clPreW, St.bg, onOk, onErr, selNext, afterSetErr, srAllW] <;> (try omega)
  | otxNoRotate _ i lg hi =>
    clear h4
    have l0 := le_tot srW _ _ _ hi
    have l1 := le_tot lgW _ _ _ hi
    have l2 := le_tot clAllW _ _ _ hi
    have l3 := le_tot clPreW _ _ _ hi
    cases lg <;> (try simp only [St.setDone, St.setBg]) <;> (repeat' split) <;> simp_all [tot_set_eq _ _ _ _ _ hi, tot_ackWs_srw', tot_ackWs_lgw, tot_ackWs_clall, tot_ackWs_clpre, b2n_true, b2n_false, clearW_idle, clearW_exited, clearW_eq_exited, srW, lgW, clAllW, clPreW, St.bg, onOk, onErr, selNext, afterSetErr, srAllW] <;> (try omega)
  | otxNewMemOk _ i lg hi =>
    clear h4
    have l0 := le_tot srW _ _ _ hi
    have l1 := le_tot lgW _ _ _ hi
    have l2 := le_tot clAllW _ _ _ hi
    have l3 := le_tot clPreW _ _ _ hi
    cases lg <;> (try simp only [St.setDone, St.setBg]) <;> (repeat' split) <;> simp_all [tot_set_eq _ _ _ _ _ hi, tot_ackWs_srw', tot_ackWs_lgw, tot_ackWs_clall, tot_ackWs_clpre, b2n_true, b2n_false, clearW_idle, clearW_exited, clearW_eq_exited, srW, lgW, clAllW, clPreW, St.bg, onOk, onErr, selNext, afterSetErr, srAllW] <;> (try omega)
  | otxNewMemFail _ i lg hi =>
    clear h4
    have l0 := le_tot srW _ _ _ hi
    have l1 := le_tot lgW _ _ _ hi
    have l2 := le_tot clAllW _ _ _ hi
    have l3 := le_tot clPreW _ _ _ hi
    cases lg <;> (try simp only [St.setDone, St.setBg]) <;> (repeat' split) <;> simp_all [tot_set_eq _ _ _ _ _ hi, tot_ackWs_srw', tot_ackWs_lgw, tot_ackWs_clall, tot_ackWs_clpre, b2n_true, b2n_false, clearW_idle, clearW_exited, clearW_eq_exited, srW, lgW, clAllW, clPreW, St.bg, onOk, onErr, selNext, afterSetErr, srAllW] <;> (try omega)
  | otxNoWaitComp _ i lg hi =>
    clear h4
    have l0 := le_tot srW _ _ _ hi
    have l1 := le_tot lgW _ _ _ hi
    have l2 := le_tot clAllW _ _ _ hi
    have l3 := le_tot clPreW _ _ _ hi
    cases lg <;> (try simp only [St.setDone, St.setBg]) <;> (repeat' split) <;> simp_all [tot_set_eq _ _ _ _ _ hi, tot_ackWs_srw', tot_ackWs_lgw, tot_ackWs_clall, tot_ackWs_clpre, b2n_true, b2n_false, clearW_idle, clearW_exited, clearW_eq_exited, srW, lgW, clAllW, clPreW, St.bg, onOk, onErr, selNext, afterSetErr, srAllW] <;> (try omega)
  | otxWaitComp _ i lg hi =>
    clear h4
    have l0 := le_tot srW _ _ _ hi
    have l1 := le_tot lgW _ _ _ hi
    have l2 := le_tot clAllW _ _ _ hi
    have l3 := le_tot clPreW _ _ _ hi
    cases lg <;> (try simp only [St.setDone, St.setBg]) <;> (repeat' split) <;> simp_all [tot_set_eq _ _ _ _ _ hi, tot_ackWs_srw', tot_ackWs_lgw, tot_ackWs_clall, tot_ackWs_clpre, b2n_true, b2n_false, clearW_idle, clearW_exited, clearW_eq_exited, srW, lgW, clAllW, clPreW, St.bg, onOk, onErr, selNext, afterSetErr, srAllW] <;> (try omega)
  | otxFail _ i lg hi =>
    clear h4
    have l0 := le_tot srW _ _ _ hi
    have l1 := le_tot lgW _ _ _ hi
    have l2 := le_tot clAllW _ _ _ hi
    have l3 := le_tot clPreW _ _ _ hi
    cases lg <;> (try simp only [St.setDone, St.setBg]) <;> (repeat' split) <;> simp_all [tot_set_eq _ _ _ _ _ hi, tot_ackWs_srw', tot_ackWs_lgw, tot_ackWs_clall, tot_ackWs_clpre, b2n_true, b2n_false, clearW_idle, clearW_exited, clearW_eq_exited, srW, lgW, clAllW, clPreW, St.bg, onOk, onErr, selNext, afterSetErr, srAllW] <;> (try omega)
  | otxRel _ i lg hi =>
    clear h4
    have l0 := le_tot srW _ _ _ hi
    have l1 := le_tot lgW _ _ _ hi
    have l2 := le_tot clAllW _ _ _ hi
    have l3 := le_tot clPreW _ _ _ hi
    cases lg <;> (try simp only [St.setDone, St.setBg]) <;> (repeat' split) <;> simp_all [tot_set_eq _ _ _ _ _ hi, tot_ackWs_srw', tot_ackWs_lgw, tot_ackWs_clall, tot_ackWs_clpre, b2n_true, b2n_false, clearW_idle, clearW_exited, clearW_eq_exited, srW, lgW, clAllW, clPreW, St.bg, onOk, onErr, selNext, afterSetErr, srAllW] <;> (try omega)
  | otxDone _ i lg hi =>
    clear h4
    have l0 := le_tot srW _ _ _ hi
    have l1 := le_tot lgW _ _ _ hi
    have l2 := le_tot clAllW _ _ _ hi
    have l3 := le_tot clPreW _ _ _ hi
    cases lg <;> (try simp only [St.setDone, St.setBg]) <;> (repeat' split) <;> simp_all [tot_set_eq _ _ _ _ _ hi, tot_ackWs_srw', tot_ackWs_lgw, tot_ackWs_clall, tot_ackWs_clpre, b2n_true, b2n_false, clearW_idle, clearW_exited, clearW_eq_exited, srW, lgW, clAllW, clPreW, St.bg, onOk, onErr, selNext, afterSetErr, srAllW] <;> (try omega)
  | lgWriteOk _ i hi =>
    clear h4
    have l0 := le_tot srW _ _ _ hi
    have l1 := le_tot lgW _ _ _ hi
    have l2 := le_tot clAllW _ _ _ hi
    have l3 := le_tot clPreW _ _ _ hi
    (try simp only [St.setDone, St.setBg]) <;> (repeat' split) <;> simp_all [tot_set_eq _ _ _ _ _ hi, tot_ackWs_srw', tot_ackWs_lgw, tot_ackWs_clall, tot_ackWs_clpre, b2n_true, b2n_false, clearW_idle, clearW_exited, clearW_eq_exited, srW, lgW, clAllW, clPreW, St.bg, onOk, onErr, selNext, afterSetErr, srAllW] <;> (try omega)
  | lgWriteFail _ i hi =>
    clear h4
    have l0 := le_tot srW _ _ _ hi
    have l1 := le_tot lgW _ _ _ hi
    have l2 := le_tot clAllW _ _ _ hi
    have l3 := le_tot clPreW _ _ _ hi
    (try simp only [St.setDone, St.setBg]) <;> (repeat' split) <;> simp_all [tot_set_eq _ _ _ _ _ hi, tot_ackWs_srw', tot_ackWs_lgw, tot_ackWs_clall, tot_ackWs_clpre, b2n_true, b2n_false, clearW_idle, clearW_exited, clearW_eq_exited, srW, lgW, clAllW, clPreW, St.bg, onOk, onErr, selNext, afterSetErr, srAllW] <;> (try omega)
  | cmLockTr _ i lg hi hl =>
    clear h4
    have l0 := le_tot srW _ _ _ hi
    have l1 := le_tot lgW _ _ _ hi
    have l2 := le_tot clAllW _ _ _ hi
    have l3 := le_tot clPreW _ _ _ hi
    cases lg <;> (try simp only [St.setDone, St.setBg]) <;> (repeat' split) <;> simp_all [tot_set_eq _ _ _ _ _ hi, tot_ackWs_srw', tot_ackWs_lgw, tot_ackWs_clall, tot_ackWs_clpre, b2n_true, b2n_false, clearW_idle, clearW_exited, clearW_eq_exited, srW, lgW, clAllW, clPreW, St.bg, onOk, onErr, selNext, afterSetErr, srAllW] <;> (try omega)
  | cmFlushOk _ i lg hi =>
    clear h4
    have l0 := le_tot srW _ _ _ hi
    have l1 := le_tot lgW _ _ _ hi
    have l2 := le_tot clAllW _ _ _ hi
    have l3 := le_tot clPreW _ _ _ hi
    cases lg <;> (try simp only [St.setDone, St.setBg]) <;> (repeat' split) <;> simp_all [tot_set_eq _ _ _ _ _ hi, tot_ackWs_srw', tot_ackWs_lgw, tot_ackWs_clall, tot_ackWs_clpre, b2n_true, b2n_false, clearW_idle, clearW_exited, clearW_eq_exited, srW, lgW, clAllW, clPreW, St.bg, onOk, onErr, selNext, afterSetErr, srAllW] <;> (try omega)
  | cmFlushEmpty _ i lg hi =>
    clear h4
    have l0 := le_tot srW _ _ _ hi
    have l1 := le_tot lgW _ _ _ hi
    have l2 := le_tot clAllW _ _ _ hi
    have l3 := le_tot clPreW _ _ _ hi
    cases lg <;> (try simp only [St.setDone, St.setBg]) <;> (repeat' split) <;> simp_all [tot_set_eq _ _ _ _ _ hi, tot_ackWs_srw', tot_ackWs_lgw, tot_ackWs_clall, tot_ackWs_clpre, b2n_true, b2n_false, clearW_idle, clearW_exited, clearW_eq_exited, srW, lgW, clAllW, clPreW, St.bg, onOk, onErr, selNext, afterSetErr, srAllW] <;> (try omega)
  | cmFlushFail _ i lg hi =>
    clear h4
    have l0 := le_tot srW _ _ _ hi
    have l1 := le_tot lgW _ _ _ hi
    have l2 := le_tot clAllW _ _ _ hi
    have l3 := le_tot clPreW _ _ _ hi
    cases lg <;> (try simp only [St.setDone, St.setBg]) <;> (repeat' split) <;> simp_all [tot_set_eq _ _ _ _ _ hi, tot_ackWs_srw', tot_ackWs_lgw, tot_ackWs_clall, tot_ackWs_clpre, b2n_true, b2n_false, clearW_idle, clearW_exited, clearW_eq_exited, srW, lgW, clAllW, clPreW, St.bg, onOk, onErr, selNext, afterSetErr, srAllW] <;> (try omega)
  | cmLockClk _ i lg hi hl =>
    clear h4
    have l0 := le_tot srW _ _ _ hi
    have l1 := le_tot lgW _ _ _ hi
    have l2 := le_tot clAllW _ _ _ hi
    have l3 := le_tot clPreW _ _ _ hi
    cases lg <;> (try simp only [St.setDone, St.setBg]) <;> (repeat' split) <;> simp_all [tot_set_eq _ _ _ _ _ hi, tot_ackWs_srw', tot_ackWs_lgw, tot_ackWs_clall, tot_ackWs_clpre, b2n_true, b2n_false, clearW_idle, clearW_exited, clearW_eq_exited, srW, lgW, clAllW, clPreW, St.bg, onOk, onErr, selNext, afterSetErr, srAllW] <;> (try omega)
  | cmTryOk _ i k lg hi =>
    clear h4
    have l0 := le_tot srW _ _ _ hi
    have l1 := le_tot lgW _ _ _ hi
    have l2 := le_tot clAllW _ _ _ hi
    have l3 := le_tot clPreW _ _ _ hi
    cases lg <;> (try simp only [St.setDone, St.setBg]) <;> (repeat' split) <;> simp_all [tot_set_eq _ _ _ _ _ hi, tot_ackWs_srw', tot_ackWs_lgw, tot_ackWs_clall, tot_ackWs_clpre, b2n_true, b2n_false, clearW_idle, clearW_exited, clearW_eq_exited, srW, lgW, clAllW, clPreW, St.bg, onOk, onErr, selNext, afterSetErr, srAllW] <;> (try omega)
  | cmTryFail _ i k lg hi =>
    clear h4
    have l0 := le_tot srW _ _ _ hi
    have l1 := le_tot lgW _ _ _ hi
    have l2 := le_tot clAllW _ _ _ hi
    have l3 := le_tot clPreW _ _ _ hi
    cases lg <;> (try simp only [St.setDone, St.setBg]) <;> (repeat' split) <;> simp_all [tot_set_eq _ _ _ _ _ hi, tot_ackWs_srw', tot_ackWs_lgw, tot_ackWs_clall, tot_ackWs_clpre, b2n_true, b2n_false, clearW_idle, clearW_exited, clearW_eq_exited, srW, lgW, clAllW, clPreW, St.bg, onOk, onErr, selNext, afterSetErr, srAllW] <;> (try omega)
  | cmSleepTimer _ i k lg hi =>
    clear h4
    have l0 := le_tot srW _ _ _ hi
    have l1 := le_tot lgW _ _ _ hi
    have l2 := le_tot clAllW _ _ _ hi
    have l3 := le_tot clPreW _ _ _ hi
    cases lg <;> (try simp only [St.setDone, St.setBg]) <;> (repeat' split) <;> simp_all [tot_set_eq _ _ _ _ _ hi, tot_ackWs_srw', tot_ackWs_lgw, tot_ackWs_clall, tot_ackWs_clpre, b2n_true, b2n_false, clearW_idle, clearW_exited, clearW_eq_exited, srW, lgW, clAllW, clPreW, St.bg, onOk, onErr, selNext, afterSetErr, srAllW] <;> (try omega)
  | cmSleepClosed _ i k lg hi hc =>
    clear h4
    have l0 := le_tot srW _ _ _ hi
    have l1 := le_tot lgW _ _ _ hi
    have l2 := le_tot clAllW _ _ _ hi
    have l3 := le_tot clPreW _ _ _ hi
    cases lg <;> (try simp only [St.setDone, St.setBg]) <;> (repeat' split) <;> simp_all [tot_set_eq _ _ _ _ _ hi, tot_ackWs_srw', tot_ackWs_lgw, tot_ackWs_clall, tot_ackWs_clpre, b2n_true, b2n_false, clearW_idle, clearW_exited, clearW_eq_exited, srW, lgW, clAllW, clPreW, St.bg, onOk, onErr, selNext, afterSetErr, srAllW] <;> (try omega)
  | cmFail3 _ i lg hi =>
    clear h4
    have l0 := le_tot srW _ _ _ hi
    have l1 := le_tot lgW _ _ _ hi
    have l2 := le_tot clAllW _ _ _ hi
    have l3 := le_tot clPreW _ _ _ hi
    cases lg <;> (try simp only [St.setDone, St.setBg]) <;> (repeat' split) <;> simp_all [tot_set_eq _ _ _ _ _ hi, tot_ackWs_srw', tot_ackWs_lgw, tot_ackWs_clall, tot_ackWs_clpre, b2n_true, b2n_false, clearW_idle, clearW_exited, clearW_eq_exited, srW, lgW, clAllW, clPreW, St.bg, onOk, onErr, selNext, afterSetErr, srAllW] <;> (try omega)
  | cmAfterOk _ i lg hi =>
    clear h4
    have l0 := le_tot srW _ _ _ hi
    have l1 := le_tot lgW _ _ _ hi
    have l2 := le_tot clAllW _ _ _ hi
    have l3 := le_tot clPreW _ _ _ hi
    cases lg <;> (try simp only [St.setDone, St.setBg]) <;> (repeat' split) <;> simp_all [tot_set_eq _ _ _ _ _ hi, tot_ackWs_srw', tot_ackWs_lgw, tot_ackWs_clall, tot_ackWs_clpre, b2n_true, b2n_false, clearW_idle, clearW_exited, clearW_eq_exited, srW, lgW, clAllW, clPreW, St.bg, onOk, onErr, selNext, afterSetErr, srAllW] <;> (try omega)
  | cmNoWaitComp _ i lg hi =>
    clear h4
    have l0 := le_tot srW _ _ _ hi
    have l1 := le_tot lgW _ _ _ hi
    have l2 := le_tot clAllW _ _ _ hi
    have l3 := le_tot clPreW _ _ _ hi
    cases lg <;> (try simp only [St.setDone, St.setBg]) <;> (repeat' split) <;> simp_all [tot_set_eq _ _ _ _ _ hi, tot_ackWs_srw', tot_ackWs_lgw, tot_ackWs_clall, tot_ackWs_clpre, b2n_true, b2n_false, clearW_idle, clearW_exited, clearW_eq_exited, srW, lgW, clAllW, clPreW, St.bg, onOk, onErr, selNext, afterSetErr, srAllW] <;> (try omega)
  | cmWaitComp _ i lg hi =>
    clear h4
    have l0 := le_tot srW _ _ _ hi
    have l1 := le_tot lgW _ _ _ hi
    have l2 := le_tot clAllW _ _ _ hi
    have l3 := le_tot clPreW _ _ _ hi
    cases lg <;> (try simp only [St.setDone, St.setBg]) <;> (repeat' split) <;> simp_all [tot_set_eq _ _ _ _ _ hi, tot_ackWs_srw', tot_ackWs_lgw, tot_ackWs_clall, tot_ackWs_clpre, b2n_true, b2n_false, clearW_idle, clearW_exited, clearW_eq_exited, srW, lgW, clAllW, clPreW, St.bg, onOk, onErr, selNext, afterSetErr, srAllW] <;> (try omega)
  | cmDone _ i lg hi =>
    clear h4
    have l0 := le_tot srW _ _ _ hi
    have l1 := le_tot lgW _ _ _ hi
    have l2 := le_tot clAllW _ _ _ hi
    have l3 := le_tot clPreW _ _ _ hi
    cases lg <;> (try simp only [St.setDone, St.setBg]) <;> (repeat' split) <;> simp_all [tot_set_eq _ _ _ _ _ hi, tot_ackWs_srw', tot_ackWs_lgw, tot_ackWs_clall, tot_ackWs_clpre, b2n_true, b2n_false, clearW_idle, clearW_exited, clearW_eq_exited, srW, lgW, clAllW, clPreW, St.bg, onOk, onErr, selNext, afterSetErr, srAllW] <;> (try omega)
  | cmRet _ i ok lg hi =>
    clear h4
    have l0 := le_tot srW _ _ _ hi
    have l1 := le_tot lgW _ _ _ hi
    have l2 := le_tot clAllW _ _ _ hi
    have l3 := le_tot clPreW _ _ _ hi
    cases ok <;> cases lg <;> (try simp only [St.setDone, St.setBg]) <;> (repeat' split) <;> simp_all [tot_set_eq _ _ _ _ _ hi, tot_ackWs_srw', tot_ackWs_lgw, tot_ackWs_clall, tot_ackWs_clpre, b2n_true, b2n_false, clearW_idle, clearW_exited, clearW_eq_exited, srW, lgW, clAllW, clPreW, St.bg, onOk, onErr, selNext, afterSetErr, srAllW] <;> (try omega)
  | dcLockTr _ i lg hi hl =>
    clear h4
    have l0 := le_tot srW _ _ _ hi
    have l1 := le_tot lgW _ _ _ hi
    have l2 := le_tot clAllW _ _ _ hi
    have l3 := le_tot clPreW _ _ _ hi
    cases lg <;> (try simp only [St.setDone, St.setBg]) <;> (repeat' split) <;> simp_all [tot_set_eq _ _ _ _ _ hi, tot_ackWs_srw', tot_ackWs_lgw, tot_ackWs_clall, tot_ackWs_clpre, b2n_true, b2n_false, clearW_idle, clearW_exited, clearW_eq_exited, srW, lgW, clAllW, clPreW, St.bg, onOk, onErr, selNext, afterSetErr, srAllW] <;> (try omega)
  | dcBody _ i lg hi =>
    clear h4
    have l0 := le_tot srW _ _ _ hi
    have l1 := le_tot lgW _ _ _ hi
    have l2 := le_tot clAllW _ _ _ hi
    have l3 := le_tot clPreW _ _ _ hi
    cases lg <;> (try simp only [St.setDone, St.setBg]) <;> (repeat' split) <;> simp_all [tot_set_eq _ _ _ _ _ hi, tot_ackWs_srw', tot_ackWs_lgw, tot_ackWs_clall, tot_ackWs_clpre, b2n_true, b2n_false, clearW_idle, clearW_exited, clearW_eq_exited, srW, lgW, clAllW, clPreW, St.bg, onOk, onErr, selNext, afterSetErr, srAllW] <;> (try omega)
  | crNoOverlap _ i hi =>
    clear h4
    have l0 := le_tot srW _ _ _ hi
    have l1 := le_tot lgW _ _ _ hi
    have l2 := le_tot clAllW _ _ _ hi
    have l3 := le_tot clPreW _ _ _ hi
    (try simp only [St.setDone, St.setBg]) <;> (repeat' split) <;> simp_all [tot_set_eq _ _ _ _ _ hi, tot_ackWs_srw', tot_ackWs_lgw, tot_ackWs_clall, tot_ackWs_clpre, b2n_true, b2n_false, clearW_idle, clearW_exited, clearW_eq_exited, srW, lgW, clAllW, clPreW, St.bg, onOk, onErr, selNext, afterSetErr, srAllW] <;> (try omega)
  | crOverlap _ i hi =>
    clear h4
    have l0 := le_tot srW _ _ _ hi
    have l1 := le_tot lgW _ _ _ hi
    have l2 := le_tot clAllW _ _ _ hi
    have l3 := le_tot clPreW _ _ _ hi
    (try simp only [St.setDone, St.setBg]) <;> (repeat' split) <;> simp_all [tot_set_eq _ _ _ _ _ hi, tot_ackWs_srw', tot_ackWs_lgw, tot_ackWs_clall, tot_ackWs_clpre, b2n_true, b2n_false, clearW_idle, clearW_exited, clearW_eq_exited, srW, lgW, clAllW, clPreW, St.bg, onOk, onErr, selNext, afterSetErr, srAllW] <;> (try omega)
  | crNewMemOk _ i hi =>
    clear h4
    have l0 := le_tot srW _ _ _ hi
    have l1 := le_tot lgW _ _ _ hi
    have l2 := le_tot clAllW _ _ _ hi
    have l3 := le_tot clPreW _ _ _ hi
    (try simp only [St.setDone, St.setBg]) <;> (repeat' split) <;> simp_all [tot_set_eq _ _ _ _ _ hi, tot_ackWs_srw', tot_ackWs_lgw, tot_ackWs_clall, tot_ackWs_clpre, b2n_true, b2n_false, clearW_idle, clearW_exited, clearW_eq_exited, srW, lgW, clAllW, clPreW, St.bg, onOk, onErr, selNext, afterSetErr, srAllW] <;> (try omega)
  | crNewMemFail _ i hi =>
    clear h4
    have l0 := le_tot srW _ _ _ hi
    have l1 := le_tot lgW _ _ _ hi
    have l2 := le_tot clAllW _ _ _ hi
    have l3 := le_tot clPreW _ _ _ hi
    (try simp only [St.setDone, St.setBg]) <;> (repeat' split) <;> simp_all [tot_set_eq _ _ _ _ _ hi, tot_ackWs_srw', tot_ackWs_lgw, tot_ackWs_clall, tot_ackWs_clpre, b2n_true, b2n_false, clearW_idle, clearW_exited, clearW_eq_exited, srW, lgW, clAllW, clPreW, St.bg, onOk, onErr, selNext, afterSetErr, srAllW] <;> (try omega)
  | crRelM _ i hi =>
    clear h4
    have l0 := le_tot srW _ _ _ hi
    have l1 := le_tot lgW _ _ _ hi
    have l2 := le_tot clAllW _ _ _ hi
    have l3 := le_tot clPreW _ _ _ hi
    (try simp only [St.setDone, St.setBg]) <;> (repeat' split) <;> simp_all [tot_set_eq _ _ _ _ _ hi, tot_ackWs_srw', tot_ackWs_lgw, tot_ackWs_clall, tot_ackWs_clpre, b2n_true, b2n_false, clearW_idle, clearW_exited, clearW_eq_exited, srW, lgW, clAllW, clPreW, St.bg, onOk, onErr, selNext, afterSetErr, srAllW] <;> (try omega)
  | crRelOk _ i hi =>
    clear h4
    have l0 := le_tot srW _ _ _ hi
    have l1 := le_tot lgW _ _ _ hi
    have l2 := le_tot clAllW _ _ _ hi
    have l3 := le_tot clPreW _ _ _ hi
    (try simp only [St.setDone, St.setBg]) <;> (repeat' split) <;> simp_all [tot_set_eq _ _ _ _ _ hi, tot_ackWs_srw', tot_ackWs_lgw, tot_ackWs_clall, tot_ackWs_clpre, b2n_true, b2n_false, clearW_idle, clearW_exited, clearW_eq_exited, srW, lgW, clAllW, clPreW, St.bg, onOk, onErr, selNext, afterSetErr, srAllW] <;> (try omega)
  | crRelFail _ i hi =>
    clear h4
    have l0 := le_tot srW _ _ _ hi
    have l1 := le_tot lgW _ _ _ hi
    have l2 := le_tot clAllW _ _ _ hi
    have l3 := le_tot clPreW _ _ _ hi
    (try simp only [St.setDone, St.setBg]) <;> (repeat' split) <;> simp_all [tot_set_eq _ _ _ _ _ hi, tot_ackWs_srw', tot_ackWs_lgw, tot_ackWs_clall, tot_ackWs_clpre, b2n_true, b2n_false, clearW_idle, clearW_exited, clearW_eq_exited, srW, lgW, clAllW, clPreW, St.bg, onOk, onErr, selNext, afterSetErr, srAllW] <;> (try omega)
  | srSend _ i hi he =>
    clear h4
    have l0 := le_tot srW _ _ _ hi
    have l1 := le_tot lgW _ _ _ hi
    have l2 := le_tot clAllW _ _ _ hi
    have l3 := le_tot clPreW _ _ _ hi
    rcases he with he | he <;> (try simp only [St.setDone, St.setBg]) <;> (repeat' split) <;> simp_all [tot_set_eq _ _ _ _ _ hi, tot_ackWs_srw', tot_ackWs_lgw, tot_ackWs_clall, tot_ackWs_clpre, b2n_true, b2n_false, clearW_idle, clearW_exited, clearW_eq_exited, srW, lgW, clAllW, clPreW, St.bg, onOk, onErr, selNext, afterSetErr, srAllW] <;> (try omega)
  | srPerErr _ i hi he =>
    clear h4
    have l0 := le_tot srW _ _ _ hi
    have l1 := le_tot lgW _ _ _ hi
    have l2 := le_tot clAllW _ _ _ hi
    have l3 := le_tot clPreW _ _ _ hi
    (try simp only [St.setDone, St.setBg]) <;> (repeat' split) <;> simp_all [tot_set_eq _ _ _ _ _ hi, tot_ackWs_srw', tot_ackWs_lgw, tot_ackWs_clall, tot_ackWs_clpre, b2n_true, b2n_false, clearW_idle, clearW_exited, clearW_eq_exited, srW, lgW, clAllW, clPreW, St.bg, onOk, onErr, selNext, afterSetErr, srAllW] <;> (try omega)
  | srClosed _ i hi hc =>
    have l0 := le_tot srW _ _ _ hi
    have l1 := le_tot lgW _ _ _ hi
    have l2 := le_tot clAllW _ _ _ hi
    have l3 := le_tot clPreW _ _ _ hi
    have ls := le_tot srAllW _ _ _ hi
    rcases h4 with h4 | ⟨_, h4⟩ <;> (try simp only [St.setDone, St.setBg]) <;> (repeat' split) <;> simp_all [tot_set_eq _ _ _ _ _ hi, tot_ackWs_srw', tot_ackWs_lgw, tot_ackWs_clall, tot_ackWs_clpre, b2n_true, b2n_false, clearW_idle, clearW_exited, clearW_eq_exited, srW, lgW, clAllW, clPreW, St.bg, onOk, onErr, selNext, afterSetErr, srAllW] <;> (try omega)
  | clCheckTr _ i hi =>
    clear h4
    have l0 := le_tot srW _ _ _ hi
    have l1 := le_tot lgW _ _ _ hi
    have l2 := le_tot clAllW _ _ _ hi
    have l3 := le_tot clPreW _ _ _ hi
    (try simp only [St.setDone, St.setBg]) <;> (repeat' split) <;> simp_all [tot_set_eq _ _ _ _ _ hi, tot_ackWs_srw', tot_ackWs_lgw, tot_ackWs_clall, tot_ackWs_clpre, b2n_true, b2n_false, clearW_idle, clearW_exited, clearW_eq_exited, srW, lgW, clAllW, clPreW, St.bg, onOk, onErr, selNext, afterSetErr, srAllW] <;> (try omega)
  | clLockTr _ i hi hl =>
    clear h4
    have l0 := le_tot srW _ _ _ hi
    have l1 := le_tot lgW _ _ _ hi
    have l2 := le_tot clAllW _ _ _ hi
    have l3 := le_tot clPreW _ _ _ hi
    (try simp only [St.setDone, St.setBg]) <;> (repeat' split) <;> simp_all [tot_set_eq _ _ _ _ _ hi, tot_ackWs_srw', tot_ackWs_lgw, tot_ackWs_clall, tot_ackWs_clpre, b2n_true, b2n_false, clearW_idle, clearW_exited, clearW_eq_exited, srW, lgW, clAllW, clPreW, St.bg, onOk, onErr, selNext, afterSetErr, srAllW] <;> (try omega)
  | clBody _ i hi =>
    clear h4
    have l0 := le_tot srW _ _ _ hi
    have l1 := le_tot lgW _ _ _ hi
    have l2 := le_tot clAllW _ _ _ hi
    have l3 := le_tot clPreW _ _ _ hi
    (try simp only [St.setDone, St.setBg]) <;> (repeat' split) <;> simp_all [tot_set_eq _ _ _ _ _ hi, tot_ackWs_srw', tot_ackWs_lgw, tot_ackWs_clall, tot_ackWs_clpre, b2n_true, b2n_false, clearW_idle, clearW_exited, clearW_eq_exited, srW, lgW, clAllW, clPreW, St.bg, onOk, onErr, selNext, afterSetErr, srAllW] <;> (try omega)
  | clAcq _ i hi ht =>
    clear h4
    have l0 := le_tot srW _ _ _ hi
    have l1 := le_tot lgW _ _ _ hi
    have l2 := le_tot clAllW _ _ _ hi
    have l3 := le_tot clPreW _ _ _ hi
    (try simp only [St.setDone, St.setBg]) <;> (repeat' split) <;> simp_all [tot_set_eq _ _ _ _ _ hi, tot_ackWs_srw', tot_ackWs_lgw, tot_ackWs_clall, tot_ackWs_clpre, b2n_true, b2n_false, clearW_idle, clearW_exited, clearW_eq_exited, srW, lgW, clAllW, clPreW, St.bg, onOk, onErr, selNext, afterSetErr, srAllW] <;> (try omega)
  | clWait _ i hi hm ht =>
    clear h4
    have l0 := le_tot srW _ _ _ hi
    have l1 := le_tot lgW _ _ _ hi
    have l2 := le_tot clAllW _ _ _ hi
    have l3 := le_tot clPreW _ _ _ hi
    (try simp only [St.setDone, St.setBg]) <;> (repeat' split) <;> simp_all [tot_set_eq _ _ _ _ _ hi, tot_ackWs_srw', tot_ackWs_lgw, tot_ackWs_clall, tot_ackWs_clpre, b2n_true, b2n_false, clearW_idle, clearW_exited, clearW_eq_exited, srW, lgW, clAllW, clPreW, St.bg, onOk, onErr, selNext, afterSetErr, srAllW] <;> (try omega)
  | ehAcquire _ he ht hn =>
    clear h4
    (try simp only [St.setDone, St.setBg]) <;> (repeat' split) <;> simp_all [tot_ackWs_srw', tot_ackWs_lgw, tot_ackWs_clall, tot_ackWs_clpre, b2n_true, b2n_false, clearW_idle, clearW_exited, clearW_eq_exited, srW, lgW, clAllW, clPreW, St.bg, onOk, onErr, selNext, afterSetErr, srAllW] <;> (try omega)
  | ehExit _ he hc =>
    clear h4
    cases he' : s.eh <;> (try simp only [St.setDone, St.setBg]) <;> (repeat' split) <;> simp_all [tot_ackWs_srw', tot_ackWs_lgw, tot_ackWs_clall, tot_ackWs_clpre, b2n_true, b2n_false, clearW_idle, clearW_exited, clearW_eq_exited, srW, lgW, clAllW, clPreW, St.bg, onOk, onErr, selNext, afterSetErr, srAllW] <;> (try omega)
  | bgExitIdle _ b hb hc =>
    clear h4
    cases b <;> (try simp only [St.setDone, St.setBg]) <;> (repeat' split) <;> simp_all [tot_ackWs_srw', tot_ackWs_lgw, tot_ackWs_clall, tot_ackWs_clpre, b2n_true, b2n_false, clearW_idle, clearW_exited, clearW_eq_exited, srW, lgW, clAllW, clPreW, St.bg, onOk, onErr, selNext, afterSetErr, srAllW] <;> (try omega)
  | bgWorkOk _ b w hb =>
    clear h4
    cases b <;> (try simp only [St.setDone, St.setBg]) <;> (repeat' split) <;> simp_all [tot_ackWs_srw', tot_ackWs_lgw, tot_ackWs_clall, tot_ackWs_clpre, b2n_true, b2n_false, clearW_idle, clearW_exited, clearW_eq_exited, srW, lgW, clAllW, clPreW, St.bg, onOk, onErr, selNext, afterSetErr, srAllW] <;> (try omega)
  | bgWorkFail _ b w hb =>
    clear h4
    cases b <;> (try simp only [St.setDone, St.setBg]) <;> (repeat' split) <;> simp_all [tot_ackWs_srw', tot_ackWs_lgw, tot_ackWs_clall, tot_ackWs_clpre, b2n_true, b2n_false, clearW_idle, clearW_exited, clearW_eq_exited, srW, lgW, clAllW, clPreW, St.bg, onOk, onErr, selNext, afterSetErr, srAllW] <;> (try omega)
  | bgCommitOk _ b w hb =>
    clear h4
    cases b <;> (try simp only [St.setDone, St.setBg]) <;> (repeat' split) <;> simp_all [tot_ackWs_srw', tot_ackWs_lgw, tot_ackWs_clall, tot_ackWs_clpre, b2n_true, b2n_false, clearW_idle, clearW_exited, clearW_eq_exited, srW, lgW, clAllW, clPreW, St.bg, onOk, onErr, selNext, afterSetErr, srAllW] <;> (try omega)
  | bgCommitFail _ b w hb =>
    clear h4
    cases b <;> (try simp only [St.setDone, St.setBg]) <;> (repeat' split) <;> simp_all [tot_ackWs_srw', tot_ackWs_lgw, tot_ackWs_clall, tot_ackWs_clpre, b2n_true, b2n_false, clearW_idle, clearW_exited, clearW_eq_exited, srW, lgW, clAllW, clPreW, St.bg, onOk, onErr, selNext, afterSetErr, srAllW] <;> (try omega)
  | bgSetErr _ b w ok c hb he =>
    clear h4
    rcases he with he | he <;> cases b <;> cases ok <;> cases c <;> (try simp only [St.setDone, St.setBg]) <;> (repeat' split) <;> simp_all [tot_ackWs_srw', tot_ackWs_lgw, tot_ackWs_clall, tot_ackWs_clpre, b2n_true, b2n_false, clearW_idle, clearW_exited, clearW_eq_exited, srW, lgW, clAllW, clPreW, St.bg, onOk, onErr, selNext, afterSetErr, srAllW] <;> (try omega)
  | bgSetErrPer _ b w c hb he =>
    clear h4
    cases b <;> cases c <;> (try simp only [St.setDone, St.setBg]) <;> (repeat' split) <;> simp_all [tot_ackWs_srw', tot_ackWs_lgw, tot_ackWs_clall, tot_ackWs_clpre, b2n_true, b2n_false, clearW_idle, clearW_exited, clearW_eq_exited, srW, lgW, clAllW, clPreW, St.bg, onOk, onErr, selNext, afterSetErr, srAllW] <;> (try omega)
  | bgBackoff _ b w c hb =>
    clear h4
    cases b <;> cases c <;> (try simp only [St.setDone, St.setBg]) <;> (repeat' split) <;> simp_all [tot_ackWs_srw', tot_ackWs_lgw, tot_ackWs_clall, tot_ackWs_clpre, b2n_true, b2n_false, clearW_idle, clearW_exited, clearW_eq_exited, srW, lgW, clAllW, clPreW, St.bg, onOk, onErr, selNext, afterSetErr, srAllW] <;> (try omega)
  | bgLockClk _ b w hb hl =>
    clear h4
    cases b <;> (try simp only [St.setDone, St.setBg]) <;> (repeat' split) <;> simp_all [tot_ackWs_srw', tot_ackWs_lgw, tot_ackWs_clall, tot_ackWs_clpre, b2n_true, b2n_false, clearW_idle, clearW_exited, clearW_eq_exited, srW, lgW, clAllW, clPreW, St.bg, onOk, onErr, selNext, afterSetErr, srAllW] <;> (try omega)
  | bgAck _ b w hb =>
    clear h4
    cases b <;> (try simp only [St.setDone, St.setBg]) <;> (repeat' split) <;> simp_all [tot_ackWs_srw', tot_ackWs_lgw, tot_ackWs_clall, tot_ackWs_clpre, b2n_true, b2n_false, clearW_idle, clearW_exited, clearW_eq_exited, srW, lgW, clAllW, clPreW, St.bg, onOk, onErr, selNext, afterSetErr, srAllW] <;> (try omega)
  | bgExit _ b w ph hb hx =>
    clear h4
    cases b <;> cases ph <;> (try simp only [St.setDone, St.setBg]) <;> (repeat' split) <;> simp_all [tot_ackWs_srw', tot_ackWs_lgw, tot_ackWs_clall, tot_ackWs_clpre, b2n_true, b2n_false, clearW_idle, clearW_exited, clearW_eq_exited, srW, lgW, clAllW, clPreW, St.bg, onOk, onErr, selNext, afterSetErr, srAllW] <;> (try omega) <;> (try (rcases hx with hx | hx <;> simp_all))

end GoLevel.Locks
