import GoLevel.Model.Key
import GoLevel.Proofs.Block
/-! `bytes.Compare` is a lawful comparer (local copy for the C13 non-vacuity examples). -/
namespace GoLevel.C13
open GoLevel

theorem bytesCompare_refl : ∀ a, bytesCompare a a = .eq := by
  intro a
  induction a with
  | nil => rfl
  | cons x xs ih => simp [bytesCompare, ih]

theorem bytesCompare_eq_of : ∀ a b, bytesCompare a b = .eq → a = b := by
  intro a
  induction a with
  | nil => intro b h; cases b <;> simp [bytesCompare] at h ⊢
  | cons x xs ih =>
    intro b h
    cases b with
    | nil => simp [bytesCompare] at h
    | cons y ys =>
      simp only [bytesCompare] at h
      split at h
      · simp at h
      · split at h
        · simp at h
        · rename_i h1 h2
          have : x = y := by
            apply UInt8.toNat_inj.mp
            rw [UInt8.lt_iff_toNat_lt] at h1 h2
            omega
          rw [this, ih ys h]

theorem bytesCompare_gt_iff : ∀ a b, bytesCompare a b = .gt ↔ bytesCompare b a = .lt := by
  intro a
  induction a with
  | nil => intro b; cases b <;> simp [bytesCompare]
  | cons x xs ih =>
    intro b
    cases b with
    | nil => simp [bytesCompare]
    | cons y ys =>
      simp only [bytesCompare]
      by_cases h1 : x < y
      · have h2 : ¬ y < x := by rw [UInt8.lt_iff_toNat_lt] at *; omega
        simp [h1, h2]
      · by_cases h2 : y < x
        · simp [h1, h2]
        · simp [h1, h2, ih ys]

theorem bytesCompare_trans : ∀ a b d, bytesCompare a b = .lt → bytesCompare b d = .lt → bytesCompare a d = .lt := by
  intro a
  induction a with
  | nil =>
    intro b d h1 h2
    cases b with
    | nil => simp [bytesCompare] at h1
    | cons y ys =>
      cases d with
      | nil => simp [bytesCompare] at h2
      | cons z zs => simp [bytesCompare]
  | cons x xs ih =>
    intro b d h1 h2
    cases b with
    | nil => simp [bytesCompare] at h1
    | cons y ys =>
      cases d with
      | nil => simp [bytesCompare] at h2
      | cons z zs =>
        simp only [bytesCompare] at h1 h2 ⊢
        by_cases hxy : x < y
        · by_cases hyz : y < z
          · have : x < z := by rw [UInt8.lt_iff_toNat_lt] at *; omega
            simp [this]
          · by_cases hzy : z < y
            · simp [hyz, hzy] at h2
            · have : y = z := by
                apply UInt8.toNat_inj.mp
                rw [UInt8.lt_iff_toNat_lt] at hyz hzy
                omega
              subst this
              simp [hxy]
        · by_cases hyx : y < x
          · simp [hxy, hyx] at h1
          · have : x = y := by
              apply UInt8.toNat_inj.mp
              rw [UInt8.lt_iff_toNat_lt] at hxy hyx
              omega
            subst this
            simp only [hxy, if_false] at h1
            by_cases hxz : x < z
            · simp [hxz]
            · by_cases hzx : z < x
              · simp [hxz, hzx] at h2
              · simp only [hxz, hzx, if_false] at h2 ⊢
                exact ih ys zs h1 h2

theorem bytesCompare_lawful : LawfulCmp bytesCompare :=
  ⟨bytesCompare_refl, bytesCompare_eq_of, bytesCompare_gt_iff, bytesCompare_trans⟩

end GoLevel.C13
