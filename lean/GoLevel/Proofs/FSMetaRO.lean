import GoLevel.Model.FSMeta
/-! A read-only `GetMeta` does not touch the file system — for every directory, every oracle (faults, death). -/
namespace GoLevel.FSMeta

theorem sys_fs_id {α : Type} (l : Lbl) (eff : FS → Except Err α × FS) (h : ∀ fs, (eff fs).2 = fs) (w : W) :
    (sys l eff id w).2.fs = w.fs := by
  unfold sys
  split
  · rfl
  · unfold sysF
    split <;> simp [h]

theorem readFile_fs (n : Name) (l : Lbl) (w : W) : (readFile n l w).2.fs = w.fs := sys_fs_id _ _ (fun _ => rfl) w
theorem statFile_fs (fd : FD) (w : W) : (statFile fd w).2.fs = w.fs := sys_fs_id _ _ (fun _ => rfl) w
theorem readDir_fs (w : W) : (readDir w).2.fs = w.fs := sys_fs_id _ _ (fun _ => rfl) w

theorem tryCurrent_fs (n : Name) (w : W) : (tryCurrent n w).2.fs = w.fs := by
  unfold tryCurrent
  have h1 := readFile_fs n .tryRead w
  generalize readFile n .tryRead w = x at h1 ⊢
  obtain ⟨r, w1⟩ := x
  cases r with
  | error e => exact h1
  | ok b =>
    simp only
    cases hb : b.parse with
    | none => exact h1
    | some fd =>
      simp only
      have h2 := statFile_fs fd w1
      generalize statFile fd w1 = y at h2 ⊢
      obtain ⟨r2, w2⟩ := y
      cases r2 <;> exact h2.trans h1

theorem tryCurrents_fs (ns : List Name) (lc : Bool) (w : W) : (tryCurrents ns lc w).2.fs = w.fs := by
  induction ns generalizing lc w with
  | nil => rfl
  | cons n rest ih =>
    unfold tryCurrents
    have h1 := tryCurrent_fs n w
    generalize tryCurrent n w = x at h1 ⊢
    obtain ⟨r, w1⟩ := x
    cases r with
    | ok fd => exact h1
    | error e =>
      cases e with
      | notExist => exact (ih lc w1).trans h1
      | corrupted => exact (ih true w1).trans h1
      | io => exact h1

/-- **read-only `GetMeta` is pure**: whatever the directory, whatever fails, the file system is untouched -/
theorem getMeta_ro_fs (cfg : Cfg) (w : W) : (getMeta cfg true w).2.fs = w.fs := by
  unfold getMeta
  have h1 := readDir_fs w
  generalize readDir w = x at h1 ⊢
  obtain ⟨r, w1⟩ := x
  cases r with
  | error e => exact h1
  | ok nums =>
    simp only
    have h2 : (if nums.isEmpty = true then ((Except.error Err.notExist : Except Err (Name × FD)), w1)
        else tryCurrents (nums.map .pend) false w1).2.fs = w1.fs := by
      split
      · rfl
      · exact tryCurrents_fs _ _ _
    generalize (if nums.isEmpty = true then ((Except.error Err.notExist : Except Err (Name × FD)), w1)
        else tryCurrents (nums.map .pend) false w1) = y at h2 ⊢
    obtain ⟨pend, w2⟩ := y
    have h12 : w2.fs = w.fs := h2.trans h1
    have fin : ∀ (pend cur : Except Err (Name × FD)) (w3 : W), w3.fs = w.fs →
        (match choose cfg pend cur with
          | some c => ((Except.ok c.2 : Except Err FD), repair cfg true nums c w3)
          | none =>
            match pend, cur with
            | .error .corrupted, _ => (.error .corrupted, w3)
            | _, .error e => (.error e, w3)
            | _, _ => (.error .io, w3)).2.fs = w.fs := by
      intro pend cur w3 h
      split
      · simpa [repair] using h
      · split <;> exact h
    have step3 : ∀ (pend : Except Err (Name × FD)),
        (match tryCurrents [.cur, .bak] false w2 with
          | (.error .io, w) => ((Except.error Err.io : Except Err FD), w)
          | (cur, w) =>
            match choose cfg pend cur with
            | some c => (.ok c.2, repair cfg true nums c w)
            | none =>
              match pend, cur with
              | .error .corrupted, _ => (.error .corrupted, w)
              | _, .error e => (.error e, w)
              | _, _ => (.error .io, w)).2.fs = w.fs := by
      intro pend
      have h3 := tryCurrents_fs [.cur, .bak] false w2
      generalize tryCurrents [.cur, .bak] false w2 = z at h3 ⊢
      obtain ⟨cur, w3⟩ := z
      have h123 : w3.fs = w.fs := h3.trans h12
      rcases cur with (_ | _ | _) | c
      · exact fin pend _ w3 h123
      · exact fin pend _ w3 h123
      · exact h123
      · exact fin pend _ w3 h123
    rcases pend with (_ | _ | _) | pd
    · exact step3 _
    · exact step3 _
    · exact h12
    · exact step3 _

end GoLevel.FSMeta
