import GoLevel.Proofs.MemArrPut
/-! `Put` of a new key over the arrays re-establishes the representation relation (C14). -/
set_option linter.unusedSectionVars false
set_option linter.unusedSimpArgs false
set_option linter.unusedVariables false
namespace GoLevel.MemArr
open GoLevel.Gen (nKV nKey nVal nHeight nNext tMaxHeight)
open GoLevel.MemDB (Node LawfulCmp Sorted pred below ins)

variable {cmp : Cmp} {a : DB} {d : MemDB.DB} {ix : Bytes → Nat}

/-- the ideal table after `Put` of a key that is not present (`MemDB.put_new`) -/
def putNew (cmp : Cmp) (d : MemDB.DB) (key v : Bytes) (h : Nat) : MemDB.DB :=
  { levels := MemDB.linkIdeal cmp key h d.levels
    kv := (key, v) :: d.kv.filter (·.1 != key)
    n := d.n + 1
    kvSize := d.kvSize + key.length + v.length
    used := d.used + key.length + v.length }

/-- level `i` of a list of levels, empty above its height -/
def lv (L : List (List Bytes)) (i : Nat) : List Bytes := L[i]?.getD []

theorem lv_lt {L : List (List Bytes)} {i : Nat} (hi : i < L.length) : lv L i = L[i] := by simp [lv, hi]
theorem lv_ge {L : List (List Bytes)} {i : Nat} (hi : L.length ≤ i) : lv L i = [] := by simp [lv, hi]

theorem lv_linkIdeal (key : Bytes) (h : Nat) (L : List (List Bytes)) (i : Nat) :
    lv (MemDB.linkIdeal cmp key h L) i = if i < h then ins cmp key (lv L i) else lv L i := by
  unfold lv
  rw [linkIdeal_getElem?]
  by_cases hi : i < h <;> simp [hi]

theorem mem_lv {L : List (List Bytes)} {i : Nat} {k : Bytes} (hk : k ∈ lv L i) :
    ∃ hi : i < L.length, k ∈ L[i] := by
  by_cases hi : i < L.length
  · exact ⟨hi, by rwa [lv_lt hi] at hk⟩
  · rw [lv_ge (by omega)] at hk; exact absurd hk (by simp)

theorem pth_eq_lv (d : MemDB.DB) (key : Bytes) (i : Nat) :
    pth cmp d key i = ((lv d.levels i).takeWhile (below cmp key)).getLast? := by
  unfold pth lv
  rw [List.getElem?_map]
  cases d.levels[i]? with
  | none => simp
  | some l => rfl

/-- the old chains, uniformly for every level below `tMaxHeight` -/
theorem Rep.chain_lv (r : Rep cmp a d ix) {i : Nat} (hi : i < tMaxHeight) :
    Chain a.nodeData ix i 0 0 (lv d.levels i) := by
  by_cases hl : i < d.levels.length
  · rw [lv_lt hl]; exact r.chain i hl
  · rw [lv_ge (by omega)]
    show a.nodeData[0 + nNext + i]? = some 0
    rw [Nat.zero_add]; exact r.top i (by omega) hi

theorem Rep.nodup_lv (hc : LawfulCmp cmp) (r : Rep cmp a d ix) (i : Nat) :
    (0 :: (lv d.levels i).map ix).Nodup := by
  by_cases hl : i < d.levels.length
  · rw [lv_lt hl]; exact r.level_nodup hc hl
  · rw [lv_ge (by omega)]; simp

theorem Rep.owner_lv (r : Rep cmp a d ix) {i : Nat} {k : Bytes} (hk : k ∈ lv d.levels i) :
    Owner d ix (ix k) (d.height k) ∧ i < d.height k ∧ k ∈ d.level0 := by
  obtain ⟨hi, hk'⟩ := mem_lv hk
  exact ⟨.inr ⟨k, r.level_sub0 hi k hk', rfl, rfl⟩, r.lt_height hi hk', r.level_sub0 hi k hk'⟩

theorem key_not_lv (hc : LawfulCmp cmp) (r : Rep cmp a d ix) {key : Bytes} (hk : key ∉ d.level0) (i : Nat) :
    key ∉ lv d.levels i := by
  intro hm
  obtain ⟨hi, hm'⟩ := mem_lv hm
  exact MemDB.key_not_in_levels hc r.inv hk _ (List.getElem_mem hi) hm'

section
variable (hc : LawfulCmp cmp) (r : Rep cmp a d ix) {key : Bytes} (hk : key ∉ d.level0) (v : Bytes) {h : Nat}
  (h1 : 1 ≤ h) (h2 : h ≤ tMaxHeight)
include hc r hk h1 h2

theorem putNew_inv : MemDB.Inv cmp (putNew cmp d key v h) := by
  have := MemDB.put_inv hc r.inv key v h1 h2
  rwa [MemDB.put_new hc r.inv hk] at this

theorem putNew_length : (putNew cmp d key v h).levels.length = max h d.levels.length :=
  MemDB.linkIdeal_length hc key h d.levels

theorem putNew_level0 (k : Bytes) : k ∈ (putNew cmp d key v h).level0 ↔ k = key ∨ k ∈ d.level0 := by
  show k ∈ (MemDB.linkIdeal cmp key h d.levels).headD [] ↔ _
  rw [MemDB.level0_put_new hc h1, MemDB.mem_ins hc]

/-- the other towers keep their height -/
theorem putNew_height_other {k : Bytes} (hk0 : k ∈ d.level0) :
    (putNew cmp d key v h).height k = d.height k := by
  have hne : k ≠ key := fun e => hk (e ▸ hk0)
  have hlen := putNew_length hc r hk v h1 h2
  apply height_unique (putNew_inv hc r hk v h1 h2).towersSub
  · have := height_le_length d k; rw [hlen]; omega
  · intro i hi
    rw [← lv_lt hi]
    show k ∈ lv (MemDB.linkIdeal cmp key h d.levels) i ↔ _
    rw [lv_linkIdeal]
    have hiff : k ∈ lv d.levels i ↔ i < d.height k := by
      constructor
      · intro hm; exact (r.owner_lv hm).2.1
      · intro hlt
        have hl : i < d.levels.length := by have := height_le_length d k; omega
        rw [lv_lt hl]; exact (mem_level_iff r k hl).2 hlt
    by_cases hih : i < h
    · simp only [hih, if_true, MemDB.mem_ins hc, hne, false_or]; exact hiff
    · simp only [hih, if_false]; exact hiff

/-- the new tower has the height drawn -/
theorem putNew_height_key : (putNew cmp d key v h).height key = h := by
  have hlen := putNew_length hc r hk v h1 h2
  apply height_unique (putNew_inv hc r hk v h1 h2).towersSub
  · rw [hlen]; omega
  · intro i hi
    rw [← lv_lt hi]
    show key ∈ lv (MemDB.linkIdeal cmp key h d.levels) i ↔ _
    rw [lv_linkIdeal]
    by_cases hih : i < h
    · simp only [hih, if_true, MemDB.mem_ins hc, true_or]
    · simp only [hih, if_false, iff_false]; exact key_not_lv hc r hk i

end

/-- the array state the insert branch produces represents the ideal table after the `Put` -/
theorem put_new_rep (hc : LawfulCmp cmp) (r : Rep cmp a d ix) {key : Bytes} (hk : key ∉ d.level0) (v : Bytes)
    {h : Nat} (h1 : 1 ≤ h) (h2 : h ≤ tMaxHeight) {nd' : Array Nat} (pn2 : List Nat)
    (hpn : pn2.length = tMaxHeight) (I : Inserted cmp a d ix key v h nd') :
    Rep cmp { kvData := a.kvData ++ key.toArray ++ v.toArray, nodeData := nd', prevNode := pn2,
              maxHeight := if h > a.maxHeight then h else a.maxHeight, n := a.n + 1,
              kvSize := a.kvSize + (key.length + v.length), gen := a.gen }
      (putNew cmp d key v h) (fun k => if k = key then a.nodeData.size else ix k) := by
  have e4 := nNext_eq
  have e2 := nVal_eq
  have e1 := nKey_eq
  have e3 := nHeight_eq
  have hinv' := putNew_inv hc r hk v h1 h2
  have hlen := putNew_length hc r hk v h1 h2
  have hsz : nNext + tMaxHeight ≤ a.nodeData.size := by have := r.fuel; omega
  have hLle := r.inv.height
  -- a slot that is not on the search path keeps its content
  have same_slot : ∀ {z H i}, Owner d ix z H → i < H → (i < h → z ≠ nix ix (pth cmp d key i)) →
      nd'[z + nNext + i]? = a.nodeData[z + nNext + i]? := by
    intro z H i o hi hne
    refine I.same _ (r.owner_lt o hi) ?_
    intro j hj e
    obtain ⟨H', o', hH'⟩ := r.pth_owner (cmp := cmp) key (i := j) (by omega)
    obtain ⟨ez, eij⟩ := r.slot_inj o o' hi hH' (by omega)
    subst eij
    exact hne hj ez
  -- the fields of the old nodes are untouched
  have same_field : ∀ {k}, k ∈ d.level0 → ∀ f, f < nNext → nd'[ix k + f]? = a.nodeData[ix k + f]? := by
    intro k hk0 f hf
    refine I.same _ (by have := (r.node k hk0).hi; omega) ?_
    intro j hj
    obtain ⟨H', o', hH'⟩ := r.pth_owner (cmp := cmp) key (i := j) (by omega)
    exact r.field_ne_slot hk0 hf o' hH'
  have ixo : ∀ {k}, k ≠ key → (if k = key then a.nodeData.size else ix k) = ix k := by
    intro k hne; simp [hne]
  refine
    { inv := hinv', mh := ?_, n := ?_, kvSize := ?_, used := ?_, pn := hpn, fuel := ?_, top := ?_, chain := ?_,
      node := ?_, sep := ?_ }
  · show (if h > a.maxHeight then h else a.maxHeight) = _
    rw [hlen, r.mh]
    by_cases hgt : h > d.levels.length <;> simp [hgt] <;> omega
  · show a.n + 1 = d.n + 1
    rw [r.n]
  · show a.kvSize + (key.length + v.length) = d.kvSize + key.length + v.length
    rw [r.kvSize]; omega
  · show (a.kvData ++ key.toArray ++ v.toArray).size = d.used + key.length + v.length
    simp [Array.size_append, r.used, Nat.add_assoc]
  · show ((MemDB.linkIdeal cmp key h d.levels).map List.length).sum + _ ≤ nd'.size
    rw [linkIdeal_sum hc, I.size]
    have := r.fuel; omega
  · intro h' hge hlt
    show nd'[nNext + h']? = some 0
    rw [hlen] at hge
    have := same_slot (z := 0) (i := h') (.inl ⟨rfl, rfl⟩) hlt (fun hh => by omega)
    rw [Nat.zero_add] at this
    rw [this]; exact r.top h' (by omega) hlt
  · intro i hi
    have hi' : i < max h d.levels.length := by rw [← hlen]; exact hi
    have hit : i < tMaxHeight := by omega
    rw [← lv_lt hi]
    show Chain nd' _ i 0 0 (lv (MemDB.linkIdeal cmp key h d.levels) i)
    rw [lv_linkIdeal]
    have hold := r.chain_lv hit
    by_cases hih : i < h
    · simp only [hih, if_true]
      unfold ins
      rw [← List.takeWhile_append_dropWhile (p := below cmp key) (l := lv d.levels i)] at hold
      have hp : ((List.takeWhile (below cmp key) (lv d.levels i)).map ix).getLastD 0 =
          nix ix (pth cmp d key i) := by rw [getLastD_map_nix, pth_eq_lv]
      have hmem : ∀ k, k ∈ List.takeWhile (below cmp key) (lv d.levels i) ++
          List.dropWhile (below cmp key) (lv d.levels i) → k ∈ lv d.levels i := by
        intro k hk'; rwa [List.takeWhile_append_dropWhile] at hk'
      refine chain_insert (node := a.nodeData.size) _ 0 hold ?_ (by simp) ?_ ?_ ?_ ?_
      · intro k hk'
        have : k ≠ key := fun e => key_not_lv hc r hk i (e ▸ hmem k hk')
        exact ixo this
      · rw [hp]; exact I.link i hih
      · rw [hp]; exact I.next i hih
      · intro z hz hne
        rw [hp] at hne
        simp only [List.mem_cons, List.mem_map] at hz
        rcases hz with rfl | ⟨k, hk', rfl⟩
        · exact same_slot (.inl ⟨rfl, rfl⟩) hit (fun _ => hne)
        · have ho := r.owner_lv (hmem k hk')
          exact same_slot ho.1 ho.2.1 (fun _ => hne)
      · rw [List.takeWhile_append_dropWhile]; exact r.nodup_lv hc i
    · simp only [hih, if_false]
      refine hold.frame ?_ ?_
      · exact same_slot (.inl ⟨rfl, rfl⟩) hit (fun hh => absurd hh hih)
      · intro k hk'
        have ho := r.owner_lv hk'
        have : k ≠ key := fun e => key_not_lv hc r hk i (e ▸ hk')
        exact ⟨ixo this, same_slot ho.1 ho.2.1 (fun hh => absurd hh hih)⟩
  · intro k hk'
    rcases (putNew_level0 hc r hk v h1 h2 k).1 hk' with rfl | hk0
    · have hix : (if k = k then a.nodeData.size else ix k) = a.nodeData.size := by simp
      rw [putNew_height_key hc r hk v h1 h2, hix]
      have hv : (putNew cmp d k v h).value k = v := MemDB.value_put_self d k v _ _ _ _
      rw [hv]
      exact ⟨hsz, by show _ ≤ nd'.size; rw [I.size]; omega,
        ⟨a.kvData.size, I.f0, slice_put_key _ _ _, slice_put_val _ _ _⟩, I.f1, I.f2, I.f3⟩
    · have hne : k ≠ key := fun e => hk (e ▸ hk0)
      rw [putNew_height_other hc r hk v h1 h2 hk0, ixo hne]
      have hv : (putNew cmp d key v h).value k = d.value k := MemDB.value_put_other d hne v _ _ _ _
      rw [hv]
      have hnk := r.node k hk0
      obtain ⟨o, o1, o2, o3⟩ := hnk.off
      refine ⟨hnk.lo, by show _ ≤ nd'.size; rw [I.size]; have := hnk.hi; omega, ?_, ?_, ?_, ?_⟩
      · refine ⟨o, ?_, ?_, ?_⟩
        · have := same_field hk0 0 (by omega); simp only [Nat.add_zero] at this
          show nd'[ix k]? = _; rw [this]; exact o1
        · show slice (a.kvData ++ key.toArray ++ v.toArray) _ _ = _
          rw [Array.append_assoc]; exact slice_append _ o2
        · show slice (a.kvData ++ key.toArray ++ v.toArray) _ _ = _
          rw [Array.append_assoc]; exact slice_append _ o3
      · show nd'[ix k + nKey]? = _; rw [same_field hk0 nKey (by omega)]; exact hnk.klen
      · show nd'[ix k + nVal]? = _; rw [same_field hk0 nVal (by omega)]; exact hnk.vlen
      · show nd'[ix k + nHeight]? = _; rw [same_field hk0 nHeight (by omega)]; exact hnk.height
  · intro k hk1 k' hk2 hkk
    rcases (putNew_level0 hc r hk v h1 h2 k).1 hk1 with rfl | hk0
    · rcases (putNew_level0 hc r hk v h1 h2 k').1 hk2 with rfl | hk0'
      · exact absurd rfl hkk
      · have hne : k' ≠ k := fun e => hkk e.symm
        have hix : (if k = k then a.nodeData.size else ix k) = a.nodeData.size := by simp
        rw [ixo hne, hix, putNew_height_other hc r hk v h1 h2 hk0']
        have := (r.node k' hk0').hi
        exact .inr this
    · have hne : k ≠ key := fun e => hk (e ▸ hk0)
      rcases (putNew_level0 hc r hk v h1 h2 k').1 hk2 with rfl | hk0'
      · have hix : (if k' = k' then a.nodeData.size else ix k') = a.nodeData.size := by simp
        rw [ixo hne, hix, putNew_height_other hc r hk v h1 h2 hk0]
        have := (r.node k hk0).hi
        exact .inl this
      · have hne' : k' ≠ key := fun e => hk (e ▸ hk0')
        rw [ixo hne, ixo hne', putNew_height_other hc r hk v h1 h2 hk0, putNew_height_other hc r hk v h1 h2 hk0']
        exact r.sep k hk0 k' hk0' hkk

/-- `Put` of a key that is not present -/
theorem put_new_sim (hc : LawfulCmp cmp) (r : Rep cmp a d ix) {key : Bytes} (hk : key ∉ d.level0) (v : Bytes)
    {h : Nat} (h1 : 1 ≤ h) (h2 : h ≤ tMaxHeight) :
    ∃ a', put cmp a key v h = some a' ∧
      Rep cmp a' (MemDB.put cmp d key v h) (fun k => if k = key then a.nodeData.size else ix k) ∧
      a'.gen = a.gen ∧ a'.kvData = a.kvData ++ key.toArray ++ v.toArray ∧
      Inserted cmp a d ix key v h a'.nodeData := by
  obtain ⟨pn', g1, glen, _, g4⟩ := findGE_sim r key true
  obtain ⟨he, _⟩ := findGE_exact hc r key true
  have hex : (MemDB.findGE cmp d key true).exact = false := by rw [he]; simpa using hk
  rw [hex] at g1
  have hpath : ∀ j, j < a.maxHeight → pn'[j]? = some (nix ix (pth cmp d key j)) := by
    intro j hj
    have := (g4 rfl).2 j (by omega)
    rw [MemDB.findGE_prev hc r.inv key] at this
    exact this
  obtain ⟨nd', pn2, e, hpn, I⟩ := putInsert_arrays r key v h1 h2 pn' (by rw [glen, r.pn]) hpath
  refine ⟨{ kvData := a.kvData ++ key.toArray ++ v.toArray, nodeData := nd', prevNode := pn2,
            maxHeight := if h > a.maxHeight then h else a.maxHeight, n := a.n + 1,
            kvSize := a.kvSize + (key.length + v.length), gen := a.gen }, ?_,
    by rw [MemDB.put_new hc r.inv hk]; exact put_new_rep hc r hk v h1 h2 pn2 hpn I, rfl, rfl, I⟩
  simp only [put, g1, Option.bind_some, Option.bind_eq_bind, Bool.false_eq_true, if_false]
  exact e

end GoLevel.MemArr
