import GoLevel.Proofs.SessionChain
/-! The session (producers) and the ghost history of the loop stay in step (C07). -/
namespace GoLevel.Session
open GoLevel GoLevel.RefLoop

/-- The numbers in use after an operation: the tables of a new version are in use; a number handed to
`tOps.remove` is free again (`reuseFileNum`). -/
def newNums (s : Sess) : Op → List Nat
  | .recover v => v.nums
  | .commit c r => (s.lsm.apply c r).nums
  | _ => []

def nextUsed (U : List Nat) (s : Sess) (o : Op) (rm : List Nat) : List Nat :=
  (U ++ newNums s o).filter (fun f => decide (f ∉ rm))

/-- What the theorems assume about an operation: where table numbers come from and what `Version.apply` does
(`EditFacts`); a recovery is the first thing a session does; the first commit after it deletes nothing
(`recoverJournal`'s record only adds the tables it flushed); `session.create` is called on an empty version
(`Open` → `s.create()` only when there is nothing to recover). -/
def OpOK (s : Sess) (U : List Nat) : Op → Prop
  | .recover v => s.nt = 1 ∧ s.manifest = false ∧ v.nums.Nodup ∧ ∀ f ∈ v.nums, f ∉ U
  | .commit c r => EditFacts s.lsm c r U ∧ (s.manifest = false → r.deleted = [])
  | .create => s.manifest = false → s.lsm.nums = []
  | _ => True

structure Sim (y : Sys) (G : EnvF) (U : List Nat) : Prop where
  ok : LoopOK y.loop G y.requests
  nt : G.N = y.sess.nt + (if y.sess.closed then 1 else 0)
  ntpos : 0 < y.sess.nt
  closing : G.closing = y.sess.closed
  cur : y.sess.closed = false → G.dn = y.sess.cur ∧ G.N ≤ G.up (G.dn + 1)
  idsnd : (y.sess.objs.map (·.id)).Nodup
  /-- every version object somebody holds is installed and unreleased for the loop … -/
  objs : ∀ o ∈ y.sess.objs, G.inst o.id ∧ o.id ∉ G.rel
  /-- … and (until `close`, after which release tasks may be dropped) conversely -/
  objs' : y.sess.closed = false → ∀ k, G.inst k → k ∉ G.rel → ∃ o ∈ y.sess.objs, o.id = k
  files : ∀ o ∈ y.sess.objs, o.files = G.T o.id
  lsm : y.sess.closed = false → y.sess.lsm.nums = G.T y.sess.cur
  view : y.sess.closed = false → G.L y.sess.cur = (if y.sess.manifest then G.T y.sess.cur else [])
  used : y.sess.closed = false → ∀ k, G.inst k → G.alive y.loop.next k → ∀ f ∈ G.T k, f ∈ U
  /-- nobody pins the closing version -/
  clsobj : y.sess.closed = true → ∀ o ∈ y.sess.objs, o.id + 1 = G.N → o.pins = 0

theorem Sim.N_pos {y : Sys} {G : EnvF} {U : List Nat} (h : Sim y G U) : 0 < G.N := by
  have := h.nt; have := h.ntpos; omega

theorem find_obj {l : List VObj} (hnd : (l.map (·.id)).Nodup) {o : VObj} (ho : o ∈ l) :
    l.find? (·.id = o.id) = some o := by
  induction l with
  | nil => cases ho
  | cons a l ih =>
    simp only [List.map_cons, List.nodup_cons] at hnd
    rcases List.mem_cons.mp ho with rfl | ho'
    · simp
    · have hne : a.id ≠ o.id := fun h => hnd.1 (by rw [h]; exact List.mem_map_of_mem ho')
      simp only [List.find?_cons, hne, decide_false]
      exact ih hnd.2 ho'

/-- the object of an id is unique -/
theorem obj_eq {s : Sess} (hnd : (s.objs.map (·.id)).Nodup) {o : VObj} (ho : o ∈ s.objs) :
    s.obj o.id = some o := find_obj hnd ho

theorem obj_mem {s : Sess} {id : Nat} {o : VObj} (h : s.obj id = some o) : o ∈ s.objs ∧ o.id = id := by
  unfold Sess.obj at h
  exact ⟨List.mem_of_find?_eq_some h, by simpa using List.find?_some h⟩

/-- `needs` and `alive` agree until `session.close` -/
theorem needs_of_alive {G : EnvF} {nx k : Nat} (hc : G.closing = false) (h : G.alive nx k) : G.needs nx k := by
  rcases h with h | h
  · exact Or.inl h
  · exact Or.inr ⟨hc, h⟩

/-- The numbers in use cover every version that still matters, after an operation. -/
theorem used_step {G G' : EnvF} {U new rm : List Nat} {nx nx' : Nat}
    (hu : ∀ k, G.inst k → G.alive nx k → ∀ f ∈ G.T k, f ∈ U)
    (hold : ∀ k, G'.inst k → G'.alive nx' k →
      (G.inst k ∧ G.alive nx k ∧ G'.T k = G.T k) ∨ (∀ f ∈ G'.T k, f ∈ new))
    (hs : SafeF G' nx' rm) (hc : G'.closing = false) :
    ∀ k, G'.inst k → G'.alive nx' k → ∀ f ∈ G'.T k, f ∈ (U ++ new).filter (fun f => decide (f ∉ rm)) := by
  intro k hik hal f hf
  rw [List.mem_filter]
  refine ⟨?_, by
    simp only [decide_eq_true_eq]
    exact fun hr => hs f hr k hik (needs_of_alive hc hal) hf⟩
  rcases hold k hik hal with ⟨h1, h2, h3⟩ | h1
  · rw [h3] at hf; exact List.mem_append_left _ (hu k h1 h2 f hf)
  · exact List.mem_append_right _ (h1 f hf)

/-- objects whose pins change keep ids and files -/
theorem map_pins_id (l : List VObj) (g : VObj → Nat) :
    (l.map fun o => ({ o with pins := g o } : VObj)).map (·.id) = l.map (·.id) := by
  induction l with
  | nil => rfl
  | cons a l ih => simp [ih]

theorem mem_map_pins {l : List VObj} {g : VObj → Nat} {o' : VObj}
    (h : o' ∈ l.map fun o => ({ o with pins := g o } : VObj)) : ∃ o ∈ l, o'.id = o.id ∧ o'.files = o.files := by
  obtain ⟨o, ho, rfl⟩ := List.mem_map.mp h
  exact ⟨o, ho, rfl, rfl⟩

/-- A session step that only changes reader pins (and possibly `manifest`) keeps the simulation. -/
theorem sim_pins {y : Sys} {G : EnvF} {U : List Nat} (h : Sim y G U) (g : VObj → Nat) (mf : Bool)
    (hg : y.sess.closed = true → ∀ o ∈ y.sess.objs, g o ≤ o.pins)
    (hmf : y.sess.manifest = true → mf = true)
    (hv : y.sess.closed = false → mf = true → y.sess.manifest = false → G.L y.sess.cur = G.T y.sess.cur) :
    Sim ⟨{ y.sess with objs := y.sess.objs.map fun o => ({ o with pins := g o } : VObj), manifest := mf },
      y.loop, y.requests⟩ G U := by
  refine ⟨h.ok, h.nt, h.ntpos, h.closing, h.cur, ?_, ?_, ?_, ?_, h.lsm, ?_, h.used, ?_⟩
  · have := map_pins_id y.sess.objs g
    show ((y.sess.objs.map fun o => ({ o with pins := g o } : VObj)).map (·.id)).Nodup
    rw [this]; exact h.idsnd
  · intro o' ho'
    obtain ⟨o, ho, h1, _⟩ := mem_map_pins ho'
    rw [h1]; exact h.objs o ho
  · intro hc k h1 h2
    obtain ⟨o, ho, rfl⟩ := h.objs' hc k h1 h2
    exact ⟨_, List.mem_map_of_mem ho, rfl⟩
  · intro o' ho'
    obtain ⟨o, ho, h1, h2⟩ := mem_map_pins ho'
    rw [h1, h2]; exact h.files o ho
  · intro hc
    show G.L y.sess.cur = if mf then G.T y.sess.cur else []
    have := h.view hc
    by_cases hm : y.sess.manifest = true
    · rw [hmf hm]; rw [hm] at this; exact this
    · by_cases hmf' : mf = true
      · rw [hmf']; exact hv hc hmf' (by simpa using hm)
      · have hm' : y.sess.manifest = false := by simpa using hm
        have hmf'' : mf = false := by simpa using hmf'
        rw [hm'] at this; rw [hmf'']; exact this
  · intro hc o' ho' hid
    obtain ⟨o, ho, rfl⟩ := List.mem_map.mp ho'
    have := h.clsobj hc o ho hid
    have := hg hc o ho
    show g o = 0
    omega

end GoLevel.Session
