import GoLevel.Proofs.LocksCount
/-! A client program that never calls `SetReadOnly` never has a thread inside it (any configuration). -/
namespace GoLevel.Locks
set_option linter.unusedSimpArgs false

theorem tot_ackWs_srall (ws : List Pc) (w : Option Nat) (b : Bool) : tot srAllW (ackWs ws w b) = tot srAllW ws :=
  tot_ackWs _ (by intro b site lg; cases site <;> simp [onOk, srAllW]) ws w b

theorem step_noSR (cfg : Cfg) (s t : St) (f : Bool) (h : Step cfg f s t) (inv : NoSR s) : NoSR t := by
  unfold NoSR at *
  obtain ⟨h1, h2⟩ := inv
  cases h with
  | startPut _ i hi =>
    have l1 := le_tot srAllW _ _ _ hi
    (try simp only [St.setDone, St.setBg, ↓reduceIte, Bool.false_eq_true, Bool.and_false, Bool.and_true, Bool.false_and, Bool.true_and]) <;> (repeat' split) <;> simp_all [tot_set_eq _ _ _ _ _ hi, tot_ackWs_srall, srAllW, St.bg, onOk, onErr, selNext, afterSetErr] <;> (try omega)
  | startWrite _ i hi =>
    have l1 := le_tot srAllW _ _ _ hi
    (try simp only [St.setDone, St.setBg, ↓reduceIte, Bool.false_eq_true, Bool.and_false, Bool.and_true, Bool.false_and, Bool.true_and]) <;> (repeat' split) <;> simp_all [tot_set_eq _ _ _ _ _ hi, tot_ackWs_srall, srAllW, St.bg, onOk, onErr, selNext, afterSetErr] <;> (try omega)
  | startOtx _ i hi =>
    have l1 := le_tot srAllW _ _ _ hi
    (try simp only [St.setDone, St.setBg, ↓reduceIte, Bool.false_eq_true, Bool.and_false, Bool.and_true, Bool.false_and, Bool.true_and]) <;> (repeat' split) <;> simp_all [tot_set_eq _ _ _ _ _ hi, tot_ackWs_srall, srAllW, St.bg, onOk, onErr, selNext, afterSetErr] <;> (try omega)
  | startCommit _ i hi hu =>
    have l1 := le_tot srAllW _ _ _ hi
    (try simp only [St.setDone, St.setBg, ↓reduceIte, Bool.false_eq_true, Bool.and_false, Bool.and_true, Bool.false_and, Bool.true_and]) <;> (repeat' split) <;> simp_all [tot_set_eq _ _ _ _ _ hi, tot_ackWs_srall, srAllW, St.bg, onOk, onErr, selNext, afterSetErr] <;> (try omega)
  | startDiscard _ i hi hu =>
    have l1 := le_tot srAllW _ _ _ hi
    (try simp only [St.setDone, St.setBg, ↓reduceIte, Bool.false_eq_true, Bool.and_false, Bool.and_true, Bool.false_and, Bool.true_and]) <;> (repeat' split) <;> simp_all [tot_set_eq _ _ _ _ _ hi, tot_ackWs_srall, srAllW, St.bg, onOk, onErr, selNext, afterSetErr] <;> (try omega)
  | startCR _ i hi =>
    have l1 := le_tot srAllW _ _ _ hi
    (try simp only [St.setDone, St.setBg, ↓reduceIte, Bool.false_eq_true, Bool.and_false, Bool.and_true, Bool.false_and, Bool.true_and]) <;> (repeat' split) <;> simp_all [tot_set_eq _ _ _ _ _ hi, tot_ackWs_srall, srAllW, St.bg, onOk, onErr, selNext, afterSetErr] <;> (try omega)
  | startSR _ i hi ha =>
    have l1 := le_tot srAllW _ _ _ hi
    (try simp only [St.setDone, St.setBg, ↓reduceIte, Bool.false_eq_true, Bool.and_false, Bool.and_true, Bool.false_and, Bool.true_and]) <;> (repeat' split) <;> simp_all [tot_set_eq _ _ _ _ _ hi, tot_ackWs_srall, srAllW, St.bg, onOk, onErr, selNext, afterSetErr] <;> (try omega)
  | startClose _ i hi =>
    have l1 := le_tot srAllW _ _ _ hi
    (try simp only [St.setDone, St.setBg, ↓reduceIte, Bool.false_eq_true, Bool.and_false, Bool.and_true, Bool.false_and, Bool.true_and]) <;> (repeat' split) <;> simp_all [tot_set_eq _ _ _ _ _ hi, tot_ackWs_srall, srAllW, St.bg, onOk, onErr, selNext, afterSetErr] <;> (try omega)
  | selTok _ i p q hi hq ht =>
    have l1 := le_tot srAllW _ _ _ hi
    cases p <;> simp only [selNext] at hq <;> (try contradiction) <;> cases hq <;> simp_all [tot_set_eq _ _ _ _ _ hi, tot_ackWs_srall, srAllW, St.bg, onOk, onErr, selNext, afterSetErr] <;> (try omega)
  | selPerErr _ i p q hi hq he =>
    have l1 := le_tot srAllW _ _ _ hi
    cases p <;> simp only [selNext] at hq <;> (try contradiction) <;> cases hq <;> simp_all [tot_set_eq _ _ _ _ _ hi, tot_ackWs_srall, srAllW, St.bg, onOk, onErr, selNext, afterSetErr] <;> (try omega)
  | selClosed _ i p q hi hq hc =>
    have l1 := le_tot srAllW _ _ _ hi
    cases p <;> simp only [selNext] at hq <;> (try contradiction) <;> cases hq <;> simp_all [tot_set_eq _ _ _ _ _ hi, tot_ackWs_srall, srAllW, St.bg, onOk, onErr, selNext, afterSetErr] <;> (try omega)
  | putNoWait _ i hi =>
    have l1 := le_tot srAllW _ _ _ hi
    (try simp only [St.setDone, St.setBg, ↓reduceIte, Bool.false_eq_true, Bool.and_false, Bool.and_true, Bool.false_and, Bool.true_and]) <;> (repeat' split) <;> simp_all [tot_set_eq _ _ _ _ _ hi, tot_ackWs_srall, srAllW, St.bg, onOk, onErr, selNext, afterSetErr] <;> (try omega)
  | putWait _ i b hi =>
    have l1 := le_tot srAllW _ _ _ hi
    cases b <;> (try simp only [St.setDone, St.setBg, ↓reduceIte, Bool.false_eq_true, Bool.and_false, Bool.and_true, Bool.false_and, Bool.true_and]) <;> (repeat' split) <;> simp_all [tot_set_eq _ _ _ _ _ hi, tot_ackWs_srall, srAllW, St.bg, onOk, onErr, selNext, afterSetErr] <;> (try omega)
  | putJournalOk _ i hi =>
    have l1 := le_tot srAllW _ _ _ hi
    (try simp only [St.setDone, St.setBg, ↓reduceIte, Bool.false_eq_true, Bool.and_false, Bool.and_true, Bool.false_and, Bool.true_and]) <;> (repeat' split) <;> simp_all [tot_set_eq _ _ _ _ _ hi, tot_ackWs_srall, srAllW, St.bg, onOk, onErr, selNext, afterSetErr] <;> (try omega)
  | putJournalFail _ i hi =>
    have l1 := le_tot srAllW _ _ _ hi
    (try simp only [St.setDone, St.setBg, ↓reduceIte, Bool.false_eq_true, Bool.and_false, Bool.and_true, Bool.false_and, Bool.true_and]) <;> (repeat' split) <;> simp_all [tot_set_eq _ _ _ _ _ hi, tot_ackWs_srall, srAllW, St.bg, onOk, onErr, selNext, afterSetErr] <;> (try omega)
  | putUnlock _ i r hi =>
    have l1 := le_tot srAllW _ _ _ hi
    cases r <;> (try simp only [St.setDone, St.setBg, ↓reduceIte, Bool.false_eq_true, Bool.and_false, Bool.and_true, Bool.false_and, Bool.true_and]) <;> (repeat' split) <;> simp_all [tot_set_eq _ _ _ _ _ hi, tot_ackWs_srall, srAllW, St.bg, onOk, onErr, selNext, afterSetErr] <;> (try omega)
  | cwSendGo _ i b site lg hi hb hro =>
    have l1 := le_tot srAllW _ _ _ hi
    cases site <;> cases b <;> cases lg <;> (try simp only [St.setDone, St.setBg, ↓reduceIte, Bool.false_eq_true, Bool.and_false, Bool.and_true, Bool.false_and, Bool.true_and]) <;> (repeat' split) <;> simp_all [tot_set_eq _ _ _ _ _ hi, tot_ackWs_srall, srAllW, St.bg, onOk, onErr, selNext, afterSetErr] <;> (try omega)
  | cwSendRO _ i site lg hi hb hp hro =>
    have l1 := le_tot srAllW _ _ _ hi
    cases site <;> cases lg <;> (try simp only [St.setDone, St.setBg, ↓reduceIte, Bool.false_eq_true, Bool.and_false, Bool.and_true, Bool.false_and, Bool.true_and]) <;> (repeat' split) <;> simp_all [tot_set_eq _ _ _ _ _ hi, tot_ackWs_srall, srAllW, St.bg, onOk, onErr, selNext, afterSetErr] <;> (try omega)
  | cwSendErr _ i b site lg hi he =>
    have l1 := le_tot srAllW _ _ _ hi
    cases site <;> cases b <;> cases lg <;> (try simp only [St.setDone, St.setBg, ↓reduceIte, Bool.false_eq_true, Bool.and_false, Bool.and_true, Bool.false_and, Bool.true_and]) <;> (repeat' split) <;> simp_all [tot_set_eq _ _ _ _ _ hi, tot_ackWs_srall, srAllW, St.bg, onOk, onErr, selNext, afterSetErr] <;> (try omega)
  | cwAckErr _ i b site lg hi he =>
    have l1 := le_tot srAllW _ _ _ hi
    cases site <;> cases b <;> cases lg <;> (try simp only [St.setDone, St.setBg, ↓reduceIte, Bool.false_eq_true, Bool.and_false, Bool.and_true, Bool.false_and, Bool.true_and]) <;> (repeat' split) <;> simp_all [tot_set_eq _ _ _ _ _ hi, tot_ackWs_srall, srAllW, St.bg, onOk, onErr, selNext, afterSetErr] <;> (try omega)
  | otxRotate _ i lg hi =>
    have l1 := le_tot srAllW _ _ _ hi
    cases lg <;> (try simp only [St.setDone, St.setBg, ↓reduceIte, Bool.false_eq_true, Bool.and_false, Bool.and_true, Bool.false_and, Bool.true_and]) <;> (repeat' split) <;> simp_all [tot_set_eq _ _ _ _ _ hi, tot_ackWs_srall, srAllW, St.bg, onOk, onErr, selNext, afterSetErr] <;> (try omega)
  | otxNoRotate _ i lg hi =>
    have l1 := le_tot srAllW _ _ _ hi
    cases lg <;> (try simp only [St.setDone, St.setBg, ↓reduceIte, Bool.false_eq_true, Bool.and_false, Bool.and_true, Bool.false_and, Bool.true_and]) <;> (repeat' split) <;> simp_all [tot_set_eq _ _ _ _ _ hi, tot_ackWs_srall, srAllW, St.bg, onOk, onErr, selNext, afterSetErr] <;> (try omega)
  | otxNewMemOk _ i lg hi =>
    have l1 := le_tot srAllW _ _ _ hi
    cases lg <;> (try simp only [St.setDone, St.setBg, ↓reduceIte, Bool.false_eq_true, Bool.and_false, Bool.and_true, Bool.false_and, Bool.true_and]) <;> (repeat' split) <;> simp_all [tot_set_eq _ _ _ _ _ hi, tot_ackWs_srall, srAllW, St.bg, onOk, onErr, selNext, afterSetErr] <;> (try omega)
  | otxNewMemFail _ i lg hi =>
    have l1 := le_tot srAllW _ _ _ hi
    cases lg <;> (try simp only [St.setDone, St.setBg, ↓reduceIte, Bool.false_eq_true, Bool.and_false, Bool.and_true, Bool.false_and, Bool.true_and]) <;> (repeat' split) <;> simp_all [tot_set_eq _ _ _ _ _ hi, tot_ackWs_srall, srAllW, St.bg, onOk, onErr, selNext, afterSetErr] <;> (try omega)
  | otxNoWaitComp _ i lg hi =>
    have l1 := le_tot srAllW _ _ _ hi
    cases lg <;> (try simp only [St.setDone, St.setBg, ↓reduceIte, Bool.false_eq_true, Bool.and_false, Bool.and_true, Bool.false_and, Bool.true_and]) <;> (repeat' split) <;> simp_all [tot_set_eq _ _ _ _ _ hi, tot_ackWs_srall, srAllW, St.bg, onOk, onErr, selNext, afterSetErr] <;> (try omega)
  | otxWaitComp _ i lg hi =>
    have l1 := le_tot srAllW _ _ _ hi
    cases lg <;> (try simp only [St.setDone, St.setBg, ↓reduceIte, Bool.false_eq_true, Bool.and_false, Bool.and_true, Bool.false_and, Bool.true_and]) <;> (repeat' split) <;> simp_all [tot_set_eq _ _ _ _ _ hi, tot_ackWs_srall, srAllW, St.bg, onOk, onErr, selNext, afterSetErr] <;> (try omega)
  | otxFail _ i lg hi =>
    have l1 := le_tot srAllW _ _ _ hi
    cases lg <;> (try simp only [St.setDone, St.setBg, ↓reduceIte, Bool.false_eq_true, Bool.and_false, Bool.and_true, Bool.false_and, Bool.true_and]) <;> (repeat' split) <;> simp_all [tot_set_eq _ _ _ _ _ hi, tot_ackWs_srall, srAllW, St.bg, onOk, onErr, selNext, afterSetErr] <;> (try omega)
  | otxRel _ i lg hi =>
    have l1 := le_tot srAllW _ _ _ hi
    cases lg <;> (try simp only [St.setDone, St.setBg, ↓reduceIte, Bool.false_eq_true, Bool.and_false, Bool.and_true, Bool.false_and, Bool.true_and]) <;> (repeat' split) <;> simp_all [tot_set_eq _ _ _ _ _ hi, tot_ackWs_srall, srAllW, St.bg, onOk, onErr, selNext, afterSetErr] <;> (try omega)
  | otxDone _ i lg hi =>
    have l1 := le_tot srAllW _ _ _ hi
    cases lg <;> (try simp only [St.setDone, St.setBg, ↓reduceIte, Bool.false_eq_true, Bool.and_false, Bool.and_true, Bool.false_and, Bool.true_and]) <;> (repeat' split) <;> simp_all [tot_set_eq _ _ _ _ _ hi, tot_ackWs_srall, srAllW, St.bg, onOk, onErr, selNext, afterSetErr] <;> (try omega)
  | lgWriteOk _ i hi =>
    have l1 := le_tot srAllW _ _ _ hi
    (try simp only [St.setDone, St.setBg, ↓reduceIte, Bool.false_eq_true, Bool.and_false, Bool.and_true, Bool.false_and, Bool.true_and]) <;> (repeat' split) <;> simp_all [tot_set_eq _ _ _ _ _ hi, tot_ackWs_srall, srAllW, St.bg, onOk, onErr, selNext, afterSetErr] <;> (try omega)
  | lgWriteFail _ i hi =>
    have l1 := le_tot srAllW _ _ _ hi
    (try simp only [St.setDone, St.setBg, ↓reduceIte, Bool.false_eq_true, Bool.and_false, Bool.and_true, Bool.false_and, Bool.true_and]) <;> (repeat' split) <;> simp_all [tot_set_eq _ _ _ _ _ hi, tot_ackWs_srall, srAllW, St.bg, onOk, onErr, selNext, afterSetErr] <;> (try omega)
  | cmLockTr _ i lg hi hl =>
    have l1 := le_tot srAllW _ _ _ hi
    cases lg <;> (try simp only [St.setDone, St.setBg, ↓reduceIte, Bool.false_eq_true, Bool.and_false, Bool.and_true, Bool.false_and, Bool.true_and]) <;> (repeat' split) <;> simp_all [tot_set_eq _ _ _ _ _ hi, tot_ackWs_srall, srAllW, St.bg, onOk, onErr, selNext, afterSetErr] <;> (try omega)
  | cmFlushOk _ i lg hi =>
    have l1 := le_tot srAllW _ _ _ hi
    cases lg <;> (try simp only [St.setDone, St.setBg, ↓reduceIte, Bool.false_eq_true, Bool.and_false, Bool.and_true, Bool.false_and, Bool.true_and]) <;> (repeat' split) <;> simp_all [tot_set_eq _ _ _ _ _ hi, tot_ackWs_srall, srAllW, St.bg, onOk, onErr, selNext, afterSetErr] <;> (try omega)
  | cmFlushEmpty _ i lg hi =>
    have l1 := le_tot srAllW _ _ _ hi
    cases lg <;> (try simp only [St.setDone, St.setBg, ↓reduceIte, Bool.false_eq_true, Bool.and_false, Bool.and_true, Bool.false_and, Bool.true_and]) <;> (repeat' split) <;> simp_all [tot_set_eq _ _ _ _ _ hi, tot_ackWs_srall, srAllW, St.bg, onOk, onErr, selNext, afterSetErr] <;> (try omega)
  | cmFlushFail _ i lg hi =>
    have l1 := le_tot srAllW _ _ _ hi
    cases lg <;> (try simp only [St.setDone, St.setBg, ↓reduceIte, Bool.false_eq_true, Bool.and_false, Bool.and_true, Bool.false_and, Bool.true_and]) <;> (repeat' split) <;> simp_all [tot_set_eq _ _ _ _ _ hi, tot_ackWs_srall, srAllW, St.bg, onOk, onErr, selNext, afterSetErr] <;> (try omega)
  | cmLockClk _ i lg hi hl =>
    have l1 := le_tot srAllW _ _ _ hi
    cases lg <;> (try simp only [St.setDone, St.setBg, ↓reduceIte, Bool.false_eq_true, Bool.and_false, Bool.and_true, Bool.false_and, Bool.true_and]) <;> (repeat' split) <;> simp_all [tot_set_eq _ _ _ _ _ hi, tot_ackWs_srall, srAllW, St.bg, onOk, onErr, selNext, afterSetErr] <;> (try omega)
  | cmTryOk _ i k lg hi =>
    have l1 := le_tot srAllW _ _ _ hi
    cases lg <;> (try simp only [St.setDone, St.setBg, ↓reduceIte, Bool.false_eq_true, Bool.and_false, Bool.and_true, Bool.false_and, Bool.true_and]) <;> (repeat' split) <;> simp_all [tot_set_eq _ _ _ _ _ hi, tot_ackWs_srall, srAllW, St.bg, onOk, onErr, selNext, afterSetErr] <;> (try omega)
  | cmTryFail _ i k lg hi =>
    have l1 := le_tot srAllW _ _ _ hi
    cases lg <;> (try simp only [St.setDone, St.setBg, ↓reduceIte, Bool.false_eq_true, Bool.and_false, Bool.and_true, Bool.false_and, Bool.true_and]) <;> (repeat' split) <;> simp_all [tot_set_eq _ _ _ _ _ hi, tot_ackWs_srall, srAllW, St.bg, onOk, onErr, selNext, afterSetErr] <;> (try omega)
  | cmSleepTimer _ i k lg hi =>
    have l1 := le_tot srAllW _ _ _ hi
    cases lg <;> (try simp only [St.setDone, St.setBg, ↓reduceIte, Bool.false_eq_true, Bool.and_false, Bool.and_true, Bool.false_and, Bool.true_and]) <;> (repeat' split) <;> simp_all [tot_set_eq _ _ _ _ _ hi, tot_ackWs_srall, srAllW, St.bg, onOk, onErr, selNext, afterSetErr] <;> (try omega)
  | cmSleepClosed _ i k lg hi hc =>
    have l1 := le_tot srAllW _ _ _ hi
    cases lg <;> (try simp only [St.setDone, St.setBg, ↓reduceIte, Bool.false_eq_true, Bool.and_false, Bool.and_true, Bool.false_and, Bool.true_and]) <;> (repeat' split) <;> simp_all [tot_set_eq _ _ _ _ _ hi, tot_ackWs_srall, srAllW, St.bg, onOk, onErr, selNext, afterSetErr] <;> (try omega)
  | cmFail3 _ i lg hi =>
    have l1 := le_tot srAllW _ _ _ hi
    cases lg <;> (try simp only [St.setDone, St.setBg, ↓reduceIte, Bool.false_eq_true, Bool.and_false, Bool.and_true, Bool.false_and, Bool.true_and]) <;> (repeat' split) <;> simp_all [tot_set_eq _ _ _ _ _ hi, tot_ackWs_srall, srAllW, St.bg, onOk, onErr, selNext, afterSetErr] <;> (try omega)
  | cmAfterOk _ i lg hi =>
    have l1 := le_tot srAllW _ _ _ hi
    cases lg <;> (try simp only [St.setDone, St.setBg, ↓reduceIte, Bool.false_eq_true, Bool.and_false, Bool.and_true, Bool.false_and, Bool.true_and]) <;> (repeat' split) <;> simp_all [tot_set_eq _ _ _ _ _ hi, tot_ackWs_srall, srAllW, St.bg, onOk, onErr, selNext, afterSetErr] <;> (try omega)
  | cmNoWaitComp _ i lg hi =>
    have l1 := le_tot srAllW _ _ _ hi
    cases lg <;> (try simp only [St.setDone, St.setBg, ↓reduceIte, Bool.false_eq_true, Bool.and_false, Bool.and_true, Bool.false_and, Bool.true_and]) <;> (repeat' split) <;> simp_all [tot_set_eq _ _ _ _ _ hi, tot_ackWs_srall, srAllW, St.bg, onOk, onErr, selNext, afterSetErr] <;> (try omega)
  | cmWaitComp _ i lg hi =>
    have l1 := le_tot srAllW _ _ _ hi
    cases lg <;> (try simp only [St.setDone, St.setBg, ↓reduceIte, Bool.false_eq_true, Bool.and_false, Bool.and_true, Bool.false_and, Bool.true_and]) <;> (repeat' split) <;> simp_all [tot_set_eq _ _ _ _ _ hi, tot_ackWs_srall, srAllW, St.bg, onOk, onErr, selNext, afterSetErr] <;> (try omega)
  | cmDone _ i lg hi =>
    have l1 := le_tot srAllW _ _ _ hi
    cases lg <;> (try simp only [St.setDone, St.setBg, ↓reduceIte, Bool.false_eq_true, Bool.and_false, Bool.and_true, Bool.false_and, Bool.true_and]) <;> (repeat' split) <;> simp_all [tot_set_eq _ _ _ _ _ hi, tot_ackWs_srall, srAllW, St.bg, onOk, onErr, selNext, afterSetErr] <;> (try omega)
  | cmRet _ i ok lg hi =>
    have l1 := le_tot srAllW _ _ _ hi
    cases ok <;> cases lg <;> (try simp only [St.setDone, St.setBg, ↓reduceIte, Bool.false_eq_true, Bool.and_false, Bool.and_true, Bool.false_and, Bool.true_and]) <;> (repeat' split) <;> simp_all [tot_set_eq _ _ _ _ _ hi, tot_ackWs_srall, srAllW, St.bg, onOk, onErr, selNext, afterSetErr] <;> (try omega)
  | dcLockTr _ i lg hi hl =>
    have l1 := le_tot srAllW _ _ _ hi
    cases lg <;> (try simp only [St.setDone, St.setBg, ↓reduceIte, Bool.false_eq_true, Bool.and_false, Bool.and_true, Bool.false_and, Bool.true_and]) <;> (repeat' split) <;> simp_all [tot_set_eq _ _ _ _ _ hi, tot_ackWs_srall, srAllW, St.bg, onOk, onErr, selNext, afterSetErr] <;> (try omega)
  | dcBody _ i lg hi =>
    have l1 := le_tot srAllW _ _ _ hi
    cases lg <;> (try simp only [St.setDone, St.setBg, ↓reduceIte, Bool.false_eq_true, Bool.and_false, Bool.and_true, Bool.false_and, Bool.true_and]) <;> (repeat' split) <;> simp_all [tot_set_eq _ _ _ _ _ hi, tot_ackWs_srall, srAllW, St.bg, onOk, onErr, selNext, afterSetErr] <;> (try omega)
  | crNoOverlap _ i hi =>
    have l1 := le_tot srAllW _ _ _ hi
    (try simp only [St.setDone, St.setBg, ↓reduceIte, Bool.false_eq_true, Bool.and_false, Bool.and_true, Bool.false_and, Bool.true_and]) <;> (repeat' split) <;> simp_all [tot_set_eq _ _ _ _ _ hi, tot_ackWs_srall, srAllW, St.bg, onOk, onErr, selNext, afterSetErr] <;> (try omega)
  | crOverlap _ i hi =>
    have l1 := le_tot srAllW _ _ _ hi
    (try simp only [St.setDone, St.setBg, ↓reduceIte, Bool.false_eq_true, Bool.and_false, Bool.and_true, Bool.false_and, Bool.true_and]) <;> (repeat' split) <;> simp_all [tot_set_eq _ _ _ _ _ hi, tot_ackWs_srall, srAllW, St.bg, onOk, onErr, selNext, afterSetErr] <;> (try omega)
  | crNewMemOk _ i hi =>
    have l1 := le_tot srAllW _ _ _ hi
    (try simp only [St.setDone, St.setBg, ↓reduceIte, Bool.false_eq_true, Bool.and_false, Bool.and_true, Bool.false_and, Bool.true_and]) <;> (repeat' split) <;> simp_all [tot_set_eq _ _ _ _ _ hi, tot_ackWs_srall, srAllW, St.bg, onOk, onErr, selNext, afterSetErr] <;> (try omega)
  | crNewMemFail _ i hi =>
    have l1 := le_tot srAllW _ _ _ hi
    (try simp only [St.setDone, St.setBg, ↓reduceIte, Bool.false_eq_true, Bool.and_false, Bool.and_true, Bool.false_and, Bool.true_and]) <;> (repeat' split) <;> simp_all [tot_set_eq _ _ _ _ _ hi, tot_ackWs_srall, srAllW, St.bg, onOk, onErr, selNext, afterSetErr] <;> (try omega)
  | crRelM _ i hi =>
    have l1 := le_tot srAllW _ _ _ hi
    (try simp only [St.setDone, St.setBg, ↓reduceIte, Bool.false_eq_true, Bool.and_false, Bool.and_true, Bool.false_and, Bool.true_and]) <;> (repeat' split) <;> simp_all [tot_set_eq _ _ _ _ _ hi, tot_ackWs_srall, srAllW, St.bg, onOk, onErr, selNext, afterSetErr] <;> (try omega)
  | crRelOk _ i hi =>
    have l1 := le_tot srAllW _ _ _ hi
    (try simp only [St.setDone, St.setBg, ↓reduceIte, Bool.false_eq_true, Bool.and_false, Bool.and_true, Bool.false_and, Bool.true_and]) <;> (repeat' split) <;> simp_all [tot_set_eq _ _ _ _ _ hi, tot_ackWs_srall, srAllW, St.bg, onOk, onErr, selNext, afterSetErr] <;> (try omega)
  | crRelFail _ i hi =>
    have l1 := le_tot srAllW _ _ _ hi
    (try simp only [St.setDone, St.setBg, ↓reduceIte, Bool.false_eq_true, Bool.and_false, Bool.and_true, Bool.false_and, Bool.true_and]) <;> (repeat' split) <;> simp_all [tot_set_eq _ _ _ _ _ hi, tot_ackWs_srall, srAllW, St.bg, onOk, onErr, selNext, afterSetErr] <;> (try omega)
  | srSend _ i hi he =>
    have l1 := le_tot srAllW _ _ _ hi
    (try simp only [St.setDone, St.setBg, ↓reduceIte, Bool.false_eq_true, Bool.and_false, Bool.and_true, Bool.false_and, Bool.true_and]) <;> (repeat' split) <;> simp_all [tot_set_eq _ _ _ _ _ hi, tot_ackWs_srall, srAllW, St.bg, onOk, onErr, selNext, afterSetErr] <;> (try omega)
  | srPerErr _ i hi he =>
    have l1 := le_tot srAllW _ _ _ hi
    (try simp only [St.setDone, St.setBg, ↓reduceIte, Bool.false_eq_true, Bool.and_false, Bool.and_true, Bool.false_and, Bool.true_and]) <;> (repeat' split) <;> simp_all [tot_set_eq _ _ _ _ _ hi, tot_ackWs_srall, srAllW, St.bg, onOk, onErr, selNext, afterSetErr] <;> (try omega)
  | srClosed _ i hi hc =>
    have l1 := le_tot srAllW _ _ _ hi
    (try simp only [St.setDone, St.setBg, ↓reduceIte, Bool.false_eq_true, Bool.and_false, Bool.and_true, Bool.false_and, Bool.true_and]) <;> (repeat' split) <;> simp_all [tot_set_eq _ _ _ _ _ hi, tot_ackWs_srall, srAllW, St.bg, onOk, onErr, selNext, afterSetErr] <;> (try omega)
  | clCheckTr _ i hi =>
    have l1 := le_tot srAllW _ _ _ hi
    (try simp only [St.setDone, St.setBg, ↓reduceIte, Bool.false_eq_true, Bool.and_false, Bool.and_true, Bool.false_and, Bool.true_and]) <;> (repeat' split) <;> simp_all [tot_set_eq _ _ _ _ _ hi, tot_ackWs_srall, srAllW, St.bg, onOk, onErr, selNext, afterSetErr] <;> (try omega)
  | clLockTr _ i hi hl =>
    have l1 := le_tot srAllW _ _ _ hi
    (try simp only [St.setDone, St.setBg, ↓reduceIte, Bool.false_eq_true, Bool.and_false, Bool.and_true, Bool.false_and, Bool.true_and]) <;> (repeat' split) <;> simp_all [tot_set_eq _ _ _ _ _ hi, tot_ackWs_srall, srAllW, St.bg, onOk, onErr, selNext, afterSetErr] <;> (try omega)
  | clBody _ i hi =>
    have l1 := le_tot srAllW _ _ _ hi
    (try simp only [St.setDone, St.setBg, ↓reduceIte, Bool.false_eq_true, Bool.and_false, Bool.and_true, Bool.false_and, Bool.true_and]) <;> (repeat' split) <;> simp_all [tot_set_eq _ _ _ _ _ hi, tot_ackWs_srall, srAllW, St.bg, onOk, onErr, selNext, afterSetErr] <;> (try omega)
  | clAcq _ i hi ht =>
    have l1 := le_tot srAllW _ _ _ hi
    (try simp only [St.setDone, St.setBg, ↓reduceIte, Bool.false_eq_true, Bool.and_false, Bool.and_true, Bool.false_and, Bool.true_and]) <;> (repeat' split) <;> simp_all [tot_set_eq _ _ _ _ _ hi, tot_ackWs_srall, srAllW, St.bg, onOk, onErr, selNext, afterSetErr] <;> (try omega)
  | clAcqKept _ i hi he hk hs =>
    have l1 := le_tot srAllW _ _ _ hi
    (try simp only [St.setDone, St.setBg, ↓reduceIte, Bool.false_eq_true, Bool.and_false, Bool.and_true, Bool.false_and, Bool.true_and]) <;> (repeat' split) <;> simp_all [tot_set_eq _ _ _ _ _ hi, tot_ackWs_srall, srAllW, St.bg, onOk, onErr, selNext, afterSetErr] <;> (try omega)
  | clWait _ i hi hm ht =>
    have l1 := le_tot srAllW _ _ _ hi
    (try simp only [St.setDone, St.setBg, ↓reduceIte, Bool.false_eq_true, Bool.and_false, Bool.and_true, Bool.false_and, Bool.true_and]) <;> (repeat' split) <;> simp_all [tot_set_eq _ _ _ _ _ hi, tot_ackWs_srall, srAllW, St.bg, onOk, onErr, selNext, afterSetErr] <;> (try omega)
  | ehAcquire _ he ht =>
    (try simp only [St.setDone, St.setBg, ↓reduceIte, Bool.false_eq_true, Bool.and_false, Bool.and_true, Bool.false_and, Bool.true_and]) <;> (repeat' split) <;> simp_all [tot_ackWs_srall, srAllW, St.bg, onOk, onErr, selNext, afterSetErr] <;> (try omega)
  | ehClose _ he hc =>
    (try simp only [St.setDone, St.setBg, ↓reduceIte, Bool.false_eq_true, Bool.and_false, Bool.and_true, Bool.false_and, Bool.true_and]) <;> (repeat' split) <;> simp_all [tot_ackWs_srall, srAllW, St.bg, onOk, onErr, selNext, afterSetErr] <;> (try omega)
  | ehTake _ he ht =>
    (try simp only [St.setDone, St.setBg, ↓reduceIte, Bool.false_eq_true, Bool.and_false, Bool.and_true, Bool.false_and, Bool.true_and]) <;> (repeat' split) <;> simp_all [tot_ackWs_srall, srAllW, St.bg, onOk, onErr, selNext, afterSetErr] <;> (try omega)
  | bgExitIdle _ b hb hc =>
    cases b <;> (try simp only [St.setDone, St.setBg, ↓reduceIte, Bool.false_eq_true, Bool.and_false, Bool.and_true, Bool.false_and, Bool.true_and]) <;> (repeat' split) <;> simp_all [tot_ackWs_srall, srAllW, St.bg, onOk, onErr, selNext, afterSetErr] <;> (try omega)
  | bgExitParked _ hb hc =>
    (try simp only [St.setDone, St.setBg, ↓reduceIte, Bool.false_eq_true, Bool.and_false, Bool.and_true, Bool.false_and, Bool.true_and]) <;> (repeat' split) <;> simp_all [tot_ackWs_srall, srAllW, St.bg, onOk, onErr, selNext, afterSetErr] <;> (try omega)
  | bgWorkCorrupt _ b w hb hk =>
    cases b <;> (try simp only [St.setDone, St.setBg, ↓reduceIte, Bool.false_eq_true, Bool.and_false, Bool.and_true, Bool.false_and, Bool.true_and]) <;> (repeat' split) <;> simp_all [tot_ackWs_srall, srAllW, St.bg, onOk, onErr, selNext, afterSetErr] <;> (try omega)
  | bgCommitCorrupt _ b w hb hk =>
    cases b <;> (try simp only [St.setDone, St.setBg, ↓reduceIte, Bool.false_eq_true, Bool.and_false, Bool.and_true, Bool.false_and, Bool.true_and]) <;> (repeat' split) <;> simp_all [tot_ackWs_srall, srAllW, St.bg, onOk, onErr, selNext, afterSetErr] <;> (try omega)
  | bgSetErrCorrupt _ b w c hb he =>
    cases b <;> cases c <;> (try simp only [St.setDone, St.setBg, ↓reduceIte, Bool.false_eq_true, Bool.and_false, Bool.and_true, Bool.false_and, Bool.true_and]) <;> (repeat' split) <;> simp_all [tot_ackWs_srall, srAllW, St.bg, onOk, onErr, selNext, afterSetErr] <;> (try omega)
  | bgWorkOk _ b w hb =>
    cases b <;> (try simp only [St.setDone, St.setBg, ↓reduceIte, Bool.false_eq_true, Bool.and_false, Bool.and_true, Bool.false_and, Bool.true_and]) <;> (repeat' split) <;> simp_all [tot_ackWs_srall, srAllW, St.bg, onOk, onErr, selNext, afterSetErr] <;> (try omega)
  | bgWorkFail _ b w hb =>
    cases b <;> (try simp only [St.setDone, St.setBg, ↓reduceIte, Bool.false_eq_true, Bool.and_false, Bool.and_true, Bool.false_and, Bool.true_and]) <;> (repeat' split) <;> simp_all [tot_ackWs_srall, srAllW, St.bg, onOk, onErr, selNext, afterSetErr] <;> (try omega)
  | bgCommitOk _ b w hb =>
    cases b <;> (try simp only [St.setDone, St.setBg, ↓reduceIte, Bool.false_eq_true, Bool.and_false, Bool.and_true, Bool.false_and, Bool.true_and]) <;> (repeat' split) <;> simp_all [tot_ackWs_srall, srAllW, St.bg, onOk, onErr, selNext, afterSetErr] <;> (try omega)
  | bgCommitFail _ b w hb =>
    cases b <;> (try simp only [St.setDone, St.setBg, ↓reduceIte, Bool.false_eq_true, Bool.and_false, Bool.and_true, Bool.false_and, Bool.true_and]) <;> (repeat' split) <;> simp_all [tot_ackWs_srall, srAllW, St.bg, onOk, onErr, selNext, afterSetErr] <;> (try omega)
  | bgSetErr _ b w ok c hb he =>
    cases b <;> cases ok <;> cases c <;> (try simp only [St.setDone, St.setBg, ↓reduceIte, Bool.false_eq_true, Bool.and_false, Bool.and_true, Bool.false_and, Bool.true_and]) <;> (repeat' split) <;> simp_all [tot_ackWs_srall, srAllW, St.bg, onOk, onErr, selNext, afterSetErr] <;> (try omega)
  | bgSetErrPer _ b w c hb he =>
    cases b <;> cases c <;> (try simp only [St.setDone, St.setBg, ↓reduceIte, Bool.false_eq_true, Bool.and_false, Bool.and_true, Bool.false_and, Bool.true_and]) <;> (repeat' split) <;> simp_all [tot_ackWs_srall, srAllW, St.bg, onOk, onErr, selNext, afterSetErr] <;> (try omega)
  | bgBackoff _ b w c hb =>
    cases b <;> cases c <;> (try simp only [St.setDone, St.setBg, ↓reduceIte, Bool.false_eq_true, Bool.and_false, Bool.and_true, Bool.false_and, Bool.true_and]) <;> (repeat' split) <;> simp_all [tot_ackWs_srall, srAllW, St.bg, onOk, onErr, selNext, afterSetErr] <;> (try omega)
  | bgLockClk _ b w hb hl =>
    cases b <;> (try simp only [St.setDone, St.setBg, ↓reduceIte, Bool.false_eq_true, Bool.and_false, Bool.and_true, Bool.false_and, Bool.true_and]) <;> (repeat' split) <;> simp_all [tot_ackWs_srall, srAllW, St.bg, onOk, onErr, selNext, afterSetErr] <;> (try omega)
  | bgAck _ b w hb =>
    cases b <;> (try simp only [St.setDone, St.setBg, ↓reduceIte, Bool.false_eq_true, Bool.and_false, Bool.and_true, Bool.false_and, Bool.true_and]) <;> (repeat' split) <;> simp_all [tot_ackWs_srall, srAllW, St.bg, onOk, onErr, selNext, afterSetErr] <;> (try omega)
  | bgExit _ b w ph hb hx =>
    cases b <;> (try simp only [St.setDone, St.setBg, ↓reduceIte, Bool.false_eq_true, Bool.and_false, Bool.and_true, Bool.false_and, Bool.true_and]) <;> (repeat' split) <;> simp_all [tot_ackWs_srall, srAllW, St.bg, onOk, onErr, selNext, afterSetErr]

theorem initNoSR_noSR (n : Nat) : NoSR (initNoSR n) :=
  ⟨rfl, tot_replicate_idle _ n rfl⟩

end GoLevel.Locks
