import GoLevel.Proofs.LSMLookup
/-!
# Compaction lemmas: the merged input (`mergeAll`) and the builder's drop rules (`build`)

* `insertSorted` / `mergeAll`: sorted, a permutation of the inputs,
* `build`: a sublist of its input; on a sorted input it keeps, for every user key and every reader
  sequence `s ≥ minSeq`, the entry that reader sees — except a tombstone dropped by rule (B), which
  hides nothing when no deeper source holds the key.
Core Lean only.
-/
namespace GoLevel

/-! ## `newest` on a sorted list is the first match -/

theorem newest_sorted_eq_find {c : UCmp} (hl : LawfulUCmp c) (es : List Entry) (hs : ESorted c es)
    (k : Bytes) (s : Nat) : newest c es k s = es.find? (fun e => decide (Matches c k s e)) := by
  induction es with
  | nil => rfl
  | cons x xs ih =>
    obtain ⟨hx, hxs⟩ := List.pairwise_cons.1 hs
    rw [newest_cons, List.find?_cons]
    by_cases hm : Matches c k s x
    · rw [cand_of_matches hm]
      simp only [hm, decide_true]
      cases hn : newest c xs k s with
      | none => rfl
      | some y =>
        have hy := hx y (newest_mem hn)
        have hyk := ((matches_iff hl k s y).1 (newest_matches hn)).1
        have hxk := ((matches_iff hl k s x).1 hm).1
        rcases (ecmp_lt_iff hl x y).1 hy with h | ⟨_, h⟩
        · rw [hxk, hyk] at h; exact absurd h (ult_irrefl hl _)
        · show (if _ then _ else _) = some x
          rw [if_neg (by omega)]
    · rw [cand_of_not_matches hm, pickNewer_none_left, ih hxs]
      simp only [hm, decide_false]

/-! ## the merged input -/

section merge
variable {c : UCmp} (hl : LawfulUCmp c)

theorem insertSorted_perm (e : Entry) (xs : List Entry) : (insertSorted c e xs).Perm (e :: xs) := by
  induction xs with
  | nil => exact List.Perm.refl _
  | cons x xs ih =>
    simp only [insertSorted]
    split
    · exact List.Perm.refl _
    · exact ((List.Perm.cons x ih).trans (List.Perm.swap e x xs))

theorem mem_insertSorted (e a : Entry) (xs : List Entry) : a ∈ insertSorted c e xs ↔ a = e ∨ a ∈ xs := by
  rw [(insertSorted_perm e xs).mem_iff, List.mem_cons]

include hl in
theorem insertSorted_sorted (e : Entry) (xs : List Entry) (hs : ESorted c xs)
    (hne : ∀ x ∈ xs, x.key ≠ e.key) : ESorted c (insertSorted c e xs) := by
  induction xs with
  | nil => simp [insertSorted]
  | cons x xs ih =>
    obtain ⟨hx, hxs⟩ := List.pairwise_cons.1 hs
    simp only [insertSorted]
    split
    · rename_i hlt
      refine List.pairwise_cons.2 ⟨?_, hs⟩
      intro y hy
      rcases List.mem_cons.1 hy with rfl | hy
      · exact hlt
      · exact ecmp_trans hl hlt (hx y hy)
    · rename_i hlt
      have hxe : ecmp c x e = .lt := by
        rcases ecmp_total hl e x with h | h | h
        · exact absurd h hlt
        · exact absurd h.symm (hne x (by simp))
        · exact h
      refine List.pairwise_cons.2 ⟨?_, ih hxs (fun y hy => hne y (List.mem_cons_of_mem _ hy))⟩
      intro y hy
      rcases (mem_insertSorted e y xs).1 hy with rfl | hy
      · exact hxe
      · exact hx y hy

theorem foldl_insert_perm (l acc : List Entry) :
    (l.foldl (fun acc e => insertSorted c e acc) acc).Perm (l ++ acc) := by
  induction l generalizing acc with
  | nil => exact List.Perm.refl _
  | cons e l ih =>
    rw [List.foldl_cons]
    refine (ih _).trans ?_
    refine (List.Perm.append_left l (insertSorted_perm e acc)).trans ?_
    exact List.perm_middle

include hl in
theorem foldl_insert_sorted (l acc : List Entry) (hacc : ESorted c acc)
    (hd : (l ++ acc).Pairwise (fun a b => a.key ≠ b.key)) :
    ESorted c (l.foldl (fun acc e => insertSorted c e acc) acc) := by
  induction l generalizing acc with
  | nil => exact hacc
  | cons e l ih =>
    rw [List.foldl_cons]
    rw [List.cons_append] at hd
    obtain ⟨he, hd'⟩ := List.pairwise_cons.1 hd
    apply ih
    · exact insertSorted_sorted hl e acc hacc (fun x hx => (he x (List.mem_append_right _ hx)).symm)
    · obtain ⟨h1, h2, h3⟩ := List.pairwise_append.1 hd'
      refine List.pairwise_append.2 ⟨h1, ?_, ?_⟩
      · exact (List.Perm.pairwise_iff (fun {a b} (h : a.key ≠ b.key) => h.symm)
          (insertSorted_perm e acc)).2 (List.pairwise_cons.2
            ⟨fun x hx => he x (List.mem_append_right _ hx), h2⟩)
      · intro a ha b hb
        rcases (mem_insertSorted e b acc).1 hb with rfl | hb
        · exact (he a (List.mem_append_left _ ha)).symm
        · exact h3 a ha b hb

/-- the merged input is a permutation of the tables' entries -/
theorem mergeAll_perm (tables : List Table) : (mergeAll c tables).Perm (tables.flatMap (·.entries)) := by
  have := foldl_insert_perm (c := c) (tables.flatMap (·.entries)) []
  simpa [mergeAll] using this

include hl in
/-- … and sorted, provided no internal key occurs twice -/
theorem mergeAll_sorted (tables : List Table)
    (hd : (tables.flatMap (·.entries)).Pairwise (fun a b => a.key ≠ b.key)) :
    ESorted c (mergeAll c tables) := by
  apply foldl_insert_sorted hl _ [] List.Pairwise.nil
  simpa using hd

theorem mem_mergeAll (tables : List Table) (e : Entry) :
    e ∈ mergeAll c tables ↔ ∃ t ∈ tables, e ∈ t.entries := by
  rw [(mergeAll_perm tables).mem_iff, List.mem_flatMap]

end merge

/-! ## the builder -/

/-- builder state after having processed `prev` -/
def stOf : Option Entry → BState
  | none => {}
  | some p => { lastKey := some p.ukey, lastSeq := some p.seq }

theorem bstep_fst (c : UCmp) (minSeq : Nat) (base : Bytes → Bool) (st : BState) (x : Entry) :
    (bstep c minSeq base st x).1 = stOf (some x) := rfl

/-- rule (A): the previous entry has the same user key and is already visible at `minSeq` -/
def Shadowed (minSeq : Nat) (prev : Option Entry) (e : Entry) : Prop :=
  ∃ p, prev = some p ∧ p.ukey = e.ukey ∧ p.seq ≤ minSeq

/-- rule (B): an old tombstone with nothing below it -/
def DropDel (minSeq : Nat) (base : Bytes → Bool) (e : Entry) : Prop :=
  e.kind = Gen.keyTypeDel ∧ e.seq ≤ minSeq ∧ base e.ukey = true

theorem bstep_snd {c : UCmp} (hl : LawfulUCmp c) (minSeq : Nat) (base : Bytes → Bool) (prev : Option Entry)
    (x : Entry) :
    (bstep c minSeq base (stOf prev) x).2 = true ↔ ¬ Shadowed minSeq prev x ∧ ¬ DropDel minSeq base x := by
  cases prev with
  | none =>
    have hS : ¬ Shadowed minSeq none x := by simp [Shadowed]
    simp only [hS, not_false_eq_true, true_and]
    simp [bstep, stOf, DropDel]
    grind
  | some p =>
    by_cases hk : c.cmp p.ukey x.ukey = .eq
    · have hk' := (ucmp_eq_iff hl _ _).1 hk
      have hS : Shadowed minSeq (some p) x ↔ p.seq ≤ minSeq := by simp [Shadowed, hk']
      rw [hS]
      simp [bstep, stOf, hk, DropDel]
      grind
    · have hk' : p.ukey ≠ x.ukey := fun h => hk ((ucmp_eq_iff hl _ _).2 h)
      have hS : ¬ Shadowed minSeq (some p) x := by simp [Shadowed, hk']
      simp only [hS, not_false_eq_true, true_and]
      simp [bstep, stOf, hk, DropDel]
      grind

theorem build_cons (c : UCmp) (minSeq : Nat) (base : Bytes → Bool) (st : BState) (x : Entry)
    (xs : List Entry) :
    build c minSeq base st (x :: xs) =
      if (bstep c minSeq base st x).2 = true then x :: build c minSeq base (stOf (some x)) xs
      else build c minSeq base (stOf (some x)) xs := rfl

/-- the builder only drops: its output is a sublist of its input -/
theorem build_sublist (c : UCmp) (minSeq : Nat) (base : Bytes → Bool) (es : List Entry) :
    ∀ st, (build c minSeq base st es).Sublist es := by
  induction es with
  | nil => intro st; exact List.Sublist.refl _
  | cons x xs ih =>
    intro st
    rw [build_cons]
    split
    · exact (ih _).cons_cons x
    · exact List.Sublist.cons x (ih _)

theorem build_subset (c : UCmp) (minSeq : Nat) (base : Bytes → Bool) (es : List Entry) (st : BState) :
    ∀ e ∈ build c minSeq base st es, e ∈ es :=
  fun _ he => (build_sublist c minSeq base es st).subset he

theorem build_sorted (c : UCmp) (minSeq : Nat) (base : Bytes → Bool) (es : List Entry) (st : BState)
    (hs : ESorted c es) : ESorted c (build c minSeq base st es) :=
  ESorted.sublist (build_sublist c minSeq base es st) hs

section build
variable {c : UCmp} (hl : LawfulUCmp c)
include hl

/-- after an entry with `seq ≤ minSeq`, every later entry of the same user key is dropped -/
theorem build_drops (minSeq : Nat) (base : Bytes → Bool) (es : List Entry) (p : Entry)
    (hp : p.seq ≤ minSeq) (hs : ESorted c (p :: es)) :
    ∀ e ∈ build c minSeq base (stOf (some p)) es, e.ukey ≠ p.ukey := by
  induction es generalizing p with
  | nil => intro e he; cases he
  | cons x xs ih =>
    obtain ⟨hpx, hxs⟩ := List.pairwise_cons.1 hs
    obtain ⟨hx, hxs'⟩ := List.pairwise_cons.1 hxs
    intro e he
    by_cases hk : x.ukey = p.ukey
    · -- shadowed, dropped; continue with `x`
      have hsh : Shadowed minSeq (some p) x := ⟨p, rfl, hk.symm, hp⟩
      have hdrop : ¬ (bstep c minSeq base (stOf (some p)) x).2 = true :=
        fun h => ((bstep_snd hl minSeq base (some p) x).1 h).1 hsh
      rw [build_cons, if_neg hdrop] at he
      have hxseq : x.seq ≤ minSeq := by
        rcases (ecmp_lt_iff hl p x).1 (hpx x (by simp)) with h | ⟨_, h⟩
        · rw [hk] at h; exact absurd h (ult_irrefl hl _)
        · have := Entry.seq_le_of_num_le (Nat.le_of_lt h); omega
      have := ih x hxseq hxs e he
      rwa [hk] at this
    · have hlt : c.lt p.ukey x.ukey := by
        rcases (ecmp_lt_iff hl p x).1 (hpx x (by simp)) with h | ⟨h, _⟩
        · exact h
        · exact absurd h.symm hk
      have hmem : e ∈ x :: xs := build_subset c minSeq base (x :: xs) _ e he
      have hle : c.le x.ukey e.ukey := ESorted.head_ule hl hxs e hmem
      intro heq
      rw [heq] at hle
      exact ult_irrefl hl _ (ult_of_ult_of_ule hl hlt hle)

/-- **Drop rules, per reader.**  For a reader at `s ≥ minSeq` the builder output shows the same newest
entry of `k` as its sorted input, or the input shows a tombstone that rule (B) dropped together with
everything older. -/
theorem build_newest (minSeq : Nat) (base : Bytes → Bool) (k : Bytes) (s : Nat) (hms : minSeq ≤ s)
    (es : List Entry) (prev : Option Entry) (hs : ESorted c es)
    (hprev : ∀ p, prev = some p → p.ukey = k → s < p.seq) :
    newest c (build c minSeq base (stOf prev) es) k s = newest c es k s ∨
    (∃ e, newest c es k s = some e ∧ DropDel minSeq base e ∧
      newest c (build c minSeq base (stOf prev) es) k s = none) := by
  induction es generalizing prev with
  | nil => exact .inl rfl
  | cons x xs ih =>
    obtain ⟨hx, hxs⟩ := List.pairwise_cons.1 hs
    have hsb := build_sorted c minSeq base (x :: xs) (stOf prev) hs
    by_cases hm : Matches c k s x
    · obtain ⟨hxk, hxseq⟩ := (matches_iff hl k s x).1 hm
      have hin : newest c (x :: xs) k s = some x := by
        rw [newest_sorted_eq_find hl _ hs]; simp [hm]
      have hnsh : ¬ Shadowed minSeq prev x := by
        rintro ⟨p, hp, hpk, hpseq⟩
        have := hprev p hp (hpk.trans hxk); omega
      by_cases hd : DropDel minSeq base x
      · refine .inr ⟨x, hin, hd, ?_⟩
        have hdrop : ¬ (bstep c minSeq base (stOf prev) x).2 = true :=
          fun h => ((bstep_snd hl minSeq base prev x).1 h).2 hd
        rw [build_cons, if_neg hdrop, newest_eq_none_iff]
        intro e he hme
        have := build_drops hl minSeq base xs x hd.2.1 hs e he
        exact this (((matches_iff hl k s e).1 hme).1.trans hxk.symm)
      · have hkeep : (bstep c minSeq base (stOf prev) x).2 = true :=
          (bstep_snd hl minSeq base prev x).2 ⟨hnsh, hd⟩
        left
        rw [hin]
        rw [build_cons, if_pos hkeep] at hsb ⊢
        rw [newest_sorted_eq_find hl _ hsb]; simp [hm]
    · have hskip : newest c (x :: xs) k s = newest c xs k s := by
        rw [newest_cons, cand_of_not_matches hm, pickNewer_none_left]
      have hb : newest c (build c minSeq base (stOf prev) (x :: xs)) k s
          = newest c (build c minSeq base (stOf (some x)) xs) k s := by
        rw [build_cons]
        split
        · rw [newest_cons, cand_of_not_matches hm, pickNewer_none_left]
        · rfl
      rw [hskip, hb]
      apply ih (some x) hxs
      intro p hp hpk
      have hpx : x = p := Option.some.inj hp
      subst hpx
      have : ¬ x.seq ≤ s := fun h => hm ((matches_iff hl k s x).2 ⟨hpk, h⟩)
      omega

omit hl in
theorem DropDel.hit {minSeq : Nat} {base : Bytes → Bool} {e : Entry} (h : DropDel minSeq base e) :
    e.hit = .deleted := by
  have : e.kind ≠ Gen.keyTypeVal := by rw [h.1]; decide
  simp [Entry.hit, this]

omit hl in
theorem view_eq_hitOf (es : List Entry) (k : Bytes) (s : Nat) :
    view c es k s = (hitOf (newest c es k s)).toOption := (hitOf_toOption c es k s).symm

/-- **The builder preserves every admissible reader's view.**  `rest` are the sources searched after
the compacted ones (deeper levels); `base` may be true only for user keys none of them holds. -/
theorem build_view (minSeq : Nat) (base : Bytes → Bool) (es rest : List Entry) (hs : ESorted c es)
    (hnewer : NewerThan es rest)
    (hbase : ∀ e ∈ es, base e.ukey = true → ∀ r ∈ rest, r.ukey ≠ e.ukey)
    (k : Bytes) (s : Nat) (hms : minSeq ≤ s) :
    view c (build c minSeq base {} es ++ rest) k s = view c (es ++ rest) k s := by
  have hsub := build_subset c minSeq base es {}
  rw [view_eq_hitOf, view_eq_hitOf, newest_append_of_newer hl _ _ hnewer,
    newest_append_of_newer hl _ _ (hnewer.mono hsub (fun _ h => h))]
  rcases build_newest hl minSeq base k s hms es none hs (by simp) with h | ⟨e, he, hd, hnone⟩
  · rw [show stOf none = ({} : BState) from rfl] at h
    rw [h]
  · rw [show stOf none = ({} : BState) from rfl] at hnone
    rw [hnone, he]
    have hrest : newest c rest k s = none := by
      rw [newest_eq_none_iff]
      intro r hr hm
      have hek := ((matches_iff hl k s e).1 (newest_matches he)).1
      exact hbase e (newest_mem he) hd.2.2 r hr (((matches_iff hl k s r).1 hm).1.trans hek.symm)
    simp only [hrest, Option.or_none, hitOf, hd.hit]
    rfl

/-- the same with newer sources `up` (shallower levels, buffers) searched first -/
theorem build_view_between (minSeq : Nat) (base : Bytes → Bool) (up es down : List Entry)
    (hs : ESorted c es) (hup : NewerThan up (es ++ down)) (hdown : NewerThan es down)
    (hbase : ∀ e ∈ es, base e.ukey = true → ∀ r ∈ down, r.ukey ≠ e.ukey)
    (k : Bytes) (s : Nat) (hms : minSeq ≤ s) :
    view c (up ++ (build c minSeq base {} es ++ down)) k s = view c (up ++ (es ++ down)) k s := by
  have hsub := build_subset c minSeq base es {}
  have hup' : NewerThan up (build c minSeq base {} es ++ down) := by
    apply hup.mono (fun _ h => h)
    intro e he
    rcases List.mem_append.1 he with h | h
    · exact List.mem_append_left _ (hsub e h)
    · exact List.mem_append_right _ h
  have := build_view hl minSeq base es down hs hdown hbase k s hms
  rw [view_eq_hitOf, view_eq_hitOf] at this ⊢
  rw [newest_append_of_newer hl _ _ hup, newest_append_of_newer hl _ _ hup', hitOf_or, hitOf_or]
  cases newest c up k s with
  | some u => rfl
  | none => exact this

end build

end GoLevel
