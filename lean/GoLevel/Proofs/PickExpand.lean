import GoLevel.Proofs.PickOverlap
/-!
# (P1) what `compaction.expand` settles on satisfies the input side conditions of `CompactionOK`

For a well-formed version and a non-empty `t0` that is a sublist of level `src` (which is what `pickCompaction`
and `getCompactionRange` hand to `newCompaction`: `PickInputs.lean`), `expand` does not panic and its result
`(s0, s1, imin, imax, gp)` satisfies:

* `s0` is a non-empty sublist of level `src` containing `t0`, `getRange s0 = (imin, imax)`;
* for `src = 0`, no level-0 table outside `s0` meets `[imin.ukey, imax.ukey]` (closure under overlap);
* `s1` is *exactly* the set of tables of level `src+1` whose user-key range meets `[imin.ukey, imax.ukey]`;
* `gp` is exactly the set of tables of level `src+2` meeting the user-key range of `s0 ++ s1`.
Core Lean only.
-/
namespace GoLevel.Pick

/-! ## `getRange` -/

theorem getRange_eq_none (c : UCmp) (S : List Table) : getRange c S = none ↔ S = [] := by
  cases S with
  | nil => simp [getRange]
  | cons t ts => simp [getRange]

theorem getRange_isSome (c : UCmp) {S : List Table} (h : S ≠ []) : ∃ mn mx, getRange c S = some (mn, mx) := by
  cases hr : getRange c S with
  | none => exact absurd ((getRange_eq_none c S).1 hr) h
  | some p => exact ⟨p.1, p.2, rfl⟩

theorem getRange_fold_mem (c : UCmp) (ts : List Table) (a b : IKey) :
    let r := ts.foldl (fun (x : IKey × IKey) (t : Table) =>
      match x with
      | (mn, mx) => (if icmp c t.imin mn = .lt then t.imin else mn, if icmp c t.imax mx = .gt then t.imax else mx))
      (a, b)
    (r.1 = a ∨ ∃ t ∈ ts, r.1 = t.imin) ∧ (r.2 = b ∨ ∃ t ∈ ts, r.2 = t.imax) := by
  induction ts generalizing a b with
  | nil => exact ⟨.inl rfl, .inl rfl⟩
  | cons t ts ih =>
    simp only [List.foldl_cons]
    obtain ⟨h1, h2⟩ := ih (if icmp c t.imin a = .lt then t.imin else a) (if icmp c t.imax b = .gt then t.imax else b)
    refine ⟨?_, ?_⟩
    · rcases h1 with h1 | ⟨x, hx, h1⟩
      · rw [h1]
        split
        · exact .inr ⟨t, by simp, rfl⟩
        · exact .inl rfl
      · exact .inr ⟨x, List.mem_cons_of_mem _ hx, h1⟩
    · rcases h2 with h2 | ⟨x, hx, h2⟩
      · rw [h2]
        split
        · exact .inr ⟨t, by simp, rfl⟩
        · exact .inl rfl
      · exact .inr ⟨x, List.mem_cons_of_mem _ hx, h2⟩

/-- the two keys `getRange` returns are bounds of members -/
theorem getRange_mem (c : UCmp) (S : List Table) (mn mx : IKey) (h : getRange c S = some (mn, mx)) :
    (∃ t ∈ S, mn = t.imin) ∧ (∃ t ∈ S, mx = t.imax) := by
  cases S with
  | nil => cases h
  | cons t ts =>
    have := getRange_fold_mem c ts t.imin t.imax
    simp only [getRange, Option.some.injEq] at h
    rw [h] at this
    obtain ⟨h1, h2⟩ := this
    refine ⟨?_, ?_⟩
    · rcases h1 with h1 | ⟨x, hx, h1⟩
      · exact ⟨t, by simp, h1⟩
      · exact ⟨x, List.mem_cons_of_mem _ hx, h1⟩
    · rcases h2 with h2 | ⟨x, hx, h2⟩
      · exact ⟨t, by simp, h2⟩
      · exact ⟨x, List.mem_cons_of_mem _ hx, h2⟩

/-! ## the level-0 closure -/

section closure
variable {c : UCmp} (hl : LawfulUCmp c)
include hl

/-- every table meeting the requested range is returned -/
theorem l0_complete (tf : Level) (a b : Bytes) :
    ∀ t ∈ tf, t.overlapsRange c a b = true → t ∈ getOverlapsGo c tf (some a) (some b) true := by
  rw [getOverlapsGo_l0]
  exact getOverlapsL0_complete hl tf _ a b (Nat.le_refl _)

/-- a table left behind does not meet the user-key range (`getRange`) of the returned set -/
theorem l0_closed (tf : Level) (a b : Bytes) (x y : IKey)
    (hr : getRange c (getOverlapsGo c tf (some a) (some b) true) = some (x, y)) :
    ∀ t ∈ tf, t ∉ getOverlapsGo c tf (some a) (some b) true → t.overlapsRange c x.ukey y.ukey = false := by
  rw [getOverlapsGo_l0] at hr ⊢
  obtain ⟨u, w, _, _, h3, h4⟩ := getOverlapsL0_spec hl tf (2 * tf.length + 1) a b (Nat.le_refl _)
  obtain ⟨⟨t1, ht1, hx⟩, ⟨t2, ht2, hy⟩⟩ := getRange_mem c _ x y hr
  intro t ht hn
  have hno : t.overlapsRange c u w = false := by
    cases hov : t.overlapsRange c u w with
    | false => rfl
    | true =>
      exfalso; apply hn
      rw [h3, List.mem_filter]; exact ⟨ht, hov⟩
  rw [not_overlapsRange_iff hl] at hno ⊢
  rcases hno with h | h
  · exact .inl (ult_of_ult_of_ule hl h (by rw [hx]; exact (h4 t1 ht1).1))
  · exact .inr (ult_of_ule_of_ult hl (by rw [hy]; exact (h4 t2 ht2).2) h)

end closure

/-! ## what a source set must satisfy -/

/-- the level-`src` half of the input conditions -/
structure SrcOK (c : UCmp) (v : Version) (src : Nat) (S0 : List Table) (imin imax : IKey) : Prop where
  sub : S0.Sublist (v.lvl src)
  ne : S0 ≠ []
  rng : getRange c S0 = some (imin, imax)
  /-- (L0) closure under overlap within level 0 -/
  closed : src = 0 → ∀ x ∈ v.lvl 0, x ∉ S0 → x.overlapsRange c imin.ukey imax.ukey = false

section expand
variable {c : UCmp} (hl : LawfulUCmp c)
include hl

theorem SrcOK.range {v : Version} {src : Nat} {S0 : List Table} {imin imax : IKey}
    (h : SrcOK c v src S0 imin imax) : ∀ t ∈ S0, c.le imin.ukey t.imin.ukey ∧ c.le t.imax.ukey imax.ukey :=
  getRange_covers hl S0 imin imax h.rng

/-- a table inside a range meets it -/
theorem overlaps_of_inside {t : Table} (ht : c.le t.imin.ukey t.imax.ukey) {a b : Bytes}
    (h : c.le a t.imin.ukey ∧ c.le t.imax.ukey b) : t.overlapsRange c a b = true :=
  (overlapsRange_iff hl t a b).2 ⟨ule_trans hl h.1 ht, ule_trans hl ht h.2⟩

/-- the overlap set of level `src` (either branch) for a range covering `S`, `S ⊆` level `src`, contains `S` -/
theorem src_overlaps_contains (v : Version) (hw : v.WFi c) (src : Nat) (S : List Table)
    (hS : ∀ t ∈ S, t ∈ v.lvl src) (a b : Bytes)
    (hcov : ∀ t ∈ S, c.le a t.imin.ukey ∧ c.le t.imax.ukey b) :
    ∀ t ∈ S, t ∈ getOverlapsGo c (lvlOf v src) (some a) (some b) (src == 0) := by
  intro t ht
  have hle : c.le t.imin.ukey t.imax.ukey := Table.wf_imin_le_imax hl (hw.tables src t (hS t ht))
  have hov := overlaps_of_inside hl hle (hcov t ht)
  by_cases h0 : src = 0
  · subst h0
    exact l0_complete hl _ a b t (hS t ht) hov
  · have hb : (src == 0) = false := by simp [h0]
    rw [hb, lvlOf_eq, getOverlapsGo_sorted hl _
      (fun t ht => Table.wf_imin_le_imax hl (hw.tables src t ht)) (hw.disjoint src (by omega)), List.mem_filter]
    exact ⟨hS t ht, hov⟩

/-- the overlap set of level `src` for any range is a legal source set w.r.t. its own `getRange` -/
theorem src_overlaps_ok (v : Version) (src : Nat) (a b : Bytes) (x y : IKey)
    (hne : getOverlapsGo c (lvlOf v src) (some a) (some b) (src == 0) ≠ [])
    (hr : getRange c (getOverlapsGo c (lvlOf v src) (some a) (some b) (src == 0)) = some (x, y)) :
    SrcOK c v src (getOverlapsGo c (lvlOf v src) (some a) (some b) (src == 0)) x y := by
  refine ⟨getOverlapsGo_sublist c _ _ _ _, hne, hr, ?_⟩
  intro h0
  subst h0
  exact l0_closed hl _ a b x y hr

/-- **first half of `expand`** -/
theorem expandSrc_ok (v : Version) (hw : v.WFi c) (src : Nat) (t0in : List Table)
    (hsub : t0in.Sublist (v.lvl src)) (hne : t0in ≠ []) (t0 : List Table) (imin imax : IKey)
    (h : expandSrc c v src t0in = some (t0, imin, imax)) :
    SrcOK c v src t0 imin imax ∧ ∀ t ∈ t0in, t ∈ t0 := by
  unfold expandSrc at h
  obtain ⟨mn, mx, hr0⟩ := getRange_isSome c hne
  rw [hr0] at h
  simp only [] at h
  by_cases h0 : src = 0
  · rw [if_pos h0] at h
    have hcont := src_overlaps_contains hl v hw src t0in (fun t ht => hsub.subset ht) mn.ukey mx.ukey
      (getRange_covers hl t0in mn mx hr0)
    have hb : (src == 0) = true := by simp [h0]
    rw [hb] at hcont
    have hne' : getOverlapsGo c (lvlOf v src) (some mn.ukey) (some mx.ukey) true ≠ [] := by
      cases t0in with
      | nil => exact absurd rfl hne
      | cons t _ => exact List.ne_nil_of_mem (hcont t (by simp))
    by_cases hlen : (getOverlapsGo c (lvlOf v src) (some mn.ukey) (some mx.ukey) true).length ≠ t0in.length
    · rw [if_pos hlen] at h
      obtain ⟨x, y, hr⟩ := getRange_isSome c hne'
      rw [hr] at h
      simp only [Option.some.injEq, Prod.mk.injEq] at h
      obtain ⟨rfl, rfl, rfl⟩ := h
      have := src_overlaps_ok hl v src mn.ukey mx.ukey x y (by rw [hb]; exact hne') (by rw [hb]; exact hr)
      rw [hb] at this
      exact ⟨this, hcont⟩
    · rw [if_neg hlen] at h
      simp only [Option.some.injEq, Prod.mk.injEq] at h
      obtain ⟨rfl, rfl, rfl⟩ := h
      -- same length: the closure is `t0in` itself
      have hlen' : t0in.length = (getOverlapsGo c (lvlOf v src) (some mn.ukey) (some mx.ukey) true).length := by
        omega
      have hspec := getOverlapsL0_spec hl (lvlOf v src) (2 * (lvlOf v src).length + 1) mn.ukey mx.ukey
        (Nat.le_refl _)
      obtain ⟨u, w, _, _, h3, _⟩ := hspec
      rw [← getOverlapsGo_l0] at h3
      have hsl : t0in.Sublist (getOverlapsGo c (lvlOf v src) (some mn.ukey) (some mx.ukey) true) := by
        have hf : t0in.filter (·.overlapsRange c u w) = t0in := by
          apply List.filter_eq_self.2
          intro t ht
          have := hcont t ht
          rw [h3, List.mem_filter] at this
          exact this.2
        rw [h3, ← hf]
        exact List.Sublist.filter _ hsub
      have heq := hsl.eq_of_length hlen'
      have hr : getRange c (getOverlapsGo c (lvlOf v src) (some mn.ukey) (some mx.ukey) true) = some (mn, mx) := by
        rw [← heq]; exact hr0
      have := src_overlaps_ok hl v src mn.ukey mx.ukey mn mx (by rw [hb]; exact hne') (by rw [hb]; exact hr)
      rw [hb] at this
      exact ⟨this, hcont⟩
  · rw [if_neg h0] at h
    simp only [Option.some.injEq, Prod.mk.injEq] at h
    obtain ⟨rfl, rfl, rfl⟩ := h
    exact ⟨⟨hsub, hne, hr0, fun h => absurd h h0⟩, fun t ht => ht⟩

/-- `expandSrc` does not panic -/
theorem expandSrc_isSome (v : Version) (hw : v.WFi c) (src : Nat) (t0in : List Table)
    (hsub : t0in.Sublist (v.lvl src)) (hne : t0in ≠ []) : ∃ r, expandSrc c v src t0in = some r := by
  unfold expandSrc
  obtain ⟨mn, mx, hr0⟩ := getRange_isSome c hne
  rw [hr0]
  simp only []
  by_cases h0 : src = 0
  · rw [if_pos h0]
    have hcont := src_overlaps_contains hl v hw src t0in (fun t ht => hsub.subset ht) mn.ukey mx.ukey
      (getRange_covers hl t0in mn mx hr0)
    have hb : (src == 0) = true := by simp [h0]
    rw [hb] at hcont
    have hne' : getOverlapsGo c (lvlOf v src) (some mn.ukey) (some mx.ukey) true ≠ [] := by
      cases t0in with
      | nil => exact absurd rfl hne
      | cons t _ => exact List.ne_nil_of_mem (hcont t (by simp))
    split
    · obtain ⟨x, y, hr⟩ := getRange_isSome c hne'
      rw [hr]; exact ⟨_, rfl⟩
    · exact ⟨_, rfl⟩
  · rw [if_neg h0]; exact ⟨_, rfl⟩

/-- level `src+1`: the overlap set is exactly the filter -/
theorem dst_overlaps_eq (v : Version) (hw : v.WFi c) (src : Nat) (a b : Bytes) :
    getOverlapsGo c (lvlOf v (src + 1)) (some a) (some b) false =
      (v.lvl (src + 1)).filter (·.overlapsRange c a b) := by
  rw [lvlOf_eq]
  exact getOverlapsGo_sorted hl _ (fun t ht => Table.wf_imin_le_imax hl (hw.tables _ t ht))
    (hw.disjoint _ (by omega)) a b

/-- **the growing step of `expand`**, when taken -/
theorem expandGrow_ok (limit : Nat) (v : Version) (hw : v.WFi c) (src : Nat) (t0 t1 : List Table)
    (amin amax : IKey) (ht0 : ∀ t ∈ t0, t ∈ v.lvl src)
    (hcov : ∀ t ∈ t0, c.le amin.ukey t.imin.ukey ∧ c.le t.imax.ukey amax.ukey)
    (e0 e1 : List Table) (xmin xmax : IKey)
    (h : expandGrow c limit v src t0 t1 amin amax = some (e0, e1, xmin, xmax)) :
    SrcOK c v src e0 xmin xmax ∧
    e1 = (v.lvl (src + 1)).filter (·.overlapsRange c xmin.ukey xmax.ukey) ∧
    (∀ t ∈ t0, t ∈ e0) ∧ t0.length < e0.length ∧ e1.length = t1.length ∧ tSize t1 + tSize e0 < limit := by
  unfold expandGrow at h
  split at h
  · simp only [] at h
    split at h
    · rename_i hcond
      cases hr : getRange c (getOverlapsGo c (lvlOf v src) (some amin.ukey) (some amax.ukey) (src == 0)) with
      | none => rw [hr] at h; cases h
      | some p =>
        obtain ⟨x, y⟩ := p
        rw [hr] at h
        simp only [] at h
        split at h
        · rename_i hlen
          simp only [Option.some.injEq, Prod.mk.injEq] at h
          obtain ⟨rfl, rfl, rfl, rfl⟩ := h
          have hne : getOverlapsGo c (lvlOf v src) (some amin.ukey) (some amax.ukey) (src == 0) ≠ [] := by
            intro he; rw [he] at hr; cases hr
          refine ⟨src_overlaps_ok hl v src _ _ _ _ hne hr, dst_overlaps_eq hl v hw src _ _,
            src_overlaps_contains hl v hw src t0 ht0 _ _ hcov, hcond.1, hlen, hcond.2⟩
        · cases h
    · cases h
  · cases h

end expand

/-! ## the whole of `expand` -/

/-- what (P1) says about the result of `expand` -/
structure ExpandOK (c : UCmp) (v : Version) (src : Nat) (t0in : List Table) (e : Expanded) : Prop where
  src_ok : SrcOK c v src e.s0 e.imin e.imax
  /-- (L1) -/
  dst_eq : e.s1 = (v.lvl (src + 1)).filter (·.overlapsRange c e.imin.ukey e.imax.ukey)
  keeps : ∀ t ∈ t0in, t ∈ e.s0
  gp_eq : ∃ amin amax, getRange c (e.s0 ++ e.s1) = some (amin, amax) ∧
    e.gp = (v.lvl (src + 2)).filter (·.overlapsRange c amin.ukey amax.ukey)

section whole
variable {c : UCmp} (hl : LawfulUCmp c)
include hl

theorem gp_eq_filter (v : Version) (hw : v.WFi c) (src : Nat) (a b : Bytes) :
    (if src + 2 < v.levels.length then getOverlapsGo c (lvlOf v (src + 2)) (some a) (some b) false else []) =
      (v.lvl (src + 2)).filter (·.overlapsRange c a b) := by
  split
  · rw [lvlOf_eq]
    exact getOverlapsGo_sorted hl _ (fun t ht => Table.wf_imin_le_imax hl (hw.tables _ t ht))
      (hw.disjoint _ (by omega)) a b
  · rename_i hlt
    have : v.lvl (src + 2) = [] := by
      unfold Version.lvl
      rw [List.getElem?_eq_none (by omega)]; rfl
    rw [this]; rfl

/-- **(P1)** -/
theorem expand_ok (limit : Nat) (v : Version) (hw : v.WFi c) (src : Nat) (t0in : List Table)
    (hsub : t0in.Sublist (v.lvl src)) (hne : t0in ≠ []) (e : Expanded)
    (h : expand c limit v src t0in = some e) : ExpandOK c v src t0in e := by
  unfold expand at h
  cases hS : expandSrc c v src t0in with
  | none => rw [hS] at h; cases h
  | some p =>
    obtain ⟨t0, imin, imax⟩ := p
    rw [hS] at h
    simp only [] at h
    obtain ⟨hsrc, hkeep⟩ := expandSrc_ok hl v hw src t0in hsub hne t0 imin imax hS
    cases hA : getRange c (t0 ++ getOverlapsGo c (lvlOf v (src + 1)) (some imin.ukey) (some imax.ukey) false) with
    | none => rw [hA] at h; cases h
    | some q =>
      obtain ⟨amin, amax⟩ := q
      rw [hA] at h
      simp only [] at h
      cases hG : expandGrow c limit v src t0
          (getOverlapsGo c (lvlOf v (src + 1)) (some imin.ukey) (some imax.ukey) false) amin amax with
      | none =>
        rw [hG] at h
        simp only [Option.some.injEq] at h
        subst h
        exact ⟨hsrc, dst_overlaps_eq hl v hw src _ _, hkeep, amin, amax, hA, gp_eq_filter hl v hw src _ _⟩
      | some g =>
        obtain ⟨e0, e1, xmin, xmax⟩ := g
        rw [hG] at h
        simp only [] at h
        have hcovA := getRange_covers hl _ amin amax hA
        obtain ⟨hsrc', hdst', hcont', _⟩ := expandGrow_ok hl limit v hw src t0 _ amin amax
          (fun t ht => hsrc.sub.subset ht) (fun t ht => hcovA t (List.mem_append_left _ ht)) e0 e1 xmin xmax hG
        cases hB : getRange c (e0 ++ e1) with
        | none => rw [hB] at h; cases h
        | some q' =>
          obtain ⟨bmin, bmax⟩ := q'
          rw [hB] at h
          simp only [Option.some.injEq] at h
          subst h
          exact ⟨hsrc', hdst', fun t ht => hcont' t (hkeep t ht), bmin, bmax, hB, gp_eq_filter hl v hw src _ _⟩

/-- **`expand` does not panic** on what its callers hand it -/
theorem expand_isSome (limit : Nat) (v : Version) (hw : v.WFi c) (src : Nat) (t0in : List Table)
    (hsub : t0in.Sublist (v.lvl src)) (hne : t0in ≠ []) : ∃ e, expand c limit v src t0in = some e := by
  unfold expand
  obtain ⟨⟨t0, imin, imax⟩, hS⟩ := expandSrc_isSome hl v hw src t0in hsub hne
  rw [hS]
  simp only []
  obtain ⟨hsrc, _⟩ := expandSrc_ok hl v hw src t0in hsub hne t0 imin imax hS
  have hne1 : t0 ++ getOverlapsGo c (lvlOf v (src + 1)) (some imin.ukey) (some imax.ukey) false ≠ [] := by
    intro he
    exact hsrc.ne (List.append_eq_nil_iff.1 he).1
  obtain ⟨amin, amax, hA⟩ := getRange_isSome c hne1
  rw [hA]
  simp only []
  cases hG : expandGrow c limit v src t0
      (getOverlapsGo c (lvlOf v (src + 1)) (some imin.ukey) (some imax.ukey) false) amin amax with
  | none => exact ⟨_, rfl⟩
  | some g =>
    obtain ⟨e0, e1, xmin, xmax⟩ := g
    simp only []
    have hcovA := getRange_covers hl _ amin amax hA
    obtain ⟨hsrc', _⟩ := expandGrow_ok hl limit v hw src t0 _ amin amax
      (fun t ht => hsrc.sub.subset ht) (fun t ht => hcovA t (List.mem_append_left _ ht)) e0 e1 xmin xmax hG
    have hne2 : e0 ++ e1 ≠ [] := by
      intro he
      exact hsrc'.ne (List.append_eq_nil_iff.1 he).1
    obtain ⟨bmin, bmax, hB⟩ := getRange_isSome c hne2
    rw [hB]
    exact ⟨_, rfl⟩

end whole

end GoLevel.Pick
