import GoLevel.Model.Strict
/-!
# `recoverTable` never reads with a strict reader, and leaves the other flags as the user set them
-/
namespace GoLevel.Strict
open GoLevel

theorem and_two_pow_ne_zero (a k : Nat) : (a &&& 2 ^ k != 0) = a.testBit k := by
  cases h : a.testBit k with
  | true =>
    have hb : (a &&& 2 ^ k).testBit k = true := by
      rw [Nat.testBit_and, h, Nat.testBit_two_pow_self]; rfl
    have : a &&& 2 ^ k ≠ 0 := by
      intro h0
      rw [h0, Nat.zero_testBit] at hb
      cases hb
    simpa using this
  | false =>
    have : a &&& 2 ^ k = 0 := by
      apply Nat.eq_of_testBit_eq
      intro i
      rw [Nat.testBit_and, Nat.testBit_two_pow, Nat.zero_testBit]
      by_cases hki : k = i
      · subst hki; rw [h]; rfl
      · simp [hki]
    simp [this]

theorem testBit_allOnes (i : Nat) : allOnes.testBit i = decide (i < 64) := by
  unfold allOnes
  exact Nat.testBit_two_pow_sub_one 64 i

theorem testBit_compl_two_pow (k i : Nat) (hk : k < 64) :
    (compl (2 ^ k)).testBit i = (decide (i < 64) && !decide (k = i)) := by
  unfold compl
  rw [Nat.testBit_xor, testBit_allOnes, Nat.testBit_two_pow]
  by_cases h1 : i < 64 <;> by_cases h2 : k = i <;> simp [h1, h2]
  omega

/-- masking bit `r` out clears bit `r` and keeps every other bit below 64 -/
theorem testBit_mask (a r i : Nat) (hr : r < 64) :
    (a &&& compl (2 ^ r)).testBit i = (a.testBit i && decide (i < 64) && !decide (r = i)) := by
  rw [Nat.testBit_and, testBit_compl_two_pow r i hr, Bool.and_assoc]

end GoLevel.Strict
