import GoLevel.Proofs.MemArrFind
import GoLevel.Proofs.MemArrLoops
/-! `New`, `Reset`, `Get`, `Find`, `Contains` over the arrays simulate the ideal operations (C14). -/
set_option linter.unusedSectionVars false
set_option linter.unusedSimpArgs false
set_option linter.unusedVariables false
namespace GoLevel.MemArr
open GoLevel.Gen (nKV nKey nVal nHeight nNext tMaxHeight)
open GoLevel.MemDB (Node LawfulCmp)

variable {cmp : Cmp}

/-- `prevNode` is scratch space: any contents of the right length will do -/
theorem Rep.setPrev {a : DB} {d : MemDB.DB} {ix : Bytes → Nat} (r : Rep cmp a d ix) (pn : List Nat)
    (hpn : pn.length = a.prevNode.length) : Rep cmp { a with prevNode := pn } d ix where
  inv := r.inv
  mh := r.mh
  n := r.n
  kvSize := r.kvSize
  used := r.used
  pn := by show pn.length = _; rw [hpn, r.pn]
  fuel := r.fuel
  top := r.top
  chain := r.chain
  node := fun k hk => by
    have h := r.node k hk
    exact ⟨h.lo, h.hi, h.off, h.klen, h.vlen, h.height⟩
  sep := r.sep

/-! ## `New` and `Reset` -/

/-- a state whose `nodeData` is just a zeroed head represents the empty table -/
theorem rep_empty (a : DB) (ix : Bytes → Nat) (hkv : a.kvData = #[]) (hsz : a.nodeData.size = nNext + tMaxHeight)
    (hz : ∀ h, h < tMaxHeight → a.nodeData[nNext + h]? = some 0) (hpn : a.prevNode.length = tMaxHeight)
    (hmh : a.maxHeight = 1) (hn : a.n = 0) (hs : a.kvSize = 0) : Rep cmp a MemDB.DB.empty ix where
  inv := MemDB.inv_empty cmp
  mh := by simp [hmh, MemDB.DB.empty]
  n := by simp [hn, MemDB.DB.empty]
  kvSize := by simp [hs, MemDB.DB.empty]
  used := by simp [hkv, MemDB.DB.empty]
  pn := hpn
  fuel := by simp [MemDB.DB.empty, hsz]
  top := fun h _ h2 => hz h h2
  chain := by
    intro h hh
    have : h = 0 := by simp [MemDB.DB.empty] at hh; omega
    subst this
    simp only [MemDB.DB.empty, List.getElem_cons_zero, Chain]
    simpa using hz 0 tMaxHeight_pos
  node := by intro k hk; simp [MemDB.DB.empty, MemDB.DB.level0] at hk
  sep := by intro k hk; simp [MemDB.DB.empty, MemDB.DB.level0] at hk

/-- `memdb.New` represents the empty ideal table -/
theorem rep_new (ix : Bytes → Nat) : Rep cmp DB.new MemDB.DB.empty ix := by
  apply rep_empty
  · rfl
  · simp [DB.new, nNext_eq]
  · intro h hh
    simp only [DB.new, Array.getElem?_setIfInBounds, Array.getElem?_replicate]
    have h1 := nNext_eq
    have h2 := nHeight_eq
    have : ¬ nHeight = nNext + h := by omega
    have h3 : nNext + h < 4 + tMaxHeight := by omega
    simp [this, h3]
  · simp [DB.new]
  · rfl
  · rfl
  · rfl

/-- `Reset` never panics on a represented table and yields a representation of the empty table -/
theorem reset_sim {a : DB} {d : MemDB.DB} {ix : Bytes → Nat} (r : Rep cmp a d ix) :
    ∃ a', reset a = some a' ∧ Rep cmp a' (MemDB.reset d) ix ∧ a'.gen = a.gen + 1 := by
  have hsz : nNext + tMaxHeight ≤ a.nodeData.size := by have := r.fuel; omega
  have e4 := nNext_eq
  have e0 := nKV_eq
  have e1 := nKey_eq
  have e2 := nVal_eq
  have e3 := nHeight_eq
  have ht := tMaxHeight_pos
  have hs0 : (a.nodeData.extract 0 (nNext + tMaxHeight)).size = nNext + tMaxHeight := by
    simp [Array.size_extract]; omega
  obtain ⟨n1, w1⟩ := wr_some (a := a.nodeData.extract 0 (nNext + tMaxHeight)) (i := nKV) 0 (by omega)
  obtain ⟨_, s1, _⟩ := wr_eq_some w1
  obtain ⟨n2, w2⟩ := wr_some (a := n1) (i := nKey) 0 (by omega)
  obtain ⟨_, s2, _⟩ := wr_eq_some w2
  obtain ⟨n3, w3⟩ := wr_some (a := n2) (i := nVal) 0 (by omega)
  obtain ⟨_, s3, _⟩ := wr_eq_some w3
  obtain ⟨n4, w4⟩ := wr_some (a := n3) (i := nHeight) tMaxHeight (by omega)
  obtain ⟨_, s4, _⟩ := wr_eq_some w4
  obtain ⟨nd', pn', hl, z1, z2, z3⟩ := resetLoop_spec tMaxHeight n4 a.prevNode 0 (by omega) (by rw [r.pn]; omega)
  refine ⟨{ kvData := #[], nodeData := nd', prevNode := pn', maxHeight := 1, n := 0, kvSize := 0,
            gen := a.gen + 1 }, ?_, ?_, rfl⟩
  · unfold reset
    have : ¬ a.nodeData.size < nNext + tMaxHeight := by omega
    simp only [this, if_false, w1, w2, w3, w4, hl, Option.bind_some, Option.bind_eq_bind, Option.pure_def]
  · show Rep cmp _ MemDB.DB.empty ix
    apply rep_empty
    · rfl
    · show nd'.size = _; omega
    · intro h hh
      show nd'[nNext + h]? = some 0
      rw [z3]
      have : nNext + 0 ≤ nNext + h ∧ nNext + h < nNext + 0 + tMaxHeight := by omega
      rw [if_pos this]
    · show pn'.length = _; rw [z2, r.pn]
    · rfl
    · rfl
    · rfl

/-! ## the reads -/

section
variable {a : DB} {d : MemDB.DB} {ix : Bytes → Nat}

/-- the node `findGE` returns is on level 0 (or is the head) -/
theorem findGE_node_mem (hc : LawfulCmp cmp) (r : Rep cmp a d ix) (key : Bytes) (prev : Bool) {k : Bytes}
    (h : (MemDB.findGE cmp d key prev).node = some k) : k ∈ d.level0 := by
  cases prev with
  | true =>
    rw [MemDB.findGE_prev hc r.inv key] at h
    exact MemDB.succ_mem h
  | false =>
    rw [(MemDB.findGE_noprev hc r.inv key).1] at h
    exact MemDB.succ_mem h

/-- when `exact`, the node is the one that carries the key -/
theorem findGE_exact (hc : LawfulCmp cmp) (r : Rep cmp a d ix) (key : Bytes) (prev : Bool) :
    (MemDB.findGE cmp d key prev).exact = decide (key ∈ d.level0) ∧
    (key ∈ d.level0 → (MemDB.findGE cmp d key prev).node = some key) := by
  cases prev with
  | true =>
    rw [MemDB.findGE_prev hc r.inv key]
    exact ⟨rfl, fun hk => MemDB.succ_of_mem hc r.inv.sorted0 hk⟩
  | false =>
    obtain ⟨h1, h2⟩ := MemDB.findGE_noprev hc r.inv key
    exact ⟨h2, fun hk => by rw [h1]; exact MemDB.succ_of_mem hc r.inv.sorted0 hk⟩

theorem contains_sim (r : Rep cmp a d ix) (key : Bytes) :
    contains cmp a key = some (MemDB.contains cmp d key) := by
  obtain ⟨pn', h1, _⟩ := findGE_sim r key false
  simp [contains, h1, MemDB.contains]

theorem get_sim (hc : LawfulCmp cmp) (r : Rep cmp a d ix) (key : Bytes) :
    get cmp a key = some (MemDB.get cmp d key) := by
  obtain ⟨pn', h1, _⟩ := findGE_sim r key false
  obtain ⟨he, hn⟩ := findGE_exact hc r key false
  simp only [get, h1, Option.bind_some, Option.bind_eq_bind, MemDB.get]
  by_cases hk : key ∈ d.level0
  · have hex : (MemDB.findGE cmp d key false).exact = true := by rw [he]; simpa using hk
    rw [hex, hn hk]
    simp [(r.node key hk).nodeVal]
  · have hex : (MemDB.findGE cmp d key false).exact = false := by rw [he]; simpa using hk
    rw [hex]
    simp

theorem find_sim (hc : LawfulCmp cmp) (r : Rep cmp a d ix) (key : Bytes) :
    find cmp a key = some (MemDB.find cmp d key) := by
  obtain ⟨pn', h1, _⟩ := findGE_sim r key false
  simp only [find, h1, Option.bind_some, Option.bind_eq_bind, MemDB.find]
  cases hn : (MemDB.findGE cmp d key false).node with
  | none => simp
  | some k =>
    have hk := findGE_node_mem hc r key false hn
    have hnode := r.node k hk
    have hne : (ix k != 0) = true := by
      have := hnode.lo; have := nNext_eq
      simp; omega
    simp [hne, hnode.nodeKey, hnode.nodeVal]

end

end GoLevel.MemArr
