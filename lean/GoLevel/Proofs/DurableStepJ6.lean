import GoLevel.Proofs.DurableStepJ5
/-!
Job steps, part 6: `newManifest` — `append` with rotation, `rotWrite`, `rotSync`, `rotSetMeta`, `rotRemove`.
-/
namespace GoLevel.Dur

/-- the view of a manifest that consists of the snapshot record of a rotation -/
theorem snapshot_view (cfg : Cfg) (hg : cfg.Good) (s : St) (e : MRec) :
    viewAt cfg ⟨[snapshotRec cfg s e], []⟩ 0 =
      some ⟨applyEdit s.live e, e.jn.getD s.stJn, e.sq.getD s.stSq, s.nextFile⟩ := by
  simp [viewAt, replayM, MAcc.step, snapshotRec, hg.carry, MAcc.view?, applyEdit]

theorem snapshot_view' (cfg : Cfg) (hg : cfg.Good) (s : St) (e : MRec) (x : Nat) :
    viewAt cfg ⟨[{ snapshotRec cfg s e with nf := x }], []⟩ 0 =
      some ⟨applyEdit s.live e, e.jn.getD s.stJn, e.sq.getD s.stSq, x⟩ := by
  simp [viewAt, replayM, MAcc.step, snapshotRec, hg.carry, MAcc.view?, applyEdit]

/-- `ViewBounds` for a manifest with a single admissible view -/
theorem ViewBounds.single {cfg : Cfg} {s : St} {d : Disk} {mf : LogFile MRec} {v : MView}
    (hc : curManifest d = some mf) (hu : mf.unsynced = []) (hv : viewAt cfg mf 0 = some v)
    (h : v.sq ≤ seqHi s ∧ v.nf ≤ s.nextFile ∧ (s.phase = .running → v.jn ≤ s.jcur)) : ViewBounds cfg s d := by
  unfold ViewBounds
  rw [hc]
  simp only [Holds]
  intro k hk
  have : k = 0 := by simpa [hu] using hk
  subst this
  rw [hv]
  exact h

/-- the limbo facts under a step of a job that keeps its edit and outputs, the session and the tables: if the pc
    was one of the retry of a commit, it still is; the edit is not committed by the step -/
theorem LimboOK.job_pc {s : St} {d d' : Disk} (h : LimboOK s d) {j : Job} (hj : s.job = some j) (j' : Job) (nf' : Nat)
    (he : j'.edit = j.edit) (ho : j'.outs = j.outs) (hret : j.pc.retry = true → j'.pc.retry = true)
    (hbc : j'.edit = none ∨ j'.pc.beforeCommit = true) (et : d'.tables = d.tables) (hnf : s.nextFile ≤ nf') :
    LimboOK { s with job := some j', nextFile := nf' } d' := by
  unfold LimboOK at h ⊢
  show Holds' s.limbo _
  refine Holds'.imp (o := s.limbo) h (fun u hu => ?_)
  obtain ⟨a, b, c, e, f, g, k0, k⟩ := hu
  have htg : ∀ t, tableGrpsOf d' t = tableGrpsOf d t := fun t => by unfold tableGrpsOf; rw [et]
  refine ⟨a, b, c, e, f, fun t ht => ⟨(g t ht).1, by rw [htg]; exact (g t ht).2⟩, hbc, ?_⟩
  rcases k with k | k
  · left
    rw [hj] at k
    obtain ⟨k1, k2⟩ : j.edit = some u ∧ j.pc.retry = true := k
    exact ⟨by rw [he]; exact k1, hret k2⟩
  · right
    obtain ⟨k1, k2, k3⟩ := k
    refine ⟨k1, k2, k3.imp (fun t ht => ⟨ht.1, Nat.lt_of_lt_of_le ht.2.1 hnf, ?_⟩)⟩
    rw [et]
    refine ht.2.2.imp (fun tf htf => ⟨htf.1, htf.2.1, htf.2.2.imp (fun g0 hg0 => ?_)⟩)
    obtain ⟨m1, m2, m4, m5, m6, m7⟩ := hg0
    refine ⟨m1, m2, m4, m5, m6, ?_⟩
    rw [hj] at m7
    show ∀ o ∈ j'.outs, t < o.1
    rw [ho]
    exact m7

/-- a job step that touches only manifests other than the one `CURRENT` names -/
theorem Inv.other_manifest_step {cfg : Cfg} {s : St} {d : Disk} (h : Inv cfg s d) {j : Job} (hj : s.job = some j)
    (hnr : ∀ m, j.pc ≠ .rotRemove m) (hbcj : j.pc.beforeCommit = true)
    (ms : Files (LogFile MRec)) (hms : ∀ m, d.current = some m → lookup ms m = lookup d.manifests m)
    (hnd : ms.Pairwise (fun p q => p.1 ≠ q.1)) (j' : Job) (nf' : Nat) (hnf : s.nextFile ≤ nf')
    (hpc' : ∀ m, j'.pc ≠ .rotRemove m) (hk : j'.kind = j.kind)
    (hjob : JobOK cfg { s with job := some j', nextFile := nf' } { d with manifests := ms } j')
    (hlimbo : LimboOK { s with job := some j', nextFile := nf' } { d with manifests := ms }) :
    Inv cfg { s with job := some j', nextFile := nf' } { d with manifests := ms } := by
  have hcm : curManifest { d with manifests := ms } = curManifest d := curManifest_other hms
  have hph := h.not_crashed hj
  have hb := h.bounds hph
  have hnc : NoCommitYet s := by unfold NoCommitYet; rw [hj]; exact hbcj
  have hpf := phase_frame (d' := { d with manifests := ms }) h j' nf' hnf rfl rfl hcm hpc' ⟨j, hj, hnr⟩ (fun _ => hnc)
    (fun j0 h0 => by
      rw [hj] at h0; cases h0
      exact ⟨hk, fun _ hb => by rw [JPc.uninstalled_of_bc hbcj] at hb; cases hb⟩)
    (fun _ => hlimbo)
  constructor
  · exact h.disk.frame (d' := { d with manifests := ms }) hcm rfl (fun _ _ _ _ _ _ _ _ => rfl) h.disk.tnodup hnd
      (fun _ hx => hx) (fun _ hx => hx)
  · exact h.mm.of_same hcm rfl
  · intro _
    exact hb.of_same hcm (h.seqHi_step hj rfl rfl rfl hk (fun _ => hbcj)) hnf (fun hr => ⟨hr, Nat.le_refl _⟩)
  · exact hpf.1
  · exact hpf.2
  · intro hc; exact absurd hc hph
  · exact hjob


theorem upd_eq (s : St) (j' : Job) (nf' : Nat) :
    ({ s with job := some j', nextFile := nf' } : St) =
      s.upd j' nf' s.live s.stJn s.stSq s.manifestFd s.manifestOpen := rfl

/-- the manifest clause of the early pcs as a fact about the current manifest -/
theorem JobOK.settled_early {cfg : Cfg} {s : St} {d : Disk} {j : Job} (h : JobOK cfg s d j) {e : MRec}
    (he : j.edit = some e) (hpc : j.pc.early = true) : Settled cfg s d (MirrorL s) := by
  have := h.manifest
  unfold JobManifestOK at this
  rw [he] at this
  simp only at this
  rwa [JobManifest_early hpc] at this

theorem inv_job_append_rotate {cfg : Cfg} {s : St} {d : Disk} (h : Inv cfg s d) {j : Job}
    (hj : s.job = some j) (hpc : j.pc = .append) {rot : Bool}
    (hrot : rot = true ∨ s.manifestOpen = false ∨ s.manifestFailed = true)
    {s' : St} {d' : Disk} (hs : stepJob cfg s d j rot .ok = some (s', d')) : Inv cfg s' d' := by
  have hok := h.job
  rw [hj] at hok
  have hok : JobOK cfg s d j := hok
  obtain ⟨e, he⟩ := hok.edit_some (by rw [hpc]; rfl)
  rw [stepJob_append_rotate hpc he hrot] at hs
  simp only [Option.some.injEq, Prod.mk.injEq] at hs
  obtain ⟨rfl, rfl⟩ := hs
  have hnr : ∀ m, j.pc ≠ .rotRemove m := by rw [hpc]; intro m hm; cases hm
  have hcl := h.cur_lt hj
  have hne : ∀ m, d.current = some m → m ≠ s.nextFile := by
    intro m hm; rw [hm] at hcl; exact Nat.ne_of_lt hcl
  have hms : ∀ m, d.current = some m → lookup (d.manifests.set s.nextFile {}) m = lookup d.manifests m := by
    intro m hm; rw [lookup_set, if_neg (hne m hm)]
  have hsett := hok.settled_early he (by rw [hpc]; rfl)
  let j' : Job := { j with pc := .rotWrite s.nextFile }
  apply h.other_manifest_step hj hnr (by rw [hpc]; rfl) _ hms (nodup_set h.disk.mnodup _ _) j' (s.nextFile + 1)
    (Nat.le_succ _) (by intro m hm; cases hm) rfl
  case hlimbo =>
    rcases hp : s.phase with _ | _ | _
    · exact absurd hp (h.not_crashed hj)
    · exact LimboOK.of_none (h.limbo_none_of_recovering (by rw [hp]; decide))
    · exact (h.run hp).limbo.job_pc hj j' _ rfl rfl (fun _ => rfl) (Or.inr rfl) rfl (Nat.le_succ _)
  rw [upd_eq]
  apply JobOK.late_next (d' := { d with manifests := d.manifests.set s.nextFile {} }) hok
    (by rw [hpc]; exact ⟨(by intro x; cases x), rfl⟩) j' ⟨rfl, rfl, rfl, rfl, rfl⟩ ⟨(by intro x; cases x), rfl⟩
    (s.nextFile + 1) s.live s.stJn s.stSq s.manifestFd s.manifestOpen (Nat.le_succ _) rfl (fun _ => rfl) hok.one.2
  · unfold JobManifestOK
    show match j.edit with
      | some e => JobManifest cfg _ _ e (.rotWrite s.nextFile)
      | none => _
    rw [he]
    simp only [JobManifest]
    refine ⟨?_, ?_, Nat.lt_succ_self _, ?_⟩
    · unfold Settled lastView at hsett ⊢
      rw [curManifest_other hms]
      exact hsett
    · exact ⟨fun hc => hne _ hc.symm rfl, hcl⟩
    · show lookup (d.manifests.set s.nextFile {}) s.nextFile = _
      rw [lookup_set, if_pos rfl]
  · intro _
    exact ⟨by rw [hpc]; rfl, curManifest_other hms⟩
  · have hl : lastView cfg { d with manifests := d.manifests.set s.nextFile {} } = lastView cfg d := by
      unfold lastView; rw [curManifest_other hms]
    rw [hl]
    exact hok.removals.imp (fun v _ => late_not_rm (j := j')
      ⟨(by intro l x; cases x), (by intro l x; cases x), (by intro l x; cases x)⟩)
  · intro hn; rw [he] at hn; cases hn
  · exact fun _ => rfl
  · exact fun _ => rfl
  · intro hb'; cases hb'

/-- the facts of a rotation pc: the new manifest `m` is not the current one -/
theorem JobOK.rot_facts {cfg : Cfg} {s : St} {d : Disk} {j : Job} (h : JobOK cfg s d j) {e : MRec}
    (he : j.edit = some e) {m : Nat} {P : Prop}
    (hman : JobManifest cfg s d e j.pc = (Settled cfg s d (MirrorL s) ∧ (some m ≠ d.current ∧ Holds d.current (· < m)) ∧ m < s.nextFile ∧ P)) :
    Settled cfg s d (MirrorL s) ∧ (some m ≠ d.current ∧ Holds d.current (· < m)) ∧ m < s.nextFile ∧ P := by
  have := h.manifest
  unfold JobManifestOK at this
  rw [he] at this
  simp only at this
  rwa [hman] at this

theorem inv_job_rotWrite {cfg : Cfg} (hg : cfg.Good) {s : St} {d : Disk} (h : Inv cfg s d) {j : Job}
    (hj : s.job = some j) {m : Nat} (hpc : j.pc = .rotWrite m) {rot : Bool}
    {s' : St} {d' : Disk} (hs : stepJob cfg s d j rot .ok = some (s', d')) : Inv cfg s' d' := by
  have hok := h.job
  rw [hj] at hok
  have hok : JobOK cfg s d j := hok
  obtain ⟨e, he⟩ := hok.edit_some (by rw [hpc]; rfl)
  rw [stepJob_rotWrite hg hpc he] at hs
  simp only [Option.some.injEq, Prod.mk.injEq] at hs
  obtain ⟨rfl, rfl⟩ := hs
  have hnr : ∀ m, j.pc ≠ .rotRemove m := by rw [hpc]; intro m hm; cases hm
  obtain ⟨hsett, ⟨hmc, hcm'⟩, hmlt, hlk⟩ := hok.rot_facts he (m := m) (P := lookup d.manifests m = some ⟨[], []⟩)
    (by rw [hpc]; rfl)
  -- the numbers the snapshot record fixes: every table of the new view and its journal lie below `nextFile`
  have hnums : (∀ t ∈ applyEdit s.live e, t < s.nextFile) ∧ e.jn.getD s.stJn < s.nextFile := by
    obtain ⟨mf, v0, hparts, hvok', _⟩ := h.commit_view' hj he (by rw [hpc]; rfl)
      (by rw [hpc]; exact ⟨(by intro x; cases x), rfl⟩)
    exact ⟨fun t ht => (hvok'.tables t ht).1, hvok'.jnf⟩
  have hms : ∀ c, d.current = some c →
      lookup (d.manifests.modify m (·.append (snapshotRec cfg s e))) c = lookup d.manifests c := by
    intro c hc
    rw [lookup_modify, if_neg (fun ec => hmc (by rw [hc, ec]))]
  let j' : Job := { j with pc := .rotSync m }
  have := h.other_manifest_step hj hnr (by rw [hpc]; rfl) _ hms
    (pairwise_keys_modify (R := (· ≠ ·)) _ _ h.disk.mnodup) j' s.nextFile (Nat.le_refl _) (by intro x hx; cases hx) rfl
  apply this
  case hlimbo =>
    rcases hp : s.phase with _ | _ | _
    · exact absurd hp (h.not_crashed hj)
    · exact LimboOK.of_none (h.limbo_none_of_recovering (by rw [hp]; decide))
    · exact (h.run hp).limbo.job_pc hj j' _ rfl rfl (fun _ => rfl) (Or.inr rfl) rfl (Nat.le_refl _)
  rw [upd_eq]
  apply JobOK.late_next (d' := { d with manifests := d.manifests.modify m (·.append (snapshotRec cfg s e)) }) hok
    (by rw [hpc]; exact ⟨(by intro x; cases x), rfl⟩) j' ⟨rfl, rfl, rfl, rfl, rfl⟩ ⟨(by intro x; cases x), rfl⟩
    s.nextFile s.live s.stJn s.stSq s.manifestFd s.manifestOpen (Nat.le_refl _) rfl (fun _ => rfl) hok.one.2
  · unfold JobManifestOK
    show match j.edit with
      | some e => JobManifest cfg _ _ e (.rotSync m)
      | none => _
    rw [he]
    simp only [JobManifest]
    refine ⟨?_, ⟨hmc, hcm'⟩, hmlt, ?_⟩
    · unfold Settled lastView at hsett ⊢
      rw [curManifest_other hms]
      exact hsett
    · show Holds (lookup (d.manifests.modify m _) m) _
      rw [lookup_modify, if_pos rfl, hlk]
      simp only [Option.map_some, Holds, LogFile.append, List.nil_append, List.head?_cons]
      exact ⟨rfl, hmlt, Nat.le_refl _, hnums⟩
  · intro _
    exact ⟨by rw [hpc]; rfl, curManifest_other hms⟩
  · have hl : lastView cfg { d with manifests := d.manifests.modify m (·.append (snapshotRec cfg s e)) } =
        lastView cfg d := by
      unfold lastView; rw [curManifest_other hms]
    rw [hl]
    exact hok.removals.imp (fun v _ => late_not_rm (j := j')
      ⟨(by intro l x; cases x), (by intro l x; cases x), (by intro l x; cases x)⟩)
  · intro hn; rw [he] at hn; cases hn
  · exact fun _ => rfl
  · exact fun _ => rfl
  · intro hb'; cases hb'

theorem inv_job_rotSync {cfg : Cfg} (hg : cfg.Good) {s : St} {d : Disk} (h : Inv cfg s d) {j : Job}
    (hj : s.job = some j) {m : Nat} (hpc : j.pc = .rotSync m) {rot : Bool}
    {s' : St} {d' : Disk} (hs : stepJob cfg s d j rot .ok = some (s', d')) : Inv cfg s' d' := by
  have hok := h.job
  rw [hj] at hok
  have hok : JobOK cfg s d j := hok
  obtain ⟨e, he⟩ := hok.edit_some (by rw [hpc]; rfl)
  rw [stepJob_rotSync hg hpc] at hs
  simp only [Option.some.injEq, Prod.mk.injEq] at hs
  obtain ⟨rfl, rfl⟩ := hs
  have hnr : ∀ m, j.pc ≠ .rotRemove m := by rw [hpc]; intro m hm; cases hm
  obtain ⟨hsett, ⟨hmc, hcm'⟩, hmlt, hlk⟩ := hok.rot_facts he (m := m)
    (P := Holds (lookup d.manifests m) fun mf => Holds mf.unsynced.head? fun r =>
      mf = ⟨[], [{ snapshotRec cfg s e with nf := r.nf }]⟩ ∧ m < r.nf ∧ r.nf ≤ s.nextFile ∧
      (∀ t ∈ applyEdit s.live e, t < r.nf) ∧ e.jn.getD s.stJn < r.nf) (by rw [hpc]; rfl)
  rw [holds_iff] at hlk
  obtain ⟨mf1, hlk, hr1⟩ := hlk
  rw [holds_iff] at hr1
  obtain ⟨r1, hr1h, hmf1, hr1a, hr1b, hr1c⟩ := hr1
  have hms : ∀ c, d.current = some c → lookup (d.manifests.modify m (·.sync)) c = lookup d.manifests c := by
    intro c hc
    rw [lookup_modify, if_neg (fun ec => hmc (by rw [hc, ec]))]
  let j' : Job := { j with pc := .rotSetMeta m }
  have := h.other_manifest_step hj hnr (by rw [hpc]; rfl) _ hms
    (pairwise_keys_modify (R := (· ≠ ·)) _ _ h.disk.mnodup) j' s.nextFile (Nat.le_refl _) (by intro x hx; cases hx) rfl
  apply this
  case hlimbo =>
    rcases hp : s.phase with _ | _ | _
    · exact absurd hp (h.not_crashed hj)
    · exact LimboOK.of_none (h.limbo_none_of_recovering (by rw [hp]; decide))
    · exact (h.run hp).limbo.job_pc hj j' _ rfl rfl (fun _ => rfl) (Or.inr rfl) rfl (Nat.le_refl _)
  rw [upd_eq]
  apply JobOK.late_next (d' := { d with manifests := d.manifests.modify m (·.sync) }) hok
    (by rw [hpc]; exact ⟨(by intro x; cases x), rfl⟩) j' ⟨rfl, rfl, rfl, rfl, rfl⟩ ⟨(by intro x; cases x), rfl⟩
    s.nextFile s.live s.stJn s.stSq s.manifestFd s.manifestOpen (Nat.le_refl _) rfl (fun _ => rfl) hok.one.2
  · unfold JobManifestOK
    show match j.edit with
      | some e => JobManifest cfg _ _ e (.rotSetMeta m)
      | none => _
    rw [he]
    simp only [JobManifest]
    refine ⟨?_, ⟨hmc, hcm'⟩, hmlt, ?_⟩
    · unfold Settled lastView at hsett ⊢
      rw [curManifest_other hms]
      exact hsett
    · show Holds (lookup (d.manifests.modify m _) m) _
      rw [lookup_modify, if_pos rfl, hlk]
      subst hmf1
      simp only [Option.map_some, Holds, LogFile.sync, LogFile.all, List.nil_append, List.head?_cons]
      exact ⟨rfl, hr1a, hr1b, hr1c⟩
  · intro _
    exact ⟨by rw [hpc]; rfl, curManifest_other hms⟩
  · have hl : lastView cfg { d with manifests := d.manifests.modify m (·.sync) } = lastView cfg d := by
      unfold lastView; rw [curManifest_other hms]
    rw [hl]
    exact hok.removals.imp (fun v _ => late_not_rm (j := j')
      ⟨(by intro l x; cases x), (by intro l x; cases x), (by intro l x; cases x)⟩)
  · intro hn; rw [he] at hn; cases hn
  · exact fun _ => rfl
  · exact fun _ => rfl
  · intro hb'; cases hb'

end GoLevel.Dur
