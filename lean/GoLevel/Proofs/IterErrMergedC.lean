import GoLevel.Proofs.IterErrMergedB
/-!
# `EMerged.failSim`: the five methods (C02 / C08)

Core Lean only.
-/
namespace GoLevel
namespace EMerged
variable {σ τ : Type}
open MergedIter (keyAt keyOf mapIters)

section
variable {o : EIterOps σ} {sh : IterOps τ} {πc : σ → τ} {Hc : σ → Prop} {Fc : σ → Err → Prop}
  (hc : FailSim o sh πc Hc Fc)
include hc

theorem popNext_healthy (c : UCmp) (m : EMerged σ) (d : Dir) (hm : Healthy Hc m) :
    Healthy Hc { m with base := MergedIter.popNext c { m.base with dir := d } } ∧
    proj πc { m with base := MergedIter.popNext c { m.base with dir := d } } =
      MergedIter.popNext c { proj πc m with dir := d } := by
  refine ⟨⟨hm.1, hm.2.1, ?_⟩, ?_⟩
  · have : (MergedIter.popNext c { m.base with dir := d }).iters = m.base.iters := by
      simp only [MergedIter.popNext]; split <;> rfl
    show ∀ s ∈ (MergedIter.popNext c { m.base with dir := d }).iters, Hc s
    rw [this]; exact hm.2.2
  · simp only [proj]; rw [MergedIter.mapIters_popNext]; rfl

theorem popPrev_healthy (c : UCmp) (m : EMerged σ) (d : Dir) (hm : Healthy Hc m) :
    Healthy Hc { m with base := MergedIter.popPrev c { m.base with dir := d } } ∧
    proj πc { m with base := MergedIter.popPrev c { m.base with dir := d } } =
      MergedIter.popPrev c { proj πc m with dir := d } := by
  refine ⟨⟨hm.1, hm.2.1, ?_⟩, ?_⟩
  · have : (MergedIter.popPrev c { m.base with dir := d }).iters = m.base.iters := by
      simp only [MergedIter.popPrev]; split <;> rfl
    show ∀ s ∈ (MergedIter.popPrev c { m.base with dir := d }).iters, Hc s
    rw [this]; exact hm.2.2
  · simp only [proj]; rw [MergedIter.mapIters_popPrev]; rfl

theorem proj_dir (m : EMerged σ) : (proj πc m).dir = m.base.dir := rfl

omit hc in
theorem proj_dir' (m : EMerged σ) : (proj πc m).dir = m.base.dir := rfl

theorem first_healthy (c : UCmp) (m : EMerged σ) (hm : Healthy Hc m) (h : (first o c m).err = none) :
    Healthy Hc (first o c m) ∧ proj πc (first o c m) = MergedIter.first sh c (proj πc m) := by
  unfold first at h ⊢
  simp only [hm.1, Option.isSome_none, Bool.false_eq_true, if_false] at h ⊢
  by_cases hd : m.base.dir = .released
  · simp [hd] at h
  · simp only [hd, if_false] at h ⊢
    have key := resetAllE_healthy hc false .first m hm
    change (resetAllE o false o.first m).err = none →
      Healthy Hc (resetAllE o false o.first m) ∧
      proj πc (resetAllE o false o.first m) = MergedIter.resetAll sh false sh.first (proj πc m) at key
    rcases Option.eq_none_or_eq_some (resetAllE o false o.first m).err with he | ⟨e, he⟩
    ·
      have hn : ¬ ((resetAllE o false o.first m).err.isSome = true) := by simp [he]
      rw [if_neg hn] at h ⊢
      obtain ⟨h1, h2⟩ := key he
      obtain ⟨h3, h4⟩ := popNext_healthy hc c _ .soi h1
      refine ⟨h3, ?_⟩
      rw [h4, h2]
      simp only [MergedIter.first, proj_dir', hd, if_false]
    · simp [he] at h

theorem last_healthy (c : UCmp) (m : EMerged σ) (hm : Healthy Hc m) (h : (last o c m).err = none) :
    Healthy Hc (last o c m) ∧ proj πc (last o c m) = MergedIter.last sh c (proj πc m) := by
  unfold last at h ⊢
  simp only [hm.1, Option.isSome_none, Bool.false_eq_true, if_false] at h ⊢
  by_cases hd : m.base.dir = .released
  · simp [hd] at h
  · simp only [hd, if_false] at h ⊢
    have key := resetAllE_healthy hc true .last m hm
    change (resetAllE o true o.last m).err = none →
      Healthy Hc (resetAllE o true o.last m) ∧
      proj πc (resetAllE o true o.last m) = MergedIter.resetAll sh true sh.last (proj πc m) at key
    rcases Option.eq_none_or_eq_some (resetAllE o true o.last m).err with he | ⟨e, he⟩
    ·
      have hn : ¬ ((resetAllE o true o.last m).err.isSome = true) := by simp [he]
      rw [if_neg hn] at h ⊢
      obtain ⟨h1, h2⟩ := key he
      obtain ⟨h3, h4⟩ := popPrev_healthy hc c _ .eoi h1
      refine ⟨h3, ?_⟩
      rw [h4, h2]
      simp only [MergedIter.last, proj_dir', hd, if_false]
    · simp [he] at h

theorem seek_healthy (c : UCmp) (k : IKey) (m : EMerged σ) (hm : Healthy Hc m)
    (h : (seek o c k m).err = none) :
    Healthy Hc (seek o c k m) ∧ proj πc (seek o c k m) = MergedIter.seek sh c k (proj πc m) := by
  unfold seek at h ⊢
  simp only [hm.1, Option.isSome_none, Bool.false_eq_true, if_false] at h ⊢
  by_cases hd : m.base.dir = .released
  · simp [hd] at h
  · simp only [hd, if_false] at h ⊢
    have key := resetAllE_healthy hc false (.seek k) m hm
    change (resetAllE o false (o.seek k) m).err = none →
      Healthy Hc (resetAllE o false (o.seek k) m) ∧
      proj πc (resetAllE o false (o.seek k) m) = MergedIter.resetAll sh false (sh.seek k) (proj πc m) at key
    rcases Option.eq_none_or_eq_some (resetAllE o false (o.seek k) m).err with he | ⟨e, he⟩
    ·
      have hn : ¬ ((resetAllE o false (o.seek k) m).err.isSome = true) := by simp [he]
      rw [if_neg hn] at h ⊢
      obtain ⟨h1, h2⟩ := key he
      obtain ⟨h3, h4⟩ := popNext_healthy hc c _ .soi h1
      refine ⟨h3, ?_⟩
      rw [h4, h2]
      simp only [MergedIter.seek, proj_dir', hd, if_false]
    · simp [he] at h

theorem tailNext_healthy (c : UCmp) (m : EMerged σ) (hm : Healthy Hc m) (h : (tailNext o c m).err = none) :
    Healthy Hc (tailNext o c m) ∧
    proj πc (tailNext o c m) = MergedIter.popNext c (MergedIter.stepIndex sh sh.next (proj πc m)) := by
  unfold tailNext at h ⊢
  simp only at h ⊢
  have key := stepIndexE_healthy hc .next m hm
  change (stepIndexE o o.next m).err = none →
    Healthy Hc (stepIndexE o o.next m) ∧
    proj πc (stepIndexE o o.next m) = MergedIter.stepIndex sh sh.next (proj πc m) at key
  rcases Option.eq_none_or_eq_some (stepIndexE o o.next m).err with he | ⟨e, he⟩
  ·
    have hn : ¬ ((stepIndexE o o.next m).err.isSome = true) := by simp [he]
    rw [if_neg hn] at h ⊢
    obtain ⟨h1, h2⟩ := key he
    have := popNext_healthy hc c (stepIndexE o o.next m) (stepIndexE o o.next m).base.dir h1
    obtain ⟨h3, h4⟩ := this
    refine ⟨h3, ?_⟩
    rw [← h2]
    exact h4
  · simp [he] at h

theorem tailPrev_healthy (c : UCmp) (m : EMerged σ) (hm : Healthy Hc m) (h : (tailPrev o c m).err = none) :
    Healthy Hc (tailPrev o c m) ∧
    proj πc (tailPrev o c m) = MergedIter.popPrev c (MergedIter.stepIndex sh sh.prev (proj πc m)) := by
  unfold tailPrev at h ⊢
  simp only at h ⊢
  have key := stepIndexE_healthy hc .prev m hm
  change (stepIndexE o o.prev m).err = none →
    Healthy Hc (stepIndexE o o.prev m) ∧
    proj πc (stepIndexE o o.prev m) = MergedIter.stepIndex sh sh.prev (proj πc m) at key
  rcases Option.eq_none_or_eq_some (stepIndexE o o.prev m).err with he | ⟨e, he⟩
  ·
    have hn : ¬ ((stepIndexE o o.prev m).err.isSome = true) := by simp [he]
    rw [if_neg hn] at h ⊢
    obtain ⟨h1, h2⟩ := key he
    have := popPrev_healthy hc c (stepIndexE o o.prev m) (stepIndexE o o.prev m).base.dir h1
    obtain ⟨h3, h4⟩ := this
    refine ⟨h3, ?_⟩
    rw [← h2]
    exact h4
  · simp [he] at h

theorem next_healthy (c : UCmp) (m : EMerged σ) (hm : Healthy Hc m) (h : (next o c m).err = none) :
    Healthy Hc (next o c m) ∧ proj πc (next o c m) = MergedIter.next sh c (proj πc m) := by
  unfold next at h ⊢
  unfold MergedIter.next
  rw [proj_dir' (πc := πc)]
  cases hd : m.base.dir with
  | eoi => simp only [hd, true_or, if_true]; exact ⟨hm, by first | rfl | trivial⟩
  | released => simp [hd, hm.1] at h
  | soi =>
    simp only [hd, hm.1, Option.isSome_none, Bool.false_eq_true, or_self, if_false, reduceCtorEq] at h ⊢
    exact first_healthy hc c m hm h
  | forward =>
    simp only [hd, hm.1, Option.isSome_none, Bool.false_eq_true, or_self, if_false, reduceCtorEq] at h ⊢
    exact tailNext_healthy hc c m hm h
  | backward =>
    simp only [hd, hm.1, Option.isSome_none, Bool.false_eq_true, or_self, if_false, reduceCtorEq] at h ⊢
    have hk : keyAt (proj πc m).keys (proj πc m).index = keyAt m.base.keys m.base.index := rfl
    rw [hk]
    cases hkey : keyAt m.base.keys m.base.index with
    | none => exact ⟨hm, rfl⟩
    | some key =>
      simp only [hkey] at h ⊢
      cases he : (seek o c key m).err with
      | some e => simp [he] at h
      | none =>
        obtain ⟨h1, h2⟩ := seek_healthy hc c key m hm he
        have hv : (MergedIter.seek sh c key (proj πc m)).dir = (seek o c key m).base.dir := by
          rw [← h2]; rfl
        simp only [he, Option.isSome_none, Bool.false_eq_true, Bool.false_or] at h ⊢
        rw [hv]
        cases hval : (seek o c key m).base.dir.valid with
        | false =>
          simp only [Bool.not_false, if_true]
          exact ⟨h1, h2⟩
        | true =>
          simp only [hval, Bool.not_true, Bool.false_eq_true, if_false] at h ⊢
          rw [← h2]
          exact tailNext_healthy hc c _ h1 h

theorem prev_healthy (c : UCmp) (m : EMerged σ) (hm : Healthy Hc m) (h : (prev o c m).err = none) :
    Healthy Hc (prev o c m) ∧ proj πc (prev o c m) = MergedIter.prev sh c (proj πc m) := by
  unfold prev at h ⊢
  unfold MergedIter.prev
  rw [proj_dir' (πc := πc)]
  cases hd : m.base.dir with
  | soi => simp only [hd, true_or, if_true]; exact ⟨hm, by first | rfl | trivial⟩
  | released => simp [hd, hm.1] at h
  | eoi =>
    simp only [hd, hm.1, Option.isSome_none, Bool.false_eq_true, or_self, if_false, reduceCtorEq] at h ⊢
    exact last_healthy hc c m hm h
  | backward =>
    simp only [hd, hm.1, Option.isSome_none, Bool.false_eq_true, or_self, if_false, reduceCtorEq] at h ⊢
    exact tailPrev_healthy hc c m hm h
  | forward =>
    simp only [hd, hm.1, Option.isSome_none, Bool.false_eq_true, or_self, if_false, reduceCtorEq] at h ⊢
    have hk : keyAt (proj πc m).keys (proj πc m).index = keyAt m.base.keys m.base.index := rfl
    rw [hk]
    cases hkey : keyAt m.base.keys m.base.index with
    | none => exact ⟨hm, rfl⟩
    | some key =>
      simp only [hkey] at h ⊢
      cases he : (turnBackE o key m).err with
      | some e => simp [he] at h
      | none =>
        obtain ⟨h1, h2⟩ := turnBackE_healthy hc key m hm he
        simp only [he, Option.isSome_none, Bool.false_eq_true, if_false] at h ⊢
        rw [← h2]
        exact tailPrev_healthy hc c _ h1 h

/-- `Key()`/`Value()` of a healthy state are the twin's -/
theorem cur_healthy (m : EMerged σ) (hm : Healthy Hc m) :
    cur o m = MergedIter.cur sh (proj πc m) := by
  simp only [cur, hm.1, Option.isSome_none, Bool.false_eq_true, if_false, proj]
  apply MergedIter.mapIters_cur
  intro s hs
  exact hc.hcur s (hm.2.2 s (List.mem_of_getElem? hs))

end

/-- once `i.err` is set no method does anything -/
theorem step_failed (o : EIterOps σ) (c : UCmp) (cl : Call IKey) (m : EMerged σ) (e : Err)
    (h : m.err = some e) : (ops o c).toIterOps.step cl m = m := by
  cases cl <;> simp [IterOps.step, ops, first, last, seek, next, prev, h]

/-- **The strict merged iterator over failing children.**  If every child is a `FailSim` (twin `sh`), the
strict `EMerged` is a `FailSim` whose twin is the error-free `MergedIter` over the children's twins; healthy =
`Error()` nil, strict, every child healthy. -/
theorem failSim {o : EIterOps σ} {sh : IterOps τ} {πc : σ → τ} {Hc : σ → Prop} {Fc : σ → Err → Prop}
    (hc : FailSim o sh πc Hc Fc) (c : UCmp) :
    FailSim (ops o c) (MergedIter.ops sh c) (proj πc) (Healthy Hc) (fun m e => m.err = some e) where
  herr := fun _ h => h.1
  hfail := fun _ _ _ _ h => h
  ferr := fun _ _ h => h
  hcur := fun m h => cur_healthy hc m h
  hstep := by
    intro m cl hm he
    cases cl with
    | first => exact first_healthy hc c m hm he
    | last => exact last_healthy hc c m hm he
    | seek k => exact seek_healthy hc c k m hm he
    | next => exact next_healthy hc c m hm he
    | prev => exact prev_healthy hc c m hm he
  masked := fun m e h => by
    have h' : m.err = some e := h
    simp [ops, cur, h']
  sticky := fun m e cl h => by
    have h' : m.err = some e := h
    rw [step_failed o c cl m e h']; exact h

end EMerged
end GoLevel
