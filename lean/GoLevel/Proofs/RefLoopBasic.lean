import GoLevel.Model.RefLoop
/-! Helper lemmas for the reference-loop model (C07): the counter multiset, association lists. -/
namespace GoLevel.RefLoop

theorem count_incrAll (m fs : List Nat) (f : Nat) : (incrAll m fs).count f = m.count f + fs.count f := by
  unfold incrAll
  induction fs generalizing m with
  | nil => simp
  | cons a fs ih =>
    simp only [List.foldl_cons, incr]
    rw [ih, List.count_cons, List.count_cons]
    omega

theorem mem_incrAll {m fs : List Nat} {f : Nat} : f ∈ incrAll m fs ↔ f ∈ m ∨ f ∈ fs := by
  rw [← List.count_pos_iff, count_incrAll, ← List.count_pos_iff, ← List.count_pos_iff]
  omega

/-- `decrAll` on distinct files that all have a positive counter: every counter drops by one, and exactly the
files whose counter was 1 are reported, in order. -/
theorem decrAll_spec (m fs : List Nat) (hnd : fs.Nodup) (hpos : ∀ t ∈ fs, t ∈ m) :
    ∃ m', decrAll m fs = some (m', fs.filter (fun t => m.count t = 1)) ∧
      ∀ f, m'.count f = m.count f - (if f ∈ fs then 1 else 0) := by
  induction fs generalizing m with
  | nil => exact ⟨m, rfl, fun f => by simp⟩
  | cons t ts ih =>
    have hnd' := List.nodup_cons.mp hnd
    have ht : t ∈ m := hpos t List.mem_cons_self
    have hpos' : ∀ u ∈ ts, u ∈ m.erase t := by
      intro u hu
      have hne : u ≠ t := fun h => hnd'.1 (h ▸ hu)
      exact (List.mem_erase_of_ne hne).mpr (hpos u (List.mem_cons_of_mem _ hu))
    obtain ⟨m', hm', hc⟩ := ih (m.erase t) hnd'.2 hpos'
    refine ⟨m', ?_, ?_⟩
    · simp only [decrAll, decr, ht, if_true, hm']
      have hfil : ts.filter (fun u => (m.erase t).count u = 1) = ts.filter (fun u => m.count u = 1) := by
        apply List.filter_congr
        intro u hu
        have hne : u ≠ t := fun h => hnd'.1 (h ▸ hu)
        rw [List.count_erase_of_ne hne]
      rw [hfil]
      have hct : (m.erase t).count t = m.count t - 1 := List.count_erase_self
      simp only [List.filter_cons]
      have hpos1 := List.count_pos_iff.mpr ht
      by_cases h1 : m.count t = 1
      · simp [h1]
      · have h0 : ¬ (m.erase t).count t = 0 := by omega
        have h0' : ¬ m.count t - 1 = 0 := by omega
        simp [h1, h0']
    · intro f
      rw [hc f]
      by_cases hft : f = t
      · subst hft
        have : f ∉ ts := hnd'.1
        simp only [this, if_false, List.mem_cons, true_or, if_true]
        rw [List.count_erase_self]; omega
      · rw [List.count_erase_of_ne hft]
        simp [hft]

/-- `applyDelta` with distinct `deleted` files that are all counted after the additions. -/
theorem applyDelta_spec (m : List Nat) (d : Delta) (hnd : d.deleted.Nodup)
    (hpos : ∀ t ∈ d.deleted, t ∈ m ∨ t ∈ d.added) :
    ∃ m', applyDelta m d = some (m', d.deleted.filter (fun t => m.count t + d.added.count t = 1)) ∧
      ∀ f, m'.count f = m.count f + d.added.count f - (if f ∈ d.deleted then 1 else 0) := by
  unfold applyDelta
  obtain ⟨m', h1, h2⟩ := decrAll_spec (incrAll m d.added) d.deleted hnd (fun t ht => mem_incrAll.mpr (hpos t ht))
  refine ⟨m', ?_, ?_⟩
  · rw [h1]
    congr 2
    apply List.filter_congr
    intro t _
    rw [count_incrAll]
  · intro f; rw [h2 f, count_incrAll]

theorem count_nodup {l : List Nat} (h : l.Nodup) (f : Nat) : l.count f = if f ∈ l then 1 else 0 := by
  split
  · rename_i hm
    have h1 := List.nodup_iff_count.mp h f
    have h2 := List.count_pos_iff.mpr hm
    omega
  · exact List.count_eq_zero.mpr ‹_›

/-! ### association lists -/

theorem lookup_filter_ne {β : Type} (l : List (Nat × β)) (k j : Nat) :
    (l.filter (fun p => p.1 != k)).lookup j = if j = k then none else l.lookup j := by
  induction l with
  | nil => simp
  | cons p l ih =>
    obtain ⟨a, b⟩ := p
    simp only [List.filter_cons]
    by_cases hak : a = k
    · subst hak
      simp only [bne_self_eq_false, Bool.false_eq_true, if_false, ih]
      by_cases hj : j = a
      · simp [hj]
      · have : (j == a) = false := by simp [hj]
        simp [hj, List.lookup_cons, this]
    · have h1 : (a != k) = true := by simp [hak]
      simp only [h1, if_true, List.lookup_cons]
      by_cases hja : j = a
      · subst hja; simp [hak]
      · have : (j == a) = false := by simp [hja]
        simp only [this, ih]

theorem lookup_cons_eq {β : Type} (l : List (Nat × β)) (k j : Nat) (v : β) :
    ((k, v) :: l).lookup j = if j = k then some v else l.lookup j := by
  simp only [List.lookup_cons]
  by_cases h : j = k
  · simp [h]
  · have : (j == k) = false := by simp [h]
    simp [h, this]

end GoLevel.RefLoop
