import GoLevel.Proofs.CacheSys
/-! Uniqueness of values and delFuncs over log, nodes and pending instructions (`LogOK`): a value's `Release`
and a delFunc run at most once. -/
namespace GoLevel.CacheM

set_option linter.unusedSimpArgs false

/-- With distinct ids, a member splits the list into parts that do not contain its id. -/
theorem split_of_mem {ns : List Node} (hnd : (ns.map (·.id)).Nodup) {n0 : Node} (h : n0 ∈ ns) :
    ∃ A B, ns = A ++ n0 :: B ∧ (∀ m ∈ A, m.id ≠ n0.id) ∧ (∀ m ∈ B, m.id ≠ n0.id) := by
  obtain ⟨A, B, rfl⟩ := List.append_of_mem h
  refine ⟨A, B, rfl, ?_, ?_⟩
  · intro m hm heq
    simp only [List.map_append, List.map_cons] at hnd
    have := (List.nodup_append.mp hnd).2.2 m.id (List.mem_map_of_mem hm) n0.id List.mem_cons_self
    exact this heq
  · intro m hm heq
    simp only [List.map_append, List.map_cons] at hnd
    have := (List.nodup_cons.mp (List.nodup_append.mp hnd).2.1).1
    exact this (heq ▸ List.mem_map_of_mem hm)

theorem upd_split {A B : List Node} {n0 : Node} {f : Node → Node}
    (hA : ∀ m ∈ A, m.id ≠ n0.id) (hB : ∀ m ∈ B, m.id ≠ n0.id) :
    upd (A ++ n0 :: B) n0.id f = A ++ f n0 :: B := by
  unfold upd
  simp only [List.map_append, List.map_cons, if_true]
  congr 1
  · conv => rhs; rw [← List.map_id A]
    exact List.map_congr_left (fun m hm => by simp [hA m hm])
  · congr 1
    conv => rhs; rw [← List.map_id B]
    exact List.map_congr_left (fun m hm => by simp [hB m hm])

theorem eraseId_split {A B : List Node} {n0 : Node}
    (hA : ∀ m ∈ A, m.id ≠ n0.id) (hB : ∀ m ∈ B, m.id ≠ n0.id) :
    eraseId (A ++ n0 :: B) n0.id = A ++ B := by
  unfold eraseId
  simp only [List.filter_append, List.filter_cons, bne_self_eq_false, Bool.false_eq_true, if_false]
  congr 1
  · exact List.filter_eq_self.mpr (fun m hm => by simp [hA m hm])
  · exact List.filter_eq_self.mpr (fun m hm => by simp [hB m hm])

theorem upd_absent {ns : List Node} {id : Nat} {f : Node → Node} (h : ∀ m ∈ ns, m.id ≠ id) : upd ns id f = ns := by
  unfold upd
  conv => rhs; rw [← List.map_id ns]
  exact List.map_congr_left (fun m hm => by simp [h m hm])

theorem finVal_finEvents (n : Node) (f : Bool) : (finEvents n f).filterMap finVal = n.value.toList := by
  unfold finEvents
  rw [List.filterMap_append]
  have : (n.delFuncs.map fun d => Ev.delf d (some n.id) f).filterMap finVal = [] := by
    rw [List.filterMap_eq_nil_iff]; intro e he
    obtain ⟨d, _, rfl⟩ := List.mem_map.mp he; rfl
  rw [this]
  cases n.value <;> simp [finVal]

theorem delId_finEvents (n : Node) (f : Bool) : (finEvents n f).filterMap delId = n.delFuncs := by
  unfold finEvents
  rw [List.filterMap_append]
  have h2 : (n.delFuncs.map fun d => Ev.delf d (some n.id) f).filterMap delId = n.delFuncs := by
    induction n.delFuncs with
    | nil => rfl
    | cons d ds ih => simp only [List.map_cons, List.filterMap_cons, delId, ih]
  rw [h2]
  cases n.value <;> simp [delId]

/-- Values of the nodes when only node `n0` changes. -/
theorem vals_split {A B : List Node} (x : Node) :
    (A ++ x :: B).filterMap (·.value) = A.filterMap (·.value) ++ x.value.toList ++ B.filterMap (·.value) := by
  simp only [List.filterMap_append, List.filterMap_cons]
  cases x.value <;> simp

theorem dels_split {A B : List Node} (x : Node) :
    (A ++ x :: B).flatMap (·.delFuncs) = A.flatMap (·.delFuncs) ++ x.delFuncs ++ B.flatMap (·.delFuncs) := by
  simp [List.flatMap_append, List.flatMap_cons]


theorem filterMap_value_upd {ns : List Node} {id : Nat} {f : Node → Node}
    (hf : ∀ n, (f n).value = n.value := by intro _; rfl) :
    (upd ns id f).filterMap (·.value) = ns.filterMap (·.value) := by
  unfold upd
  rw [List.filterMap_map]
  induction ns with
  | nil => rfl
  | cons a ns ih =>
    simp only [List.filterMap_cons, Function.comp]
    have : (if a.id = id then f a else a).value = a.value := by split <;> simp [hf]
    rw [this, ih]

theorem filterMap_value_clearLru {ns : List Node} {ev : List Nat} :
    (clearLru ns ev).filterMap (·.value) = ns.filterMap (·.value) := by
  unfold clearLru
  rw [List.filterMap_map]
  induction ns with
  | nil => rfl
  | cons a ns ih =>
    simp only [List.filterMap_cons, Function.comp]
    have : (if a.id ∈ ev then { a with lru := LruSt.none } else a).value = a.value := by split <;> rfl
    rw [this, ih]

def V (log : List Ev) (ns : List Node) : List Nat := log.filterMap finVal ++ ns.filterMap (·.value)

theorem vals_setv {sh sh' : Shared} {id sf push evs} {log : List Ev}
    (hnd : (sh.nodes.map (·.id)).Nodup) (he : execSetv sh id sf = some (sh', push, evs)) :
    ((V (log ++ evs) sh'.nodes).Perm (V log sh.nodes) ∧ sh'.nextVal = sh.nextVal) ∨
    ((V (log ++ evs) sh'.nodes).Perm (sh.nextVal :: V log sh.nodes) ∧ sh'.nextVal = sh.nextVal + 1) := by
  unfold execSetv at he
  cases hfind : findId sh.nodes id with
  | none => simp [hfind] at he; obtain ⟨rfl, rfl, rfl⟩ := he; left; simp [V]
  | some n0 =>
    have hfs := findId_some hfind
    cases hval : n0.value with
    | some v => simp [hfind, hval] at he; obtain ⟨rfl, rfl, rfl⟩ := he; left; simp [V]
    | none =>
      cases sf with
      | none => simp [hfind, hval] at he; obtain ⟨rfl, rfl, rfl⟩ := he; left; simp [V]
      | nilv sz =>
        simp [hfind, hval] at he; obtain ⟨rfl, rfl, rfl⟩ := he; left
        simp only [V, List.filterMap_append]
        rw [filterMap_value_upd]
        simp only [List.filterMap_cons, finVal, List.filterMap_nil, List.append_nil]
        exact ⟨List.Perm.refl _, trivial⟩
      | val sz =>
        simp [hfind, hval] at he; obtain ⟨rfl, rfl, rfl⟩ := he; right
        refine ⟨?_, rfl⟩
        obtain ⟨A, B, hAB, hA, hB⟩ := split_of_mem hnd hfs.1
        simp only [V, List.filterMap_append]
        rw [hAB, ← hfs.2, upd_split hA hB, vals_split, vals_split, hval]
        simp only [finVal, List.filterMap_cons, List.filterMap_nil, List.append_nil, Option.toList]
        -- L ++ (A' ++ [v] ++ B') ~ v :: (L ++ (A' ++ [] ++ B'))
        simp only [List.append_nil, List.append_assoc, List.singleton_append]
        rw [← List.append_assoc]
        exact List.perm_middle.trans (List.Perm.cons _ (by rw [List.append_assoc]))

theorem vals_fin {sh sh' : Shared} {id f push evs} {log : List Ev}
    (hnd : (sh.nodes.map (·.id)).Nodup) (he : execFin sh id f = some (sh', push, evs)) :
    (V (log ++ evs) sh'.nodes).Perm (V log sh.nodes) ∧ sh'.nextVal = sh.nextVal := by
  unfold execFin at he
  cases hfind : findId sh.nodes id with
  | none =>
    simp only [hfind] at he
    have hev : evs.filterMap finVal = [] := by
      unfold execFinStale at he
      split at he <;> simp only [Option.some.injEq, Prod.mk.injEq] at he <;> obtain ⟨_, _, rfl⟩ := he
      · rfl
      · rw [List.filterMap_eq_nil_iff]; intro e hm
        obtain ⟨d, _, rfl⟩ := List.mem_map.mp hm; rfl
    obtain ⟨st, dd, rfl, rfl⟩ := execFinStale_cases he
    simp [V, hev]
  | some n0 =>
    have hfs := findId_some hfind
    simp [hfind] at he; obtain ⟨rfl, rfl, rfl⟩ := he
    refine ⟨?_, rfl⟩
    obtain ⟨A, B, hAB, hA, hB⟩ := split_of_mem hnd hfs.1
    simp only [V, List.filterMap_append, finVal_finEvents]
    rw [hAB, ← hfs.2, upd_split hA hB, vals_split, vals_split]
    simp only [Option.toList, List.append_nil, List.append_assoc]
    -- L ++ (v ++ (A' ++ B')) ~ L ++ (A' ++ (v ++ B'))
    refine List.Perm.append_left _ ?_
    rw [← List.append_assoc, ← List.append_assoc]
    exact List.Perm.append_right _ List.perm_append_comm

theorem vals_delz {sh sh' : Shared} {k push evs} {log : List Ev}
    (hnd : (sh.nodes.map (·.id)).Nodup) (he : execDelz sh k = some (sh', push, evs)) :
    (V (log ++ evs) sh'.nodes).Perm (V log sh.nodes) ∧ sh'.nextVal = sh.nextVal := by
  unfold execDelz at he
  by_cases hc : sh.closed = true
  · simp [hc] at he; obtain ⟨rfl, rfl, rfl⟩ := he; simp [V]
  · simp only [hc, if_false] at he
    cases hfind : findKey sh.nodes k with
    | none => simp [hfind] at he; obtain ⟨rfl, rfl, rfl⟩ := he; simp [V]
    | some n0 =>
      have hfs := findKey_some hfind
      by_cases h0 : n0.ref = 0
      · simp [hfind, h0] at he; obtain ⟨rfl, rfl, rfl⟩ := he
        refine ⟨?_, rfl⟩
        obtain ⟨A, B, hAB, hA, hB⟩ := split_of_mem hnd hfs.1
        simp only [V, List.filterMap_append, finVal_finEvents]
        rw [hAB, eraseId_split hA hB, vals_split]
        simp only [List.filterMap_append, List.append_assoc]
        refine List.Perm.append_left _ ?_
        rw [← List.append_assoc, ← List.append_assoc]
        exact List.Perm.append_right _ List.perm_append_comm
      · simp [hfind, h0] at he; obtain ⟨rfl, rfl, rfl⟩ := he; simp [V]

theorem vals_rel {sh sh' : Shared} {i push evs} {log : List Ev}
    (hnd : (sh.nodes.map (·.id)).Nodup) (he : exec sh i = some (sh', push, evs)) :
    ((V (log ++ evs) sh'.nodes).Perm (V log sh.nodes) ∧ sh'.nextVal = sh.nextVal) ∨
    ((V (log ++ evs) sh'.nodes).Perm (sh.nextVal :: V log sh.nodes) ∧ sh'.nextVal = sh.nextVal + 1) := by
  cases i
  case setv id sf => exact vals_setv hnd he
  case fin id f => exact Or.inl (vals_fin hnd he)
  case delz k => exact Or.inl (vals_delz hnd he)
  all_goals exec_split he
  all_goals left
  all_goals (simp only [V, List.filterMap_append, List.filterMap_nil, List.append_nil,
    filterMap_value_clearLru, List.filterMap_cons, finVal])
  all_goals (try rw [filterMap_value_upd])
  all_goals first
    | exact ⟨List.Perm.refl _, rfl⟩
    | exact ⟨List.Perm.refl _, trivial⟩

/-! ### delFuncs -/

def D (log : List Ev) (ns : List Node) (P : List Instr) : List Nat :=
  log.filterMap delId ++ ns.flatMap (·.delFuncs) ++ P.flatMap delOf

theorem flatMap_del_upd {ns : List Node} {id : Nat} {f : Node → Node}
    (hf : ∀ n, (f n).delFuncs = n.delFuncs := by intro _; rfl) :
    (upd ns id f).flatMap (·.delFuncs) = ns.flatMap (·.delFuncs) := by
  unfold upd
  induction ns with
  | nil => rfl
  | cons a ns ih =>
    simp only [List.map_cons, List.flatMap_cons]
    have : (if a.id = id then f a else a).delFuncs = a.delFuncs := by split <;> simp [hf]
    rw [this, ih]

theorem flatMap_del_clearLru {ns : List Node} {ev : List Nat} :
    (clearLru ns ev).flatMap (·.delFuncs) = ns.flatMap (·.delFuncs) := by
  unfold clearLru
  induction ns with
  | nil => rfl
  | cons a ns ih =>
    simp only [List.map_cons, List.flatMap_cons]
    have : (if a.id ∈ ev then { a with lru := LruSt.none } else a).delFuncs = a.delFuncs := by split <;> rfl
    rw [this, ih]

theorem delOf_map_unrefExt (l : List Nat) : (l.map Instr.unrefExt).flatMap delOf = [] := by
  induction l with
  | nil => rfl
  | cons a l ih => simp [delOf, ih]

theorem delOf_map_levict {α : Type} (f : α → Nat) (l : List α) :
    (l.map fun a => Instr.levict (f a)).flatMap delOf = [] := by
  induction l with
  | nil => rfl
  | cons a l ih => simp [delOf, ih]

theorem delOf_map_levict' (l : List Nat) : (l.map Instr.levict).flatMap delOf = [] := by
  induction l with
  | nil => rfl
  | cons a l ih => simp [delOf, ih]

theorem flatMap_delOf_nil {l : List Instr} (h : ∀ j ∈ l, delOf j = []) : l.flatMap delOf = [] := by
  induction l with
  | nil => rfl
  | cons a l ih =>
    simp only [List.flatMap_cons, h a List.mem_cons_self, List.nil_append]
    exact ih (fun j hj => h j (List.mem_cons_of_mem _ hj))

theorem dels_fin {sh sh' : Shared} {id f push evs} {log : List Ev} {Q : List Instr}
    (hnd : (sh.nodes.map (·.id)).Nodup) (he : execFin sh id f = some (sh', push, evs))
    (hst : sh'.stale = false) :
    sh'.nextDel = sh.nextDel ∧ ∀ d, (D (log ++ evs) sh'.nodes (push ++ Q)).count d =
      (D log sh.nodes (Instr.fin id f :: Q)).count d := by
  unfold execFin at he
  cases hfind : findId sh.nodes id with
  | none =>
    simp only [hfind] at he
    unfold execFinStale at he
    split at he <;> simp only [Option.some.injEq, Prod.mk.injEq] at he <;> obtain ⟨rfl, rfl, rfl⟩ := he
    · simp [D, delOf]
    · -- nothing was left to run a second time
      rename_i n hn
      simp only [Bool.or_eq_false_iff, Bool.not_eq_eq_eq_not, Bool.not_false, List.isEmpty_iff] at hst
      simp [D, delOf, hst.2]
  | some n0 =>
    have hfs := findId_some hfind
    simp [hfind] at he; obtain ⟨rfl, rfl, rfl⟩ := he
    refine ⟨rfl, fun d => ?_⟩
    obtain ⟨A, B, hAB, hA, hB⟩ := split_of_mem hnd hfs.1
    simp only [D, List.filterMap_append, delId_finEvents, List.nil_append, List.flatMap_cons, delOf]
    rw [hAB, ← hfs.2, upd_split hA hB, dels_split, dels_split]
    simp only [List.count_append, List.count_nil]
    omega

theorem dels_delz {sh sh' : Shared} {k push evs} {log : List Ev} {Q : List Instr}
    (hnd : (sh.nodes.map (·.id)).Nodup) (he : execDelz sh k = some (sh', push, evs)) :
    sh'.nextDel = sh.nextDel ∧ ∀ d, (D (log ++ evs) sh'.nodes (push ++ Q)).count d =
      (D log sh.nodes (Instr.delz k :: Q)).count d := by
  unfold execDelz at he
  by_cases hc : sh.closed = true
  · simp [hc] at he; obtain ⟨rfl, rfl, rfl⟩ := he; simp [D, delOf]
  · simp only [hc, if_false] at he
    cases hfind : findKey sh.nodes k with
    | none => simp [hfind] at he; obtain ⟨rfl, rfl, rfl⟩ := he; simp [D, delOf]
    | some n0 =>
      have hfs := findKey_some hfind
      by_cases h0 : n0.ref = 0
      · simp [hfind, h0] at he; obtain ⟨rfl, rfl, rfl⟩ := he
        refine ⟨rfl, fun d => ?_⟩
        obtain ⟨A, B, hAB, hA, hB⟩ := split_of_mem hnd hfs.1
        simp only [D, List.filterMap_append, delId_finEvents, List.nil_append, List.flatMap_cons, delOf]
        rw [hAB, eraseId_split hA hB, dels_split]
        simp only [List.count_append, List.flatMap_append]
        omega
      · simp [hfind, h0] at he; obtain ⟨rfl, rfl, rfl⟩ := he; simp [D, delOf]

theorem dels_addDel {sh : Shared} {id d0 : Nat} {log : List Ev} {Q : List Instr}
    (hnd : (sh.nodes.map (·.id)).Nodup) :
    ∀ d, (D log (upd sh.nodes id fun n => { n with delFuncs := n.delFuncs ++ [d0] }) Q).count d ≤
      (D log sh.nodes (Instr.addDel id d0 :: Q)).count d := by
  intro d
  cases hfind : findId sh.nodes id with
  | none =>
    rw [upd_absent (findId_none hfind)]
    simp only [D, List.flatMap_cons, delOf, List.count_append]
    omega
  | some n0 =>
    have hfs := findId_some hfind
    obtain ⟨A, B, hAB, hA, hB⟩ := split_of_mem hnd hfs.1
    simp only [D, List.flatMap_cons, delOf]
    rw [hAB, ← hfs.2, upd_split hA hB, dels_split, dels_split]
    simp only [List.count_append]
    omega

/-- How one instruction changes the delFunc bookkeeping: nothing is duplicated, only `Delete` adds a fresh id. -/
theorem dels_rel {sh sh' : Shared} {i push evs} {log : List Ev} {Q : List Instr}
    (hnd : (sh.nodes.map (·.id)).Nodup) (he : exec sh i = some (sh', push, evs)) (hst : sh'.stale = false) :
    sh.nextDel ≤ sh'.nextDel ∧ ∀ d, (D (log ++ evs) sh'.nodes (push ++ Q)).count d ≤
      (D log sh.nodes (i :: Q)).count d + (if d = sh.nextDel ∧ sh'.nextDel = sh.nextDel + 1 then 1 else 0) := by
  cases i
  case fin id f =>
    have := dels_fin (log := log) (Q := Q) hnd he hst
    exact ⟨by omega, fun d => by rw [this.2 d]; omega⟩
  case delz k =>
    have := dels_delz (log := log) (Q := Q) hnd he
    exact ⟨by omega, fun d => by rw [this.2 d]; omega⟩
  case addDel id d0 =>
    simp only [exec, Option.some.injEq, Prod.mk.injEq] at he
    obtain ⟨rfl, rfl, rfl⟩ := he
    refine ⟨by simp, fun d => ?_⟩
    have := dels_addDel (log := log) (Q := Q) (id := id) (d0 := d0) hnd d
    simp only [List.append_nil, List.nil_append]
    omega
  all_goals exec_split he
  all_goals (refine ⟨by simp, fun d => ?_⟩)
  all_goals (simp only [D, List.filterMap_append, List.filterMap_nil, List.append_nil, List.flatMap_append,
    List.flatMap_cons, List.flatMap_nil, delOf, List.filterMap_cons, delId, flatMap_del_clearLru,
    delOf_map_unrefExt, delOf_map_levict, delOf_map_levict', List.nil_append, List.count_append,
    List.count_cons, List.count_nil])
  all_goals (try rw [flatMap_del_upd])
  all_goals first
    | omega
    | (split <;> omega)
    | (rw [flatMap_delOf_nil (by
         intro j hj
         simp only [List.mem_flatMap, List.mem_append, List.mem_cons, List.not_mem_nil, or_false] at hj
         obtain ⟨_, _, hj⟩ := hj
         first
          | (rcases hj with (rfl | rfl) | rfl <;> rfl)
          | (subst hj; rfl))]
       simp only [List.count_nil]; omega)
    | (by_cases hd : d = sh.nextDel
       · subst hd; simp; omega
       · have hne : (sh.nextDel == d) = false := by simp; omega
         simp [hne, hd])

/-! ### `LogOK` in every reachable state -/

theorem stale_mono {sh sh' : Shared} {i push evs} (he : exec sh i = some (sh', push, evs))
    (hs : sh.stale = true) : sh'.stale = true := by
  cases i
  case fin id f =>
    simp only [exec, execFin] at he
    split at he
    · unfold execFinStale at he
      split at he <;> simp only [Option.some.injEq, Prod.mk.injEq] at he <;> obtain ⟨rfl, _, _⟩ := he
      · exact hs
      · simp [hs]
    · simp only [Option.some.injEq, Prod.mk.injEq] at he; obtain ⟨rfl, _, _⟩ := he; exact hs
  all_goals (exec_split he <;> simp_all)

theorem logOK_step {sh sh' : Shared} {i push evs} {log : List Ev} {Q : List Instr}
    (h : LogOK sh (i :: Q) log) (hnd : (sh.nodes.map (·.id)).Nodup)
    (he : exec sh i = some (sh', push, evs)) : LogOK sh' (push ++ Q) (log ++ evs) := by
  constructor
  · have hv := h.vals
    rcases vals_rel (log := log) hnd he with ⟨hp, hn⟩ | ⟨hp, hn⟩
    · exact ⟨hp.nodup_iff.mpr hv.1, fun v hvm => by rw [hn]; exact hv.2 v (hp.mem_iff.mp hvm)⟩
    · refine ⟨hp.nodup_iff.mpr (List.nodup_cons.mpr ⟨fun hm => ?_, hv.1⟩), fun v hvm => ?_⟩
      · have := hv.2 _ hm; omega
      · rw [hn]
        rcases List.mem_cons.mp (hp.mem_iff.mp hvm) with rfl | hm
        · omega
        · have := hv.2 v hm; omega
  · intro hst'
    have hst : sh.stale = false := by
      cases hs : sh.stale with
      | false => rfl
      | true => rw [stale_mono he hs] at hst'; cases hst'
    have hd := h.dels hst
    have hr := dels_rel (log := log) (Q := Q) hnd he hst'
    have hold : ∀ d, (D log sh.nodes (i :: Q)).count d ≤ 1 := List.nodup_iff_count.mp hd.1
    have hfresh : (D log sh.nodes (i :: Q)).count sh.nextDel = 0 := by
      rw [List.count_eq_zero]; intro hm; have := hd.2 _ hm; omega
    constructor
    · refine List.nodup_iff_count.mpr (fun d => ?_)
      show (D (log ++ evs) sh'.nodes (push ++ Q)).count d ≤ 1
      have h1 := hr.2 d
      have h2 := hold d
      by_cases hc : d = sh.nextDel ∧ sh'.nextDel = sh.nextDel + 1
      · rw [if_pos hc] at h1
        rw [hc.1] at h1 ⊢
        omega
      · rw [if_neg hc] at h1; omega
    · intro d hdm
      have hpos : 0 < (D (log ++ evs) sh'.nodes (push ++ Q)).count d := List.count_pos_iff.mpr hdm
      have h1 := hr.2 d
      by_cases hc : d = sh.nextDel ∧ sh'.nextDel = sh.nextDel + 1
      · omega
      · rw [if_neg hc] at h1
        have : d ∈ D log sh.nodes (i :: Q) := List.count_pos_iff.mp (by omega)
        have := hd.2 d this
        omega

theorem logOK_perm {sh : Shared} {P P' : List Instr} {log : List Ev} (h : LogOK sh P log) (hp : P.Perm P') :
    LogOK sh P' log := by
  have hperm : (log.filterMap delId ++ sh.nodes.flatMap (·.delFuncs) ++ P'.flatMap delOf).Perm
      (log.filterMap delId ++ sh.nodes.flatMap (·.delFuncs) ++ P.flatMap delOf) :=
    List.Perm.append_left _ (List.Perm.flatMap_right delOf hp.symm)
  exact ⟨h.vals, fun hst => ⟨hperm.nodup_iff.mpr (h.dels hst).1, fun d hd => (h.dels hst).2 d (hperm.mem_iff.mp hd)⟩⟩

theorem logOK_call {sh : Shared} {P : List Instr} {log : List Ev} (h : LogOK sh P log) (c : Call) :
    LogOK sh (startCall c ++ P) log := by
  have : (startCall c ++ P).flatMap delOf = P.flatMap delOf := by
    cases c <;> simp [startCall, delOf]
  exact ⟨h.vals, fun hst => by rw [this]; exact h.dels hst⟩

theorem logOK_reachable {g : Bool} {s : Sys} (h : Reachable g s) : LogOK s.sh (pending s) s.log := by
  induction h with
  | init clr c n =>
    have hp : pending (Sys.initCfg clr c n) = [] := by
      unfold pending Sys.initCfg
      induction n with
      | zero => rfl
      | succ n ih => simp [List.replicate_succ] at ih ⊢
    rw [hp]
    exact ⟨by simp [Sys.initCfg, Shared.newCfg], fun _ => by simp [Sys.initCfg, Shared.newCfg]⟩
  | @step s s' a hr hs ih =>
    have hinv := inv_reachable hr
    cases a with
    | call t c =>
      simp only [sysStep] at hs
      cases ht : s.threads[t]? with
      | none => rw [ht] at hs; cases hs
      | some l =>
        cases l with
        | cons _ _ => rw [ht] at hs; cases hs
        | nil =>
          rw [ht] at hs
          simp only [Option.some.injEq] at hs; subst hs
          have hperm := flatten_set_perm' s.threads t [] (startCall c) ht
          simp only [List.nil_append] at hperm
          exact logOK_perm (logOK_call ih c) hperm.symm
    | step t =>
      simp only [sysStep] at hs
      cases ht : s.threads[t]? with
      | none => rw [ht] at hs; cases hs
      | some l =>
        cases l with
        | nil => rw [ht] at hs; cases hs
        | cons i rest =>
          rw [ht] at hs
          simp only [] at hs
          by_cases hok : stepOK g s.threads i = true
          · rw [if_pos hok] at hs
            cases he : exec s.sh i with
            | none => rw [he] at hs; cases hs
            | some r =>
              obtain ⟨sh', push, evs⟩ := r
              rw [he] at hs
              simp only [Option.some.injEq] at hs; subst hs
              have hi : i ∈ pending s := mem_of_getElem?_flatten s.threads t _ i ht List.mem_cons_self
              have hp1 : (pending s).Perm (i :: (pending s).erase i) := List.perm_cons_erase hi
              have hnew := logOK_step (logOK_perm ih hp1) hinv.core.ids.1 he
              have hperm := flatten_set_perm s.threads t i rest push ht
              have hp2 : (i :: (s.threads.set t (push ++ rest)).flatten).Perm
                  (i :: (push ++ (pending s).erase i)) := by
                refine hperm.trans ?_
                have : (push ++ pending s).Perm (push ++ (i :: (pending s).erase i)) :=
                  List.Perm.append_left _ hp1
                exact this.trans List.perm_middle
              exact logOK_perm hnew (List.Perm.cons_inv hp2).symm
          · rw [if_neg hok] at hs; cases hs
end GoLevel.CacheM
