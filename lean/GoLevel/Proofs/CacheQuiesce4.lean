import GoLevel.Proofs.CacheQuiesce3
/-! Invariant of the cache system, part 11: accounting of values (`va`) and delFuncs (`da`) — every number handed
out so far is finalised / run, resident in a node, carried by a pending instruction, or (delFuncs only) was
handed to a `Delete` that found the cache closed. -/
namespace GoLevel.CacheM

set_option linter.unusedSimpArgs false

theorem va_step {sh sh' : Shared} {i push evs} {log : List Ev}
    (hva : ∀ v, v < sh.nextVal → v ∈ V log sh.nodes) (hnd : (sh.nodes.map (·.id)).Nodup)
    (he : exec sh i = some (sh', push, evs)) : ∀ v, v < sh'.nextVal → v ∈ V (log ++ evs) sh'.nodes := by
  rcases vals_rel (log := log) hnd he with ⟨hp, hn⟩ | ⟨hp, hn⟩
  · intro v hv; rw [hn] at hv; exact hp.mem_iff.mpr (hva v hv)
  · intro v hv; rw [hn] at hv
    by_cases hvn : v = sh.nextVal
    · subst hvn; exact hp.mem_iff.mpr List.mem_cons_self
    · exact hp.mem_iff.mpr (List.mem_cons_of_mem _ (hva v (by omega)))

theorem mem_of_count_eq {l l' : List Nat} {d : Nat} (h : l'.count d = l.count d) (hd : d ∈ l) : d ∈ l' :=
  List.count_pos_iff.mp (by rw [h]; exact List.count_pos_iff.mpr hd)

theorem da_addDel {sh : Shared} {id d0 : Nat} {log : List Ev} {Q : List Instr}
    (hnd : (sh.nodes.map (·.id)).Nodup) (hex : ∃ n ∈ sh.nodes, n.id = id) :
    ∀ d, (D log (upd sh.nodes id fun n => { n with delFuncs := n.delFuncs ++ [d0] }) Q).count d =
      (D log sh.nodes (Instr.addDel id d0 :: Q)).count d := by
  intro d
  obtain ⟨n0, hn0, rfl⟩ := hex
  obtain ⟨A, B, hAB, hA, hB⟩ := split_of_mem hnd hn0
  simp only [D, List.flatMap_cons, delOf]
  rw [hAB, upd_split hA hB, dels_split, dels_split]
  simp only [List.count_append]
  omega

/-- How one instruction moves delFunc numbers around: none is lost; `Delete` adds one. -/
theorem da_rel {sh sh' : Shared} {i push evs} {log : List Ev} {Q : List Instr}
    (hnd : (sh.nodes.map (·.id)).Nodup) (he : exec sh i = some (sh', push, evs))
    (hex : ∀ id d, i = .addDel id d → ∃ n ∈ sh.nodes, n.id = id)
    (hcl : sh.closed = true → openOnly i = false) :
    sh'.nextDel ≤ sh.nextDel + 1 ∧
    (∀ d, d ∈ D log sh.nodes (i :: Q) ∨ d ∈ sh.dropped →
      d ∈ D (log ++ evs) sh'.nodes (push ++ Q) ∨ d ∈ sh'.dropped) ∧
    (sh'.nextDel = sh.nextDel + 1 →
      sh.nextDel ∈ D (log ++ evs) sh'.nodes (push ++ Q) ∨ sh.nextDel ∈ sh'.dropped) := by
  cases i
  case fin id f =>
    simp only [exec, execFin] at he
    cases hfind : findId sh.nodes id with
    | none =>
      -- a stale pointer: the log only grows
      simp only [hfind] at he
      obtain ⟨st, dd, rfl, rfl⟩ := execFinStale_cases he
      refine ⟨by simp, fun d hd => ?_, fun hnx => by simp at hnx⟩
      rcases hd with hd | hd
      · left
        simp only [D, List.flatMap_cons, delOf, List.nil_append, List.mem_append, List.filterMap_append] at hd ⊢
        rcases hd with (h1 | h1) | h1
        · exact Or.inl (Or.inl (Or.inl h1))
        · exact Or.inl (Or.inr h1)
        · exact Or.inr h1
      · exact Or.inr hd
    | some n0 =>
      have he' : execFin sh id f = some (sh', push, evs) := by simp only [execFin, hfind]; exact (by simpa [hfind] using he)
      have hst : sh'.stale = sh.stale := by
        simp [hfind] at he; obtain ⟨rfl, _, _⟩ := he; rfl
      have hdrop : sh'.dropped = sh.dropped := by
        simp [hfind] at he; obtain ⟨rfl, _, _⟩ := he; rfl
      have hnx : sh'.nextDel = sh.nextDel := by
        simp [hfind] at he; obtain ⟨rfl, _, _⟩ := he; rfl
      have hcnt : ∀ d, (D (log ++ evs) sh'.nodes (push ++ Q)).count d =
          (D log sh.nodes (Instr.fin id f :: Q)).count d := by
        have hfs := findId_some hfind
        simp [hfind] at he; obtain ⟨rfl, rfl, rfl⟩ := he
        intro d
        obtain ⟨A, B, hAB, hA, hB⟩ := split_of_mem hnd hfs.1
        simp only [D, List.filterMap_append, delId_finEvents, List.nil_append, List.flatMap_cons, delOf]
        rw [hAB, ← hfs.2, upd_split hA hB, dels_split, dels_split]
        simp only [List.count_append, List.count_nil]
        omega
      refine ⟨by omega, fun d hd => ?_, fun h => by omega⟩
      rcases hd with hd | hd
      · exact Or.inl (mem_of_count_eq (hcnt d) hd)
      · exact Or.inr (hdrop ▸ hd)
  case delz k =>
    have := dels_delz (log := log) (Q := Q) hnd he
    have hdrop : sh'.dropped = sh.dropped := by
      simp only [exec, execDelz] at he
      repeat' (split at he)
      all_goals (simp at he; obtain ⟨rfl, _, _⟩ := he; rfl)
    refine ⟨by omega, fun d hd => ?_, fun hnx => by omega⟩
    rcases hd with hd | hd
    · exact Or.inl (mem_of_count_eq (this.2 d) hd)
    · exact Or.inr (hdrop ▸ hd)
  case addDel id d0 =>
    have hx := hex id d0 rfl
    simp only [exec, Option.some.injEq, Prod.mk.injEq] at he
    obtain ⟨rfl, rfl, rfl⟩ := he
    refine ⟨by simp, fun d hd => ?_, fun hnx => by simp at hnx⟩
    rcases hd with hd | hd
    · left
      have := da_addDel (log := log) (Q := Q) (d0 := d0) hnd hx d
      simp only [List.append_nil, List.nil_append]
      exact mem_of_count_eq this hd
    · exact Or.inr hd
  all_goals exec_split he
  all_goals (refine ⟨by simp, fun d hd => ?_, fun hd => ?_⟩)
  all_goals (simp only [D, List.filterMap_append, List.filterMap_nil, List.append_nil, List.flatMap_append,
    List.flatMap_cons, List.flatMap_nil, delOf, List.filterMap_cons, delId, flatMap_del_clearLru,
    delOf_map_unrefExt, delOf_map_levict, delOf_map_levict', List.nil_append, List.mem_append,
    List.mem_cons, List.not_mem_nil, or_false, false_or, Option.toList] at hd ⊢)
  all_goals (try rw [flatMap_del_upd] at hd)
  all_goals (try rw [flatMap_del_upd])
  all_goals first
    | (omega)
    | (exact hd)
    | (simp at hd; done)
    | (have := hcl (by assumption); simp [openOnly] at this; done)
    | (grind)
    | skip

end GoLevel.CacheM
