import GoLevel.Model.FSMeta
/-!
# `setMeta` from a clean directory: every state it can end in (`setMeta_shape`)

A *clean* directory (`CleanP`): `CURRENT` holds a pointer to manifest `a` (canonical bytes or not), synced, its
directory entry durable; no pending files; `CURRENT.bak` absent or present with anything in it; the files of
manifests `a` and `b` exist durably; no directory operation is waiting for a `syncDir`.  The inode numbers (0 for
`CURRENT`, 1 for `CURRENT.bak`) are an artefact of the model.

`setMeta_shape`: whatever the oracle does (any system call failing, the process dying before or in the middle of
any of them), the file system `setMeta b` ends in is one of five shapes (`Shape`).
-/
namespace GoLevel.FSMeta

/-- manifest number `n` -/
def m (n : Nat) : FD := ⟨.manifest, n⟩

@[simp] theorem m_inj {a b : Nat} : m a = m b ↔ a = b := by simp [m]
@[simp] theorem m_num (a : Nat) : (m a).num = a := rfl
@[simp] theorem m_ty (a : Nat) : (m a).ty = .manifest := rfl

structure CleanP where
  a : Nat
  b : Nat
  /-- `CURRENT` holds the bytes `fsGenName` would produce -/
  canonA : Bool
  /-- `CURRENT.bak`: anything, synced or not -/
  bak : Option Inode
  files : FD → Bool

structure CleanP.Ok (p : CleanP) : Prop where
  ne : p.a ≠ p.b
  fa : p.files (m p.a) = true
  fb : p.files (m p.b) = true

def CleanP.cur (p : CleanP) : Inode := ⟨.ptr (m p.a) p.canonA, .ptr (m p.a) p.canonA, false⟩

def CleanP.dir (p : CleanP) : Dir :=
  { ents := (.cur, 0) :: (p.bak.map fun _ => (Name.bak, 1)).toList, files := p.files }

def CleanP.fs (p : CleanP) : FS := { inodes := p.cur :: p.bak.toList, ddir := p.dir }

/-- the directory operation that creates `CURRENT.bak` when it did not exist -/
def CleanP.bakLink (p : CleanP) : List DirOp := if p.bak.isSome then [] else [.link .bak 1]

/-- the states a freshly truncated file that is being filled with `c` and synced can be in; `d` = its durable
    content before -/
def filling (d c : Content) : List Inode :=
  [⟨d, .empty, true⟩, ⟨d, c, true⟩, ⟨d, cutOf c, true⟩, ⟨c, c, false⟩, ⟨cutOf c, cutOf c, false⟩, ⟨.empty, .empty, false⟩]

/-- the written backup -/
def CleanP.bakDone (p : CleanP) : Inode := ⟨.ptr (m p.a) p.canonA, .ptr (m p.a) p.canonA, false⟩
def CleanP.newDone (p : CleanP) : Inode := ⟨.gen (m p.b), .gen (m p.b), false⟩

/-- where `setMeta b` from the clean directory `p` can end: `res` its result, `dead` whether the process died -/
inductive Shape (p : CleanP) : Except Err Unit → Bool → FS → Prop
  /-- nothing has happened -/
  | pre (r d) (h : r ≠ .ok () ∨ d = true) : Shape p r d p.fs
  /-- in or after the writing of `CURRENT.bak`, before `CURRENT.<b>` is created -/
  | bak (r d) (h : r ≠ .ok () ∨ d = true) (x : Inode) : Shape p r d ⟨[p.cur, x], p.dir, p.bakLink⟩
  /-- `CURRENT.<b>` created, being filled -/
  | new (r d) (h : r ≠ .ok () ∨ d = true) (y : Inode) (hy : y ∈ filling .empty (.gen (m p.b))) :
      Shape p r d ⟨[p.cur, p.bakDone, y], p.dir, p.bakLink ++ [.link (.pend p.b) 2]⟩
  /-- renamed, the directory not yet synced -/
  | ren (r d) (h : r ≠ .ok () ∨ d = true) :
      Shape p r d ⟨[p.cur, p.bakDone, p.newDone], p.dir,
        p.bakLink ++ [.link (.pend p.b) 2, .rename (.pend p.b) .cur 2]⟩
  /-- everything done and durable -/
  | fin (r d) : Shape p r d ⟨[p.cur, p.bakDone, p.newDone], { ents := [(.cur, 2), (.bak, 1)], files := p.files }, []⟩

end GoLevel.FSMeta

namespace GoLevel.FSMeta

/-- `Shape` of a run's outcome -/
def ShapeW (p : CleanP) (x : Except Err Unit × W) : Prop := Shape p x.1 x.2.dead x.2.fs

/-- case split on the fate of the `k`-th system call, then run on to the next one -/
macro "ostep " o:ident k:num " with " h:ident : tactic =>
  `(tactic| all_goals (try (generalize $o $k = f; cases f <;>
     simp [sysF, FS.vdir, Dir.get, Dir.del, getL, FS.read, FS.ino, Content.gen, FS.setIno, firstErr, FS.op,
       Dir.apply, Dir.set, delL, cutOf, $h:ident])))

macro "shape_close" : tactic =>
  `(tactic| all_goals first
    | exact Shape.pre _ _ (by simp)
    | exact Shape.bak _ _ (by simp) _
    | exact Shape.new _ _ (by simp) _ (by simp [filling, cutOf, Content.gen])
    | exact Shape.ren _ _ (by simp)
    | exact Shape.fin _ _)

set_option maxRecDepth 4000 in
set_option maxHeartbeats 4000000 in
theorem setMeta_shape_none (a b : Nat) (ca : Bool) (files : FD → Bool) (hne : a ≠ b) (o : Nat → Fault) :
    ShapeW ⟨a, b, ca, none, files⟩ (setMeta {} (m b) (W.of (CleanP.fs ⟨a, b, ca, none, files⟩) o)) := by
  simp [CleanP.fs, CleanP.cur, CleanP.dir, setMeta, W.of, stat, sys, readFile, writeFileSynced, openTrunc, write,
    fsync, close, setMetaTail, rename, syncDir]
  ostep o 0 with hne
  ostep o 1 with hne
  ostep o 2 with hne
  ostep o 3 with hne
  ostep o 4 with hne
  ostep o 5 with hne
  ostep o 6 with hne
  ostep o 7 with hne
  ostep o 8 with hne
  ostep o 9 with hne
  ostep o 10 with hne
  ostep o 11 with hne
  all_goals simp only [ShapeW]
  shape_close

set_option maxRecDepth 4000 in
set_option maxHeartbeats 4000000 in
theorem setMeta_shape_some (a b : Nat) (ca : Bool) (x0 : Inode) (files : FD → Bool) (hne : a ≠ b) (o : Nat → Fault) :
    ShapeW ⟨a, b, ca, some x0, files⟩ (setMeta {} (m b) (W.of (CleanP.fs ⟨a, b, ca, some x0, files⟩) o)) := by
  simp [CleanP.fs, CleanP.cur, CleanP.dir, setMeta, W.of, stat, sys, readFile, writeFileSynced, openTrunc, write,
    fsync, close, setMetaTail, rename, syncDir]
  ostep o 0 with hne
  ostep o 1 with hne
  ostep o 2 with hne
  ostep o 3 with hne
  ostep o 4 with hne
  ostep o 5 with hne
  ostep o 6 with hne
  ostep o 7 with hne
  ostep o 8 with hne
  ostep o 9 with hne
  ostep o 10 with hne
  ostep o 11 with hne
  all_goals simp only [ShapeW]
  shape_close

/-- **every state `setMeta b` can end in, from a clean directory, under any oracle** -/
theorem setMeta_shape (p : CleanP) (hp : p.Ok) (o : Nat → Fault) :
    Shape p (setMeta {} (m p.b) (W.of p.fs o)).1 (setMeta {} (m p.b) (W.of p.fs o)).2.dead
      (setMeta {} (m p.b) (W.of p.fs o)).2.fs := by
  obtain ⟨a, b, ca, bak, files⟩ := p
  cases bak with
  | none => exact setMeta_shape_none a b ca files hp.ne o
  | some x0 => exact setMeta_shape_some a b ca x0 files hp.ne o

end GoLevel.FSMeta

namespace GoLevel.FSMeta

/-- `GetMeta`'s answer does not depend on the read-only flag -/
theorem getMeta_fst_ro (cfg : Cfg) (ro : Bool) (w : W) : (getMeta cfg ro w).1 = (getMeta cfg true w).1 := by
  unfold getMeta
  repeat' split
  all_goals rfl

theorem ask_ro (cfg : Cfg) (ro : Bool) (fs : FS) : ask cfg ro fs = ask cfg true fs := getMeta_fst_ro cfg ro _

/-- evaluate `GetMeta` (no faults) on an explicit file system, using the hypotheses at hand -/
macro "eval_ask" : tactic =>
  `(tactic| simp [*, ask, getMeta, W.of, readDir, sys, sysF, FS.pending, FS.vdir, pendNums, sortDesc, insDesc,
     tryCurrents, tryCurrent, readFile, statFile, FS.read, Dir.get, getL, FS.ino, Content.parse, Content.gen, choose,
     repair, FS.image, imageInodes, applyMasked, Inode.image, Dir.apply, Dir.set, Dir.del, delL, cutOf,
     CleanP.fs, CleanP.cur, CleanP.dir, CleanP.bakLink, CleanP.bakDone, CleanP.newDone])

/-- case split on which of the pending directory operations survive / on the fate of inode 2, then evaluate -/
macro "img1 " ops:ident " then " ev:tactic : tactic =>
  `(tactic| (generalize h0 : $ops 0 = m0; cases m0 <;> $ev))
macro "img2k " ops:ident data:ident " then " ev:tactic : tactic =>
  `(tactic| (generalize h0 : $ops 0 = m0; generalize h1 : $ops 1 = m1; generalize hk : $data 2 = k2
             cases m0 <;> cases m1 <;> cases k2 <;> $ev))
macro "img3 " ops:ident " then " ev:tactic : tactic =>
  `(tactic| (generalize h0 : $ops 0 = m0; generalize h1 : $ops 1 = m1; generalize h2 : $ops 2 = m2
             cases m0 <;> cases m1 <;> cases m2 <;> $ev))

set_option maxRecDepth 4000 in
set_option maxHeartbeats 4000000 in
/-- **a machine crash in any state `setMeta b` can end in: `GetMeta` answers `a` or `b`** -/
theorem shape_image (p : CleanP) (hp : p.Ok) {r : Except Err Unit} {d : Bool} {fs : FS} (h : Shape p r d fs)
    (ch : Choice) : ask {} true (fs.image ch) = .ok (m p.a) ∨ ask {} true (fs.image ch) = .ok (m p.b) := by
  obtain ⟨a, b, ca, bak, files⟩ := p
  obtain ⟨hne, fa, fb⟩ := hp
  obtain ⟨ops, data⟩ := ch
  try simp only at hne fa fb
  have hne' : ¬ b = a := fun h => hne h.symm
  by_cases hab : a < b <;> cases bak <;> cases h
  case pos.none.pre => eval_ask
  case pos.none.bak => img1 ops then eval_ask
  case pos.none.new _ y hy =>
    simp [filling, cutOf, Content.gen] at hy
    rcases hy with rfl | rfl | rfl | rfl | rfl | rfl <;> img2k ops data then eval_ask
  case pos.none.ren => img3 ops then eval_ask
  case pos.none.fin => eval_ask
  case pos.some.pre => eval_ask
  case pos.some.bak => img1 ops then eval_ask
  case pos.some.new _ y hy =>
    simp [filling, cutOf, Content.gen] at hy
    rcases hy with rfl | rfl | rfl | rfl | rfl | rfl <;> img2k ops data then eval_ask
  case pos.some.ren => img3 ops then eval_ask
  case pos.some.fin => eval_ask
  case neg.none.pre => eval_ask
  case neg.none.bak => img1 ops then eval_ask
  case neg.none.new _ y hy =>
    simp [filling, cutOf, Content.gen] at hy
    rcases hy with rfl | rfl | rfl | rfl | rfl | rfl <;> img2k ops data then eval_ask
  case neg.none.ren => img3 ops then eval_ask
  case neg.none.fin => eval_ask
  case neg.some.pre => eval_ask
  case neg.some.bak => img1 ops then eval_ask
  case neg.some.new _ y hy =>
    simp [filling, cutOf, Content.gen] at hy
    rcases hy with rfl | rfl | rfl | rfl | rfl | rfl <;> img2k ops data then eval_ask
  case neg.some.ren => img3 ops then eval_ask
  case neg.some.fin => eval_ask

end GoLevel.FSMeta
