import GoLevel.Model.Bytes
/-! Local copies of the byte-codec lemmas needed by the table proofs (C13). -/
namespace GoLevel.TableAux
open GoLevel

theorem leN_length (n x : Nat) : (leN n x).length = n := by
  induction n generalizing x with
  | zero => simp [leN]
  | succ n ih => simp [leN, ih]

theorem toUInt8_toNat (x : Nat) (h : x < 256) : x.toUInt8.toNat = x := by
  simp [Nat.toUInt8, UInt8.toNat_ofNat']
  omega

theorem rdLE_leN (n x : Nat) : rdLE (leN n x) = x % 256 ^ n := by
  induction n generalizing x with
  | zero => simp [leN, rdLE, Nat.mod_one]
  | succ n ih =>
    simp only [leN, rdLE, ih]
    rw [toUInt8_toNat _ (Nat.mod_lt _ (by decide)), Nat.pow_succ, Nat.mul_comm (256 ^ n) 256, Nat.mod_mul]

theorem rd32_le32 (x : Nat) (h : x < 2 ^ 32) (rest : Bytes) : rd32 (le32 x ++ rest) = x := by
  have hl : (le32 x).length = 4 := leN_length 4 x
  simp only [rd32, le32] at *
  rw [List.take_left' hl, rdLE_leN]
  exact Nat.mod_eq_of_lt (by simpa using h)

theorem uvarint_length_pos (x : Nat) : 0 < (uvarint x).length := by
  rw [uvarint]; split <;> simp

theorem readUvarintAux_uvarint (x : Nat) : ∀ (i shift acc : Nat) (rest : Bytes),
    i ≤ 9 → x < 2 ^ (64 - 7 * i) →
    readUvarintAux i shift acc (uvarint x ++ rest) = some (acc + x * 2 ^ shift, i + (uvarint x).length) := by
  induction x using Nat.strongRecOn with
  | ind x ih =>
    intro i shift acc rest hi hx
    rw [uvarint]
    split
    · rename_i hlt
      have hb : x.toUInt8.toNat = x := toUInt8_toNat x (by omega)
      simp only [List.cons_append, List.nil_append, readUvarintAux, hb]
      have : i ≠ 10 := by omega
      simp only [this, if_false, hlt, if_true]
      have : ¬ (i = 9 ∧ x > 1) := by
        rintro ⟨rfl, h1⟩
        simp at hx; omega
      simp [this]
    · rename_i hge
      have hb : (x % 128 + 128).toUInt8.toNat = x % 128 + 128 := toUInt8_toNat _ (by omega)
      simp only [List.cons_append, readUvarintAux, hb]
      have h10 : i ≠ 10 := by omega
      have hnlt : ¬ (x % 128 + 128 < 128) := by omega
      simp only [h10, if_false, hnlt]
      have hi8 : i ≤ 8 := by
        apply Classical.byContradiction
        intro hc
        have : i = 9 := by omega
        subst this
        simp at hx; omega
      have hx' : x / 128 < 2 ^ (64 - 7 * (i + 1)) := by
        have : 2 ^ (64 - 7 * i) = 128 * 2 ^ (64 - 7 * (i + 1)) := by
          rw [show 64 - 7 * i = (64 - 7 * (i + 1)) + 7 by omega, Nat.pow_add]; omega
        rw [this] at hx
        exact Nat.div_lt_of_lt_mul hx
      have hlt : x / 128 < x := Nat.div_lt_self (by omega) (by decide)
      have hi1 : i + 1 ≤ 9 := by omega
      have ihx := ih (x / 128) hlt (i + 1) (shift + 7) (acc + (x % 128 + 128 - 128) * 2 ^ shift) rest hi1 hx'
      refine ihx.trans ?_
      have e : x % 128 + 128 - 128 = x % 128 := by omega
      have h1 : acc + x % 128 * 2 ^ shift + x / 128 * 2 ^ (shift + 7) = acc + x * 2 ^ shift := by
        rw [Nat.pow_add]
        have := Nat.div_add_mod x 128
        generalize 2 ^ shift = p at *
        calc acc + x % 128 * p + x / 128 * (p * 2 ^ 7)
            = acc + (128 * (x / 128) + x % 128) * p := by
              rw [Nat.add_mul, show (2:Nat) ^ 7 = 128 by decide]
              rw [Nat.mul_comm p 128, ← Nat.mul_assoc, Nat.mul_comm (x / 128) 128]; omega
          _ = acc + x * p := by rw [this]
      have h2 : i + 1 + (uvarint (x / 128)).length = i + ((uvarint (x / 128)).length + 1) := by omega
      simp only [e, List.length_cons, h1, h2]

theorem readUvarint_uvarint (x : Nat) (h : x < 2 ^ 64) (rest : Bytes) :
    readUvarint (uvarint x ++ rest) = some (x, (uvarint x).length) := by
  have := readUvarintAux_uvarint x 0 0 0 rest (by omega) (by simpa using h)
  simpa [readUvarint] using this

theorem uvarint_length_le (n : Nat) : ∀ x, x < 128 ^ (n + 1) → (uvarint x).length ≤ n + 1 := by
  induction n with
  | zero =>
    intro x hx
    rw [uvarint]
    have : x < 128 := by simpa using hx
    simp [this]
  | succ n ih =>
    intro x hx
    rw [uvarint]
    split
    · simp
    · have : x / 128 < 128 ^ (n + 1) := by
        rw [Nat.pow_succ] at hx
        exact Nat.div_lt_of_lt_mul (by rw [Nat.mul_comm]; exact hx)
      have := ih _ this
      simp; omega

theorem uvarint_length_le5 (x : Nat) (h : x < 2 ^ 32) : (uvarint x).length ≤ 5 :=
  uvarint_length_le 4 x (by
    have : (2:Nat) ^ 32 ≤ 128 ^ 5 := by decide
    omega)

end GoLevel.TableAux
