import GoLevel.Proofs.WriteProtoGInv3
import GoLevel.Proofs.WriteProtoLive
set_option linter.unusedSimpArgs false
/-! `RM` (the writer waiting for the reply of a replying leader is in its list), `AM` (a writer with
`acc = some j` is in `j`'s list) and `Sq` (the group's first sequence number is `db.seq + 1` until it is
published or given up). -/
namespace GoLevel.WP

/-- between leaving the merge loop and `db.addSeq` -/
def inGroup : Pc → Bool
  | .lead .journal _ _ => true | .lead .apply _ _ => true | .lead .publish _ _ => true | _ => false

def RM (s : St) : Prop :=
  ∀ (i : Nat) (w : Thread) (j : Nat) (l : Thread), s.ws[i]? = some w → w.pc = .waitMerged →
    s.ws[j]? = some l → isReplying l.pc = true → memOf i w ∈ l.members

def AM (s : St) : Prop :=
  ∀ (i : Nat) (w : Thread) (j : Nat), s.ws[i]? = some w → w.acc = some j →
    ∃ l, s.ws[j]? = some l ∧ memOf i w ∈ l.members

def Sq (s : St) : Prop :=
  ∀ (j : Nat) (l : Thread), s.ws[j]? = some l → inGroup l.pc = true → l.gseq = s.seq + 1

theorem no_wm (u : St) (c : CInv u) (h : ∀ (a : Nat) (x : Thread), u.ws[a]? = some x → pendReply x.pc = 0)
    (a : Nat) (x : Thread) (ha : u.ws[a]? = some x) : x.pc ≠ .waitMerged := by
  intro hpc
  have h0 := tot_eq_zero pendReply u.ws h
  have := le_tot_of_mem isWM u.ws a x ha
  rw [hpc] at this; simp [isWM] at this
  have := c.replies; omega

/-- while a leader is in its merge loop with nothing pending, nobody waits on `writeMergedC` -/
theorem no_wm_merging (s : St) (c : CInv s) (j : Nat) (l : Thread) (m : Nat) (hj : s.ws[j]? = some l)
    (hp : l.pc = .lead .merging m false) (a : Nat) (x : Thread) (ha : s.ws[a]? = some x) :
    x.pc ≠ .waitMerged := by
  apply no_wm s c _ a x ha
  intro b y hb
  by_cases hh : 0 < holds y.pc
  · have := holder_unique s c b j y l hb hj hh (by simp [hp, holds])
    subst this; rw [hj] at hb; cases hb; simp [hp, pendReply]
  · have := pendReply_le_holds y.pc; omega

theorem holds_of_isReplying (p : Pc) (h : isReplying p = true) : 0 < holds p := by
  cases p with
  | lead ph m o => cases ph <;> simp_all [isReplying, holds]
  | _ => simp [isReplying] at h

theorem holds_of_inGroup (p : Pc) (h : inGroup p = true) : 0 < holds p := by
  cases p with
  | lead ph m o => cases ph <;> simp_all [inGroup, holds]
  | _ => simp [inGroup] at h

macro "rmw" : tactic =>
  `(tactic| (intro a x b y hx hxp hy hyp; simp only [set2, List.getElem?_set] at hx hy;
             have hrep := holds_of_isReplying;
             grind [RM, memOf, isReplying, Thread.setPc, Thread.asLeader, Thread.unlock, Thread.grouped,
                    Thread.journalled, accept_pc, accept_members, accept_recs, accept_sync, accept_put,
                    accept_size]))

theorem step_rm (s t : St) (h : Step s t) (c : CInv s) (rm : RM s) : RM t := by
  cases h with
  | call i w hi hp => rmw
  | retClosed i w hi hp hk hc => rmw
  | retPerErr i w hi hp hk hc => rmw
  | lock i w g hi hp hk ht =>
    have nh := no_holder s c ht
    rmw
  | hAcquire i w hi hp hk ht =>
    have nh := no_holder s c ht
    rmw
  | hRelease i w hi hp hk => rmw
  | flushOk j l m o free hj hp =>
    have hu : ∀ (a : Nat) (x : Thread), s.ws[a]? = some x → 0 < holds x.pc → a = j :=
      fun a x hx hh => holder_unique s c a j x l hx hj hh (by simp [hp, holds])
    rmw
  | flushFail j l m o hj hp =>
    have hu : ∀ (a : Nat) (x : Thread), s.ws[a]? = some x → 0 < holds x.pc → a = j :=
      fun a x hx hh => holder_unique s c a j x l hx hj hh (by simp [hp, holds])
    rmw
  | recvAccept i j w l m g hj hi hp hm hl' hq hk hwm hsz =>
    have hu : ∀ (a : Nat) (x : Thread), s.ws[a]? = some x → 0 < holds x.pc → a = j :=
      fun a x hx hh => holder_unique s c a j x l hx hj hh (by simp [hp, holds])
    have nwm := no_wm_merging s c j l m hj hp
    rmw
  | reply i j w l m o hj hi hp hq =>
    have hu : ∀ (a : Nat) (x : Thread), s.ws[a]? = some x → 0 < holds x.pc → a = j :=
      fun a x hx hh => holder_unique s c a j x l hx hj hh (by simp [hp, holds])
    rmw
  | recvOverflow i j w l m hj hi hp hm hl' hq hk hwm hsz =>
    have hu : ∀ (a : Nat) (x : Thread), s.ws[a]? = some x → 0 < holds x.pc → a = j :=
      fun a x hx hh => holder_unique s c a j x l hx hj hh (by simp [hp, holds])
    rmw
  | mergeDone j l m o hj hp =>
    have hu : ∀ (a : Nat) (x : Thread), s.ws[a]? = some x → 0 < holds x.pc → a = j :=
      fun a x hx hh => holder_unique s c a j x l hx hj hh (by simp [hp, holds])
    rmw
  | journalOk j l m o hj hp =>
    have hu : ∀ (a : Nat) (x : Thread), s.ws[a]? = some x → 0 < holds x.pc → a = j :=
      fun a x hx hh => holder_unique s c a j x l hx hj hh (by simp [hp, holds])
    rmw
  | journalFail j l m o hj hp =>
    have hu : ∀ (a : Nat) (x : Thread), s.ws[a]? = some x → 0 < holds x.pc → a = j :=
      fun a x hx hh => holder_unique s c a j x l hx hj hh (by simp [hp, holds])
    rmw
  | apply j l m o hj hp =>
    have hu : ∀ (a : Nat) (x : Thread), s.ws[a]? = some x → 0 < holds x.pc → a = j :=
      fun a x hx hh => holder_unique s c a j x l hx hj hh (by simp [hp, holds])
    rmw
  | publish j l m o rot hj hp hrot =>
    have hu : ∀ (a : Nat) (x : Thread), s.ws[a]? = some x → 0 < holds x.pc → a = j :=
      fun a x hx hh => holder_unique s c a j x l hx hj hh (by simp [hp, holds])
    rmw
  | rotateOk j l m o hj hp =>
    have hu : ∀ (a : Nat) (x : Thread), s.ws[a]? = some x → 0 < holds x.pc → a = j :=
      fun a x hx hh => holder_unique s c a j x l hx hj hh (by simp [hp, holds])
    rmw
  | rotateFail j l m o hj hp =>
    have hu : ∀ (a : Nat) (x : Thread), s.ws[a]? = some x → 0 < holds x.pc → a = j :=
      fun a x hx hh => holder_unique s c a j x l hx hj hh (by simp [hp, holds])
    rmw
  | ack i j w l k m o r hj hi hp hq =>
    have hu : ∀ (a : Nat) (x : Thread), s.ws[a]? = some x → 0 < holds x.pc → a = j :=
      fun a x hx hh => holder_unique s c a j x l hx hj hh (by simp [hp, holds])
    rmw
  | handoff i j w l m r g hj hi hp hq hc =>
    have hu : ∀ (a : Nat) (x : Thread), s.ws[a]? = some x → 0 < holds x.pc → a = j :=
      fun a x hx hh => holder_unique s c a j x l hx hj hh (by simp [hp, holds])
    rmw
  | release j l m r hj hp =>
    have hu : ∀ (a : Nat) (x : Thread), s.ws[a]? = some x → 0 < holds x.pc → a = j :=
      fun a x hx hh => holder_unique s c a j x l hx hj hh (by simp [hp, holds])
    rmw
  | releaseLost j l m r hj hp hc hr => exact absurd c.cfgH (by simp [hc])

/-- `acc` is set by the reply of a replying leader only -/
theorem step_acc (s t : St) (h : Step s t) (i : Nat) (w' : Thread) (jj : Nat) (hi' : t.ws[i]? = some w')
    (ha : w'.acc = some jj) :
    ∃ w, s.ws[i]? = some w ∧ memOf i w' = memOf i w ∧
      (w.acc = some jj ∨ (w.pc = .waitMerged ∧ ∃ l, s.ws[jj]? = some l ∧ isReplying l.pc = true)) := by
  cases h with
  | call i w hi hp => revert hi' ha; simp only [set2, List.getElem?_set]; grind [memOf, isReplying, Thread.setPc, Thread.asLeader, Thread.unlock, Thread.grouped, Thread.journalled, accept_pc, accept_acc, accept_recs, accept_sync, accept_put, accept_size]
  | retClosed i w hi hp hk hc => revert hi' ha; simp only [set2, List.getElem?_set]; grind [memOf, isReplying, Thread.setPc, Thread.asLeader, Thread.unlock, Thread.grouped, Thread.journalled, accept_pc, accept_acc, accept_recs, accept_sync, accept_put, accept_size]
  | retPerErr i w hi hp hk hc => revert hi' ha; simp only [set2, List.getElem?_set]; grind [memOf, isReplying, Thread.setPc, Thread.asLeader, Thread.unlock, Thread.grouped, Thread.journalled, accept_pc, accept_acc, accept_recs, accept_sync, accept_put, accept_size]
  | lock i w g hi hp hk ht => revert hi' ha; simp only [set2, List.getElem?_set]; grind [memOf, isReplying, Thread.setPc, Thread.asLeader, Thread.unlock, Thread.grouped, Thread.journalled, accept_pc, accept_acc, accept_recs, accept_sync, accept_put, accept_size]
  | hAcquire i w hi hp hk ht => revert hi' ha; simp only [set2, List.getElem?_set]; grind [memOf, isReplying, Thread.setPc, Thread.asLeader, Thread.unlock, Thread.grouped, Thread.journalled, accept_pc, accept_acc, accept_recs, accept_sync, accept_put, accept_size]
  | hRelease i w hi hp hk => revert hi' ha; simp only [set2, List.getElem?_set]; grind [memOf, isReplying, Thread.setPc, Thread.asLeader, Thread.unlock, Thread.grouped, Thread.journalled, accept_pc, accept_acc, accept_recs, accept_sync, accept_put, accept_size]
  | flushOk j l m o free hj hp => revert hi' ha; simp only [set2, List.getElem?_set]; grind [memOf, isReplying, Thread.setPc, Thread.asLeader, Thread.unlock, Thread.grouped, Thread.journalled, accept_pc, accept_acc, accept_recs, accept_sync, accept_put, accept_size]
  | flushFail j l m o hj hp => revert hi' ha; simp only [set2, List.getElem?_set]; grind [memOf, isReplying, Thread.setPc, Thread.asLeader, Thread.unlock, Thread.grouped, Thread.journalled, accept_pc, accept_acc, accept_recs, accept_sync, accept_put, accept_size]
  | recvAccept i j w l m g hj hi hp hm hl' hq hk hwm hsz => revert hi' ha; simp only [set2, List.getElem?_set]; grind [memOf, isReplying, Thread.setPc, Thread.asLeader, Thread.unlock, Thread.grouped, Thread.journalled, accept_pc, accept_acc, accept_recs, accept_sync, accept_put, accept_size]
  | reply i j w l m o hj hi hp hq => revert hi' ha; simp only [set2, List.getElem?_set]; grind [memOf, isReplying, Thread.setPc, Thread.asLeader, Thread.unlock, Thread.grouped, Thread.journalled, accept_pc, accept_acc, accept_recs, accept_sync, accept_put, accept_size]
  | recvOverflow i j w l m hj hi hp hm hl' hq hk hwm hsz => revert hi' ha; simp only [set2, List.getElem?_set]; grind [memOf, isReplying, Thread.setPc, Thread.asLeader, Thread.unlock, Thread.grouped, Thread.journalled, accept_pc, accept_acc, accept_recs, accept_sync, accept_put, accept_size]
  | mergeDone j l m o hj hp => revert hi' ha; simp only [set2, List.getElem?_set]; grind [memOf, isReplying, Thread.setPc, Thread.asLeader, Thread.unlock, Thread.grouped, Thread.journalled, accept_pc, accept_acc, accept_recs, accept_sync, accept_put, accept_size]
  | journalOk j l m o hj hp => revert hi' ha; simp only [set2, List.getElem?_set]; grind [memOf, isReplying, Thread.setPc, Thread.asLeader, Thread.unlock, Thread.grouped, Thread.journalled, accept_pc, accept_acc, accept_recs, accept_sync, accept_put, accept_size]
  | journalFail j l m o hj hp => revert hi' ha; simp only [set2, List.getElem?_set]; grind [memOf, isReplying, Thread.setPc, Thread.asLeader, Thread.unlock, Thread.grouped, Thread.journalled, accept_pc, accept_acc, accept_recs, accept_sync, accept_put, accept_size]
  | apply j l m o hj hp => revert hi' ha; simp only [set2, List.getElem?_set]; grind [memOf, isReplying, Thread.setPc, Thread.asLeader, Thread.unlock, Thread.grouped, Thread.journalled, accept_pc, accept_acc, accept_recs, accept_sync, accept_put, accept_size]
  | publish j l m o rot hj hp hrot => revert hi' ha; simp only [set2, List.getElem?_set]; grind [memOf, isReplying, Thread.setPc, Thread.asLeader, Thread.unlock, Thread.grouped, Thread.journalled, accept_pc, accept_acc, accept_recs, accept_sync, accept_put, accept_size]
  | rotateOk j l m o hj hp => revert hi' ha; simp only [set2, List.getElem?_set]; grind [memOf, isReplying, Thread.setPc, Thread.asLeader, Thread.unlock, Thread.grouped, Thread.journalled, accept_pc, accept_acc, accept_recs, accept_sync, accept_put, accept_size]
  | rotateFail j l m o hj hp => revert hi' ha; simp only [set2, List.getElem?_set]; grind [memOf, isReplying, Thread.setPc, Thread.asLeader, Thread.unlock, Thread.grouped, Thread.journalled, accept_pc, accept_acc, accept_recs, accept_sync, accept_put, accept_size]
  | ack i j w l k m o r hj hi hp hq => revert hi' ha; simp only [set2, List.getElem?_set]; grind [memOf, isReplying, Thread.setPc, Thread.asLeader, Thread.unlock, Thread.grouped, Thread.journalled, accept_pc, accept_acc, accept_recs, accept_sync, accept_put, accept_size]
  | handoff i j w l m r g hj hi hp hq hc => revert hi' ha; simp only [set2, List.getElem?_set]; grind [memOf, isReplying, Thread.setPc, Thread.asLeader, Thread.unlock, Thread.grouped, Thread.journalled, accept_pc, accept_acc, accept_recs, accept_sync, accept_put, accept_size]
  | release j l m r hj hp => revert hi' ha; simp only [set2, List.getElem?_set]; grind [memOf, isReplying, Thread.setPc, Thread.asLeader, Thread.unlock, Thread.grouped, Thread.journalled, accept_pc, accept_acc, accept_recs, accept_sync, accept_put, accept_size]
  | releaseLost j l m r hj hp hc hr => revert hi' ha; simp only [set2, List.getElem?_set]; grind [memOf, isReplying, Thread.setPc, Thread.asLeader, Thread.unlock, Thread.grouped, Thread.journalled, accept_pc, accept_acc, accept_recs, accept_sync, accept_put, accept_size]

/-- the list of accepted messages only grows -/
theorem step_members_mono (s t : St) (h : Step s t) (j : Nat) (l : Thread) (hj : s.ws[j]? = some l) :
    ∃ l', t.ws[j]? = some l' ∧ ∀ e ∈ l.members, e ∈ l'.members := by
  obtain ⟨l', hj', _⟩ := step_keeps s t h j l hj
  obtain ⟨l0, hj0, hm⟩ := step_members s t h j l' hj'
  rw [hj] at hj0; cases hj0
  refine ⟨l', hj', ?_⟩
  rcases hm with hm | ⟨_, _, _, _, _, _, _, _, _, _, _, hm⟩ <;> rw [hm] <;> intro e he
  · exact he
  · exact List.mem_append_left _ he

theorem step_am (s t : St) (h : Step s t) (rm : RM s) (am : AM s) : AM t := by
  intro i w' j hi' ha
  obtain ⟨w, hi, hmo, hc⟩ := step_acc s t h i w' j hi' ha
  rw [hmo]
  rcases hc with hc | ⟨hp, l, hj, hr⟩
  · obtain ⟨l, hj, hm⟩ := am i w j hi hc
    obtain ⟨l', hj', hmm⟩ := step_members_mono s t h j l hj
    exact ⟨l', hj', hmm _ hm⟩
  · obtain ⟨l', hj', hmm⟩ := step_members_mono s t h j l hj
    exact ⟨l', hj', hmm _ (rm i w j l hi hp hj hr)⟩

macro "sqw" : tactic =>
  `(tactic| (intro a x hx hxp; simp only [set2, List.getElem?_set] at hx;
             have hgrp := holds_of_inGroup;
             grind [Sq, inGroup, Thread.setPc, Thread.asLeader, Thread.unlock, Thread.grouped,
                    Thread.journalled, accept_pc, accept_gseq]))

theorem step_sq (s t : St) (h : Step s t) (c : CInv s) (sq : Sq s) : Sq t := by
  cases h with
  | call i w hi hp => sqw
  | retClosed i w hi hp hk hc => sqw
  | retPerErr i w hi hp hk hc => sqw
  | lock i w g hi hp hk ht =>
    have nh := no_holder s c ht
    sqw
  | hAcquire i w hi hp hk ht =>
    have nh := no_holder s c ht
    sqw
  | hRelease i w hi hp hk => sqw
  | flushOk j l m o free hj hp =>
    have hu : ∀ (a : Nat) (x : Thread), s.ws[a]? = some x → 0 < holds x.pc → a = j :=
      fun a x hx hh => holder_unique s c a j x l hx hj hh (by simp [hp, holds])
    sqw
  | flushFail j l m o hj hp =>
    have hu : ∀ (a : Nat) (x : Thread), s.ws[a]? = some x → 0 < holds x.pc → a = j :=
      fun a x hx hh => holder_unique s c a j x l hx hj hh (by simp [hp, holds])
    sqw
  | recvAccept i j w l m g hj hi hp hm hl' hq hk hwm hsz =>
    have hu : ∀ (a : Nat) (x : Thread), s.ws[a]? = some x → 0 < holds x.pc → a = j :=
      fun a x hx hh => holder_unique s c a j x l hx hj hh (by simp [hp, holds])
    sqw
  | reply i j w l m o hj hi hp hq =>
    have hu : ∀ (a : Nat) (x : Thread), s.ws[a]? = some x → 0 < holds x.pc → a = j :=
      fun a x hx hh => holder_unique s c a j x l hx hj hh (by simp [hp, holds])
    sqw
  | recvOverflow i j w l m hj hi hp hm hl' hq hk hwm hsz =>
    have hu : ∀ (a : Nat) (x : Thread), s.ws[a]? = some x → 0 < holds x.pc → a = j :=
      fun a x hx hh => holder_unique s c a j x l hx hj hh (by simp [hp, holds])
    sqw
  | mergeDone j l m o hj hp =>
    have hu : ∀ (a : Nat) (x : Thread), s.ws[a]? = some x → 0 < holds x.pc → a = j :=
      fun a x hx hh => holder_unique s c a j x l hx hj hh (by simp [hp, holds])
    sqw
  | journalOk j l m o hj hp =>
    have hu : ∀ (a : Nat) (x : Thread), s.ws[a]? = some x → 0 < holds x.pc → a = j :=
      fun a x hx hh => holder_unique s c a j x l hx hj hh (by simp [hp, holds])
    sqw
  | journalFail j l m o hj hp =>
    have hu : ∀ (a : Nat) (x : Thread), s.ws[a]? = some x → 0 < holds x.pc → a = j :=
      fun a x hx hh => holder_unique s c a j x l hx hj hh (by simp [hp, holds])
    sqw
  | apply j l m o hj hp =>
    have hu : ∀ (a : Nat) (x : Thread), s.ws[a]? = some x → 0 < holds x.pc → a = j :=
      fun a x hx hh => holder_unique s c a j x l hx hj hh (by simp [hp, holds])
    sqw
  | publish j l m o rot hj hp hrot =>
    have hu : ∀ (a : Nat) (x : Thread), s.ws[a]? = some x → 0 < holds x.pc → a = j :=
      fun a x hx hh => holder_unique s c a j x l hx hj hh (by simp [hp, holds])
    cases rot <;> sqw
  | rotateOk j l m o hj hp =>
    have hu : ∀ (a : Nat) (x : Thread), s.ws[a]? = some x → 0 < holds x.pc → a = j :=
      fun a x hx hh => holder_unique s c a j x l hx hj hh (by simp [hp, holds])
    sqw
  | rotateFail j l m o hj hp =>
    have hu : ∀ (a : Nat) (x : Thread), s.ws[a]? = some x → 0 < holds x.pc → a = j :=
      fun a x hx hh => holder_unique s c a j x l hx hj hh (by simp [hp, holds])
    sqw
  | ack i j w l k m o r hj hi hp hq =>
    have hu : ∀ (a : Nat) (x : Thread), s.ws[a]? = some x → 0 < holds x.pc → a = j :=
      fun a x hx hh => holder_unique s c a j x l hx hj hh (by simp [hp, holds])
    sqw
  | handoff i j w l m r g hj hi hp hq hc =>
    have hu : ∀ (a : Nat) (x : Thread), s.ws[a]? = some x → 0 < holds x.pc → a = j :=
      fun a x hx hh => holder_unique s c a j x l hx hj hh (by simp [hp, holds])
    sqw
  | release j l m r hj hp =>
    have hu : ∀ (a : Nat) (x : Thread), s.ws[a]? = some x → 0 < holds x.pc → a = j :=
      fun a x hx hh => holder_unique s c a j x l hx hj hh (by simp [hp, holds])
    sqw
  | releaseLost j l m r hj hp hc hr => exact absurd c.cfgH (by simp [hc])

theorem init_rm (s : St) (h : Init s) : RM s := by
  intro i w j l hi hp
  have := h.2.2.2 w (List.mem_of_getElem? hi)
  rw [this.1] at hp; cases hp

theorem init_am (s : St) (h : Init s) : AM s := by
  intro i w j hi ha
  have := h.2.2.2 w (List.mem_of_getElem? hi)
  rw [this.2.1] at ha; cases ha

theorem init_sq (s : St) (h : Init s) : Sq s := by
  intro j l hj hp
  have := h.2.2.2 l (List.mem_of_getElem? hj)
  rw [this.1] at hp; cases hp

end GoLevel.WP
