import GoLevel.Proofs.WriteProtoCount
/-! Every step preserves the counting invariant and strictly decreases the termination measure. -/
namespace GoLevel.WP

theorem token_of_holder (s : St) (inv : CInv s) (j : Nat) (l : Thread) (hj : s.ws[j]? = some l)
    (hh : 0 < holds l.pc) : s.token = true := by
  have := le_tot_of_mem holds s.ws j l hj
  have h := inv.holders
  cases ht : s.token
  · rw [ht] at h; simp at h; omega
  · rfl

theorem step_cinv_meas (s t : St) (h : Step s t) (inv : CInv s) : CInv t ∧ measure t < measure s := by
  obtain ⟨hl, ha, ho, hcf⟩ := inv
  unfold measure
  cases h with
  | call i w hi hp =>
    obtain ⟨a1, a2, a3, a4, a5, a6⟩ := tot_set6 s.ws i w (w.setPc .selecting) hi
    refine ⟨⟨?_, ?_, ?_, hcf⟩, ?_⟩ <;>
      simp [Thread.setPc, hp, holds, isWA, isWM, owed, pendReply, wt] at * <;> omega
  | retClosed i w hi hp hk hc =>
    obtain ⟨a1, a2, a3, a4, a5, a6⟩ := tot_set6 s.ws i w (w.setPc (.returned .closed)) hi
    refine ⟨⟨?_, ?_, ?_, hcf⟩, ?_⟩ <;>
      simp [Thread.setPc, hp, holds, isWA, isWM, owed, pendReply, wt] at * <;> omega
  | retPerErr i w hi hp hk hc =>
    obtain ⟨a1, a2, a3, a4, a5, a6⟩ := tot_set6 s.ws i w (w.setPc (.returned .perErr)) hi
    refine ⟨⟨?_, ?_, ?_, hcf⟩, ?_⟩ <;>
      simp [Thread.setPc, hp, holds, isWA, isWM, owed, pendReply, wt] at * <;> omega
  | lock i w g hi hp hk ht =>
    obtain ⟨a1, a2, a3, a4, a5, a6⟩ := tot_set6 s.ws i w w.asLeader hi
    refine ⟨⟨?_, ?_, ?_, hcf⟩, ?_⟩ <;>
      simp [Thread.asLeader, hp, ht, holds, isWA, isWM, owed, pendReply, wt] at * <;> omega
  | hAcquire i w hi hp hk ht =>
    obtain ⟨a1, a2, a3, a4, a5, a6⟩ := tot_set6 s.ws i w (w.setPc .hold) hi
    refine ⟨⟨?_, ?_, ?_, hcf⟩, ?_⟩ <;>
      simp [Thread.setPc, hp, ht, holds, isWA, isWM, owed, pendReply, wt] at * <;> omega
  | hRelease i w hi hp hk =>
    have htok := token_of_holder s ⟨hl, ha, ho, hcf⟩ i w hi (by simp [hp, holds])
    obtain ⟨a1, a2, a3, a4, a5, a6⟩ := tot_set6 s.ws i w (w.setPc (.returned .ok)) hi
    refine ⟨⟨?_, ?_, ?_, hcf⟩, ?_⟩ <;>
      simp [Thread.setPc, hp, htok, holds, isWA, isWM, owed, pendReply, wt] at * <;> omega
  | flushOk j l m o free hj hp =>
    obtain ⟨a1, a2, a3, a4, a5, a6⟩ :=
      tot_set6 s.ws j l { l with pc := .lead .merging 0 false, gfree := free,
                                 glimit := mergeLimitOf l.bsize free, batches := [.own] } hj
    refine ⟨⟨?_, ?_, ?_, hcf⟩, ?_⟩ <;>
      simp [hp, holds, isWA, isWM, owed, pendReply, wt] at * <;> omega
  | flushFail j l m o hj hp =>
    obtain ⟨a1, a2, a3, a4, a5, a6⟩ := tot_set6 s.ws j l (l.unlock 0 false .err) hj
    refine ⟨⟨?_, ?_, ?_, hcf⟩, ?_⟩ <;>
      simp [Thread.unlock, hp, holds, isWA, isWM, owed, pendReply, wt] at * <;> omega
  | recvAccept i j w l m g hj hi hp hm hl' hq hk hwm hsz =>
    obtain ⟨a1, a2, a3, a4, a5, a6⟩ := tot_set2_6 s.ws i j w l (w.setPc .waitMerged)
      ((l.accept s.cfg i w (poolGet s.pool g).1).setPc (.lead .replying m false)) hi hj (by simp [hp, hq])
    refine ⟨⟨?_, ?_, ?_, hcf⟩, ?_⟩ <;>
      simp [Thread.setPc, hp, hq, holds, isWA, isWM, owed, pendReply, wt] at * <;> omega
  | reply i j w l m o hj hi hp hq =>
    obtain ⟨a1, a2, a3, a4, a5, a6⟩ := tot_set2_6 s.ws i j w l { w with pc := .waitAck, acc := some j }
      (l.setPc (.lead .merging (m + 1) false)) hi hj (by simp [hp, hq])
    cases o <;> refine ⟨⟨?_, ?_, ?_, hcf⟩, ?_⟩ <;>
      simp [Thread.setPc, hp, hq, holds, isWA, isWM, owed, pendReply, wt] at * <;> omega
  | recvOverflow i j w l m hj hi hp hm hl' hq hk hwm hsz =>
    obtain ⟨a1, a2, a3, a4, a5, a6⟩ := tot_set2_6 s.ws i j w l (w.setPc .waitMerged)
      (l.grouped s.seq m true) hi hj (by simp [hp, hq])
    refine ⟨⟨?_, ?_, ?_, hcf⟩, ?_⟩ <;>
      simp [Thread.setPc, Thread.grouped, hp, hq, holds, isWA, isWM, owed, pendReply, wt] at * <;> omega
  | mergeDone j l m o hj hp =>
    obtain ⟨a1, a2, a3, a4, a5, a6⟩ :=
      tot_set6 s.ws j l (l.grouped s.seq m o) hj
    cases o <;> refine ⟨⟨?_, ?_, ?_, hcf⟩, ?_⟩ <;>
      simp [Thread.grouped, hp, holds, isWA, isWM, owed, pendReply, wt] at * <;> omega
  | journalOk j l m o hj hp =>
    obtain ⟨a1, a2, a3, a4, a5, a6⟩ :=
      tot_set6 s.ws j l ((l.journalled true).setPc (.lead .apply m o)) hj
    cases o <;> refine ⟨⟨?_, ?_, ?_, hcf⟩, ?_⟩ <;>
      simp [Thread.setPc, Thread.journalled, hp, holds, isWA, isWM, owed, pendReply, wt] at * <;> omega
  | journalFail j l m o hj hp =>
    obtain ⟨a1, a2, a3, a4, a5, a6⟩ :=
      tot_set6 s.ws j l ((l.journalled false).unlock m o .err) hj
    cases o <;> refine ⟨⟨?_, ?_, ?_, hcf⟩, ?_⟩ <;>
      simp [Thread.unlock, Thread.journalled, hp, holds, isWA, isWM, owed, pendReply, wt] at * <;> omega
  | apply j l m o hj hp =>
    obtain ⟨a1, a2, a3, a4, a5, a6⟩ :=
      tot_set6 s.ws j l { l with pc := .lead .publish m o, arecs := l.flat } hj
    cases o <;> refine ⟨⟨?_, ?_, ?_, hcf⟩, ?_⟩ <;>
      simp [hp, holds, isWA, isWM, owed, pendReply, wt] at * <;> omega
  | publish j l m o rot hj hp hrot =>
    cases rot
    · obtain ⟨a1, a2, a3, a4, a5, a6⟩ :=
        tot_set6 s.ws j l { l.unlock m o .ok with pub := some (s.seq + l.gn) } hj
      cases o <;> refine ⟨⟨?_, ?_, ?_, hcf⟩, ?_⟩ <;>
        simp [Thread.unlock, hp, holds, isWA, isWM, owed, pendReply, wt] at * <;> omega
    · obtain ⟨a1, a2, a3, a4, a5, a6⟩ :=
        tot_set6 s.ws j l { l with pc := .lead .rotate m o, pub := some (s.seq + l.gn) } hj
      cases o <;> refine ⟨⟨?_, ?_, ?_, hcf⟩, ?_⟩ <;>
        simp [hp, holds, isWA, isWM, owed, pendReply, wt] at * <;> omega
  | rotateOk j l m o hj hp =>
    obtain ⟨a1, a2, a3, a4, a5, a6⟩ := tot_set6 s.ws j l (l.unlock m o .ok) hj
    cases o <;> refine ⟨⟨?_, ?_, ?_, hcf⟩, ?_⟩ <;>
      simp [Thread.unlock, hp, holds, isWA, isWM, owed, pendReply, wt] at * <;> omega
  | rotateFail j l m o hj hp =>
    obtain ⟨a1, a2, a3, a4, a5, a6⟩ := tot_set6 s.ws j l (l.unlock m o .err) hj
    cases o <;> refine ⟨⟨?_, ?_, ?_, hcf⟩, ?_⟩ <;>
      simp [Thread.unlock, hp, holds, isWA, isWM, owed, pendReply, wt] at * <;> omega
  | ack i j w l k m o r hj hi hp hq =>
    obtain ⟨a1, a2, a3, a4, a5, a6⟩ := tot_set2_6 s.ws i j w l (w.setPc (.returned r))
      (l.setPc (.lead (.acking k r) m o)) hi hj (by simp [hp, hq])
    cases o <;> refine ⟨⟨?_, ?_, ?_, hcf⟩, ?_⟩ <;>
      simp [Thread.setPc, hp, hq, holds, isWA, isWM, owed, pendReply, wt] at * <;> omega
  | handoff i j w l m r g hj hi hp hq hc =>
    obtain ⟨a1, a2, a3, a4, a5, a6⟩ := tot_set2_6 s.ws i j w l w.asLeader
      (l.setPc (.returned r)) hi hj (by simp [hp, hq])
    refine ⟨⟨?_, ?_, ?_, hcf⟩, ?_⟩ <;>
      simp [Thread.setPc, Thread.asLeader, hp, hq, holds, isWA, isWM, owed, pendReply, wt] at * <;> omega
  | release j l m r hj hp =>
    have htok := token_of_holder s ⟨hl, ha, ho, hcf⟩ j l hj (by simp [hp, holds])
    obtain ⟨a1, a2, a3, a4, a5, a6⟩ := tot_set6 s.ws j l (l.setPc (.returned r)) hj
    refine ⟨⟨?_, ?_, ?_, hcf⟩, ?_⟩ <;>
      simp [Thread.setPc, hp, htok, holds, isWA, isWM, owed, pendReply, wt] at * <;> omega
  | releaseLost j l m r hj hp hc hr => rw [hc] at hcf; cases hcf

theorem step_cinv (s t : St) (h : Step s t) (inv : CInv s) : CInv t := (step_cinv_meas s t h inv).1

theorem step_measure (s t : St) (h : Step s t) (inv : CInv s) : measure t < measure s :=
  (step_cinv_meas s t h inv).2

theorem init_cinv (s : St) (h : Init s) : CInv s := by
  obtain ⟨hcf, ht, _, hw⟩ := h
  have hz : ∀ (f : Pc → Nat), f .idle = 0 → tot f s.ws = 0 := by
    intro f hf
    apply tot_eq_zero
    intro i w hi
    have := hw w (List.mem_of_getElem? hi)
    rw [this.1]; exact hf
  refine ⟨?_, ?_, ?_, hcf⟩
  · rw [hz holds rfl, ht]; rfl
  · rw [hz isWA rfl, hz owed rfl]
  · rw [hz isWM rfl, hz pendReply rfl]

theorem steps_cinv (s t : St) (h : Steps s t) (inv : CInv s) : CInv t := by
  induction h with
  | refl => exact inv
  | tail _ h ih => exact step_cinv _ _ h ih

theorem reachable_cinv (s : St) (h : Reachable s) : CInv s := by
  obtain ⟨s0, h0, hs⟩ := h
  exact steps_cinv s0 s hs (init_cinv s0 h0)

end GoLevel.WP
