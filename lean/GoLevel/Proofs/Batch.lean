import GoLevel.Model.Batch
import GoLevel.Proofs.Bytes
/-!
Round trip of the write-batch codec (`Model/Batch.lean`).
-/
namespace GoLevel.Batch
open GoLevel.Gen (keyTypeDel keyTypeVal batchHeaderLen)

theorem keyTypes_eq : keyTypeDel = 0 ∧ keyTypeVal = 1 ∧ batchHeaderLen = 12 := by decide

theorem encodeRec_ne_nil (r : Rec) : encodeRec r ≠ [] := by simp [encodeRec]

theorem encodeRec_length_pos (r : Rec) : 0 < (encodeRec r).length := by simp [encodeRec]

/-- one record is read back, whatever follows it -/
theorem decodeRec_encodeRec (r : Rec) (rest : Bytes) (h : r.valid) :
    decodeRec (encodeRec r ++ rest) = .ok (r, rest) := by
  obtain ⟨kd, kv, _⟩ := keyTypes_eq
  obtain ⟨hk, hkl, hvl⟩ := h
  obtain ⟨kind, key, val⟩ := r
  simp only at hk hkl hvl
  rcases hk with ⟨rfl, rfl⟩ | rfl
  · -- deletion
    simp only [encodeRec, kd, kv, List.cons_append, List.append_assoc, decodeRec]
    simp [readUvarint_uvarint_append _ _ hkl, List.take_left']
  · simp only [encodeRec, kv, List.cons_append, List.append_assoc, decodeRec]
    simp [readUvarint_uvarint_append _ _ hkl, readUvarint_uvarint_append _ _ hvl, List.take_left']
    rw [if_neg (by omega), if_neg (by omega)]

theorem decodeRecsAux_encodeBody (rs : List Rec) (h : ∀ r ∈ rs, r.valid) (fuel : Nat)
    (hf : (encodeBody rs).length ≤ fuel) : decodeRecsAux fuel (encodeBody rs) = (rs, none) := by
  induction rs generalizing fuel with
  | nil => cases fuel <;> simp [encodeBody, decodeRecsAux]
  | cons r rs ih =>
    have hr := h r List.mem_cons_self
    have hrs : ∀ r ∈ rs, r.valid := fun x hx => h x (List.mem_cons_of_mem _ hx)
    have hpos := encodeRec_length_pos r
    have hb : encodeBody (r :: rs) = encodeRec r ++ encodeBody rs := by simp [encodeBody]
    rw [hb] at hf ⊢
    rw [List.length_append] at hf
    match fuel, hf with
    | 0, hf => omega
    | fuel+1, hf =>
      have hne : encodeRec r ++ encodeBody rs ≠ [] := by simp [encodeRec_ne_nil]
      match hd : encodeRec r ++ encodeBody rs, hne with
      | b :: bs, _ =>
        simp only [decodeRecsAux]
        rw [← hd, decodeRec_encodeRec r _ hr]
        simp only
        rw [ih hrs fuel (by omega)]

theorem decodeRecs_encodeBody (rs : List Rec) (h : ∀ r ∈ rs, r.valid) :
    decodeRecs (encodeBody rs) = (rs, none) :=
  decodeRecsAux_encodeBody rs h _ (Nat.le_refl _)

theorem header_encode (seq : Nat) (rs : List Rec) (hs : seq < 2 ^ 64) (hn : rs.length < 2 ^ 32) :
    header (encode seq rs) = some (seq, rs.length, encodeBody rs) := by
  obtain ⟨_, _, hh⟩ := keyTypes_eq
  have h8 : (le64 seq).length = 8 := le64_length seq
  have h4 : (le32 rs.length).length = 4 := le32_length _
  unfold header encode
  rw [if_neg (by simp [hh]; omega)]
  have e1 : rd64 (le64 seq ++ le32 rs.length ++ encodeBody rs) = seq := by
    rw [List.append_assoc, rd64_le64_append _ _ hs]
  have e2 : (le64 seq ++ le32 rs.length ++ encodeBody rs).drop 8 = le32 rs.length ++ encodeBody rs := by
    rw [List.append_assoc, List.drop_left' h8]
  have e3 : (le64 seq ++ le32 rs.length ++ encodeBody rs).drop batchHeaderLen = encodeBody rs := by
    rw [hh]; exact List.drop_left' (by simp)
  rw [e1, e2, e3, rd32_le32_append _ _ hn]

/-- `decodeBatch ∘ writeBatchesWithHeader = id` -/
theorem decode_encode (seq : Nat) (rs : List Rec) (hs : seq < 2 ^ 64) (hn : rs.length < 2 ^ 32)
    (h : ∀ r ∈ rs, r.valid) : decode (encode seq rs) = some (seq, rs) := by
  unfold decode
  rw [header_encode seq rs hs hn]
  simp only [decodeRecs_encodeBody rs h, if_true]

/-- … and `decodeBatchToMem` puts exactly the batch's entries and reports `(seq, count)` -/
theorem decodeToMem_encode (seq expect : Nat) (rs : List Rec) (hs : seq < 2 ^ 64) (hn : rs.length < 2 ^ 32)
    (h : ∀ r ∈ rs, r.valid) (he : expect ≤ seq) :
    decodeToMem (encode seq rs) expect = ⟨entries seq rs, .ok (seq, rs.length)⟩ := by
  unfold decodeToMem
  rw [header_encode seq rs hs hn]
  simp only [decodeRecs_encodeBody rs h]
  rw [if_neg (by omega)]
  simp

/-- a batch whose sequence number lies below the expected one is rejected before anything is put -/
theorem decodeToMem_stale (seq expect : Nat) (rs : List Rec) (hs : seq < 2 ^ 64) (hn : rs.length < 2 ^ 32)
    (he : seq < expect) :
    decodeToMem (encode seq rs) expect = ⟨[], .error .badSeq⟩ := by
  unfold decodeToMem
  rw [header_encode seq rs hs hn]
  simp [he]

end GoLevel.Batch
