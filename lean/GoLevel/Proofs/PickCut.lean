import GoLevel.Proofs.PickInputs
/-!
# (H3) where `tableCompactionBuilder.run` cuts its output

`cutStep`/`cutRun`/`runTables` (`Model/Pick.lean`) transcribe the table rotation of `run`: a table is finished
only at the first occurrence of a user key, when `shouldStopBefore` (grandparent overlap) or `needFlush` (size)
ask for it.  For a merged input with non-decreasing user keys, on a compaction whose cursor satisfies
`CursorInv`, the tables written are a `legalCut` of `build minSeq (baseLevelForKey v src) {} input` — clause
(L2) `cut` of `CompactionOK` — whatever `needFlush` and the grandparent accounting answer.
Core Lean only.
-/
namespace GoLevel.Pick

theorem shouldStopBefore_fields (c : UCmp) (cm : Compaction) (k : IKey) :
    (cm.shouldStopBefore c k).2.v = cm.v ∧ (cm.shouldStopBefore c k).2.sourceLevel = cm.sourceLevel ∧
    (cm.shouldStopBefore c k).2.tPtrs = cm.tPtrs := by
  unfold Compaction.shouldStopBefore
  split <;> exact ⟨rfl, rfl, rfl⟩

/-- every entry of `a` has a strictly smaller user key than every entry of `b` -/
def Sep (c : UCmp) (a b : List Entry) : Prop := ∀ x ∈ a, ∀ y ∈ b, c.lt x.ukey y.ukey

/-- `rotate` of `cutStep` -/
def rotateB (c : UCmp) (needFlush : List Entry → Bool) (s : CutState) (e : Entry) : Bool :=
  (!(match s.st.lastKey with | some lk => decide (c.cmp lk e.ukey = .eq) | none => false)) && !s.tw.isEmpty &&
    ((s.cm.shouldStopBefore c e.key).1 || needFlush s.tw)

/-- `cm1` of `cutStep` -/
def cm1Of (c : UCmp) (needFlush : List Entry → Bool) (s : CutState) (e : Entry) : Compaction :=
  if rotateB c needFlush s e then (s.cm.shouldStopBefore c e.key).2.save else (s.cm.shouldStopBefore c e.key).2

theorem cutStep_eq (c : UCmp) (minSeq : Nat) (nf : List Entry → Bool) (s : CutState) (e : Entry) :
    cutStep c minSeq nf s e =
      { cm := (bstepC c minSeq (cm1Of c nf s e) s.st e).2.2, st := (bstepC c minSeq (cm1Of c nf s e) s.st e).1,
        tw := if (bstepC c minSeq (cm1Of c nf s e) s.st e).2.1 then (if rotateB c nf s e then [] else s.tw) ++ [e]
              else (if rotateB c nf s e then [] else s.tw),
        done := if rotateB c nf s e then s.done ++ [s.tw] else s.done } := rfl

theorem cm1Of_fields (c : UCmp) (nf : List Entry → Bool) (s : CutState) (e : Entry) :
    (cm1Of c nf s e).v = s.cm.v ∧ (cm1Of c nf s e).sourceLevel = s.cm.sourceLevel ∧
    (cm1Of c nf s e).tPtrs = s.cm.tPtrs := by
  obtain ⟨h1, h2, h3⟩ := shouldStopBefore_fields c s.cm e.key
  unfold cm1Of
  split
  · exact ⟨h1, h2, h3⟩
  · exact ⟨h1, h2, h3⟩

/-- the loop invariant of `run` as far as the cut is concerned, `es` being the entries still to come -/
structure CutInv (c : UCmp) (v : Version) (src : Nat) (s : CutState) (es : List Entry) : Prop where
  v_eq : s.cm.v = v
  src_eq : s.cm.sourceLevel = src
  cursor : ∀ e ∈ es, CursorInv c v src s.cm.tPtrs e.ukey
  sorted : es.Pairwise (fun a b => c.le a.ukey b.ukey)
  fresh : s.st.lastKey = none → s.tw = [] ∧ s.done = []
  tw_le : ∀ lk, s.st.lastKey = some lk → ∀ x ∈ s.tw, c.le x.ukey lk
  done_lt : ∀ lk, s.st.lastKey = some lk → ∀ x ∈ s.done.flatten, c.lt x.ukey lk
  next_ge : ∀ lk, s.st.lastKey = some lk → ∀ e ∈ es, c.le lk e.ukey
  done_ne : ∀ p ∈ s.done, p ≠ []
  done_pw : s.done.Pairwise (Sep c)
  done_tw : ∀ a ∈ s.done, Sep c a s.tw

section
variable {c : UCmp} (hl : LawfulUCmp c)
include hl

/-- a rotation happens only with an open, non-empty table and at a user key strictly above the last one -/
theorem rotate_facts (v : Version) (src : Nat) (nf : List Entry → Bool) (s : CutState) (e : Entry)
    (es : List Entry) (h : CutInv c v src s (e :: es)) (hR : rotateB c nf s e = true) :
    s.tw ≠ [] ∧ ∃ lk, s.st.lastKey = some lk ∧ c.lt lk e.ukey := by
  unfold rotateB at hR
  simp only [Bool.and_eq_true, Bool.not_eq_true', List.isEmpty_eq_false_iff] at hR
  obtain ⟨⟨hfirst, htw⟩, _⟩ := hR
  refine ⟨htw, ?_⟩
  cases hk : s.st.lastKey with
  | none => exact absurd (h.fresh hk).1 htw
  | some lk =>
    refine ⟨lk, rfl, ?_⟩
    rw [hk] at hfirst
    simp only [decide_eq_false_iff_not] at hfirst
    have hle := h.next_ge lk hk e (by simp)
    rcases (ule_iff hl lk e.ukey).1 hle with hlt | heq
    · exact hlt
    · exact absurd (by rw [heq]; exact hl.refl _) hfirst

/-- the state between the rotation decision and the drop rules -/
theorem mid_facts (v : Version) (src : Nat) (nf : List Entry → Bool) (s : CutState) (e : Entry)
    (es : List Entry) (h : CutInv c v src s (e :: es)) :
    (∀ x ∈ (if rotateB c nf s e then [] else s.tw), c.le x.ukey e.ukey) ∧
    (∀ x ∈ (if rotateB c nf s e then s.done ++ [s.tw] else s.done).flatten, c.lt x.ukey e.ukey) ∧
    (∀ p ∈ (if rotateB c nf s e then s.done ++ [s.tw] else s.done), p ≠ []) ∧
    (if rotateB c nf s e then s.done ++ [s.tw] else s.done).Pairwise (Sep c) ∧
    (∀ a ∈ (if rotateB c nf s e then s.done ++ [s.tw] else s.done),
      Sep c a (if rotateB c nf s e then [] else s.tw)) ∧
    (if rotateB c nf s e then s.done ++ [s.tw] else s.done).flatten ++ (if rotateB c nf s e then [] else s.tw) =
      s.done.flatten ++ s.tw := by
  by_cases hR : rotateB c nf s e = true
  · obtain ⟨htw, lk, hk, hlt⟩ := rotate_facts hl v src nf s e es h hR
    simp only [hR, if_true]
    refine ⟨fun x hx => (by cases hx), ?_, ?_, ?_, fun a _ x _ y hy => (by cases hy), (by simp)⟩
    · intro x hx
      rw [List.flatten_append, List.mem_append] at hx
      rcases hx with hx | hx
      · exact ult_trans hl (h.done_lt lk hk x hx) hlt
      · simp only [List.flatten_cons, List.flatten_nil, List.append_nil] at hx
        exact ult_of_ule_of_ult hl (h.tw_le lk hk x hx) hlt
    · intro p hp
      rcases List.mem_append.1 hp with hp | hp
      · exact h.done_ne p hp
      · rw [List.mem_singleton.1 hp]; exact htw
    · rw [List.pairwise_append]
      refine ⟨h.done_pw, List.pairwise_singleton _ _, ?_⟩
      intro a ha b hb
      rw [List.mem_singleton.1 hb]
      exact h.done_tw a ha
  · have hR' : rotateB c nf s e = false := by simpa using hR
    simp only [hR', Bool.false_eq_true, if_false]
    cases hk : s.st.lastKey with
    | none =>
      obtain ⟨h1, h2⟩ := h.fresh hk
      rw [h1, h2]
      exact ⟨fun x hx => (by cases hx), fun x hx => (by simp at hx), fun p hp => (by cases hp), List.Pairwise.nil,
        fun a ha => (by cases ha), trivial⟩
    | some lk =>
      have hle := h.next_ge lk hk e (by simp)
      exact ⟨fun x hx => ule_trans hl (h.tw_le lk hk x hx) hle,
        fun x hx => ult_of_ult_of_ule hl (h.done_lt lk hk x hx) hle, h.done_ne, h.done_pw, h.done_tw, trivial⟩

/-- **one iteration** keeps the invariant, makes the keep/drop decision of the model builder with the pure
`baseLevelForKey`, and appends the entry (if kept) after what was written so far -/
theorem cutStep_inv (v : Version) (hw : v.WFi c) (src : Nat) (minSeq : Nat) (nf : List Entry → Bool)
    (s : CutState) (e : Entry) (es : List Entry) (h : CutInv c v src s (e :: es)) :
    CutInv c v src (cutStep c minSeq nf s e) es ∧
    (cutStep c minSeq nf s e).st = (bstep c minSeq (GoLevel.baseLevelForKey c v src) s.st e).1 ∧
    (cutStep c minSeq nf s e).done.flatten ++ (cutStep c minSeq nf s e).tw =
      (s.done.flatten ++ s.tw) ++
        (if (bstep c minSeq (GoLevel.baseLevelForKey c v src) s.st e).2 then [e] else []) := by
  obtain ⟨f1, f2, f3⟩ := cm1Of_fields c nf s e
  have hcur : CursorInv c (cm1Of c nf s e).v (cm1Of c nf s e).sourceLevel (cm1Of c nf s e).tPtrs e.ukey := by
    rw [f1, f2, f3, h.v_eq, h.src_eq]; exact h.cursor e (by simp)
  obtain ⟨b1, b2, b3⟩ := bstepC_spec hl minSeq (cm1Of c nf s e) (by rw [f1, h.v_eq]; exact hw) s.st e hcur
  obtain ⟨bv, bs⟩ := bstepC_v c minSeq (cm1Of c nf s e) s.st e
  rw [f1, f2, h.v_eq, h.src_eq] at b1 b2 b3
  rw [f1, h.v_eq] at bv
  rw [f2, h.src_eq] at bs
  obtain ⟨m1, m2, m3, m4, m5, m6⟩ := mid_facts hl v src nf s e es h
  obtain ⟨hhead, htail⟩ := List.pairwise_cons.1 h.sorted
  have hst : (bstep c minSeq (GoLevel.baseLevelForKey c v src) s.st e).1.lastKey = some e.ukey := by
    rw [bstep_eq]
  generalize htw0 : (if rotateB c nf s e then [] else s.tw) = tw0 at m1 m5 m6
  generalize hdn : (if rotateB c nf s e then s.done ++ [s.tw] else s.done) = dn at m2 m3 m4 m5 m6
  -- what the new table writer holds
  have htw' : ∀ y ∈ (if (bstep c minSeq (GoLevel.baseLevelForKey c v src) s.st e).2 then tw0 ++ [e] else tw0),
      y ∈ tw0 ∨ y = e := by
    intro y hy
    cases hkp : (bstep c minSeq (GoLevel.baseLevelForKey c v src) s.st e).2 with
    | true =>
      rw [hkp] at hy
      simp only [if_true] at hy
      rcases List.mem_append.1 hy with hy | hy
      · exact .inl hy
      · exact .inr (List.mem_singleton.1 hy)
    | false =>
      rw [hkp] at hy
      exact .inl (by simpa using hy)
  rw [cutStep_eq, htw0, hdn, b2]
  refine ⟨?_, b1, ?_⟩
  · refine ⟨bv, bs, ?_, htail, ?_, ?_, ?_, ?_, m3, m4, ?_⟩
    · intro e' he'
      exact b3.mono hl (hhead e' he')
    · intro hn
      simp only [] at hn
      rw [b1, hst] at hn; cases hn
    · intro lk hk x hx
      simp only [] at hk hx
      rw [b1, hst] at hk
      cases hk
      rcases htw' x hx with hx | hx
      · exact m1 x hx
      · rw [hx]; exact ule_refl hl _
    · intro lk hk x hx
      simp only [] at hk hx
      rw [b1, hst] at hk
      cases hk
      exact m2 x hx
    · intro lk hk e' he'
      simp only [] at hk
      rw [b1, hst] at hk
      cases hk
      exact hhead e' he'
    · intro a ha x hx y hy
      simp only [] at ha hy
      rcases htw' y hy with hy | hy
      · exact m5 a ha x hx y hy
      · rw [hy]
        exact m2 x (List.mem_flatten.2 ⟨a, ha, hx⟩)
  · simp only []
    cases hkp : (bstep c minSeq (GoLevel.baseLevelForKey c v src) s.st e).2 with
    | true =>
      simp only [if_true]
      rw [← List.append_assoc, m6]
    | false =>
      simp only [Bool.false_eq_true, if_false]
      rw [m6, List.append_nil]

/-- **the whole loop** -/
theorem cutRun_inv (v : Version) (hw : v.WFi c) (src : Nat) (minSeq : Nat) (nf : List Entry → Bool)
    (es : List Entry) (s : CutState) (h : CutInv c v src s es) :
    CutInv c v src (cutRun c minSeq nf s es) [] ∧
    (cutRun c minSeq nf s es).done.flatten ++ (cutRun c minSeq nf s es).tw =
      (s.done.flatten ++ s.tw) ++ build c minSeq (GoLevel.baseLevelForKey c v src) s.st es := by
  induction es generalizing s with
  | nil => exact ⟨h, by simp [cutRun, build]⟩
  | cons e es ih =>
    obtain ⟨h1, h2, h3⟩ := cutStep_inv hl v hw src minSeq nf s e es h
    obtain ⟨i1, i2⟩ := ih (cutStep c minSeq nf s e) h1
    rw [cutRun]
    refine ⟨i1, ?_⟩
    rw [i2, h3, h2, build]
    split
    · simp
    · simp

end

/-! ## from the invariant to `legalCut` -/

theorem zip_tail_all {α : Type} (R : α → α → Prop) (q : α × α → Bool) (l : List α) (hp : l.Pairwise R)
    (hq : ∀ a b, a ∈ l → b ∈ l → R a b → q (a, b) = true) : (l.zip l.tail).all q = true := by
  induction l with
  | nil => rfl
  | cons a rest ih =>
    cases rest with
    | nil => rfl
    | cons b rest' =>
      obtain ⟨ha, hrest⟩ := List.pairwise_cons.1 hp
      simp only [List.tail_cons, List.zip_cons_cons, List.all_cons, Bool.and_eq_true]
      refine ⟨hq a b (by simp) (by simp) (ha b (by simp)), ?_⟩
      have := ih hrest (fun x y hx hy => hq x y (List.mem_cons_of_mem _ hx) (List.mem_cons_of_mem _ hy))
      simpa using this

/-- non-empty pieces that are pairwise separated by user key form a legal cut of their concatenation -/
theorem legalCut_of_sep (c : UCmp) (pieces : List (List Entry)) (hne : ∀ p ∈ pieces, p ≠ [])
    (hp : pieces.Pairwise (Sep c)) : legalCut c pieces.flatten pieces = true := by
  unfold legalCut
  simp only [decide_true, Bool.true_and, Bool.and_eq_true]
  refine ⟨?_, ?_⟩
  · rw [List.all_eq_true]
    intro p hp'
    have := hne p hp'
    cases p with
    | nil => exact absurd rfl this
    | cons _ _ => rfl
  · apply zip_tail_all (Sep c) _ pieces hp
    intro a b ha hb hsep
    cases hx : a.getLast? with
    | none => exact absurd (List.getLast?_eq_none_iff.1 hx) (hne a ha)
    | some x =>
      cases hy : b.head? with
      | none => exact absurd (List.head?_eq_none_iff.1 hy) (hne b hb)
      | some y =>
        have hlt := hsep x (List.mem_of_getLast? hx) y (List.mem_of_head? hy)
        simp only []
        have : c.cmp x.ukey y.ukey = .lt := hlt
        rw [this]; rfl

section
variable {c : UCmp} (hl : LawfulUCmp c)
include hl

/-- **(H3)**: started with nothing written and a cursor satisfying `CursorInv` for the keys to come, the tables
`run` writes for an input with non-decreasing user keys are a legal cut of the model builder's output -/
theorem runCut_legal (v : Version) (hw : v.WFi c) (src : Nat) (minSeq : Nat) (nf : List Entry → Bool)
    (cm : Compaction) (hv : cm.v = v) (hs : cm.sourceLevel = src) (es : List Entry)
    (hsorted : es.Pairwise (fun a b => c.le a.ukey b.ukey))
    (hcur : ∀ e ∈ es, CursorInv c v src cm.tPtrs e.ukey) :
    legalCut c (build c minSeq (GoLevel.baseLevelForKey c v src) {} es)
      (cutRun c minSeq nf ⟨cm, {}, [], []⟩ es).pieces = true := by
  have h0 : CutInv c v src ⟨cm, {}, [], []⟩ es :=
    ⟨hv, hs, hcur, hsorted, fun _ => ⟨rfl, rfl⟩, fun lk hk => (by cases hk), fun lk hk => (by cases hk),
      fun lk hk => (by cases hk), fun p hp => (by cases hp), List.Pairwise.nil, fun a ha => (by cases ha)⟩
  obtain ⟨hinv, hflat⟩ := cutRun_inv hl v hw src minSeq nf es _ h0
  simp only [List.flatten_nil, List.nil_append] at hflat
  rw [← hflat]
  generalize cutRun c minSeq nf ⟨cm, {}, [], []⟩ es = f at hinv
  unfold CutState.pieces
  by_cases hemp : f.tw = []
  · rw [hemp]
    simp only [List.isEmpty_nil, if_true, List.append_nil]
    exact legalCut_of_sep c f.done hinv.done_ne hinv.done_pw
  · have : f.tw.isEmpty = false := by
      cases htw : f.tw with
      | nil => exact absurd htw hemp
      | cons _ _ => rfl
    rw [this]
    simp only [Bool.false_eq_true, if_false]
    have hfl : f.done.flatten ++ f.tw = (f.done ++ [f.tw]).flatten := by simp
    rw [hfl]
    apply legalCut_of_sep
    · intro p hp
      rcases List.mem_append.1 hp with hp | hp
      · exact hinv.done_ne p hp
      · rw [List.mem_singleton.1 hp]; exact hemp
    · rw [List.pairwise_append]
      refine ⟨hinv.done_pw, List.pairwise_singleton _ _, ?_⟩
      intro a ha b hb
      rw [List.mem_singleton.1 hb]
      exact hinv.done_tw a ha

/-- … for a compaction fresh from `newCompaction` (`run` starts with `b.c.restore()`, which gives back the
zero cursor `newCompaction` saved) -/
theorem runTables_legal (o : Limits) (v : Version) (hw : v.WFi c) (src : Nat) (t0 : List Table)
    (cm : Compaction) (hcm : newCompaction c o v src t0 = some cm) (minSeq : Nat) (nf : List Entry → Bool)
    (es : List Entry) (hsorted : es.Pairwise (fun a b => c.le a.ukey b.ukey)) :
    legalCut c (build c minSeq (GoLevel.baseLevelForKey c v src) {} es) (runTables c minSeq nf cm es) = true := by
  obtain ⟨e, hb⟩ := newCompaction_built c o v src t0 cm hcm
  unfold runTables
  apply runCut_legal hl v hw src minSeq nf cm.restore hb.v_eq hb.src_eq es hsorted
  intro x _
  have : cm.restore.tPtrs = List.replicate v.levels.length 0 := by
    show cm.snapTPtrs = _
    rw [hb.snap_eq.1, hb.ptrs_eq]
  rw [this]
  exact cursorInv_init c v src x.ukey

end

end GoLevel.Pick
