import GoLevel.Proofs.LocksPInv
/-! A thread waiting for the ack of a compaction goroutine is that goroutine's registered waiter, or the
alternatives of its `select` are enabled (any configuration). -/
namespace GoLevel.Locks
set_option linter.unusedSimpArgs false

def W1 (s : St) : Prop :=
  ∀ (i : Nat) (b : Bool) (site : Site) (lg : Bool), s.ws[i]? = some (.cwAck b site lg) →
    (∃ ph, s.bg b = .run (some i) ph) ∨ Alt s

/-- a thread that waits after `ackWs` waited before, and was not the acked one -/
theorem ackWs_get (ws : List Pc) (w : Option Nat) (b : Bool) (i : Nat) (b' : Bool) (site : Site) (lg : Bool)
    (h : (ackWs ws w b)[i]? = some (.cwAck b' site lg)) :
    ws[i]? = some (.cwAck b' site lg) ∧ (b' = b → w ≠ some i) := by
  unfold ackWs at h
  split at h
  · rename_i j
    split at h
    · rename_i b'' site'' lg'' hj
      split at h
      · rename_i hb
        rw [List.getElem?_set] at h
        split at h
        · split at h
          · cases site'' <;> cases lg'' <;> simp [onOk] at h
          · cases h
        · rename_i hne
          exact ⟨h, fun _ hw => hne (by cases hw; rfl)⟩
      · rename_i hb
        refine ⟨h, fun hbb hw => ?_⟩
        cases hw; rw [hj] at h; cases h; exact hb hbb
    · rename_i hj
      refine ⟨h, fun hbb hw => ?_⟩
      cases hw; exact hj _ _ _ h
  · exact ⟨h, fun _ hw => by cases hw⟩

theorem step_w1 (cfg : Cfg) (s t : St) (f : Bool) (h : Step cfg f s t) (inv : W1 s) : W1 t := by
  unfold W1 at *
  cases h with
  | startPut _ i hi =>
    intro i' b' site' lg' hi'
    (try simp only [St.setDone, St.setBg] at hi') <;> (repeat' split at hi') <;> (try simp only [List.getElem?_set] at hi') <;> grind [St.setBg, St.setDone, St.bg, Alt, clearW, onOk, onErr, selNext, afterSetErr, ackWs]
  | startWrite _ i hi =>
    intro i' b' site' lg' hi'
    (try simp only [St.setDone, St.setBg] at hi') <;> (repeat' split at hi') <;> (try simp only [List.getElem?_set] at hi') <;> grind [St.setBg, St.setDone, St.bg, Alt, clearW, onOk, onErr, selNext, afterSetErr, ackWs]
  | startOtx _ i hi =>
    intro i' b' site' lg' hi'
    (try simp only [St.setDone, St.setBg] at hi') <;> (repeat' split at hi') <;> (try simp only [List.getElem?_set] at hi') <;> grind [St.setBg, St.setDone, St.bg, Alt, clearW, onOk, onErr, selNext, afterSetErr, ackWs]
  | startCommit _ i hi hu =>
    intro i' b' site' lg' hi'
    (try simp only [St.setDone, St.setBg] at hi') <;> (repeat' split at hi') <;> (try simp only [List.getElem?_set] at hi') <;> grind [St.setBg, St.setDone, St.bg, Alt, clearW, onOk, onErr, selNext, afterSetErr, ackWs]
  | startDiscard _ i hi hu =>
    intro i' b' site' lg' hi'
    (try simp only [St.setDone, St.setBg] at hi') <;> (repeat' split at hi') <;> (try simp only [List.getElem?_set] at hi') <;> grind [St.setBg, St.setDone, St.bg, Alt, clearW, onOk, onErr, selNext, afterSetErr, ackWs]
  | startCR _ i hi =>
    intro i' b' site' lg' hi'
    (try simp only [St.setDone, St.setBg] at hi') <;> (repeat' split at hi') <;> (try simp only [List.getElem?_set] at hi') <;> grind [St.setBg, St.setDone, St.bg, Alt, clearW, onOk, onErr, selNext, afterSetErr, ackWs]
  | startSR _ i hi ha =>
    intro i' b' site' lg' hi'
    (try simp only [St.setDone, St.setBg] at hi') <;> (repeat' split at hi') <;> (try simp only [List.getElem?_set] at hi') <;> grind [St.setBg, St.setDone, St.bg, Alt, clearW, onOk, onErr, selNext, afterSetErr, ackWs]
  | startClose _ i hi =>
    intro i' b' site' lg' hi'
    (try simp only [St.setDone, St.setBg] at hi') <;> (repeat' split at hi') <;> (try simp only [List.getElem?_set] at hi') <;> grind [St.setBg, St.setDone, St.bg, Alt, clearW, onOk, onErr, selNext, afterSetErr, ackWs]
  | selTok _ i p q hi hq ht =>
    intro i' b' site' lg' hi'
    cases p <;> simp only [selNext] at hq <;> (try contradiction) <;> cases hq <;> simp only [List.getElem?_set] at hi' <;> grind [St.setBg, St.setDone, St.bg, Alt, clearW, onOk, onErr, selNext, afterSetErr, ackWs]
  | selPerErr _ i p q hi hq he =>
    intro i' b' site' lg' hi'
    cases p <;> simp only [selNext] at hq <;> (try contradiction) <;> cases hq <;> simp only [List.getElem?_set] at hi' <;> grind [St.setBg, St.setDone, St.bg, Alt, clearW, onOk, onErr, selNext, afterSetErr, ackWs]
  | selClosed _ i p q hi hq hc =>
    intro i' b' site' lg' hi'
    cases p <;> simp only [selNext] at hq <;> (try contradiction) <;> cases hq <;> simp only [List.getElem?_set] at hi' <;> grind [St.setBg, St.setDone, St.bg, Alt, clearW, onOk, onErr, selNext, afterSetErr, ackWs]
  | putNoWait _ i hi =>
    intro i' b' site' lg' hi'
    (try simp only [St.setDone, St.setBg] at hi') <;> (repeat' split at hi') <;> (try simp only [List.getElem?_set] at hi') <;> grind [St.setBg, St.setDone, St.bg, Alt, clearW, onOk, onErr, selNext, afterSetErr, ackWs]
  | putWait _ i b hi =>
    intro i' b' site' lg' hi'
    (try simp only [St.setDone, St.setBg] at hi') <;> (repeat' split at hi') <;> (try simp only [List.getElem?_set] at hi') <;> grind [St.setBg, St.setDone, St.bg, Alt, clearW, onOk, onErr, selNext, afterSetErr, ackWs]
  | putJournalOk _ i hi =>
    intro i' b' site' lg' hi'
    (try simp only [St.setDone, St.setBg] at hi') <;> (repeat' split at hi') <;> (try simp only [List.getElem?_set] at hi') <;> grind [St.setBg, St.setDone, St.bg, Alt, clearW, onOk, onErr, selNext, afterSetErr, ackWs]
  | putJournalFail _ i hi =>
    intro i' b' site' lg' hi'
    (try simp only [St.setDone, St.setBg] at hi') <;> (repeat' split at hi') <;> (try simp only [List.getElem?_set] at hi') <;> grind [St.setBg, St.setDone, St.bg, Alt, clearW, onOk, onErr, selNext, afterSetErr, ackWs]
  | putUnlock _ i r hi =>
    intro i' b' site' lg' hi'
    (try simp only [St.setDone, St.setBg] at hi') <;> (repeat' split at hi') <;> (try simp only [List.getElem?_set] at hi') <;> grind [St.setBg, St.setDone, St.bg, Alt, clearW, onOk, onErr, selNext, afterSetErr, ackWs]
  | cwSendGo _ i b site lg hi hb =>
    intro i' b' site' lg' hi'
    (try simp only [St.setDone, St.setBg] at hi') <;> (repeat' split at hi') <;> (try simp only [List.getElem?_set] at hi') <;> grind [St.setBg, St.setDone, St.bg, Alt, clearW, onOk, onErr, selNext, afterSetErr, ackWs]
  | cwSendErr _ i b site lg hi he =>
    intro i' b' site' lg' hi'
    cases site <;> (try simp only [St.setDone, St.setBg] at hi') <;> (repeat' split at hi') <;> (try simp only [List.getElem?_set] at hi') <;> grind [St.setBg, St.setDone, St.bg, Alt, clearW, onOk, onErr, selNext, afterSetErr, ackWs]
  | cwAckErr _ i b site lg hi he =>
    intro i' b' site' lg' hi'
    cases site <;> (try simp only [St.setDone, St.setBg] at hi') <;> (repeat' split at hi') <;> (try simp only [List.getElem?_set] at hi') <;> grind [St.setBg, St.setDone, St.bg, Alt, clearW, onOk, onErr, selNext, afterSetErr, ackWs]
  | otxRotate _ i lg hi =>
    intro i' b' site' lg' hi'
    (try simp only [St.setDone, St.setBg] at hi') <;> (repeat' split at hi') <;> (try simp only [List.getElem?_set] at hi') <;> grind [St.setBg, St.setDone, St.bg, Alt, clearW, onOk, onErr, selNext, afterSetErr, ackWs]
  | otxNoRotate _ i lg hi =>
    intro i' b' site' lg' hi'
    (try simp only [St.setDone, St.setBg] at hi') <;> (repeat' split at hi') <;> (try simp only [List.getElem?_set] at hi') <;> grind [St.setBg, St.setDone, St.bg, Alt, clearW, onOk, onErr, selNext, afterSetErr, ackWs]
  | otxNewMemOk _ i lg hi =>
    intro i' b' site' lg' hi'
    (try simp only [St.setDone, St.setBg] at hi') <;> (repeat' split at hi') <;> (try simp only [List.getElem?_set] at hi') <;> grind [St.setBg, St.setDone, St.bg, Alt, clearW, onOk, onErr, selNext, afterSetErr, ackWs]
  | otxNewMemFail _ i lg hi =>
    intro i' b' site' lg' hi'
    (try simp only [St.setDone, St.setBg] at hi') <;> (repeat' split at hi') <;> (try simp only [List.getElem?_set] at hi') <;> grind [St.setBg, St.setDone, St.bg, Alt, clearW, onOk, onErr, selNext, afterSetErr, ackWs]
  | otxNoWaitComp _ i lg hi =>
    intro i' b' site' lg' hi'
    (try simp only [St.setDone, St.setBg] at hi') <;> (repeat' split at hi') <;> (try simp only [List.getElem?_set] at hi') <;> grind [St.setBg, St.setDone, St.bg, Alt, clearW, onOk, onErr, selNext, afterSetErr, ackWs]
  | otxWaitComp _ i lg hi =>
    intro i' b' site' lg' hi'
    (try simp only [St.setDone, St.setBg] at hi') <;> (repeat' split at hi') <;> (try simp only [List.getElem?_set] at hi') <;> grind [St.setBg, St.setDone, St.bg, Alt, clearW, onOk, onErr, selNext, afterSetErr, ackWs]
  | otxFail _ i lg hi =>
    intro i' b' site' lg' hi'
    (try simp only [St.setDone, St.setBg] at hi') <;> (repeat' split at hi') <;> (try simp only [List.getElem?_set] at hi') <;> grind [St.setBg, St.setDone, St.bg, Alt, clearW, onOk, onErr, selNext, afterSetErr, ackWs]
  | otxRel _ i lg hi =>
    intro i' b' site' lg' hi'
    (try simp only [St.setDone, St.setBg] at hi') <;> (repeat' split at hi') <;> (try simp only [List.getElem?_set] at hi') <;> grind [St.setBg, St.setDone, St.bg, Alt, clearW, onOk, onErr, selNext, afterSetErr, ackWs]
  | otxDone _ i lg hi =>
    intro i' b' site' lg' hi'
    (try simp only [St.setDone, St.setBg] at hi') <;> (repeat' split at hi') <;> (try simp only [List.getElem?_set] at hi') <;> grind [St.setBg, St.setDone, St.bg, Alt, clearW, onOk, onErr, selNext, afterSetErr, ackWs]
  | lgWriteOk _ i hi =>
    intro i' b' site' lg' hi'
    (try simp only [St.setDone, St.setBg] at hi') <;> (repeat' split at hi') <;> (try simp only [List.getElem?_set] at hi') <;> grind [St.setBg, St.setDone, St.bg, Alt, clearW, onOk, onErr, selNext, afterSetErr, ackWs]
  | lgWriteFail _ i hi =>
    intro i' b' site' lg' hi'
    (try simp only [St.setDone, St.setBg] at hi') <;> (repeat' split at hi') <;> (try simp only [List.getElem?_set] at hi') <;> grind [St.setBg, St.setDone, St.bg, Alt, clearW, onOk, onErr, selNext, afterSetErr, ackWs]
  | cmLockTr _ i lg hi hl =>
    intro i' b' site' lg' hi'
    (try simp only [St.setDone, St.setBg] at hi') <;> (repeat' split at hi') <;> (try simp only [List.getElem?_set] at hi') <;> grind [St.setBg, St.setDone, St.bg, Alt, clearW, onOk, onErr, selNext, afterSetErr, ackWs]
  | cmFlushOk _ i lg hi =>
    intro i' b' site' lg' hi'
    (try simp only [St.setDone, St.setBg] at hi') <;> (repeat' split at hi') <;> (try simp only [List.getElem?_set] at hi') <;> grind [St.setBg, St.setDone, St.bg, Alt, clearW, onOk, onErr, selNext, afterSetErr, ackWs]
  | cmFlushEmpty _ i lg hi =>
    intro i' b' site' lg' hi'
    (try simp only [St.setDone, St.setBg] at hi') <;> (repeat' split at hi') <;> (try simp only [List.getElem?_set] at hi') <;> grind [St.setBg, St.setDone, St.bg, Alt, clearW, onOk, onErr, selNext, afterSetErr, ackWs]
  | cmFlushFail _ i lg hi =>
    intro i' b' site' lg' hi'
    (try simp only [St.setDone, St.setBg] at hi') <;> (repeat' split at hi') <;> (try simp only [List.getElem?_set] at hi') <;> grind [St.setBg, St.setDone, St.bg, Alt, clearW, onOk, onErr, selNext, afterSetErr, ackWs]
  | cmLockClk _ i lg hi hl =>
    intro i' b' site' lg' hi'
    (try simp only [St.setDone, St.setBg] at hi') <;> (repeat' split at hi') <;> (try simp only [List.getElem?_set] at hi') <;> grind [St.setBg, St.setDone, St.bg, Alt, clearW, onOk, onErr, selNext, afterSetErr, ackWs]
  | cmTryOk _ i k lg hi =>
    intro i' b' site' lg' hi'
    (try simp only [St.setDone, St.setBg] at hi') <;> (repeat' split at hi') <;> (try simp only [List.getElem?_set] at hi') <;> grind [St.setBg, St.setDone, St.bg, Alt, clearW, onOk, onErr, selNext, afterSetErr, ackWs]
  | cmTryFail _ i k lg hi =>
    intro i' b' site' lg' hi'
    (try simp only [St.setDone, St.setBg] at hi') <;> (repeat' split at hi') <;> (try simp only [List.getElem?_set] at hi') <;> grind [St.setBg, St.setDone, St.bg, Alt, clearW, onOk, onErr, selNext, afterSetErr, ackWs]
  | cmSleepTimer _ i k lg hi =>
    intro i' b' site' lg' hi'
    (try simp only [St.setDone, St.setBg] at hi') <;> (repeat' split at hi') <;> (try simp only [List.getElem?_set] at hi') <;> grind [St.setBg, St.setDone, St.bg, Alt, clearW, onOk, onErr, selNext, afterSetErr, ackWs]
  | cmSleepClosed _ i k lg hi hc =>
    intro i' b' site' lg' hi'
    (try simp only [St.setDone, St.setBg] at hi') <;> (repeat' split at hi') <;> (try simp only [List.getElem?_set] at hi') <;> grind [St.setBg, St.setDone, St.bg, Alt, clearW, onOk, onErr, selNext, afterSetErr, ackWs]
  | cmFail3 _ i lg hi =>
    intro i' b' site' lg' hi'
    (try simp only [St.setDone, St.setBg] at hi') <;> (repeat' split at hi') <;> (try simp only [List.getElem?_set] at hi') <;> grind [St.setBg, St.setDone, St.bg, Alt, clearW, onOk, onErr, selNext, afterSetErr, ackWs]
  | cmAfterOk _ i lg hi =>
    intro i' b' site' lg' hi'
    (try simp only [St.setDone, St.setBg] at hi') <;> (repeat' split at hi') <;> (try simp only [List.getElem?_set] at hi') <;> grind [St.setBg, St.setDone, St.bg, Alt, clearW, onOk, onErr, selNext, afterSetErr, ackWs]
  | cmNoWaitComp _ i lg hi =>
    intro i' b' site' lg' hi'
    (try simp only [St.setDone, St.setBg] at hi') <;> (repeat' split at hi') <;> (try simp only [List.getElem?_set] at hi') <;> grind [St.setBg, St.setDone, St.bg, Alt, clearW, onOk, onErr, selNext, afterSetErr, ackWs]
  | cmWaitComp _ i lg hi =>
    intro i' b' site' lg' hi'
    (try simp only [St.setDone, St.setBg] at hi') <;> (repeat' split at hi') <;> (try simp only [List.getElem?_set] at hi') <;> grind [St.setBg, St.setDone, St.bg, Alt, clearW, onOk, onErr, selNext, afterSetErr, ackWs]
  | cmDone _ i lg hi =>
    intro i' b' site' lg' hi'
    (try simp only [St.setDone, St.setBg] at hi') <;> (repeat' split at hi') <;> (try simp only [List.getElem?_set] at hi') <;> grind [St.setBg, St.setDone, St.bg, Alt, clearW, onOk, onErr, selNext, afterSetErr, ackWs]
  | cmRet _ i ok lg hi =>
    intro i' b' site' lg' hi'
    (try simp only [St.setDone, St.setBg] at hi') <;> (repeat' split at hi') <;> (try simp only [List.getElem?_set] at hi') <;> grind [St.setBg, St.setDone, St.bg, Alt, clearW, onOk, onErr, selNext, afterSetErr, ackWs]
  | dcLockTr _ i lg hi hl =>
    intro i' b' site' lg' hi'
    (try simp only [St.setDone, St.setBg] at hi') <;> (repeat' split at hi') <;> (try simp only [List.getElem?_set] at hi') <;> grind [St.setBg, St.setDone, St.bg, Alt, clearW, onOk, onErr, selNext, afterSetErr, ackWs]
  | dcBody _ i lg hi =>
    intro i' b' site' lg' hi'
    (try simp only [St.setDone, St.setBg] at hi') <;> (repeat' split at hi') <;> (try simp only [List.getElem?_set] at hi') <;> grind [St.setBg, St.setDone, St.bg, Alt, clearW, onOk, onErr, selNext, afterSetErr, ackWs]
  | crNoOverlap _ i hi =>
    intro i' b' site' lg' hi'
    (try simp only [St.setDone, St.setBg] at hi') <;> (repeat' split at hi') <;> (try simp only [List.getElem?_set] at hi') <;> grind [St.setBg, St.setDone, St.bg, Alt, clearW, onOk, onErr, selNext, afterSetErr, ackWs]
  | crOverlap _ i hi =>
    intro i' b' site' lg' hi'
    (try simp only [St.setDone, St.setBg] at hi') <;> (repeat' split at hi') <;> (try simp only [List.getElem?_set] at hi') <;> grind [St.setBg, St.setDone, St.bg, Alt, clearW, onOk, onErr, selNext, afterSetErr, ackWs]
  | crNewMemOk _ i hi =>
    intro i' b' site' lg' hi'
    (try simp only [St.setDone, St.setBg] at hi') <;> (repeat' split at hi') <;> (try simp only [List.getElem?_set] at hi') <;> grind [St.setBg, St.setDone, St.bg, Alt, clearW, onOk, onErr, selNext, afterSetErr, ackWs]
  | crNewMemFail _ i hi =>
    intro i' b' site' lg' hi'
    (try simp only [St.setDone, St.setBg] at hi') <;> (repeat' split at hi') <;> (try simp only [List.getElem?_set] at hi') <;> grind [St.setBg, St.setDone, St.bg, Alt, clearW, onOk, onErr, selNext, afterSetErr, ackWs]
  | crRelM _ i hi =>
    intro i' b' site' lg' hi'
    (try simp only [St.setDone, St.setBg] at hi') <;> (repeat' split at hi') <;> (try simp only [List.getElem?_set] at hi') <;> grind [St.setBg, St.setDone, St.bg, Alt, clearW, onOk, onErr, selNext, afterSetErr, ackWs]
  | crRelOk _ i hi =>
    intro i' b' site' lg' hi'
    (try simp only [St.setDone, St.setBg] at hi') <;> (repeat' split at hi') <;> (try simp only [List.getElem?_set] at hi') <;> grind [St.setBg, St.setDone, St.bg, Alt, clearW, onOk, onErr, selNext, afterSetErr, ackWs]
  | crRelFail _ i hi =>
    intro i' b' site' lg' hi'
    (try simp only [St.setDone, St.setBg] at hi') <;> (repeat' split at hi') <;> (try simp only [List.getElem?_set] at hi') <;> grind [St.setBg, St.setDone, St.bg, Alt, clearW, onOk, onErr, selNext, afterSetErr, ackWs]
  | srSend _ i hi he =>
    intro i' b' site' lg' hi'
    (try simp only [St.setDone, St.setBg] at hi') <;> (repeat' split at hi') <;> (try simp only [List.getElem?_set] at hi') <;> grind [St.setBg, St.setDone, St.bg, Alt, clearW, onOk, onErr, selNext, afterSetErr, ackWs]
  | srPerErr _ i hi he =>
    intro i' b' site' lg' hi'
    (try simp only [St.setDone, St.setBg] at hi') <;> (repeat' split at hi') <;> (try simp only [List.getElem?_set] at hi') <;> grind [St.setBg, St.setDone, St.bg, Alt, clearW, onOk, onErr, selNext, afterSetErr, ackWs]
  | srClosed _ i hi hc =>
    intro i' b' site' lg' hi'
    (try simp only [St.setDone, St.setBg] at hi') <;> (repeat' split at hi') <;> (try simp only [List.getElem?_set] at hi') <;> grind [St.setBg, St.setDone, St.bg, Alt, clearW, onOk, onErr, selNext, afterSetErr, ackWs]
  | clCheckTr _ i hi =>
    intro i' b' site' lg' hi'
    (try simp only [St.setDone, St.setBg] at hi') <;> (repeat' split at hi') <;> (try simp only [List.getElem?_set] at hi') <;> grind [St.setBg, St.setDone, St.bg, Alt, clearW, onOk, onErr, selNext, afterSetErr, ackWs]
  | clLockTr _ i hi hl =>
    intro i' b' site' lg' hi'
    (try simp only [St.setDone, St.setBg] at hi') <;> (repeat' split at hi') <;> (try simp only [List.getElem?_set] at hi') <;> grind [St.setBg, St.setDone, St.bg, Alt, clearW, onOk, onErr, selNext, afterSetErr, ackWs]
  | clBody _ i hi =>
    intro i' b' site' lg' hi'
    (try simp only [St.setDone, St.setBg] at hi') <;> (repeat' split at hi') <;> (try simp only [List.getElem?_set] at hi') <;> grind [St.setBg, St.setDone, St.bg, Alt, clearW, onOk, onErr, selNext, afterSetErr, ackWs]
  | clAcq _ i hi ht =>
    intro i' b' site' lg' hi'
    (try simp only [St.setDone, St.setBg] at hi') <;> (repeat' split at hi') <;> (try simp only [List.getElem?_set] at hi') <;> grind [St.setBg, St.setDone, St.bg, Alt, clearW, onOk, onErr, selNext, afterSetErr, ackWs]
  | clWait _ i hi hm ht =>
    intro i' b' site' lg' hi'
    (try simp only [St.setDone, St.setBg] at hi') <;> (repeat' split at hi') <;> (try simp only [List.getElem?_set] at hi') <;> grind [St.setBg, St.setDone, St.bg, Alt, clearW, onOk, onErr, selNext, afterSetErr, ackWs]
  | ehAcquire _ he ht hn =>
    intro i' b' site' lg' hi'
    (try simp only [St.setDone, St.setBg] at hi') <;> (repeat' split at hi') <;> (try simp only [List.getElem?_set] at hi') <;> grind [St.setBg, St.setDone, St.bg, Alt, clearW, onOk, onErr, selNext, afterSetErr, ackWs]
  | ehExit _ he hc =>
    intro i' b' site' lg' hi'
    (try simp only [St.setDone, St.setBg] at hi') <;> (repeat' split at hi') <;> (try simp only [List.getElem?_set] at hi') <;> grind [St.setBg, St.setDone, St.bg, Alt, clearW, onOk, onErr, selNext, afterSetErr, ackWs]
  | bgExitIdle _ b hb hc =>
    intro i' b' site' lg' hi'
    (try simp only [St.setDone, St.setBg] at hi') <;> (repeat' split at hi') <;> (try simp only [List.getElem?_set] at hi') <;> grind [St.setBg, St.setDone, St.bg, Alt, clearW, onOk, onErr, selNext, afterSetErr, ackWs]
  | bgWorkOk _ b w hb =>
    intro i' b' site' lg' hi'
    (try simp only [St.setDone, St.setBg] at hi') <;> (repeat' split at hi') <;> (try simp only [List.getElem?_set] at hi') <;> grind [St.setBg, St.setDone, St.bg, Alt, clearW, onOk, onErr, selNext, afterSetErr, ackWs]
  | bgWorkFail _ b w hb =>
    intro i' b' site' lg' hi'
    (try simp only [St.setDone, St.setBg] at hi') <;> (repeat' split at hi') <;> (try simp only [List.getElem?_set] at hi') <;> grind [St.setBg, St.setDone, St.bg, Alt, clearW, onOk, onErr, selNext, afterSetErr, ackWs]
  | bgCommitOk _ b w hb =>
    intro i' b' site' lg' hi'
    (try simp only [St.setDone, St.setBg] at hi') <;> (repeat' split at hi') <;> (try simp only [List.getElem?_set] at hi') <;> grind [St.setBg, St.setDone, St.bg, Alt, clearW, onOk, onErr, selNext, afterSetErr, ackWs]
  | bgCommitFail _ b w hb =>
    intro i' b' site' lg' hi'
    (try simp only [St.setDone, St.setBg] at hi') <;> (repeat' split at hi') <;> (try simp only [List.getElem?_set] at hi') <;> grind [St.setBg, St.setDone, St.bg, Alt, clearW, onOk, onErr, selNext, afterSetErr, ackWs]
  | bgSetErr _ b w ok c hb he =>
    intro i' b' site' lg' hi'
    (try simp only [St.setDone, St.setBg] at hi') <;> (repeat' split at hi') <;> (try simp only [List.getElem?_set] at hi') <;> grind [St.setBg, St.setDone, St.bg, Alt, clearW, onOk, onErr, selNext, afterSetErr, ackWs]
  | bgSetErrPer _ b w c hb he =>
    intro i' b' site' lg' hi'
    (try simp only [St.setDone, St.setBg] at hi') <;> (repeat' split at hi') <;> (try simp only [List.getElem?_set] at hi') <;> grind [St.setBg, St.setDone, St.bg, Alt, clearW, onOk, onErr, selNext, afterSetErr, ackWs]
  | bgBackoff _ b w c hb =>
    intro i' b' site' lg' hi'
    (try simp only [St.setDone, St.setBg] at hi') <;> (repeat' split at hi') <;> (try simp only [List.getElem?_set] at hi') <;> grind [St.setBg, St.setDone, St.bg, Alt, clearW, onOk, onErr, selNext, afterSetErr, ackWs]
  | bgLockClk _ b w hb hl =>
    intro i' b' site' lg' hi'
    (try simp only [St.setDone, St.setBg] at hi') <;> (repeat' split at hi') <;> (try simp only [List.getElem?_set] at hi') <;> grind [St.setBg, St.setDone, St.bg, Alt, clearW, onOk, onErr, selNext, afterSetErr, ackWs]
  | bgAck _ b w hb =>
    intro i' b' site' lg' hi'
    have := ackWs_get s.ws w b i' b' site' lg' (by cases b <;> simpa [St.setBg] using hi')
    cases b <;> grind [St.setBg, St.setDone, St.bg, Alt, clearW, onOk, onErr, selNext, afterSetErr, ackWs]
  | bgExit _ b w ph hb hx =>
    intro i' b' site' lg' hi'
    (try simp only [St.setDone, St.setBg] at hi') <;> (repeat' split at hi') <;> (try simp only [List.getElem?_set] at hi') <;> grind [St.setBg, St.setDone, St.bg, Alt, clearW, onOk, onErr, selNext, afterSetErr, ackWs]

end GoLevel.Locks
