import GoLevel.Proofs.LocksPInv
/-! A thread waiting for the ack of a compaction goroutine is that goroutine's registered waiter, or the
alternatives of its `select` are enabled (`compactionError` as coded). -/
namespace GoLevel.Locks
open CompErr
set_option linter.unusedSimpArgs false

def W1 (s : St) : Prop :=
  ∀ (i : Nat) (b : Bool) (site : Site) (lg : Bool), s.ws[i]? = some (.cwAck b site lg) →
    (∃ ph, s.bg b = .run (some i) ph) ∨ Alt s

/-- a thread that waits after `ackWs` waited before, and was not the acked one -/
theorem ackWs_get (ws : List Pc) (w : Option Nat) (b : Bool) (i : Nat) (b' : Bool) (site : Site) (lg : Bool)
    (h : (ackWs ws w b)[i]? = some (.cwAck b' site lg)) :
    ws[i]? = some (.cwAck b' site lg) ∧ (b' = b → w ≠ some i) := by
  unfold ackWs at h
  split at h
  · rename_i j
    split at h
    · rename_i b'' site'' lg'' hj
      split at h
      · rename_i hb
        rw [List.getElem?_set] at h
        split at h
        · split at h
          · cases site'' <;> cases lg'' <;> simp [onOk] at h
          · cases h
        · rename_i hne
          exact ⟨h, fun _ hw => hne (by cases hw; rfl)⟩
      · rename_i hb
        refine ⟨h, fun hbb hw => ?_⟩
        cases hw; rw [hj] at h; cases h; exact hb hbb
    · rename_i hj
      refine ⟨h, fun hbb hw => ?_⟩
      cases hw; exact hj _ _ _ h
  · exact ⟨h, fun _ hw => by cases hw⟩

theorem step_w1 (cfg : Cfg) (hm : cfg.m = .asCoded cfg.closeSel) (s t : St) (f : Bool) (h : Step cfg f s t) (inv : W1 s) : W1 t := by
  unfold W1 at *
  cases h with
  | startPut _ i hi =>
    intro i' b' site' lg' hi'
    (try simp only [St.setDone, St.setBg] at hi') <;> (repeat' split at hi') <;> (try simp only [List.getElem?_set] at hi') <;> grind [St.setBg, St.setDone, St.bg, Alt, clearW, onOk, onErr, selNext, afterSetErr, ackWs, afterCmd, nextC]
  | startWrite _ i hi =>
    intro i' b' site' lg' hi'
    (try simp only [St.setDone, St.setBg] at hi') <;> (repeat' split at hi') <;> (try simp only [List.getElem?_set] at hi') <;> grind [St.setBg, St.setDone, St.bg, Alt, clearW, onOk, onErr, selNext, afterSetErr, ackWs, afterCmd, nextC]
  | startOtx _ i hi =>
    intro i' b' site' lg' hi'
    (try simp only [St.setDone, St.setBg] at hi') <;> (repeat' split at hi') <;> (try simp only [List.getElem?_set] at hi') <;> grind [St.setBg, St.setDone, St.bg, Alt, clearW, onOk, onErr, selNext, afterSetErr, ackWs, afterCmd, nextC]
  | startCommit _ i hi hu =>
    intro i' b' site' lg' hi'
    (try simp only [St.setDone, St.setBg] at hi') <;> (repeat' split at hi') <;> (try simp only [List.getElem?_set] at hi') <;> grind [St.setBg, St.setDone, St.bg, Alt, clearW, onOk, onErr, selNext, afterSetErr, ackWs, afterCmd, nextC]
  | startDiscard _ i hi hu =>
    intro i' b' site' lg' hi'
    (try simp only [St.setDone, St.setBg] at hi') <;> (repeat' split at hi') <;> (try simp only [List.getElem?_set] at hi') <;> grind [St.setBg, St.setDone, St.bg, Alt, clearW, onOk, onErr, selNext, afterSetErr, ackWs, afterCmd, nextC]
  | startCR _ i hi =>
    intro i' b' site' lg' hi'
    (try simp only [St.setDone, St.setBg] at hi') <;> (repeat' split at hi') <;> (try simp only [List.getElem?_set] at hi') <;> grind [St.setBg, St.setDone, St.bg, Alt, clearW, onOk, onErr, selNext, afterSetErr, ackWs, afterCmd, nextC]
  | startSR _ i hi ha =>
    intro i' b' site' lg' hi'
    (try simp only [St.setDone, St.setBg] at hi') <;> (repeat' split at hi') <;> (try simp only [List.getElem?_set] at hi') <;> grind [St.setBg, St.setDone, St.bg, Alt, clearW, onOk, onErr, selNext, afterSetErr, ackWs, afterCmd, nextC]
  | startClose _ i hi =>
    intro i' b' site' lg' hi'
    (try simp only [St.setDone, St.setBg] at hi') <;> (repeat' split at hi') <;> (try simp only [List.getElem?_set] at hi') <;> grind [St.setBg, St.setDone, St.bg, Alt, clearW, onOk, onErr, selNext, afterSetErr, ackWs, afterCmd, nextC]
  | selTok _ i p q hi hq ht =>
    intro i' b' site' lg' hi'
    cases p <;> simp only [selNext] at hq <;> (try contradiction) <;> cases hq <;> simp only [List.getElem?_set] at hi' <;> grind [St.setBg, St.setDone, St.bg, Alt, clearW, onOk, onErr, selNext, afterSetErr, ackWs, afterCmd, nextC]
  | selPerErr _ i p q hi hq he =>
    intro i' b' site' lg' hi'
    cases p <;> simp only [selNext] at hq <;> (try contradiction) <;> cases hq <;> simp only [List.getElem?_set] at hi' <;> grind [St.setBg, St.setDone, St.bg, Alt, clearW, onOk, onErr, selNext, afterSetErr, ackWs, afterCmd, nextC]
  | selClosed _ i p q hi hq hc =>
    intro i' b' site' lg' hi'
    cases p <;> simp only [selNext] at hq <;> (try contradiction) <;> cases hq <;> simp only [List.getElem?_set] at hi' <;> grind [St.setBg, St.setDone, St.bg, Alt, clearW, onOk, onErr, selNext, afterSetErr, ackWs, afterCmd, nextC]
  | putNoWait _ i hi =>
    intro i' b' site' lg' hi'
    (try simp only [St.setDone, St.setBg] at hi') <;> (repeat' split at hi') <;> (try simp only [List.getElem?_set] at hi') <;> grind [St.setBg, St.setDone, St.bg, Alt, clearW, onOk, onErr, selNext, afterSetErr, ackWs, afterCmd, nextC]
  | putWait _ i b hi =>
    intro i' b' site' lg' hi'
    (try simp only [St.setDone, St.setBg] at hi') <;> (repeat' split at hi') <;> (try simp only [List.getElem?_set] at hi') <;> grind [St.setBg, St.setDone, St.bg, Alt, clearW, onOk, onErr, selNext, afterSetErr, ackWs, afterCmd, nextC]
  | putJournalOk _ i hi =>
    intro i' b' site' lg' hi'
    (try simp only [St.setDone, St.setBg] at hi') <;> (repeat' split at hi') <;> (try simp only [List.getElem?_set] at hi') <;> grind [St.setBg, St.setDone, St.bg, Alt, clearW, onOk, onErr, selNext, afterSetErr, ackWs, afterCmd, nextC]
  | putJournalFail _ i hi =>
    intro i' b' site' lg' hi'
    (try simp only [St.setDone, St.setBg] at hi') <;> (repeat' split at hi') <;> (try simp only [List.getElem?_set] at hi') <;> grind [St.setBg, St.setDone, St.bg, Alt, clearW, onOk, onErr, selNext, afterSetErr, ackWs, afterCmd, nextC]
  | putUnlock _ i r hi =>
    intro i' b' site' lg' hi'
    (try simp only [St.setDone, St.setBg] at hi') <;> (repeat' split at hi') <;> (try simp only [List.getElem?_set] at hi') <;> grind [St.setBg, St.setDone, St.bg, Alt, clearW, onOk, onErr, selNext, afterSetErr, ackWs, afterCmd, nextC]
  | cwSendGo _ i b site lg hi hb hro =>
    intro i' b' site' lg' hi'
    (try simp only [St.setDone, St.setBg] at hi') <;> (repeat' split at hi') <;> (try simp only [List.getElem?_set] at hi') <;> grind [St.setBg, St.setDone, St.bg, Alt, clearW, onOk, onErr, selNext, afterSetErr, ackWs, afterCmd, nextC]
  | cwSendRO _ i site lg hi hb hp hro =>
    intro i' b' site' lg' hi'
    cases site <;> (try simp only [St.setDone, St.setBg] at hi') <;> (repeat' split at hi') <;> (try simp only [List.getElem?_set] at hi') <;> grind [St.setBg, St.setDone, St.bg, Alt, clearW, onOk, onErr, selNext, afterSetErr, ackWs, afterCmd, nextC]
  | cwSendErr _ i b site lg hi he =>
    intro i' b' site' lg' hi'
    cases site <;> (try simp only [St.setDone, St.setBg] at hi') <;> (repeat' split at hi') <;> (try simp only [List.getElem?_set] at hi') <;> grind [St.setBg, St.setDone, St.bg, Alt, clearW, onOk, onErr, selNext, afterSetErr, ackWs, afterCmd, nextC]
  | cwAckErr _ i b site lg hi he =>
    intro i' b' site' lg' hi'
    cases site <;> (try simp only [St.setDone, St.setBg] at hi') <;> (repeat' split at hi') <;> (try simp only [List.getElem?_set] at hi') <;> grind [St.setBg, St.setDone, St.bg, Alt, clearW, onOk, onErr, selNext, afterSetErr, ackWs, afterCmd, nextC]
  | otxRotate _ i lg hi =>
    intro i' b' site' lg' hi'
    (try simp only [St.setDone, St.setBg] at hi') <;> (repeat' split at hi') <;> (try simp only [List.getElem?_set] at hi') <;> grind [St.setBg, St.setDone, St.bg, Alt, clearW, onOk, onErr, selNext, afterSetErr, ackWs, afterCmd, nextC]
  | otxNoRotate _ i lg hi =>
    intro i' b' site' lg' hi'
    (try simp only [St.setDone, St.setBg] at hi') <;> (repeat' split at hi') <;> (try simp only [List.getElem?_set] at hi') <;> grind [St.setBg, St.setDone, St.bg, Alt, clearW, onOk, onErr, selNext, afterSetErr, ackWs, afterCmd, nextC]
  | otxNewMemOk _ i lg hi =>
    intro i' b' site' lg' hi'
    (try simp only [St.setDone, St.setBg] at hi') <;> (repeat' split at hi') <;> (try simp only [List.getElem?_set] at hi') <;> grind [St.setBg, St.setDone, St.bg, Alt, clearW, onOk, onErr, selNext, afterSetErr, ackWs, afterCmd, nextC]
  | otxNewMemFail _ i lg hi =>
    intro i' b' site' lg' hi'
    (try simp only [St.setDone, St.setBg] at hi') <;> (repeat' split at hi') <;> (try simp only [List.getElem?_set] at hi') <;> grind [St.setBg, St.setDone, St.bg, Alt, clearW, onOk, onErr, selNext, afterSetErr, ackWs, afterCmd, nextC]
  | otxNoWaitComp _ i lg hi =>
    intro i' b' site' lg' hi'
    (try simp only [St.setDone, St.setBg] at hi') <;> (repeat' split at hi') <;> (try simp only [List.getElem?_set] at hi') <;> grind [St.setBg, St.setDone, St.bg, Alt, clearW, onOk, onErr, selNext, afterSetErr, ackWs, afterCmd, nextC]
  | otxWaitComp _ i lg hi =>
    intro i' b' site' lg' hi'
    (try simp only [St.setDone, St.setBg] at hi') <;> (repeat' split at hi') <;> (try simp only [List.getElem?_set] at hi') <;> grind [St.setBg, St.setDone, St.bg, Alt, clearW, onOk, onErr, selNext, afterSetErr, ackWs, afterCmd, nextC]
  | otxFail _ i lg hi =>
    intro i' b' site' lg' hi'
    (try simp only [St.setDone, St.setBg] at hi') <;> (repeat' split at hi') <;> (try simp only [List.getElem?_set] at hi') <;> grind [St.setBg, St.setDone, St.bg, Alt, clearW, onOk, onErr, selNext, afterSetErr, ackWs, afterCmd, nextC]
  | otxRel _ i lg hi =>
    intro i' b' site' lg' hi'
    (try simp only [St.setDone, St.setBg] at hi') <;> (repeat' split at hi') <;> (try simp only [List.getElem?_set] at hi') <;> grind [St.setBg, St.setDone, St.bg, Alt, clearW, onOk, onErr, selNext, afterSetErr, ackWs, afterCmd, nextC]
  | otxDone _ i lg hi =>
    intro i' b' site' lg' hi'
    (try simp only [St.setDone, St.setBg] at hi') <;> (repeat' split at hi') <;> (try simp only [List.getElem?_set] at hi') <;> grind [St.setBg, St.setDone, St.bg, Alt, clearW, onOk, onErr, selNext, afterSetErr, ackWs, afterCmd, nextC]
  | lgWriteOk _ i hi =>
    intro i' b' site' lg' hi'
    (try simp only [St.setDone, St.setBg] at hi') <;> (repeat' split at hi') <;> (try simp only [List.getElem?_set] at hi') <;> grind [St.setBg, St.setDone, St.bg, Alt, clearW, onOk, onErr, selNext, afterSetErr, ackWs, afterCmd, nextC]
  | lgWriteFail _ i hi =>
    intro i' b' site' lg' hi'
    (try simp only [St.setDone, St.setBg] at hi') <;> (repeat' split at hi') <;> (try simp only [List.getElem?_set] at hi') <;> grind [St.setBg, St.setDone, St.bg, Alt, clearW, onOk, onErr, selNext, afterSetErr, ackWs, afterCmd, nextC]
  | cmLockTr _ i lg hi hl =>
    intro i' b' site' lg' hi'
    (try simp only [St.setDone, St.setBg] at hi') <;> (repeat' split at hi') <;> (try simp only [List.getElem?_set] at hi') <;> grind [St.setBg, St.setDone, St.bg, Alt, clearW, onOk, onErr, selNext, afterSetErr, ackWs, afterCmd, nextC]
  | cmFlushOk _ i lg hi =>
    intro i' b' site' lg' hi'
    (try simp only [St.setDone, St.setBg] at hi') <;> (repeat' split at hi') <;> (try simp only [List.getElem?_set] at hi') <;> grind [St.setBg, St.setDone, St.bg, Alt, clearW, onOk, onErr, selNext, afterSetErr, ackWs, afterCmd, nextC]
  | cmFlushEmpty _ i lg hi =>
    intro i' b' site' lg' hi'
    (try simp only [St.setDone, St.setBg] at hi') <;> (repeat' split at hi') <;> (try simp only [List.getElem?_set] at hi') <;> grind [St.setBg, St.setDone, St.bg, Alt, clearW, onOk, onErr, selNext, afterSetErr, ackWs, afterCmd, nextC]
  | cmFlushFail _ i lg hi =>
    intro i' b' site' lg' hi'
    (try simp only [St.setDone, St.setBg] at hi') <;> (repeat' split at hi') <;> (try simp only [List.getElem?_set] at hi') <;> grind [St.setBg, St.setDone, St.bg, Alt, clearW, onOk, onErr, selNext, afterSetErr, ackWs, afterCmd, nextC]
  | cmLockClk _ i lg hi hl =>
    intro i' b' site' lg' hi'
    (try simp only [St.setDone, St.setBg] at hi') <;> (repeat' split at hi') <;> (try simp only [List.getElem?_set] at hi') <;> grind [St.setBg, St.setDone, St.bg, Alt, clearW, onOk, onErr, selNext, afterSetErr, ackWs, afterCmd, nextC]
  | cmTryOk _ i k lg hi =>
    intro i' b' site' lg' hi'
    (try simp only [St.setDone, St.setBg] at hi') <;> (repeat' split at hi') <;> (try simp only [List.getElem?_set] at hi') <;> grind [St.setBg, St.setDone, St.bg, Alt, clearW, onOk, onErr, selNext, afterSetErr, ackWs, afterCmd, nextC]
  | cmTryFail _ i k lg hi =>
    intro i' b' site' lg' hi'
    (try simp only [St.setDone, St.setBg] at hi') <;> (repeat' split at hi') <;> (try simp only [List.getElem?_set] at hi') <;> grind [St.setBg, St.setDone, St.bg, Alt, clearW, onOk, onErr, selNext, afterSetErr, ackWs, afterCmd, nextC]
  | cmSleepTimer _ i k lg hi =>
    intro i' b' site' lg' hi'
    (try simp only [St.setDone, St.setBg] at hi') <;> (repeat' split at hi') <;> (try simp only [List.getElem?_set] at hi') <;> grind [St.setBg, St.setDone, St.bg, Alt, clearW, onOk, onErr, selNext, afterSetErr, ackWs, afterCmd, nextC]
  | cmSleepClosed _ i k lg hi hc =>
    intro i' b' site' lg' hi'
    (try simp only [St.setDone, St.setBg] at hi') <;> (repeat' split at hi') <;> (try simp only [List.getElem?_set] at hi') <;> grind [St.setBg, St.setDone, St.bg, Alt, clearW, onOk, onErr, selNext, afterSetErr, ackWs, afterCmd, nextC]
  | cmFail3 _ i lg hi =>
    intro i' b' site' lg' hi'
    (try simp only [St.setDone, St.setBg] at hi') <;> (repeat' split at hi') <;> (try simp only [List.getElem?_set] at hi') <;> grind [St.setBg, St.setDone, St.bg, Alt, clearW, onOk, onErr, selNext, afterSetErr, ackWs, afterCmd, nextC]
  | cmAfterOk _ i lg hi =>
    intro i' b' site' lg' hi'
    (try simp only [St.setDone, St.setBg] at hi') <;> (repeat' split at hi') <;> (try simp only [List.getElem?_set] at hi') <;> grind [St.setBg, St.setDone, St.bg, Alt, clearW, onOk, onErr, selNext, afterSetErr, ackWs, afterCmd, nextC]
  | cmNoWaitComp _ i lg hi =>
    intro i' b' site' lg' hi'
    (try simp only [St.setDone, St.setBg] at hi') <;> (repeat' split at hi') <;> (try simp only [List.getElem?_set] at hi') <;> grind [St.setBg, St.setDone, St.bg, Alt, clearW, onOk, onErr, selNext, afterSetErr, ackWs, afterCmd, nextC]
  | cmWaitComp _ i lg hi =>
    intro i' b' site' lg' hi'
    (try simp only [St.setDone, St.setBg] at hi') <;> (repeat' split at hi') <;> (try simp only [List.getElem?_set] at hi') <;> grind [St.setBg, St.setDone, St.bg, Alt, clearW, onOk, onErr, selNext, afterSetErr, ackWs, afterCmd, nextC]
  | cmDone _ i lg hi =>
    intro i' b' site' lg' hi'
    (try simp only [St.setDone, St.setBg] at hi') <;> (repeat' split at hi') <;> (try simp only [List.getElem?_set] at hi') <;> grind [St.setBg, St.setDone, St.bg, Alt, clearW, onOk, onErr, selNext, afterSetErr, ackWs, afterCmd, nextC]
  | cmRet _ i ok lg hi =>
    intro i' b' site' lg' hi'
    (try simp only [St.setDone, St.setBg] at hi') <;> (repeat' split at hi') <;> (try simp only [List.getElem?_set] at hi') <;> grind [St.setBg, St.setDone, St.bg, Alt, clearW, onOk, onErr, selNext, afterSetErr, ackWs, afterCmd, nextC]
  | dcLockTr _ i lg hi hl =>
    intro i' b' site' lg' hi'
    (try simp only [St.setDone, St.setBg] at hi') <;> (repeat' split at hi') <;> (try simp only [List.getElem?_set] at hi') <;> grind [St.setBg, St.setDone, St.bg, Alt, clearW, onOk, onErr, selNext, afterSetErr, ackWs, afterCmd, nextC]
  | dcBody _ i lg hi =>
    intro i' b' site' lg' hi'
    (try simp only [St.setDone, St.setBg] at hi') <;> (repeat' split at hi') <;> (try simp only [List.getElem?_set] at hi') <;> grind [St.setBg, St.setDone, St.bg, Alt, clearW, onOk, onErr, selNext, afterSetErr, ackWs, afterCmd, nextC]
  | crNoOverlap _ i hi =>
    intro i' b' site' lg' hi'
    (try simp only [St.setDone, St.setBg] at hi') <;> (repeat' split at hi') <;> (try simp only [List.getElem?_set] at hi') <;> grind [St.setBg, St.setDone, St.bg, Alt, clearW, onOk, onErr, selNext, afterSetErr, ackWs, afterCmd, nextC]
  | crOverlap _ i hi =>
    intro i' b' site' lg' hi'
    (try simp only [St.setDone, St.setBg] at hi') <;> (repeat' split at hi') <;> (try simp only [List.getElem?_set] at hi') <;> grind [St.setBg, St.setDone, St.bg, Alt, clearW, onOk, onErr, selNext, afterSetErr, ackWs, afterCmd, nextC]
  | crNewMemOk _ i hi =>
    intro i' b' site' lg' hi'
    (try simp only [St.setDone, St.setBg] at hi') <;> (repeat' split at hi') <;> (try simp only [List.getElem?_set] at hi') <;> grind [St.setBg, St.setDone, St.bg, Alt, clearW, onOk, onErr, selNext, afterSetErr, ackWs, afterCmd, nextC]
  | crNewMemFail _ i hi =>
    intro i' b' site' lg' hi'
    (try simp only [St.setDone, St.setBg] at hi') <;> (repeat' split at hi') <;> (try simp only [List.getElem?_set] at hi') <;> grind [St.setBg, St.setDone, St.bg, Alt, clearW, onOk, onErr, selNext, afterSetErr, ackWs, afterCmd, nextC]
  | crRelM _ i hi =>
    intro i' b' site' lg' hi'
    (try simp only [St.setDone, St.setBg] at hi') <;> (repeat' split at hi') <;> (try simp only [List.getElem?_set] at hi') <;> grind [St.setBg, St.setDone, St.bg, Alt, clearW, onOk, onErr, selNext, afterSetErr, ackWs, afterCmd, nextC]
  | crRelOk _ i hi =>
    intro i' b' site' lg' hi'
    (try simp only [St.setDone, St.setBg] at hi') <;> (repeat' split at hi') <;> (try simp only [List.getElem?_set] at hi') <;> grind [St.setBg, St.setDone, St.bg, Alt, clearW, onOk, onErr, selNext, afterSetErr, ackWs, afterCmd, nextC]
  | crRelFail _ i hi =>
    intro i' b' site' lg' hi'
    (try simp only [St.setDone, St.setBg] at hi') <;> (repeat' split at hi') <;> (try simp only [List.getElem?_set] at hi') <;> grind [St.setBg, St.setDone, St.bg, Alt, clearW, onOk, onErr, selNext, afterSetErr, ackWs, afterCmd, nextC]
  | srSend _ i hi he =>
    intro i' b' site' lg' hi'
    simp only [hm, recvs_asCoded] at he
    simp only [hm, next_asCoded]
    simp only [hm, next_asCoded] at hi'
    (try simp only [St.setDone, St.setBg] at hi') <;> (repeat' split at hi') <;> (try simp only [List.getElem?_set] at hi') <;> grind [St.setBg, St.setDone, St.bg, Alt, clearW, onOk, onErr, selNext, afterSetErr, ackWs, afterCmd, nextC]
  | srPerErr _ i hi he =>
    intro i' b' site' lg' hi'
    (try simp only [St.setDone, St.setBg] at hi') <;> (repeat' split at hi') <;> (try simp only [List.getElem?_set] at hi') <;> grind [St.setBg, St.setDone, St.bg, Alt, clearW, onOk, onErr, selNext, afterSetErr, ackWs, afterCmd, nextC]
  | srClosed _ i hi hc =>
    intro i' b' site' lg' hi'
    (try simp only [St.setDone, St.setBg] at hi') <;> (repeat' split at hi') <;> (try simp only [List.getElem?_set] at hi') <;> grind [St.setBg, St.setDone, St.bg, Alt, clearW, onOk, onErr, selNext, afterSetErr, ackWs, afterCmd, nextC]
  | clCheckTr _ i hi =>
    intro i' b' site' lg' hi'
    (try simp only [St.setDone, St.setBg] at hi') <;> (repeat' split at hi') <;> (try simp only [List.getElem?_set] at hi') <;> grind [St.setBg, St.setDone, St.bg, Alt, clearW, onOk, onErr, selNext, afterSetErr, ackWs, afterCmd, nextC]
  | clLockTr _ i hi hl =>
    intro i' b' site' lg' hi'
    (try simp only [St.setDone, St.setBg] at hi') <;> (repeat' split at hi') <;> (try simp only [List.getElem?_set] at hi') <;> grind [St.setBg, St.setDone, St.bg, Alt, clearW, onOk, onErr, selNext, afterSetErr, ackWs, afterCmd, nextC]
  | clBody _ i hi =>
    intro i' b' site' lg' hi'
    (try simp only [St.setDone, St.setBg] at hi') <;> (repeat' split at hi') <;> (try simp only [List.getElem?_set] at hi') <;> grind [St.setBg, St.setDone, St.bg, Alt, clearW, onOk, onErr, selNext, afterSetErr, ackWs, afterCmd, nextC]
  | clAcq _ i hi ht =>
    intro i' b' site' lg' hi'
    (try simp only [St.setDone, St.setBg] at hi') <;> (repeat' split at hi') <;> (try simp only [List.getElem?_set] at hi') <;> grind [St.setBg, St.setDone, St.bg, Alt, clearW, onOk, onErr, selNext, afterSetErr, ackWs, afterCmd, nextC]
  | clAcqKept _ i hi he hk hs =>
    intro i' b' site' lg' hi'
    (try simp only [St.setDone, St.setBg] at hi') <;> (repeat' split at hi') <;> (try simp only [List.getElem?_set] at hi') <;> grind [St.setBg, St.setDone, St.bg, Alt, clearW, onOk, onErr, selNext, afterSetErr, ackWs, afterCmd, nextC]
  | clWait _ i hi hm ht =>
    intro i' b' site' lg' hi'
    (try simp only [St.setDone, St.setBg] at hi') <;> (repeat' split at hi') <;> (try simp only [List.getElem?_set] at hi') <;> grind [St.setBg, St.setDone, St.bg, Alt, clearW, onOk, onErr, selNext, afterSetErr, ackWs, afterCmd, nextC]
  | ehAcquire _ he ht =>
    intro i' b' site' lg' hi'
    (try simp only [St.setDone, St.setBg] at hi') <;> (repeat' split at hi') <;> (try simp only [List.getElem?_set] at hi') <;> grind [St.setBg, St.setDone, St.bg, Alt, clearW, onOk, onErr, selNext, afterSetErr, ackWs, afterCmd, nextC]
  | ehClose _ he hc =>
    intro i' b' site' lg' hi'
    (try simp only [St.setDone, St.setBg] at hi') <;> (repeat' split at hi') <;> (try simp only [List.getElem?_set] at hi') <;> grind [St.setBg, St.setDone, St.bg, Alt, clearW, onOk, onErr, selNext, afterSetErr, ackWs, afterCmd, nextC]
  | ehTake _ he ht =>
    intro i' b' site' lg' hi'
    (try simp only [St.setDone, St.setBg] at hi') <;> (repeat' split at hi') <;> (try simp only [List.getElem?_set] at hi') <;> grind [St.setBg, St.setDone, St.bg, Alt, clearW, onOk, onErr, selNext, afterSetErr, ackWs, afterCmd, nextC]
  | bgExitIdle _ b hb hc =>
    intro i' b' site' lg' hi'
    (try simp only [St.setDone, St.setBg] at hi') <;> (repeat' split at hi') <;> (try simp only [List.getElem?_set] at hi') <;> grind [St.setBg, St.setDone, St.bg, Alt, clearW, onOk, onErr, selNext, afterSetErr, ackWs, afterCmd, nextC]
  | bgExitParked _ hb hc =>
    intro i' b' site' lg' hi'
    (try simp only [St.setDone, St.setBg] at hi') <;> (repeat' split at hi') <;> (try simp only [List.getElem?_set] at hi') <;> grind [St.setBg, St.setDone, St.bg, Alt, clearW, onOk, onErr, selNext, afterSetErr, ackWs, afterCmd, nextC]
  | bgWorkCorrupt _ b w hb hk =>
    intro i' b' site' lg' hi'
    (try simp only [St.setDone, St.setBg] at hi') <;> (repeat' split at hi') <;> (try simp only [List.getElem?_set] at hi') <;> grind [St.setBg, St.setDone, St.bg, Alt, clearW, onOk, onErr, selNext, afterSetErr, ackWs, afterCmd, nextC]
  | bgCommitCorrupt _ b w hb hk =>
    intro i' b' site' lg' hi'
    (try simp only [St.setDone, St.setBg] at hi') <;> (repeat' split at hi') <;> (try simp only [List.getElem?_set] at hi') <;> grind [St.setBg, St.setDone, St.bg, Alt, clearW, onOk, onErr, selNext, afterSetErr, ackWs, afterCmd, nextC]
  | bgSetErrCorrupt _ b w c hb he =>
    intro i' b' site' lg' hi'
    simp only [hm, recvs_asCoded] at he
    simp only [hm, next_asCoded]
    simp only [hm, next_asCoded] at hi'
    (try simp only [St.setDone, St.setBg] at hi') <;> (repeat' split at hi') <;> (try simp only [List.getElem?_set] at hi') <;> grind [St.setBg, St.setDone, St.bg, Alt, clearW, onOk, onErr, selNext, afterSetErr, ackWs, afterCmd, nextC]
  | bgWorkOk _ b w hb =>
    intro i' b' site' lg' hi'
    (try simp only [St.setDone, St.setBg] at hi') <;> (repeat' split at hi') <;> (try simp only [List.getElem?_set] at hi') <;> grind [St.setBg, St.setDone, St.bg, Alt, clearW, onOk, onErr, selNext, afterSetErr, ackWs, afterCmd, nextC]
  | bgWorkFail _ b w hb =>
    intro i' b' site' lg' hi'
    (try simp only [St.setDone, St.setBg] at hi') <;> (repeat' split at hi') <;> (try simp only [List.getElem?_set] at hi') <;> grind [St.setBg, St.setDone, St.bg, Alt, clearW, onOk, onErr, selNext, afterSetErr, ackWs, afterCmd, nextC]
  | bgCommitOk _ b w hb =>
    intro i' b' site' lg' hi'
    (try simp only [St.setDone, St.setBg] at hi') <;> (repeat' split at hi') <;> (try simp only [List.getElem?_set] at hi') <;> grind [St.setBg, St.setDone, St.bg, Alt, clearW, onOk, onErr, selNext, afterSetErr, ackWs, afterCmd, nextC]
  | bgCommitFail _ b w hb =>
    intro i' b' site' lg' hi'
    (try simp only [St.setDone, St.setBg] at hi') <;> (repeat' split at hi') <;> (try simp only [List.getElem?_set] at hi') <;> grind [St.setBg, St.setDone, St.bg, Alt, clearW, onOk, onErr, selNext, afterSetErr, ackWs, afterCmd, nextC]
  | bgSetErr _ b w ok c hb he =>
    intro i' b' site' lg' hi'
    simp only [hm, recvs_asCoded] at he
    simp only [hm, next_asCoded]
    simp only [hm, next_asCoded] at hi'
    (try simp only [St.setDone, St.setBg] at hi') <;> (repeat' split at hi') <;> (try simp only [List.getElem?_set] at hi') <;> grind [St.setBg, St.setDone, St.bg, Alt, clearW, onOk, onErr, selNext, afterSetErr, ackWs, afterCmd, nextC]
  | bgSetErrPer _ b w c hb he =>
    intro i' b' site' lg' hi'
    (try simp only [St.setDone, St.setBg] at hi') <;> (repeat' split at hi') <;> (try simp only [List.getElem?_set] at hi') <;> grind [St.setBg, St.setDone, St.bg, Alt, clearW, onOk, onErr, selNext, afterSetErr, ackWs, afterCmd, nextC]
  | bgBackoff _ b w c hb =>
    intro i' b' site' lg' hi'
    (try simp only [St.setDone, St.setBg] at hi') <;> (repeat' split at hi') <;> (try simp only [List.getElem?_set] at hi') <;> grind [St.setBg, St.setDone, St.bg, Alt, clearW, onOk, onErr, selNext, afterSetErr, ackWs, afterCmd, nextC]
  | bgLockClk _ b w hb hl =>
    intro i' b' site' lg' hi'
    (try simp only [St.setDone, St.setBg] at hi') <;> (repeat' split at hi') <;> (try simp only [List.getElem?_set] at hi') <;> grind [St.setBg, St.setDone, St.bg, Alt, clearW, onOk, onErr, selNext, afterSetErr, ackWs, afterCmd, nextC]
  | bgAck _ b w hb =>
    intro i' b' site' lg' hi'
    have := ackWs_get s.ws w b i' b' site' lg' (by cases b <;> simpa [St.setBg] using hi')
    cases b <;> grind [St.setBg, St.setDone, St.bg, Alt, clearW, onOk, onErr, selNext, afterSetErr, ackWs, afterCmd, nextC]
  | bgExit _ b w ph hb hx =>
    intro i' b' site' lg' hi'
    simp only [hm, offPer_asCoded] at hx
    (try simp only [St.setDone, St.setBg] at hi') <;> (repeat' split at hi') <;> (try simp only [List.getElem?_set] at hi') <;> grind [St.setBg, St.setDone, St.bg, Alt, clearW, onOk, onErr, selNext, afterSetErr, ackWs, afterCmd, nextC]

end GoLevel.Locks
