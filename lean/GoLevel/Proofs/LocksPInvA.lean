import GoLevel.Proofs.LocksPInv
/-! One of the invariants of `LocksPInv.lean` is preserved by every step (three fixes, `compactionError` as coded,
and the fourth fix or no `SetReadOnly`). -/
namespace GoLevel.Locks
open CompErr
set_option linter.unusedSimpArgs false

theorem step_pinvA (s t : St) (f : Bool) (cfg : Cfg) (hfx : Fixed3 cfg) (hm : cfg.m = .asCoded cfg.closeSel)
    (h4 : cfg.setReadOnlyReleasesOnClose = true ∨ NoSR s) (h : Step cfg f s t) (inv : PInvA s) : PInvA t := by
  unfold PInvA Alt at *
  obtain ⟨h1, h2, h3, h3b, h3c, h3d, h3e⟩ := inv
  obtain ⟨f1, f2, f3⟩ := hfx
  cases h with
  | startPut _ i hi =>
    clear h4
    have l0 := le_tot srW _ _ _ hi
    have l1 := le_tot lgW _ _ _ hi
    have l2 := le_tot clAllW _ _ _ hi
    have l3 := le_tot clPreW _ _ _ hi
    (try simp only [St.setDone, St.setBg, ↓reduceIte, Bool.false_eq_true, Bool.and_false, Bool.and_true, Bool.false_and, Bool.true_and]) <;> (repeat' split) <;> simp_all [tot_set_eq _ _ _ _ _ hi, tot_ackWs_srw', tot_ackWs_lgw, tot_ackWs_clall, tot_ackWs_clpre, b2n_true, b2n_false, clearW_idle, clearW_exited, clearW_parked, clearW_eq_exited, clearW_eq_parked, srW, lgW, clAllW, clPreW, St.bg, onOk, onErr, selNext, afterSetErr, srAllW, nextC, roSets] <;> (try omega)
  | startWrite _ i hi =>
    clear h4
    have l0 := le_tot srW _ _ _ hi
    have l1 := le_tot lgW _ _ _ hi
    have l2 := le_tot clAllW _ _ _ hi
    have l3 := le_tot clPreW _ _ _ hi
    (try simp only [St.setDone, St.setBg, ↓reduceIte, Bool.false_eq_true, Bool.and_false, Bool.and_true, Bool.false_and, Bool.true_and]) <;> (repeat' split) <;> simp_all [tot_set_eq _ _ _ _ _ hi, tot_ackWs_srw', tot_ackWs_lgw, tot_ackWs_clall, tot_ackWs_clpre, b2n_true, b2n_false, clearW_idle, clearW_exited, clearW_parked, clearW_eq_exited, clearW_eq_parked, srW, lgW, clAllW, clPreW, St.bg, onOk, onErr, selNext, afterSetErr, srAllW, nextC, roSets] <;> (try omega)
  | startOtx _ i hi =>
    clear h4
    have l0 := le_tot srW _ _ _ hi
    have l1 := le_tot lgW _ _ _ hi
    have l2 := le_tot clAllW _ _ _ hi
    have l3 := le_tot clPreW _ _ _ hi
    (try simp only [St.setDone, St.setBg, ↓reduceIte, Bool.false_eq_true, Bool.and_false, Bool.and_true, Bool.false_and, Bool.true_and]) <;> (repeat' split) <;> simp_all [tot_set_eq _ _ _ _ _ hi, tot_ackWs_srw', tot_ackWs_lgw, tot_ackWs_clall, tot_ackWs_clpre, b2n_true, b2n_false, clearW_idle, clearW_exited, clearW_parked, clearW_eq_exited, clearW_eq_parked, srW, lgW, clAllW, clPreW, St.bg, onOk, onErr, selNext, afterSetErr, srAllW, nextC, roSets] <;> (try omega)
  | startCommit _ i hi hu =>
    clear h4
    have l0 := le_tot srW _ _ _ hi
    have l1 := le_tot lgW _ _ _ hi
    have l2 := le_tot clAllW _ _ _ hi
    have l3 := le_tot clPreW _ _ _ hi
    (try simp only [St.setDone, St.setBg, ↓reduceIte, Bool.false_eq_true, Bool.and_false, Bool.and_true, Bool.false_and, Bool.true_and]) <;> (repeat' split) <;> simp_all [tot_set_eq _ _ _ _ _ hi, tot_ackWs_srw', tot_ackWs_lgw, tot_ackWs_clall, tot_ackWs_clpre, b2n_true, b2n_false, clearW_idle, clearW_exited, clearW_parked, clearW_eq_exited, clearW_eq_parked, srW, lgW, clAllW, clPreW, St.bg, onOk, onErr, selNext, afterSetErr, srAllW, nextC, roSets] <;> (try omega)
  | startDiscard _ i hi hu =>
    clear h4
    have l0 := le_tot srW _ _ _ hi
    have l1 := le_tot lgW _ _ _ hi
    have l2 := le_tot clAllW _ _ _ hi
    have l3 := le_tot clPreW _ _ _ hi
    (try simp only [St.setDone, St.setBg, ↓reduceIte, Bool.false_eq_true, Bool.and_false, Bool.and_true, Bool.false_and, Bool.true_and]) <;> (repeat' split) <;> simp_all [tot_set_eq _ _ _ _ _ hi, tot_ackWs_srw', tot_ackWs_lgw, tot_ackWs_clall, tot_ackWs_clpre, b2n_true, b2n_false, clearW_idle, clearW_exited, clearW_parked, clearW_eq_exited, clearW_eq_parked, srW, lgW, clAllW, clPreW, St.bg, onOk, onErr, selNext, afterSetErr, srAllW, nextC, roSets] <;> (try omega)
  | startCR _ i hi =>
    clear h4
    have l0 := le_tot srW _ _ _ hi
    have l1 := le_tot lgW _ _ _ hi
    have l2 := le_tot clAllW _ _ _ hi
    have l3 := le_tot clPreW _ _ _ hi
    (try simp only [St.setDone, St.setBg, ↓reduceIte, Bool.false_eq_true, Bool.and_false, Bool.and_true, Bool.false_and, Bool.true_and]) <;> (repeat' split) <;> simp_all [tot_set_eq _ _ _ _ _ hi, tot_ackWs_srw', tot_ackWs_lgw, tot_ackWs_clall, tot_ackWs_clpre, b2n_true, b2n_false, clearW_idle, clearW_exited, clearW_parked, clearW_eq_exited, clearW_eq_parked, srW, lgW, clAllW, clPreW, St.bg, onOk, onErr, selNext, afterSetErr, srAllW, nextC, roSets] <;> (try omega)
  | startSR _ i hi ha =>
    clear h4
    have l0 := le_tot srW _ _ _ hi
    have l1 := le_tot lgW _ _ _ hi
    have l2 := le_tot clAllW _ _ _ hi
    have l3 := le_tot clPreW _ _ _ hi
    (try simp only [St.setDone, St.setBg, ↓reduceIte, Bool.false_eq_true, Bool.and_false, Bool.and_true, Bool.false_and, Bool.true_and]) <;> (repeat' split) <;> simp_all [tot_set_eq _ _ _ _ _ hi, tot_ackWs_srw', tot_ackWs_lgw, tot_ackWs_clall, tot_ackWs_clpre, b2n_true, b2n_false, clearW_idle, clearW_exited, clearW_parked, clearW_eq_exited, clearW_eq_parked, srW, lgW, clAllW, clPreW, St.bg, onOk, onErr, selNext, afterSetErr, srAllW, nextC, roSets] <;> (try omega)
  | startClose _ i hi =>
    clear h4
    have l0 := le_tot srW _ _ _ hi
    have l1 := le_tot lgW _ _ _ hi
    have l2 := le_tot clAllW _ _ _ hi
    have l3 := le_tot clPreW _ _ _ hi
    (try simp only [St.setDone, St.setBg, ↓reduceIte, Bool.false_eq_true, Bool.and_false, Bool.and_true, Bool.false_and, Bool.true_and]) <;> (repeat' split) <;> simp_all [tot_set_eq _ _ _ _ _ hi, tot_ackWs_srw', tot_ackWs_lgw, tot_ackWs_clall, tot_ackWs_clpre, b2n_true, b2n_false, clearW_idle, clearW_exited, clearW_parked, clearW_eq_exited, clearW_eq_parked, srW, lgW, clAllW, clPreW, St.bg, onOk, onErr, selNext, afterSetErr, srAllW, nextC, roSets] <;> (try omega)
  | selTok _ i p q hi hq ht =>
    clear h4
    have l0 := le_tot srW _ _ _ hi
    have l1 := le_tot lgW _ _ _ hi
    have l2 := le_tot clAllW _ _ _ hi
    have l3 := le_tot clPreW _ _ _ hi
    cases p <;> simp only [selNext] at hq <;> (try contradiction) <;> cases hq <;> simp_all [tot_set_eq _ _ _ _ _ hi, tot_ackWs_srw', tot_ackWs_lgw, tot_ackWs_clall, tot_ackWs_clpre, b2n_true, b2n_false, clearW_idle, clearW_exited, clearW_parked, clearW_eq_exited, clearW_eq_parked, srW, lgW, clAllW, clPreW, St.bg, onOk, onErr, selNext, afterSetErr, srAllW, nextC, roSets] <;> (try omega)
  | selPerErr _ i p q hi hq he =>
    clear h4
    have l0 := le_tot srW _ _ _ hi
    have l1 := le_tot lgW _ _ _ hi
    have l2 := le_tot clAllW _ _ _ hi
    have l3 := le_tot clPreW _ _ _ hi
    cases p <;> simp only [selNext] at hq <;> (try contradiction) <;> cases hq <;> simp_all [tot_set_eq _ _ _ _ _ hi, tot_ackWs_srw', tot_ackWs_lgw, tot_ackWs_clall, tot_ackWs_clpre, b2n_true, b2n_false, clearW_idle, clearW_exited, clearW_parked, clearW_eq_exited, clearW_eq_parked, srW, lgW, clAllW, clPreW, St.bg, onOk, onErr, selNext, afterSetErr, srAllW, nextC, roSets] <;> (try omega)
  | selClosed _ i p q hi hq hc =>
    clear h4
    have l0 := le_tot srW _ _ _ hi
    have l1 := le_tot lgW _ _ _ hi
    have l2 := le_tot clAllW _ _ _ hi
    have l3 := le_tot clPreW _ _ _ hi
    cases p <;> simp only [selNext] at hq <;> (try contradiction) <;> cases hq <;> simp_all [tot_set_eq _ _ _ _ _ hi, tot_ackWs_srw', tot_ackWs_lgw, tot_ackWs_clall, tot_ackWs_clpre, b2n_true, b2n_false, clearW_idle, clearW_exited, clearW_parked, clearW_eq_exited, clearW_eq_parked, srW, lgW, clAllW, clPreW, St.bg, onOk, onErr, selNext, afterSetErr, srAllW, nextC, roSets] <;> (try omega)
  | putNoWait _ i hi =>
    clear h4
    have l0 := le_tot srW _ _ _ hi
    have l1 := le_tot lgW _ _ _ hi
    have l2 := le_tot clAllW _ _ _ hi
    have l3 := le_tot clPreW _ _ _ hi
    (try simp only [St.setDone, St.setBg, ↓reduceIte, Bool.false_eq_true, Bool.and_false, Bool.and_true, Bool.false_and, Bool.true_and]) <;> (repeat' split) <;> simp_all [tot_set_eq _ _ _ _ _ hi, tot_ackWs_srw', tot_ackWs_lgw, tot_ackWs_clall, tot_ackWs_clpre, b2n_true, b2n_false, clearW_idle, clearW_exited, clearW_parked, clearW_eq_exited, clearW_eq_parked, srW, lgW, clAllW, clPreW, St.bg, onOk, onErr, selNext, afterSetErr, srAllW, nextC, roSets] <;> (try omega)
  | putWait _ i b hi =>
    clear h4
    have l0 := le_tot srW _ _ _ hi
    have l1 := le_tot lgW _ _ _ hi
    have l2 := le_tot clAllW _ _ _ hi
    have l3 := le_tot clPreW _ _ _ hi
    cases b <;> (try simp only [St.setDone, St.setBg, ↓reduceIte, Bool.false_eq_true, Bool.and_false, Bool.and_true, Bool.false_and, Bool.true_and]) <;> (repeat' split) <;> simp_all [tot_set_eq _ _ _ _ _ hi, tot_ackWs_srw', tot_ackWs_lgw, tot_ackWs_clall, tot_ackWs_clpre, b2n_true, b2n_false, clearW_idle, clearW_exited, clearW_parked, clearW_eq_exited, clearW_eq_parked, srW, lgW, clAllW, clPreW, St.bg, onOk, onErr, selNext, afterSetErr, srAllW, nextC, roSets] <;> (try omega)
  | putJournalOk _ i hi =>
    clear h4
    have l0 := le_tot srW _ _ _ hi
    have l1 := le_tot lgW _ _ _ hi
    have l2 := le_tot clAllW _ _ _ hi
    have l3 := le_tot clPreW _ _ _ hi
    (try simp only [St.setDone, St.setBg, ↓reduceIte, Bool.false_eq_true, Bool.and_false, Bool.and_true, Bool.false_and, Bool.true_and]) <;> (repeat' split) <;> simp_all [tot_set_eq _ _ _ _ _ hi, tot_ackWs_srw', tot_ackWs_lgw, tot_ackWs_clall, tot_ackWs_clpre, b2n_true, b2n_false, clearW_idle, clearW_exited, clearW_parked, clearW_eq_exited, clearW_eq_parked, srW, lgW, clAllW, clPreW, St.bg, onOk, onErr, selNext, afterSetErr, srAllW, nextC, roSets] <;> (try omega)
  | putJournalFail _ i hi =>
    clear h4
    have l0 := le_tot srW _ _ _ hi
    have l1 := le_tot lgW _ _ _ hi
    have l2 := le_tot clAllW _ _ _ hi
    have l3 := le_tot clPreW _ _ _ hi
    (try simp only [St.setDone, St.setBg, ↓reduceIte, Bool.false_eq_true, Bool.and_false, Bool.and_true, Bool.false_and, Bool.true_and]) <;> (repeat' split) <;> simp_all [tot_set_eq _ _ _ _ _ hi, tot_ackWs_srw', tot_ackWs_lgw, tot_ackWs_clall, tot_ackWs_clpre, b2n_true, b2n_false, clearW_idle, clearW_exited, clearW_parked, clearW_eq_exited, clearW_eq_parked, srW, lgW, clAllW, clPreW, St.bg, onOk, onErr, selNext, afterSetErr, srAllW, nextC, roSets] <;> (try omega)
  | putUnlock _ i r hi =>
    clear h4
    have l0 := le_tot srW _ _ _ hi
    have l1 := le_tot lgW _ _ _ hi
    have l2 := le_tot clAllW _ _ _ hi
    have l3 := le_tot clPreW _ _ _ hi
    cases r <;> (try simp only [St.setDone, St.setBg, ↓reduceIte, Bool.false_eq_true, Bool.and_false, Bool.and_true, Bool.false_and, Bool.true_and]) <;> (repeat' split) <;> simp_all [tot_set_eq _ _ _ _ _ hi, tot_ackWs_srw', tot_ackWs_lgw, tot_ackWs_clall, tot_ackWs_clpre, b2n_true, b2n_false, clearW_idle, clearW_exited, clearW_parked, clearW_eq_exited, clearW_eq_parked, srW, lgW, clAllW, clPreW, St.bg, onOk, onErr, selNext, afterSetErr, srAllW, nextC, roSets] <;> (try omega)
  | cwSendGo _ i b site lg hi hb hro =>
    clear h4
    have l0 := le_tot srW _ _ _ hi
    have l1 := le_tot lgW _ _ _ hi
    have l2 := le_tot clAllW _ _ _ hi
    have l3 := le_tot clPreW _ _ _ hi
    cases site <;> cases b <;> cases lg <;> (try simp only [St.setDone, St.setBg, ↓reduceIte, Bool.false_eq_true, Bool.and_false, Bool.and_true, Bool.false_and, Bool.true_and]) <;> (repeat' split) <;> simp_all [tot_set_eq _ _ _ _ _ hi, tot_ackWs_srw', tot_ackWs_lgw, tot_ackWs_clall, tot_ackWs_clpre, b2n_true, b2n_false, clearW_idle, clearW_exited, clearW_parked, clearW_eq_exited, clearW_eq_parked, srW, lgW, clAllW, clPreW, St.bg, onOk, onErr, selNext, afterSetErr, srAllW, nextC, roSets] <;> (try omega)
  | cwSendRO _ i site lg hi hb hp hro =>
    clear h4
    have l0 := le_tot srW _ _ _ hi
    have l1 := le_tot lgW _ _ _ hi
    have l2 := le_tot clAllW _ _ _ hi
    have l3 := le_tot clPreW _ _ _ hi
    cases site <;> cases lg <;> (try simp only [St.setDone, St.setBg, ↓reduceIte, Bool.false_eq_true, Bool.and_false, Bool.and_true, Bool.false_and, Bool.true_and]) <;> (repeat' split) <;> simp_all [tot_set_eq _ _ _ _ _ hi, tot_ackWs_srw', tot_ackWs_lgw, tot_ackWs_clall, tot_ackWs_clpre, b2n_true, b2n_false, clearW_idle, clearW_exited, clearW_parked, clearW_eq_exited, clearW_eq_parked, srW, lgW, clAllW, clPreW, St.bg, onOk, onErr, selNext, afterSetErr, srAllW, nextC, roSets] <;> (try omega)
  | cwSendErr _ i b site lg hi he =>
    clear h4
    have l0 := le_tot srW _ _ _ hi
    have l1 := le_tot lgW _ _ _ hi
    have l2 := le_tot clAllW _ _ _ hi
    have l3 := le_tot clPreW _ _ _ hi
    cases site <;> cases b <;> cases lg <;> (try simp only [St.setDone, St.setBg, ↓reduceIte, Bool.false_eq_true, Bool.and_false, Bool.and_true, Bool.false_and, Bool.true_and]) <;> (repeat' split) <;> simp_all [tot_set_eq _ _ _ _ _ hi, tot_ackWs_srw', tot_ackWs_lgw, tot_ackWs_clall, tot_ackWs_clpre, b2n_true, b2n_false, clearW_idle, clearW_exited, clearW_parked, clearW_eq_exited, clearW_eq_parked, srW, lgW, clAllW, clPreW, St.bg, onOk, onErr, selNext, afterSetErr, srAllW, nextC, roSets] <;> (try omega)
  | cwAckErr _ i b site lg hi he =>
    clear h4
    have l0 := le_tot srW _ _ _ hi
    have l1 := le_tot lgW _ _ _ hi
    have l2 := le_tot clAllW _ _ _ hi
    have l3 := le_tot clPreW _ _ _ hi
    cases site <;> cases b <;> cases lg <;> (try simp only [St.setDone, St.setBg, ↓reduceIte, Bool.false_eq_true, Bool.and_false, Bool.and_true, Bool.false_and, Bool.true_and]) <;> (repeat' split) <;> simp_all [tot_set_eq _ _ _ _ _ hi, tot_ackWs_srw', tot_ackWs_lgw, tot_ackWs_clall, tot_ackWs_clpre, b2n_true, b2n_false, clearW_idle, clearW_exited, clearW_parked, clearW_eq_exited, clearW_eq_parked, srW, lgW, clAllW, clPreW, St.bg, onOk, onErr, selNext, afterSetErr, srAllW, nextC, roSets] <;> (try omega)
  | otxRotate _ i lg hi =>
    clear h4
    have l0 := le_tot srW _ _ _ hi
    have l1 := le_tot lgW _ _ _ hi
    have l2 := le_tot clAllW _ _ _ hi
    have l3 := le_tot clPreW _ _ _ hi
    cases lg <;> (try simp only [St.setDone, St.setBg, ↓reduceIte, Bool.false_eq_true, Bool.and_false, Bool.and_true, Bool.false_and, Bool.true_and]) <;> (repeat' split) <;> simp_all [tot_set_eq _ _ _ _ _ hi, tot_ackWs_srw', tot_ackWs_lgw, tot_ackWs_clall, tot_ackWs_clpre, b2n_true, b2n_false, clearW_idle, clearW_exited, clearW_parked, clearW_eq_exited, clearW_eq_parked, srW, lgW, clAllW, clPreW, St.bg, onOk, onErr, selNext, afterSetErr, srAllW, nextC, roSets] <;> (try omega)
  | otxNoRotate _ i lg hi =>
    clear h4
    have l0 := le_tot srW _ _ _ hi
    have l1 := le_tot lgW _ _ _ hi
    have l2 := le_tot clAllW _ _ _ hi
    have l3 := le_tot clPreW _ _ _ hi
    cases lg <;> (try simp only [St.setDone, St.setBg, ↓reduceIte, Bool.false_eq_true, Bool.and_false, Bool.and_true, Bool.false_and, Bool.true_and]) <;> (repeat' split) <;> simp_all [tot_set_eq _ _ _ _ _ hi, tot_ackWs_srw', tot_ackWs_lgw, tot_ackWs_clall, tot_ackWs_clpre, b2n_true, b2n_false, clearW_idle, clearW_exited, clearW_parked, clearW_eq_exited, clearW_eq_parked, srW, lgW, clAllW, clPreW, St.bg, onOk, onErr, selNext, afterSetErr, srAllW, nextC, roSets] <;> (try omega)
  | otxNewMemOk _ i lg hi =>
    clear h4
    have l0 := le_tot srW _ _ _ hi
    have l1 := le_tot lgW _ _ _ hi
    have l2 := le_tot clAllW _ _ _ hi
    have l3 := le_tot clPreW _ _ _ hi
    cases lg <;> (try simp only [St.setDone, St.setBg, ↓reduceIte, Bool.false_eq_true, Bool.and_false, Bool.and_true, Bool.false_and, Bool.true_and]) <;> (repeat' split) <;> simp_all [tot_set_eq _ _ _ _ _ hi, tot_ackWs_srw', tot_ackWs_lgw, tot_ackWs_clall, tot_ackWs_clpre, b2n_true, b2n_false, clearW_idle, clearW_exited, clearW_parked, clearW_eq_exited, clearW_eq_parked, srW, lgW, clAllW, clPreW, St.bg, onOk, onErr, selNext, afterSetErr, srAllW, nextC, roSets] <;> (try omega)
  | otxNewMemFail _ i lg hi =>
    clear h4
    have l0 := le_tot srW _ _ _ hi
    have l1 := le_tot lgW _ _ _ hi
    have l2 := le_tot clAllW _ _ _ hi
    have l3 := le_tot clPreW _ _ _ hi
    cases lg <;> (try simp only [St.setDone, St.setBg, ↓reduceIte, Bool.false_eq_true, Bool.and_false, Bool.and_true, Bool.false_and, Bool.true_and]) <;> (repeat' split) <;> simp_all [tot_set_eq _ _ _ _ _ hi, tot_ackWs_srw', tot_ackWs_lgw, tot_ackWs_clall, tot_ackWs_clpre, b2n_true, b2n_false, clearW_idle, clearW_exited, clearW_parked, clearW_eq_exited, clearW_eq_parked, srW, lgW, clAllW, clPreW, St.bg, onOk, onErr, selNext, afterSetErr, srAllW, nextC, roSets] <;> (try omega)
  | otxNoWaitComp _ i lg hi =>
    clear h4
    have l0 := le_tot srW _ _ _ hi
    have l1 := le_tot lgW _ _ _ hi
    have l2 := le_tot clAllW _ _ _ hi
    have l3 := le_tot clPreW _ _ _ hi
    cases lg <;> (try simp only [St.setDone, St.setBg, ↓reduceIte, Bool.false_eq_true, Bool.and_false, Bool.and_true, Bool.false_and, Bool.true_and]) <;> (repeat' split) <;> simp_all [tot_set_eq _ _ _ _ _ hi, tot_ackWs_srw', tot_ackWs_lgw, tot_ackWs_clall, tot_ackWs_clpre, b2n_true, b2n_false, clearW_idle, clearW_exited, clearW_parked, clearW_eq_exited, clearW_eq_parked, srW, lgW, clAllW, clPreW, St.bg, onOk, onErr, selNext, afterSetErr, srAllW, nextC, roSets] <;> (try omega)
  | otxWaitComp _ i lg hi =>
    clear h4
    have l0 := le_tot srW _ _ _ hi
    have l1 := le_tot lgW _ _ _ hi
    have l2 := le_tot clAllW _ _ _ hi
    have l3 := le_tot clPreW _ _ _ hi
    cases lg <;> (try simp only [St.setDone, St.setBg, ↓reduceIte, Bool.false_eq_true, Bool.and_false, Bool.and_true, Bool.false_and, Bool.true_and]) <;> (repeat' split) <;> simp_all [tot_set_eq _ _ _ _ _ hi, tot_ackWs_srw', tot_ackWs_lgw, tot_ackWs_clall, tot_ackWs_clpre, b2n_true, b2n_false, clearW_idle, clearW_exited, clearW_parked, clearW_eq_exited, clearW_eq_parked, srW, lgW, clAllW, clPreW, St.bg, onOk, onErr, selNext, afterSetErr, srAllW, nextC, roSets] <;> (try omega)
  | otxFail _ i lg hi =>
    clear h4
    have l0 := le_tot srW _ _ _ hi
    have l1 := le_tot lgW _ _ _ hi
    have l2 := le_tot clAllW _ _ _ hi
    have l3 := le_tot clPreW _ _ _ hi
    cases lg <;> (try simp only [St.setDone, St.setBg, ↓reduceIte, Bool.false_eq_true, Bool.and_false, Bool.and_true, Bool.false_and, Bool.true_and]) <;> (repeat' split) <;> simp_all [tot_set_eq _ _ _ _ _ hi, tot_ackWs_srw', tot_ackWs_lgw, tot_ackWs_clall, tot_ackWs_clpre, b2n_true, b2n_false, clearW_idle, clearW_exited, clearW_parked, clearW_eq_exited, clearW_eq_parked, srW, lgW, clAllW, clPreW, St.bg, onOk, onErr, selNext, afterSetErr, srAllW, nextC, roSets] <;> (try omega)
  | otxRel _ i lg hi =>
    clear h4
    have l0 := le_tot srW _ _ _ hi
    have l1 := le_tot lgW _ _ _ hi
    have l2 := le_tot clAllW _ _ _ hi
    have l3 := le_tot clPreW _ _ _ hi
    cases lg <;> (try simp only [St.setDone, St.setBg, ↓reduceIte, Bool.false_eq_true, Bool.and_false, Bool.and_true, Bool.false_and, Bool.true_and]) <;> (repeat' split) <;> simp_all [tot_set_eq _ _ _ _ _ hi, tot_ackWs_srw', tot_ackWs_lgw, tot_ackWs_clall, tot_ackWs_clpre, b2n_true, b2n_false, clearW_idle, clearW_exited, clearW_parked, clearW_eq_exited, clearW_eq_parked, srW, lgW, clAllW, clPreW, St.bg, onOk, onErr, selNext, afterSetErr, srAllW, nextC, roSets] <;> (try omega)
  | otxDone _ i lg hi =>
    clear h4
    have l0 := le_tot srW _ _ _ hi
    have l1 := le_tot lgW _ _ _ hi
    have l2 := le_tot clAllW _ _ _ hi
    have l3 := le_tot clPreW _ _ _ hi
    cases lg <;> (try simp only [St.setDone, St.setBg, ↓reduceIte, Bool.false_eq_true, Bool.and_false, Bool.and_true, Bool.false_and, Bool.true_and]) <;> (repeat' split) <;> simp_all [tot_set_eq _ _ _ _ _ hi, tot_ackWs_srw', tot_ackWs_lgw, tot_ackWs_clall, tot_ackWs_clpre, b2n_true, b2n_false, clearW_idle, clearW_exited, clearW_parked, clearW_eq_exited, clearW_eq_parked, srW, lgW, clAllW, clPreW, St.bg, onOk, onErr, selNext, afterSetErr, srAllW, nextC, roSets] <;> (try omega)
  | lgWriteOk _ i hi =>
    clear h4
    have l0 := le_tot srW _ _ _ hi
    have l1 := le_tot lgW _ _ _ hi
    have l2 := le_tot clAllW _ _ _ hi
    have l3 := le_tot clPreW _ _ _ hi
    (try simp only [St.setDone, St.setBg, ↓reduceIte, Bool.false_eq_true, Bool.and_false, Bool.and_true, Bool.false_and, Bool.true_and]) <;> (repeat' split) <;> simp_all [tot_set_eq _ _ _ _ _ hi, tot_ackWs_srw', tot_ackWs_lgw, tot_ackWs_clall, tot_ackWs_clpre, b2n_true, b2n_false, clearW_idle, clearW_exited, clearW_parked, clearW_eq_exited, clearW_eq_parked, srW, lgW, clAllW, clPreW, St.bg, onOk, onErr, selNext, afterSetErr, srAllW, nextC, roSets] <;> (try omega)
  | lgWriteFail _ i hi =>
    clear h4
    have l0 := le_tot srW _ _ _ hi
    have l1 := le_tot lgW _ _ _ hi
    have l2 := le_tot clAllW _ _ _ hi
    have l3 := le_tot clPreW _ _ _ hi
    (try simp only [St.setDone, St.setBg, ↓reduceIte, Bool.false_eq_true, Bool.and_false, Bool.and_true, Bool.false_and, Bool.true_and]) <;> (repeat' split) <;> simp_all [tot_set_eq _ _ _ _ _ hi, tot_ackWs_srw', tot_ackWs_lgw, tot_ackWs_clall, tot_ackWs_clpre, b2n_true, b2n_false, clearW_idle, clearW_exited, clearW_parked, clearW_eq_exited, clearW_eq_parked, srW, lgW, clAllW, clPreW, St.bg, onOk, onErr, selNext, afterSetErr, srAllW, nextC, roSets] <;> (try omega)
  | cmLockTr _ i lg hi hl =>
    clear h4
    have l0 := le_tot srW _ _ _ hi
    have l1 := le_tot lgW _ _ _ hi
    have l2 := le_tot clAllW _ _ _ hi
    have l3 := le_tot clPreW _ _ _ hi
    cases lg <;> (try simp only [St.setDone, St.setBg, ↓reduceIte, Bool.false_eq_true, Bool.and_false, Bool.and_true, Bool.false_and, Bool.true_and]) <;> (repeat' split) <;> simp_all [tot_set_eq _ _ _ _ _ hi, tot_ackWs_srw', tot_ackWs_lgw, tot_ackWs_clall, tot_ackWs_clpre, b2n_true, b2n_false, clearW_idle, clearW_exited, clearW_parked, clearW_eq_exited, clearW_eq_parked, srW, lgW, clAllW, clPreW, St.bg, onOk, onErr, selNext, afterSetErr, srAllW, nextC, roSets] <;> (try omega)
  | cmFlushOk _ i lg hi =>
    clear h4
    have l0 := le_tot srW _ _ _ hi
    have l1 := le_tot lgW _ _ _ hi
    have l2 := le_tot clAllW _ _ _ hi
    have l3 := le_tot clPreW _ _ _ hi
    cases lg <;> (try simp only [St.setDone, St.setBg, ↓reduceIte, Bool.false_eq_true, Bool.and_false, Bool.and_true, Bool.false_and, Bool.true_and]) <;> (repeat' split) <;> simp_all [tot_set_eq _ _ _ _ _ hi, tot_ackWs_srw', tot_ackWs_lgw, tot_ackWs_clall, tot_ackWs_clpre, b2n_true, b2n_false, clearW_idle, clearW_exited, clearW_parked, clearW_eq_exited, clearW_eq_parked, srW, lgW, clAllW, clPreW, St.bg, onOk, onErr, selNext, afterSetErr, srAllW, nextC, roSets] <;> (try omega)
  | cmFlushEmpty _ i lg hi =>
    clear h4
    have l0 := le_tot srW _ _ _ hi
    have l1 := le_tot lgW _ _ _ hi
    have l2 := le_tot clAllW _ _ _ hi
    have l3 := le_tot clPreW _ _ _ hi
    cases lg <;> (try simp only [St.setDone, St.setBg, ↓reduceIte, Bool.false_eq_true, Bool.and_false, Bool.and_true, Bool.false_and, Bool.true_and]) <;> (repeat' split) <;> simp_all [tot_set_eq _ _ _ _ _ hi, tot_ackWs_srw', tot_ackWs_lgw, tot_ackWs_clall, tot_ackWs_clpre, b2n_true, b2n_false, clearW_idle, clearW_exited, clearW_parked, clearW_eq_exited, clearW_eq_parked, srW, lgW, clAllW, clPreW, St.bg, onOk, onErr, selNext, afterSetErr, srAllW, nextC, roSets] <;> (try omega)
  | cmFlushFail _ i lg hi =>
    clear h4
    have l0 := le_tot srW _ _ _ hi
    have l1 := le_tot lgW _ _ _ hi
    have l2 := le_tot clAllW _ _ _ hi
    have l3 := le_tot clPreW _ _ _ hi
    cases lg <;> (try simp only [St.setDone, St.setBg, ↓reduceIte, Bool.false_eq_true, Bool.and_false, Bool.and_true, Bool.false_and, Bool.true_and]) <;> (repeat' split) <;> simp_all [tot_set_eq _ _ _ _ _ hi, tot_ackWs_srw', tot_ackWs_lgw, tot_ackWs_clall, tot_ackWs_clpre, b2n_true, b2n_false, clearW_idle, clearW_exited, clearW_parked, clearW_eq_exited, clearW_eq_parked, srW, lgW, clAllW, clPreW, St.bg, onOk, onErr, selNext, afterSetErr, srAllW, nextC, roSets] <;> (try omega)
  | cmLockClk _ i lg hi hl =>
    clear h4
    have l0 := le_tot srW _ _ _ hi
    have l1 := le_tot lgW _ _ _ hi
    have l2 := le_tot clAllW _ _ _ hi
    have l3 := le_tot clPreW _ _ _ hi
    cases lg <;> (try simp only [St.setDone, St.setBg, ↓reduceIte, Bool.false_eq_true, Bool.and_false, Bool.and_true, Bool.false_and, Bool.true_and]) <;> (repeat' split) <;> simp_all [tot_set_eq _ _ _ _ _ hi, tot_ackWs_srw', tot_ackWs_lgw, tot_ackWs_clall, tot_ackWs_clpre, b2n_true, b2n_false, clearW_idle, clearW_exited, clearW_parked, clearW_eq_exited, clearW_eq_parked, srW, lgW, clAllW, clPreW, St.bg, onOk, onErr, selNext, afterSetErr, srAllW, nextC, roSets] <;> (try omega)
  | cmTryOk _ i k lg hi =>
    clear h4
    have l0 := le_tot srW _ _ _ hi
    have l1 := le_tot lgW _ _ _ hi
    have l2 := le_tot clAllW _ _ _ hi
    have l3 := le_tot clPreW _ _ _ hi
    cases lg <;> (try simp only [St.setDone, St.setBg, ↓reduceIte, Bool.false_eq_true, Bool.and_false, Bool.and_true, Bool.false_and, Bool.true_and]) <;> (repeat' split) <;> simp_all [tot_set_eq _ _ _ _ _ hi, tot_ackWs_srw', tot_ackWs_lgw, tot_ackWs_clall, tot_ackWs_clpre, b2n_true, b2n_false, clearW_idle, clearW_exited, clearW_parked, clearW_eq_exited, clearW_eq_parked, srW, lgW, clAllW, clPreW, St.bg, onOk, onErr, selNext, afterSetErr, srAllW, nextC, roSets] <;> (try omega)
  | cmTryFail _ i k lg hi =>
    clear h4
    have l0 := le_tot srW _ _ _ hi
    have l1 := le_tot lgW _ _ _ hi
    have l2 := le_tot clAllW _ _ _ hi
    have l3 := le_tot clPreW _ _ _ hi
    cases lg <;> (try simp only [St.setDone, St.setBg, ↓reduceIte, Bool.false_eq_true, Bool.and_false, Bool.and_true, Bool.false_and, Bool.true_and]) <;> (repeat' split) <;> simp_all [tot_set_eq _ _ _ _ _ hi, tot_ackWs_srw', tot_ackWs_lgw, tot_ackWs_clall, tot_ackWs_clpre, b2n_true, b2n_false, clearW_idle, clearW_exited, clearW_parked, clearW_eq_exited, clearW_eq_parked, srW, lgW, clAllW, clPreW, St.bg, onOk, onErr, selNext, afterSetErr, srAllW, nextC, roSets] <;> (try omega)
  | cmSleepTimer _ i k lg hi =>
    clear h4
    have l0 := le_tot srW _ _ _ hi
    have l1 := le_tot lgW _ _ _ hi
    have l2 := le_tot clAllW _ _ _ hi
    have l3 := le_tot clPreW _ _ _ hi
    cases lg <;> (try simp only [St.setDone, St.setBg, ↓reduceIte, Bool.false_eq_true, Bool.and_false, Bool.and_true, Bool.false_and, Bool.true_and]) <;> (repeat' split) <;> simp_all [tot_set_eq _ _ _ _ _ hi, tot_ackWs_srw', tot_ackWs_lgw, tot_ackWs_clall, tot_ackWs_clpre, b2n_true, b2n_false, clearW_idle, clearW_exited, clearW_parked, clearW_eq_exited, clearW_eq_parked, srW, lgW, clAllW, clPreW, St.bg, onOk, onErr, selNext, afterSetErr, srAllW, nextC, roSets] <;> (try omega)
  | cmSleepClosed _ i k lg hi hc =>
    clear h4
    have l0 := le_tot srW _ _ _ hi
    have l1 := le_tot lgW _ _ _ hi
    have l2 := le_tot clAllW _ _ _ hi
    have l3 := le_tot clPreW _ _ _ hi
    cases lg <;> (try simp only [St.setDone, St.setBg, ↓reduceIte, Bool.false_eq_true, Bool.and_false, Bool.and_true, Bool.false_and, Bool.true_and]) <;> (repeat' split) <;> simp_all [tot_set_eq _ _ _ _ _ hi, tot_ackWs_srw', tot_ackWs_lgw, tot_ackWs_clall, tot_ackWs_clpre, b2n_true, b2n_false, clearW_idle, clearW_exited, clearW_parked, clearW_eq_exited, clearW_eq_parked, srW, lgW, clAllW, clPreW, St.bg, onOk, onErr, selNext, afterSetErr, srAllW, nextC, roSets] <;> (try omega)
  | cmFail3 _ i lg hi =>
    clear h4
    have l0 := le_tot srW _ _ _ hi
    have l1 := le_tot lgW _ _ _ hi
    have l2 := le_tot clAllW _ _ _ hi
    have l3 := le_tot clPreW _ _ _ hi
    cases lg <;> (try simp only [St.setDone, St.setBg, ↓reduceIte, Bool.false_eq_true, Bool.and_false, Bool.and_true, Bool.false_and, Bool.true_and]) <;> (repeat' split) <;> simp_all [tot_set_eq _ _ _ _ _ hi, tot_ackWs_srw', tot_ackWs_lgw, tot_ackWs_clall, tot_ackWs_clpre, b2n_true, b2n_false, clearW_idle, clearW_exited, clearW_parked, clearW_eq_exited, clearW_eq_parked, srW, lgW, clAllW, clPreW, St.bg, onOk, onErr, selNext, afterSetErr, srAllW, nextC, roSets] <;> (try omega)
  | cmAfterOk _ i lg hi =>
    clear h4
    have l0 := le_tot srW _ _ _ hi
    have l1 := le_tot lgW _ _ _ hi
    have l2 := le_tot clAllW _ _ _ hi
    have l3 := le_tot clPreW _ _ _ hi
    cases lg <;> (try simp only [St.setDone, St.setBg, ↓reduceIte, Bool.false_eq_true, Bool.and_false, Bool.and_true, Bool.false_and, Bool.true_and]) <;> (repeat' split) <;> simp_all [tot_set_eq _ _ _ _ _ hi, tot_ackWs_srw', tot_ackWs_lgw, tot_ackWs_clall, tot_ackWs_clpre, b2n_true, b2n_false, clearW_idle, clearW_exited, clearW_parked, clearW_eq_exited, clearW_eq_parked, srW, lgW, clAllW, clPreW, St.bg, onOk, onErr, selNext, afterSetErr, srAllW, nextC, roSets] <;> (try omega)
  | cmNoWaitComp _ i lg hi =>
    clear h4
    have l0 := le_tot srW _ _ _ hi
    have l1 := le_tot lgW _ _ _ hi
    have l2 := le_tot clAllW _ _ _ hi
    have l3 := le_tot clPreW _ _ _ hi
    cases lg <;> (try simp only [St.setDone, St.setBg, ↓reduceIte, Bool.false_eq_true, Bool.and_false, Bool.and_true, Bool.false_and, Bool.true_and]) <;> (repeat' split) <;> simp_all [tot_set_eq _ _ _ _ _ hi, tot_ackWs_srw', tot_ackWs_lgw, tot_ackWs_clall, tot_ackWs_clpre, b2n_true, b2n_false, clearW_idle, clearW_exited, clearW_parked, clearW_eq_exited, clearW_eq_parked, srW, lgW, clAllW, clPreW, St.bg, onOk, onErr, selNext, afterSetErr, srAllW, nextC, roSets] <;> (try omega)
  | cmWaitComp _ i lg hi =>
    clear h4
    have l0 := le_tot srW _ _ _ hi
    have l1 := le_tot lgW _ _ _ hi
    have l2 := le_tot clAllW _ _ _ hi
    have l3 := le_tot clPreW _ _ _ hi
    cases lg <;> (try simp only [St.setDone, St.setBg, ↓reduceIte, Bool.false_eq_true, Bool.and_false, Bool.and_true, Bool.false_and, Bool.true_and]) <;> (repeat' split) <;> simp_all [tot_set_eq _ _ _ _ _ hi, tot_ackWs_srw', tot_ackWs_lgw, tot_ackWs_clall, tot_ackWs_clpre, b2n_true, b2n_false, clearW_idle, clearW_exited, clearW_parked, clearW_eq_exited, clearW_eq_parked, srW, lgW, clAllW, clPreW, St.bg, onOk, onErr, selNext, afterSetErr, srAllW, nextC, roSets] <;> (try omega)
  | cmDone _ i lg hi =>
    clear h4
    have l0 := le_tot srW _ _ _ hi
    have l1 := le_tot lgW _ _ _ hi
    have l2 := le_tot clAllW _ _ _ hi
    have l3 := le_tot clPreW _ _ _ hi
    cases lg <;> (try simp only [St.setDone, St.setBg, ↓reduceIte, Bool.false_eq_true, Bool.and_false, Bool.and_true, Bool.false_and, Bool.true_and]) <;> (repeat' split) <;> simp_all [tot_set_eq _ _ _ _ _ hi, tot_ackWs_srw', tot_ackWs_lgw, tot_ackWs_clall, tot_ackWs_clpre, b2n_true, b2n_false, clearW_idle, clearW_exited, clearW_parked, clearW_eq_exited, clearW_eq_parked, srW, lgW, clAllW, clPreW, St.bg, onOk, onErr, selNext, afterSetErr, srAllW, nextC, roSets] <;> (try omega)
  | cmRet _ i ok lg hi =>
    clear h4
    have l0 := le_tot srW _ _ _ hi
    have l1 := le_tot lgW _ _ _ hi
    have l2 := le_tot clAllW _ _ _ hi
    have l3 := le_tot clPreW _ _ _ hi
    cases ok <;> cases lg <;> (try simp only [St.setDone, St.setBg, ↓reduceIte, Bool.false_eq_true, Bool.and_false, Bool.and_true, Bool.false_and, Bool.true_and]) <;> (repeat' split) <;> simp_all [tot_set_eq _ _ _ _ _ hi, tot_ackWs_srw', tot_ackWs_lgw, tot_ackWs_clall, tot_ackWs_clpre, b2n_true, b2n_false, clearW_idle, clearW_exited, clearW_parked, clearW_eq_exited, clearW_eq_parked, srW, lgW, clAllW, clPreW, St.bg, onOk, onErr, selNext, afterSetErr, srAllW, nextC, roSets] <;> (try omega)
  | dcLockTr _ i lg hi hl =>
    clear h4
    have l0 := le_tot srW _ _ _ hi
    have l1 := le_tot lgW _ _ _ hi
    have l2 := le_tot clAllW _ _ _ hi
    have l3 := le_tot clPreW _ _ _ hi
    cases lg <;> (try simp only [St.setDone, St.setBg, ↓reduceIte, Bool.false_eq_true, Bool.and_false, Bool.and_true, Bool.false_and, Bool.true_and]) <;> (repeat' split) <;> simp_all [tot_set_eq _ _ _ _ _ hi, tot_ackWs_srw', tot_ackWs_lgw, tot_ackWs_clall, tot_ackWs_clpre, b2n_true, b2n_false, clearW_idle, clearW_exited, clearW_parked, clearW_eq_exited, clearW_eq_parked, srW, lgW, clAllW, clPreW, St.bg, onOk, onErr, selNext, afterSetErr, srAllW, nextC, roSets] <;> (try omega)
  | dcBody _ i lg hi =>
    clear h4
    have l0 := le_tot srW _ _ _ hi
    have l1 := le_tot lgW _ _ _ hi
    have l2 := le_tot clAllW _ _ _ hi
    have l3 := le_tot clPreW _ _ _ hi
    cases lg <;> (try simp only [St.setDone, St.setBg, ↓reduceIte, Bool.false_eq_true, Bool.and_false, Bool.and_true, Bool.false_and, Bool.true_and]) <;> (repeat' split) <;> simp_all [tot_set_eq _ _ _ _ _ hi, tot_ackWs_srw', tot_ackWs_lgw, tot_ackWs_clall, tot_ackWs_clpre, b2n_true, b2n_false, clearW_idle, clearW_exited, clearW_parked, clearW_eq_exited, clearW_eq_parked, srW, lgW, clAllW, clPreW, St.bg, onOk, onErr, selNext, afterSetErr, srAllW, nextC, roSets] <;> (try omega)
  | crNoOverlap _ i hi =>
    clear h4
    have l0 := le_tot srW _ _ _ hi
    have l1 := le_tot lgW _ _ _ hi
    have l2 := le_tot clAllW _ _ _ hi
    have l3 := le_tot clPreW _ _ _ hi
    (try simp only [St.setDone, St.setBg, ↓reduceIte, Bool.false_eq_true, Bool.and_false, Bool.and_true, Bool.false_and, Bool.true_and]) <;> (repeat' split) <;> simp_all [tot_set_eq _ _ _ _ _ hi, tot_ackWs_srw', tot_ackWs_lgw, tot_ackWs_clall, tot_ackWs_clpre, b2n_true, b2n_false, clearW_idle, clearW_exited, clearW_parked, clearW_eq_exited, clearW_eq_parked, srW, lgW, clAllW, clPreW, St.bg, onOk, onErr, selNext, afterSetErr, srAllW, nextC, roSets] <;> (try omega)
  | crOverlap _ i hi =>
    clear h4
    have l0 := le_tot srW _ _ _ hi
    have l1 := le_tot lgW _ _ _ hi
    have l2 := le_tot clAllW _ _ _ hi
    have l3 := le_tot clPreW _ _ _ hi
    (try simp only [St.setDone, St.setBg, ↓reduceIte, Bool.false_eq_true, Bool.and_false, Bool.and_true, Bool.false_and, Bool.true_and]) <;> (repeat' split) <;> simp_all [tot_set_eq _ _ _ _ _ hi, tot_ackWs_srw', tot_ackWs_lgw, tot_ackWs_clall, tot_ackWs_clpre, b2n_true, b2n_false, clearW_idle, clearW_exited, clearW_parked, clearW_eq_exited, clearW_eq_parked, srW, lgW, clAllW, clPreW, St.bg, onOk, onErr, selNext, afterSetErr, srAllW, nextC, roSets] <;> (try omega)
  | crNewMemOk _ i hi =>
    clear h4
    have l0 := le_tot srW _ _ _ hi
    have l1 := le_tot lgW _ _ _ hi
    have l2 := le_tot clAllW _ _ _ hi
    have l3 := le_tot clPreW _ _ _ hi
    (try simp only [St.setDone, St.setBg, ↓reduceIte, Bool.false_eq_true, Bool.and_false, Bool.and_true, Bool.false_and, Bool.true_and]) <;> (repeat' split) <;> simp_all [tot_set_eq _ _ _ _ _ hi, tot_ackWs_srw', tot_ackWs_lgw, tot_ackWs_clall, tot_ackWs_clpre, b2n_true, b2n_false, clearW_idle, clearW_exited, clearW_parked, clearW_eq_exited, clearW_eq_parked, srW, lgW, clAllW, clPreW, St.bg, onOk, onErr, selNext, afterSetErr, srAllW, nextC, roSets] <;> (try omega)
  | crNewMemFail _ i hi =>
    clear h4
    have l0 := le_tot srW _ _ _ hi
    have l1 := le_tot lgW _ _ _ hi
    have l2 := le_tot clAllW _ _ _ hi
    have l3 := le_tot clPreW _ _ _ hi
    (try simp only [St.setDone, St.setBg, ↓reduceIte, Bool.false_eq_true, Bool.and_false, Bool.and_true, Bool.false_and, Bool.true_and]) <;> (repeat' split) <;> simp_all [tot_set_eq _ _ _ _ _ hi, tot_ackWs_srw', tot_ackWs_lgw, tot_ackWs_clall, tot_ackWs_clpre, b2n_true, b2n_false, clearW_idle, clearW_exited, clearW_parked, clearW_eq_exited, clearW_eq_parked, srW, lgW, clAllW, clPreW, St.bg, onOk, onErr, selNext, afterSetErr, srAllW, nextC, roSets] <;> (try omega)
  | crRelM _ i hi =>
    clear h4
    have l0 := le_tot srW _ _ _ hi
    have l1 := le_tot lgW _ _ _ hi
    have l2 := le_tot clAllW _ _ _ hi
    have l3 := le_tot clPreW _ _ _ hi
    (try simp only [St.setDone, St.setBg, ↓reduceIte, Bool.false_eq_true, Bool.and_false, Bool.and_true, Bool.false_and, Bool.true_and]) <;> (repeat' split) <;> simp_all [tot_set_eq _ _ _ _ _ hi, tot_ackWs_srw', tot_ackWs_lgw, tot_ackWs_clall, tot_ackWs_clpre, b2n_true, b2n_false, clearW_idle, clearW_exited, clearW_parked, clearW_eq_exited, clearW_eq_parked, srW, lgW, clAllW, clPreW, St.bg, onOk, onErr, selNext, afterSetErr, srAllW, nextC, roSets] <;> (try omega)
  | crRelOk _ i hi =>
    clear h4
    have l0 := le_tot srW _ _ _ hi
    have l1 := le_tot lgW _ _ _ hi
    have l2 := le_tot clAllW _ _ _ hi
    have l3 := le_tot clPreW _ _ _ hi
    (try simp only [St.setDone, St.setBg, ↓reduceIte, Bool.false_eq_true, Bool.and_false, Bool.and_true, Bool.false_and, Bool.true_and]) <;> (repeat' split) <;> simp_all [tot_set_eq _ _ _ _ _ hi, tot_ackWs_srw', tot_ackWs_lgw, tot_ackWs_clall, tot_ackWs_clpre, b2n_true, b2n_false, clearW_idle, clearW_exited, clearW_parked, clearW_eq_exited, clearW_eq_parked, srW, lgW, clAllW, clPreW, St.bg, onOk, onErr, selNext, afterSetErr, srAllW, nextC, roSets] <;> (try omega)
  | crRelFail _ i hi =>
    clear h4
    have l0 := le_tot srW _ _ _ hi
    have l1 := le_tot lgW _ _ _ hi
    have l2 := le_tot clAllW _ _ _ hi
    have l3 := le_tot clPreW _ _ _ hi
    (try simp only [St.setDone, St.setBg, ↓reduceIte, Bool.false_eq_true, Bool.and_false, Bool.and_true, Bool.false_and, Bool.true_and]) <;> (repeat' split) <;> simp_all [tot_set_eq _ _ _ _ _ hi, tot_ackWs_srw', tot_ackWs_lgw, tot_ackWs_clall, tot_ackWs_clpre, b2n_true, b2n_false, clearW_idle, clearW_exited, clearW_parked, clearW_eq_exited, clearW_eq_parked, srW, lgW, clAllW, clPreW, St.bg, onOk, onErr, selNext, afterSetErr, srAllW, nextC, roSets] <;> (try omega)
  | srSend _ i hi he =>
    clear h4
    have l0 := le_tot srW _ _ _ hi
    have l1 := le_tot lgW _ _ _ hi
    have l2 := le_tot clAllW _ _ _ hi
    have l3 := le_tot clPreW _ _ _ hi
    simp only [hm, recvs_asCoded] at he
    rcases he with he | he <;> (try simp only [St.setDone, St.setBg, ↓reduceIte, Bool.false_eq_true, Bool.and_false, Bool.and_true, Bool.false_and, Bool.true_and]) <;> (repeat' split) <;> simp_all [tot_set_eq _ _ _ _ _ hi, tot_ackWs_srw', tot_ackWs_lgw, tot_ackWs_clall, tot_ackWs_clpre, b2n_true, b2n_false, clearW_idle, clearW_exited, clearW_parked, clearW_eq_exited, clearW_eq_parked, srW, lgW, clAllW, clPreW, St.bg, onOk, onErr, selNext, afterSetErr, srAllW, nextC, roSets] <;> (try omega)
  | srPerErr _ i hi he =>
    clear h4
    have l0 := le_tot srW _ _ _ hi
    have l1 := le_tot lgW _ _ _ hi
    have l2 := le_tot clAllW _ _ _ hi
    have l3 := le_tot clPreW _ _ _ hi
    (try simp only [St.setDone, St.setBg, ↓reduceIte, Bool.false_eq_true, Bool.and_false, Bool.and_true, Bool.false_and, Bool.true_and]) <;> (repeat' split) <;> simp_all [tot_set_eq _ _ _ _ _ hi, tot_ackWs_srw', tot_ackWs_lgw, tot_ackWs_clall, tot_ackWs_clpre, b2n_true, b2n_false, clearW_idle, clearW_exited, clearW_parked, clearW_eq_exited, clearW_eq_parked, srW, lgW, clAllW, clPreW, St.bg, onOk, onErr, selNext, afterSetErr, srAllW, nextC, roSets] <;> (try omega)
  | srClosed _ i hi hc =>
    have l0 := le_tot srW _ _ _ hi
    have l1 := le_tot lgW _ _ _ hi
    have l2 := le_tot clAllW _ _ _ hi
    have l3 := le_tot clPreW _ _ _ hi
    have ls := le_tot srAllW _ _ _ hi
    rcases h4 with h4 | ⟨_, h4⟩ <;> (try simp only [St.setDone, St.setBg, ↓reduceIte, Bool.false_eq_true, Bool.and_false, Bool.and_true, Bool.false_and, Bool.true_and]) <;> (repeat' split) <;> simp_all [tot_set_eq _ _ _ _ _ hi, tot_ackWs_srw', tot_ackWs_lgw, tot_ackWs_clall, tot_ackWs_clpre, b2n_true, b2n_false, clearW_idle, clearW_exited, clearW_parked, clearW_eq_exited, clearW_eq_parked, srW, lgW, clAllW, clPreW, St.bg, onOk, onErr, selNext, afterSetErr, srAllW, nextC, roSets] <;> (try omega)
  | clCheckTr _ i hi =>
    clear h4
    have l0 := le_tot srW _ _ _ hi
    have l1 := le_tot lgW _ _ _ hi
    have l2 := le_tot clAllW _ _ _ hi
    have l3 := le_tot clPreW _ _ _ hi
    (try simp only [St.setDone, St.setBg, ↓reduceIte, Bool.false_eq_true, Bool.and_false, Bool.and_true, Bool.false_and, Bool.true_and]) <;> (repeat' split) <;> simp_all [tot_set_eq _ _ _ _ _ hi, tot_ackWs_srw', tot_ackWs_lgw, tot_ackWs_clall, tot_ackWs_clpre, b2n_true, b2n_false, clearW_idle, clearW_exited, clearW_parked, clearW_eq_exited, clearW_eq_parked, srW, lgW, clAllW, clPreW, St.bg, onOk, onErr, selNext, afterSetErr, srAllW, nextC, roSets] <;> (try omega)
  | clLockTr _ i hi hl =>
    clear h4
    have l0 := le_tot srW _ _ _ hi
    have l1 := le_tot lgW _ _ _ hi
    have l2 := le_tot clAllW _ _ _ hi
    have l3 := le_tot clPreW _ _ _ hi
    (try simp only [St.setDone, St.setBg, ↓reduceIte, Bool.false_eq_true, Bool.and_false, Bool.and_true, Bool.false_and, Bool.true_and]) <;> (repeat' split) <;> simp_all [tot_set_eq _ _ _ _ _ hi, tot_ackWs_srw', tot_ackWs_lgw, tot_ackWs_clall, tot_ackWs_clpre, b2n_true, b2n_false, clearW_idle, clearW_exited, clearW_parked, clearW_eq_exited, clearW_eq_parked, srW, lgW, clAllW, clPreW, St.bg, onOk, onErr, selNext, afterSetErr, srAllW, nextC, roSets] <;> (try omega)
  | clBody _ i hi =>
    clear h4
    have l0 := le_tot srW _ _ _ hi
    have l1 := le_tot lgW _ _ _ hi
    have l2 := le_tot clAllW _ _ _ hi
    have l3 := le_tot clPreW _ _ _ hi
    (try simp only [St.setDone, St.setBg, ↓reduceIte, Bool.false_eq_true, Bool.and_false, Bool.and_true, Bool.false_and, Bool.true_and]) <;> (repeat' split) <;> simp_all [tot_set_eq _ _ _ _ _ hi, tot_ackWs_srw', tot_ackWs_lgw, tot_ackWs_clall, tot_ackWs_clpre, b2n_true, b2n_false, clearW_idle, clearW_exited, clearW_parked, clearW_eq_exited, clearW_eq_parked, srW, lgW, clAllW, clPreW, St.bg, onOk, onErr, selNext, afterSetErr, srAllW, nextC, roSets] <;> (try omega)
  | clAcq _ i hi ht =>
    clear h4
    have l0 := le_tot srW _ _ _ hi
    have l1 := le_tot lgW _ _ _ hi
    have l2 := le_tot clAllW _ _ _ hi
    have l3 := le_tot clPreW _ _ _ hi
    (try simp only [St.setDone, St.setBg, ↓reduceIte, Bool.false_eq_true, Bool.and_false, Bool.and_true, Bool.false_and, Bool.true_and]) <;> (repeat' split) <;> simp_all [tot_set_eq _ _ _ _ _ hi, tot_ackWs_srw', tot_ackWs_lgw, tot_ackWs_clall, tot_ackWs_clpre, b2n_true, b2n_false, clearW_idle, clearW_exited, clearW_parked, clearW_eq_exited, clearW_eq_parked, srW, lgW, clAllW, clPreW, St.bg, onOk, onErr, selNext, afterSetErr, srAllW, nextC, roSets] <;> (try omega)
  | clAcqKept _ i hi he hk hs =>
    clear h4
    have l0 := le_tot srW _ _ _ hi
    have l1 := le_tot lgW _ _ _ hi
    have l2 := le_tot clAllW _ _ _ hi
    have l3 := le_tot clPreW _ _ _ hi
    (try simp only [St.setDone, St.setBg, ↓reduceIte, Bool.false_eq_true, Bool.and_false, Bool.and_true, Bool.false_and, Bool.true_and]) <;> (repeat' split) <;> simp_all [tot_set_eq _ _ _ _ _ hi, tot_ackWs_srw', tot_ackWs_lgw, tot_ackWs_clall, tot_ackWs_clpre, b2n_true, b2n_false, clearW_idle, clearW_exited, clearW_parked, clearW_eq_exited, clearW_eq_parked, srW, lgW, clAllW, clPreW, St.bg, onOk, onErr, selNext, afterSetErr, srAllW, nextC, roSets] <;> (try omega)
  | clWait _ i hi hm ht =>
    clear h4
    have l0 := le_tot srW _ _ _ hi
    have l1 := le_tot lgW _ _ _ hi
    have l2 := le_tot clAllW _ _ _ hi
    have l3 := le_tot clPreW _ _ _ hi
    (try simp only [St.setDone, St.setBg, ↓reduceIte, Bool.false_eq_true, Bool.and_false, Bool.and_true, Bool.false_and, Bool.true_and]) <;> (repeat' split) <;> simp_all [tot_set_eq _ _ _ _ _ hi, tot_ackWs_srw', tot_ackWs_lgw, tot_ackWs_clall, tot_ackWs_clpre, b2n_true, b2n_false, clearW_idle, clearW_exited, clearW_parked, clearW_eq_exited, clearW_eq_parked, srW, lgW, clAllW, clPreW, St.bg, onOk, onErr, selNext, afterSetErr, srAllW, nextC, roSets] <;> (try omega)
  | ehAcquire _ he ht =>
    clear h4
    (try simp only [St.setDone, St.setBg, ↓reduceIte, Bool.false_eq_true, Bool.and_false, Bool.and_true, Bool.false_and, Bool.true_and]) <;> (repeat' split) <;> simp_all [tot_ackWs_srw', tot_ackWs_lgw, tot_ackWs_clall, tot_ackWs_clpre, b2n_true, b2n_false, clearW_idle, clearW_exited, clearW_parked, clearW_eq_exited, clearW_eq_parked, srW, lgW, clAllW, clPreW, St.bg, onOk, onErr, selNext, afterSetErr, srAllW, nextC, roSets] <;> (try omega)
  | ehClose _ he hc =>
    clear h4
    simp only [hm, closes_asCoded] at he
    rcases he with he | he | he <;> (try simp only [St.setDone, St.setBg, ↓reduceIte, Bool.false_eq_true, Bool.and_false, Bool.and_true, Bool.false_and, Bool.true_and]) <;> (repeat' split) <;> simp_all [tot_ackWs_srw', tot_ackWs_lgw, tot_ackWs_clall, tot_ackWs_clpre, b2n_true, b2n_false, clearW_idle, clearW_exited, clearW_parked, clearW_eq_exited, clearW_eq_parked, srW, lgW, clAllW, clPreW, St.bg, onOk, onErr, selNext, afterSetErr, srAllW, nextC, roSets] <;> (try omega)
  | ehTake _ he ht =>
    clear h4
    (try simp only [St.setDone, St.setBg, ↓reduceIte, Bool.false_eq_true, Bool.and_false, Bool.and_true, Bool.false_and, Bool.true_and]) <;> (repeat' split) <;> simp_all [tot_ackWs_srw', tot_ackWs_lgw, tot_ackWs_clall, tot_ackWs_clpre, b2n_true, b2n_false, clearW_idle, clearW_exited, clearW_parked, clearW_eq_exited, clearW_eq_parked, srW, lgW, clAllW, clPreW, St.bg, onOk, onErr, selNext, afterSetErr, srAllW, nextC, roSets] <;> (try omega)
  | bgExitIdle _ b hb hc =>
    clear h4
    cases b <;> (try simp only [St.setDone, St.setBg, ↓reduceIte, Bool.false_eq_true, Bool.and_false, Bool.and_true, Bool.false_and, Bool.true_and]) <;> (repeat' split) <;> simp_all [tot_ackWs_srw', tot_ackWs_lgw, tot_ackWs_clall, tot_ackWs_clpre, b2n_true, b2n_false, clearW_idle, clearW_exited, clearW_parked, clearW_eq_exited, clearW_eq_parked, srW, lgW, clAllW, clPreW, St.bg, onOk, onErr, selNext, afterSetErr, srAllW, nextC, roSets] <;> (try omega)
  | bgExitParked _ hb hc =>
    clear h4
    (try simp only [St.setDone, St.setBg, ↓reduceIte, Bool.false_eq_true, Bool.and_false, Bool.and_true, Bool.false_and, Bool.true_and]) <;> (repeat' split) <;> simp_all [tot_ackWs_srw', tot_ackWs_lgw, tot_ackWs_clall, tot_ackWs_clpre, b2n_true, b2n_false, clearW_idle, clearW_exited, clearW_parked, clearW_eq_exited, clearW_eq_parked, srW, lgW, clAllW, clPreW, St.bg, onOk, onErr, selNext, afterSetErr, srAllW, nextC, roSets] <;> (try omega)
  | bgWorkCorrupt _ b w hb hk =>
    clear h4
    cases b <;> (try simp only [St.setDone, St.setBg, ↓reduceIte, Bool.false_eq_true, Bool.and_false, Bool.and_true, Bool.false_and, Bool.true_and]) <;> (repeat' split) <;> simp_all [tot_ackWs_srw', tot_ackWs_lgw, tot_ackWs_clall, tot_ackWs_clpre, b2n_true, b2n_false, clearW_idle, clearW_exited, clearW_parked, clearW_eq_exited, clearW_eq_parked, srW, lgW, clAllW, clPreW, St.bg, onOk, onErr, selNext, afterSetErr, srAllW, nextC, roSets] <;> (try omega)
  | bgCommitCorrupt _ b w hb hk =>
    clear h4
    cases b <;> (try simp only [St.setDone, St.setBg, ↓reduceIte, Bool.false_eq_true, Bool.and_false, Bool.and_true, Bool.false_and, Bool.true_and]) <;> (repeat' split) <;> simp_all [tot_ackWs_srw', tot_ackWs_lgw, tot_ackWs_clall, tot_ackWs_clpre, b2n_true, b2n_false, clearW_idle, clearW_exited, clearW_parked, clearW_eq_exited, clearW_eq_parked, srW, lgW, clAllW, clPreW, St.bg, onOk, onErr, selNext, afterSetErr, srAllW, nextC, roSets] <;> (try omega)
  | bgSetErrCorrupt _ b w c hb he =>
    clear h4
    simp only [hm, recvs_asCoded] at he
    rcases he with he | he <;> cases b <;> cases c <;> (try simp only [St.setDone, St.setBg, ↓reduceIte, Bool.false_eq_true, Bool.and_false, Bool.and_true, Bool.false_and, Bool.true_and]) <;> (repeat' split) <;> simp_all [tot_ackWs_srw', tot_ackWs_lgw, tot_ackWs_clall, tot_ackWs_clpre, b2n_true, b2n_false, clearW_idle, clearW_exited, clearW_parked, clearW_eq_exited, clearW_eq_parked, srW, lgW, clAllW, clPreW, St.bg, onOk, onErr, selNext, afterSetErr, srAllW, nextC, roSets] <;> (try omega)
  | bgWorkOk _ b w hb =>
    clear h4
    cases b <;> (try simp only [St.setDone, St.setBg, ↓reduceIte, Bool.false_eq_true, Bool.and_false, Bool.and_true, Bool.false_and, Bool.true_and]) <;> (repeat' split) <;> simp_all [tot_ackWs_srw', tot_ackWs_lgw, tot_ackWs_clall, tot_ackWs_clpre, b2n_true, b2n_false, clearW_idle, clearW_exited, clearW_parked, clearW_eq_exited, clearW_eq_parked, srW, lgW, clAllW, clPreW, St.bg, onOk, onErr, selNext, afterSetErr, srAllW, nextC, roSets] <;> (try omega)
  | bgWorkFail _ b w hb =>
    clear h4
    cases b <;> (try simp only [St.setDone, St.setBg, ↓reduceIte, Bool.false_eq_true, Bool.and_false, Bool.and_true, Bool.false_and, Bool.true_and]) <;> (repeat' split) <;> simp_all [tot_ackWs_srw', tot_ackWs_lgw, tot_ackWs_clall, tot_ackWs_clpre, b2n_true, b2n_false, clearW_idle, clearW_exited, clearW_parked, clearW_eq_exited, clearW_eq_parked, srW, lgW, clAllW, clPreW, St.bg, onOk, onErr, selNext, afterSetErr, srAllW, nextC, roSets] <;> (try omega)
  | bgCommitOk _ b w hb =>
    clear h4
    cases b <;> (try simp only [St.setDone, St.setBg, ↓reduceIte, Bool.false_eq_true, Bool.and_false, Bool.and_true, Bool.false_and, Bool.true_and]) <;> (repeat' split) <;> simp_all [tot_ackWs_srw', tot_ackWs_lgw, tot_ackWs_clall, tot_ackWs_clpre, b2n_true, b2n_false, clearW_idle, clearW_exited, clearW_parked, clearW_eq_exited, clearW_eq_parked, srW, lgW, clAllW, clPreW, St.bg, onOk, onErr, selNext, afterSetErr, srAllW, nextC, roSets] <;> (try omega)
  | bgCommitFail _ b w hb =>
    clear h4
    cases b <;> (try simp only [St.setDone, St.setBg, ↓reduceIte, Bool.false_eq_true, Bool.and_false, Bool.and_true, Bool.false_and, Bool.true_and]) <;> (repeat' split) <;> simp_all [tot_ackWs_srw', tot_ackWs_lgw, tot_ackWs_clall, tot_ackWs_clpre, b2n_true, b2n_false, clearW_idle, clearW_exited, clearW_parked, clearW_eq_exited, clearW_eq_parked, srW, lgW, clAllW, clPreW, St.bg, onOk, onErr, selNext, afterSetErr, srAllW, nextC, roSets] <;> (try omega)
  | bgSetErr _ b w ok c hb he =>
    clear h4
    simp only [hm, recvs_asCoded] at he
    rcases he with he | he <;> cases b <;> cases ok <;> cases c <;> (try simp only [St.setDone, St.setBg, ↓reduceIte, Bool.false_eq_true, Bool.and_false, Bool.and_true, Bool.false_and, Bool.true_and]) <;> (repeat' split) <;> simp_all [tot_ackWs_srw', tot_ackWs_lgw, tot_ackWs_clall, tot_ackWs_clpre, b2n_true, b2n_false, clearW_idle, clearW_exited, clearW_parked, clearW_eq_exited, clearW_eq_parked, srW, lgW, clAllW, clPreW, St.bg, onOk, onErr, selNext, afterSetErr, srAllW, nextC, roSets] <;> (try omega)
  | bgSetErrPer _ b w c hb he =>
    clear h4
    cases b <;> cases c <;> (try simp only [St.setDone, St.setBg, ↓reduceIte, Bool.false_eq_true, Bool.and_false, Bool.and_true, Bool.false_and, Bool.true_and]) <;> (repeat' split) <;> simp_all [tot_ackWs_srw', tot_ackWs_lgw, tot_ackWs_clall, tot_ackWs_clpre, b2n_true, b2n_false, clearW_idle, clearW_exited, clearW_parked, clearW_eq_exited, clearW_eq_parked, srW, lgW, clAllW, clPreW, St.bg, onOk, onErr, selNext, afterSetErr, srAllW, nextC, roSets] <;> (try omega)
  | bgBackoff _ b w c hb =>
    clear h4
    cases b <;> cases c <;> (try simp only [St.setDone, St.setBg, ↓reduceIte, Bool.false_eq_true, Bool.and_false, Bool.and_true, Bool.false_and, Bool.true_and]) <;> (repeat' split) <;> simp_all [tot_ackWs_srw', tot_ackWs_lgw, tot_ackWs_clall, tot_ackWs_clpre, b2n_true, b2n_false, clearW_idle, clearW_exited, clearW_parked, clearW_eq_exited, clearW_eq_parked, srW, lgW, clAllW, clPreW, St.bg, onOk, onErr, selNext, afterSetErr, srAllW, nextC, roSets] <;> (try omega)
  | bgLockClk _ b w hb hl =>
    clear h4
    cases b <;> (try simp only [St.setDone, St.setBg, ↓reduceIte, Bool.false_eq_true, Bool.and_false, Bool.and_true, Bool.false_and, Bool.true_and]) <;> (repeat' split) <;> simp_all [tot_ackWs_srw', tot_ackWs_lgw, tot_ackWs_clall, tot_ackWs_clpre, b2n_true, b2n_false, clearW_idle, clearW_exited, clearW_parked, clearW_eq_exited, clearW_eq_parked, srW, lgW, clAllW, clPreW, St.bg, onOk, onErr, selNext, afterSetErr, srAllW, nextC, roSets] <;> (try omega)
  | bgAck _ b w hb =>
    clear h4
    have hp := afterCmd_parked cfg s b
    rcases afterCmd_cases cfg s b with hac | hac <;> rw [hac] at hp ⊢ <;> cases b <;> (try simp only [St.setDone, St.setBg]) <;> simp_all [tot_ackWs_srw', tot_ackWs_lgw, tot_ackWs_clall, tot_ackWs_clpre, b2n_true, b2n_false, clearW_idle, clearW_exited, clearW_parked, clearW_eq_exited, clearW_eq_parked, srW, lgW, clAllW, clPreW, St.bg, onOk, onErr, selNext, afterSetErr, srAllW, nextC, roSets] <;> (try omega)
  | bgExit _ b w ph hb hx =>
    clear h4
    cases b <;> cases ph <;> (try simp only [St.setDone, St.setBg, ↓reduceIte, Bool.false_eq_true, Bool.and_false, Bool.and_true, Bool.false_and, Bool.true_and]) <;> (repeat' split) <;> simp_all [tot_ackWs_srw', tot_ackWs_lgw, tot_ackWs_clall, tot_ackWs_clpre, b2n_true, b2n_false, clearW_idle, clearW_exited, clearW_parked, clearW_eq_exited, clearW_eq_parked, srW, lgW, clAllW, clPreW, St.bg, onOk, onErr, selNext, afterSetErr, srAllW, nextC, roSets] <;> (try omega) <;> (try (rcases hx with hx | hx <;> simp_all))

end GoLevel.Locks
