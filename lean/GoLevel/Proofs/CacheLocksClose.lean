import GoLevel.Proofs.CacheLocksDrain2
/-! The lock-level cache system (C17), part 10: `Close` gets through its locking.  A thread inside `Close`'s
locking is either enabled itself, or waits for readers that drain (`Phi`). -/
namespace GoLevel.CacheL
open GoLevel.CacheM

set_option linter.unusedSimpArgs false

/-- How far a thread is from having left `Close`'s locking. -/
def Phase.rank : Phase → Nat
  | .idle => 0
  | .relMu => 1
  | .relUn => 2
  | .hasBoth => 3
  | .annUn => 4
  | .hasMu => 5
  | .annMu => 6

/-- A step of another thread does not touch thread `w`'s lock-level state. -/
theorem tl_other {ls ls' : LSys} {a : Act} {w : Nat} (hs : lstep ls a = some ls') (ha : a ≠ .step w) :
    ls'.tl[w]? = ls.tl[w]? := by
  cases a with
  | call t c =>
    simp only [lstep] at hs
    repeat' (split at hs)
    all_goals first | (cases hs; done) | (rw [← Option.some.inj hs])
  | step t =>
    have hne : w ≠ t := fun h => ha (by rw [h])
    obtain ⟨th, T, hth, hT, hc⟩ := lstepThread_cases hs
    rcases hc with ⟨_, _, rfl⟩ | ⟨_, _, hb⟩ | ⟨_, _, _, rfl⟩ | ⟨_, _, rfl⟩ | ⟨_, hb⟩ | ⟨_, rfl⟩ | ⟨_, rfl⟩ |
      ⟨_, _, _, rfl⟩ | ⟨_, i, rest, b', _, _, _, _, rfl⟩
    any_goals (simp only [setPhase]; exact get_set_ne hne)
    · obtain ⟨b', _, rfl⟩ := closeBody_cases hb; simp only [setPhase]; exact get_set_ne hne
    · obtain ⟨b', _, rfl⟩ := closeBody_cases hb; simp only [setPhase]; exact get_set_ne hne
    · obtain ⟨held', htl, _⟩ := afterBase_tl (i := i) (b' := b') hth
      rw [htl]; exact get_set_ne hne

/-- The thread's own step takes it one phase further. -/
theorem own_step_rank {ls ls' : LSys} {w : Nat} {th : LThread} (hth : ls.tl[w]? = some th)
    (hp : th.phase ≠ .idle) (hs : lstepThread ls w = some ls') :
    ∃ th', ls'.tl[w]? = some th' ∧ th'.phase.rank < th.phase.rank := by
  obtain ⟨th2, T, hth2, hT, hc⟩ := lstepThread_cases hs
  rw [hth] at hth2; cases hth2
  rcases hc with ⟨h1, _, rfl⟩ | ⟨h1, hu, hb⟩ | ⟨h1, hu, _, rfl⟩ | ⟨h1, _, rfl⟩ | ⟨h1, hb⟩ | ⟨h1, rfl⟩ | ⟨h1, rfl⟩ |
    ⟨h1, _⟩ | ⟨h1, _⟩
  · exact ⟨_, by simp only [setPhase]; exact get_set_self hth, by rw [h1]; simp [Phase.rank]⟩
  · obtain ⟨b', _, rfl⟩ := closeBody_cases hb
    exact ⟨_, by simp only [setPhase]; exact get_set_self hth, by rw [h1, hu]; simp [Phase.rank]⟩
  · exact ⟨_, by simp only [setPhase]; exact get_set_self hth, by rw [h1]; simp [Phase.rank]⟩
  · exact ⟨_, by simp only [setPhase]; exact get_set_self hth, by rw [h1]; simp [Phase.rank]⟩
  · obtain ⟨b', _, rfl⟩ := closeBody_cases hb
    refine ⟨_, by simp only [setPhase]; exact get_set_self hth, ?_⟩
    rw [h1]; simp only []; split <;> simp [Phase.rank]
  · exact ⟨_, by simp only [setPhase]; exact get_set_self hth, by rw [h1]; simp [Phase.rank]⟩
  · exact ⟨_, by simp only [setPhase]; exact get_set_self hth, by rw [h1]; simp [Phase.rank]⟩
  · exact absurd h1 hp
  · exact absurd h1 hp

/-- **Inside `Close`'s locking somebody helpful can always move**: the thread itself, or — while it waits for a
lock — a reader of that lock, whose step reduces the work `Phi` the readers have left; when `Phi` is zero the lock
has no readers and the thread itself moves. -/
theorem close_helpful {ls : LSys} {w : Nat} {th : LThread} (hr : LReachable ls) (huum : ls.unrefUsesMu = false)
    (hth : ls.tl[w]? = some th) (hp : th.phase ≠ .idle) :
    (∃ ls', lstepThread ls w = some ls') ∨
    (th.phase = .annMu ∧ ∃ t ls', t ≠ w ∧ lstepThread ls t = some ls' ∧ Phi .mu ls' < Phi .mu ls) ∨
    (th.phase = .annUn ∧ ∃ t ls', t ≠ w ∧ lstepThread ls t = some ls' ∧ Phi .un ls' < Phi .un ls) := by
  have hI := linv_reachable hr huum
  have hlt := (List.getElem?_eq_some_iff.mp hth).1
  rw [hI.len] at hlt
  have hT : ls.base.threads[w]? = some ls.base.threads[w] := List.getElem?_eq_getElem hlt
  generalize ls.base.threads[w] = T at hT
  have hmw := hI.k5a w th hth hp
  have hk3 := hI.k3 w th T hth hT hp
  -- a reader is another thread
  have hother : ∀ {t : Nat} {th2 : LThread} {l : LockId}, ls.tl[t]? = some th2 → l ∈ th2.held → t ≠ w := by
    intro t th2 l h1 h2 heq
    subst heq; rw [hth] at h1; cases h1; rw [hk3.1] at h2; cases h2
  cases hph : th.phase with
  | idle => exact absurd hph hp
  | relUn => left; unfold lstepThread; simp only [hth, hT, hph]; exact ⟨_, rfl⟩
  | relMu => left; unfold lstepThread; simp only [hth, hT, hph]; exact ⟨_, rfl⟩
  | hasBoth =>
    left
    obtain ⟨f, hTf⟩ := hk3.2 (by rw [hph]; rfl)
    have hr0 : ls.base.sh.rlock = 0 := by
      rw [hI.k7, hI.k5e w th hth (by rw [hph]; rfl), hI.k5f w th hth (by rw [hph]; rfl)]
    obtain ⟨ls', hb'⟩ := en_body (th := th) hth (hTf ▸ hT) hr0
    exact ⟨ls', by unfold lstepThread; simp only [hth, hT, hph]; exact hb'⟩
  | hasMu =>
    left
    have hunw : ls.un.writer = none := by
      cases hw : ls.un.writer with
      | none => rfl
      | some t' =>
        exfalso
        obtain ⟨th', h1, h2⟩ := hI.k5d t' hw
        have h3 := hI.k5a t' th' h1 (phase_ne_of rfl h2)
        rw [hmw] at h3; injection h3 with h3; subst h3
        rw [hth] at h1; cases h1; rw [hph] at h2; cases h2
    unfold lstepThread
    simp only [hth, hT, hph, huum, hunw, Bool.false_eq_true, if_false, if_true]; exact ⟨_, rfl⟩
  | annUn =>
    by_cases h0 : ls.un.readers = 0
    · left; unfold lstepThread; simp only [hth, hT, hph, h0, if_true]; exact ⟨_, rfl⟩
    · right; right
      refine ⟨rfl, ?_⟩
      obtain ⟨t2, th2, hth2, hl2⟩ := cnt_pos (l := .un) (tl := ls.tl) (by rw [← hI.k2u]; omega)
      have hunw : (ls.lock .un).writer ≠ none := by
        simp only [LSys.lock]; rw [hI.k5c w th hth (by rw [hph]; rfl)]; simp
      obtain ⟨ls', h1, h2⟩ := phi_holder_dec hr huum hunw hth2 hl2 (Or.inr hl2)
      exact ⟨t2, ls', hother hth2 hl2, h1, h2⟩
  | annMu =>
    by_cases h0 : ls.mu.readers = 0
    · left; unfold lstepThread; simp only [hth, hT, hph, h0, if_true]; exact ⟨_, rfl⟩
    · right; left
      refine ⟨rfl, ?_⟩
      obtain ⟨t2, th2, hth2, hl2⟩ := cnt_pos (l := .mu) (tl := ls.tl) (by rw [← hI.k2m]; omega)
      have hmuw : (ls.lock .mu).writer ≠ none := by simp only [LSys.lock]; rw [hmw]; simp
      have hunw : ls.un.writer = none := by
        cases hw : ls.un.writer with
        | none => rfl
        | some t' =>
          exfalso
          obtain ⟨th', h1, h2⟩ := hI.k5d t' hw
          have h3 := hI.k5a t' th' h1 (phase_ne_of rfl h2)
          rw [hmw] at h3; injection h3 with h3; subst h3
          rw [hth] at h1; cases h1; rw [hph] at h2; cases h2
      obtain ⟨ls', h1, h2⟩ := phi_holder_dec hr huum hmuw hth2 hl2 (Or.inl hunw)
      exact ⟨t2, ls', hother hth2 hl2, h1, h2⟩

/-- **Nothing another thread does undoes that progress**: it leaves the thread's phase alone, and while the thread
waits for a lock the work `Phi` of that lock's readers does not grow. -/
theorem close_stable {ls ls' : LSys} {a : Act} {w : Nat} {th : LThread} (hr : LReachable ls)
    (huum : ls.unrefUsesMu = false) (hth : ls.tl[w]? = some th) (hp : th.phase ≠ .idle)
    (hs : lstep ls a = some ls') (ha : a ≠ .step w) :
    ls'.tl[w]? = some th ∧ Phi .mu ls' ≤ Phi .mu ls ∧ (unPhase th.phase = true → Phi .un ls' ≤ Phi .un ls) := by
  have hI := linv_reachable hr huum
  have hmw : ls.mu.writer ≠ none := by rw [hI.k5a w th hth hp]; simp
  refine ⟨by rw [tl_other hs ha]; exact hth, phi_noninc hr huum hmw (by simpa [LSys.lock] using hmw) hs, ?_⟩
  intro hun
  exact phi_noninc hr huum hmw (by simp only [LSys.lock]; rw [hI.k5c w th hth hun]; simp) hs

end GoLevel.CacheL
