import GoLevel.Model.BlockIter
import GoLevel.Proofs.Block
/-!
# What the `blockIter` proofs use of a block (`Layout`), and that `Block.build` output has it

`Layout b kvs off R rs`: entry `j` of `kvs` sits at offset `off j` of the block `b`, `block.entry` reads it back
with a shared-prefix length that is `0` at the restart points and otherwise refers to the previous key; the
restart array has `R` slots, slot `r` points at entry `rs r` (strictly increasing, `rs 0 = 0`).  Nothing in the
iterator proofs depends on the restart points being evenly spaced.
-/
namespace GoLevel.C13
open GoLevel GoLevel.TableAux BlockWriter

/-- key / value of entry `j` -/
def kAt (kvs : List KV) (j : Nat) : Bytes := (kvs.getD j ([], [])).1
def vAt (kvs : List KV) (j : Nat) : Bytes := (kvs.getD j ([], [])).2

theorem getElem?_kv {kvs : List KV} {j : Nat} (h : j < kvs.length) : kvs[j]? = some (kAt kvs j, vAt kvs j) := by
  simp [kAt, vAt, List.getD, List.getElem?_eq_getElem h]

/-- entry `j` is the target of a restart slot -/
def IsRestart (R : Nat) (rs : Nat → Nat) (j : Nat) : Prop := ∃ r, r < R ∧ rs r = j

structure Layout (b : BlockR) (kvs : List KV) (off : Nat → Nat) (R : Nat) (rs : Nat → Nat) : Prop where
  off0 : off 0 = 0
  offN : off kvs.length = b.restartsOffset
  mono : ∀ j, j < kvs.length → off j < off (j + 1)
  entry : ∀ j, j < kvs.length → ∃ sh,
      b.entryAt (off j) = .ok sh ((kAt kvs j).drop sh) (vAt kvs j) (off (j + 1) - off j) ∧
      sh ≤ (kAt kvs j).length ∧ (IsRestart R rs j → sh = 0) ∧
      (0 < j → sh ≤ (kAt kvs (j - 1)).length ∧ (kAt kvs (j - 1)).take sh = (kAt kvs j).take sh)
  value : ∀ j, j < kvs.length → (vAt kvs j).length ≤ off (j + 1) ∧
      (b.data.drop (off (j + 1) - (vAt kvs j).length)).take (vAt kvs j).length = vAt kvs j
  rlen : b.restartsLen = R
  rpos : 0 < R
  rs0 : rs 0 = 0
  rmono : ∀ r, r + 1 < R → rs r < rs (r + 1)
  rlt : ∀ r, r < R → kvs ≠ [] → rs r < kvs.length
  rE : kvs = [] → R = 1
  roff : ∀ r, r < R → b.restartOffset r = off (rs r)
  rkey : ∀ r, r < R → kvs ≠ [] → b.restartKey r = some (kAt kvs (rs r))
  rkeyE : kvs = [] → (b.restartKey 0).isSome
  rcount : b.restartOffset R = R

namespace Layout
variable {b : BlockR} {kvs : List KV} {off : Nat → Nat} {R : Nat} {rs : Nat → Nat}

theorem off_le (L : Layout b kvs off R rs) : ∀ {i j}, i ≤ j → j ≤ kvs.length → off i ≤ off j := by
  intro i j hij hj
  induction j with
  | zero => have : i = 0 := by omega
            subst this; exact Nat.le_refl _
  | succ j ih =>
    by_cases h : i = j + 1
    · subst h; exact Nat.le_refl _
    · have := ih (by omega) (by omega)
      have := L.mono j (by omega)
      omega

theorem off_lt (L : Layout b kvs off R rs) {i j : Nat} (hij : i < j) (hj : j ≤ kvs.length) : off i < off j := by
  have h1 := L.mono i (by omega)
  have h2 := L.off_le (i := i + 1) (j := j) (by omega) hj
  omega

theorem off_inj (L : Layout b kvs off R rs) {i j : Nat} (hi : i ≤ kvs.length) (hj : j ≤ kvs.length)
    (h : off i = off j) : i = j := by
  rcases Nat.lt_trichotomy i j with hlt | heq | hgt
  · have := L.off_lt hlt hj; omega
  · exact heq
  · have := L.off_lt hgt hi; omega

theorem off_lt_iff (L : Layout b kvs off R rs) {i j : Nat} (hi : i ≤ kvs.length) (hj : j ≤ kvs.length) :
    off i < off j ↔ i < j := by
  constructor
  · intro h
    rcases Nat.lt_or_ge i j with hlt | hge
    · exact hlt
    · have := L.off_le hge hi; omega
  · intro h; exact L.off_lt h hj

theorem rs_lt (L : Layout b kvs off R rs) : ∀ {p q}, p < q → q < R → rs p < rs q := by
  intro p q hpq hq
  induction q with
  | zero => omega
  | succ q ih =>
    have h1 := L.rmono q (by omega)
    by_cases h : p = q
    · subst h; exact h1
    · have := ih (by omega) (by omega); omega

theorem rs_le (L : Layout b kvs off R rs) {p q : Nat} (hpq : p ≤ q) (hq : q < R) : rs p ≤ rs q := by
  rcases Nat.lt_or_ge p q with h | h
  · exact Nat.le_of_lt (L.rs_lt h hq)
  · have : p = q := by omega
    subst this; exact Nat.le_refl _

theorem rs_le_len (L : Layout b kvs off R rs) {r : Nat} (hr : r < R) : rs r ≤ kvs.length := by
  by_cases h : kvs = []
  · have h1 := L.rE h
    have : r = 0 := by omega
    subst this
    rw [L.rs0]; exact Nat.zero_le _
  · exact Nat.le_of_lt (L.rlt r hr h)

theorem le_off (L : Layout b kvs off R rs) : ∀ {j}, j ≤ kvs.length → j ≤ off j := by
  intro j
  induction j with
  | zero => intro _; exact Nat.zero_le _
  | succ j ih =>
    intro hj
    have := ih (by omega)
    have := L.mono j (by omega)
    omega

/-- `restartsOffset + 1` passes are enough for every loop over entries -/
theorem fuel_ok (L : Layout b kvs off R rs) {j : Nat} (hj : j ≤ kvs.length) : j < b.restartsOffset + 1 := by
  have h1 := L.le_off hj
  have h2 := L.off_le hj (Nat.le_refl _)
  have h3 := L.offN
  omega

end Layout
end GoLevel.C13
