import GoLevel.Proofs.DurableRead
/-!
`DiskOK` is preserved by the storage operations the protocol performs (frame lemmas), and by a crash.
-/
namespace GoLevel.Dur

theorem liveGrps_congr {d d' : Disk} {v : MView} (h : ∀ t ∈ v.live, lookup d'.tables t = lookup d.tables t) :
    liveGrps d' v = liveGrps d v := by
  unfold liveGrps
  have : ∀ l : List Nat, (∀ t ∈ l, lookup d'.tables t = lookup d.tables t) →
      l.flatMap (tableGrpsOf d') = l.flatMap (tableGrpsOf d) := by
    intro l
    induction l with
    | nil => intro _; rfl
    | cons t ts ih =>
      intro hl
      simp only [List.flatMap_cons, tableGrpsOf, hl t List.mem_cons_self]
      congr 1
      exact ih (fun x hx => hl x (List.mem_cons_of_mem _ hx))
  exact this _ h

/-- a view stays good when the relevant journals and the live tables are as before, fewer groups must
    survive and more are issued -/
theorem ViewOK.of_same {d d' : Disk} {must must' issued issued' : List Grp} {v : MView}
    (h : ViewOK d must issued v) (hj : relJournals d' v.jn = relJournals d v.jn)
    (ht : ∀ t ∈ v.live, lookup d'.tables t = lookup d.tables t)
    (hm : ∀ g ∈ must', g ∈ must) (hi : ∀ g ∈ issued, g ∈ issued') : ViewOK d' must' issued' v := by
  have hl := liveGrps_congr (d := d) (d' := d') (v := v) ht
  constructor
  · intro t htl; rw [ht t htl]; exact h.tables t htl
  · intro g hg; rw [hl] at hg
    obtain ⟨a, b, c⟩ := h.tseq g hg
    exact ⟨a, hi g b, c⟩
  · intro g hg g' hg'; rw [hl] at hg hg'; exact h.tdisj g hg g' hg'
  · intro p hp g hg; rw [hj] at hp
    obtain ⟨a, b⟩ := h.jseq p hp g hg
    exact ⟨a.imp id (fun x y => x (hm g y)), hi g b⟩
  · intro g hg p hp g' hg'; rw [hl] at hg; rw [hj] at hp; exact h.tj g hg p hp g' hg'
  · intro g hg; rw [hl, hj]; exact h.cover g (hm g hg)
  · exact h.jnf

theorem DiskOK.mono {cfg : Cfg} {d : Disk} {must must' issued issued' : List Grp} (h : DiskOK cfg d must issued)
    (hm : ∀ g ∈ must', g ∈ must) (hi : ∀ g ∈ issued, g ∈ issued') : DiskOK cfg d must' issued' := by
  obtain ⟨a, b, c, hr⟩ := h
  refine ⟨a, b, c, ?_⟩
  rw [holds_iff] at hr ⊢
  obtain ⟨mf, hmf, hr⟩ := hr
  refine ⟨mf, hmf, ?_⟩
  rw [holds_iff] at hr ⊢
  obtain ⟨v0, hv0, hrange, hasc, hord⟩ := hr
  refine ⟨v0, hv0, ?_, hasc, hord⟩
  intro k hk
  have := hrange k hk
  rw [holds_iff] at this ⊢
  obtain ⟨v, hv, hok, hmono⟩ := this
  exact ⟨v, hv, hok.of_same rfl (fun _ _ => rfl) hm hi, hmono⟩

/-! ## unpacking and repacking the range -/

/-- `DiskOK` with the existentials opened -/
structure DiskOK.Parts (cfg : Cfg) (d : Disk) (must issued : List Grp) (mf : LogFile MRec) (v0 : MView) : Prop where
  cur : curManifest d = some mf
  hv0 : viewAt cfg mf 0 = some v0
  views : ∀ k ≤ mf.unsynced.length, ∃ v, viewAt cfg mf k = some v ∧ ViewOK d must issued v ∧ v0.jn ≤ v.jn
  jasc : ∀ p ∈ relJournals d v0.jn, AscFrom 0 p.2.all
  jord : ∀ p ∈ relJournals d v0.jn, ∀ q ∈ relJournals d v0.jn, p.1 < q.1 →
    ∀ g ∈ p.2.all, ∀ h ∈ q.2.all, g.fin ≤ h.seq

theorem DiskOK.parts {cfg : Cfg} {d : Disk} {must issued : List Grp} (h : DiskOK cfg d must issued) :
    ∃ mf v0, DiskOK.Parts cfg d must issued mf v0 := by
  have hr := h.range
  rw [holds_iff] at hr
  obtain ⟨mf, hmf, hr⟩ := hr
  rw [holds_iff] at hr
  obtain ⟨v0, hv0, hrange, hasc, hord⟩ := hr
  refine ⟨mf, v0, hmf, hv0, ?_, hasc, hord⟩
  intro k hk
  have := hrange k hk
  rw [holds_iff] at this
  exact this

theorem DiskOK.of_parts {cfg : Cfg} {d : Disk} {must issued : List Grp} {mf : LogFile MRec} {v0 : MView}
    (hs : d.journals.Pairwise (fun p q => p.1 < q.1)) (ht : d.tables.Pairwise (fun p q => p.1 ≠ q.1))
    (hm : d.manifests.Pairwise (fun p q => p.1 ≠ q.1)) (h : DiskOK.Parts cfg d must issued mf v0) :
    DiskOK cfg d must issued := by
  refine ⟨hs, ht, hm, ?_⟩
  rw [holds_iff]
  refine ⟨mf, h.cur, ?_⟩
  rw [holds_iff]
  refine ⟨v0, h.hv0, ?_, h.jasc, h.jord⟩
  intro k hk
  rw [holds_iff]
  exact h.views k hk

/-! ## crash -/

theorem lookup_map_snd {α : Type} (m : Files α) (F : Nat → α → α) (n : Nat) :
    lookup (m.map fun p => (p.1, F p.1 p.2)) n = (lookup m n).map (F n) := by
  induction m with
  | nil => rfl
  | cons p m ih =>
    rw [List.map_cons, lookup_cons, lookup_cons, ih]
    by_cases hp : p.1 = n
    · subst hp; simp
    · simp [hp]

theorem crashLog_all {ρ : Type} (k : Nat) (f : LogFile ρ) :
    (crashLog k f).all = f.synced ++ f.unsynced.take k ∧ (crashLog k f).synced = f.synced ++ f.unsynced.take k ∧
    f.all = (crashLog k f).all ++ f.unsynced.drop k := by
  simp [crashLog, LogFile.all, List.append_assoc]

theorem replayM_snoc (cfg : Cfg) (l : List MRec) (r : MRec) :
    replayM cfg (l ++ [r]) = (replayM cfg l).step cfg r := by
  simp [replayM, List.foldl_append]

/-- the view of a crashed manifest is one of the admissible views -/
theorem crashManifest_view (cfg : Cfg) (hc : cfg.failedRecordLeavesNoTrace = true) (k : Nat) (torn : Bool)
    (mf : LogFile MRec) :
    (crashManifest k torn mf).unsynced = [] ∧
    viewAt cfg (crashManifest k torn mf) 0 = viewAt cfg mf (min k mf.unsynced.length) := by
  have hmin : mf.unsynced.take (min k mf.unsynced.length) = mf.unsynced.take k := by
    rw [List.take_eq_take_iff]; simp
  unfold crashManifest
  cases torn with
  | false =>
    simp only [crashLog, viewAt, List.take_zero, List.append_nil, hmin, and_self]
  | true =>
    cases hd : mf.unsynced.drop k with
    | nil => simp only [crashLog, viewAt, List.take_zero, List.append_nil, hmin, and_self]
    | cons r rs =>
      simp only [viewAt, List.take_zero, List.append_nil, hmin, true_and]
      rw [replayM_snoc]
      simp [MAcc.step, hc]

theorem crashTable_synced (keep : Bool) (t : TableFile) (h : t.synced = true) : crashTable keep t = t := by
  simp [crashTable, h]

theorem mem_crash_journals {ch : CrashChoice} {d : Disk} {p' : Nat × LogFile Grp} :
    p' ∈ (crashWith ch d).journals ↔ ∃ p ∈ d.journals, p' = (p.1, crashLog (ch.cutJ p.1) p.2) := by
  simp only [crashWith, List.mem_map]
  constructor
  · rintro ⟨⟨n, f⟩, hp, rfl⟩; exact ⟨(n, f), hp, rfl⟩
  · rintro ⟨⟨n, f⟩, hp, rfl⟩; exact ⟨(n, f), hp, rfl⟩

theorem DiskOK.crash {cfg : Cfg} (hc : cfg.failedRecordLeavesNoTrace = true) {d : Disk} {must issued : List Grp}
    (h : DiskOK cfg d must issued) (ch : CrashChoice) : DiskOK cfg (crashWith ch d) must issued := by
  obtain ⟨mf, v0, hp⟩ := h.parts
  have hcur := hp.cur
  unfold curManifest at hcur
  cases hcc : d.current with
  | none => rw [hcc] at hcur; simp at hcur
  | some m =>
    rw [hcc] at hcur
    simp only [Option.bind_some] at hcur
    let mf' := crashManifest (ch.cutM m) (ch.tornM m) mf
    obtain ⟨hu, hview⟩ := crashManifest_view cfg hc (ch.cutM m) (ch.tornM m) mf
    obtain ⟨v, hv, hok, hmono⟩ := hp.views (min (ch.cutM m) mf.unsynced.length) (Nat.min_le_right _ _)
    have hkeys : ∀ {α : Type} (l : Files α) (F : Nat → α → α) (R : Nat → Nat → Prop),
        l.Pairwise (fun p q => R p.1 q.1) → (l.map fun p => (p.1, F p.1 p.2)).Pairwise (fun p q => R p.1 q.1) := by
      intro α l F R hl
      rw [List.pairwise_map]
      exact hl
    have hjs : (crashWith ch d).journals = d.journals.map fun p => (p.1, crashLog (ch.cutJ p.1) p.2) := rfl
    have hts : (crashWith ch d).tables = d.tables.map fun p => (p.1, crashTable (ch.keepT p.1) p.2) := rfl
    have hms : (crashWith ch d).manifests =
        d.manifests.map fun p => (p.1, crashManifest (ch.cutM p.1) (ch.tornM p.1) p.2) := rfl
    -- facts about the crashed journals
    have hrel : ∀ jn, ∀ p' ∈ relJournals (crashWith ch d) jn,
        ∃ p ∈ relJournals d jn, p'.1 = p.1 ∧ p'.2 = crashLog (ch.cutJ p.1) p.2 := by
      intro jn p' hp'
      rw [mem_relJournals] at hp'
      obtain ⟨q, hq, rfl⟩ := mem_crash_journals.1 hp'.1
      exact ⟨q, mem_relJournals.2 ⟨hq, hp'.2⟩, rfl, rfl⟩
    have hrel' : ∀ jn, ∀ p ∈ relJournals d jn, (p.1, crashLog (ch.cutJ p.1) p.2) ∈ relJournals (crashWith ch d) jn := by
      intro jn p hp
      rw [mem_relJournals] at hp ⊢
      exact ⟨mem_crash_journals.2 ⟨p, hp.1, rfl⟩, hp.2⟩
    have hsub : ∀ (n : Nat) (f : LogFile Grp) g, g ∈ (crashLog (ch.cutJ n) f).all → g ∈ f.all := by
      intro n f g hg
      rw [(crashLog_all (ch.cutJ n) f).2.2]
      exact List.mem_append_left _ hg
    -- the live tables are untouched
    have htab : ∀ t ∈ v.live, lookup (crashWith ch d).tables t = lookup d.tables t := by
      intro t ht
      rw [hts, lookup_map_snd d.tables (fun n t => crashTable (ch.keepT n) t) t]
      have := (hok.tables t ht).2
      rw [holds_iff] at this
      obtain ⟨tf, e, hsy, _⟩ := this
      rw [e]
      simp [crashTable_synced _ tf hsy]
    have hl := liveGrps_congr (d := d) (d' := crashWith ch d) (v := v) htab
    apply DiskOK.of_parts (mf := mf') (v0 := v)
    · rw [hjs]; exact hkeys _ (fun n f => crashLog (ch.cutJ n) f) _ h.jsorted
    · rw [hts]; exact hkeys _ (fun n t => crashTable (ch.keepT n) t) _ h.tnodup
    · rw [hms]; exact hkeys _ (fun n f => crashManifest (ch.cutM n) (ch.tornM n) f) _ h.mnodup
    · constructor
      · show curManifest (crashWith ch d) = some mf'
        unfold curManifest
        show (d.current.bind (lookup (crashWith ch d).manifests)) = _
        rw [hcc, Option.bind_some, hms,
          lookup_map_snd d.manifests (fun n f => crashManifest (ch.cutM n) (ch.tornM n) f) m, hcur]
        rfl
      · rw [hview, hv]
      · intro k hk
        have hk0 : k = 0 := by
          have : mf'.unsynced = [] := hu
          rw [this] at hk
          simpa using hk
        subst hk0
        refine ⟨v, by rw [hview, hv], ?_, Nat.le_refl _⟩
        constructor
        · intro t ht; rw [htab t ht]; exact hok.tables t ht
        · intro g hg; rw [hl] at hg; exact hok.tseq g hg
        · intro g hg g' hg'; rw [hl] at hg hg'; exact hok.tdisj g hg g' hg'
        · intro p' hp' g hg
          obtain ⟨p, hp, _, e2⟩ := hrel _ p' hp'
          rw [e2] at hg
          exact hok.jseq p hp g (hsub _ _ g hg)
        · intro g hg p' hp' g' hg'
          obtain ⟨p, hp, _, e2⟩ := hrel _ p' hp'
          rw [e2] at hg'; rw [hl] at hg
          exact hok.tj g hg p hp g' (hsub _ _ g' hg')
        · intro g hg
          rw [hl]
          rcases hok.cover g hg with h1 | ⟨p, hp, hgp⟩
          · exact Or.inl h1
          · refine Or.inr ⟨_, hrel' _ p hp, ?_⟩
            rw [(crashLog_all _ _).2.1]
            exact List.mem_append_left _ hgp
        · exact hok.jnf
      · intro p' hp'
        obtain ⟨p, hpr, _, e2⟩ := hrel _ p' hp'
        rw [e2]
        have := hp.jasc p (relJournals_mono hmono hpr)
        rw [(crashLog_all (ch.cutJ p.1) p.2).2.2] at this
        exact this.of_append_left
      · intro p' hp' q' hq' hlt g hg g' hg'
        obtain ⟨p, hp1, e1, e2⟩ := hrel _ p' hp'
        obtain ⟨q, hq1, f1, f2⟩ := hrel _ q' hq'
        rw [e2] at hg; rw [f2] at hg'
        exact hp.jord p (relJournals_mono hmono hp1) q (relJournals_mono hmono hq1) (by omega) g (hsub _ _ g hg)
          g' (hsub _ _ g' hg')

end GoLevel.Dur
