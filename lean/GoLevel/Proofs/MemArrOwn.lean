import GoLevel.Proofs.MemArrRead
/-! Which pointer slots of `nodeData` belong to whom (head / live nodes), relinking one chain, and the tower heights of
the ideal list after `Put`/`Delete` — the shared part of the `Put` and `Delete` simulations (C14). -/
set_option linter.unusedSectionVars false
set_option linter.unusedSimpArgs false
set_option linter.unusedVariables false
namespace GoLevel.MemArr
open GoLevel.Gen (nKV nKey nVal nHeight nNext tMaxHeight)
open GoLevel.MemDB (Node LawfulCmp Sorted pred below ins)

variable {cmp : Cmp}

/-! ## relinking one chain -/

/-- linking a new node `node` (key `key`) behind the last node `p` of `tw`: `p`'s pointer now goes to `node`, `node`'s
pointer is `p`'s old one, no other pointer of the level changes -/
theorem chain_insert {nd nd' : Array Nat} {ix ix' : Bytes → Nat} {i node : Nat} {key : Bytes} {dw : List Bytes} :
    ∀ (tw : List Bytes) (frm : Nat), Chain nd ix i 0 frm (tw ++ dw) →
      (∀ k ∈ tw ++ dw, ix' k = ix k) → ix' key = node →
      nd'[(tw.map ix).getLastD frm + nNext + i]? = some node →
      nd'[node + nNext + i]? = nd[(tw.map ix).getLastD frm + nNext + i]? →
      (∀ z, z ∈ frm :: (tw ++ dw).map ix → z ≠ (tw.map ix).getLastD frm →
        nd'[z + nNext + i]? = nd[z + nNext + i]?) →
      (frm :: (tw ++ dw).map ix).Nodup →
      Chain nd' ix' i 0 frm (tw ++ key :: dw) := by
  intro tw
  induction tw with
  | nil =>
    intro frm hc hix hkey hW hP hU hN
    simp only [List.map_nil, List.getLastD_nil, List.nil_append] at *
    refine ⟨by rw [hkey]; exact hW, ?_⟩
    rw [hkey]
    have hN' := List.nodup_cons.1 hN
    cases dw with
    | nil => exact hP.trans hc
    | cons d0 ds =>
      refine ⟨by rw [hP, hix d0 (by simp)]; exact hc.1, ?_⟩
      rw [hix d0 (by simp)]
      have hne : ∀ k ∈ d0 :: ds, ix k ≠ frm := by
        intro k hk e
        exact hN'.1 (e ▸ List.mem_map_of_mem hk)
      refine hc.2.frame (hU _ (by simp) (hne d0 (by simp))) ?_
      intro k hk
      exact ⟨hix k (by simp [hk]), hU _ (List.mem_cons_of_mem _ (List.mem_map_of_mem (List.mem_cons_of_mem _ hk))) (hne k (by simp [hk]))⟩
  | cons t ts ih =>
    intro frm hc hix hkey hW hP hU hN
    simp only [List.map_cons, List.getLastD_cons, List.cons_append] at *
    have hN' := List.nodup_cons.1 hN
    have hlast : (ts.map ix).getLastD (ix t) ∈ ix t :: (ts ++ dw).map ix := by
      rw [List.getLastD_eq_getLast?]
      cases hg : (ts.map ix).getLast? with
      | none => simp
      | some w =>
        have := List.mem_of_getLast? hg
        simp only [Option.getD_some, List.mem_cons, List.map_append, List.mem_append]
        exact .inr (.inl this)
    have hfne : frm ≠ (ts.map ix).getLastD (ix t) := fun e => hN'.1 (e ▸ hlast)
    refine ⟨by rw [hU frm (by simp) hfne, hix t (by simp)]; exact hc.1, ?_⟩
    rw [hix t (by simp)]
    exact ih (ix t) hc.2 (fun k hk => hix k (by simp [hk])) hkey hW hP
      (fun z hz hne => hU z (List.mem_cons_of_mem _ hz) hne) hN'.2

/-- unlinking the node that carries `key`: the pointer of the last node `p` of `pre` takes over the deleted node's
pointer, no other pointer of the level changes -/
theorem chain_remove {nd nd' : Array Nat} {ix : Bytes → Nat} {i : Nat} {key : Bytes} {post : List Bytes} :
    ∀ (pre : List Bytes) (frm : Nat), Chain nd ix i 0 frm (pre ++ key :: post) →
      nd'[(pre.map ix).getLastD frm + nNext + i]? = nd[ix key + nNext + i]? →
      (∀ z, z ∈ frm :: (pre ++ post).map ix → z ≠ (pre.map ix).getLastD frm →
        nd'[z + nNext + i]? = nd[z + nNext + i]?) →
      (frm :: (pre ++ post).map ix).Nodup →
      Chain nd' ix i 0 frm (pre ++ post) := by
  intro pre
  induction pre with
  | nil =>
    intro frm hc hW hU hN
    simp only [List.map_nil, List.getLastD_nil, List.nil_append] at *
    have hN' := List.nodup_cons.1 hN
    cases post with
    | nil => exact hW.trans hc.2
    | cons q qs =>
      refine ⟨hW.trans hc.2.1, ?_⟩
      have hne : ∀ k ∈ q :: qs, ix k ≠ frm := by
        intro k hk e
        exact hN'.1 (e ▸ List.mem_map_of_mem hk)
      refine hc.2.2.frame (hU _ (by simp) (hne q (by simp))) ?_
      intro k hk
      exact ⟨rfl, hU _ (List.mem_cons_of_mem _ (List.mem_map_of_mem (List.mem_cons_of_mem _ hk))) (hne k (by simp [hk]))⟩
  | cons t ts ih =>
    intro frm hc hW hU hN
    simp only [List.map_cons, List.getLastD_cons, List.cons_append] at *
    have hN' := List.nodup_cons.1 hN
    have hlast : (ts.map ix).getLastD (ix t) ∈ ix t :: (ts ++ post).map ix := by
      rw [List.getLastD_eq_getLast?]
      cases hg : (ts.map ix).getLast? with
      | none => simp
      | some w =>
        have := List.mem_of_getLast? hg
        simp only [Option.getD_some, List.mem_cons, List.map_append, List.mem_append]
        exact .inr (.inl this)
    have hfne : frm ≠ (ts.map ix).getLastD (ix t) := fun e => hN'.1 (e ▸ hlast)
    refine ⟨by rw [hU frm (by simp) hfne]; exact hc.1, ?_⟩
    exact ih (ix t) hc.2 hW (fun z hz hne => hU z (List.mem_cons_of_mem _ hz) hne) hN'.2

theorem getLastD_map_nix (ix : Bytes → Nat) (l : List Bytes) : (l.map ix).getLastD 0 = nix ix l.getLast? := by
  rw [List.getLastD_eq_getLast?, List.getLast?_map]
  cases l.getLast? <;> rfl

/-! ## owners of pointer slots -/

/-- `z` is the index of the head (`H = tMaxHeight` pointers) or of a live node (`H` = its tower height) -/
def Owner (d : MemDB.DB) (ix : Bytes → Nat) (z H : Nat) : Prop :=
  (z = 0 ∧ H = tMaxHeight) ∨ ∃ k ∈ d.level0, z = ix k ∧ H = d.height k

section
variable {a : DB} {d : MemDB.DB} {ix : Bytes → Nat}

/-- distinct pointer slots have distinct addresses -/
theorem Rep.slot_inj (r : Rep cmp a d ix) {z H z' H' i j : Nat} (o : Owner d ix z H) (o' : Owner d ix z' H')
    (hi : i < H) (hj : j < H') (e : z + i = z' + j) : z = z' ∧ i = j := by
  have e4 := nNext_eq
  rcases o with ⟨rfl, rfl⟩ | ⟨k, hk, rfl, rfl⟩ <;> rcases o' with ⟨rfl, rfl⟩ | ⟨k', hk', rfl, rfl⟩
  · omega
  · have := (r.node k' hk').lo; omega
  · have := (r.node k hk).lo; omega
  · by_cases hkk : k = k'
    · subst hkk; omega
    · have := r.sep k hk k' hk' hkk; omega

/-- a field of a live node is not a pointer slot -/
theorem Rep.field_ne_slot (r : Rep cmp a d ix) {k : Bytes} (hk : k ∈ d.level0) {f : Nat} (hf : f < nNext)
    {z' H' j : Nat} (o' : Owner d ix z' H') (hj : j < H') : ix k + f ≠ z' + nNext + j := by
  have e4 := nNext_eq
  rcases o' with ⟨rfl, rfl⟩ | ⟨k', hk', rfl, rfl⟩
  · have := (r.node k hk).lo; omega
  · by_cases hkk : k = k'
    · subst hkk; omega
    · have := r.sep k hk k' hk' hkk; omega

theorem Rep.owner_lt (r : Rep cmp a d ix) {z H i : Nat} (o : Owner d ix z H) (hi : i < H) :
    z + nNext + i < a.nodeData.size := by
  rcases o with ⟨rfl, rfl⟩ | ⟨k, hk, rfl, rfl⟩
  · have := r.fuel; omega
  · have := (r.node k hk).hi; omega

/-- the head slot above the list's height is below the first node -/
theorem Rep.top_ne_slot (r : Rep cmp a d ix) {h : Nat} (hh : h < tMaxHeight) {z' H' j : Nat}
    (o' : Owner d ix z' H') (hj : j < H') (hne : j ≠ h) : nNext + h ≠ z' + nNext + j := by
  rcases o' with ⟨rfl, rfl⟩ | ⟨k', hk', rfl, rfl⟩
  · omega
  · have := (r.node k' hk').lo; omega

/-- a node that lies on level `i` (or the head) owns a level-`i` slot -/
theorem Rep.owner_of_entry (r : Rep cmp a d ix) {i : Nat} (hi : i < d.levels.length) {e : Node}
    (he : MemDB.EntryOn d.levels[i] e) : ∃ H, Owner d ix (nix ix e) H ∧ i < H := by
  rcases he with rfl | ⟨k, rfl, hk⟩
  · exact ⟨tMaxHeight, .inl ⟨rfl, rfl⟩, by have := r.inv.height; omega⟩
  · exact ⟨d.height k, .inr ⟨k, r.level_sub0 hi k hk, rfl, rfl⟩, r.lt_height hi hk⟩

theorem Rep.ix_inj (r : Rep cmp a d ix) {k k' : Bytes} (hk : k ∈ d.level0) (hk' : k' ∈ d.level0)
    (e : ix k = ix k') : k = k' := by
  by_cases hkk : k = k'
  · exact hkk
  · have := r.sep k hk k' hk' hkk
    have e4 := nNext_eq
    omega

/-- the node indices along a level, head first, are pairwise distinct -/
theorem Rep.level_nodup (hc : LawfulCmp cmp) (r : Rep cmp a d ix) {i : Nat} (hi : i < d.levels.length) :
    (0 :: d.levels[i].map ix).Nodup := by
  have hs : Sorted cmp d.levels[i] := r.inv.sorted _ (List.getElem_mem hi)
  refine List.nodup_cons.2 ⟨?_, ?_⟩
  · intro hm
    obtain ⟨k, hk, e⟩ := List.mem_map.1 hm
    have := (r.node k (r.level_sub0 hi k hk)).lo
    have e4 := nNext_eq
    omega
  · unfold List.Nodup
    rw [List.pairwise_map]
    refine List.Pairwise.imp_of_mem ?_ hs
    intro x y hx hy hlt e
    exact hc.ne_of_lt hlt (r.ix_inj (r.level_sub0 hi x hx) (r.level_sub0 hi y hy) e)

end

/-! ## the search path -/

/-- `prevNode[i]` after `findGE(key, true)`, as a node of the ideal list: the predecessor of `key` on level `i`, the
head above the list's height -/
def pth (cmp : Cmp) (d : MemDB.DB) (key : Bytes) (i : Nat) : Node :=
  ((d.levels.map (pred cmp · key))[i]?).getD none

theorem pth_lt (d : MemDB.DB) (key : Bytes) {i : Nat} (hi : i < d.levels.length) :
    pth cmp d key i = pred cmp d.levels[i] key := by
  simp [pth, hi]

theorem pth_ge (d : MemDB.DB) (key : Bytes) {i : Nat} (hi : d.levels.length ≤ i) : pth cmp d key i = none := by
  simp [pth, hi]

theorem pth_entry (d : MemDB.DB) (key : Bytes) {i : Nat} (hi : i < d.levels.length) :
    MemDB.EntryOn d.levels[i] (pth cmp d key i) := by
  rw [pth_lt d key hi]
  cases h : pred cmp d.levels[i] key with
  | none => exact .inl rfl
  | some q => exact .inr ⟨q, rfl, (MemDB.pred_mem h).1⟩

theorem Rep.pth_owner {a : DB} {d : MemDB.DB} {ix : Bytes → Nat} (r : Rep cmp a d ix) (key : Bytes) {i : Nat}
    (hi : i < tMaxHeight) : ∃ H, Owner d ix (nix ix (pth cmp d key i)) H ∧ i < H := by
  by_cases hl : i < d.levels.length
  · exact r.owner_of_entry hl (pth_entry d key hl)
  · rw [pth_ge d key (by omega)]
    exact ⟨tMaxHeight, .inl ⟨rfl, rfl⟩, hi⟩

/-! ## tower heights -/

/-- the tower height is determined by the levels the key lies on -/
theorem height_unique {L : List (List Bytes)} {k : Bytes}
    (hT : L.Pairwise (fun lo hi => ∀ x ∈ hi, x ∈ lo)) {H : Nat} (hH : H ≤ L.length)
    (hiff : ∀ i (hi : i < L.length), k ∈ L[i] ↔ i < H) : (L.takeWhile (·.contains k)).length = H := by
  have hle : (L.takeWhile (·.contains k)).length ≤ L.length := (List.takeWhile_sublist _).length_le
  rcases Nat.lt_trichotomy (L.takeWhile (·.contains k)).length H with h | h | h
  · have hi : (L.takeWhile (·.contains k)).length < L.length := by omega
    have := lt_height_of_mem_level hT hi ((hiff _ hi).2 h)
    omega
  · exact h
  · have hi : H < L.length := by omega
    have := (hiff _ hi).1 (mem_level_of_lt_height hi h)
    omega

theorem mem_level_iff {a : DB} {d : MemDB.DB} {ix : Bytes → Nat} (r : Rep cmp a d ix) (k : Bytes) {i : Nat}
    (hi : i < d.levels.length) : k ∈ d.levels[i] ↔ i < d.height k :=
  ⟨fun h => r.lt_height hi h, fun h => mem_level_of_lt_height hi h⟩

/-- the levels after `Put` of a new key -/
theorem linkIdeal_getElem? (key : Bytes) : ∀ (h : Nat) (L : List (List Bytes)) (i : Nat),
    (MemDB.linkIdeal cmp key h L)[i]? = if i < h then some (ins cmp key (L[i]?.getD [])) else L[i]? := by
  intro h
  induction h with
  | zero => intro L i; simp [MemDB.linkIdeal]
  | succ h ih =>
    intro L i
    cases L with
    | nil =>
      cases i with
      | zero => simp [MemDB.linkIdeal, MemDB.ins_nil]
      | succ i =>
        simp only [MemDB.linkIdeal, List.getElem?_cons_succ, ih [] i]
        simp
    | cons l ls =>
      cases i with
      | zero => simp [MemDB.linkIdeal]
      | succ i =>
        simp only [MemDB.linkIdeal, List.getElem?_cons_succ, ih ls i]
        simp

theorem linkIdeal_sum (hc : LawfulCmp cmp) (key : Bytes) : ∀ (h : Nat) (L : List (List Bytes)),
    ((MemDB.linkIdeal cmp key h L).map List.length).sum = (L.map List.length).sum + h := by
  intro h
  induction h with
  | zero => intro L; simp [MemDB.linkIdeal]
  | succ h ih =>
    intro L
    cases L with
    | nil => simp only [MemDB.linkIdeal, List.map_cons, List.sum_cons, ih []]; simp; omega
    | cons l ls =>
      simp only [MemDB.linkIdeal, List.map_cons, List.sum_cons, ih ls, MemDB.ins_length hc]
      omega

theorem filter_sum_le (key : Bytes) (L : List (List Bytes)) :
    ((L.map (·.filter (· != key))).map List.length).sum ≤ (L.map List.length).sum := by
  induction L with
  | nil => simp
  | cons l ls ih =>
    simp only [List.map_cons, List.sum_cons]
    have := List.length_filter_le (· != key) l
    omega

end GoLevel.MemArr
