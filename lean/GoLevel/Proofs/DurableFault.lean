import GoLevel.Proofs.DurableView
/-!
C08, the write path under storage faults: every journal `Write`/`Flush`/`Sync` may fail, with or without
having had its effect.  Sub-protocol: the write groups of `DB.writeLocked` on the initial journal (no buffer
rotation, no flush).  With `consumeSeqOnJournalError = true` the journal stays ascending, so a later `Open`
replays every record: nothing acknowledged is lost, nothing is invented, failed groups come back whole or
not at all.
-/
namespace GoLevel.Dur

/-- the actions of the write path (any outcome) -/
def Act.writePath : Act → Bool
  | .wAppend _ _ _ | .wSync _ | .wApply | .wPublish | .wAck => true
  | _ => false

def ReachableW (cfg : Cfg) (sd : St × Disk) : Prop :=
  ∃ as, (∀ a ∈ as, a.writePath = true) ∧ run cfg init as = some sd

def statusOf (s : St) (g : Grp) (st : Status) : Prop := ∃ i ∈ s.issued, i.grp = g ∧ i.status = st

/-- the group the writer has applied but not yet acknowledged -/
def appliedNow : WPc → List Grp
  | .applied g => [g]
  | .published g => [g]
  | _ => []

/-- the invariant of the write path under faults -/
structure WInv (s : St) (d : Disk) (jf : LogFile Grp) : Prop where
  shape : s.phase = .running ∧ s.jcur = 2 ∧ d.current = some 1 ∧ d.manifests = init.2.manifests ∧
    d.tables = [] ∧ d.journals = [(2, jf)]
  asc : AscFrom 0 jf.all
  hi : (∀ x ∈ jf.all, x.fin ≤ s.hi) ∧
    match s.w with
    | .idle | .published _ => s.hi = s.seq + 1
    | .appended g | .synced g | .applied g => g.seq = s.seq + 1 ∧ s.hi = g.fin ∧ g.recs ≠ []
  issued : ∀ x ∈ jf.all, x ∈ issuedGrps s
  /-- the write buffer holds exactly the acknowledged groups and the one just applied -/
  mem : (∀ g ∈ s.mem, g ∈ jf.all ∧ (statusOf s g .acked ∨ g ∈ appliedNow s.w)) ∧
    (∀ g, statusOf s g .acked → g ∈ s.mem) ∧ ∀ g ∈ appliedNow s.w, g ∈ s.mem
  /-- every issued group lies below the high-water mark; the groups of the write buffer are published, except
      the one just applied -/
  fresh : (∀ i ∈ s.issued, i.grp.fin ≤ s.hi ∧ i.grp.recs ≠ []) ∧
    ∀ x ∈ s.mem, x.fin ≤ s.seq + 1 ∨ s.w = .applied x
  /-- acknowledged with `Sync` ⇒ in the synced part -/
  synced : (∀ g, statusOf s g .acked → g.sync = true → g ∈ jf.synced) ∧
    match s.w with
    | .appended g => g ∈ jf.all
    | .synced g | .applied g | .published g => g ∈ jf.all ∧ (g.sync = true → g ∈ jf.synced)
    | .idle => True

theorem winv_init : WInv init.1 init.2 ⟨[], []⟩ := by
  refine ⟨⟨rfl, rfl, rfl, rfl, rfl, rfl⟩, trivial, ⟨(fun x hx => by cases hx), rfl⟩, (fun x hx => by cases hx),
    ⟨(fun g hg => by cases hg), (fun g hg => ?_), (fun g hg => by cases hg)⟩,
    ⟨(fun i hi => by cases hi), (fun x hx => by cases hx)⟩, ⟨(fun g hg => ?_), trivial⟩⟩
  · obtain ⟨i, hi, _⟩ := hg; cases hi
  · obtain ⟨i, hi, _⟩ := hg; cases hi

theorem statusOf_append {s : St} {g x : Grp} {st st' : Status} {w' : WPc} {h' q' : Nat} {ef' : Bool} :
    statusOf { s with w := w', issued := s.issued ++ [⟨g, st⟩], hi := h', seq := q', everFailed := ef' } x st' ↔
      statusOf s x st' ∨ (x = g ∧ st' = st) := by
  unfold statusOf
  simp only [List.mem_append, List.mem_singleton]
  constructor
  · rintro ⟨i, hi | hi, h1, h2⟩
    · exact Or.inl ⟨i, hi, h1, h2⟩
    · subst hi; exact Or.inr ⟨h1.symm, h2.symm⟩
  · rintro (⟨i, hi, h1, h2⟩ | ⟨h1, h2⟩)
    · exact ⟨i, Or.inl hi, h1, h2⟩
    · exact ⟨⟨g, st⟩, Or.inr rfl, h1.symm, h2.symm⟩


theorem statusOf_setStatus {s : St} {g x : Grp} {st st' : Status} {w' : WPc} {h' q' : Nat} {ef' : Bool} :
    statusOf { s with w := w', issued := setStatus g st s.issued, hi := h', seq := q', everFailed := ef' } x st' ↔
      (x = g ∧ st' = st ∧ g ∈ issuedGrps s) ∨ (x ≠ g ∧ statusOf s x st') := by
  unfold statusOf setStatus issuedGrps
  simp only [List.mem_map]
  constructor
  · rintro ⟨i, ⟨i0, hi0, rfl⟩, h1, h2⟩
    by_cases hg : i0.grp = g
    · simp only [hg, if_true] at h1 h2
      exact Or.inl ⟨h1.symm, h2.symm, i0, hi0, hg⟩
    · simp only [hg, if_false] at h1 h2
      exact Or.inr ⟨by rw [← h1]; exact hg, i0, hi0, h1, h2⟩
  · rintro (⟨rfl, rfl, i0, hi0, hg⟩ | ⟨hne, i0, hi0, h1, h2⟩)
    · exact ⟨_, ⟨i0, hi0, rfl⟩, by simp [hg], by simp [hg]⟩
    · have : ¬ i0.grp = g := by rw [h1]; exact hne
      exact ⟨_, ⟨i0, hi0, rfl⟩, by rw [if_neg this]; exact h1, by rw [if_neg this]; exact h2⟩

theorem journals_modify_single (jf : LogFile Grp) (f : LogFile Grp → LogFile Grp) :
    Files.modify [(2, jf)] 2 f = [(2, f jf)] := by simp [Files.modify]

theorem Grp.fin_sub {g : Grp} (h : g.recs ≠ []) : g.fin - 1 + 1 = g.fin := by
  have := Grp.seq_lt_fin h; omega

/-- the write path preserves `WInv` under every outcome of the journal operations -/
theorem winv_step {cfg : Cfg} (hc : cfg.consumeSeqOnJournalError = true) {s : St} {d : Disk} {jf : LogFile Grp}
    (h : WInv s d jf) {a : Act} (ha : a.writePath = true) {s' : St} {d' : Disk}
    (hs : step cfg s d a = some (s', d')) : ∃ jf', WInv s' d' jf' := by
  obtain ⟨⟨hph, hjc, hcur, hman, htab, hjs⟩, hasc, ⟨hhi, hw⟩, hiss, ⟨hm1, hm2, hm3⟩, ⟨hfr, hpub⟩, ⟨hsy, hws⟩⟩ := h
  cases a with
  | wAppend recs sync o =>
    simp only [step, stepWriter] at hs
    split at hs
    · rename_i hg
      obtain ⟨_, hwi, hrecs, _⟩ := hg
      rw [hwi] at hw hws hm1 hm3
      simp only at hw
      have hgfin : (⟨s.seq + 1, recs, sync⟩ : Grp).fin = s.seq + 1 + recs.length := rfl
      have hlen : 0 < recs.length := List.length_pos_iff.2 hrecs
      -- the journal after the (attempted) write
      have hd' : ∀ (jf' : LogFile Grp), (jf' = jf ∨ jf' = jf.append ⟨s.seq + 1, recs, sync⟩) →
          AscFrom 0 jf'.all ∧ (∀ x ∈ jf'.all, x.fin ≤ s.seq + 1 + recs.length) ∧
          (∀ x ∈ jf'.all, x ∈ jf.all ∨ x = ⟨s.seq + 1, recs, sync⟩) ∧ (∀ x ∈ jf.all, x ∈ jf'.all) ∧
          jf'.synced = jf.synced := by
        intro jf' hj
        rcases hj with rfl | rfl
        · exact ⟨hasc, fun x hx => by have := hhi x hx; omega, fun x hx => Or.inl hx, fun x hx => hx, rfl⟩
        · have hall : (jf.append ⟨s.seq + 1, recs, sync⟩).all = jf.all ++ [⟨s.seq + 1, recs, sync⟩] := by
            simp [LogFile.append, LogFile.all, List.append_assoc]
          rw [hall]
          refine ⟨hasc.snoc (Nat.zero_le _) hrecs (fun x hx => by have := hhi x hx; show x.fin ≤ s.seq + 1; omega),
            ?_, ?_, fun x hx => List.mem_append_left _ hx, rfl⟩
          · intro x hx
            rcases List.mem_append.1 hx with h1 | h1
            · have := hhi x h1; omega
            · simp only [List.mem_singleton] at h1; subst h1; rw [hgfin]; exact Nat.le_refl _
          · intro x hx
            rcases List.mem_append.1 hx with h1 | h1
            · exact Or.inl h1
            · exact Or.inr (List.mem_singleton.1 h1)
      have hdisk : ∃ jf', (jf' = jf ∨ jf' = jf.append ⟨s.seq + 1, recs, sync⟩) ∧
          (o = .ok → jf' = jf.append ⟨s.seq + 1, recs, sync⟩) ∧
          d.exec (.writeJ s.jcur ⟨s.seq + 1, recs, sync⟩) o = { d with journals := [(2, jf')] } := by
        cases o with
        | failNoEffect =>
          exact ⟨jf, Or.inl rfl, (fun h => by cases h), by
            show d = _
            rw [← hjs]⟩
        | ok => exact ⟨_, Or.inr rfl, fun _ => rfl, by simp [Disk.exec, Disk.apply, hjs, hjc, journals_modify_single]⟩
        | failEffect =>
          exact ⟨_, Or.inr rfl, (fun h => by cases h), by
            simp [Disk.exec, Disk.apply, hjs, hjc, journals_modify_single]⟩
      obtain ⟨jf', hj, hok, hde⟩ := hdisk
      obtain ⟨a1, a2, a3, a4, a5⟩ := hd' jf' hj
      rw [hde] at hs
      by_cases hf : o.failed = true
      · simp only [hf, if_true, Option.some.injEq, Prod.mk.injEq] at hs
        obtain ⟨rfl, rfl⟩ := hs
        refine ⟨jf', ⟨hph, hjc, hcur, hman, htab, rfl⟩, a1, ⟨?_, ?_⟩, ?_, ⟨?_, ?_, ?_⟩, ?_, ⟨?_, ?_⟩⟩
        · exact fun x hx => a2 x hx
        · rw [hwi]; show s.seq + 1 + recs.length = s.seq + 1 + recs.length - 1 + 1; omega
        · intro x hx
          simp only [issuedGrps, List.map_append, List.mem_append]
          rcases a3 x hx with h1 | h1
          · exact Or.inl (hiss x h1)
          · exact Or.inr (List.mem_singleton.2 h1)
        · intro x hx
          obtain ⟨b1, b2⟩ := hm1 x hx
          refine ⟨a4 x b1, ?_⟩
          rcases b2 with b2 | b2
          · exact Or.inl (statusOf_append.2 (Or.inl b2))
          · cases b2
        · intro x hx
          rcases statusOf_append.1 hx with h1 | ⟨_, h1⟩
          · exact hm2 x h1
          · cases h1
        · rw [hwi]; intro x hx; cases hx
        · refine ⟨fun i hi => ?_, fun x hx => ?_⟩
          · simp only [List.mem_append, List.mem_singleton] at hi
            rcases hi with hi | rfl
            · obtain ⟨c1, c2⟩ := hfr i hi
              exact ⟨(by show i.grp.fin ≤ s.seq + 1 + recs.length; omega), c2⟩
            · exact ⟨Nat.le_refl _, hrecs⟩
          · rcases hpub x hx with h1 | h1
            · left; show x.fin ≤ s.seq + 1 + recs.length - 1 + 1; omega
            · rw [hwi] at h1; cases h1
        · intro x hx hxs
          rw [a5]
          rcases statusOf_append.1 hx with h1 | ⟨_, h1⟩
          · exact hsy x h1 hxs
          · cases h1
        · rw [hwi]; trivial
      · have hf' : o.failed = false := by cases hh : o.failed <;> simp_all
        have hok' : o = .ok := by cases o <;> simp_all [Outcome.failed]
        simp only [hf', Bool.false_eq_true, if_false, Option.some.injEq, Prod.mk.injEq] at hs
        obtain ⟨rfl, rfl⟩ := hs
        have hjf' := hok hok'
        refine ⟨jf', ⟨hph, hjc, hcur, hman, htab, rfl⟩, a1, ⟨?_, ?_⟩, ?_, ⟨?_, ?_, ?_⟩, ?_, ⟨?_, ?_⟩⟩
        · exact fun x hx => a2 x hx
        · exact ⟨rfl, rfl, hrecs⟩
        · intro x hx
          simp only [issuedGrps, List.map_append, List.mem_append]
          rcases a3 x hx with h1 | h1
          · exact Or.inl (hiss x h1)
          · exact Or.inr (List.mem_singleton.2 h1)
        · intro x hx
          obtain ⟨b1, b2⟩ := hm1 x hx
          refine ⟨a4 x b1, ?_⟩
          rcases b2 with b2 | b2
          · exact Or.inl (statusOf_append.2 (Or.inl b2))
          · cases b2
        · intro x hx
          rcases statusOf_append.1 hx with h1 | ⟨_, h1⟩
          · exact hm2 x h1
          · cases h1
        · intro x hx; cases hx
        · refine ⟨fun i hi => ?_, fun x hx => ?_⟩
          · simp only [List.mem_append, List.mem_singleton] at hi
            rcases hi with hi | rfl
            · obtain ⟨c1, c2⟩ := hfr i hi
              exact ⟨(by show i.grp.fin ≤ s.seq + 1 + recs.length; omega), c2⟩
            · exact ⟨Nat.le_refl _, hrecs⟩
          · rcases hpub x hx with h1 | h1
            · exact Or.inl h1
            · rw [hwi] at h1; cases h1
        · intro x hx hxs
          rw [a5]
          rcases statusOf_append.1 hx with h1 | ⟨_, h1⟩
          · exact hsy x h1 hxs
          · cases h1
        · show (⟨s.seq + 1, recs, sync⟩ : Grp) ∈ jf'.all
          rw [hjf']
          simp [LogFile.append, LogFile.all]
    · cases hs
  | wSync o =>
    simp only [step, stepWriter] at hs
    split at hs
    · rename_i g hwi
      rw [hwi] at hw hws hm1 hm3
      simp only at hw hws
      obtain ⟨hgs, hghi, hgr⟩ := hw
      split at hs
      · rename_i hsync
        -- the journal after the (attempted) sync
        have hdisk : ∃ jf', (jf' = jf ∨ jf' = jf.sync) ∧ (o = .ok → jf' = jf.sync) ∧
            d.exec (.sync .journal s.jcur) o = { d with journals := [(2, jf')] } := by
          cases o with
          | failNoEffect => exact ⟨jf, Or.inl rfl, (fun h => by cases h), by show d = _; rw [← hjs]⟩
          | ok => exact ⟨_, Or.inr rfl, fun _ => rfl, by simp [Disk.exec, Disk.apply, hjs, hjc, journals_modify_single]⟩
          | failEffect =>
            exact ⟨_, Or.inr rfl, (fun h => by cases h), by
              simp [Disk.exec, Disk.apply, hjs, hjc, journals_modify_single]⟩
        obtain ⟨jf', hj, hok, hde⟩ := hdisk
        have hall : jf'.all = jf.all ∧ ∀ x ∈ jf.synced, x ∈ jf'.synced := by
          rcases hj with rfl | rfl
          · exact ⟨rfl, fun x hx => hx⟩
          · exact ⟨by simp [LogFile.sync, LogFile.all], fun x hx => by
              simp only [LogFile.sync, LogFile.all]; exact List.mem_append_left _ hx⟩
        rw [hde] at hs
        by_cases hf : o.failed = true
        · simp only [hf, if_true, Option.some.injEq, Prod.mk.injEq] at hs
          obtain ⟨rfl, rfl⟩ := hs
          -- `g` is different from every acknowledged group: it is the newest one
          have hgne : ∀ x, statusOf s x .acked → x ≠ g := by
            intro x hx hxg
            subst hxg
            have := hm2 x hx
            obtain ⟨b1, b2⟩ := hm1 x this
            rcases hpub x this with h3 | h3
            · have := Grp.seq_lt_fin hgr; omega
            · rw [hwi] at h3; cases h3
          refine ⟨jf', ⟨hph, hjc, hcur, hman, htab, rfl⟩, by rw [hall.1]; exact hasc, ⟨?_, ?_⟩, ?_, ⟨?_, ?_, ?_⟩, ?_,
            ⟨?_, trivial⟩⟩
          · rw [hall.1]; exact hhi
          · show s.hi = g.fin - 1 + 1
            rw [Grp.fin_sub hgr]; exact hghi
          · rw [hall.1]
            intro x hx
            simp only [issuedGrps, issuedGrps_setStatus]
            exact hiss x hx
          · intro x hx
            obtain ⟨b1, b2⟩ := hm1 x hx
            refine ⟨by rw [hall.1]; exact b1, ?_⟩
            rcases b2 with b2 | b2
            · exact Or.inl (statusOf_setStatus.2 (Or.inr ⟨hgne x b2, b2⟩))
            · cases b2
          · intro x hx
            rcases statusOf_setStatus.1 hx with ⟨_, h1, _⟩ | ⟨_, h1⟩
            · cases h1
            · exact hm2 x h1
          · intro x hx; cases hx
          · refine ⟨fun i hi => ?_, fun x hx => ?_⟩
            · simp only [setStatus, List.mem_map] at hi
              obtain ⟨i0, hi0, rfl⟩ := hi
              have := hfr i0 hi0
              split <;> exact this
            · rcases hpub x hx with h1 | h1
              · left; show x.fin ≤ g.fin - 1 + 1
                have := Grp.seq_lt_fin hgr; omega
              · rw [hwi] at h1; cases h1
          · intro x hx hxs
            rcases statusOf_setStatus.1 hx with ⟨_, h1, _⟩ | ⟨_, h1⟩
            · cases h1
            · exact hall.2 x (hsy x h1 hxs)
        · have hf' : o.failed = false := by cases hh : o.failed <;> simp_all
          have hok' : o = .ok := by cases o <;> simp_all [Outcome.failed]
          simp only [hf', Bool.false_eq_true, if_false, Option.some.injEq, Prod.mk.injEq] at hs
          obtain ⟨rfl, rfl⟩ := hs
          have hjf' := hok hok'
          refine ⟨jf', ⟨hph, hjc, hcur, hman, htab, rfl⟩, by rw [hall.1]; exact hasc, ⟨by rw [hall.1]; exact hhi, ?_⟩,
            by rw [hall.1]; exact hiss, ⟨?_, hm2, ?_⟩, ⟨hfr, fun x hx => ?_⟩,
            ⟨fun x hx hxs => hall.2 x (hsy x hx hxs), ?_⟩⟩
          · exact ⟨hgs, hghi, hgr⟩
          · intro x hx
            obtain ⟨b1, b2⟩ := hm1 x hx
            exact ⟨by rw [hall.1]; exact b1, b2⟩
          · intro x hx; cases hx
          · rcases hpub x hx with h1 | h1
            · exact Or.inl h1
            · rw [hwi] at h1; cases h1
          · show g ∈ jf'.all ∧ (g.sync = true → g ∈ jf'.synced)
            rw [hall.1]
            refine ⟨hws, fun _ => ?_⟩
            rw [hjf']
            simp only [LogFile.sync]
            exact hws
      · cases hs
    · cases hs
  | wApply =>
    have key : ∀ g, (s.w = .appended g ∨ s.w = .synced g) →
        WInv { s with w := .applied g, mem := s.mem ++ [g] } d jf := by
      intro g hwg
      have hgall : g ∈ jf.all ∧ (s.w = .synced g → g.sync = true → g ∈ jf.synced) := by
        rcases hwg with e | e <;> rw [e] at hws <;> simp only at hws
        · exact ⟨hws, fun h => by rw [e] at h; cases h⟩
        · exact ⟨hws.1, fun _ => hws.2⟩
      have hwf : g.seq = s.seq + 1 ∧ s.hi = g.fin ∧ g.recs ≠ [] := by
        rcases hwg with e | e <;> rw [e] at hw <;> exact hw
      have hap : appliedNow s.w = [] := by rcases hwg with e | e <;> rw [e] <;> rfl
      refine ⟨⟨hph, hjc, hcur, hman, htab, hjs⟩, hasc, ⟨hhi, hwf⟩, hiss, ⟨?_, ?_, ?_⟩, ⟨hfr, ?_⟩, ⟨hsy, ?_⟩⟩
      rotate_left 3
      · intro x hx
        rcases List.mem_append.1 hx with h1 | h1
        · rcases hpub x h1 with h2 | h2
          · exact Or.inl h2
          · rcases hwg with e | e <;> rw [e] at h2 <;> cases h2
        · simp only [List.mem_singleton] at h1
          subst h1
          exact Or.inr rfl
      rotate_right 3
      · intro x hx
        rcases List.mem_append.1 hx with h1 | h1
        · obtain ⟨b1, b2⟩ := hm1 x h1
          refine ⟨b1, ?_⟩
          rcases b2 with b2 | b2
          · exact Or.inl b2
          · rw [hap] at b2; cases b2
        · simp only [List.mem_singleton] at h1
          subst h1
          exact ⟨hgall.1, Or.inr (List.mem_singleton.2 rfl)⟩
      · exact fun x hx => List.mem_append_left _ (hm2 x hx)
      · intro x hx
        simp only [appliedNow, List.mem_singleton] at hx
        subst hx
        exact List.mem_append_right _ (List.mem_singleton.2 rfl)
      · show g ∈ jf.all ∧ (g.sync = true → g ∈ jf.synced)
        refine ⟨hgall.1, fun hsy' => ?_⟩
        rcases hwg with e | e
        · -- `wApply` from `appended` only happens for a group without `Sync`
          exact absurd hsy' (by
            have := hs
            simp only [step, stepWriter, e] at this
            split at this
            · cases this
            · rename_i hns; simpa using hns)
        · exact hgall.2 e hsy'
    simp only [step, stepWriter] at hs
    split at hs
    · rename_i g hwi
      split at hs
      · cases hs
      · simp only [Option.some.injEq, Prod.mk.injEq] at hs
        obtain ⟨rfl, rfl⟩ := hs
        exact ⟨jf, key g (Or.inl hwi)⟩
    · rename_i g hwi
      simp only [Option.some.injEq, Prod.mk.injEq] at hs
      obtain ⟨rfl, rfl⟩ := hs
      exact ⟨jf, key g (Or.inr hwi)⟩
    · cases hs
  | wPublish =>
    simp only [step, stepWriter] at hs
    split at hs
    · rename_i g hwi
      simp only [Option.some.injEq, Prod.mk.injEq] at hs
      obtain ⟨rfl, rfl⟩ := hs
      rw [hwi] at hw hws hm1 hm3
      simp only at hw hws
      refine ⟨jf, ⟨hph, hjc, hcur, hman, htab, hjs⟩, hasc, ⟨hhi, ?_⟩, hiss, ⟨hm1, hm2, hm3⟩, ⟨hfr, fun x hx => ?_⟩,
        ⟨hsy, hws⟩⟩
      · show s.hi = g.fin - 1 + 1
        rw [Grp.fin_sub hw.2.2]; exact hw.2.1
      · left
        show x.fin ≤ g.fin - 1 + 1
        rw [Grp.fin_sub hw.2.2]
        rcases hpub x hx with h1 | h1
        · have := Grp.seq_lt_fin hw.2.2; omega
        · rw [hwi] at h1; cases h1; exact Nat.le_refl _
    · cases hs
  | wAck =>
    simp only [step, stepWriter] at hs
    split at hs
    · rename_i g hwi
      simp only [Option.some.injEq, Prod.mk.injEq] at hs
      obtain ⟨rfl, rfl⟩ := hs
      rw [hwi] at hw hws hm1 hm3
      simp only at hw hws
      have hgm : g ∈ s.mem := hm3 g (List.mem_singleton.2 rfl)
      have hgi : g ∈ issuedGrps s := hiss g hws.1
      refine ⟨jf, ⟨hph, hjc, hcur, hman, htab, hjs⟩, hasc, ⟨hhi, hw⟩, ?_, ⟨?_, ?_, ?_⟩, ?_, ⟨?_, trivial⟩⟩
      · intro x hx
        simp only [issuedGrps, issuedGrps_setStatus]
        exact hiss x hx
      · intro x hx
        obtain ⟨b1, b2⟩ := hm1 x hx
        refine ⟨b1, Or.inl ?_⟩
        by_cases hxg : x = g
        · exact statusOf_setStatus.2 (Or.inl ⟨hxg, rfl, hgi⟩)
        · rcases b2 with b2 | b2
          · exact statusOf_setStatus.2 (Or.inr ⟨hxg, b2⟩)
          · exact absurd (List.mem_singleton.1 b2) hxg
      · intro x hx
        rcases statusOf_setStatus.1 hx with ⟨h1, _, _⟩ | ⟨_, h1⟩
        · rw [h1]; exact hgm
        · exact hm2 x h1
      · intro x hx; cases hx
      · refine ⟨fun i hi => ?_, fun x hx => ?_⟩
        · simp only [setStatus, List.mem_map] at hi
          obtain ⟨i0, hi0, rfl⟩ := hi
          have := hfr i0 hi0
          split <;> exact this
        · rcases hpub x hx with h1 | h1
          · exact Or.inl h1
          · rw [hwi] at h1; cases h1
      · intro x hx hxs
        rcases statusOf_setStatus.1 hx with ⟨h1, _, _⟩ | ⟨_, h1⟩
        · rw [h1]; rw [h1] at hxs; exact hws.2 hxs
        · exact hsy x h1 hxs
    · cases hs
  | rotate o => cases ha
  | flushStart => cases ha
  | job rot o => cases ha
  | crash ch => cases ha
  | exit => cases ha
  | recOpen => cases ha
  | recStep => cases ha
  | compactStart _ => cases ha
  | trBegin => cases ha
  | trPut _ => cases ha
  | trCommit => cases ha
  | trDiscard => cases ha


theorem winv_reachable {cfg : Cfg} (hc : cfg.consumeSeqOnJournalError = true) {sd : St × Disk}
    (h : ReachableW cfg sd) : ∃ jf, WInv sd.1 sd.2 jf := by
  obtain ⟨as, hw, hr⟩ := h
  have : ∀ (as : List Act) (sd0 : St × Disk), (∃ jf, WInv sd0.1 sd0.2 jf) → (∀ a ∈ as, a.writePath = true) →
      run cfg sd0 as = some sd → ∃ jf, WInv sd.1 sd.2 jf := by
    intro as
    induction as with
    | nil => intro sd0 h0 _ hr; simp only [run, Option.some.injEq] at hr; subst hr; exact h0
    | cons a as ih =>
      intro sd0 h0 hw hr
      obtain ⟨s0, d0⟩ := sd0
      simp only [run] at hr
      cases hs : step cfg s0 d0 a with
      | none => rw [hs] at hr; cases hr
      | some sd1 =>
        rw [hs] at hr
        obtain ⟨jf, hjf⟩ := h0
        obtain ⟨s1, d1⟩ := sd1
        exact ih (s1, d1) (winv_step hc hjf (hw a List.mem_cons_self) hs)
          (fun b hb => hw b (List.mem_cons_of_mem _ hb)) hr
  exact this as init ⟨_, winv_init⟩ hw hr

/-- what `Open` returns on a disk of the write-path sub-protocol whose journal is ascending -/
theorem recoverR_wpath (cfg : Cfg) {d : Disk} {jf : LogFile Grp} (hcur : d.current = some 1)
    (hman : lookup d.manifests 1 = lookup init.2.manifests 1) (htab : d.tables = []) (hjs : d.journals = [(2, jf)])
    (hasc : AscFrom 0 jf.all) : ∃ r, recoverR cfg d = .ok r ∧ r.grps = jf.all := by
  have hview : (replayM cfg
      [{ snapshot := true, jn := some 0, sq := some 0, nf := 2 }, { jn := some 2, sq := some 0, nf := 3 }]).view? =
      some ⟨[], 2, 0, 3⟩ := by
    simp [replayM, MAcc.step, MAcc.view?, applyEdit]
  have hlk : lookup d.manifests 1 = some ⟨[{ snapshot := true, jn := some 0, sq := some 0, nf := 2 },
      { jn := some 2, sq := some 0, nf := 3 }], []⟩ := by rw [hman]; rfl
  obtain ⟨a1, a2, a3⟩ := replayJ_asc hasc
  have hjf : journalsFrom d 2 = [2] := by simp [journalsFrom, hjs, Files.nums, sortNums, insertNum]
  have hjr : journalRecs d [2] = jf.all := by simp [journalRecs, hjs, lookup]
  refine ⟨⟨⟨[], 2, 0, 3⟩, [2], [], jf.all, (replayJ 0 jf.all).2⟩, ?_, by simp [RState.grps]⟩
  unfold recoverR
  simp only [hcur, hlk, LogFile.all, List.append_nil, hview, hjf, hjr, tableGroups]
  have : (replayJ 0 (jf.synced ++ jf.unsynced)).1 = jf.synced ++ jf.unsynced := a1
  simp only [LogFile.all] at a1 ⊢
  rw [a1]

end GoLevel.Dur
