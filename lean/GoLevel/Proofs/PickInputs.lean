import GoLevel.Proofs.PickExpand
import GoLevel.Proofs.PickBase
import GoLevel.Proofs.PickStop
/-!
# Every way the code picks, and what follows for the compaction it builds

* `pickInputs` (score- and seek-based) and `rangeInputs` (`getCompactionRange`) hand `newCompaction` a
  non-empty sublist of level `src`; hence `pickCompaction` / `getCompactionRange` never hit a Go panic and
  what they build satisfies (P1) (`newCompaction_ok`);
* the input clauses of `CompactionOK` (`src_sub`, `dst_sub`, `range`, `dst_all`, `src_closed`) follow
  (`inputs_closed`), so `CompactionOK` is reduced to the three clauses about the *output* (`compactionOK_of_built`);
* (P3) `trivial()` ⇒ the hypotheses of `trivial_move_wf` (`trivial_move_wf_of_built`);
* the fresh compaction carries the zero cursor, for which `CursorInv` holds for every key.
Core Lean only.
-/
namespace GoLevel.Pick

/-! ## the three callers -/

theorem limitPrefix_sublist (limit : Nat) (ts : List Table) (total : Nat) :
    (limitPrefix limit ts total).Sublist ts := by
  induction ts generalizing total with
  | nil => exact List.Sublist.refl _
  | cons t ts ih =>
    rw [limitPrefix]
    split
    · exact List.singleton_sublist.2 (by simp)
    · exact (ih _).cons_cons t

theorem limitPrefix_ne_nil (limit : Nat) (ts : List Table) (total : Nat) (h : ts ≠ []) :
    limitPrefix limit ts total ≠ [] := by
  cases ts with
  | nil => exact absurd rfl h
  | cons t ts =>
    rw [limitPrefix]
    split <;> simp

/-- `getCompactionRange` hands `newCompaction` a non-empty sublist of the level -/
theorem rangeInputs_ok (c : UCmp) (o : Limits) (v : Version) (src : Nat) (umin umax : Option Bytes)
    (noLimit : Bool) (t0 : List Table) (h : rangeInputs c o v src umin umax noLimit = some t0) :
    t0.Sublist (v.lvl src) ∧ t0 ≠ [] := by
  unfold rangeInputs at h
  split at h
  · cases h
  · simp only [] at h
    have hsl := getOverlapsGo_sublist c (lvlOf v src) umin umax (src == 0)
    split at h
    · cases h
    · rename_i hne
      have hne' : getOverlapsGo c (lvlOf v src) umin umax (src == 0) ≠ [] := by
        intro he; rw [he] at hne; exact hne rfl
      split at h
      · simp only [Option.some.injEq] at h
        subst h
        exact ⟨(limitPrefix_sublist _ _ _).trans hsl, limitPrefix_ne_nil _ _ _ hne'⟩
      · simp only [Option.some.injEq] at h
        subst h
        exact ⟨hsl, hne'⟩

theorem afterCompPtr_cases (c : UCmp) (tables : Level) (src : Nat) (cptr : Option IKey) :
    afterCompPtr c tables src cptr = [] ∨ ∃ t ∈ tables, afterCompPtr c tables src cptr = [t] := by
  cases cptr with
  | none => exact .inl rfl
  | some cp =>
    simp only [afterCompPtr]
    by_cases hs : src > 0
    · rw [if_pos hs]
      cases hg : tables[tables.findIdx (fun t => icmp c t.imax cp == .gt)]? with
      | none => exact .inl rfl
      | some t => exact .inr ⟨t, List.mem_of_getElem? hg, rfl⟩
    · rw [if_neg hs]; exact .inl rfl

theorem scoreInputs_ok (c : UCmp) (tables : Level) (src : Nat) (cptr : Option IKey) (t0 : List Table)
    (h : scoreInputs c tables src cptr = some t0) : ∃ t ∈ tables, t0 = [t] := by
  unfold scoreInputs at h
  rcases afterCompPtr_cases c tables src cptr with he | ⟨t, ht, he⟩
  · rw [he] at h
    cases tables with
    | nil => cases h
    | cons t rest =>
      simp only [List.isEmpty_nil, if_true, Option.some.injEq] at h
      exact ⟨t, by simp, h.symm⟩
  · rw [he] at h
    simp only [List.isEmpty_cons, Bool.false_eq_true, if_false, Option.some.injEq] at h
    exact ⟨t, ht, h.symm⟩

/-- `pickCompaction` hands `newCompaction` one table of the level.  `v.cSeek` is set by `version.get` /
`sampleSeek` *of the same version* to a table of that version: the premise `hseek`. -/
theorem pickInputs_ok (c : UCmp) (v : Version) (p : PickState)
    (hseek : ∀ lvl t, p.cSeek = some (lvl, t) → t ∈ v.lvl lvl) (src : Nat) (t0 : List Table)
    (h : pickInputs c v p = some (src, t0)) : t0.Sublist (v.lvl src) ∧ t0 ≠ [] ∧ t0.length = 1 := by
  unfold pickInputs at h
  by_cases hs : p.scoreGE1 = true
  · rw [if_pos hs] at h
    cases hsc : scoreInputs c (lvlOf v p.cLevel) p.cLevel (getCompPtr p p.cLevel) with
    | none => rw [hsc] at h; cases h
    | some x =>
      rw [hsc] at h
      simp only [Option.some.injEq, Prod.mk.injEq] at h
      obtain ⟨rfl, rfl⟩ := h
      obtain ⟨t, ht, rfl⟩ := scoreInputs_ok c _ _ _ _ hsc
      exact ⟨List.singleton_sublist.2 ht, by simp, rfl⟩
  · rw [if_neg hs] at h
    cases hk : p.cSeek with
    | none => rw [hk] at h; cases h
    | some q =>
      obtain ⟨lvl, t⟩ := q
      rw [hk] at h
      simp only [Option.some.injEq, Prod.mk.injEq] at h
      obtain ⟨rfl, rfl⟩ := h
      exact ⟨List.singleton_sublist.2 (hseek _ _ hk), by simp, rfl⟩

/-- the predicate of the `sort.Search` in `pickCompaction` (`icmp.Compare(tables[i].imax, cptr) > 0`) is
monotone along a sorted, disjoint level, so `sort.Search` returns the first index satisfying it -/
theorem pick_search_mono {c : UCmp} (hl : LawfulUCmp c) (tables : Level)
    (hle : ∀ t ∈ tables, c.le t.imin.ukey t.imax.ukey) (hp : tables.Pairwise (tlt c)) (cptr : IKey) :
    tables.Pairwise (fun x y => (icmp c x.imax cptr == .gt) = true → (icmp c y.imax cptr == .gt) = true) := by
  refine List.Pairwise.imp_of_mem ?_ hp
  intro x y _ hy hxy h
  rw [beq_iff_eq] at h ⊢
  have hxy' : c.lt x.imax.ukey y.imax.ukey := ult_of_ult_of_ule hl hxy (hle y hy)
  have h1 : icmp c x.imax y.imax = .lt := by
    unfold icmp
    have : c.cmp x.imax.ukey y.imax.ukey = .lt := hxy'
    rw [this]
  rw [icmp_gt_iff hl] at h ⊢
  exact icmp_trans hl _ _ _ h h1

/-! ## `newCompaction` -/

/-- the compaction was built by `newCompaction` from the expansion `e` -/
structure Built (c : UCmp) (o : Limits) (v : Version) (src : Nat) (t0 : List Table) (cm : Compaction)
    (e : Expanded) : Prop where
  exp : expand c (o.expandLimit src) v src t0 = some e
  v_eq : cm.v = v
  src_eq : cm.sourceLevel = src
  s0_eq : cm.s0 = e.s0
  s1_eq : cm.s1 = e.s1
  imin_eq : cm.imin = e.imin
  imax_eq : cm.imax = e.imax
  gp_eq : cm.gp = e.gp
  maxgp_eq : cm.maxGPOverlaps = o.gpOverlaps src
  ptrs_eq : cm.tPtrs = List.replicate v.levels.length 0
  snap_eq : cm.snapTPtrs = cm.tPtrs ∧ cm.snapGPI = 0 ∧ cm.snapSeenKey = false ∧ cm.snapGPOverlappedBytes = 0
  fresh : cm.gpi = 0 ∧ cm.seenKey = false ∧ cm.gpOverlappedBytes = 0

theorem newCompaction_built (c : UCmp) (o : Limits) (v : Version) (src : Nat) (t0 : List Table)
    (cm : Compaction) (h : newCompaction c o v src t0 = some cm) : ∃ e, Built c o v src t0 cm e := by
  unfold newCompaction at h
  cases he : expand c (o.expandLimit src) v src t0 with
  | none => rw [he] at h; cases h
  | some e =>
    rw [he] at h
    simp only [Option.some.injEq] at h
    subst h
    exact ⟨e, he, rfl, rfl, rfl, rfl, rfl, rfl, rfl, rfl, rfl, ⟨rfl, rfl, rfl, rfl⟩, ⟨rfl, rfl, rfl⟩⟩

section
variable {c : UCmp} (hl : LawfulUCmp c)
include hl

/-- `newCompaction` does not panic on a non-empty sublist of the level -/
theorem newCompaction_isSome (o : Limits) (v : Version) (hw : v.WFi c) (src : Nat) (t0 : List Table)
    (hsub : t0.Sublist (v.lvl src)) (hne : t0 ≠ []) : ∃ cm, newCompaction c o v src t0 = some cm := by
  obtain ⟨e, he⟩ := expand_isSome hl (o.expandLimit src) v hw src t0 hsub hne
  unfold newCompaction
  rw [he]
  exact ⟨_, rfl⟩

/-- **`pickCompaction` builds a compaction whenever it finds inputs** (no Go panic) -/
theorem pickCompaction_isSome (o : Limits) (v : Version) (hw : v.WFi c) (p : PickState)
    (hseek : ∀ lvl t, p.cSeek = some (lvl, t) → t ∈ v.lvl lvl) (src : Nat) (t0 : List Table)
    (h : pickInputs c v p = some (src, t0)) : ∃ cm, pickCompaction c o v p = some cm := by
  obtain ⟨hsub, hne, _⟩ := pickInputs_ok c v p hseek src t0 h
  unfold pickCompaction
  rw [h]
  exact newCompaction_isSome hl o v hw src t0 hsub hne

theorem getCompactionRange_isSome (o : Limits) (v : Version) (hw : v.WFi c) (src : Nat)
    (umin umax : Option Bytes) (noLimit : Bool) (t0 : List Table)
    (h : rangeInputs c o v src umin umax noLimit = some t0) :
    ∃ cm, getCompactionRange c o v src umin umax noLimit = some cm := by
  obtain ⟨hsub, hne⟩ := rangeInputs_ok c o v src umin umax noLimit t0 h
  unfold getCompactionRange
  rw [h]
  exact newCompaction_isSome hl o v hw src t0 hsub hne

/-- the five input clauses of `CompactionOK`, for the range `expand` settled on -/
structure InputsClosed (c : UCmp) (v : Version) (ℓ : Nat) (S0 S1 : List Table) (umin umax : Bytes) : Prop where
  src_sub : ∀ t ∈ S0, t ∈ v.lvl ℓ
  dst_sub : ∀ t ∈ S1, t ∈ v.lvl (ℓ + 1)
  range : ∀ t ∈ S0, c.le umin t.imin.ukey ∧ c.le t.imax.ukey umax
  dst_all : ∀ t ∈ v.lvl (ℓ + 1), t.overlapsRange c umin umax = true ↔ t ∈ S1
  src_closed : ℓ = 0 → ∀ x ∈ v.lvl 0, x ∉ S0 → x.overlapsRange c umin umax = false

theorem inputs_closed_of_expandOK (v : Version) (src : Nat) (t0 : List Table) (e : Expanded)
    (h : ExpandOK c v src t0 e) : InputsClosed c v src e.s0 e.s1 e.imin.ukey e.imax.ukey := by
  refine ⟨fun t ht => h.src_ok.sub.subset ht, ?_, h.src_ok.range hl, ?_, h.src_ok.closed⟩
  · intro t ht
    rw [h.dst_eq] at ht
    exact (List.mem_filter.1 ht).1
  · intro t ht
    rw [h.dst_eq, List.mem_filter]
    exact ⟨fun hov => ⟨ht, hov⟩, fun hm => hm.2⟩

/-- **(P1) for a compaction built by `newCompaction`** -/
theorem newCompaction_ok (o : Limits) (v : Version) (hw : v.WFi c) (src : Nat) (t0 : List Table)
    (hsub : t0.Sublist (v.lvl src)) (hne : t0 ≠ []) (cm : Compaction)
    (h : newCompaction c o v src t0 = some cm) :
    InputsClosed c v src cm.s0 cm.s1 cm.imin.ukey cm.imax.ukey ∧
    getRange c cm.s0 = some (cm.imin, cm.imax) ∧ cm.s0.Sublist (v.lvl src) ∧ (∀ t ∈ t0, t ∈ cm.s0) ∧
    (∃ amin amax, getRange c (cm.s0 ++ cm.s1) = some (amin, amax) ∧
      cm.gp = (v.lvl (src + 2)).filter (·.overlapsRange c amin.ukey amax.ukey)) := by
  obtain ⟨e, hb⟩ := newCompaction_built c o v src t0 cm h
  have hok := expand_ok hl _ v hw src t0 hsub hne e hb.exp
  rw [hb.s0_eq, hb.s1_eq, hb.imin_eq, hb.imax_eq, hb.gp_eq]
  exact ⟨inputs_closed_of_expandOK hl v src t0 e hok, hok.src_ok.rng, hok.src_ok.sub, hok.keeps, hok.gp_eq⟩

/-- `CompactionOK` reduced to its three clauses about the output: the inputs of a compaction built by
`newCompaction` need no checking -/
theorem compactionOK_of_built (o : Limits) (v : Version) (hw : v.WFi c) (src : Nat) (t0 : List Table)
    (hsub : t0.Sublist (v.lvl src)) (hne : t0 ≠ []) (cm : Compaction)
    (h : newCompaction c o v src t0 = some cm) (nts : List Table) (minSeq : Nat)
    (hdistinct : ((cm.s0 ++ cm.s1).flatMap (·.entries)).Pairwise (fun a b => a.key ≠ b.key))
    (hcut : legalCut c (build c minSeq (GoLevel.baseLevelForKey c v src) {} (mergeAll c (cm.s0 ++ cm.s1)))
      (nts.map (·.entries)) = true)
    (hnew : ∀ t ∈ nts, t.wfB c = true) :
    CompactionOK c v src cm.s0 cm.s1 nts minSeq cm.imin.ukey cm.imax.ukey := by
  obtain ⟨hin, _⟩ := newCompaction_ok hl o v hw src t0 hsub hne cm h
  exact ⟨hin.src_sub, hin.dst_sub, hdistinct, hcut, hnew, hin.range, hin.dst_all, hin.src_closed⟩

/-- **(P3)** `trivial()` on a compaction built by `newCompaction`: the single source table may be moved down -/
theorem trivial_move_wf_of_built (o : Limits) (v : Version) (hv : v.wfB c = true) (src : Nat) (t0 : List Table)
    (hsub : t0.Sublist (v.lvl src)) (hne : t0 ≠ []) (cm : Compaction)
    (h : newCompaction c o v src t0 = some cm) (htriv : cm.trivial = true) :
    ∃ t, cm.s0 = [t] ∧ cm.s1 = [] ∧ (∀ x ∈ t0, x = t) ∧ t ∈ v.lvl src ∧
      (∀ x ∈ v.lvl (src + 1), x.overlapsRange c t.imin.ukey t.imax.ukey = false) ∧
      (src = 0 → ∀ x ∈ v.lvl 0, x ≠ t → x.overlapsRange c t.imin.ukey t.imax.ukey = false) ∧
      (v.apply c (replaceEdit src [t] [] [t])).wfB c = true := by
  have hw := (Version.wfB_iff_WFi hl v).1 hv
  obtain ⟨hin, hrng, hsl, hkeep, _⟩ := newCompaction_ok hl o v hw src t0 hsub hne cm h
  unfold Compaction.trivial at htriv
  simp only [Bool.and_eq_true, beq_iff_eq, decide_eq_true_eq] at htriv
  obtain ⟨⟨hl0, hl1⟩, _⟩ := htriv
  obtain ⟨t, hs0⟩ := List.length_eq_one_iff.1 hl0
  have hs1 : cm.s1 = [] := List.eq_nil_of_length_eq_zero hl1
  rw [hs0] at hrng hin hkeep
  rw [hs1] at hin
  have hr : cm.imin = t.imin ∧ cm.imax = t.imax := by
    simp only [getRange, List.foldl_nil, Option.some.injEq, Prod.mk.injEq] at hrng
    exact ⟨hrng.1.symm, hrng.2.symm⟩
  rw [hr.1, hr.2] at hin
  have ht : t ∈ v.lvl src := hin.src_sub t (by simp)
  have hdst : ∀ x ∈ v.lvl (src + 1), x.overlapsRange c t.imin.ukey t.imax.ukey = false := by
    intro x hx
    cases hov : x.overlapsRange c t.imin.ukey t.imax.ukey with
    | false => rfl
    | true => exact absurd ((hin.dst_all x hx).1 hov) (by simp)
  have hL0 : src = 0 → ∀ x ∈ v.lvl 0, x ≠ t → x.overlapsRange c t.imin.ukey t.imax.ukey = false :=
    fun h0 x hx hxt => hin.src_closed h0 x hx (by simpa using hxt)
  have ht0 : ∀ x ∈ t0, x = t := fun x hx => by simpa using hkeep x hx
  exact ⟨t, hs0, hs1, ht0, ht, hdst, hL0, trivial_move_wf hl v src t hv ht hdst hL0⟩

end

end GoLevel.Pick

namespace GoLevel.Pick

/-- the cursor-free specification, by level index: `true` iff no table of a level `≥ src+2` has the key within
`[imin.ukey, imax.ukey]` -/
theorem baseLevelForKey_iff (c : UCmp) (v : Version) (src : Nat) (k : Bytes) :
    GoLevel.baseLevelForKey c v src k = true ↔
      ∀ j, src + 2 ≤ j → ∀ t ∈ v.lvl j, t.overlapsKey c k = false := by
  simp only [GoLevel.baseLevelForKey, List.all_eq_true, Bool.not_eq_true']
  constructor
  · intro h j hj t ht
    unfold Version.lvl at ht
    cases hv : v.levels[j]? with
    | none => rw [hv] at ht; cases ht
    | some l =>
      rw [hv] at ht
      have hmem : l ∈ v.levels.drop (src + 2) := by
        apply List.mem_iff_getElem?.2
        exact ⟨j - (src + 2), by rw [List.getElem?_drop, show src + 2 + (j - (src + 2)) = j by omega]; exact hv⟩
      exact h l hmem t ht
  · intro h l hl t ht
    obtain ⟨i, hi⟩ := List.mem_iff_getElem?.1 hl
    rw [List.getElem?_drop] at hi
    have := h (src + 2 + i) (by omega) t
    unfold Version.lvl at this
    rw [hi] at this
    exact this ht

/-- a compaction fresh from `newCompaction` satisfies the cursor invariant for every key -/
theorem newCompaction_cursorInv (c : UCmp) (o : Limits) (v : Version) (src : Nat) (t0 : List Table)
    (cm : Compaction) (h : newCompaction c o v src t0 = some cm) (k : Bytes) :
    cm.v = v ∧ cm.sourceLevel = src ∧ CursorInv c cm.v cm.sourceLevel cm.tPtrs k := by
  obtain ⟨e, hb⟩ := newCompaction_built c o v src t0 cm h
  refine ⟨hb.v_eq, hb.src_eq, ?_⟩
  rw [hb.v_eq, hb.src_eq, hb.ptrs_eq]
  exact cursorInv_init c v src k

end GoLevel.Pick
