import GoLevel.Proofs.DurableStepJ13
/-!
Job steps, part 14: `mkJournal` (`newMem` inside the last commit of a recovery), and the dispatcher for
all job steps.
-/
namespace GoLevel.Dur

theorem inv_job_mkJournal {cfg : Cfg} {s : St} {d : Disk} (h : Inv cfg s d) {j : Job}
    (hj : s.job = some j) (hpc : j.pc = .mkJournal) {rot : Bool}
    {s' : St} {d' : Disk} (hs : stepJob cfg s d j rot .ok = some (s', d')) : Inv cfg s' d' := by
  have hok := h.job
  rw [hj] at hok
  have hok : JobOK cfg s d j := hok
  obtain ⟨e, he⟩ := hok.edit_some (by rw [hpc]; rfl)
  cases hn : j.mkJournal with
  | none => simp [stepJob, hpc, hn] at hs
  | some n =>
    rw [stepJob_mkJournal hpc hn (by rw [he]; rfl)] at hs
    simp only [Option.some.injEq, Prod.mk.injEq] at hs
    obtain ⟨rfl, rfl⟩ := hs
    -- only the last commit of a recovery makes a journal
    have hk : j.kind = .recovFinal := by
      have hkind := hok.kind
      unfold JobKindOK at hkind
      rcases hok.kinds with hk | hk | hk | hk | hk <;> rw [hk] at hkind <;> simp only at hkind
      · obtain ⟨_, hkind⟩ := hkind
        split at hkind
        · rw [hkind.2.2.2.2.1] at hn; cases hn
        · rw [hkind.2.2.2] at hn; cases hn
        · exact absurd hkind id
      · rw [hkind.2.1] at hn; cases hn
      · exact hk
      · rw [hkind.2.1] at hn; cases hn
      · rw [hkind.2.1] at hn; cases hn
    have hkind := hok.kind
    unfold JobKindOK at hkind
    rw [hk] at hkind
    simp only at hkind
    obtain ⟨hph, hkind⟩ := hkind
    have hrec := h.recov hph
    have hb := h.bounds (by rw [hph]; decide)
    rw [holds_iff] at hrec
    obtain ⟨r, hr, hrec⟩ := hrec
    have hmk := hok.mkj
    unfold MkJournalOK at hmk
    rw [hn] at hmk
    simp only at hmk
    rw [if_pos (Or.inl hpc)] at hmk
    obtain ⟨hnlt, hall⟩ := hmk
    have hnd := sorted_nodup h.disk.jsorted
    have hnr : ∀ m, j.pc ≠ .rotRemove m := by rw [hpc]; intro m hm; cases hm
    have hl : s.limbo = none := h.limbo_none_of_recovering (by rw [hph]; decide)
    have hfd := (h.mfd hj).fd hj hnr hl
    let j' : Job := { j with pc := .append }
    let d1 : Disk := { d with journals := d.journals.set n {} }
    have hmem : ∀ p, p ∈ d1.journals ↔ p = (n, {}) ∨ (p ∈ d.journals ∧ p.1 ≠ n) := fun p => mem_set hnd
    have hnc : NoCommitYet s := by
      unfold NoCommitYet; rw [hj]; show j.pc.beforeCommit = true; rw [hpc]; rfl
    have hsett := hok.settled_early he (by rw [hpc]; rfl)
    constructor
    · exact h.disk.journal_create n hall
    · exact h.mm.of_same rfl rfl
    · intro _
      exact hb.of_same rfl (h.seqHi_step hj rfl rfl rfl rfl (fun _ => by rw [hpc]; rfl)) (Nat.le_refl _) (fun hr' => by
        have : s.phase = .running := hr'
        rw [hph] at this; cases this)
    · intro hc
      have : s.phase = .running := hc
      rw [hph] at this; cases this
    · intro _
      show Holds s.recov _
      rw [hr]
      simp only [Holds]
      obtain ⟨r1, r2, r3, r4, r5, r6, r7, r8, r9, r10⟩ := hrec
      have hnc' : NoCommitYet { s with jcur := n, job := some j' } → NoCommitYet s := fun _ => hnc
      refine ⟨MfdOK.of_fd (j := j') rfl (by intro x hx; cases hx) hfd, r2, r3, r4, ⟨?_, r5.2⟩, ?_, ?_, ?_, ?_, r10⟩
      · intro p hp
        rcases (hmem p).1 hp with rfl | ⟨hp0, _⟩
        · exact hnlt
        · exact r5.1 p hp0
      · intro p hp hpt g hg
        rcases (hmem p).1 hp with rfl | ⟨hp0, _⟩
        · cases hg
        · exact r6 p hp0 hpt g hg
      · unfold MdbOK at r7 ⊢
        split
        · rename_i o ho
          rw [ho] at r7
          simp only at r7
          refine ⟨fun p hp hpo => ?_, r7.2.1, fun _ => ⟨?_, (r7.2.2 hnc).2⟩⟩
          · rcases (hmem p).1 hp with rfl | ⟨hp0, _⟩
            · rcases (r7.2.2 hnc).1 with ⟨q, hq, hqo⟩ | hemp
              · have := hall q hq
                simp only at hpo
                omega
              · rw [hemp]; exact ⟨fun g hg => (by cases hg), fun g hg => (by cases hg)⟩
            · exact r7.1 p hp0 hpo
          · rcases (r7.2.2 hnc).1 with ⟨q, hq, hqo⟩ | hemp
            · exact Or.inl ⟨q, (hmem q).2 (Or.inr ⟨hq, by have := hall q hq; omega⟩), hqo⟩
            · exact Or.inr hemp
        · rename_i ho; rw [ho] at r7; exact r7
      · intro _
        exact r8 hnc
      · have : lastView cfg d1 = lastView cfg d := rfl
        rw [this]
        refine r9.imp (fun v hv => ⟨fun p hp hge => ?_, hv.2⟩)
        rcases (hmem p).1 hp with rfl | ⟨hp0, _⟩
        · exact Or.inr (Or.inr rfl)
        · exact hv.1 p hp0 hge
    · intro hcr
      have : s.phase = .crashed := hcr
      rw [hph] at this; cases this
    · show JobOK cfg _ d1 j'
      obtain ⟨h1, h2, h3, h4, h5, h6, h7, h8, h9, h10, h11, h12⟩ := hok
      refine ⟨h1, ?_, ?_, ⟨h4.1, fun _ => (h4.2 (by rw [hpc]; rfl)).imp (fun mf hmf k hk => (hmf k hk).imp
        (fun v hv => ⟨fun o ho => Or.inl ((hv.1 o ho).resolve_right (fun hx => by
          have := hx.2.1; rw [hl] at this; cases this)), hv.2⟩))⟩, h5, ?_, trivial, ?_, ?_, (fun hx => by
        have : j.edit = none := hx
        rw [he] at this; cases this), ?_, (fun hx => by cases hx)⟩
      rotate_right
      · exact Holds'.imp (o := j.edit) h11 (fun e0 he0 => he0.transport (j' := j') rfl rfl (fun _ => rfl)
          (fun _ => by rw [hpc]; rfl) (fun _ => rfl) (fun _ _ _ => rfl))
      · show JobKindOK _ j'
        unfold JobKindOK
        show match j.kind with
          | .flush => _
          | .recovMid => _
          | .recovFinal => _
          | .compaction => _
          | .tr => _
        rw [hk]
        simp only
        exact ⟨hph, hkind⟩
      · unfold JobManifestOK
        show match j.edit with
          | some e => JobManifest cfg _ d1 e .append
          | none => _
        rw [he]
        exact hsett
      · intro i o hio
        have := h6 i o hio
        unfold OutOK at this ⊢
        rw [hpc] at this
        exact this
      · unfold MkJournalOK
        show match j.mkJournal with
          | none => True
          | some x => _
        rw [hn]
        simp only
        refine ⟨hnlt, ?_⟩
        rw [if_neg (by rintro (h3 | h3) <;> cases h3)]
        refine ⟨trivial, ⟨(n, {}), (hmem _).2 (Or.inl rfl), rfl⟩, fun p hp => ?_⟩
        rcases (hmem p).1 hp with rfl | ⟨hp0, _⟩
        · exact Or.inr ⟨rfl, rfl⟩
        · exact Or.inl (hall p hp0)
      · have : lastView cfg d1 = lastView cfg d := rfl
        rw [this]
        exact h9.imp (fun v _ => late_not_rm (j := j')
          ⟨(by intro l x; cases x), (by intro l x; cases x), (by intro l x; cases x)⟩)


/-- every fault-free step of a job preserves the invariant -/
theorem inv_job_step {cfg : Cfg} (hg : cfg.Good) {s : St} {d : Disk} (h : Inv cfg s d) {j : Job}
    (hj : s.job = some j) {rot : Bool} {s' : St} {d' : Disk}
    (hs : stepJob cfg s d j rot .ok = some (s', d')) : Inv cfg s' d' := by
  cases hpc : j.pc with
  | tCreate i => exact inv_job_tCreate h hj hpc hs
  | tWrite i => exact inv_job_tWrite h hj hpc hs
  | tSync i => exact inv_job_tSync h hj hpc hs
  | mkJournal => exact inv_job_mkJournal h hj hpc hs
  | append =>
    by_cases hr : rot = true ∨ s.manifestOpen = false ∨ s.manifestFailed = true
    · exact inv_job_append_rotate h hj hpc hr hs
    · have h1 : rot = false := by cases rot <;> simp_all
      have h2 : s.manifestOpen = true := by cases hm : s.manifestOpen <;> simp_all
      have h3 : s.manifestFailed = false := by cases hm : s.manifestFailed <;> simp_all
      subst h1
      exact inv_job_append_normal hg h hj hpc h2 h3 hs
  | earlyRm =>
    exfalso
    have hok := h.job
    rw [hj] at hok
    have hok : JobOK cfg s d j := hok
    obtain ⟨e, he⟩ := hok.edit_some (by rw [hpc]; rfl)
    have := hok.manifest
    unfold JobManifestOK at this
    rw [he] at this
    simp only [hpc, JobManifest] at this
  | rotWrite m => exact inv_job_rotWrite hg h hj hpc hs
  | rotSync m => exact inv_job_rotSync hg h hj hpc hs
  | rotSetMeta m => exact inv_job_rotSetMeta hg h hj hpc hs
  | rotRemove m => exact inv_job_rotRemove h hj hpc hs
  | sync => exact inv_job_sync h hj hpc hs
  | install => exact inv_job_install h hj hpc hs
  | rmJ l =>
    cases l with
    | nil => exact inv_job_rmJ_nil h hj hpc hs
    | cons n rest => exact inv_job_rmJ_cons h hj hpc hs
  | rmT l =>
    cases l with
    | nil => exact inv_job_rmT_nil h hj hpc hs
    | cons n rest => exact inv_job_rmT_cons h hj hpc hs
  | rmM l =>
    cases l with
    | nil => exact inv_job_rmM_nil h hj hpc hs
    | cons n rest => exact inv_job_rmM_cons h hj hpc hs
  | done => exact inv_job_done h hj hpc hs

end GoLevel.Dur
