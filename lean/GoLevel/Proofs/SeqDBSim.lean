import GoLevel.Proofs.SeqDBInv
/-!
# Sequential DB — the simulation between the DB model and the plain-map specification

Ghost data: `hist`, every entry ever written (newest first), and `floor`, the largest `minSeq` any
committed compaction has used.  `SimW c st sp hist floor` says

* `floor ≤ db.seq` and `floor ≤` every registered snapshot;
* for every reader position `s ≥ floor`: `view (mem ++ frozen ++ version) k s = view hist k s`
  (compactions only remove what no reader at `s ≥ minSeq` can see — C03);
* for `s ≥ db.seq`: `view hist k s` is what the plain map holds for `k` (the newest entry of `k` is its
  last write; a tombstone = absent);
* every registered snapshot `(id, s)` has a frozen copy `m` in the specification with
  `view hist k s = m.get k` — writes extend `hist` only with larger sequence numbers
  (`view_append_newer`).

`Sim` hides the ghosts.  Every client operation yields the same output on both sides and preserves `Sim`;
every background step (accepted or rejected) preserves `Sim` with the specification unchanged.
-/
namespace GoLevel.SeqDB

/-- a registered snapshot and its frozen copy agree; both sides know the same ids -/
def SnapMatch (c : UCmp) (hist : List Entry) : Option Nat → Option Map → Prop
  | some s, some m => ∀ k, view c hist k s = m.get k
  | none, none => True
  | _, _ => False

structure SimW (c : UCmp) (st : State) (sp : Spec) (hist : List Entry) (floor : Nat) : Prop where
  floor_le : floor ≤ st.seq
  floor_snaps : ∀ p ∈ st.snaps, floor ≤ p.2
  hist_le : ∀ e ∈ hist, e.seq ≤ st.seq
  /-- the key lemma: what is still stored shows every admissible reader what the full history shows -/
  cur_hist : ∀ k s, floor ≤ s → view c (curE st) k s = view c hist k s
  /-- the full history read at the current position is the plain map -/
  hist_map : ∀ k s, st.seq ≤ s → view c hist k s = sp.map.get k
  next : sp.nextSnap = st.nextSnap
  snaps : ∀ id, SnapMatch c hist (alGet st.snaps id) (alGet sp.snaps id)

def Sim (c : UCmp) (st : State) (sp : Spec) : Prop := ∃ hist floor, SimW c st sp hist floor

theorem simW_init (c : UCmp) : SimW c init Spec.init [] 0 where
  floor_le := Nat.le_refl _
  floor_snaps := by intro p hp; cases hp
  hist_le := by intro e he; cases he
  cur_hist := fun _ _ _ => rfl
  hist_map := fun _ _ _ => rfl
  next := rfl
  snaps := fun _ => True.intro

theorem sim_init (c : UCmp) : Sim c init Spec.init := ⟨[], 0, simW_init c⟩

section sim
variable {c : UCmp} (hl : LawfulUCmp c)
include hl

/-- a read at an admissible position returns what the full history shows there (C01 + the key lemma) -/
theorem getAt_eq_hist {st : State} {sp : Spec} {hist : List Entry} {floor : Nat} (hi : Inv c st)
    (h : SimW c st sp hist floor) (k : Bytes) (s : Nat) (hs : floor ≤ s) :
    (getAt c st k s).toOption = view c hist k s := by
  unfold getAt
  rw [C01.lookup_refines_view hl none [] st.mem st.frozen st.ver hi.sources k s, dbEntries_eq_curE,
    h.cur_hist k s hs]

/-! ## writes -/

theorem simW_write1 {st : State} {sp : Spec} {hist : List Entry} {floor : Nat} (hi : Inv c st)
    (h : SimW c st sp hist floor) (r : Rec) :
    SimW c (write1 c st r) { sp with map := sp.map.apply r } (recEntry (st.seq + 1) r :: hist) floor := by
  have hi' := inv_write1 hl hi r
  have hlt1 : ∀ x ∈ curE st, x.seq < (recEntry (st.seq + 1) r).seq := by
    intro x hx
    have := hi.seq_le x hx
    rw [recEntry_seq]; omega
  have hlt2 : ∀ x ∈ hist, x.seq < (recEntry (st.seq + 1) r).seq := by
    intro x hx
    have := h.hist_le x hx
    rw [recEntry_seq]; omega
  refine ⟨?_, h.floor_snaps, ?_, ?_, ?_, h.next, ?_⟩
  · show floor ≤ st.seq + 1
    have := h.floor_le; omega
  · intro x hx
    show x.seq ≤ st.seq + 1
    rcases List.mem_cons.1 hx with rfl | hx
    · rw [recEntry_seq]; omega
    · have := h.hist_le x hx; omega
  · intro k s hs
    have e1 : view c (curE (write1 c st r)) k s = view c (recEntry (st.seq + 1) r :: curE st) k s :=
      view_congr hl hi'.uniq.uniqNum (fun x => by rw [mem_curE_write1, List.mem_cons]) k s
    rw [e1, view_cons_of_newer hl _ _ hlt1, view_cons_of_newer hl _ _ hlt2, h.cur_hist k s hs]
  · intro k s hs
    have hs' : st.seq + 1 ≤ s := hs
    rw [view_cons_of_newer hl _ _ hlt2, recEntry_ukey, recEntry_seq, recEntry_hit]
    show _ = (sp.map.apply r).get k
    rw [Map.get_apply]
    by_cases hk : r.2.1 = k
    · rw [if_pos ⟨hk, hs'⟩, if_pos hk]
    · rw [if_neg (fun hh => hk hh.1), if_neg hk]
      exact h.hist_map k s (by omega)
  · intro id
    have hm := h.snaps id
    show SnapMatch c (recEntry (st.seq + 1) r :: hist) (alGet st.snaps id) (alGet sp.snaps id)
    cases h1 : alGet st.snaps id with
    | none =>
      cases h2 : alGet sp.snaps id with
      | none => exact True.intro
      | some m => rw [h1, h2] at hm; exact hm.elim
    | some sq =>
      cases h2 : alGet sp.snaps id with
      | none => rw [h1, h2] at hm; exact hm.elim
      | some m =>
        rw [h1, h2] at hm
        intro k
        have := hi.snaps_le _ (alGet_mem h1)
        rw [view_cons_newer c _ hist k sq (by rw [recEntry_seq]; simp only at this; omega)]
        exact hm k

theorem sim_write (batch : List Rec) {st : State} {sp : Spec} (hi : Inv c st) (h : Sim c st sp) :
    Sim c (write c st batch) { sp with map := batch.foldl Map.apply sp.map } := by
  induction batch generalizing st sp with
  | nil =>
    rw [write_nil]
    have : ({ sp with map := ([] : List Rec).foldl Map.apply sp.map } : Spec) = sp := by cases sp; rfl
    rw [this]; exact h
  | cons r rs ih =>
    rw [write_cons]
    obtain ⟨hist, floor, hw⟩ := h
    exact ih (inv_write1 hl hi r) ⟨_, _, simW_write1 hl hi hw r⟩

/-! ## client operations -/

theorem sim_clientStep {st : State} {sp : Spec} (hi : Inv c st) (h : Sim c st sp) (op : ClientOp) :
    (clientStep c st op).2 = (sp.step op).2 ∧ Sim c (clientStep c st op).1 (sp.step op).1 := by
  cases op with
  | put k v => exact ⟨rfl, sim_write hl [(true, k, v)] hi h⟩
  | del k => exact ⟨rfl, sim_write hl [(false, k, [])] hi h⟩
  | write batch => exact ⟨rfl, sim_write hl batch hi h⟩
  | get k =>
    refine ⟨?_, h⟩
    obtain ⟨hist, floor, hw⟩ := h
    show Output.value (getAt c st k st.seq).toOption = Output.value (sp.map.get k)
    rw [getAt_eq_hist hl hi hw k st.seq hw.floor_le, hw.hist_map k st.seq (Nat.le_refl _)]
  | has k =>
    refine ⟨?_, h⟩
    obtain ⟨hist, floor, hw⟩ := h
    show Output.found (Hit.isValue (getAt c st k st.seq)) = Output.found (sp.map.get k).isSome
    rw [isValue_eq, getAt_eq_hist hl hi hw k st.seq hw.floor_le, hw.hist_map k st.seq (Nat.le_refl _)]
  | snapAcquire =>
    obtain ⟨hist, floor, hw⟩ := h
    refine ⟨?_, hist, floor, ?_⟩
    · show Output.snap st.nextSnap = Output.snap sp.nextSnap
      rw [hw.next]
    · refine ⟨hw.floor_le, ?_, hw.hist_le, hw.cur_hist, hw.hist_map, ?_, ?_⟩
      · intro p hp
        rcases List.mem_append.1 hp with hp | hp
        · exact hw.floor_snaps p hp
        · rw [List.mem_singleton.1 hp]; exact hw.floor_le
      · show sp.nextSnap + 1 = st.nextSnap + 1
        rw [hw.next]
      · intro id
        show SnapMatch c hist (alGet (st.snaps ++ [(st.nextSnap, st.seq)]) id)
          (alGet (sp.snaps ++ [(sp.nextSnap, sp.map)]) id)
        have hm := hw.snaps id
        rw [alGet_append_single, alGet_append_single, hw.next]
        cases h1 : alGet st.snaps id with
        | none =>
          cases h2 : alGet sp.snaps id with
          | none =>
            by_cases hid : st.nextSnap = id
            · simp only [hid, if_true]
              exact fun k => hw.hist_map k st.seq (Nat.le_refl _)
            · simp only [hid, if_false]
              exact True.intro
          | some m => rw [h1, h2] at hm; exact hm.elim
        | some sq =>
          cases h2 : alGet sp.snaps id with
          | none => rw [h1, h2] at hm; exact hm.elim
          | some m => rw [h1, h2] at hm; exact hm
  | snapGet id k =>
    obtain ⟨hist, floor, hw⟩ := h
    have hm := hw.snaps id
    simp only [clientStep, Spec.step]
    cases h1 : alGet st.snaps id with
    | none =>
      cases h2 : alGet sp.snaps id with
      | none => exact ⟨rfl, hist, floor, hw⟩
      | some m => rw [h1, h2] at hm; exact hm.elim
    | some sq =>
      cases h2 : alGet sp.snaps id with
      | none => rw [h1, h2] at hm; exact hm.elim
      | some m =>
        rw [h1, h2] at hm
        refine ⟨?_, hist, floor, hw⟩
        show Output.value (getAt c st k sq).toOption = Output.value (m.get k)
        rw [getAt_eq_hist hl hi hw k sq (hw.floor_snaps _ (alGet_mem h1)), hm k]
  | snapRelease id =>
    obtain ⟨hist, floor, hw⟩ := h
    refine ⟨rfl, hist, floor, ?_⟩
    refine ⟨hw.floor_le, fun p hp => hw.floor_snaps p (mem_alErase hp), hw.hist_le, hw.cur_hist, hw.hist_map,
      hw.next, ?_⟩
    intro x
    show SnapMatch c hist (alGet (alErase st.snaps id) x) (alGet (alErase sp.snaps id) x)
    rw [alGet_erase, alGet_erase]
    by_cases hid : id = x
    · simp only [hid, if_true]; exact True.intro
    · simp only [hid, if_false]; exact hw.snaps x

/-! ## background steps -/

omit hl in
/-- a background step that leaves `db.seq` and the snapshots alone and does not change any admissible
reader's view keeps the simulation (the floor may rise to `floor'`) -/
theorem simW_of_view {st st' : State} {sp : Spec} {hist : List Entry} {floor floor' : Nat}
    (h : SimW c st sp hist floor) (hseq : st'.seq = st.seq) (hsn : st'.snaps = st.snaps)
    (hnx : st'.nextSnap = st.nextSnap) (hfl : floor ≤ floor') (hfl_le : floor' ≤ st.seq)
    (hfl_sn : ∀ p ∈ st.snaps, floor' ≤ p.2)
    (hview : ∀ k s, floor' ≤ s → view c (curE st') k s = view c (curE st) k s) :
    SimW c st' sp hist floor' := by
  refine ⟨by rw [hseq]; exact hfl_le, by rw [hsn]; exact hfl_sn, by rw [hseq]; exact h.hist_le, ?_,
    by rw [hseq]; exact h.hist_map, by rw [hnx]; exact h.next, by rw [hsn]; exact h.snaps⟩
  intro k s hs
  rw [hview k s hs, h.cur_hist k s (by omega)]

theorem sim_bgStep {st st' : State} {sp : Spec} (hi : Inv c st) (h : Sim c st sp) (b : Bg)
    (hb : bgStep c st b = some st') : Sim c st' sp := by
  obtain ⟨hist, floor, hw⟩ := h
  have hi' := inv_bgStep hl hi b hb
  cases b with
  | rotate =>
    simp only [bgStep] at hb
    split at hb
    · rename_i hf
      rw [← Option.some.inj hb]
      refine ⟨hist, floor, simW_of_view hw rfl rfl rfl (Nat.le_refl _) hw.floor_le hw.floor_snaps ?_⟩
      intro k s _
      have : curE { st with frozen := some st.mem, mem := [] } = curE st := by simp [curE, hf]
      rw [this]
    · cases hb
  | flush =>
    simp only [bgStep] at hb
    split at hb
    · cases hb
    · rename_i hf
      rw [← Option.some.inj hb]
      refine ⟨hist, floor, simW_of_view hw rfl rfl rfl (Nat.le_refl _) hw.floor_le hw.floor_snaps ?_⟩
      intro k s _
      have : curE { st with frozen := none } = curE st := by simp [curE, hf]
      rw [this]
    · rename_i e es hf
      rw [← Option.some.inj hb] at hi' ⊢
      refine ⟨hist, floor, simW_of_view hw rfl rfl rfl (Nat.le_refl _) hw.floor_le hw.floor_snaps ?_⟩
      intro k s _
      exact view_congr hl hi'.uniq.uniqNum (mem_curE_flush c st e es hf) k s
  | compact ℓ S0 S1 nts minSeq umin umax =>
    simp only [bgStep] at hb
    split at hb
    · rename_i hg
      rw [← Option.some.inj hb]
      obtain ⟨hok, hms, hsn, _⟩ := hg
      obtain ⟨_, hsub, hview⟩ := compact_facts hl hi ℓ S0 S1 nts minSeq umin umax hok
      refine ⟨hist, max floor minSeq, simW_of_view hw rfl rfl rfl (Nat.le_max_left _ _)
        (Nat.max_le.2 ⟨hw.floor_le, hms⟩) (fun p hp => Nat.max_le.2 ⟨hw.floor_snaps p hp, hsn p hp⟩) ?_⟩
      intro k s hs
      have hs' : minSeq ≤ s := Nat.le_trans (Nat.le_max_right _ _) hs
      have hnew := hi.pre_newer hl
      show view c (st.mem ++ (st.frozen.getD [] ++ (st.ver.apply c (replaceEdit ℓ S0 S1 nts)).entries)) k s
        = view c (st.mem ++ (st.frozen.getD [] ++ st.ver.entries)) k s
      rw [← List.append_assoc, ← List.append_assoc]
      exact view_append_congr hl _ _ _ (hnew.mono (fun _ h => h) hsub) hnew k s (hview k s hs')
    · cases hb
  | move ℓ t =>
    simp only [bgStep] at hb
    split at hb
    · rename_i hg
      rw [← Option.some.inj hb]
      refine ⟨hist, floor, simW_of_view hw rfl rfl rfl (Nat.le_refl _) hw.floor_le hw.floor_snaps ?_⟩
      intro k s _
      have hnew := hi.pre_newer hl
      have hsub : ∀ x ∈ (st.ver.apply c (replaceEdit ℓ [t] [] [t])).entries, x ∈ st.ver.entries :=
        fun x hx => (move_entries hi ℓ t hg.1 x).1 hx
      show view c (st.mem ++ (st.frozen.getD [] ++ (st.ver.apply c (replaceEdit ℓ [t] [] [t])).entries)) k s
        = view c (st.mem ++ (st.frozen.getD [] ++ st.ver.entries)) k s
      rw [← List.append_assoc, ← List.append_assoc]
      exact view_append_congr hl _ _ _ (hnew.mono (fun _ h => h) hsub) hnew k s
        (C03.trivial_move_preserves_view hl st.ver ℓ t hi.uniq_ver hi.nums_lvl hg.1 k s)
    · cases hb

/-- one event: same output (a background step has none), invariant and simulation carried over -/
theorem sim_step {st : State} {sp : Spec} (hi : Inv c st) (h : Sim c st sp) (ev : Event) :
    match ev with
    | .client op => (step c st ev).2 = some (sp.step op).2 ∧ Sim c (step c st ev).1 (sp.step op).1
    | .bg _ => (step c st ev).2 = none ∧ Sim c (step c st ev).1 sp := by
  cases ev with
  | client op =>
    obtain ⟨ho, hs⟩ := sim_clientStep hl hi h op
    exact ⟨congrArg some ho, hs⟩
  | bg b =>
    refine ⟨rfl, ?_⟩
    show Sim c ((bgStep c st b).getD st) sp
    cases hb : bgStep c st b with
    | none => exact h
    | some st' => exact sim_bgStep hl hi h b hb

/-! ## whole runs -/

theorem sim_runState (es : List Event) {st : State} {sp : Spec} (hi : Inv c st) (h : Sim c st sp) :
    Sim c (runState c st es) (Spec.runState sp (clientOps es)) := by
  induction es generalizing st sp with
  | nil => exact h
  | cons ev es ih =>
    have hs := sim_step hl hi h ev
    cases ev with
    | client op => exact ih (inv_step hl hi _) hs.2
    | bg b => exact ih (inv_step hl hi _) hs.2

theorem run_eq_spec (es : List Event) {st : State} {sp : Spec} (hi : Inv c st) (h : Sim c st sp) :
    run c st es = Spec.run sp (clientOps es) := by
  induction es generalizing st sp with
  | nil => rfl
  | cons ev es ih =>
    have hs := sim_step hl hi h ev
    cases ev with
    | client op =>
      show (match (step c st (.client op)).2 with
        | some o => o :: run c (step c st (.client op)).1 es
        | none => run c (step c st (.client op)).1 es) = (sp.step op).2 :: Spec.run (sp.step op).1 (clientOps es)
      rw [hs.1, ih (inv_step hl hi _) hs.2]
    | bg b =>
      show (match (step c st (.bg b)).2 with
        | some o => o :: run c (step c st (.bg b)).1 es
        | none => run c (step c st (.bg b)).1 es) = Spec.run sp (clientOps es)
      rw [hs.1, ih (inv_step hl hi _) hs.2]

end sim

/-! ## lists of events -/

theorem runState_append (c : UCmp) (st : State) (es1 es2 : List Event) :
    runState c st (es1 ++ es2) = runState c (runState c st es1) es2 := by
  induction es1 generalizing st with
  | nil => rfl
  | cons e es ih => exact ih _

theorem run_append (c : UCmp) (st : State) (es1 es2 : List Event) :
    run c st (es1 ++ es2) = run c st es1 ++ run c (runState c st es1) es2 := by
  induction es1 generalizing st with
  | nil => rfl
  | cons e es ih =>
    simp only [List.cons_append, run, runState]
    cases (step c st e).2 with
    | none => exact ih _
    | some o => simp only [List.cons_append]; rw [ih]

theorem clientOps_append (es1 es2 : List Event) : clientOps (es1 ++ es2) = clientOps es1 ++ clientOps es2 := by
  induction es1 with
  | nil => rfl
  | cons e es ih => cases e <;> simp [clientOps, ih]

theorem Spec.runState_append (sp : Spec) (o1 o2 : List ClientOp) :
    Spec.runState sp (o1 ++ o2) = Spec.runState (Spec.runState sp o1) o2 := by
  induction o1 generalizing sp with
  | nil => rfl
  | cons o os ih => exact ih _

/-! ## the specification keeps a snapshot's copy until that snapshot is released -/

theorem spec_snap_persist (id : Nat) (m : Map) (ops : List ClientOp) (sp : Spec)
    (h : alGet sp.snaps id = some m) (hno : ClientOp.snapRelease id ∉ ops) :
    alGet (Spec.runState sp ops).snaps id = some m := by
  induction ops generalizing sp with
  | nil => exact h
  | cons op ops ih =>
    have hno' : ClientOp.snapRelease id ∉ ops := fun hh => hno (List.mem_cons_of_mem _ hh)
    apply ih _ _ hno'
    cases op with
    | put k v => exact h
    | del k => exact h
    | write batch => exact h
    | get k => exact h
    | has k => exact h
    | snapAcquire =>
      show alGet (sp.snaps ++ [(sp.nextSnap, sp.map)]) id = some m
      rw [alGet_append_single, h]
    | snapGet id' k =>
      simp only [Spec.step]
      split <;> exact h
    | snapRelease id' =>
      show alGet (alErase sp.snaps id') id = some m
      rw [alGet_erase]
      have : id' ≠ id := fun e => hno (by rw [e]; exact List.mem_cons_self)
      rw [if_neg this]; exact h

/-- the records a list of client operations writes, in order -/
def writesOf : List ClientOp → List Rec
  | [] => []
  | .put k v :: ops => (true, k, v) :: writesOf ops
  | .del k :: ops => (false, k, []) :: writesOf ops
  | .write batch :: ops => batch ++ writesOf ops
  | _ :: ops => writesOf ops

/-- the specification's map is the plain map driven by the writes alone: reads, snapshots and (erased)
background steps do not touch it -/
theorem spec_map_eq_fold (ops : List ClientOp) (sp : Spec) :
    (Spec.runState sp ops).map = (writesOf ops).foldl Map.apply sp.map := by
  induction ops generalizing sp with
  | nil => rfl
  | cons op ops ih =>
    cases op with
    | put k v => exact ih _
    | del k => exact ih _
    | write batch => simp only [Spec.runState, writesOf, List.foldl_append]; exact ih _
    | get k => exact ih _
    | has k => exact ih _
    | snapAcquire => exact ih _
    | snapGet id' k =>
      simp only [Spec.runState, writesOf, Spec.step]
      split <;> exact ih _
    | snapRelease id' => exact ih _

end GoLevel.SeqDB
