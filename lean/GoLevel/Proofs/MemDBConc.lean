import GoLevel.Proofs.MemDBIterSim
/-! Readers and iterators interleaved with a writer that only puts (C14). -/
set_option linter.unusedSectionVars false
set_option linter.unusedSimpArgs false
namespace GoLevel.MemDB

variable {cmp : Cmp}

/-- the table is well formed and the node under the iterator is one of the keys of its slice -/
structure CInv (cmp : Cmp) (s : CState) : Prop where
  inv : Inv cmp s.db
  node : ∀ k, s.it.node = some k → k ∈ s.db.sliceKeys cmp s.it.start s.it.limit

theorem SMap.mem_insert {k v : Bytes} {m : SMap} {p : Bytes × Bytes} (h : p ∈ SMap.insert cmp k v m) :
    p = (k, v) ∨ p ∈ m := by
  unfold SMap.insert at h
  simp only [List.mem_append, List.mem_cons, List.mem_filter] at h
  rcases h with h | h | h
  · exact .inr h.1
  · exact .inl h
  · exact .inr h.1

section
variable (hc : LawfulCmp cmp)
include hc

theorem mem_level0_put {db : DB} (h : Inv cmp db) (key v : Bytes) (ht : Nat) (hpos : 1 ≤ ht) {x : Bytes}
    (hx : x ∈ db.level0) : x ∈ (put cmp db key v ht).level0 := by
  by_cases hk : key ∈ db.level0
  · rw [put_old hc h hk]; exact hx
  · rw [put_new hc h hk]
    simp only [level0_mk]
    rw [level0_put_new hc hpos]
    exact (mem_ins hc).2 (.inr hx)

theorem sliceKeys_sorted {db : DB} (h : Inv cmp db) (st lm : Option Bytes) :
    Sorted cmp (db.sliceKeys cmp st lm) := h.sorted0.filter _

theorem mem_sliceKeys {db : DB} {st lm : Option Bytes} {x : Bytes} :
    x ∈ db.sliceKeys cmp st lm ↔ x ∈ db.level0 ∧ inR cmp st lm x = true := by
  simp [DB.sliceKeys, List.mem_filter]

/-- the state relation that `step_rel` needs, from the invariant -/
theorem relPos_of_cinv {S : List Bytes} {nd : Node} (fw : Bool) (hn : ∀ k, nd = some k → k ∈ S) :
    ∃ p, RelPos S nd fw p := by
  cases nd with
  | none =>
    cases fw with
    | false => exact ⟨.soi, by simp [RelPos]⟩
    | true => exact ⟨.eoi, by simp [RelPos]⟩
  | some k =>
    obtain ⟨S1, S2, rfl⟩ := List.append_of_mem (hn k rfl)
    exact ⟨.at S1.length, k, S1, S2, rfl, rfl, rfl⟩

theorem relPos_node_mem {S : List Bytes} {nd : Node} {fw : Bool} {p : Pos} (h : RelPos S nd fw p) :
    ∀ k, nd = some k → k ∈ S := by
  intro k hk
  cases p with
  | soi => rw [h.1] at hk; cases hk
  | eoi => rw [h.1] at hk; cases hk
  | «at» i =>
    obtain ⟨k', S1, S2, hnd, hS, _⟩ := h
    rw [hnd] at hk; cases hk
    rw [hS]; simp

/-- a move keeps the slice bounds and lands on a key of the slice (or nowhere) -/
theorem move_cinv {s : CState} (h : CInv cmp s) (c : Call Bytes) :
    (Iter.step cmp s.db c s.it).start = s.it.start ∧ (Iter.step cmp s.db c s.it).limit = s.it.limit ∧
    ∀ k, (Iter.step cmp s.db c s.it).node = some k → k ∈ s.db.sliceKeys cmp s.it.start s.it.limit := by
  obtain ⟨db, ⟨st, lm, nd, fw⟩⟩ := s
  obtain ⟨p, hp⟩ := relPos_of_cinv hc fw h.node
  obtain ⟨nd', fw', hstep, hrel⟩ := step_rel hc h.inv st lm c nd fw p hp
  simp only [hstep]
  exact ⟨trivial, trivial, relPos_node_mem hc hrel⟩

theorem cstep_cinv {s : CState} (h : CInv cmp s) (e : Ev) (he : e.putOnly) : CInv cmp (cstep cmp s e) := by
  cases e with
  | put k v ht =>
    refine ⟨put_inv hc h.inv k v he.1 he.2, ?_⟩
    intro x hx
    have := h.node x hx
    rw [mem_sliceKeys hc] at this ⊢
    exact ⟨mem_level0_put hc h.inv k v ht he.1 this.1, this.2⟩
  | delete k => exact absurd he (by simp [Ev.putOnly])
  | reset => exact absurd he (by simp [Ev.putOnly])
  | read => exact h
  | move c =>
    obtain ⟨h1, h2, h3⟩ := move_cinv hc h c
    refine ⟨h.inv, ?_⟩
    intro k hk
    simp only [cstep] at hk ⊢
    rw [h1, h2]; exact h3 k hk

theorem cexec_cinv : ∀ (es : List Ev) (s : CState), CInv cmp s → (∀ e ∈ es, e.putOnly) →
    CInv cmp (cexec cmp s es) := by
  intro es
  induction es with
  | nil => intro s h _; exact h
  | cons e es ih =>
    intro s h hes
    exact ih _ (cstep_cinv hc h e (hes e (by simp))) (fun e' he' => hes e' (by simp [he']))

/-- every pair of the abstract map was put -/
def AllPut (s : CState) (es : List Ev) : Prop := ∀ p ∈ s.db.abs, ∃ h, Ev.put p.1 p.2 h ∈ es

theorem cexec_allPut : ∀ (es pre : List Ev) (s : CState), CInv cmp s → (∀ e ∈ es, e.putOnly) →
    AllPut s pre → AllPut (cexec cmp s es) (pre ++ es) := by
  intro es
  induction es with
  | nil => intro pre s _ _ h; simpa [cexec] using h
  | cons e es ih =>
    intro pre s h hes hall
    have hstep : AllPut (cstep cmp s e) (pre ++ [e]) := by
      cases e with
      | put k v ht =>
        intro p hp
        have he := hes (.put k v ht) (by simp)
        simp only [cstep] at hp
        rw [put_abs hc h.inv k v he.1] at hp
        rcases SMap.mem_insert hp with rfl | hp
        · exact ⟨ht, by simp⟩
        · obtain ⟨h', hm⟩ := hall p hp
          exact ⟨h', by simp [hm]⟩
      | delete k => exact absurd (hes (.delete k) (by simp)) (by simp [Ev.putOnly])
      | reset => exact absurd (hes .reset (by simp)) (by simp [Ev.putOnly])
      | read =>
        intro p hp
        obtain ⟨h', hm⟩ := hall p hp
        exact ⟨h', by simp [hm]⟩
      | move c =>
        intro p hp
        obtain ⟨h', hm⟩ := hall p hp
        exact ⟨h', by simp [hm]⟩
    have := ih (pre ++ [e]) _ (cstep_cinv hc h e (hes e (by simp))) (fun e' he' => hes e' (by simp [he'])) hstep
    simpa [cexec] using this

/-- what a move yields is a pair of the abstract map, on a key of the slice -/
theorem cyield_mem {s : CState} (h : CInv cmp s) (c : Call Bytes) {k v : Bytes}
    (hy : cyield cmp s c = some (k, v)) :
    (Iter.step cmp s.db c s.it).node = some k ∧ k ∈ s.db.sliceKeys cmp s.it.start s.it.limit ∧
    (k, v) ∈ s.db.abs := by
  unfold cyield Iter.out at hy
  cases hn : (Iter.step cmp s.db c s.it).node with
  | none => rw [hn] at hy; cases hy
  | some k' =>
    rw [hn] at hy
    simp only [Option.map_some, Option.some.injEq, Prod.mk.injEq] at hy
    obtain ⟨rfl, rfl⟩ := hy
    have hk := (move_cinv hc h c).2.2 k' hn
    refine ⟨rfl, hk, ?_⟩
    rw [abs_eq]
    exact List.mem_map.2 ⟨k', ((mem_sliceKeys hc).1 hk).1, rfl⟩

/-- writer steps and foreign reads leave the iterator alone -/
theorem cexec_it_of_noMove : ∀ (ws : List Ev) (s : CState), (∀ e ∈ ws, e.isMove = false) →
    (cexec cmp s ws).it = s.it := by
  intro ws
  induction ws with
  | nil => intro s _; rfl
  | cons e es ih =>
    intro s hws
    have he := hws e (by simp)
    have : (cstep cmp s e).it = s.it := by
      cases e <;> simp [cstep, Ev.isMove] at he ⊢
    rw [cexec, ih _ (fun e' he' => hws e' (by simp [he'])), this]

/-- `Next` from a key of the slice lands on a larger key; `Prev` on a smaller one -/
theorem next_prev_order {s : CState} (h : CInv cmp s) {k1 : Bytes} (hnode : s.it.node = some k1) :
    (∀ k2 v2, cyield cmp s .next = some (k2, v2) → cmp k1 k2 = .lt) ∧
    (∀ k2 v2, cyield cmp s .prev = some (k2, v2) → cmp k2 k1 = .lt) := by
  obtain ⟨db, ⟨st, lm, nd, fw⟩⟩ := s
  simp only at hnode
  subst hnode
  obtain ⟨S1, S2, hS⟩ := List.append_of_mem (h.node k1 rfl)
  have hsorted : Sorted cmp (S1 ++ k1 :: S2) := hS ▸ sliceKeys_sorted hc h.inv st lm
  constructor
  · intro k2 v2 hy
    have hn := (cyield_mem hc h .next hy).1
    simp only [Iter.step] at hn
    rw [iter_next_at hc h.inv st lm fw hS] at hn
    simp only at hn
    have hmem : k2 ∈ S2 := List.mem_of_mem_head? hn
    exact (List.pairwise_cons.1 (List.pairwise_append.1 hsorted).2.1).1 k2 hmem
  · intro k2 v2 hy
    have hn := (cyield_mem hc h .prev hy).1
    simp only [Iter.step] at hn
    rw [iter_prev_at hc h.inv st lm fw hS] at hn
    simp only at hn
    have hmem : k2 ∈ S1 := List.mem_of_getLast? hn
    exact (List.pairwise_append.1 hsorted).2.2 k2 hmem k1 (by simp)

end

theorem cinv_init (cmp : Cmp) (st lm : Option Bytes) : CInv cmp { db := DB.empty, it := { start := st, limit := lm } } :=
  ⟨inv_empty cmp, by intro k hk; cases hk⟩

end GoLevel.MemDB
