import GoLevel.Model.Pick
import GoLevel.Proofs.LSMOverlap
/-!
# `tFiles.getOverlaps` as transcribed in `Model/Pick.lean` (nil-able bounds) against its specification

* with both bounds present the transcription coincides with the functions of `Model/LSM.lean` /
  `Proofs/LSMOverlap.lean`, so on a sorted level it is the filter "user-key range meets `[umin, umax]`"
  and on level 0 it is the overlap closure (`getOverlapsL0_spec`);
* with any bounds the result is a sublist of the level (order and multiplicity preserved).
Core Lean only.
-/
namespace GoLevel.Pick

theorem lvlOf_eq (v : Version) (i : Nat) : lvlOf v i = v.lvl i := rfl

theorem tOverlaps_some (c : UCmp) (t : Table) (a b : Bytes) :
    tOverlaps c t (some a) (some b) = t.overlapsRange c a b := rfl

theorem goBeginO_some (c : UCmp) (tf : Level) (a : Bytes) : goBeginO c tf (some a) = goBegin c c.cmp tf a := rfl
theorem goEndO_some (c : UCmp) (tf : Level) (b : Bytes) : goEndO c tf (some b) = goEnd c c.cmp tf b := rfl

/-- with both bounds present the sorted branch is the index arithmetic of `Proofs/LSMOverlap.lean` -/
theorem overlapsSortedGo_some (c : UCmp) (tf : Level) (hne : tf ≠ []) (a b : Bytes) :
    overlapsSortedGo c tf (some a) (some b) = getOverlapsSortedIdx c c.cmp tf a b := by
  rw [getOverlapsSortedIdx_unfold]
  have : tf.isEmpty = false := by
    cases tf with
    | nil => exact absurd rfl hne
    | cons _ _ => rfl
  rw [this]
  rfl

/-- **sorted branch = filter** on a level that is sorted and disjoint -/
theorem getOverlapsGo_sorted {c : UCmp} (hl : LawfulUCmp c) (tf : Level)
    (hle : ∀ t ∈ tf, c.le t.imin.ukey t.imax.ukey) (hp : tf.Pairwise (tlt c)) (a b : Bytes) :
    getOverlapsGo c tf (some a) (some b) false = tf.filter (·.overlapsRange c a b) := by
  unfold getOverlapsGo
  by_cases hemp : tf = []
  · subst hemp; rfl
  have : tf.isEmpty = false := by
    cases tf with
    | nil => exact absurd rfl hemp
    | cons _ _ => rfl
  rw [this]
  simp only [Bool.false_eq_true, if_false, Bool.not_false, if_true]
  rw [overlapsSortedGo_some c tf hemp, getOverlapsSortedIdx_eq hl tf hle hp]
  rfl

/-- the scan with both bounds present is the scan of `getOverlapsL0` -/
theorem scanL0_some (c : UCmp) (a b : Bytes) (ts acc : List Table) :
    scanL0 c (some a) (some b) ts acc =
      match getOverlapsL0.scan c a b ts acc with
      | .inl (x, y) => .inl (some x, some y)
      | .inr r => .inr r := by
  induction ts generalizing acc with
  | nil => rfl
  | cons t ts ih =>
    rw [scanL0, getOverlapsL0.scan, tOverlaps_some]
    by_cases hov : t.overlapsRange c a b = true
    · rw [if_pos hov, if_pos hov]
      by_cases h1 : c.cmp t.imin.ukey a = .lt
      · rw [if_pos h1]
        have h1' : widensMin c t (some a) = true := by simp [widensMin, h1]
        rw [if_pos h1']
      · rw [if_neg h1]
        have h1' : widensMin c t (some a) = false := by
          simp only [widensMin]; cases h : c.cmp t.imin.ukey a <;> simp_all
        rw [h1']
        simp only [Bool.false_eq_true, if_false]
        by_cases h2 : c.cmp t.imax.ukey b = .gt
        · rw [if_pos h2]
          have h2' : widensMax c t (some b) = true := by simp [widensMax, h2]
          rw [if_pos h2']
        · rw [if_neg h2]
          have h2' : widensMax c t (some b) = false := by
            simp only [widensMax]; cases h : c.cmp t.imax.ukey b <;> simp_all
          rw [h2']
          simp only [Bool.false_eq_true, if_false]
          exact ih _
    · rw [if_neg hov, if_neg hov]
      exact ih _

theorem overlapsL0Go_some (c : UCmp) (tf : Level) (fuel : Nat) (a b : Bytes) :
    overlapsL0Go c tf fuel (some a) (some b) = getOverlapsL0 c tf fuel a b := by
  induction fuel generalizing a b with
  | zero => rfl
  | succ n ih =>
    rw [overlapsL0Go, getOverlapsL0, scanL0_some]
    cases h : getOverlapsL0.scan c a b tf [] with
    | inl p => obtain ⟨x, y⟩ := p; exact ih x y
    | inr r => rfl

/-- level-0 branch with both bounds present = `getOverlapsL0` with enough fuel -/
theorem getOverlapsGo_l0 (c : UCmp) (tf : Level) (a b : Bytes) :
    getOverlapsGo c tf (some a) (some b) true = getOverlapsL0 c tf (2 * tf.length + 1) a b := by
  unfold getOverlapsGo
  by_cases hemp : tf = []
  · subst hemp
    rfl
  have : tf.isEmpty = false := by
    cases tf with
    | nil => exact absurd rfl hemp
    | cons _ _ => rfl
  rw [this]
  simp only [Bool.false_eq_true, if_false, Bool.not_true]
  exact overlapsL0Go_some c tf _ a b

/-! ## any bounds: the result is a sublist of the level -/

theorem scanL0_inr (c : UCmp) (umin umax : Option Bytes) (ts acc r : List Table)
    (h : scanL0 c umin umax ts acc = .inr r) :
    r = acc.reverse ++ ts.filter (tOverlaps c · umin umax) := by
  induction ts generalizing acc with
  | nil =>
    simp only [scanL0, Sum.inr.injEq] at h
    subst h; simp
  | cons t ts ih =>
    rw [scanL0] at h
    by_cases hov : tOverlaps c t umin umax = true
    · rw [if_pos hov] at h
      by_cases h1 : widensMin c t umin = true
      · rw [if_pos h1] at h; cases h
      · rw [if_neg h1] at h
        by_cases h2 : widensMax c t umax = true
        · rw [if_pos h2] at h; cases h
        · rw [if_neg h2] at h
          rw [ih _ h]; simp [hov]
    · rw [if_neg hov] at h
      rw [ih _ h]; simp [hov]

theorem overlapsL0Go_sublist (c : UCmp) (tf : Level) (fuel : Nat) (umin umax : Option Bytes) :
    (overlapsL0Go c tf fuel umin umax).Sublist tf := by
  induction fuel generalizing umin umax with
  | zero => exact List.filter_sublist
  | succ n ih =>
    rw [overlapsL0Go]
    cases h : scanL0 c umin umax tf [] with
    | inl p => obtain ⟨x, y⟩ := p; exact ih x y
    | inr r =>
      have := scanL0_inr c umin umax tf [] r h
      simp only [List.reverse_nil, List.nil_append] at this
      rw [this]; exact List.filter_sublist

theorem overlapsSortedGo_sublist (c : UCmp) (tf : Level) (umin umax : Option Bytes) :
    (overlapsSortedGo c tf umin umax).Sublist tf := by
  unfold overlapsSortedGo
  split
  · exact List.nil_sublist _
  · exact (List.take_sublist _ _).trans (List.drop_sublist _ _)

/-- **`getOverlaps` returns a sublist of the level**, whatever the bounds and the branch -/
theorem getOverlapsGo_sublist (c : UCmp) (tf : Level) (umin umax : Option Bytes) (ov : Bool) :
    (getOverlapsGo c tf umin umax ov).Sublist tf := by
  unfold getOverlapsGo
  split
  · exact List.nil_sublist _
  · split
    · exact overlapsSortedGo_sublist c tf umin umax
    · exact overlapsL0Go_sublist c tf _ umin umax

/-- nil bounds on level 0: everything overlaps, nothing widens the range -/
example : getOverlapsGo bytewise [ovT 1 40 60, ovT 2 25 45, ovT 4 70 80] none none true =
    [ovT 1 40 60, ovT 2 25 45, ovT 4 70 80] := by decide
/-- only a lower bound, sorted level -/
example : getOverlapsGo bytewise [ovT 1 10 20, ovT 2 30 40, ovT 3 50 60] (some [35]) none false =
    [ovT 2 30 40, ovT 3 50 60] := by decide
example : getOverlapsGo bytewise [ovT 1 10 20, ovT 2 30 40, ovT 3 50 60] none (some [35]) false =
    [ovT 1 10 20, ovT 2 30 40] := by decide
/-- the closure on level 0 (two restarts) -/
example : getOverlapsGo bytewise [ovT 1 40 60, ovT 2 25 45, ovT 3 10 30, ovT 4 70 80] (some [50]) (some [55]) true =
    [ovT 1 40 60, ovT 2 25 45, ovT 3 10 30] := by decide

end GoLevel.Pick
