import GoLevel.Proofs.LocksCount
/-! Every step of a configuration with the three fixes (and the fourth, or no `SetReadOnly`) preserves the exact
ownership accounting of the write-lock token — provided the two blind take-backs find the token they are meant
for: a `SetReadOnly` between its two `select`s still has its claim (`hJ1`), and so has `compactionError` in the
`closeC` case of `hasperr` (`hJ2`). -/
namespace GoLevel.Locks
set_option linter.unusedSimpArgs false

theorem step_tokE (s t : St) (f : Bool) (cfg : Cfg) (h3 : Fixed3 cfg)
    (h4 : cfg.setReadOnlyReleasesOnClose = true ∨ NoSR s)
    (hJ1 : 0 < tot srW s.ws → s.ehTok = true) (hJ2 : s.eh = .closing → s.ehTok = true)
    (h : Step cfg f s t) (inv : TokE s) : TokE t := by
  unfold TokE at *
  obtain ⟨f1, f2, f3⟩ := h3
  have c1 := b2n_le s.trOpen
  have c2 := b2n_le s.ehTok
  have c3 := b2n_le s.closeTok
  have c4 := b2n_le s.tok
  cases h with
  | startPut _ i hi =>
    clear h4 hJ1 hJ2
    have l1 := le_tot tokW _ _ _ hi
    (try simp only [St.setDone, St.setBg, ↓reduceIte, Bool.false_eq_true, Bool.and_false, Bool.and_true, Bool.false_and, Bool.true_and]) <;> (repeat' split) <;> simp_all [tot_set_eq _ _ _ _ _ hi, tot_ackWs_tok, tot_ackWs_clk, tot_ackWs_trlk, tokW, b2n_true, b2n_false, bgClk_run, bgClk_idle, bgClk_exited, bgClk_parked, bgClk_clearW, bgClk_afterCmd, bphClk, St.bg, onOk, onErr, selNext, afterSetErr, srAllW, srW] <;> (try omega)
  | startWrite _ i hi =>
    clear h4 hJ1 hJ2
    have l1 := le_tot tokW _ _ _ hi
    (try simp only [St.setDone, St.setBg, ↓reduceIte, Bool.false_eq_true, Bool.and_false, Bool.and_true, Bool.false_and, Bool.true_and]) <;> (repeat' split) <;> simp_all [tot_set_eq _ _ _ _ _ hi, tot_ackWs_tok, tot_ackWs_clk, tot_ackWs_trlk, tokW, b2n_true, b2n_false, bgClk_run, bgClk_idle, bgClk_exited, bgClk_parked, bgClk_clearW, bgClk_afterCmd, bphClk, St.bg, onOk, onErr, selNext, afterSetErr, srAllW, srW] <;> (try omega)
  | startOtx _ i hi =>
    clear h4 hJ1 hJ2
    have l1 := le_tot tokW _ _ _ hi
    (try simp only [St.setDone, St.setBg, ↓reduceIte, Bool.false_eq_true, Bool.and_false, Bool.and_true, Bool.false_and, Bool.true_and]) <;> (repeat' split) <;> simp_all [tot_set_eq _ _ _ _ _ hi, tot_ackWs_tok, tot_ackWs_clk, tot_ackWs_trlk, tokW, b2n_true, b2n_false, bgClk_run, bgClk_idle, bgClk_exited, bgClk_parked, bgClk_clearW, bgClk_afterCmd, bphClk, St.bg, onOk, onErr, selNext, afterSetErr, srAllW, srW] <;> (try omega)
  | startCommit _ i hi hu =>
    clear h4 hJ1 hJ2
    have l1 := le_tot tokW _ _ _ hi
    (try simp only [St.setDone, St.setBg, ↓reduceIte, Bool.false_eq_true, Bool.and_false, Bool.and_true, Bool.false_and, Bool.true_and]) <;> (repeat' split) <;> simp_all [tot_set_eq _ _ _ _ _ hi, tot_ackWs_tok, tot_ackWs_clk, tot_ackWs_trlk, tokW, b2n_true, b2n_false, bgClk_run, bgClk_idle, bgClk_exited, bgClk_parked, bgClk_clearW, bgClk_afterCmd, bphClk, St.bg, onOk, onErr, selNext, afterSetErr, srAllW, srW] <;> (try omega)
  | startDiscard _ i hi hu =>
    clear h4 hJ1 hJ2
    have l1 := le_tot tokW _ _ _ hi
    (try simp only [St.setDone, St.setBg, ↓reduceIte, Bool.false_eq_true, Bool.and_false, Bool.and_true, Bool.false_and, Bool.true_and]) <;> (repeat' split) <;> simp_all [tot_set_eq _ _ _ _ _ hi, tot_ackWs_tok, tot_ackWs_clk, tot_ackWs_trlk, tokW, b2n_true, b2n_false, bgClk_run, bgClk_idle, bgClk_exited, bgClk_parked, bgClk_clearW, bgClk_afterCmd, bphClk, St.bg, onOk, onErr, selNext, afterSetErr, srAllW, srW] <;> (try omega)
  | startCR _ i hi =>
    clear h4 hJ1 hJ2
    have l1 := le_tot tokW _ _ _ hi
    (try simp only [St.setDone, St.setBg, ↓reduceIte, Bool.false_eq_true, Bool.and_false, Bool.and_true, Bool.false_and, Bool.true_and]) <;> (repeat' split) <;> simp_all [tot_set_eq _ _ _ _ _ hi, tot_ackWs_tok, tot_ackWs_clk, tot_ackWs_trlk, tokW, b2n_true, b2n_false, bgClk_run, bgClk_idle, bgClk_exited, bgClk_parked, bgClk_clearW, bgClk_afterCmd, bphClk, St.bg, onOk, onErr, selNext, afterSetErr, srAllW, srW] <;> (try omega)
  | startSR _ i hi ha =>
    clear h4 hJ1 hJ2
    have l1 := le_tot tokW _ _ _ hi
    (try simp only [St.setDone, St.setBg, ↓reduceIte, Bool.false_eq_true, Bool.and_false, Bool.and_true, Bool.false_and, Bool.true_and]) <;> (repeat' split) <;> simp_all [tot_set_eq _ _ _ _ _ hi, tot_ackWs_tok, tot_ackWs_clk, tot_ackWs_trlk, tokW, b2n_true, b2n_false, bgClk_run, bgClk_idle, bgClk_exited, bgClk_parked, bgClk_clearW, bgClk_afterCmd, bphClk, St.bg, onOk, onErr, selNext, afterSetErr, srAllW, srW] <;> (try omega)
  | startClose _ i hi =>
    clear h4 hJ1 hJ2
    have l1 := le_tot tokW _ _ _ hi
    (try simp only [St.setDone, St.setBg, ↓reduceIte, Bool.false_eq_true, Bool.and_false, Bool.and_true, Bool.false_and, Bool.true_and]) <;> (repeat' split) <;> simp_all [tot_set_eq _ _ _ _ _ hi, tot_ackWs_tok, tot_ackWs_clk, tot_ackWs_trlk, tokW, b2n_true, b2n_false, bgClk_run, bgClk_idle, bgClk_exited, bgClk_parked, bgClk_clearW, bgClk_afterCmd, bphClk, St.bg, onOk, onErr, selNext, afterSetErr, srAllW, srW] <;> (try omega)
  | selTok _ i p q hi hq ht =>
    clear h4 hJ1 hJ2
    have l1 := le_tot tokW _ _ _ hi
    cases p <;> simp only [selNext] at hq <;> (try contradiction) <;> cases hq <;> simp_all [tot_set_eq _ _ _ _ _ hi, tot_ackWs_tok, tot_ackWs_clk, tot_ackWs_trlk, tokW, b2n_true, b2n_false, bgClk_run, bgClk_idle, bgClk_exited, bgClk_parked, bgClk_clearW, bgClk_afterCmd, bphClk, St.bg, onOk, onErr, selNext, afterSetErr, srAllW, srW] <;> (try omega)
  | selPerErr _ i p q hi hq he =>
    clear h4 hJ1 hJ2
    have l1 := le_tot tokW _ _ _ hi
    cases p <;> simp only [selNext] at hq <;> (try contradiction) <;> cases hq <;> simp_all [tot_set_eq _ _ _ _ _ hi, tot_ackWs_tok, tot_ackWs_clk, tot_ackWs_trlk, tokW, b2n_true, b2n_false, bgClk_run, bgClk_idle, bgClk_exited, bgClk_parked, bgClk_clearW, bgClk_afterCmd, bphClk, St.bg, onOk, onErr, selNext, afterSetErr, srAllW, srW] <;> (try omega)
  | selClosed _ i p q hi hq hc =>
    clear h4 hJ1 hJ2
    have l1 := le_tot tokW _ _ _ hi
    cases p <;> simp only [selNext] at hq <;> (try contradiction) <;> cases hq <;> simp_all [tot_set_eq _ _ _ _ _ hi, tot_ackWs_tok, tot_ackWs_clk, tot_ackWs_trlk, tokW, b2n_true, b2n_false, bgClk_run, bgClk_idle, bgClk_exited, bgClk_parked, bgClk_clearW, bgClk_afterCmd, bphClk, St.bg, onOk, onErr, selNext, afterSetErr, srAllW, srW] <;> (try omega)
  | putNoWait _ i hi =>
    clear h4 hJ1 hJ2
    have l1 := le_tot tokW _ _ _ hi
    (try simp only [St.setDone, St.setBg, ↓reduceIte, Bool.false_eq_true, Bool.and_false, Bool.and_true, Bool.false_and, Bool.true_and]) <;> (repeat' split) <;> simp_all [tot_set_eq _ _ _ _ _ hi, tot_ackWs_tok, tot_ackWs_clk, tot_ackWs_trlk, tokW, b2n_true, b2n_false, bgClk_run, bgClk_idle, bgClk_exited, bgClk_parked, bgClk_clearW, bgClk_afterCmd, bphClk, St.bg, onOk, onErr, selNext, afterSetErr, srAllW, srW] <;> (try omega)
  | putWait _ i b hi =>
    clear h4 hJ1 hJ2
    have l1 := le_tot tokW _ _ _ hi
    cases b <;> (try simp only [St.setDone, St.setBg, ↓reduceIte, Bool.false_eq_true, Bool.and_false, Bool.and_true, Bool.false_and, Bool.true_and]) <;> (repeat' split) <;> simp_all [tot_set_eq _ _ _ _ _ hi, tot_ackWs_tok, tot_ackWs_clk, tot_ackWs_trlk, tokW, b2n_true, b2n_false, bgClk_run, bgClk_idle, bgClk_exited, bgClk_parked, bgClk_clearW, bgClk_afterCmd, bphClk, St.bg, onOk, onErr, selNext, afterSetErr, srAllW, srW] <;> (try omega)
  | putJournalOk _ i hi =>
    clear h4 hJ1 hJ2
    have l1 := le_tot tokW _ _ _ hi
    (try simp only [St.setDone, St.setBg, ↓reduceIte, Bool.false_eq_true, Bool.and_false, Bool.and_true, Bool.false_and, Bool.true_and]) <;> (repeat' split) <;> simp_all [tot_set_eq _ _ _ _ _ hi, tot_ackWs_tok, tot_ackWs_clk, tot_ackWs_trlk, tokW, b2n_true, b2n_false, bgClk_run, bgClk_idle, bgClk_exited, bgClk_parked, bgClk_clearW, bgClk_afterCmd, bphClk, St.bg, onOk, onErr, selNext, afterSetErr, srAllW, srW] <;> (try omega)
  | putJournalFail _ i hi =>
    clear h4 hJ1 hJ2
    have l1 := le_tot tokW _ _ _ hi
    (try simp only [St.setDone, St.setBg, ↓reduceIte, Bool.false_eq_true, Bool.and_false, Bool.and_true, Bool.false_and, Bool.true_and]) <;> (repeat' split) <;> simp_all [tot_set_eq _ _ _ _ _ hi, tot_ackWs_tok, tot_ackWs_clk, tot_ackWs_trlk, tokW, b2n_true, b2n_false, bgClk_run, bgClk_idle, bgClk_exited, bgClk_parked, bgClk_clearW, bgClk_afterCmd, bphClk, St.bg, onOk, onErr, selNext, afterSetErr, srAllW, srW] <;> (try omega)
  | putUnlock _ i r hi =>
    clear h4 hJ1 hJ2
    have l1 := le_tot tokW _ _ _ hi
    cases r <;> (try simp only [St.setDone, St.setBg, ↓reduceIte, Bool.false_eq_true, Bool.and_false, Bool.and_true, Bool.false_and, Bool.true_and]) <;> (repeat' split) <;> simp_all [tot_set_eq _ _ _ _ _ hi, tot_ackWs_tok, tot_ackWs_clk, tot_ackWs_trlk, tokW, b2n_true, b2n_false, bgClk_run, bgClk_idle, bgClk_exited, bgClk_parked, bgClk_clearW, bgClk_afterCmd, bphClk, St.bg, onOk, onErr, selNext, afterSetErr, srAllW, srW] <;> (try omega)
  | cwSendGo _ i b site lg hi hb hro =>
    clear h4 hJ1 hJ2
    have l1 := le_tot tokW _ _ _ hi
    cases site <;> cases b <;> cases lg <;> (try simp only [St.setDone, St.setBg, ↓reduceIte, Bool.false_eq_true, Bool.and_false, Bool.and_true, Bool.false_and, Bool.true_and]) <;> (repeat' split) <;> simp_all [tot_set_eq _ _ _ _ _ hi, tot_ackWs_tok, tot_ackWs_clk, tot_ackWs_trlk, tokW, b2n_true, b2n_false, bgClk_run, bgClk_idle, bgClk_exited, bgClk_parked, bgClk_clearW, bgClk_afterCmd, bphClk, St.bg, onOk, onErr, selNext, afterSetErr, srAllW, srW] <;> (try omega)
  | cwSendRO _ i site lg hi hb hp hro =>
    clear h4 hJ1 hJ2
    have l1 := le_tot tokW _ _ _ hi
    cases site <;> cases lg <;> (try simp only [St.setDone, St.setBg, ↓reduceIte, Bool.false_eq_true, Bool.and_false, Bool.and_true, Bool.false_and, Bool.true_and]) <;> (repeat' split) <;> simp_all [tot_set_eq _ _ _ _ _ hi, tot_ackWs_tok, tot_ackWs_clk, tot_ackWs_trlk, tokW, b2n_true, b2n_false, bgClk_run, bgClk_idle, bgClk_exited, bgClk_parked, bgClk_clearW, bgClk_afterCmd, bphClk, St.bg, onOk, onErr, selNext, afterSetErr, srAllW, srW] <;> (try omega)
  | cwSendErr _ i b site lg hi he =>
    clear h4 hJ1 hJ2
    have l1 := le_tot tokW _ _ _ hi
    cases site <;> cases b <;> cases lg <;> (try simp only [St.setDone, St.setBg, ↓reduceIte, Bool.false_eq_true, Bool.and_false, Bool.and_true, Bool.false_and, Bool.true_and]) <;> (repeat' split) <;> simp_all [tot_set_eq _ _ _ _ _ hi, tot_ackWs_tok, tot_ackWs_clk, tot_ackWs_trlk, tokW, b2n_true, b2n_false, bgClk_run, bgClk_idle, bgClk_exited, bgClk_parked, bgClk_clearW, bgClk_afterCmd, bphClk, St.bg, onOk, onErr, selNext, afterSetErr, srAllW, srW] <;> (try omega)
  | cwAckErr _ i b site lg hi he =>
    clear h4 hJ1 hJ2
    have l1 := le_tot tokW _ _ _ hi
    cases site <;> cases b <;> cases lg <;> (try simp only [St.setDone, St.setBg, ↓reduceIte, Bool.false_eq_true, Bool.and_false, Bool.and_true, Bool.false_and, Bool.true_and]) <;> (repeat' split) <;> simp_all [tot_set_eq _ _ _ _ _ hi, tot_ackWs_tok, tot_ackWs_clk, tot_ackWs_trlk, tokW, b2n_true, b2n_false, bgClk_run, bgClk_idle, bgClk_exited, bgClk_parked, bgClk_clearW, bgClk_afterCmd, bphClk, St.bg, onOk, onErr, selNext, afterSetErr, srAllW, srW] <;> (try omega)
  | otxRotate _ i lg hi =>
    clear h4 hJ1 hJ2
    have l1 := le_tot tokW _ _ _ hi
    cases lg <;> (try simp only [St.setDone, St.setBg, ↓reduceIte, Bool.false_eq_true, Bool.and_false, Bool.and_true, Bool.false_and, Bool.true_and]) <;> (repeat' split) <;> simp_all [tot_set_eq _ _ _ _ _ hi, tot_ackWs_tok, tot_ackWs_clk, tot_ackWs_trlk, tokW, b2n_true, b2n_false, bgClk_run, bgClk_idle, bgClk_exited, bgClk_parked, bgClk_clearW, bgClk_afterCmd, bphClk, St.bg, onOk, onErr, selNext, afterSetErr, srAllW, srW] <;> (try omega)
  | otxNoRotate _ i lg hi =>
    clear h4 hJ1 hJ2
    have l1 := le_tot tokW _ _ _ hi
    cases lg <;> (try simp only [St.setDone, St.setBg, ↓reduceIte, Bool.false_eq_true, Bool.and_false, Bool.and_true, Bool.false_and, Bool.true_and]) <;> (repeat' split) <;> simp_all [tot_set_eq _ _ _ _ _ hi, tot_ackWs_tok, tot_ackWs_clk, tot_ackWs_trlk, tokW, b2n_true, b2n_false, bgClk_run, bgClk_idle, bgClk_exited, bgClk_parked, bgClk_clearW, bgClk_afterCmd, bphClk, St.bg, onOk, onErr, selNext, afterSetErr, srAllW, srW] <;> (try omega)
  | otxNewMemOk _ i lg hi =>
    clear h4 hJ1 hJ2
    have l1 := le_tot tokW _ _ _ hi
    cases lg <;> (try simp only [St.setDone, St.setBg, ↓reduceIte, Bool.false_eq_true, Bool.and_false, Bool.and_true, Bool.false_and, Bool.true_and]) <;> (repeat' split) <;> simp_all [tot_set_eq _ _ _ _ _ hi, tot_ackWs_tok, tot_ackWs_clk, tot_ackWs_trlk, tokW, b2n_true, b2n_false, bgClk_run, bgClk_idle, bgClk_exited, bgClk_parked, bgClk_clearW, bgClk_afterCmd, bphClk, St.bg, onOk, onErr, selNext, afterSetErr, srAllW, srW] <;> (try omega)
  | otxNewMemFail _ i lg hi =>
    clear h4 hJ1 hJ2
    have l1 := le_tot tokW _ _ _ hi
    cases lg <;> (try simp only [St.setDone, St.setBg, ↓reduceIte, Bool.false_eq_true, Bool.and_false, Bool.and_true, Bool.false_and, Bool.true_and]) <;> (repeat' split) <;> simp_all [tot_set_eq _ _ _ _ _ hi, tot_ackWs_tok, tot_ackWs_clk, tot_ackWs_trlk, tokW, b2n_true, b2n_false, bgClk_run, bgClk_idle, bgClk_exited, bgClk_parked, bgClk_clearW, bgClk_afterCmd, bphClk, St.bg, onOk, onErr, selNext, afterSetErr, srAllW, srW] <;> (try omega)
  | otxNoWaitComp _ i lg hi =>
    clear h4 hJ1 hJ2
    have l1 := le_tot tokW _ _ _ hi
    cases lg <;> (try simp only [St.setDone, St.setBg, ↓reduceIte, Bool.false_eq_true, Bool.and_false, Bool.and_true, Bool.false_and, Bool.true_and]) <;> (repeat' split) <;> simp_all [tot_set_eq _ _ _ _ _ hi, tot_ackWs_tok, tot_ackWs_clk, tot_ackWs_trlk, tokW, b2n_true, b2n_false, bgClk_run, bgClk_idle, bgClk_exited, bgClk_parked, bgClk_clearW, bgClk_afterCmd, bphClk, St.bg, onOk, onErr, selNext, afterSetErr, srAllW, srW] <;> (try omega)
  | otxWaitComp _ i lg hi =>
    clear h4 hJ1 hJ2
    have l1 := le_tot tokW _ _ _ hi
    cases lg <;> (try simp only [St.setDone, St.setBg, ↓reduceIte, Bool.false_eq_true, Bool.and_false, Bool.and_true, Bool.false_and, Bool.true_and]) <;> (repeat' split) <;> simp_all [tot_set_eq _ _ _ _ _ hi, tot_ackWs_tok, tot_ackWs_clk, tot_ackWs_trlk, tokW, b2n_true, b2n_false, bgClk_run, bgClk_idle, bgClk_exited, bgClk_parked, bgClk_clearW, bgClk_afterCmd, bphClk, St.bg, onOk, onErr, selNext, afterSetErr, srAllW, srW] <;> (try omega)
  | otxFail _ i lg hi =>
    clear h4 hJ1 hJ2
    have l1 := le_tot tokW _ _ _ hi
    cases lg <;> (try simp only [St.setDone, St.setBg, ↓reduceIte, Bool.false_eq_true, Bool.and_false, Bool.and_true, Bool.false_and, Bool.true_and]) <;> (repeat' split) <;> simp_all [tot_set_eq _ _ _ _ _ hi, tot_ackWs_tok, tot_ackWs_clk, tot_ackWs_trlk, tokW, b2n_true, b2n_false, bgClk_run, bgClk_idle, bgClk_exited, bgClk_parked, bgClk_clearW, bgClk_afterCmd, bphClk, St.bg, onOk, onErr, selNext, afterSetErr, srAllW, srW] <;> (try omega)
  | otxRel _ i lg hi =>
    clear h4 hJ1 hJ2
    have l1 := le_tot tokW _ _ _ hi
    cases lg <;> (try simp only [St.setDone, St.setBg, ↓reduceIte, Bool.false_eq_true, Bool.and_false, Bool.and_true, Bool.false_and, Bool.true_and]) <;> (repeat' split) <;> simp_all [tot_set_eq _ _ _ _ _ hi, tot_ackWs_tok, tot_ackWs_clk, tot_ackWs_trlk, tokW, b2n_true, b2n_false, bgClk_run, bgClk_idle, bgClk_exited, bgClk_parked, bgClk_clearW, bgClk_afterCmd, bphClk, St.bg, onOk, onErr, selNext, afterSetErr, srAllW, srW] <;> (try omega)
  | otxDone _ i lg hi =>
    clear h4 hJ1 hJ2
    have l1 := le_tot tokW _ _ _ hi
    cases lg <;> (try simp only [St.setDone, St.setBg, ↓reduceIte, Bool.false_eq_true, Bool.and_false, Bool.and_true, Bool.false_and, Bool.true_and]) <;> (repeat' split) <;> simp_all [tot_set_eq _ _ _ _ _ hi, tot_ackWs_tok, tot_ackWs_clk, tot_ackWs_trlk, tokW, b2n_true, b2n_false, bgClk_run, bgClk_idle, bgClk_exited, bgClk_parked, bgClk_clearW, bgClk_afterCmd, bphClk, St.bg, onOk, onErr, selNext, afterSetErr, srAllW, srW] <;> (try omega)
  | lgWriteOk _ i hi =>
    clear h4 hJ1 hJ2
    have l1 := le_tot tokW _ _ _ hi
    (try simp only [St.setDone, St.setBg, ↓reduceIte, Bool.false_eq_true, Bool.and_false, Bool.and_true, Bool.false_and, Bool.true_and]) <;> (repeat' split) <;> simp_all [tot_set_eq _ _ _ _ _ hi, tot_ackWs_tok, tot_ackWs_clk, tot_ackWs_trlk, tokW, b2n_true, b2n_false, bgClk_run, bgClk_idle, bgClk_exited, bgClk_parked, bgClk_clearW, bgClk_afterCmd, bphClk, St.bg, onOk, onErr, selNext, afterSetErr, srAllW, srW] <;> (try omega)
  | lgWriteFail _ i hi =>
    clear h4 hJ1 hJ2
    have l1 := le_tot tokW _ _ _ hi
    (try simp only [St.setDone, St.setBg, ↓reduceIte, Bool.false_eq_true, Bool.and_false, Bool.and_true, Bool.false_and, Bool.true_and]) <;> (repeat' split) <;> simp_all [tot_set_eq _ _ _ _ _ hi, tot_ackWs_tok, tot_ackWs_clk, tot_ackWs_trlk, tokW, b2n_true, b2n_false, bgClk_run, bgClk_idle, bgClk_exited, bgClk_parked, bgClk_clearW, bgClk_afterCmd, bphClk, St.bg, onOk, onErr, selNext, afterSetErr, srAllW, srW] <;> (try omega)
  | cmLockTr _ i lg hi hl =>
    clear h4 hJ1 hJ2
    have l1 := le_tot tokW _ _ _ hi
    cases lg <;> (try simp only [St.setDone, St.setBg, ↓reduceIte, Bool.false_eq_true, Bool.and_false, Bool.and_true, Bool.false_and, Bool.true_and]) <;> (repeat' split) <;> simp_all [tot_set_eq _ _ _ _ _ hi, tot_ackWs_tok, tot_ackWs_clk, tot_ackWs_trlk, tokW, b2n_true, b2n_false, bgClk_run, bgClk_idle, bgClk_exited, bgClk_parked, bgClk_clearW, bgClk_afterCmd, bphClk, St.bg, onOk, onErr, selNext, afterSetErr, srAllW, srW] <;> (try omega)
  | cmFlushOk _ i lg hi =>
    clear h4 hJ1 hJ2
    have l1 := le_tot tokW _ _ _ hi
    cases lg <;> (try simp only [St.setDone, St.setBg, ↓reduceIte, Bool.false_eq_true, Bool.and_false, Bool.and_true, Bool.false_and, Bool.true_and]) <;> (repeat' split) <;> simp_all [tot_set_eq _ _ _ _ _ hi, tot_ackWs_tok, tot_ackWs_clk, tot_ackWs_trlk, tokW, b2n_true, b2n_false, bgClk_run, bgClk_idle, bgClk_exited, bgClk_parked, bgClk_clearW, bgClk_afterCmd, bphClk, St.bg, onOk, onErr, selNext, afterSetErr, srAllW, srW] <;> (try omega)
  | cmFlushEmpty _ i lg hi =>
    clear h4 hJ1 hJ2
    have l1 := le_tot tokW _ _ _ hi
    cases lg <;> (try simp only [St.setDone, St.setBg, ↓reduceIte, Bool.false_eq_true, Bool.and_false, Bool.and_true, Bool.false_and, Bool.true_and]) <;> (repeat' split) <;> simp_all [tot_set_eq _ _ _ _ _ hi, tot_ackWs_tok, tot_ackWs_clk, tot_ackWs_trlk, tokW, b2n_true, b2n_false, bgClk_run, bgClk_idle, bgClk_exited, bgClk_parked, bgClk_clearW, bgClk_afterCmd, bphClk, St.bg, onOk, onErr, selNext, afterSetErr, srAllW, srW] <;> (try omega)
  | cmFlushFail _ i lg hi =>
    clear h4 hJ1 hJ2
    have l1 := le_tot tokW _ _ _ hi
    cases lg <;> (try simp only [St.setDone, St.setBg, ↓reduceIte, Bool.false_eq_true, Bool.and_false, Bool.and_true, Bool.false_and, Bool.true_and]) <;> (repeat' split) <;> simp_all [tot_set_eq _ _ _ _ _ hi, tot_ackWs_tok, tot_ackWs_clk, tot_ackWs_trlk, tokW, b2n_true, b2n_false, bgClk_run, bgClk_idle, bgClk_exited, bgClk_parked, bgClk_clearW, bgClk_afterCmd, bphClk, St.bg, onOk, onErr, selNext, afterSetErr, srAllW, srW] <;> (try omega)
  | cmLockClk _ i lg hi hl =>
    clear h4 hJ1 hJ2
    have l1 := le_tot tokW _ _ _ hi
    cases lg <;> (try simp only [St.setDone, St.setBg, ↓reduceIte, Bool.false_eq_true, Bool.and_false, Bool.and_true, Bool.false_and, Bool.true_and]) <;> (repeat' split) <;> simp_all [tot_set_eq _ _ _ _ _ hi, tot_ackWs_tok, tot_ackWs_clk, tot_ackWs_trlk, tokW, b2n_true, b2n_false, bgClk_run, bgClk_idle, bgClk_exited, bgClk_parked, bgClk_clearW, bgClk_afterCmd, bphClk, St.bg, onOk, onErr, selNext, afterSetErr, srAllW, srW] <;> (try omega)
  | cmTryOk _ i k lg hi =>
    clear h4 hJ1 hJ2
    have l1 := le_tot tokW _ _ _ hi
    cases lg <;> (try simp only [St.setDone, St.setBg, ↓reduceIte, Bool.false_eq_true, Bool.and_false, Bool.and_true, Bool.false_and, Bool.true_and]) <;> (repeat' split) <;> simp_all [tot_set_eq _ _ _ _ _ hi, tot_ackWs_tok, tot_ackWs_clk, tot_ackWs_trlk, tokW, b2n_true, b2n_false, bgClk_run, bgClk_idle, bgClk_exited, bgClk_parked, bgClk_clearW, bgClk_afterCmd, bphClk, St.bg, onOk, onErr, selNext, afterSetErr, srAllW, srW] <;> (try omega)
  | cmTryFail _ i k lg hi =>
    clear h4 hJ1 hJ2
    have l1 := le_tot tokW _ _ _ hi
    cases lg <;> (try simp only [St.setDone, St.setBg, ↓reduceIte, Bool.false_eq_true, Bool.and_false, Bool.and_true, Bool.false_and, Bool.true_and]) <;> (repeat' split) <;> simp_all [tot_set_eq _ _ _ _ _ hi, tot_ackWs_tok, tot_ackWs_clk, tot_ackWs_trlk, tokW, b2n_true, b2n_false, bgClk_run, bgClk_idle, bgClk_exited, bgClk_parked, bgClk_clearW, bgClk_afterCmd, bphClk, St.bg, onOk, onErr, selNext, afterSetErr, srAllW, srW] <;> (try omega)
  | cmSleepTimer _ i k lg hi =>
    clear h4 hJ1 hJ2
    have l1 := le_tot tokW _ _ _ hi
    cases lg <;> (try simp only [St.setDone, St.setBg, ↓reduceIte, Bool.false_eq_true, Bool.and_false, Bool.and_true, Bool.false_and, Bool.true_and]) <;> (repeat' split) <;> simp_all [tot_set_eq _ _ _ _ _ hi, tot_ackWs_tok, tot_ackWs_clk, tot_ackWs_trlk, tokW, b2n_true, b2n_false, bgClk_run, bgClk_idle, bgClk_exited, bgClk_parked, bgClk_clearW, bgClk_afterCmd, bphClk, St.bg, onOk, onErr, selNext, afterSetErr, srAllW, srW] <;> (try omega)
  | cmSleepClosed _ i k lg hi hc =>
    clear h4 hJ1 hJ2
    have l1 := le_tot tokW _ _ _ hi
    cases lg <;> (try simp only [St.setDone, St.setBg, ↓reduceIte, Bool.false_eq_true, Bool.and_false, Bool.and_true, Bool.false_and, Bool.true_and]) <;> (repeat' split) <;> simp_all [tot_set_eq _ _ _ _ _ hi, tot_ackWs_tok, tot_ackWs_clk, tot_ackWs_trlk, tokW, b2n_true, b2n_false, bgClk_run, bgClk_idle, bgClk_exited, bgClk_parked, bgClk_clearW, bgClk_afterCmd, bphClk, St.bg, onOk, onErr, selNext, afterSetErr, srAllW, srW] <;> (try omega)
  | cmFail3 _ i lg hi =>
    clear h4 hJ1 hJ2
    have l1 := le_tot tokW _ _ _ hi
    cases lg <;> (try simp only [St.setDone, St.setBg, ↓reduceIte, Bool.false_eq_true, Bool.and_false, Bool.and_true, Bool.false_and, Bool.true_and]) <;> (repeat' split) <;> simp_all [tot_set_eq _ _ _ _ _ hi, tot_ackWs_tok, tot_ackWs_clk, tot_ackWs_trlk, tokW, b2n_true, b2n_false, bgClk_run, bgClk_idle, bgClk_exited, bgClk_parked, bgClk_clearW, bgClk_afterCmd, bphClk, St.bg, onOk, onErr, selNext, afterSetErr, srAllW, srW] <;> (try omega)
  | cmAfterOk _ i lg hi =>
    clear h4 hJ1 hJ2
    have l1 := le_tot tokW _ _ _ hi
    cases lg <;> (try simp only [St.setDone, St.setBg, ↓reduceIte, Bool.false_eq_true, Bool.and_false, Bool.and_true, Bool.false_and, Bool.true_and]) <;> (repeat' split) <;> simp_all [tot_set_eq _ _ _ _ _ hi, tot_ackWs_tok, tot_ackWs_clk, tot_ackWs_trlk, tokW, b2n_true, b2n_false, bgClk_run, bgClk_idle, bgClk_exited, bgClk_parked, bgClk_clearW, bgClk_afterCmd, bphClk, St.bg, onOk, onErr, selNext, afterSetErr, srAllW, srW] <;> (try omega)
  | cmNoWaitComp _ i lg hi =>
    clear h4 hJ1 hJ2
    have l1 := le_tot tokW _ _ _ hi
    cases lg <;> (try simp only [St.setDone, St.setBg, ↓reduceIte, Bool.false_eq_true, Bool.and_false, Bool.and_true, Bool.false_and, Bool.true_and]) <;> (repeat' split) <;> simp_all [tot_set_eq _ _ _ _ _ hi, tot_ackWs_tok, tot_ackWs_clk, tot_ackWs_trlk, tokW, b2n_true, b2n_false, bgClk_run, bgClk_idle, bgClk_exited, bgClk_parked, bgClk_clearW, bgClk_afterCmd, bphClk, St.bg, onOk, onErr, selNext, afterSetErr, srAllW, srW] <;> (try omega)
  | cmWaitComp _ i lg hi =>
    clear h4 hJ1 hJ2
    have l1 := le_tot tokW _ _ _ hi
    cases lg <;> (try simp only [St.setDone, St.setBg, ↓reduceIte, Bool.false_eq_true, Bool.and_false, Bool.and_true, Bool.false_and, Bool.true_and]) <;> (repeat' split) <;> simp_all [tot_set_eq _ _ _ _ _ hi, tot_ackWs_tok, tot_ackWs_clk, tot_ackWs_trlk, tokW, b2n_true, b2n_false, bgClk_run, bgClk_idle, bgClk_exited, bgClk_parked, bgClk_clearW, bgClk_afterCmd, bphClk, St.bg, onOk, onErr, selNext, afterSetErr, srAllW, srW] <;> (try omega)
  | cmDone _ i lg hi =>
    clear h4 hJ1 hJ2
    have l1 := le_tot tokW _ _ _ hi
    cases lg <;> (try simp only [St.setDone, St.setBg, ↓reduceIte, Bool.false_eq_true, Bool.and_false, Bool.and_true, Bool.false_and, Bool.true_and]) <;> (repeat' split) <;> simp_all [tot_set_eq _ _ _ _ _ hi, tot_ackWs_tok, tot_ackWs_clk, tot_ackWs_trlk, tokW, b2n_true, b2n_false, bgClk_run, bgClk_idle, bgClk_exited, bgClk_parked, bgClk_clearW, bgClk_afterCmd, bphClk, St.bg, onOk, onErr, selNext, afterSetErr, srAllW, srW] <;> (try omega)
  | cmRet _ i ok lg hi =>
    clear h4 hJ1 hJ2
    have l1 := le_tot tokW _ _ _ hi
    cases ok <;> cases lg <;> (try simp only [St.setDone, St.setBg, ↓reduceIte, Bool.false_eq_true, Bool.and_false, Bool.and_true, Bool.false_and, Bool.true_and]) <;> (repeat' split) <;> simp_all [tot_set_eq _ _ _ _ _ hi, tot_ackWs_tok, tot_ackWs_clk, tot_ackWs_trlk, tokW, b2n_true, b2n_false, bgClk_run, bgClk_idle, bgClk_exited, bgClk_parked, bgClk_clearW, bgClk_afterCmd, bphClk, St.bg, onOk, onErr, selNext, afterSetErr, srAllW, srW] <;> (try omega)
  | dcLockTr _ i lg hi hl =>
    clear h4 hJ1 hJ2
    have l1 := le_tot tokW _ _ _ hi
    cases lg <;> (try simp only [St.setDone, St.setBg, ↓reduceIte, Bool.false_eq_true, Bool.and_false, Bool.and_true, Bool.false_and, Bool.true_and]) <;> (repeat' split) <;> simp_all [tot_set_eq _ _ _ _ _ hi, tot_ackWs_tok, tot_ackWs_clk, tot_ackWs_trlk, tokW, b2n_true, b2n_false, bgClk_run, bgClk_idle, bgClk_exited, bgClk_parked, bgClk_clearW, bgClk_afterCmd, bphClk, St.bg, onOk, onErr, selNext, afterSetErr, srAllW, srW] <;> (try omega)
  | dcBody _ i lg hi =>
    clear h4 hJ1 hJ2
    have l1 := le_tot tokW _ _ _ hi
    cases lg <;> (try simp only [St.setDone, St.setBg, ↓reduceIte, Bool.false_eq_true, Bool.and_false, Bool.and_true, Bool.false_and, Bool.true_and]) <;> (repeat' split) <;> simp_all [tot_set_eq _ _ _ _ _ hi, tot_ackWs_tok, tot_ackWs_clk, tot_ackWs_trlk, tokW, b2n_true, b2n_false, bgClk_run, bgClk_idle, bgClk_exited, bgClk_parked, bgClk_clearW, bgClk_afterCmd, bphClk, St.bg, onOk, onErr, selNext, afterSetErr, srAllW, srW] <;> (try omega)
  | crNoOverlap _ i hi =>
    clear h4 hJ1 hJ2
    have l1 := le_tot tokW _ _ _ hi
    (try simp only [St.setDone, St.setBg, ↓reduceIte, Bool.false_eq_true, Bool.and_false, Bool.and_true, Bool.false_and, Bool.true_and]) <;> (repeat' split) <;> simp_all [tot_set_eq _ _ _ _ _ hi, tot_ackWs_tok, tot_ackWs_clk, tot_ackWs_trlk, tokW, b2n_true, b2n_false, bgClk_run, bgClk_idle, bgClk_exited, bgClk_parked, bgClk_clearW, bgClk_afterCmd, bphClk, St.bg, onOk, onErr, selNext, afterSetErr, srAllW, srW] <;> (try omega)
  | crOverlap _ i hi =>
    clear h4 hJ1 hJ2
    have l1 := le_tot tokW _ _ _ hi
    (try simp only [St.setDone, St.setBg, ↓reduceIte, Bool.false_eq_true, Bool.and_false, Bool.and_true, Bool.false_and, Bool.true_and]) <;> (repeat' split) <;> simp_all [tot_set_eq _ _ _ _ _ hi, tot_ackWs_tok, tot_ackWs_clk, tot_ackWs_trlk, tokW, b2n_true, b2n_false, bgClk_run, bgClk_idle, bgClk_exited, bgClk_parked, bgClk_clearW, bgClk_afterCmd, bphClk, St.bg, onOk, onErr, selNext, afterSetErr, srAllW, srW] <;> (try omega)
  | crNewMemOk _ i hi =>
    clear h4 hJ1 hJ2
    have l1 := le_tot tokW _ _ _ hi
    (try simp only [St.setDone, St.setBg, ↓reduceIte, Bool.false_eq_true, Bool.and_false, Bool.and_true, Bool.false_and, Bool.true_and]) <;> (repeat' split) <;> simp_all [tot_set_eq _ _ _ _ _ hi, tot_ackWs_tok, tot_ackWs_clk, tot_ackWs_trlk, tokW, b2n_true, b2n_false, bgClk_run, bgClk_idle, bgClk_exited, bgClk_parked, bgClk_clearW, bgClk_afterCmd, bphClk, St.bg, onOk, onErr, selNext, afterSetErr, srAllW, srW] <;> (try omega)
  | crNewMemFail _ i hi =>
    clear h4 hJ1 hJ2
    have l1 := le_tot tokW _ _ _ hi
    (try simp only [St.setDone, St.setBg, ↓reduceIte, Bool.false_eq_true, Bool.and_false, Bool.and_true, Bool.false_and, Bool.true_and]) <;> (repeat' split) <;> simp_all [tot_set_eq _ _ _ _ _ hi, tot_ackWs_tok, tot_ackWs_clk, tot_ackWs_trlk, tokW, b2n_true, b2n_false, bgClk_run, bgClk_idle, bgClk_exited, bgClk_parked, bgClk_clearW, bgClk_afterCmd, bphClk, St.bg, onOk, onErr, selNext, afterSetErr, srAllW, srW] <;> (try omega)
  | crRelM _ i hi =>
    clear h4 hJ1 hJ2
    have l1 := le_tot tokW _ _ _ hi
    (try simp only [St.setDone, St.setBg, ↓reduceIte, Bool.false_eq_true, Bool.and_false, Bool.and_true, Bool.false_and, Bool.true_and]) <;> (repeat' split) <;> simp_all [tot_set_eq _ _ _ _ _ hi, tot_ackWs_tok, tot_ackWs_clk, tot_ackWs_trlk, tokW, b2n_true, b2n_false, bgClk_run, bgClk_idle, bgClk_exited, bgClk_parked, bgClk_clearW, bgClk_afterCmd, bphClk, St.bg, onOk, onErr, selNext, afterSetErr, srAllW, srW] <;> (try omega)
  | crRelOk _ i hi =>
    clear h4 hJ1 hJ2
    have l1 := le_tot tokW _ _ _ hi
    (try simp only [St.setDone, St.setBg, ↓reduceIte, Bool.false_eq_true, Bool.and_false, Bool.and_true, Bool.false_and, Bool.true_and]) <;> (repeat' split) <;> simp_all [tot_set_eq _ _ _ _ _ hi, tot_ackWs_tok, tot_ackWs_clk, tot_ackWs_trlk, tokW, b2n_true, b2n_false, bgClk_run, bgClk_idle, bgClk_exited, bgClk_parked, bgClk_clearW, bgClk_afterCmd, bphClk, St.bg, onOk, onErr, selNext, afterSetErr, srAllW, srW] <;> (try omega)
  | crRelFail _ i hi =>
    clear h4 hJ1 hJ2
    have l1 := le_tot tokW _ _ _ hi
    (try simp only [St.setDone, St.setBg, ↓reduceIte, Bool.false_eq_true, Bool.and_false, Bool.and_true, Bool.false_and, Bool.true_and]) <;> (repeat' split) <;> simp_all [tot_set_eq _ _ _ _ _ hi, tot_ackWs_tok, tot_ackWs_clk, tot_ackWs_trlk, tokW, b2n_true, b2n_false, bgClk_run, bgClk_idle, bgClk_exited, bgClk_parked, bgClk_clearW, bgClk_afterCmd, bphClk, St.bg, onOk, onErr, selNext, afterSetErr, srAllW, srW] <;> (try omega)
  | srSend _ i hi he =>
    clear h4 hJ1 hJ2
    have l1 := le_tot tokW _ _ _ hi
    (try simp only [St.setDone, St.setBg, ↓reduceIte, Bool.false_eq_true, Bool.and_false, Bool.and_true, Bool.false_and, Bool.true_and]) <;> (repeat' split) <;> simp_all [tot_set_eq _ _ _ _ _ hi, tot_ackWs_tok, tot_ackWs_clk, tot_ackWs_trlk, tokW, b2n_true, b2n_false, bgClk_run, bgClk_idle, bgClk_exited, bgClk_parked, bgClk_clearW, bgClk_afterCmd, bphClk, St.bg, onOk, onErr, selNext, afterSetErr, srAllW, srW] <;> (try omega)
  | srPerErr _ i hi he =>
    have lw := le_tot srW _ _ _ hi
    have hj := hJ1 (by simp only [srW] at lw; omega)
    clear h4
    (try simp only [St.setDone, St.setBg, ↓reduceIte, Bool.false_eq_true, Bool.and_false, Bool.and_true, Bool.false_and, Bool.true_and]) <;> (repeat' split) <;> simp_all [tot_set_eq _ _ _ _ _ hi, tot_ackWs_tok, tot_ackWs_clk, tot_ackWs_trlk, tokW, b2n_true, b2n_false, bgClk_run, bgClk_idle, bgClk_exited, bgClk_parked, bgClk_clearW, bgClk_afterCmd, bphClk, St.bg, onOk, onErr, selNext, afterSetErr, srAllW, srW] <;> (try omega)
  | srClosed _ i hi hc =>
    have ls := le_tot srAllW _ _ _ hi
    have lw := le_tot srW _ _ _ hi
    have hj := hJ1 (by simp only [srW] at lw; omega)
    rcases h4 with h4 | ⟨_, h4⟩ <;> (try simp only [St.setDone, St.setBg, ↓reduceIte, Bool.false_eq_true, Bool.and_false, Bool.and_true, Bool.false_and, Bool.true_and]) <;> (repeat' split) <;> simp_all [tot_set_eq _ _ _ _ _ hi, tot_ackWs_tok, tot_ackWs_clk, tot_ackWs_trlk, tokW, b2n_true, b2n_false, bgClk_run, bgClk_idle, bgClk_exited, bgClk_parked, bgClk_clearW, bgClk_afterCmd, bphClk, St.bg, onOk, onErr, selNext, afterSetErr, srAllW, srW] <;> (try omega)
  | clCheckTr _ i hi =>
    clear h4 hJ1 hJ2
    have l1 := le_tot tokW _ _ _ hi
    (try simp only [St.setDone, St.setBg, ↓reduceIte, Bool.false_eq_true, Bool.and_false, Bool.and_true, Bool.false_and, Bool.true_and]) <;> (repeat' split) <;> simp_all [tot_set_eq _ _ _ _ _ hi, tot_ackWs_tok, tot_ackWs_clk, tot_ackWs_trlk, tokW, b2n_true, b2n_false, bgClk_run, bgClk_idle, bgClk_exited, bgClk_parked, bgClk_clearW, bgClk_afterCmd, bphClk, St.bg, onOk, onErr, selNext, afterSetErr, srAllW, srW] <;> (try omega)
  | clLockTr _ i hi hl =>
    clear h4 hJ1 hJ2
    have l1 := le_tot tokW _ _ _ hi
    (try simp only [St.setDone, St.setBg, ↓reduceIte, Bool.false_eq_true, Bool.and_false, Bool.and_true, Bool.false_and, Bool.true_and]) <;> (repeat' split) <;> simp_all [tot_set_eq _ _ _ _ _ hi, tot_ackWs_tok, tot_ackWs_clk, tot_ackWs_trlk, tokW, b2n_true, b2n_false, bgClk_run, bgClk_idle, bgClk_exited, bgClk_parked, bgClk_clearW, bgClk_afterCmd, bphClk, St.bg, onOk, onErr, selNext, afterSetErr, srAllW, srW] <;> (try omega)
  | clBody _ i hi =>
    clear h4 hJ1 hJ2
    have l1 := le_tot tokW _ _ _ hi
    (try simp only [St.setDone, St.setBg, ↓reduceIte, Bool.false_eq_true, Bool.and_false, Bool.and_true, Bool.false_and, Bool.true_and]) <;> (repeat' split) <;> simp_all [tot_set_eq _ _ _ _ _ hi, tot_ackWs_tok, tot_ackWs_clk, tot_ackWs_trlk, tokW, b2n_true, b2n_false, bgClk_run, bgClk_idle, bgClk_exited, bgClk_parked, bgClk_clearW, bgClk_afterCmd, bphClk, St.bg, onOk, onErr, selNext, afterSetErr, srAllW, srW] <;> (try omega)
  | clAcq _ i hi ht =>
    clear h4 hJ1 hJ2
    have l1 := le_tot tokW _ _ _ hi
    (try simp only [St.setDone, St.setBg, ↓reduceIte, Bool.false_eq_true, Bool.and_false, Bool.and_true, Bool.false_and, Bool.true_and]) <;> (repeat' split) <;> simp_all [tot_set_eq _ _ _ _ _ hi, tot_ackWs_tok, tot_ackWs_clk, tot_ackWs_trlk, tokW, b2n_true, b2n_false, bgClk_run, bgClk_idle, bgClk_exited, bgClk_parked, bgClk_clearW, bgClk_afterCmd, bphClk, St.bg, onOk, onErr, selNext, afterSetErr, srAllW, srW] <;> (try omega)
  | clAcqKept _ i hi he hk hs =>
    have hj := hJ2 he
    clear h4 hJ1 hJ2
    have l1 := le_tot tokW _ _ _ hi
    (try simp only [St.setDone, St.setBg, ↓reduceIte, Bool.false_eq_true, Bool.and_false, Bool.and_true, Bool.false_and, Bool.true_and]) <;> (repeat' split) <;> simp_all [tot_set_eq _ _ _ _ _ hi, tot_ackWs_tok, tot_ackWs_clk, tot_ackWs_trlk, tokW, b2n_true, b2n_false, bgClk_run, bgClk_idle, bgClk_exited, bgClk_parked, bgClk_clearW, bgClk_afterCmd, bphClk, St.bg, onOk, onErr, selNext, afterSetErr, srAllW, srW] <;> (try omega)
  | clWait _ i hi hm ht =>
    clear h4 hJ1 hJ2
    have l1 := le_tot tokW _ _ _ hi
    (try simp only [St.setDone, St.setBg, ↓reduceIte, Bool.false_eq_true, Bool.and_false, Bool.and_true, Bool.false_and, Bool.true_and]) <;> (repeat' split) <;> simp_all [tot_set_eq _ _ _ _ _ hi, tot_ackWs_tok, tot_ackWs_clk, tot_ackWs_trlk, tokW, b2n_true, b2n_false, bgClk_run, bgClk_idle, bgClk_exited, bgClk_parked, bgClk_clearW, bgClk_afterCmd, bphClk, St.bg, onOk, onErr, selNext, afterSetErr, srAllW, srW] <;> (try omega)
  | ehAcquire _ he ht =>
    clear h4 hJ1 hJ2
    (try simp only [St.setDone, St.setBg, ↓reduceIte, Bool.false_eq_true, Bool.and_false, Bool.and_true, Bool.false_and, Bool.true_and]) <;> (repeat' split) <;> simp_all [tot_ackWs_tok, tot_ackWs_clk, tot_ackWs_trlk, tokW, b2n_true, b2n_false, bgClk_run, bgClk_idle, bgClk_exited, bgClk_parked, bgClk_clearW, bgClk_afterCmd, bphClk, St.bg, onOk, onErr, selNext, afterSetErr, srAllW, srW] <;> (try omega)
  | ehClose _ he hc =>
    clear h4 hJ1 hJ2
    (try simp only [St.setDone, St.setBg, ↓reduceIte, Bool.false_eq_true, Bool.and_false, Bool.and_true, Bool.false_and, Bool.true_and]) <;> (repeat' split) <;> simp_all [tot_ackWs_tok, tot_ackWs_clk, tot_ackWs_trlk, tokW, b2n_true, b2n_false, bgClk_run, bgClk_idle, bgClk_exited, bgClk_parked, bgClk_clearW, bgClk_afterCmd, bphClk, St.bg, onOk, onErr, selNext, afterSetErr, srAllW, srW] <;> (try omega)
  | ehTake _ he ht =>
    have hj := hJ2 he
    simp_all [tot_ackWs_tok, tot_ackWs_clk, tot_ackWs_trlk, tokW, b2n_true, b2n_false, bgClk_run, bgClk_idle, bgClk_exited, bgClk_parked, bgClk_clearW, bgClk_afterCmd, bphClk, St.bg, onOk, onErr, selNext, afterSetErr, srAllW, srW] <;> (try omega)
  | bgExitIdle _ b hb hc =>
    clear h4 hJ1 hJ2
    cases b <;> (try simp only [St.setDone, St.setBg, ↓reduceIte, Bool.false_eq_true, Bool.and_false, Bool.and_true, Bool.false_and, Bool.true_and]) <;> (repeat' split) <;> simp_all [tot_ackWs_tok, tot_ackWs_clk, tot_ackWs_trlk, tokW, b2n_true, b2n_false, bgClk_run, bgClk_idle, bgClk_exited, bgClk_parked, bgClk_clearW, bgClk_afterCmd, bphClk, St.bg, onOk, onErr, selNext, afterSetErr, srAllW, srW] <;> (try omega)
  | bgExitParked _ hb hc =>
    clear h4 hJ1 hJ2
    (try simp only [St.setDone, St.setBg, ↓reduceIte, Bool.false_eq_true, Bool.and_false, Bool.and_true, Bool.false_and, Bool.true_and]) <;> (repeat' split) <;> simp_all [tot_ackWs_tok, tot_ackWs_clk, tot_ackWs_trlk, tokW, b2n_true, b2n_false, bgClk_run, bgClk_idle, bgClk_exited, bgClk_parked, bgClk_clearW, bgClk_afterCmd, bphClk, St.bg, onOk, onErr, selNext, afterSetErr, srAllW, srW] <;> (try omega)
  | bgWorkCorrupt _ b w hb hk =>
    clear h4 hJ1 hJ2
    cases b <;> (try simp only [St.setDone, St.setBg, ↓reduceIte, Bool.false_eq_true, Bool.and_false, Bool.and_true, Bool.false_and, Bool.true_and]) <;> (repeat' split) <;> simp_all [tot_ackWs_tok, tot_ackWs_clk, tot_ackWs_trlk, tokW, b2n_true, b2n_false, bgClk_run, bgClk_idle, bgClk_exited, bgClk_parked, bgClk_clearW, bgClk_afterCmd, bphClk, St.bg, onOk, onErr, selNext, afterSetErr, srAllW, srW] <;> (try omega)
  | bgCommitCorrupt _ b w hb hk =>
    clear h4 hJ1 hJ2
    cases b <;> (try simp only [St.setDone, St.setBg, ↓reduceIte, Bool.false_eq_true, Bool.and_false, Bool.and_true, Bool.false_and, Bool.true_and]) <;> (repeat' split) <;> simp_all [tot_ackWs_tok, tot_ackWs_clk, tot_ackWs_trlk, tokW, b2n_true, b2n_false, bgClk_run, bgClk_idle, bgClk_exited, bgClk_parked, bgClk_clearW, bgClk_afterCmd, bphClk, St.bg, onOk, onErr, selNext, afterSetErr, srAllW, srW] <;> (try omega)
  | bgSetErrCorrupt _ b w c hb he =>
    clear h4 hJ1 hJ2
    cases b <;> cases c <;> (try simp only [St.setDone, St.setBg, ↓reduceIte, Bool.false_eq_true, Bool.and_false, Bool.and_true, Bool.false_and, Bool.true_and]) <;> (repeat' split) <;> simp_all [tot_ackWs_tok, tot_ackWs_clk, tot_ackWs_trlk, tokW, b2n_true, b2n_false, bgClk_run, bgClk_idle, bgClk_exited, bgClk_parked, bgClk_clearW, bgClk_afterCmd, bphClk, St.bg, onOk, onErr, selNext, afterSetErr, srAllW, srW] <;> (try omega)
  | bgWorkOk _ b w hb =>
    clear h4 hJ1 hJ2
    cases b <;> (try simp only [St.setDone, St.setBg, ↓reduceIte, Bool.false_eq_true, Bool.and_false, Bool.and_true, Bool.false_and, Bool.true_and]) <;> (repeat' split) <;> simp_all [tot_ackWs_tok, tot_ackWs_clk, tot_ackWs_trlk, tokW, b2n_true, b2n_false, bgClk_run, bgClk_idle, bgClk_exited, bgClk_parked, bgClk_clearW, bgClk_afterCmd, bphClk, St.bg, onOk, onErr, selNext, afterSetErr, srAllW, srW] <;> (try omega)
  | bgWorkFail _ b w hb =>
    clear h4 hJ1 hJ2
    cases b <;> (try simp only [St.setDone, St.setBg, ↓reduceIte, Bool.false_eq_true, Bool.and_false, Bool.and_true, Bool.false_and, Bool.true_and]) <;> (repeat' split) <;> simp_all [tot_ackWs_tok, tot_ackWs_clk, tot_ackWs_trlk, tokW, b2n_true, b2n_false, bgClk_run, bgClk_idle, bgClk_exited, bgClk_parked, bgClk_clearW, bgClk_afterCmd, bphClk, St.bg, onOk, onErr, selNext, afterSetErr, srAllW, srW] <;> (try omega)
  | bgCommitOk _ b w hb =>
    clear h4 hJ1 hJ2
    cases b <;> (try simp only [St.setDone, St.setBg, ↓reduceIte, Bool.false_eq_true, Bool.and_false, Bool.and_true, Bool.false_and, Bool.true_and]) <;> (repeat' split) <;> simp_all [tot_ackWs_tok, tot_ackWs_clk, tot_ackWs_trlk, tokW, b2n_true, b2n_false, bgClk_run, bgClk_idle, bgClk_exited, bgClk_parked, bgClk_clearW, bgClk_afterCmd, bphClk, St.bg, onOk, onErr, selNext, afterSetErr, srAllW, srW] <;> (try omega)
  | bgCommitFail _ b w hb =>
    clear h4 hJ1 hJ2
    cases b <;> (try simp only [St.setDone, St.setBg, ↓reduceIte, Bool.false_eq_true, Bool.and_false, Bool.and_true, Bool.false_and, Bool.true_and]) <;> (repeat' split) <;> simp_all [tot_ackWs_tok, tot_ackWs_clk, tot_ackWs_trlk, tokW, b2n_true, b2n_false, bgClk_run, bgClk_idle, bgClk_exited, bgClk_parked, bgClk_clearW, bgClk_afterCmd, bphClk, St.bg, onOk, onErr, selNext, afterSetErr, srAllW, srW] <;> (try omega)
  | bgSetErr _ b w ok c hb he =>
    clear h4 hJ1 hJ2
    cases b <;> cases ok <;> cases c <;> (try simp only [St.setDone, St.setBg, ↓reduceIte, Bool.false_eq_true, Bool.and_false, Bool.and_true, Bool.false_and, Bool.true_and]) <;> (repeat' split) <;> simp_all [tot_ackWs_tok, tot_ackWs_clk, tot_ackWs_trlk, tokW, b2n_true, b2n_false, bgClk_run, bgClk_idle, bgClk_exited, bgClk_parked, bgClk_clearW, bgClk_afterCmd, bphClk, St.bg, onOk, onErr, selNext, afterSetErr, srAllW, srW] <;> (try omega)
  | bgSetErrPer _ b w c hb he =>
    clear h4 hJ1 hJ2
    cases b <;> cases c <;> (try simp only [St.setDone, St.setBg, ↓reduceIte, Bool.false_eq_true, Bool.and_false, Bool.and_true, Bool.false_and, Bool.true_and]) <;> (repeat' split) <;> simp_all [tot_ackWs_tok, tot_ackWs_clk, tot_ackWs_trlk, tokW, b2n_true, b2n_false, bgClk_run, bgClk_idle, bgClk_exited, bgClk_parked, bgClk_clearW, bgClk_afterCmd, bphClk, St.bg, onOk, onErr, selNext, afterSetErr, srAllW, srW] <;> (try omega)
  | bgBackoff _ b w c hb =>
    clear h4 hJ1 hJ2
    cases b <;> cases c <;> (try simp only [St.setDone, St.setBg, ↓reduceIte, Bool.false_eq_true, Bool.and_false, Bool.and_true, Bool.false_and, Bool.true_and]) <;> (repeat' split) <;> simp_all [tot_ackWs_tok, tot_ackWs_clk, tot_ackWs_trlk, tokW, b2n_true, b2n_false, bgClk_run, bgClk_idle, bgClk_exited, bgClk_parked, bgClk_clearW, bgClk_afterCmd, bphClk, St.bg, onOk, onErr, selNext, afterSetErr, srAllW, srW] <;> (try omega)
  | bgLockClk _ b w hb hl =>
    clear h4 hJ1 hJ2
    cases b <;> (try simp only [St.setDone, St.setBg, ↓reduceIte, Bool.false_eq_true, Bool.and_false, Bool.and_true, Bool.false_and, Bool.true_and]) <;> (repeat' split) <;> simp_all [tot_ackWs_tok, tot_ackWs_clk, tot_ackWs_trlk, tokW, b2n_true, b2n_false, bgClk_run, bgClk_idle, bgClk_exited, bgClk_parked, bgClk_clearW, bgClk_afterCmd, bphClk, St.bg, onOk, onErr, selNext, afterSetErr, srAllW, srW] <;> (try omega)
  | bgAck _ b w hb =>
    clear h4 hJ1 hJ2
    cases b <;> (try simp only [St.setDone, St.setBg, ↓reduceIte, Bool.false_eq_true, Bool.and_false, Bool.and_true, Bool.false_and, Bool.true_and]) <;> (repeat' split) <;> simp_all [tot_ackWs_tok, tot_ackWs_clk, tot_ackWs_trlk, tokW, b2n_true, b2n_false, bgClk_run, bgClk_idle, bgClk_exited, bgClk_parked, bgClk_clearW, bgClk_afterCmd, bphClk, St.bg, onOk, onErr, selNext, afterSetErr, srAllW, srW] <;> (try omega)
  | bgExit _ b w ph hb hx =>
    clear h4 hJ1 hJ2
    cases b <;> cases ph <;> (try simp only [St.setDone, St.setBg, ↓reduceIte, Bool.false_eq_true, Bool.and_false, Bool.and_true, Bool.false_and, Bool.true_and]) <;> (repeat' split) <;> simp_all [tot_ackWs_tok, tot_ackWs_clk, tot_ackWs_trlk, tokW, b2n_true, b2n_false, bgClk_run, bgClk_idle, bgClk_exited, bgClk_parked, bgClk_clearW, bgClk_afterCmd, bphClk, St.bg, onOk, onErr, selNext, afterSetErr, srAllW, srW] <;> (try omega)

end GoLevel.Locks
