import GoLevel.Proofs.LocksCount
/-! Every step of a configuration with the three fixes (and the fourth, or no `SetReadOnly`) preserves the ownership accounting (tokW). -/
namespace GoLevel.Locks
set_option linter.unusedSimpArgs false

theorem step_rinv_tok (s t : St) (f : Bool) (cfg : Cfg) (h3 : Fixed3 cfg)
    (h4 : cfg.setReadOnlyReleasesOnClose = true ∨ NoSR s) (h : Step cfg f s t) (inv : RInv s) :
    tot tokW t.ws + b2n t.trOpen + b2n t.ehTok + b2n t.closeTok = b2n t.tok := by
  obtain ⟨f1, f2, f3⟩ := h3
  obtain ⟨h1, h2, h3⟩ := inv
  have c1 := b2n_le s.trOpen
  have c2 := b2n_le s.ehTok
  have c3 := b2n_le s.closeTok
  have c4 := b2n_le s.tok
  have c5 := b2n_le s.clk
  have c6 := b2n_le s.trlk
  clear h2 h3 c5 c6
  cases h with
  | startPut _ i hi =>
    clear h4
    have l1 := le_tot tokW _ _ _ hi
    (try simp only [St.setDone, St.setBg]) <;> (repeat' split) <;> simp_all [tot_set_eq _ _ _ _ _ hi, tot_ackWs_tok, tot_ackWs_clk, tot_ackWs_trlk, b2n_true, b2n_false, bgClk_run, bgClk_idle, bgClk_exited, bgClk_clearW, tokW, bphClk, St.bg, onOk, onErr, selNext, afterSetErr, srAllW] <;> (try omega)
  | startWrite _ i hi =>
    clear h4
    have l1 := le_tot tokW _ _ _ hi
    (try simp only [St.setDone, St.setBg]) <;> (repeat' split) <;> simp_all [tot_set_eq _ _ _ _ _ hi, tot_ackWs_tok, tot_ackWs_clk, tot_ackWs_trlk, b2n_true, b2n_false, bgClk_run, bgClk_idle, bgClk_exited, bgClk_clearW, tokW, bphClk, St.bg, onOk, onErr, selNext, afterSetErr, srAllW] <;> (try omega)
  | startOtx _ i hi =>
    clear h4
    have l1 := le_tot tokW _ _ _ hi
    (try simp only [St.setDone, St.setBg]) <;> (repeat' split) <;> simp_all [tot_set_eq _ _ _ _ _ hi, tot_ackWs_tok, tot_ackWs_clk, tot_ackWs_trlk, b2n_true, b2n_false, bgClk_run, bgClk_idle, bgClk_exited, bgClk_clearW, tokW, bphClk, St.bg, onOk, onErr, selNext, afterSetErr, srAllW] <;> (try omega)
  | startCommit _ i hi hu =>
    clear h4
    have l1 := le_tot tokW _ _ _ hi
    (try simp only [St.setDone, St.setBg]) <;> (repeat' split) <;> simp_all [tot_set_eq _ _ _ _ _ hi, tot_ackWs_tok, tot_ackWs_clk, tot_ackWs_trlk, b2n_true, b2n_false, bgClk_run, bgClk_idle, bgClk_exited, bgClk_clearW, tokW, bphClk, St.bg, onOk, onErr, selNext, afterSetErr, srAllW] <;> (try omega)
  | startDiscard _ i hi hu =>
    clear h4
    have l1 := le_tot tokW _ _ _ hi
    (try simp only [St.setDone, St.setBg]) <;> (repeat' split) <;> simp_all [tot_set_eq _ _ _ _ _ hi, tot_ackWs_tok, tot_ackWs_clk, tot_ackWs_trlk, b2n_true, b2n_false, bgClk_run, bgClk_idle, bgClk_exited, bgClk_clearW, tokW, bphClk, St.bg, onOk, onErr, selNext, afterSetErr, srAllW] <;> (try omega)
  | startCR _ i hi =>
    clear h4
    have l1 := le_tot tokW _ _ _ hi
    (try simp only [St.setDone, St.setBg]) <;> (repeat' split) <;> simp_all [tot_set_eq _ _ _ _ _ hi, tot_ackWs_tok, tot_ackWs_clk, tot_ackWs_trlk, b2n_true, b2n_false, bgClk_run, bgClk_idle, bgClk_exited, bgClk_clearW, tokW, bphClk, St.bg, onOk, onErr, selNext, afterSetErr, srAllW] <;> (try omega)
  | startSR _ i hi ha =>
    clear h4
    have l1 := le_tot tokW _ _ _ hi
    (try simp only [St.setDone, St.setBg]) <;> (repeat' split) <;> simp_all [tot_set_eq _ _ _ _ _ hi, tot_ackWs_tok, tot_ackWs_clk, tot_ackWs_trlk, b2n_true, b2n_false, bgClk_run, bgClk_idle, bgClk_exited, bgClk_clearW, tokW, bphClk, St.bg, onOk, onErr, selNext, afterSetErr, srAllW] <;> (try omega)
  | startClose _ i hi =>
    clear h4
    have l1 := le_tot tokW _ _ _ hi
    (try simp only [St.setDone, St.setBg]) <;> (repeat' split) <;> simp_all [tot_set_eq _ _ _ _ _ hi, tot_ackWs_tok, tot_ackWs_clk, tot_ackWs_trlk, b2n_true, b2n_false, bgClk_run, bgClk_idle, bgClk_exited, bgClk_clearW, tokW, bphClk, St.bg, onOk, onErr, selNext, afterSetErr, srAllW] <;> (try omega)
  | selTok _ i p q hi hq ht =>
    clear h4
    have l1 := le_tot tokW _ _ _ hi
    cases p <;> simp only [selNext] at hq <;> (try contradiction) <;> cases hq <;> simp_all [tot_set_eq _ _ _ _ _ hi, tot_ackWs_tok, tot_ackWs_clk, tot_ackWs_trlk, b2n_true, b2n_false, bgClk_run, bgClk_idle, bgClk_exited, bgClk_clearW, tokW, bphClk, St.bg, onOk, onErr, selNext, afterSetErr, srAllW] <;> (try omega)
  | selPerErr _ i p q hi hq he =>
    clear h4
    have l1 := le_tot tokW _ _ _ hi
    cases p <;> simp only [selNext] at hq <;> (try contradiction) <;> cases hq <;> simp_all [tot_set_eq _ _ _ _ _ hi, tot_ackWs_tok, tot_ackWs_clk, tot_ackWs_trlk, b2n_true, b2n_false, bgClk_run, bgClk_idle, bgClk_exited, bgClk_clearW, tokW, bphClk, St.bg, onOk, onErr, selNext, afterSetErr, srAllW] <;> (try omega)
  | selClosed _ i p q hi hq hc =>
    clear h4
    have l1 := le_tot tokW _ _ _ hi
    cases p <;> simp only [selNext] at hq <;> (try contradiction) <;> cases hq <;> simp_all [tot_set_eq _ _ _ _ _ hi, tot_ackWs_tok, tot_ackWs_clk, tot_ackWs_trlk, b2n_true, b2n_false, bgClk_run, bgClk_idle, bgClk_exited, bgClk_clearW, tokW, bphClk, St.bg, onOk, onErr, selNext, afterSetErr, srAllW] <;> (try omega)
  | putNoWait _ i hi =>
    clear h4
    have l1 := le_tot tokW _ _ _ hi
    (try simp only [St.setDone, St.setBg]) <;> (repeat' split) <;> simp_all [tot_set_eq _ _ _ _ _ hi, tot_ackWs_tok, tot_ackWs_clk, tot_ackWs_trlk, b2n_true, b2n_false, bgClk_run, bgClk_idle, bgClk_exited, bgClk_clearW, tokW, bphClk, St.bg, onOk, onErr, selNext, afterSetErr, srAllW] <;> (try omega)
  | putWait _ i b hi =>
    clear h4
    have l1 := le_tot tokW _ _ _ hi
    cases b <;> (try simp only [St.setDone, St.setBg]) <;> (repeat' split) <;> simp_all [tot_set_eq _ _ _ _ _ hi, tot_ackWs_tok, tot_ackWs_clk, tot_ackWs_trlk, b2n_true, b2n_false, bgClk_run, bgClk_idle, bgClk_exited, bgClk_clearW, tokW, bphClk, St.bg, onOk, onErr, selNext, afterSetErr, srAllW] <;> (try omega)
  | putJournalOk _ i hi =>
    clear h4
    have l1 := le_tot tokW _ _ _ hi
    (try simp only [St.setDone, St.setBg]) <;> (repeat' split) <;> simp_all [tot_set_eq _ _ _ _ _ hi, tot_ackWs_tok, tot_ackWs_clk, tot_ackWs_trlk, b2n_true, b2n_false, bgClk_run, bgClk_idle, bgClk_exited, bgClk_clearW, tokW, bphClk, St.bg, onOk, onErr, selNext, afterSetErr, srAllW] <;> (try omega)
  | putJournalFail _ i hi =>
    clear h4
    have l1 := le_tot tokW _ _ _ hi
    (try simp only [St.setDone, St.setBg]) <;> (repeat' split) <;> simp_all [tot_set_eq _ _ _ _ _ hi, tot_ackWs_tok, tot_ackWs_clk, tot_ackWs_trlk, b2n_true, b2n_false, bgClk_run, bgClk_idle, bgClk_exited, bgClk_clearW, tokW, bphClk, St.bg, onOk, onErr, selNext, afterSetErr, srAllW] <;> (try omega)
  | putUnlock _ i r hi =>
    clear h4
    have l1 := le_tot tokW _ _ _ hi
    cases r <;> (try simp only [St.setDone, St.setBg]) <;> (repeat' split) <;> simp_all [tot_set_eq _ _ _ _ _ hi, tot_ackWs_tok, tot_ackWs_clk, tot_ackWs_trlk, b2n_true, b2n_false, bgClk_run, bgClk_idle, bgClk_exited, bgClk_clearW, tokW, bphClk, St.bg, onOk, onErr, selNext, afterSetErr, srAllW] <;> (try omega)
  | cwSendGo _ i b site lg hi hb =>
    clear h4
    have l1 := le_tot tokW _ _ _ hi
    cases site <;> cases b <;> cases lg <;> (try simp only [St.setDone, St.setBg]) <;> (repeat' split) <;> simp_all [tot_set_eq _ _ _ _ _ hi, tot_ackWs_tok, tot_ackWs_clk, tot_ackWs_trlk, b2n_true, b2n_false, bgClk_run, bgClk_idle, bgClk_exited, bgClk_clearW, tokW, bphClk, St.bg, onOk, onErr, selNext, afterSetErr, srAllW] <;> (try omega)
  | cwSendErr _ i b site lg hi he =>
    clear h4
    have l1 := le_tot tokW _ _ _ hi
    cases site <;> cases b <;> cases lg <;> (try simp only [St.setDone, St.setBg]) <;> (repeat' split) <;> simp_all [tot_set_eq _ _ _ _ _ hi, tot_ackWs_tok, tot_ackWs_clk, tot_ackWs_trlk, b2n_true, b2n_false, bgClk_run, bgClk_idle, bgClk_exited, bgClk_clearW, tokW, bphClk, St.bg, onOk, onErr, selNext, afterSetErr, srAllW] <;> (try omega)
  | cwAckErr _ i b site lg hi he =>
    clear h4
    have l1 := le_tot tokW _ _ _ hi
    cases site <;> cases b <;> cases lg <;> (try simp only [St.setDone, St.setBg]) <;> (repeat' split) <;> simp_all [tot_set_eq _ _ _ _ _ hi, tot_ackWs_tok, tot_ackWs_clk, tot_ackWs_trlk, b2n_true, b2n_false, bgClk_run, bgClk_idle, bgClk_exited, bgClk_clearW, tokW, bphClk, St.bg, onOk, onErr, selNext, afterSetErr, srAllW] <;> (try omega)
  | otxRotate _ i lg hi =>
    clear h4
    have l1 := le_tot tokW _ _ _ hi
    cases lg <;> (try simp only [St.setDone, St.setBg]) <;> (repeat' split) <;> simp_all [tot_set_eq _ _ _ _ _ hi, tot_ackWs_tok, tot_ackWs_clk, tot_ackWs_trlk, b2n_true, b2n_false, bgClk_run, bgClk_idle, bgClk_exited, bgClk_clearW, tokW, bphClk, St.bg, onOk, onErr, selNext, afterSetErr, srAllW] <;> (try omega)
  | otxNoRotate _ i lg hi =>
    clear h4
    have l1 := le_tot tokW _ _ _ hi
    cases lg <;> (try simp only [St.setDone, St.setBg]) <;> (repeat' split) <;> simp_all [tot_set_eq _ _ _ _ _ hi, tot_ackWs_tok, tot_ackWs_clk, tot_ackWs_trlk, b2n_true, b2n_false, bgClk_run, bgClk_idle, bgClk_exited, bgClk_clearW, tokW, bphClk, St.bg, onOk, onErr, selNext, afterSetErr, srAllW] <;> (try omega)
  | otxNewMemOk _ i lg hi =>
    clear h4
    have l1 := le_tot tokW _ _ _ hi
    cases lg <;> (try simp only [St.setDone, St.setBg]) <;> (repeat' split) <;> simp_all [tot_set_eq _ _ _ _ _ hi, tot_ackWs_tok, tot_ackWs_clk, tot_ackWs_trlk, b2n_true, b2n_false, bgClk_run, bgClk_idle, bgClk_exited, bgClk_clearW, tokW, bphClk, St.bg, onOk, onErr, selNext, afterSetErr, srAllW] <;> (try omega)
  | otxNewMemFail _ i lg hi =>
    clear h4
    have l1 := le_tot tokW _ _ _ hi
    cases lg <;> (try simp only [St.setDone, St.setBg]) <;> (repeat' split) <;> simp_all [tot_set_eq _ _ _ _ _ hi, tot_ackWs_tok, tot_ackWs_clk, tot_ackWs_trlk, b2n_true, b2n_false, bgClk_run, bgClk_idle, bgClk_exited, bgClk_clearW, tokW, bphClk, St.bg, onOk, onErr, selNext, afterSetErr, srAllW] <;> (try omega)
  | otxNoWaitComp _ i lg hi =>
    clear h4
    have l1 := le_tot tokW _ _ _ hi
    cases lg <;> (try simp only [St.setDone, St.setBg]) <;> (repeat' split) <;> simp_all [tot_set_eq _ _ _ _ _ hi, tot_ackWs_tok, tot_ackWs_clk, tot_ackWs_trlk, b2n_true, b2n_false, bgClk_run, bgClk_idle, bgClk_exited, bgClk_clearW, tokW, bphClk, St.bg, onOk, onErr, selNext, afterSetErr, srAllW] <;> (try omega)
  | otxWaitComp _ i lg hi =>
    clear h4
    have l1 := le_tot tokW _ _ _ hi
    cases lg <;> (try simp only [St.setDone, St.setBg]) <;> (repeat' split) <;> simp_all [tot_set_eq _ _ _ _ _ hi, tot_ackWs_tok, tot_ackWs_clk, tot_ackWs_trlk, b2n_true, b2n_false, bgClk_run, bgClk_idle, bgClk_exited, bgClk_clearW, tokW, bphClk, St.bg, onOk, onErr, selNext, afterSetErr, srAllW] <;> (try omega)
  | otxFail _ i lg hi =>
    clear h4
    have l1 := le_tot tokW _ _ _ hi
    cases lg <;> (try simp only [St.setDone, St.setBg]) <;> (repeat' split) <;> simp_all [tot_set_eq _ _ _ _ _ hi, tot_ackWs_tok, tot_ackWs_clk, tot_ackWs_trlk, b2n_true, b2n_false, bgClk_run, bgClk_idle, bgClk_exited, bgClk_clearW, tokW, bphClk, St.bg, onOk, onErr, selNext, afterSetErr, srAllW] <;> (try omega)
  | otxRel _ i lg hi =>
    clear h4
    have l1 := le_tot tokW _ _ _ hi
    cases lg <;> (try simp only [St.setDone, St.setBg]) <;> (repeat' split) <;> simp_all [tot_set_eq _ _ _ _ _ hi, tot_ackWs_tok, tot_ackWs_clk, tot_ackWs_trlk, b2n_true, b2n_false, bgClk_run, bgClk_idle, bgClk_exited, bgClk_clearW, tokW, bphClk, St.bg, onOk, onErr, selNext, afterSetErr, srAllW] <;> (try omega)
  | otxDone _ i lg hi =>
    clear h4
    have l1 := le_tot tokW _ _ _ hi
    cases lg <;> (try simp only [St.setDone, St.setBg]) <;> (repeat' split) <;> simp_all [tot_set_eq _ _ _ _ _ hi, tot_ackWs_tok, tot_ackWs_clk, tot_ackWs_trlk, b2n_true, b2n_false, bgClk_run, bgClk_idle, bgClk_exited, bgClk_clearW, tokW, bphClk, St.bg, onOk, onErr, selNext, afterSetErr, srAllW] <;> (try omega)
  | lgWriteOk _ i hi =>
    clear h4
    have l1 := le_tot tokW _ _ _ hi
    (try simp only [St.setDone, St.setBg]) <;> (repeat' split) <;> simp_all [tot_set_eq _ _ _ _ _ hi, tot_ackWs_tok, tot_ackWs_clk, tot_ackWs_trlk, b2n_true, b2n_false, bgClk_run, bgClk_idle, bgClk_exited, bgClk_clearW, tokW, bphClk, St.bg, onOk, onErr, selNext, afterSetErr, srAllW] <;> (try omega)
  | lgWriteFail _ i hi =>
    clear h4
    have l1 := le_tot tokW _ _ _ hi
    (try simp only [St.setDone, St.setBg]) <;> (repeat' split) <;> simp_all [tot_set_eq _ _ _ _ _ hi, tot_ackWs_tok, tot_ackWs_clk, tot_ackWs_trlk, b2n_true, b2n_false, bgClk_run, bgClk_idle, bgClk_exited, bgClk_clearW, tokW, bphClk, St.bg, onOk, onErr, selNext, afterSetErr, srAllW] <;> (try omega)
  | cmLockTr _ i lg hi hl =>
    clear h4
    have l1 := le_tot tokW _ _ _ hi
    cases lg <;> (try simp only [St.setDone, St.setBg]) <;> (repeat' split) <;> simp_all [tot_set_eq _ _ _ _ _ hi, tot_ackWs_tok, tot_ackWs_clk, tot_ackWs_trlk, b2n_true, b2n_false, bgClk_run, bgClk_idle, bgClk_exited, bgClk_clearW, tokW, bphClk, St.bg, onOk, onErr, selNext, afterSetErr, srAllW] <;> (try omega)
  | cmFlushOk _ i lg hi =>
    clear h4
    have l1 := le_tot tokW _ _ _ hi
    cases lg <;> (try simp only [St.setDone, St.setBg]) <;> (repeat' split) <;> simp_all [tot_set_eq _ _ _ _ _ hi, tot_ackWs_tok, tot_ackWs_clk, tot_ackWs_trlk, b2n_true, b2n_false, bgClk_run, bgClk_idle, bgClk_exited, bgClk_clearW, tokW, bphClk, St.bg, onOk, onErr, selNext, afterSetErr, srAllW] <;> (try omega)
  | cmFlushEmpty _ i lg hi =>
    clear h4
    have l1 := le_tot tokW _ _ _ hi
    cases lg <;> (try simp only [St.setDone, St.setBg]) <;> (repeat' split) <;> simp_all [tot_set_eq _ _ _ _ _ hi, tot_ackWs_tok, tot_ackWs_clk, tot_ackWs_trlk, b2n_true, b2n_false, bgClk_run, bgClk_idle, bgClk_exited, bgClk_clearW, tokW, bphClk, St.bg, onOk, onErr, selNext, afterSetErr, srAllW] <;> (try omega)
  | cmFlushFail _ i lg hi =>
    clear h4
    have l1 := le_tot tokW _ _ _ hi
    cases lg <;> (try simp only [St.setDone, St.setBg]) <;> (repeat' split) <;> simp_all [tot_set_eq _ _ _ _ _ hi, tot_ackWs_tok, tot_ackWs_clk, tot_ackWs_trlk, b2n_true, b2n_false, bgClk_run, bgClk_idle, bgClk_exited, bgClk_clearW, tokW, bphClk, St.bg, onOk, onErr, selNext, afterSetErr, srAllW] <;> (try omega)
  | cmLockClk _ i lg hi hl =>
    clear h4
    have l1 := le_tot tokW _ _ _ hi
    cases lg <;> (try simp only [St.setDone, St.setBg]) <;> (repeat' split) <;> simp_all [tot_set_eq _ _ _ _ _ hi, tot_ackWs_tok, tot_ackWs_clk, tot_ackWs_trlk, b2n_true, b2n_false, bgClk_run, bgClk_idle, bgClk_exited, bgClk_clearW, tokW, bphClk, St.bg, onOk, onErr, selNext, afterSetErr, srAllW] <;> (try omega)
  | cmTryOk _ i k lg hi =>
    clear h4
    have l1 := le_tot tokW _ _ _ hi
    cases lg <;> (try simp only [St.setDone, St.setBg]) <;> (repeat' split) <;> simp_all [tot_set_eq _ _ _ _ _ hi, tot_ackWs_tok, tot_ackWs_clk, tot_ackWs_trlk, b2n_true, b2n_false, bgClk_run, bgClk_idle, bgClk_exited, bgClk_clearW, tokW, bphClk, St.bg, onOk, onErr, selNext, afterSetErr, srAllW] <;> (try omega)
  | cmTryFail _ i k lg hi =>
    clear h4
    have l1 := le_tot tokW _ _ _ hi
    cases lg <;> (try simp only [St.setDone, St.setBg]) <;> (repeat' split) <;> simp_all [tot_set_eq _ _ _ _ _ hi, tot_ackWs_tok, tot_ackWs_clk, tot_ackWs_trlk, b2n_true, b2n_false, bgClk_run, bgClk_idle, bgClk_exited, bgClk_clearW, tokW, bphClk, St.bg, onOk, onErr, selNext, afterSetErr, srAllW] <;> (try omega)
  | cmSleepTimer _ i k lg hi =>
    clear h4
    have l1 := le_tot tokW _ _ _ hi
    cases lg <;> (try simp only [St.setDone, St.setBg]) <;> (repeat' split) <;> simp_all [tot_set_eq _ _ _ _ _ hi, tot_ackWs_tok, tot_ackWs_clk, tot_ackWs_trlk, b2n_true, b2n_false, bgClk_run, bgClk_idle, bgClk_exited, bgClk_clearW, tokW, bphClk, St.bg, onOk, onErr, selNext, afterSetErr, srAllW] <;> (try omega)
  | cmSleepClosed _ i k lg hi hc =>
    clear h4
    have l1 := le_tot tokW _ _ _ hi
    cases lg <;> (try simp only [St.setDone, St.setBg]) <;> (repeat' split) <;> simp_all [tot_set_eq _ _ _ _ _ hi, tot_ackWs_tok, tot_ackWs_clk, tot_ackWs_trlk, b2n_true, b2n_false, bgClk_run, bgClk_idle, bgClk_exited, bgClk_clearW, tokW, bphClk, St.bg, onOk, onErr, selNext, afterSetErr, srAllW] <;> (try omega)
  | cmFail3 _ i lg hi =>
    clear h4
    have l1 := le_tot tokW _ _ _ hi
    cases lg <;> (try simp only [St.setDone, St.setBg]) <;> (repeat' split) <;> simp_all [tot_set_eq _ _ _ _ _ hi, tot_ackWs_tok, tot_ackWs_clk, tot_ackWs_trlk, b2n_true, b2n_false, bgClk_run, bgClk_idle, bgClk_exited, bgClk_clearW, tokW, bphClk, St.bg, onOk, onErr, selNext, afterSetErr, srAllW] <;> (try omega)
  | cmAfterOk _ i lg hi =>
    clear h4
    have l1 := le_tot tokW _ _ _ hi
    cases lg <;> (try simp only [St.setDone, St.setBg]) <;> (repeat' split) <;> simp_all [tot_set_eq _ _ _ _ _ hi, tot_ackWs_tok, tot_ackWs_clk, tot_ackWs_trlk, b2n_true, b2n_false, bgClk_run, bgClk_idle, bgClk_exited, bgClk_clearW, tokW, bphClk, St.bg, onOk, onErr, selNext, afterSetErr, srAllW] <;> (try omega)
  | cmNoWaitComp _ i lg hi =>
    clear h4
    have l1 := le_tot tokW _ _ _ hi
    cases lg <;> (try simp only [St.setDone, St.setBg]) <;> (repeat' split) <;> simp_all [tot_set_eq _ _ _ _ _ hi, tot_ackWs_tok, tot_ackWs_clk, tot_ackWs_trlk, b2n_true, b2n_false, bgClk_run, bgClk_idle, bgClk_exited, bgClk_clearW, tokW, bphClk, St.bg, onOk, onErr, selNext, afterSetErr, srAllW] <;> (try omega)
  | cmWaitComp _ i lg hi =>
    clear h4
    have l1 := le_tot tokW _ _ _ hi
    cases lg <;> (try simp only [St.setDone, St.setBg]) <;> (repeat' split) <;> simp_all [tot_set_eq _ _ _ _ _ hi, tot_ackWs_tok, tot_ackWs_clk, tot_ackWs_trlk, b2n_true, b2n_false, bgClk_run, bgClk_idle, bgClk_exited, bgClk_clearW, tokW, bphClk, St.bg, onOk, onErr, selNext, afterSetErr, srAllW] <;> (try omega)
  | cmDone _ i lg hi =>
    clear h4
    have l1 := le_tot tokW _ _ _ hi
    cases lg <;> (try simp only [St.setDone, St.setBg]) <;> (repeat' split) <;> simp_all [tot_set_eq _ _ _ _ _ hi, tot_ackWs_tok, tot_ackWs_clk, tot_ackWs_trlk, b2n_true, b2n_false, bgClk_run, bgClk_idle, bgClk_exited, bgClk_clearW, tokW, bphClk, St.bg, onOk, onErr, selNext, afterSetErr, srAllW] <;> (try omega)
  | cmRet _ i ok lg hi =>
    clear h4
    have l1 := le_tot tokW _ _ _ hi
    cases ok <;> cases lg <;> (try simp only [St.setDone, St.setBg]) <;> (repeat' split) <;> simp_all [tot_set_eq _ _ _ _ _ hi, tot_ackWs_tok, tot_ackWs_clk, tot_ackWs_trlk, b2n_true, b2n_false, bgClk_run, bgClk_idle, bgClk_exited, bgClk_clearW, tokW, bphClk, St.bg, onOk, onErr, selNext, afterSetErr, srAllW] <;> (try omega)
  | dcLockTr _ i lg hi hl =>
    clear h4
    have l1 := le_tot tokW _ _ _ hi
    cases lg <;> (try simp only [St.setDone, St.setBg]) <;> (repeat' split) <;> simp_all [tot_set_eq _ _ _ _ _ hi, tot_ackWs_tok, tot_ackWs_clk, tot_ackWs_trlk, b2n_true, b2n_false, bgClk_run, bgClk_idle, bgClk_exited, bgClk_clearW, tokW, bphClk, St.bg, onOk, onErr, selNext, afterSetErr, srAllW] <;> (try omega)
  | dcBody _ i lg hi =>
    clear h4
    have l1 := le_tot tokW _ _ _ hi
    cases lg <;> (try simp only [St.setDone, St.setBg]) <;> (repeat' split) <;> simp_all [tot_set_eq _ _ _ _ _ hi, tot_ackWs_tok, tot_ackWs_clk, tot_ackWs_trlk, b2n_true, b2n_false, bgClk_run, bgClk_idle, bgClk_exited, bgClk_clearW, tokW, bphClk, St.bg, onOk, onErr, selNext, afterSetErr, srAllW] <;> (try omega)
  | crNoOverlap _ i hi =>
    clear h4
    have l1 := le_tot tokW _ _ _ hi
    (try simp only [St.setDone, St.setBg]) <;> (repeat' split) <;> simp_all [tot_set_eq _ _ _ _ _ hi, tot_ackWs_tok, tot_ackWs_clk, tot_ackWs_trlk, b2n_true, b2n_false, bgClk_run, bgClk_idle, bgClk_exited, bgClk_clearW, tokW, bphClk, St.bg, onOk, onErr, selNext, afterSetErr, srAllW] <;> (try omega)
  | crOverlap _ i hi =>
    clear h4
    have l1 := le_tot tokW _ _ _ hi
    (try simp only [St.setDone, St.setBg]) <;> (repeat' split) <;> simp_all [tot_set_eq _ _ _ _ _ hi, tot_ackWs_tok, tot_ackWs_clk, tot_ackWs_trlk, b2n_true, b2n_false, bgClk_run, bgClk_idle, bgClk_exited, bgClk_clearW, tokW, bphClk, St.bg, onOk, onErr, selNext, afterSetErr, srAllW] <;> (try omega)
  | crNewMemOk _ i hi =>
    clear h4
    have l1 := le_tot tokW _ _ _ hi
    (try simp only [St.setDone, St.setBg]) <;> (repeat' split) <;> simp_all [tot_set_eq _ _ _ _ _ hi, tot_ackWs_tok, tot_ackWs_clk, tot_ackWs_trlk, b2n_true, b2n_false, bgClk_run, bgClk_idle, bgClk_exited, bgClk_clearW, tokW, bphClk, St.bg, onOk, onErr, selNext, afterSetErr, srAllW] <;> (try omega)
  | crNewMemFail _ i hi =>
    clear h4
    have l1 := le_tot tokW _ _ _ hi
    (try simp only [St.setDone, St.setBg]) <;> (repeat' split) <;> simp_all [tot_set_eq _ _ _ _ _ hi, tot_ackWs_tok, tot_ackWs_clk, tot_ackWs_trlk, b2n_true, b2n_false, bgClk_run, bgClk_idle, bgClk_exited, bgClk_clearW, tokW, bphClk, St.bg, onOk, onErr, selNext, afterSetErr, srAllW] <;> (try omega)
  | crRelM _ i hi =>
    clear h4
    have l1 := le_tot tokW _ _ _ hi
    (try simp only [St.setDone, St.setBg]) <;> (repeat' split) <;> simp_all [tot_set_eq _ _ _ _ _ hi, tot_ackWs_tok, tot_ackWs_clk, tot_ackWs_trlk, b2n_true, b2n_false, bgClk_run, bgClk_idle, bgClk_exited, bgClk_clearW, tokW, bphClk, St.bg, onOk, onErr, selNext, afterSetErr, srAllW] <;> (try omega)
  | crRelOk _ i hi =>
    clear h4
    have l1 := le_tot tokW _ _ _ hi
    (try simp only [St.setDone, St.setBg]) <;> (repeat' split) <;> simp_all [tot_set_eq _ _ _ _ _ hi, tot_ackWs_tok, tot_ackWs_clk, tot_ackWs_trlk, b2n_true, b2n_false, bgClk_run, bgClk_idle, bgClk_exited, bgClk_clearW, tokW, bphClk, St.bg, onOk, onErr, selNext, afterSetErr, srAllW] <;> (try omega)
  | crRelFail _ i hi =>
    clear h4
    have l1 := le_tot tokW _ _ _ hi
    (try simp only [St.setDone, St.setBg]) <;> (repeat' split) <;> simp_all [tot_set_eq _ _ _ _ _ hi, tot_ackWs_tok, tot_ackWs_clk, tot_ackWs_trlk, b2n_true, b2n_false, bgClk_run, bgClk_idle, bgClk_exited, bgClk_clearW, tokW, bphClk, St.bg, onOk, onErr, selNext, afterSetErr, srAllW] <;> (try omega)
  | srSend _ i hi he =>
    clear h4
    have l1 := le_tot tokW _ _ _ hi
    (try simp only [St.setDone, St.setBg]) <;> (repeat' split) <;> simp_all [tot_set_eq _ _ _ _ _ hi, tot_ackWs_tok, tot_ackWs_clk, tot_ackWs_trlk, b2n_true, b2n_false, bgClk_run, bgClk_idle, bgClk_exited, bgClk_clearW, tokW, bphClk, St.bg, onOk, onErr, selNext, afterSetErr, srAllW] <;> (try omega)
  | srPerErr _ i hi he =>
    clear h4
    have l1 := le_tot tokW _ _ _ hi
    (try simp only [St.setDone, St.setBg]) <;> (repeat' split) <;> simp_all [tot_set_eq _ _ _ _ _ hi, tot_ackWs_tok, tot_ackWs_clk, tot_ackWs_trlk, b2n_true, b2n_false, bgClk_run, bgClk_idle, bgClk_exited, bgClk_clearW, tokW, bphClk, St.bg, onOk, onErr, selNext, afterSetErr, srAllW] <;> (try omega)
  | srClosed _ i hi hc =>
    have ls := le_tot srAllW _ _ _ hi
    rcases h4 with h4 | ⟨_, h4⟩ <;> (try simp only [St.setDone, St.setBg]) <;> (repeat' split) <;> simp_all [tot_set_eq _ _ _ _ _ hi, tot_ackWs_tok, tot_ackWs_clk, tot_ackWs_trlk, b2n_true, b2n_false, bgClk_run, bgClk_idle, bgClk_exited, bgClk_clearW, tokW, bphClk, St.bg, onOk, onErr, selNext, afterSetErr, srAllW] <;> (try omega)
  | clCheckTr _ i hi =>
    clear h4
    have l1 := le_tot tokW _ _ _ hi
    (try simp only [St.setDone, St.setBg]) <;> (repeat' split) <;> simp_all [tot_set_eq _ _ _ _ _ hi, tot_ackWs_tok, tot_ackWs_clk, tot_ackWs_trlk, b2n_true, b2n_false, bgClk_run, bgClk_idle, bgClk_exited, bgClk_clearW, tokW, bphClk, St.bg, onOk, onErr, selNext, afterSetErr, srAllW] <;> (try omega)
  | clLockTr _ i hi hl =>
    clear h4
    have l1 := le_tot tokW _ _ _ hi
    (try simp only [St.setDone, St.setBg]) <;> (repeat' split) <;> simp_all [tot_set_eq _ _ _ _ _ hi, tot_ackWs_tok, tot_ackWs_clk, tot_ackWs_trlk, b2n_true, b2n_false, bgClk_run, bgClk_idle, bgClk_exited, bgClk_clearW, tokW, bphClk, St.bg, onOk, onErr, selNext, afterSetErr, srAllW] <;> (try omega)
  | clBody _ i hi =>
    clear h4
    have l1 := le_tot tokW _ _ _ hi
    (try simp only [St.setDone, St.setBg]) <;> (repeat' split) <;> simp_all [tot_set_eq _ _ _ _ _ hi, tot_ackWs_tok, tot_ackWs_clk, tot_ackWs_trlk, b2n_true, b2n_false, bgClk_run, bgClk_idle, bgClk_exited, bgClk_clearW, tokW, bphClk, St.bg, onOk, onErr, selNext, afterSetErr, srAllW] <;> (try omega)
  | clAcq _ i hi ht =>
    clear h4
    have l1 := le_tot tokW _ _ _ hi
    (try simp only [St.setDone, St.setBg]) <;> (repeat' split) <;> simp_all [tot_set_eq _ _ _ _ _ hi, tot_ackWs_tok, tot_ackWs_clk, tot_ackWs_trlk, b2n_true, b2n_false, bgClk_run, bgClk_idle, bgClk_exited, bgClk_clearW, tokW, bphClk, St.bg, onOk, onErr, selNext, afterSetErr, srAllW] <;> (try omega)
  | clWait _ i hi hm ht =>
    clear h4
    have l1 := le_tot tokW _ _ _ hi
    (try simp only [St.setDone, St.setBg]) <;> (repeat' split) <;> simp_all [tot_set_eq _ _ _ _ _ hi, tot_ackWs_tok, tot_ackWs_clk, tot_ackWs_trlk, b2n_true, b2n_false, bgClk_run, bgClk_idle, bgClk_exited, bgClk_clearW, tokW, bphClk, St.bg, onOk, onErr, selNext, afterSetErr, srAllW] <;> (try omega)
  | ehAcquire _ he ht hn =>
    clear h4
    (try simp only [St.setDone, St.setBg]) <;> (repeat' split) <;> simp_all [tot_ackWs_tok, tot_ackWs_clk, tot_ackWs_trlk, b2n_true, b2n_false, bgClk_run, bgClk_idle, bgClk_exited, bgClk_clearW, tokW, bphClk, St.bg, onOk, onErr, selNext, afterSetErr, srAllW] <;> (try omega)
  | ehExit _ he hc =>
    clear h4
    (try simp only [St.setDone, St.setBg]) <;> (repeat' split) <;> simp_all [tot_ackWs_tok, tot_ackWs_clk, tot_ackWs_trlk, b2n_true, b2n_false, bgClk_run, bgClk_idle, bgClk_exited, bgClk_clearW, tokW, bphClk, St.bg, onOk, onErr, selNext, afterSetErr, srAllW] <;> (try omega)
  | bgExitIdle _ b hb hc =>
    clear h4
    cases b <;> (try simp only [St.setDone, St.setBg]) <;> (repeat' split) <;> simp_all [tot_ackWs_tok, tot_ackWs_clk, tot_ackWs_trlk, b2n_true, b2n_false, bgClk_run, bgClk_idle, bgClk_exited, bgClk_clearW, tokW, bphClk, St.bg, onOk, onErr, selNext, afterSetErr, srAllW] <;> (try omega)
  | bgWorkOk _ b w hb =>
    clear h4
    cases b <;> (try simp only [St.setDone, St.setBg]) <;> (repeat' split) <;> simp_all [tot_ackWs_tok, tot_ackWs_clk, tot_ackWs_trlk, b2n_true, b2n_false, bgClk_run, bgClk_idle, bgClk_exited, bgClk_clearW, tokW, bphClk, St.bg, onOk, onErr, selNext, afterSetErr, srAllW] <;> (try omega)
  | bgWorkFail _ b w hb =>
    clear h4
    cases b <;> (try simp only [St.setDone, St.setBg]) <;> (repeat' split) <;> simp_all [tot_ackWs_tok, tot_ackWs_clk, tot_ackWs_trlk, b2n_true, b2n_false, bgClk_run, bgClk_idle, bgClk_exited, bgClk_clearW, tokW, bphClk, St.bg, onOk, onErr, selNext, afterSetErr, srAllW] <;> (try omega)
  | bgCommitOk _ b w hb =>
    clear h4
    cases b <;> (try simp only [St.setDone, St.setBg]) <;> (repeat' split) <;> simp_all [tot_ackWs_tok, tot_ackWs_clk, tot_ackWs_trlk, b2n_true, b2n_false, bgClk_run, bgClk_idle, bgClk_exited, bgClk_clearW, tokW, bphClk, St.bg, onOk, onErr, selNext, afterSetErr, srAllW] <;> (try omega)
  | bgCommitFail _ b w hb =>
    clear h4
    cases b <;> (try simp only [St.setDone, St.setBg]) <;> (repeat' split) <;> simp_all [tot_ackWs_tok, tot_ackWs_clk, tot_ackWs_trlk, b2n_true, b2n_false, bgClk_run, bgClk_idle, bgClk_exited, bgClk_clearW, tokW, bphClk, St.bg, onOk, onErr, selNext, afterSetErr, srAllW] <;> (try omega)
  | bgSetErr _ b w ok c hb he =>
    clear h4
    cases b <;> cases ok <;> cases c <;> (try simp only [St.setDone, St.setBg]) <;> (repeat' split) <;> simp_all [tot_ackWs_tok, tot_ackWs_clk, tot_ackWs_trlk, b2n_true, b2n_false, bgClk_run, bgClk_idle, bgClk_exited, bgClk_clearW, tokW, bphClk, St.bg, onOk, onErr, selNext, afterSetErr, srAllW] <;> (try omega)
  | bgSetErrPer _ b w c hb he =>
    clear h4
    cases b <;> cases c <;> (try simp only [St.setDone, St.setBg]) <;> (repeat' split) <;> simp_all [tot_ackWs_tok, tot_ackWs_clk, tot_ackWs_trlk, b2n_true, b2n_false, bgClk_run, bgClk_idle, bgClk_exited, bgClk_clearW, tokW, bphClk, St.bg, onOk, onErr, selNext, afterSetErr, srAllW] <;> (try omega)
  | bgBackoff _ b w c hb =>
    clear h4
    cases b <;> cases c <;> (try simp only [St.setDone, St.setBg]) <;> (repeat' split) <;> simp_all [tot_ackWs_tok, tot_ackWs_clk, tot_ackWs_trlk, b2n_true, b2n_false, bgClk_run, bgClk_idle, bgClk_exited, bgClk_clearW, tokW, bphClk, St.bg, onOk, onErr, selNext, afterSetErr, srAllW] <;> (try omega)
  | bgLockClk _ b w hb hl =>
    clear h4
    cases b <;> (try simp only [St.setDone, St.setBg]) <;> (repeat' split) <;> simp_all [tot_ackWs_tok, tot_ackWs_clk, tot_ackWs_trlk, b2n_true, b2n_false, bgClk_run, bgClk_idle, bgClk_exited, bgClk_clearW, tokW, bphClk, St.bg, onOk, onErr, selNext, afterSetErr, srAllW] <;> (try omega)
  | bgAck _ b w hb =>
    clear h4
    cases b <;> (try simp only [St.setDone, St.setBg]) <;> (repeat' split) <;> simp_all [tot_ackWs_tok, tot_ackWs_clk, tot_ackWs_trlk, b2n_true, b2n_false, bgClk_run, bgClk_idle, bgClk_exited, bgClk_clearW, tokW, bphClk, St.bg, onOk, onErr, selNext, afterSetErr, srAllW] <;> (try omega)
  | bgExit _ b w ph hb hx =>
    clear h4
    cases b <;> cases ph <;> (try simp only [St.setDone, St.setBg]) <;> (repeat' split) <;> simp_all [tot_ackWs_tok, tot_ackWs_clk, tot_ackWs_trlk, b2n_true, b2n_false, bgClk_run, bgClk_idle, bgClk_exited, bgClk_clearW, tokW, bphClk, St.bg, onOk, onErr, selNext, afterSetErr, srAllW] <;> (try omega)

end GoLevel.Locks
