import GoLevel.Proofs.LocksCount
/-! Every step of the repaired configuration preserves the ownership accounting (tokW). -/
namespace GoLevel.Locks
set_option linter.unusedSimpArgs false

theorem step_rinv_tok (s t : St) (f : Bool) (h : Step Cfg.repaired f s t) (inv : RInv s) :
    tot tokW t.ws + b2n t.trOpen + b2n t.ehTok + b2n t.closeTok = b2n t.tok := by
  obtain ⟨h1, h2, h3⟩ := inv
  have c1 := b2n_le s.trOpen
  have c2 := b2n_le s.ehTok
  have c3 := b2n_le s.closeTok
  have c4 := b2n_le s.tok
  have c5 := b2n_le s.clk
  have c6 := b2n_le s.trlk
  clear h2 h3 c5 c6
  cases h with
  | startPut _ i hi =>
    have l1 := le_tot tokW _ _ _ hi
    (try simp only [St.setDone, St.setBg]) <;> (repeat' split) <;> simp_all [tot_set_eq _ _ _ _ _ hi, tot_ackWs_tok, tot_ackWs_clk, tot_ackWs_trlk, b2n_true, b2n_false, bgClk_run, bgClk_idle, bgClk_exited, bgClk_clearW, tokW, bphClk, St.bg, onOk, onErr, selNext, afterSetErr, Cfg.repaired] <;> (try omega)
  | startWrite _ i hi =>
    have l1 := le_tot tokW _ _ _ hi
    (try simp only [St.setDone, St.setBg]) <;> (repeat' split) <;> simp_all [tot_set_eq _ _ _ _ _ hi, tot_ackWs_tok, tot_ackWs_clk, tot_ackWs_trlk, b2n_true, b2n_false, bgClk_run, bgClk_idle, bgClk_exited, bgClk_clearW, tokW, bphClk, St.bg, onOk, onErr, selNext, afterSetErr, Cfg.repaired] <;> (try omega)
  | startOtx _ i hi =>
    have l1 := le_tot tokW _ _ _ hi
    (try simp only [St.setDone, St.setBg]) <;> (repeat' split) <;> simp_all [tot_set_eq _ _ _ _ _ hi, tot_ackWs_tok, tot_ackWs_clk, tot_ackWs_trlk, b2n_true, b2n_false, bgClk_run, bgClk_idle, bgClk_exited, bgClk_clearW, tokW, bphClk, St.bg, onOk, onErr, selNext, afterSetErr, Cfg.repaired] <;> (try omega)
  | startCommit _ i hi hu =>
    have l1 := le_tot tokW _ _ _ hi
    (try simp only [St.setDone, St.setBg]) <;> (repeat' split) <;> simp_all [tot_set_eq _ _ _ _ _ hi, tot_ackWs_tok, tot_ackWs_clk, tot_ackWs_trlk, b2n_true, b2n_false, bgClk_run, bgClk_idle, bgClk_exited, bgClk_clearW, tokW, bphClk, St.bg, onOk, onErr, selNext, afterSetErr, Cfg.repaired] <;> (try omega)
  | startDiscard _ i hi hu =>
    have l1 := le_tot tokW _ _ _ hi
    (try simp only [St.setDone, St.setBg]) <;> (repeat' split) <;> simp_all [tot_set_eq _ _ _ _ _ hi, tot_ackWs_tok, tot_ackWs_clk, tot_ackWs_trlk, b2n_true, b2n_false, bgClk_run, bgClk_idle, bgClk_exited, bgClk_clearW, tokW, bphClk, St.bg, onOk, onErr, selNext, afterSetErr, Cfg.repaired] <;> (try omega)
  | startCR _ i hi =>
    have l1 := le_tot tokW _ _ _ hi
    (try simp only [St.setDone, St.setBg]) <;> (repeat' split) <;> simp_all [tot_set_eq _ _ _ _ _ hi, tot_ackWs_tok, tot_ackWs_clk, tot_ackWs_trlk, b2n_true, b2n_false, bgClk_run, bgClk_idle, bgClk_exited, bgClk_clearW, tokW, bphClk, St.bg, onOk, onErr, selNext, afterSetErr, Cfg.repaired] <;> (try omega)
  | startSR _ i hi =>
    have l1 := le_tot tokW _ _ _ hi
    (try simp only [St.setDone, St.setBg]) <;> (repeat' split) <;> simp_all [tot_set_eq _ _ _ _ _ hi, tot_ackWs_tok, tot_ackWs_clk, tot_ackWs_trlk, b2n_true, b2n_false, bgClk_run, bgClk_idle, bgClk_exited, bgClk_clearW, tokW, bphClk, St.bg, onOk, onErr, selNext, afterSetErr, Cfg.repaired] <;> (try omega)
  | startClose _ i hi =>
    have l1 := le_tot tokW _ _ _ hi
    (try simp only [St.setDone, St.setBg]) <;> (repeat' split) <;> simp_all [tot_set_eq _ _ _ _ _ hi, tot_ackWs_tok, tot_ackWs_clk, tot_ackWs_trlk, b2n_true, b2n_false, bgClk_run, bgClk_idle, bgClk_exited, bgClk_clearW, tokW, bphClk, St.bg, onOk, onErr, selNext, afterSetErr, Cfg.repaired] <;> (try omega)
  | selTok _ i p q hi hq ht =>
    have l1 := le_tot tokW _ _ _ hi
    cases p <;> simp only [selNext] at hq <;> (try contradiction) <;> cases hq <;> simp_all [tot_set_eq _ _ _ _ _ hi, tot_ackWs_tok, tot_ackWs_clk, tot_ackWs_trlk, b2n_true, b2n_false, bgClk_run, bgClk_idle, bgClk_exited, bgClk_clearW, tokW, bphClk, St.bg, onOk, onErr, selNext, afterSetErr, Cfg.repaired] <;> (try omega)
  | selPerErr _ i p q hi hq he =>
    have l1 := le_tot tokW _ _ _ hi
    cases p <;> simp only [selNext] at hq <;> (try contradiction) <;> cases hq <;> simp_all [tot_set_eq _ _ _ _ _ hi, tot_ackWs_tok, tot_ackWs_clk, tot_ackWs_trlk, b2n_true, b2n_false, bgClk_run, bgClk_idle, bgClk_exited, bgClk_clearW, tokW, bphClk, St.bg, onOk, onErr, selNext, afterSetErr, Cfg.repaired] <;> (try omega)
  | selClosed _ i p q hi hq hc =>
    have l1 := le_tot tokW _ _ _ hi
    cases p <;> simp only [selNext] at hq <;> (try contradiction) <;> cases hq <;> simp_all [tot_set_eq _ _ _ _ _ hi, tot_ackWs_tok, tot_ackWs_clk, tot_ackWs_trlk, b2n_true, b2n_false, bgClk_run, bgClk_idle, bgClk_exited, bgClk_clearW, tokW, bphClk, St.bg, onOk, onErr, selNext, afterSetErr, Cfg.repaired] <;> (try omega)
  | putNoWait _ i hi =>
    have l1 := le_tot tokW _ _ _ hi
    (try simp only [St.setDone, St.setBg]) <;> (repeat' split) <;> simp_all [tot_set_eq _ _ _ _ _ hi, tot_ackWs_tok, tot_ackWs_clk, tot_ackWs_trlk, b2n_true, b2n_false, bgClk_run, bgClk_idle, bgClk_exited, bgClk_clearW, tokW, bphClk, St.bg, onOk, onErr, selNext, afterSetErr, Cfg.repaired] <;> (try omega)
  | putWait _ i b hi =>
    have l1 := le_tot tokW _ _ _ hi
    cases b <;> (try simp only [St.setDone, St.setBg]) <;> (repeat' split) <;> simp_all [tot_set_eq _ _ _ _ _ hi, tot_ackWs_tok, tot_ackWs_clk, tot_ackWs_trlk, b2n_true, b2n_false, bgClk_run, bgClk_idle, bgClk_exited, bgClk_clearW, tokW, bphClk, St.bg, onOk, onErr, selNext, afterSetErr, Cfg.repaired] <;> (try omega)
  | putJournalOk _ i hi =>
    have l1 := le_tot tokW _ _ _ hi
    (try simp only [St.setDone, St.setBg]) <;> (repeat' split) <;> simp_all [tot_set_eq _ _ _ _ _ hi, tot_ackWs_tok, tot_ackWs_clk, tot_ackWs_trlk, b2n_true, b2n_false, bgClk_run, bgClk_idle, bgClk_exited, bgClk_clearW, tokW, bphClk, St.bg, onOk, onErr, selNext, afterSetErr, Cfg.repaired] <;> (try omega)
  | putJournalFail _ i hi =>
    have l1 := le_tot tokW _ _ _ hi
    (try simp only [St.setDone, St.setBg]) <;> (repeat' split) <;> simp_all [tot_set_eq _ _ _ _ _ hi, tot_ackWs_tok, tot_ackWs_clk, tot_ackWs_trlk, b2n_true, b2n_false, bgClk_run, bgClk_idle, bgClk_exited, bgClk_clearW, tokW, bphClk, St.bg, onOk, onErr, selNext, afterSetErr, Cfg.repaired] <;> (try omega)
  | putUnlock _ i r hi =>
    have l1 := le_tot tokW _ _ _ hi
    cases r <;> (try simp only [St.setDone, St.setBg]) <;> (repeat' split) <;> simp_all [tot_set_eq _ _ _ _ _ hi, tot_ackWs_tok, tot_ackWs_clk, tot_ackWs_trlk, b2n_true, b2n_false, bgClk_run, bgClk_idle, bgClk_exited, bgClk_clearW, tokW, bphClk, St.bg, onOk, onErr, selNext, afterSetErr, Cfg.repaired] <;> (try omega)
  | cwSendGo _ i b site lg hi hb =>
    have l1 := le_tot tokW _ _ _ hi
    cases site <;> cases b <;> cases lg <;> (try simp only [St.setDone, St.setBg]) <;> (repeat' split) <;> simp_all [tot_set_eq _ _ _ _ _ hi, tot_ackWs_tok, tot_ackWs_clk, tot_ackWs_trlk, b2n_true, b2n_false, bgClk_run, bgClk_idle, bgClk_exited, bgClk_clearW, tokW, bphClk, St.bg, onOk, onErr, selNext, afterSetErr, Cfg.repaired] <;> (try omega)
  | cwSendErr _ i b site lg hi he =>
    have l1 := le_tot tokW _ _ _ hi
    cases site <;> cases b <;> cases lg <;> (try simp only [St.setDone, St.setBg]) <;> (repeat' split) <;> simp_all [tot_set_eq _ _ _ _ _ hi, tot_ackWs_tok, tot_ackWs_clk, tot_ackWs_trlk, b2n_true, b2n_false, bgClk_run, bgClk_idle, bgClk_exited, bgClk_clearW, tokW, bphClk, St.bg, onOk, onErr, selNext, afterSetErr, Cfg.repaired] <;> (try omega)
  | cwAckErr _ i b site lg hi he =>
    have l1 := le_tot tokW _ _ _ hi
    cases site <;> cases b <;> cases lg <;> (try simp only [St.setDone, St.setBg]) <;> (repeat' split) <;> simp_all [tot_set_eq _ _ _ _ _ hi, tot_ackWs_tok, tot_ackWs_clk, tot_ackWs_trlk, b2n_true, b2n_false, bgClk_run, bgClk_idle, bgClk_exited, bgClk_clearW, tokW, bphClk, St.bg, onOk, onErr, selNext, afterSetErr, Cfg.repaired] <;> (try omega)
  | otxRotate _ i lg hi =>
    have l1 := le_tot tokW _ _ _ hi
    cases lg <;> (try simp only [St.setDone, St.setBg]) <;> (repeat' split) <;> simp_all [tot_set_eq _ _ _ _ _ hi, tot_ackWs_tok, tot_ackWs_clk, tot_ackWs_trlk, b2n_true, b2n_false, bgClk_run, bgClk_idle, bgClk_exited, bgClk_clearW, tokW, bphClk, St.bg, onOk, onErr, selNext, afterSetErr, Cfg.repaired] <;> (try omega)
  | otxNoRotate _ i lg hi =>
    have l1 := le_tot tokW _ _ _ hi
    cases lg <;> (try simp only [St.setDone, St.setBg]) <;> (repeat' split) <;> simp_all [tot_set_eq _ _ _ _ _ hi, tot_ackWs_tok, tot_ackWs_clk, tot_ackWs_trlk, b2n_true, b2n_false, bgClk_run, bgClk_idle, bgClk_exited, bgClk_clearW, tokW, bphClk, St.bg, onOk, onErr, selNext, afterSetErr, Cfg.repaired] <;> (try omega)
  | otxNewMemOk _ i lg hi =>
    have l1 := le_tot tokW _ _ _ hi
    cases lg <;> (try simp only [St.setDone, St.setBg]) <;> (repeat' split) <;> simp_all [tot_set_eq _ _ _ _ _ hi, tot_ackWs_tok, tot_ackWs_clk, tot_ackWs_trlk, b2n_true, b2n_false, bgClk_run, bgClk_idle, bgClk_exited, bgClk_clearW, tokW, bphClk, St.bg, onOk, onErr, selNext, afterSetErr, Cfg.repaired] <;> (try omega)
  | otxNewMemFail _ i lg hi =>
    have l1 := le_tot tokW _ _ _ hi
    cases lg <;> (try simp only [St.setDone, St.setBg]) <;> (repeat' split) <;> simp_all [tot_set_eq _ _ _ _ _ hi, tot_ackWs_tok, tot_ackWs_clk, tot_ackWs_trlk, b2n_true, b2n_false, bgClk_run, bgClk_idle, bgClk_exited, bgClk_clearW, tokW, bphClk, St.bg, onOk, onErr, selNext, afterSetErr, Cfg.repaired] <;> (try omega)
  | otxNoWaitComp _ i lg hi =>
    have l1 := le_tot tokW _ _ _ hi
    cases lg <;> (try simp only [St.setDone, St.setBg]) <;> (repeat' split) <;> simp_all [tot_set_eq _ _ _ _ _ hi, tot_ackWs_tok, tot_ackWs_clk, tot_ackWs_trlk, b2n_true, b2n_false, bgClk_run, bgClk_idle, bgClk_exited, bgClk_clearW, tokW, bphClk, St.bg, onOk, onErr, selNext, afterSetErr, Cfg.repaired] <;> (try omega)
  | otxWaitComp _ i lg hi =>
    have l1 := le_tot tokW _ _ _ hi
    cases lg <;> (try simp only [St.setDone, St.setBg]) <;> (repeat' split) <;> simp_all [tot_set_eq _ _ _ _ _ hi, tot_ackWs_tok, tot_ackWs_clk, tot_ackWs_trlk, b2n_true, b2n_false, bgClk_run, bgClk_idle, bgClk_exited, bgClk_clearW, tokW, bphClk, St.bg, onOk, onErr, selNext, afterSetErr, Cfg.repaired] <;> (try omega)
  | otxFail _ i lg hi =>
    have l1 := le_tot tokW _ _ _ hi
    cases lg <;> (try simp only [St.setDone, St.setBg]) <;> (repeat' split) <;> simp_all [tot_set_eq _ _ _ _ _ hi, tot_ackWs_tok, tot_ackWs_clk, tot_ackWs_trlk, b2n_true, b2n_false, bgClk_run, bgClk_idle, bgClk_exited, bgClk_clearW, tokW, bphClk, St.bg, onOk, onErr, selNext, afterSetErr, Cfg.repaired] <;> (try omega)
  | otxRel _ i lg hi =>
    have l1 := le_tot tokW _ _ _ hi
    cases lg <;> (try simp only [St.setDone, St.setBg]) <;> (repeat' split) <;> simp_all [tot_set_eq _ _ _ _ _ hi, tot_ackWs_tok, tot_ackWs_clk, tot_ackWs_trlk, b2n_true, b2n_false, bgClk_run, bgClk_idle, bgClk_exited, bgClk_clearW, tokW, bphClk, St.bg, onOk, onErr, selNext, afterSetErr, Cfg.repaired] <;> (try omega)
  | otxDone _ i lg hi =>
    have l1 := le_tot tokW _ _ _ hi
    cases lg <;> (try simp only [St.setDone, St.setBg]) <;> (repeat' split) <;> simp_all [tot_set_eq _ _ _ _ _ hi, tot_ackWs_tok, tot_ackWs_clk, tot_ackWs_trlk, b2n_true, b2n_false, bgClk_run, bgClk_idle, bgClk_exited, bgClk_clearW, tokW, bphClk, St.bg, onOk, onErr, selNext, afterSetErr, Cfg.repaired] <;> (try omega)
  | lgWriteOk _ i hi =>
    have l1 := le_tot tokW _ _ _ hi
    (try simp only [St.setDone, St.setBg]) <;> (repeat' split) <;> simp_all [tot_set_eq _ _ _ _ _ hi, tot_ackWs_tok, tot_ackWs_clk, tot_ackWs_trlk, b2n_true, b2n_false, bgClk_run, bgClk_idle, bgClk_exited, bgClk_clearW, tokW, bphClk, St.bg, onOk, onErr, selNext, afterSetErr, Cfg.repaired] <;> (try omega)
  | lgWriteFail _ i hi =>
    have l1 := le_tot tokW _ _ _ hi
    (try simp only [St.setDone, St.setBg]) <;> (repeat' split) <;> simp_all [tot_set_eq _ _ _ _ _ hi, tot_ackWs_tok, tot_ackWs_clk, tot_ackWs_trlk, b2n_true, b2n_false, bgClk_run, bgClk_idle, bgClk_exited, bgClk_clearW, tokW, bphClk, St.bg, onOk, onErr, selNext, afterSetErr, Cfg.repaired] <;> (try omega)
  | cmLockTr _ i lg hi hl =>
    have l1 := le_tot tokW _ _ _ hi
    cases lg <;> (try simp only [St.setDone, St.setBg]) <;> (repeat' split) <;> simp_all [tot_set_eq _ _ _ _ _ hi, tot_ackWs_tok, tot_ackWs_clk, tot_ackWs_trlk, b2n_true, b2n_false, bgClk_run, bgClk_idle, bgClk_exited, bgClk_clearW, tokW, bphClk, St.bg, onOk, onErr, selNext, afterSetErr, Cfg.repaired] <;> (try omega)
  | cmFlushOk _ i lg hi =>
    have l1 := le_tot tokW _ _ _ hi
    cases lg <;> (try simp only [St.setDone, St.setBg]) <;> (repeat' split) <;> simp_all [tot_set_eq _ _ _ _ _ hi, tot_ackWs_tok, tot_ackWs_clk, tot_ackWs_trlk, b2n_true, b2n_false, bgClk_run, bgClk_idle, bgClk_exited, bgClk_clearW, tokW, bphClk, St.bg, onOk, onErr, selNext, afterSetErr, Cfg.repaired] <;> (try omega)
  | cmFlushEmpty _ i lg hi =>
    have l1 := le_tot tokW _ _ _ hi
    cases lg <;> (try simp only [St.setDone, St.setBg]) <;> (repeat' split) <;> simp_all [tot_set_eq _ _ _ _ _ hi, tot_ackWs_tok, tot_ackWs_clk, tot_ackWs_trlk, b2n_true, b2n_false, bgClk_run, bgClk_idle, bgClk_exited, bgClk_clearW, tokW, bphClk, St.bg, onOk, onErr, selNext, afterSetErr, Cfg.repaired] <;> (try omega)
  | cmFlushFail _ i lg hi =>
    have l1 := le_tot tokW _ _ _ hi
    cases lg <;> (try simp only [St.setDone, St.setBg]) <;> (repeat' split) <;> simp_all [tot_set_eq _ _ _ _ _ hi, tot_ackWs_tok, tot_ackWs_clk, tot_ackWs_trlk, b2n_true, b2n_false, bgClk_run, bgClk_idle, bgClk_exited, bgClk_clearW, tokW, bphClk, St.bg, onOk, onErr, selNext, afterSetErr, Cfg.repaired] <;> (try omega)
  | cmLockClk _ i lg hi hl =>
    have l1 := le_tot tokW _ _ _ hi
    cases lg <;> (try simp only [St.setDone, St.setBg]) <;> (repeat' split) <;> simp_all [tot_set_eq _ _ _ _ _ hi, tot_ackWs_tok, tot_ackWs_clk, tot_ackWs_trlk, b2n_true, b2n_false, bgClk_run, bgClk_idle, bgClk_exited, bgClk_clearW, tokW, bphClk, St.bg, onOk, onErr, selNext, afterSetErr, Cfg.repaired] <;> (try omega)
  | cmTryOk _ i k lg hi =>
    have l1 := le_tot tokW _ _ _ hi
    cases lg <;> (try simp only [St.setDone, St.setBg]) <;> (repeat' split) <;> simp_all [tot_set_eq _ _ _ _ _ hi, tot_ackWs_tok, tot_ackWs_clk, tot_ackWs_trlk, b2n_true, b2n_false, bgClk_run, bgClk_idle, bgClk_exited, bgClk_clearW, tokW, bphClk, St.bg, onOk, onErr, selNext, afterSetErr, Cfg.repaired] <;> (try omega)
  | cmTryFail _ i k lg hi =>
    have l1 := le_tot tokW _ _ _ hi
    cases lg <;> (try simp only [St.setDone, St.setBg]) <;> (repeat' split) <;> simp_all [tot_set_eq _ _ _ _ _ hi, tot_ackWs_tok, tot_ackWs_clk, tot_ackWs_trlk, b2n_true, b2n_false, bgClk_run, bgClk_idle, bgClk_exited, bgClk_clearW, tokW, bphClk, St.bg, onOk, onErr, selNext, afterSetErr, Cfg.repaired] <;> (try omega)
  | cmSleepTimer _ i k lg hi =>
    have l1 := le_tot tokW _ _ _ hi
    cases lg <;> (try simp only [St.setDone, St.setBg]) <;> (repeat' split) <;> simp_all [tot_set_eq _ _ _ _ _ hi, tot_ackWs_tok, tot_ackWs_clk, tot_ackWs_trlk, b2n_true, b2n_false, bgClk_run, bgClk_idle, bgClk_exited, bgClk_clearW, tokW, bphClk, St.bg, onOk, onErr, selNext, afterSetErr, Cfg.repaired] <;> (try omega)
  | cmSleepClosed _ i k lg hi hc =>
    have l1 := le_tot tokW _ _ _ hi
    cases lg <;> (try simp only [St.setDone, St.setBg]) <;> (repeat' split) <;> simp_all [tot_set_eq _ _ _ _ _ hi, tot_ackWs_tok, tot_ackWs_clk, tot_ackWs_trlk, b2n_true, b2n_false, bgClk_run, bgClk_idle, bgClk_exited, bgClk_clearW, tokW, bphClk, St.bg, onOk, onErr, selNext, afterSetErr, Cfg.repaired] <;> (try omega)
  | cmFail3 _ i lg hi =>
    have l1 := le_tot tokW _ _ _ hi
    cases lg <;> (try simp only [St.setDone, St.setBg]) <;> (repeat' split) <;> simp_all [tot_set_eq _ _ _ _ _ hi, tot_ackWs_tok, tot_ackWs_clk, tot_ackWs_trlk, b2n_true, b2n_false, bgClk_run, bgClk_idle, bgClk_exited, bgClk_clearW, tokW, bphClk, St.bg, onOk, onErr, selNext, afterSetErr, Cfg.repaired] <;> (try omega)
  | cmAfterOk _ i lg hi =>
    have l1 := le_tot tokW _ _ _ hi
    cases lg <;> (try simp only [St.setDone, St.setBg]) <;> (repeat' split) <;> simp_all [tot_set_eq _ _ _ _ _ hi, tot_ackWs_tok, tot_ackWs_clk, tot_ackWs_trlk, b2n_true, b2n_false, bgClk_run, bgClk_idle, bgClk_exited, bgClk_clearW, tokW, bphClk, St.bg, onOk, onErr, selNext, afterSetErr, Cfg.repaired] <;> (try omega)
  | cmNoWaitComp _ i lg hi =>
    have l1 := le_tot tokW _ _ _ hi
    cases lg <;> (try simp only [St.setDone, St.setBg]) <;> (repeat' split) <;> simp_all [tot_set_eq _ _ _ _ _ hi, tot_ackWs_tok, tot_ackWs_clk, tot_ackWs_trlk, b2n_true, b2n_false, bgClk_run, bgClk_idle, bgClk_exited, bgClk_clearW, tokW, bphClk, St.bg, onOk, onErr, selNext, afterSetErr, Cfg.repaired] <;> (try omega)
  | cmWaitComp _ i lg hi =>
    have l1 := le_tot tokW _ _ _ hi
    cases lg <;> (try simp only [St.setDone, St.setBg]) <;> (repeat' split) <;> simp_all [tot_set_eq _ _ _ _ _ hi, tot_ackWs_tok, tot_ackWs_clk, tot_ackWs_trlk, b2n_true, b2n_false, bgClk_run, bgClk_idle, bgClk_exited, bgClk_clearW, tokW, bphClk, St.bg, onOk, onErr, selNext, afterSetErr, Cfg.repaired] <;> (try omega)
  | cmDone _ i lg hi =>
    have l1 := le_tot tokW _ _ _ hi
    cases lg <;> (try simp only [St.setDone, St.setBg]) <;> (repeat' split) <;> simp_all [tot_set_eq _ _ _ _ _ hi, tot_ackWs_tok, tot_ackWs_clk, tot_ackWs_trlk, b2n_true, b2n_false, bgClk_run, bgClk_idle, bgClk_exited, bgClk_clearW, tokW, bphClk, St.bg, onOk, onErr, selNext, afterSetErr, Cfg.repaired] <;> (try omega)
  | cmRet _ i ok lg hi =>
    have l1 := le_tot tokW _ _ _ hi
    cases ok <;> cases lg <;> (try simp only [St.setDone, St.setBg]) <;> (repeat' split) <;> simp_all [tot_set_eq _ _ _ _ _ hi, tot_ackWs_tok, tot_ackWs_clk, tot_ackWs_trlk, b2n_true, b2n_false, bgClk_run, bgClk_idle, bgClk_exited, bgClk_clearW, tokW, bphClk, St.bg, onOk, onErr, selNext, afterSetErr, Cfg.repaired] <;> (try omega)
  | dcLockTr _ i lg hi hl =>
    have l1 := le_tot tokW _ _ _ hi
    cases lg <;> (try simp only [St.setDone, St.setBg]) <;> (repeat' split) <;> simp_all [tot_set_eq _ _ _ _ _ hi, tot_ackWs_tok, tot_ackWs_clk, tot_ackWs_trlk, b2n_true, b2n_false, bgClk_run, bgClk_idle, bgClk_exited, bgClk_clearW, tokW, bphClk, St.bg, onOk, onErr, selNext, afterSetErr, Cfg.repaired] <;> (try omega)
  | dcBody _ i lg hi =>
    have l1 := le_tot tokW _ _ _ hi
    cases lg <;> (try simp only [St.setDone, St.setBg]) <;> (repeat' split) <;> simp_all [tot_set_eq _ _ _ _ _ hi, tot_ackWs_tok, tot_ackWs_clk, tot_ackWs_trlk, b2n_true, b2n_false, bgClk_run, bgClk_idle, bgClk_exited, bgClk_clearW, tokW, bphClk, St.bg, onOk, onErr, selNext, afterSetErr, Cfg.repaired] <;> (try omega)
  | crNoOverlap _ i hi =>
    have l1 := le_tot tokW _ _ _ hi
    (try simp only [St.setDone, St.setBg]) <;> (repeat' split) <;> simp_all [tot_set_eq _ _ _ _ _ hi, tot_ackWs_tok, tot_ackWs_clk, tot_ackWs_trlk, b2n_true, b2n_false, bgClk_run, bgClk_idle, bgClk_exited, bgClk_clearW, tokW, bphClk, St.bg, onOk, onErr, selNext, afterSetErr, Cfg.repaired] <;> (try omega)
  | crOverlap _ i hi =>
    have l1 := le_tot tokW _ _ _ hi
    (try simp only [St.setDone, St.setBg]) <;> (repeat' split) <;> simp_all [tot_set_eq _ _ _ _ _ hi, tot_ackWs_tok, tot_ackWs_clk, tot_ackWs_trlk, b2n_true, b2n_false, bgClk_run, bgClk_idle, bgClk_exited, bgClk_clearW, tokW, bphClk, St.bg, onOk, onErr, selNext, afterSetErr, Cfg.repaired] <;> (try omega)
  | crNewMemOk _ i hi =>
    have l1 := le_tot tokW _ _ _ hi
    (try simp only [St.setDone, St.setBg]) <;> (repeat' split) <;> simp_all [tot_set_eq _ _ _ _ _ hi, tot_ackWs_tok, tot_ackWs_clk, tot_ackWs_trlk, b2n_true, b2n_false, bgClk_run, bgClk_idle, bgClk_exited, bgClk_clearW, tokW, bphClk, St.bg, onOk, onErr, selNext, afterSetErr, Cfg.repaired] <;> (try omega)
  | crNewMemFail _ i hi =>
    have l1 := le_tot tokW _ _ _ hi
    (try simp only [St.setDone, St.setBg]) <;> (repeat' split) <;> simp_all [tot_set_eq _ _ _ _ _ hi, tot_ackWs_tok, tot_ackWs_clk, tot_ackWs_trlk, b2n_true, b2n_false, bgClk_run, bgClk_idle, bgClk_exited, bgClk_clearW, tokW, bphClk, St.bg, onOk, onErr, selNext, afterSetErr, Cfg.repaired] <;> (try omega)
  | crRelM _ i hi =>
    have l1 := le_tot tokW _ _ _ hi
    (try simp only [St.setDone, St.setBg]) <;> (repeat' split) <;> simp_all [tot_set_eq _ _ _ _ _ hi, tot_ackWs_tok, tot_ackWs_clk, tot_ackWs_trlk, b2n_true, b2n_false, bgClk_run, bgClk_idle, bgClk_exited, bgClk_clearW, tokW, bphClk, St.bg, onOk, onErr, selNext, afterSetErr, Cfg.repaired] <;> (try omega)
  | crRelOk _ i hi =>
    have l1 := le_tot tokW _ _ _ hi
    (try simp only [St.setDone, St.setBg]) <;> (repeat' split) <;> simp_all [tot_set_eq _ _ _ _ _ hi, tot_ackWs_tok, tot_ackWs_clk, tot_ackWs_trlk, b2n_true, b2n_false, bgClk_run, bgClk_idle, bgClk_exited, bgClk_clearW, tokW, bphClk, St.bg, onOk, onErr, selNext, afterSetErr, Cfg.repaired] <;> (try omega)
  | crRelFail _ i hi =>
    have l1 := le_tot tokW _ _ _ hi
    (try simp only [St.setDone, St.setBg]) <;> (repeat' split) <;> simp_all [tot_set_eq _ _ _ _ _ hi, tot_ackWs_tok, tot_ackWs_clk, tot_ackWs_trlk, b2n_true, b2n_false, bgClk_run, bgClk_idle, bgClk_exited, bgClk_clearW, tokW, bphClk, St.bg, onOk, onErr, selNext, afterSetErr, Cfg.repaired] <;> (try omega)
  | srSend _ i hi he =>
    have l1 := le_tot tokW _ _ _ hi
    (try simp only [St.setDone, St.setBg]) <;> (repeat' split) <;> simp_all [tot_set_eq _ _ _ _ _ hi, tot_ackWs_tok, tot_ackWs_clk, tot_ackWs_trlk, b2n_true, b2n_false, bgClk_run, bgClk_idle, bgClk_exited, bgClk_clearW, tokW, bphClk, St.bg, onOk, onErr, selNext, afterSetErr, Cfg.repaired] <;> (try omega)
  | srPerErr _ i hi he =>
    have l1 := le_tot tokW _ _ _ hi
    (try simp only [St.setDone, St.setBg]) <;> (repeat' split) <;> simp_all [tot_set_eq _ _ _ _ _ hi, tot_ackWs_tok, tot_ackWs_clk, tot_ackWs_trlk, b2n_true, b2n_false, bgClk_run, bgClk_idle, bgClk_exited, bgClk_clearW, tokW, bphClk, St.bg, onOk, onErr, selNext, afterSetErr, Cfg.repaired] <;> (try omega)
  | srClosed _ i hi hc =>
    have l1 := le_tot tokW _ _ _ hi
    (try simp only [St.setDone, St.setBg]) <;> (repeat' split) <;> simp_all [tot_set_eq _ _ _ _ _ hi, tot_ackWs_tok, tot_ackWs_clk, tot_ackWs_trlk, b2n_true, b2n_false, bgClk_run, bgClk_idle, bgClk_exited, bgClk_clearW, tokW, bphClk, St.bg, onOk, onErr, selNext, afterSetErr, Cfg.repaired] <;> (try omega)
  | clCheckTr _ i hi =>
    have l1 := le_tot tokW _ _ _ hi
    (try simp only [St.setDone, St.setBg]) <;> (repeat' split) <;> simp_all [tot_set_eq _ _ _ _ _ hi, tot_ackWs_tok, tot_ackWs_clk, tot_ackWs_trlk, b2n_true, b2n_false, bgClk_run, bgClk_idle, bgClk_exited, bgClk_clearW, tokW, bphClk, St.bg, onOk, onErr, selNext, afterSetErr, Cfg.repaired] <;> (try omega)
  | clLockTr _ i hi hl =>
    have l1 := le_tot tokW _ _ _ hi
    (try simp only [St.setDone, St.setBg]) <;> (repeat' split) <;> simp_all [tot_set_eq _ _ _ _ _ hi, tot_ackWs_tok, tot_ackWs_clk, tot_ackWs_trlk, b2n_true, b2n_false, bgClk_run, bgClk_idle, bgClk_exited, bgClk_clearW, tokW, bphClk, St.bg, onOk, onErr, selNext, afterSetErr, Cfg.repaired] <;> (try omega)
  | clBody _ i hi =>
    have l1 := le_tot tokW _ _ _ hi
    (try simp only [St.setDone, St.setBg]) <;> (repeat' split) <;> simp_all [tot_set_eq _ _ _ _ _ hi, tot_ackWs_tok, tot_ackWs_clk, tot_ackWs_trlk, b2n_true, b2n_false, bgClk_run, bgClk_idle, bgClk_exited, bgClk_clearW, tokW, bphClk, St.bg, onOk, onErr, selNext, afterSetErr, Cfg.repaired] <;> (try omega)
  | clAcq _ i hi ht =>
    have l1 := le_tot tokW _ _ _ hi
    (try simp only [St.setDone, St.setBg]) <;> (repeat' split) <;> simp_all [tot_set_eq _ _ _ _ _ hi, tot_ackWs_tok, tot_ackWs_clk, tot_ackWs_trlk, b2n_true, b2n_false, bgClk_run, bgClk_idle, bgClk_exited, bgClk_clearW, tokW, bphClk, St.bg, onOk, onErr, selNext, afterSetErr, Cfg.repaired] <;> (try omega)
  | clWait _ i hi hm ht =>
    have l1 := le_tot tokW _ _ _ hi
    (try simp only [St.setDone, St.setBg]) <;> (repeat' split) <;> simp_all [tot_set_eq _ _ _ _ _ hi, tot_ackWs_tok, tot_ackWs_clk, tot_ackWs_trlk, b2n_true, b2n_false, bgClk_run, bgClk_idle, bgClk_exited, bgClk_clearW, tokW, bphClk, St.bg, onOk, onErr, selNext, afterSetErr, Cfg.repaired] <;> (try omega)
  | ehAcquire _ he ht hn =>
    (try simp only [St.setDone, St.setBg]) <;> (repeat' split) <;> simp_all [tot_ackWs_tok, tot_ackWs_clk, tot_ackWs_trlk, b2n_true, b2n_false, bgClk_run, bgClk_idle, bgClk_exited, bgClk_clearW, tokW, bphClk, St.bg, onOk, onErr, selNext, afterSetErr, Cfg.repaired] <;> (try omega)
  | ehExit _ he hc =>
    (try simp only [St.setDone, St.setBg]) <;> (repeat' split) <;> simp_all [tot_ackWs_tok, tot_ackWs_clk, tot_ackWs_trlk, b2n_true, b2n_false, bgClk_run, bgClk_idle, bgClk_exited, bgClk_clearW, tokW, bphClk, St.bg, onOk, onErr, selNext, afterSetErr, Cfg.repaired] <;> (try omega)
  | bgExitIdle _ b hb hc =>
    cases b <;> (try simp only [St.setDone, St.setBg]) <;> (repeat' split) <;> simp_all [tot_ackWs_tok, tot_ackWs_clk, tot_ackWs_trlk, b2n_true, b2n_false, bgClk_run, bgClk_idle, bgClk_exited, bgClk_clearW, tokW, bphClk, St.bg, onOk, onErr, selNext, afterSetErr, Cfg.repaired] <;> (try omega)
  | bgWorkOk _ b w hb =>
    cases b <;> (try simp only [St.setDone, St.setBg]) <;> (repeat' split) <;> simp_all [tot_ackWs_tok, tot_ackWs_clk, tot_ackWs_trlk, b2n_true, b2n_false, bgClk_run, bgClk_idle, bgClk_exited, bgClk_clearW, tokW, bphClk, St.bg, onOk, onErr, selNext, afterSetErr, Cfg.repaired] <;> (try omega)
  | bgWorkFail _ b w hb =>
    cases b <;> (try simp only [St.setDone, St.setBg]) <;> (repeat' split) <;> simp_all [tot_ackWs_tok, tot_ackWs_clk, tot_ackWs_trlk, b2n_true, b2n_false, bgClk_run, bgClk_idle, bgClk_exited, bgClk_clearW, tokW, bphClk, St.bg, onOk, onErr, selNext, afterSetErr, Cfg.repaired] <;> (try omega)
  | bgCommitOk _ b w hb =>
    cases b <;> (try simp only [St.setDone, St.setBg]) <;> (repeat' split) <;> simp_all [tot_ackWs_tok, tot_ackWs_clk, tot_ackWs_trlk, b2n_true, b2n_false, bgClk_run, bgClk_idle, bgClk_exited, bgClk_clearW, tokW, bphClk, St.bg, onOk, onErr, selNext, afterSetErr, Cfg.repaired] <;> (try omega)
  | bgCommitFail _ b w hb =>
    cases b <;> (try simp only [St.setDone, St.setBg]) <;> (repeat' split) <;> simp_all [tot_ackWs_tok, tot_ackWs_clk, tot_ackWs_trlk, b2n_true, b2n_false, bgClk_run, bgClk_idle, bgClk_exited, bgClk_clearW, tokW, bphClk, St.bg, onOk, onErr, selNext, afterSetErr, Cfg.repaired] <;> (try omega)
  | bgSetErr _ b w ok c hb he =>
    cases b <;> cases ok <;> cases c <;> (try simp only [St.setDone, St.setBg]) <;> (repeat' split) <;> simp_all [tot_ackWs_tok, tot_ackWs_clk, tot_ackWs_trlk, b2n_true, b2n_false, bgClk_run, bgClk_idle, bgClk_exited, bgClk_clearW, tokW, bphClk, St.bg, onOk, onErr, selNext, afterSetErr, Cfg.repaired] <;> (try omega)
  | bgSetErrPer _ b w c hb he =>
    cases b <;> cases c <;> (try simp only [St.setDone, St.setBg]) <;> (repeat' split) <;> simp_all [tot_ackWs_tok, tot_ackWs_clk, tot_ackWs_trlk, b2n_true, b2n_false, bgClk_run, bgClk_idle, bgClk_exited, bgClk_clearW, tokW, bphClk, St.bg, onOk, onErr, selNext, afterSetErr, Cfg.repaired] <;> (try omega)
  | bgBackoff _ b w c hb =>
    cases b <;> cases c <;> (try simp only [St.setDone, St.setBg]) <;> (repeat' split) <;> simp_all [tot_ackWs_tok, tot_ackWs_clk, tot_ackWs_trlk, b2n_true, b2n_false, bgClk_run, bgClk_idle, bgClk_exited, bgClk_clearW, tokW, bphClk, St.bg, onOk, onErr, selNext, afterSetErr, Cfg.repaired] <;> (try omega)
  | bgLockClk _ b w hb hl =>
    cases b <;> (try simp only [St.setDone, St.setBg]) <;> (repeat' split) <;> simp_all [tot_ackWs_tok, tot_ackWs_clk, tot_ackWs_trlk, b2n_true, b2n_false, bgClk_run, bgClk_idle, bgClk_exited, bgClk_clearW, tokW, bphClk, St.bg, onOk, onErr, selNext, afterSetErr, Cfg.repaired] <;> (try omega)
  | bgAck _ b w hb =>
    cases b <;> (try simp only [St.setDone, St.setBg]) <;> (repeat' split) <;> simp_all [tot_ackWs_tok, tot_ackWs_clk, tot_ackWs_trlk, b2n_true, b2n_false, bgClk_run, bgClk_idle, bgClk_exited, bgClk_clearW, tokW, bphClk, St.bg, onOk, onErr, selNext, afterSetErr, Cfg.repaired] <;> (try omega)
  | bgExit _ b w ph hb hx =>
    cases b <;> cases ph <;> (try simp only [St.setDone, St.setBg]) <;> (repeat' split) <;> simp_all [tot_ackWs_tok, tot_ackWs_clk, tot_ackWs_trlk, b2n_true, b2n_false, bgClk_run, bgClk_idle, bgClk_exited, bgClk_clearW, tokW, bphClk, St.bg, onOk, onErr, selNext, afterSetErr, Cfg.repaired] <;> (try omega)

end GoLevel.Locks
