import GoLevel.Proofs.DurableStepJ11
/-!
Job steps, part 12: `rmT`, `rmM`.
-/
namespace GoLevel.Dur

/-- the common part of the removal steps that leave journals and the current manifest alone -/
theorem Inv.post_step {cfg : Cfg} {s : St} {d d' : Disk} (h : Inv cfg s d) {j : Job} (hj : s.job = some j)
    (hpost : j.pc.post = true) (pc' : JPc) (hp' : pc'.post = true)
    (hjr : d'.journals = d.journals) (hc : d'.current = d.current) (hcm : curManifest d' = curManifest d)
    (ht : ∀ mf, curManifest d = some mf → ∀ k ≤ mf.unsynced.length, ∀ v, viewAt cfg mf k = some v →
      ∀ t ∈ v.live, lookup d'.tables t = lookup d.tables t)
    (het : j.edit = none → d'.tables = d.tables)
    (htn : d'.tables.Pairwise (fun p q => p.1 ≠ q.1)) (hmn : d'.manifests.Pairwise (fun p q => p.1 ≠ q.1))
    (hrm : ∀ v, lastView cfg d = some v →
      RemovalsOK { s with job := some { j with pc := pc' } } d' { j with pc := pc' } v) :
    Inv cfg { s with job := some { j with pc := pc' } } d' := by
  have hok := h.job
  rw [hj] at hok
  have hok : JobOK cfg s d j := hok
  obtain ⟨mf, v0, v, hparts, hlv, hvl, _⟩ := h.disk.last
  have hcur := hparts.cur
  have hnr : ∀ m, j.pc ≠ .rotRemove m := by intro m hm; rw [hm] at hpost; cases hpost
  have hnr' : ∀ m, pc' ≠ .rotRemove m := by intro m hm; rw [hm] at hp'; cases hp'
  have hnb : pc'.beforeCommit = false := by cases pc' <;> simp_all [JPc.post, JPc.beforeCommit]
  have hph := h.not_crashed hj
  have hb := h.bounds hph
  have hpf := phase_frame (d' := d') h { j with pc := pc' } s.nextFile (Nat.le_refl _) hjr hc hcm hnr'
    ⟨j, hj, hnr⟩ (fun hb' => by
      have : pc'.beforeCommit = true := hb'
      rw [hnb] at this; cases this)
    (fun j0 h0 => by
      rw [hj] at h0; cases h0
      exact ⟨rfl, fun _ _ => by cases pc' <;> simp_all [JPc.post, JPc.uninstalled, JPc.beforeCommit]⟩)
    (fun _ => h.post_limbo hj hpost pc' hp' het)
  have hlv' : lastView cfg d' = lastView cfg d := by unfold lastView; rw [hcm]
  constructor
  · exact h.disk.frame hcm hjr ht htn hmn (fun _ hx => hx) (fun _ hx => hx)
  · exact h.mm.of_same hcm hc
  · intro _
    exact hb.of_same hcm (h.seqHi_step hj rfl rfl rfl rfl (fun hb' => by
      have : pc'.beforeCommit = true := hb'
      rw [hnb] at this; cases this)) (Nat.le_refl _) (fun hr => ⟨hr, Nat.le_refl _⟩)
  · exact hpf.1
  · exact hpf.2
  · intro hcr; exact absurd hcr hph
  · show JobOK cfg _ d' { j with pc := pc' }
    apply JobOK.post_next (d' := d') hok hpost pc' hp' hcm
    · have hpt : j.pc.tablesDone = true ∧ j.pc ≠ .mkJournal := by
        cases hpc : j.pc <;> rw [hpc] at hpost <;> simp_all [JPc.post, JPc.tablesDone]
      have hpt' : pc'.tablesDone = true ∧ pc' ≠ .mkJournal := by
        cases pc' <;> simp_all [JPc.post, JPc.tablesDone]
      exact hok.mkj.transport (s' := { s with job := some { j with pc := pc' } }) (j' := { j with pc := pc' })
        (Nat.le_refl _) rfl hjr rfl (by
          constructor
          · rintro (h3 | h3)
            · exact absurd h3 hpt'.2
            · have := hpt'.1; simp only at h3; rw [h3] at this; cases this
          · rintro (h3 | h3)
            · exact absurd h3 hpt.2
            · rw [hpt.1] at h3; cases h3)
    · rw [hlv', hlv]
      exact hrm v hlv
    · intro v' hv' o _ hl
      rw [hlv] at hv'; cases hv'
      exact ht mf hcur _ (Nat.le_refl _) v hvl o.1 hl

theorem inv_job_rmT_cons {cfg : Cfg} {s : St} {d : Disk} (h : Inv cfg s d) {j : Job}
    (hj : s.job = some j) {n : Nat} {rest : List Nat} (hpc : j.pc = .rmT (n :: rest)) {rot : Bool}
    {s' : St} {d' : Disk} (hs : stepJob cfg s d j rot .ok = some (s', d')) : Inv cfg s' d' := by
  have hok := h.job
  rw [hj] at hok
  have hok : JobOK cfg s d j := hok
  rw [stepJob_rmT_cons hpc] at hs
  simp only [Option.some.injEq, Prod.mk.injEq] at hs
  obtain ⟨rfl, rfl⟩ := hs
  have hrm := hok.removals
  have hpost : j.pc.post = true := by rw [hpc]; rfl
  obtain ⟨mf, v0, vl, hparts, hlvl, _⟩ := h.disk.last
  have hrm0 := hrm
  rw [hlvl] at hrm0
  simp only [Holds] at hrm0
  unfold RemovalsOK at hrm0
  rw [hpc] at hrm0
  simp only at hrm0
  have hsome : s.limbo = none ∧ j.edit ≠ none := by
    rcases h.post_cases hj hpost with hx | ⟨he, _⟩
    · exact hx
    · exact nomatch hrm0.2 he
  apply h.post_step (d' := { d with tables := d.tables.erase n }) hj hpost (.rmT rest) rfl rfl rfl rfl
  · intro mf1 hc1 k hk v1 hv1 t ht
    obtain ⟨mf', v', hcur', hun, hlv', hv0, _⟩ := hok.post_settled hpost (h.post_open hj hpost) hsome.1
    rw [hcur'] at hc1; cases hc1
    have : k = 0 := by simpa [hun] using hk
    subst this
    rw [hv0] at hv1; cases hv1
    rw [hlvl] at hlv'; cases hlv'
    have := hrm0.1 n List.mem_cons_self
    show lookup (d.tables.erase n) t = _
    rw [lookup_erase, if_neg (fun (e : t = n) => this (by rw [← e]; exact ht))]
  · exact fun he => absurd he hsome.2
  · exact pairwise_erase _ h.disk.tnodup
  · exact h.disk.mnodup
  · intro v hv
    rw [hv] at hrm
    simp only [Holds] at hrm
    unfold RemovalsOK at hrm ⊢
    rw [hpc] at hrm
    simp only at hrm ⊢
    exact ⟨fun t ht => hrm.1 t (List.mem_cons_of_mem _ ht), fun he => absurd he hsome.2⟩

theorem inv_job_rmT_nil {cfg : Cfg} {s : St} {d : Disk} (h : Inv cfg s d) {j : Job}
    (hj : s.job = some j) (hpc : j.pc = .rmT []) {rot : Bool}
    {s' : St} {d' : Disk} (hs : stepJob cfg s d j rot .ok = some (s', d')) : Inv cfg s' d' := by
  rw [stepJob_rmT_nil hpc] at hs
  simp only [Option.some.injEq, Prod.mk.injEq] at hs
  obtain ⟨rfl, rfl⟩ := hs
  have hnr : ∀ m, j.pc ≠ .rotRemove m := by rw [hpc]; intro m hm; cases hm
  have hok := h.job
  rw [hj] at hok
  have hok : JobOK cfg s d j := hok
  have hfd : j.kind = .recovFinal → s.manifestFd = d.current := by
    intro hk
    have hkind := hok.kind
    unfold JobKindOK at hkind
    rw [hk] at hkind
    exact (h.mfd hj).fd hj hnr (h.limbo_none_of_recovering (by rw [hkind.1]; decide))
  apply h.post_step (d' := d) hj (by rw [hpc]; rfl) _ (by split <;> rfl) rfl rfl rfl (fun _ _ _ _ _ _ _ _ => rfl)
    (fun _ => rfl) h.disk.tnodup h.disk.mnodup
  intro v _
  unfold RemovalsOK
  split
  · rename_i heq; simp only at heq; split at heq <;> cases heq
  · rename_i heq; simp only at heq; split at heq <;> cases heq
  · rename_i l heq
    simp only at heq
    split at heq
    · cases heq
      intro m hm
      simp only [List.mem_filter, decide_eq_true_eq] at hm
      intro hc
      rename_i hkf
      rw [hfd hkf, ← hc] at hm
      simp at hm
    · cases heq
  · trivial

theorem inv_job_rmM_cons {cfg : Cfg} {s : St} {d : Disk} (h : Inv cfg s d) {j : Job}
    (hj : s.job = some j) {n : Nat} {rest : List Nat} (hpc : j.pc = .rmM (n :: rest)) {rot : Bool}
    {s' : St} {d' : Disk} (hs : stepJob cfg s d j rot .ok = some (s', d')) : Inv cfg s' d' := by
  have hok := h.job
  rw [hj] at hok
  have hok : JobOK cfg s d j := hok
  rw [stepJob_rmM_cons hpc] at hs
  simp only [Option.some.injEq, Prod.mk.injEq] at hs
  obtain ⟨rfl, rfl⟩ := hs
  obtain ⟨mf, v0, v, hparts, hlv, _⟩ := h.disk.last
  have hrm := hok.removals
  rw [hlv] at hrm
  simp only [Holds] at hrm
  unfold RemovalsOK at hrm
  rw [hpc] at hrm
  simp only at hrm
  have hms : ∀ c, d.current = some c → lookup (d.manifests.erase n) c = lookup d.manifests c := by
    intro c hc
    rw [lookup_erase, if_neg (fun e => hrm n List.mem_cons_self (by rw [hc, e]))]
  apply h.post_step (d' := { d with manifests := d.manifests.erase n }) hj (by rw [hpc]; rfl) (.rmM rest) rfl rfl rfl
    (curManifest_other hms) (fun _ _ _ _ _ _ _ _ => rfl) (fun _ => rfl) h.disk.tnodup (pairwise_erase _ h.disk.mnodup)
  intro v' _
  unfold RemovalsOK
  simp only
  exact fun m hm => hrm m (List.mem_cons_of_mem _ hm)

theorem inv_job_rmM_nil {cfg : Cfg} {s : St} {d : Disk} (h : Inv cfg s d) {j : Job}
    (hj : s.job = some j) (hpc : j.pc = .rmM []) {rot : Bool}
    {s' : St} {d' : Disk} (hs : stepJob cfg s d j rot .ok = some (s', d')) : Inv cfg s' d' := by
  rw [stepJob_rmM_nil hpc] at hs
  simp only [Option.some.injEq, Prod.mk.injEq] at hs
  obtain ⟨rfl, rfl⟩ := hs
  apply h.post_step (d' := d) hj (by rw [hpc]; rfl) .done rfl rfl rfl rfl (fun _ _ _ _ _ _ _ _ => rfl)
    (fun _ => rfl) h.disk.tnodup h.disk.mnodup
  intro v _
  unfold RemovalsOK
  trivial

end GoLevel.Dur
