import GoLevel.Proofs.IterSources
import GoLevel.Proofs.LSMLookup
import GoLevel.Proofs.LSMCompact
/-!
# The iterator stack over the sources of the LSM model (`dbGet`'s sources)

`dbSources` lists what `DB.newRawIterator` merges, in its order, for the sources `dbGet` searches
(`auxm`, `aux`, `mem`, `frozen`, `v`): they hold the same entries as `dbEntries`, every source is
well-formed when the version is (`Version.wfB`), and the sorted union exists when no internal key occurs
twice.  Core Lean only.
-/
namespace GoLevel

/-- the children of `newRawIterator` before range restriction: aux memdb, aux tables, write buffer, frozen
buffer, every level-0 table, one sorted level per non-empty deeper level (`version.getIterators`) -/
def dbSources (auxm : Option (List Entry)) (aux : Level) (mem : List Entry) (frozen : Option (List Entry))
    (v : Version) : List Source :=
  auxm.toList.map .arr ++ (aux.map (fun t => .arr t.entries) ++ (.arr mem :: (frozen.toList.map .arr ++
    ((v.levels.headD []).map (fun t => .arr t.entries) ++
      ((v.levels.drop 1).filter (fun l => !l.isEmpty)).map (fun l => .level (l.map (·.entries)))))))

theorem flatMap_arr_entries (l : Level) :
    (l.map (fun t => Source.arr t.entries)).flatMap (·.list) = Level.entries l := by
  simp [Level.entries, List.flatMap_map, Source.list]

theorem flatMap_levels (ls : List Level) :
    ((ls.filter (fun l => !l.isEmpty)).map (fun l => Source.level (l.map (·.entries)))).flatMap (·.list)
      = ls.flatMap Level.entries := by
  induction ls with
  | nil => rfl
  | cons l ls ih =>
    cases l with
    | nil => simpa [Level.entries] using ih
    | cons t ts =>
      simp only [List.filter_cons, List.isEmpty_cons, Bool.not_false, if_true, List.map_cons,
        List.flatMap_cons, ih]
      simp [Source.list, Level.entries, List.flatMap_def]

theorem version_entries_split (v : Version) :
    v.entries = Level.entries (v.levels.headD []) ++ (v.levels.drop 1).flatMap Level.entries := by
  cases h : v.levels with
  | nil => simp [Version.entries, h, Level.entries]
  | cons l ls => simp [Version.entries, h]

/-- the sources hold, in iterator order, the entries `dbGet` searches -/
theorem dbSources_flat (auxm : Option (List Entry)) (aux : Level) (mem : List Entry)
    (frozen : Option (List Entry)) (v : Version) :
    (dbSources auxm aux mem frozen v).flatMap (·.list)
      = auxm.getD [] ++ (Level.entries aux ++ (mem ++ (frozen.getD [] ++ v.entries))) := by
  simp only [dbSources, List.flatMap_append, List.flatMap_cons, flatMap_arr_entries, flatMap_levels,
    version_entries_split]
  congr 1
  · cases auxm <;> simp [Source.list]
  · congr 2
    cases frozen <;> simp [Source.list]

theorem dbSources_perm (auxm : Option (List Entry)) (aux : Level) (mem : List Entry)
    (frozen : Option (List Entry)) (v : Version) :
    ((dbSources auxm aux mem frozen v).flatMap (·.list)).Perm (dbEntries auxm aux mem frozen v) := by
  rw [dbSources_flat, dbEntries]
  apply List.Perm.append_left
  -- X ++ (M ++ (F ++ V))  ~  M ++ (F ++ (X ++ V))
  have h1 : (Level.entries aux ++ (mem ++ (frozen.getD [] ++ v.entries))).Perm
      ((mem ++ frozen.getD []) ++ (Level.entries aux ++ v.entries)) := by
    rw [← List.append_assoc mem, ← List.append_assoc (Level.entries aux), ← List.append_assoc (mem ++ _)]
    exact List.Perm.append_right _ List.perm_append_comm
  rw [List.append_assoc] at h1
  exact h1

theorem dbSources_mem (auxm : Option (List Entry)) (aux : Level) (mem : List Entry)
    (frozen : Option (List Entry)) (v : Version) (e : Entry) :
    e ∈ (dbSources auxm aux mem frozen v).flatMap (·.list) ↔ e ∈ dbEntries auxm aux mem frozen v :=
  (dbSources_perm auxm aux mem frozen v).mem_iff

section
variable {c : UCmp} (hl : LawfulUCmp c)
include hl

omit hl in
theorem Version.wfB_tables {v : Version} (h : v.wfB c = true) (l : Level) (hlm : l ∈ v.levels) (t : Table)
    (ht : t ∈ l) : t.wfB c = true := by
  simp only [Version.wfB, Bool.and_eq_true, List.all_eq_true] at h
  exact h.1.1 l hlm t ht

omit hl in
theorem Version.wfB_disjoint {v : Version} (h : v.wfB c = true) (l : Level) (hlm : l ∈ v.levels.drop 1) :
    levelDisjointB c l = true := by
  simp only [Version.wfB, Bool.and_eq_true, List.all_eq_true] at h
  exact h.1.2 l hlm

/-- every source is well-formed: buffers sorted, tables sorted, deeper levels well-formed sorted levels -/
theorem dbSources_ok (auxm : Option (List Entry)) (aux : Level) (mem : List Entry)
    (frozen : Option (List Entry)) (v : Version)
    (hA : SortedEntries c (auxm.getD [])) (hM : SortedEntries c mem) (hF : SortedEntries c (frozen.getD []))
    (haux : ∀ t ∈ aux, t.wfB c = true) (hwf : v.wfB c = true) :
    ∀ s ∈ dbSources auxm aux mem frozen v, s.OK c := by
  intro s hs
  simp only [dbSources, List.mem_append, List.mem_cons, List.mem_map] at hs
  rcases hs with ⟨L, hL, rfl⟩ | ⟨t, ht, rfl⟩ | rfl | ⟨L, hL, rfl⟩ | ⟨t, ht, rfl⟩ | ⟨l, hlm, rfl⟩
  · cases auxm with
    | none => simp at hL
    | some A => simp at hL; subst hL; exact hA
  · exact Table.wf_sorted hl (haux t ht)
  · exact hM
  · cases frozen with
    | none => simp at hL
    | some F => simp at hL; subst hL; exact hF
  · have hl0 : v.levels.headD [] ∈ v.levels := by
      cases hv : v.levels with
      | nil => rw [hv] at ht; simp at ht
      | cons l ls => simp
    exact Table.wf_sorted hl (Version.wfB_tables hwf _ hl0 t ht)
  · obtain ⟨hld, _⟩ := List.mem_filter.1 hlm
    have hlv : l ∈ v.levels := List.mem_of_mem_drop hld
    have hts : ∀ t ∈ l, t.wfB c = true := fun t ht => Version.wfB_tables hwf l hlv t ht
    refine ⟨?_, ?_⟩
    · intro es hes
      obtain ⟨t, ht, rfl⟩ := List.mem_map.1 hes
      exact Table.wf_ne_nil (hts t ht)
    · have := Level.entries_sorted hl l hts (Version.wfB_disjoint hwf l hld)
      simpa [Level.entries, List.flatMap_def] using this

/-- the sorted union of the sources exists when no internal key occurs twice -/
theorem mergeOK_sortedUnion (srcs : List Source) (hok : ∀ s ∈ srcs, s.OK c)
    (hd : (srcs.flatMap (·.list)).Pairwise (fun a b => a.key ≠ b.key)) :
    MergeOK c (srcs.map (·.list)) (sortedUnion c (srcs.flatMap (·.list))) where
  sortedU := by
    apply foldl_insert_sorted hl _ [] List.Pairwise.nil
    simpa using hd
  mem := by
    intro e
    have hp := foldl_insert_perm (c := c) (srcs.flatMap (·.list)) []
    rw [sortedUnion, hp.mem_iff]
    simp only [List.append_nil, List.mem_flatMap, List.mem_map]
    constructor
    · rintro ⟨s, hs, he⟩; exact ⟨s.list, ⟨s, hs, rfl⟩, he⟩
    · rintro ⟨_, ⟨s, hs, rfl⟩, he⟩; exact ⟨s, hs, he⟩
  sortedL := by
    intro L hL
    obtain ⟨s, hs, rfl⟩ := List.mem_map.1 hL
    exact s.list_sorted (hok s hs)
  distinct := by
    intro i j Li Lj a b hij hi hj ha hb
    rw [List.flatMap_def] at hd
    have hp := (List.pairwise_flatten.1 hd).2
    have hli := getElem?_lt hi
    have hlj := getElem?_lt hj
    rw [List.getElem?_eq_getElem hli] at hi
    rw [List.getElem?_eq_getElem hlj] at hj
    rcases Nat.lt_or_ge i j with h | h
    · have := (List.pairwise_iff_getElem.1 hp) i j hli hlj h
      rw [Option.some.inj hi, Option.some.inj hj] at this
      exact this a ha b hb
    · have := (List.pairwise_iff_getElem.1 hp) j i hlj hli (by omega)
      rw [Option.some.inj hi, Option.some.inj hj] at this
      exact (this b hb a ha).symm

end
end GoLevel
