import GoLevel.Proofs.WriteProtoStep
/-! Pointwise invariants of the write-merge protocol: what each thread record looks like at each program
counter (`Loc`), who holds the token (`cur`), which leader a waiting writer belongs to, and that a merged
writer's result is its group's result. -/
namespace GoLevel.WP

/-- the leader's record once `unlockWrite(_, _, r)` has been entered: `r` is the group's result, and it is
consistent with the journal outcome and the publication -/
def Out (w : Thread) (r : Res) : Prop :=
  w.gres = some r ∧ (r = .ok ∨ r = .err) ∧ (r = .ok → w.jout = some true ∧ w.pub ≠ none) ∧
  (w.jout = some false → r = .err ∧ w.pub = none) ∧ (w.jout = none → w.pub = none)

def Blank (w : Thread) : Prop := w.gres = none ∧ w.jout = none ∧ w.pub = none

/-- thread-local invariant -/
def Loc (w : Thread) : Prop :=
  match w.pc with
  | .idle | .selecting => w.acc = none ∧ Blank w
  | .waitMerged => w.kind = .writer ∧ w.acc = none ∧ Blank w
  | .waitAck => w.kind = .writer ∧ Blank w
  | .hold => w.kind ≠ .writer ∧ w.acc = none ∧ Blank w
  | .lead (.acking _ r) _ _ => w.kind = .writer ∧ w.acc = none ∧ Out w r
  | .lead .rotate _ _ => w.kind = .writer ∧ w.acc = none ∧ w.gres = none ∧ w.jout = some true ∧ w.pub ≠ none
  | .lead .apply _ _ | .lead .publish _ _ =>
      w.kind = .writer ∧ w.acc = none ∧ w.gres = none ∧ w.jout = some true ∧ w.pub = none
  | .lead _ _ _ => w.kind = .writer ∧ w.acc = none ∧ Blank w
  | .returned r => (w.acc = none → Blank w ∨ Out w r) ∧ (w.acc ≠ none → w.kind = .writer ∧ Blank w)

structure PInv (s : St) : Prop where
  loc : ∀ (i : Nat) (w : Thread), s.ws[i]? = some w → Loc w
  holder_cur : ∀ (j : Nat) (w : Thread), s.ws[j]? = some w → 0 < holds w.pc → s.cur = some j
  wa_cur : ∀ (i : Nat) (w : Thread), s.ws[i]? = some w → w.pc = .waitAck → w.acc = s.cur ∧ w.acc ≠ none
  member : ∀ (i : Nat) (w : Thread) (j : Nat), s.ws[i]? = some w → w.acc = some j →
    ∃ l, s.ws[j]? = some l ∧ ∀ r, w.pc = .returned r → l.gres = some r
  flags : ∀ (i : Nat) (w : Thread), s.ws[i]? = some w → w.pc ≠ .idle →
    (w.kind = .closer → s.closed = true) ∧ (w.kind = .perErrH → s.perErr = true)


theorem holds_of_owed (p : Pc) (h : 0 < owed p) : 0 < holds p := by
  cases p <;> simp_all [owed, holds]

theorem holder_unique (u : St) (c : CInv u) (a b : Nat) (x y : Thread) (ha : u.ws[a]? = some x)
    (hb : u.ws[b]? = some y) (hx : 0 < holds x.pc) (hy : 0 < holds y.pc) : a = b := by
  apply unique_of_tot_le_one holds u.ws _ a b x y ha hb hx hy
  have := c.holders; split at this <;> omega

theorem no_holder (u : St) (c : CInv u) (ht : u.token = false) (a : Nat) (x : Thread)
    (ha : u.ws[a]? = some x) : holds x.pc = 0 := by
  have := c.holders; rw [ht] at this; simp at this
  have := le_tot_of_mem holds u.ws a x ha; omega

theorem no_wa (u : St) (c : CInv u) (h : ∀ (a : Nat) (x : Thread), u.ws[a]? = some x → owed x.pc = 0)
    (a : Nat) (x : Thread) (ha : u.ws[a]? = some x) : x.pc ≠ .waitAck := by
  intro hpc
  have h0 := tot_eq_zero owed u.ws h
  have := le_tot_of_mem isWA u.ws a x ha
  rw [hpc] at this; simp [isWA] at this
  have := c.acks; omega

theorem no_wa_of_token_false (u : St) (c : CInv u) (ht : u.token = false) (a : Nat) (x : Thread)
    (ha : u.ws[a]? = some x) : x.pc ≠ .waitAck := by
  apply no_wa u c _ a x ha
  intro b y hb
  have := no_holder u c ht b y hb
  have := holds_of_owed y.pc
  omega

/-- pointwise goal after a replaced thread: look the thread up, let `grind` do the case analysis -/
macro "pw" : tactic =>
  `(tactic| (intro a x hx; simp only [set2, List.getElem?_set] at hx;
             grind [Loc, Thread.setPc, Thread.asLeader, Thread.unlock, Thread.grouped, Thread.journalled, Out, Blank, holds,
                    accept_pc, accept_acc, accept_kind, accept_gres, accept_jout, accept_pub]))
macro "pwm" : tactic =>
  `(tactic| (intro a x b hx; simp only [set2, List.getElem?_set] at hx ⊢;
             grind [Loc, Thread.setPc, Thread.asLeader, Thread.unlock, Thread.grouped, Thread.journalled, Out, Blank, holds,
                    accept_pc, accept_acc, accept_kind, accept_gres, accept_jout, accept_pub]))

theorem step_loc (s t : St) (h : Step s t) (c : CInv s) (ct : CInv t) (inv : PInv s) :
    ∀ (i : Nat) (w : Thread), t.ws[i]? = some w → Loc w := by
  obtain ⟨h1, h2, h3, h4, h5⟩ := inv
  cases h with
  | call i w hi hp => pw
  | retClosed i w hi hp hk hc => pw
  | retPerErr i w hi hp hk hc => pw
  | lock i w g hi hp hk ht =>
    have nh := no_holder s c ht
    have nw := no_wa_of_token_false s c ht
    pw
  | hAcquire i w hi hp hk ht =>
    have nh := no_holder s c ht
    have nw := no_wa_of_token_false s c ht
    pw
  | hRelease i w hi hp hk => pw
  | flushOk j l m o lim hj hp => pw
  | flushFail j l m o hj hp => pw
  | recvAccept i j w l m g hj hi hp hm hl' hq hk hwm hsz => pw
  | reply i j w l m o hj hi hp hq => pw
  | recvOverflow i j w l m hj hi hp hm hl' hq hk hwm hsz => pw
  | mergeDone j l m o hj hp => pw
  | journalOk j l m o hj hp => pw
  | journalFail j l m o hj hp => pw
  | apply j l m o hj hp => pw
  | publish j l m o rot hj hp hrot => cases rot <;> pw
  | rotateOk j l m o hj hp => pw
  | rotateFail j l m o hj hp => pw
  | ack i j w l k m o r hj hi hp hq => pw
  | handoff i j w l m r g hj hi hp hq hc => pw
  | release j l m r hj hp => pw
  | releaseLost j l m r hj hp hc hr => exact absurd c.cfgH (by simp [hc])

theorem step_holder_cur (s t : St) (h : Step s t) (c : CInv s) (ct : CInv t) (inv : PInv s) :
    ∀ (j : Nat) (w : Thread), t.ws[j]? = some w → 0 < holds w.pc → t.cur = some j := by
  obtain ⟨h1, h2, h3, h4, h5⟩ := inv
  cases h with
  | call i w hi hp => pw
  | retClosed i w hi hp hk hc => pw
  | retPerErr i w hi hp hk hc => pw
  | lock i w g hi hp hk ht =>
    have nh := no_holder s c ht
    have nw := no_wa_of_token_false s c ht
    pw
  | hAcquire i w hi hp hk ht =>
    have nh := no_holder s c ht
    have nw := no_wa_of_token_false s c ht
    pw
  | hRelease i w hi hp hk =>
    have nh := no_holder _ ct rfl
    intro a x hx hh; have := nh a x hx; omega
  | flushOk j l m o lim hj hp => pw
  | flushFail j l m o hj hp => pw
  | recvAccept i j w l m g hj hi hp hm hl' hq hk hwm hsz => pw
  | reply i j w l m o hj hi hp hq => pw
  | recvOverflow i j w l m hj hi hp hm hl' hq hk hwm hsz => pw
  | mergeDone j l m o hj hp => pw
  | journalOk j l m o hj hp => pw
  | journalFail j l m o hj hp => pw
  | apply j l m o hj hp => pw
  | publish j l m o rot hj hp hrot => cases rot <;> pw
  | rotateOk j l m o hj hp => pw
  | rotateFail j l m o hj hp => pw
  | ack i j w l k m o r hj hi hp hq => pw
  | handoff i j w l m r g hj hi hp hq hc =>
    have hil := (List.getElem?_eq_some_iff.mp hi).1
    have hti : (set2 s.ws j (l.setPc (.returned r)) i w.asLeader)[i]? = some w.asLeader := by
      simp [set2, hil]
    have hu : ∀ (a : Nat) (x : Thread), (set2 s.ws j (l.setPc (.returned r)) i w.asLeader)[a]? = some x →
        0 < holds x.pc → a = i := fun a x hx hh =>
      holder_unique _ ct a i x w.asLeader hx hti hh (by simp [Thread.asLeader, holds])
    intro a x hx hh; have := hu a x hx hh; simp [this]
  | release j l m r hj hp =>
    have nh := no_holder _ ct rfl
    intro a x hx hh; have := nh a x hx; omega
  | releaseLost j l m r hj hp hc hr => exact absurd c.cfgH (by simp [hc])

end GoLevel.WP
