import GoLevel.Model.Manifest
import GoLevel.Proofs.Bytes
/-!
Round trip of the session-record codec (`Model/Manifest.lean`).
-/
namespace GoLevel.Manifest
open GoLevel.Gen (recComparer recJournalNum recNextFileNum recSeqNum recCompPtr recDelTable recAddTable
  recPrevJournalNum)

theorem tags_eq : recComparer = 1 ∧ recJournalNum = 2 ∧ recNextFileNum = 3 ∧ recSeqNum = 4 ∧ recCompPtr = 5 ∧
    recDelTable = 6 ∧ recAddTable = 7 ∧ recPrevJournalNum = 9 := by decide

/-- what `sessionRecord.encode` can write and `decode` accepts: file numbers and sizes are `int64`,
    the sequence number and levels `uint64`, byte strings have a 64-bit length -/
def Field.valid : Field → Prop
  | .comparer name => name.length < 2 ^ 64
  | .journalNum n => n < 2 ^ 63
  | .nextFileNum n => n < 2 ^ 63
  | .seqNum n => n < 2 ^ 64
  | .compPtr l k => l < 2 ^ 64 ∧ k.length < 2 ^ 64
  | .delTable l n => l < 2 ^ 64 ∧ n < 2 ^ 63
  | .addTable t => t.level < 2 ^ 64 ∧ t.num < 2 ^ 63 ∧ t.size < 2 ^ 63 ∧ t.imin.length < 2 ^ 64 ∧
      t.imax.length < 2 ^ 64
  | .prevJournalNum n => n < 2 ^ 63

def SessionRecord.valid (r : SessionRecord) : Prop := r.prevJournalNum = none ∧ ∀ f ∈ r.fields, f.valid

theorem rdUvarint_append (x : Nat) (rest : Bytes) (h : x < 2 ^ 64) :
    rdUvarint (uvarint x ++ rest) = .ok (x, rest) := by
  simp [rdUvarint, readUvarint_uvarint_append x rest h]

theorem rdVarint_append (x : Nat) (rest : Bytes) (h : x < 2 ^ 63) :
    rdVarint (uvarint x ++ rest) = .ok (x, rest) := by
  simp [rdVarint, rdUvarint_append x rest (by omega), h]

theorem rdBytes_append (c : Bool) (x rest : Bytes) (h : x.length < 2 ^ 64) :
    rdBytes c (putBytes x ++ rest) = .ok (x, rest) := by
  simp [rdBytes, putBytes, rdUvarint_append x.length _ h, List.take_left']

/-- the tag of a field -/
def Field.tag : Field → Nat
  | .comparer _ => recComparer
  | .journalNum _ => recJournalNum
  | .nextFileNum _ => recNextFileNum
  | .seqNum _ => recSeqNum
  | .compPtr _ _ => recCompPtr
  | .delTable _ _ => recDelTable
  | .addTable _ => recAddTable
  | .prevJournalNum _ => recPrevJournalNum

/-- the bytes after the tag -/
def Field.payload : Field → Bytes
  | .comparer name => putBytes name
  | .journalNum n => uvarint n
  | .nextFileNum n => uvarint n
  | .seqNum n => uvarint n
  | .compPtr l k => uvarint l ++ putBytes k
  | .delTable l n => uvarint l ++ uvarint n
  | .addTable t => uvarint t.level ++ uvarint t.num ++ uvarint t.size ++ putBytes t.imin ++ putBytes t.imax
  | .prevJournalNum n => uvarint n

theorem Field.encode_eq (f : Field) : f.encode = uvarint f.tag ++ f.payload := by
  cases f <;> simp [Field.encode, Field.tag, Field.payload, List.append_assoc]

theorem Field.tag_lt (f : Field) : f.tag < 2 ^ 64 := by
  obtain ⟨h1, h2, h3, h4, h5, h6, h7, h9⟩ := tags_eq
  cases f <;> simp [Field.tag, *]

theorem Field.encode_ne_nil (f : Field) : f.encode ≠ [] := by
  rw [f.encode_eq]; simp [uvarint_ne_nil]

theorem rdField_payload (c : Bool) (f : Field) (rest : Bytes) (h : f.valid) :
    rdField c f.tag (f.payload ++ rest) = .ok (some f, rest) := by
  obtain ⟨h1, h2, h3, h4, h5, h6, h7, h9⟩ := tags_eq
  cases f with
  | comparer name =>
    simp only [Field.valid] at h
    simp [rdField, Field.tag, Field.payload, rdBytes_append c name rest h, Except.map]
  | journalNum n =>
    simp only [Field.valid] at h
    simp [rdField, Field.tag, Field.payload, h1, h2, rdVarint_append n rest h, Except.map]
  | nextFileNum n =>
    simp only [Field.valid] at h
    simp [rdField, Field.tag, Field.payload, h1, h2, h3, h9, rdVarint_append n rest h, Except.map]
  | seqNum n =>
    simp only [Field.valid] at h
    simp [rdField, Field.tag, Field.payload, h1, h2, h3, h4, h9, rdUvarint_append n rest h, Except.map]
  | compPtr l k =>
    obtain ⟨hl, hk⟩ := h
    simp [rdField, Field.tag, Field.payload, h1, h2, h3, h4, h5, h9, List.append_assoc,
      rdUvarint_append l _ hl, rdBytes_append c k rest hk, bind, Except.bind, pure, Except.pure]
  | delTable l n =>
    obtain ⟨hl, hn⟩ := h
    simp [rdField, Field.tag, Field.payload, h1, h2, h3, h4, h5, h6, h7, h9, List.append_assoc,
      rdUvarint_append l _ hl, rdVarint_append n rest hn, bind, Except.bind, pure, Except.pure]
  | addTable t =>
    obtain ⟨hl, hn, hs, ha, hb⟩ := h
    simp [rdField, Field.tag, Field.payload, h1, h2, h3, h4, h5, h7, h9, List.append_assoc,
      rdUvarint_append t.level _ hl, rdVarint_append t.num _ hn, rdVarint_append t.size _ hs,
      rdBytes_append c t.imin _ ha, rdBytes_append c t.imax rest hb, bind, Except.bind, pure, Except.pure]
  | prevJournalNum n =>
    simp only [Field.valid] at h
    simp [rdField, Field.tag, Field.payload, h1, h2, h9, rdVarint_append n rest h, Except.map]

/-- a list of encoded fields is decoded into the receiver, field by field -/
theorem decodeLoop_fields (fs : List Field) (h : ∀ f ∈ fs, f.valid) (p : SessionRecord) (fuel : Nat)
    (hf : fs.length < fuel) :
    decodeLoop true fuel p (fs.flatMap Field.encode) = (fs.foldl SessionRecord.apply p, none) := by
  induction fs generalizing p fuel with
  | nil =>
    match fuel, hf with
    | fuel+1, _ => simp [decodeLoop]
  | cons f fs ih =>
    match fuel, hf with
    | fuel+1, hf =>
      have hv := h f List.mem_cons_self
      have hne : (f.encode ++ fs.flatMap Field.encode).isEmpty = false := by
        have := f.encode_ne_nil
        cases hh : f.encode with
        | nil => exact absurd hh this
        | cons a b => rfl
      simp only [List.flatMap_cons, List.foldl_cons, decodeLoop, hne]
      rw [f.encode_eq, List.append_assoc, rdUvarint_append _ _ f.tag_lt]
      simp only [Bool.false_eq_true, false_and, if_false, rdField_payload true f _ hv]
      exact ih (fun g hg => h g (List.mem_cons_of_mem _ hg)) _ fuel (by simp at hf; omega)

theorem length_le_flatMap_encode (fs : List Field) : fs.length ≤ (fs.flatMap Field.encode).length := by
  induction fs with
  | nil => simp
  | cons f fs ih =>
    have : 0 < f.encode.length := List.length_pos_iff.mpr f.encode_ne_nil
    simp only [List.flatMap_cons, List.length_append, List.length_cons]
    omega

theorem foldl_compPtr (l : List (Nat × Bytes)) (p : SessionRecord) :
    (l.map fun x => Field.compPtr x.1 x.2).foldl SessionRecord.apply p =
      { p with compPtrs := p.compPtrs ++ l } := by
  induction l generalizing p with
  | nil => simp
  | cons a l ih => simp [ih, SessionRecord.apply, List.append_assoc]

theorem foldl_delTable (l : List (Nat × Nat)) (p : SessionRecord) :
    (l.map fun x => Field.delTable x.1 x.2).foldl SessionRecord.apply p =
      { p with deleted := p.deleted ++ l } := by
  induction l generalizing p with
  | nil => simp
  | cons a l ih => simp [ih, SessionRecord.apply, List.append_assoc]

theorem foldl_addTable (l : List AddedTable) (p : SessionRecord) :
    (l.map Field.addTable).foldl SessionRecord.apply p = { p with added := p.added ++ l } := by
  induction l generalizing p with
  | nil => simp
  | cons a l ih => simp [ih, SessionRecord.apply, List.append_assoc]

/-- applying the fields of a record (without `prevJournalNum`) to the empty record rebuilds it -/
theorem foldl_fields (r : SessionRecord) (h : r.prevJournalNum = none) :
    r.fields.foldl SessionRecord.apply {} = r := by
  obtain ⟨cmp, jn, pj, nf, sq, cps, del, add⟩ := r
  simp only at h
  subst h
  simp only [SessionRecord.fields, List.foldl_append, foldl_compPtr, foldl_delTable, foldl_addTable]
  cases cmp <;> cases jn <;> cases nf <;> cases sq <;> simp [SessionRecord.apply]

/-- `decode ∘ encode = id` on the records the writer can produce -/
theorem decode_encode (r : SessionRecord) (h : r.valid) : SessionRecord.decode r.encode = some r := by
  unfold SessionRecord.decode decodeInto SessionRecord.encode
  rw [decodeLoop_fields r.fields h.2 {} _ (by have := length_le_flatMap_encode r.fields; omega)]
  simp only [foldl_fields r h.1]

/-- decoding into a used receiver (as `session.recover` does): the new record's scalars overwrite, its
    lists are appended -/
theorem decodeInto_encode (p r : SessionRecord) (h : r.valid) :
    decodeInto p r.encode true = (r.fields.foldl SessionRecord.apply p, none) := by
  unfold decodeInto SessionRecord.encode
  exact decodeLoop_fields r.fields h.2 p _ (by have := length_le_flatMap_encode r.fields; omega)

end GoLevel.Manifest
