import GoLevel.Proofs.DurableBytesCodec
import GoLevel.Proofs.ManifestRead
/-!
One log file of the byte-level disk: what the real readers make of a crash image of its bytes.
-/
namespace GoLevel.Dur
open GoLevel GoLevel.Manifest

/-- the surviving bytes are a prefix of the encoding of all records, at least as long as the synced part -/
theorem kept_eq_take (S U : List Bytes) (k : Nat) :
    (encLog S U).kept k = (Journal.encode (S ++ U)).take ((Journal.encode S).length + k) := by
  simp only [ByteFile.kept, encLog, Journal.encode, Journal.encodeFrom_append, List.take_append,
    Nat.add_sub_cancel_left]
  rw [List.take_of_length_le (Nat.le_add_right _ _)]

theorem encLog_all (S U : List Bytes) : (encLog S U).all = Journal.encode (S ++ U) := by
  simp only [ByteFile.all, encLog, Journal.encode, Journal.encodeFrom_append]

/-- every synced record lies wholly within the surviving bytes -/
theorem fits_synced (S U : List Bytes) (k : Nat) :
    S.length ≤ Journal.fits 0 (S ++ U) ((Journal.encode S).length + k) := by
  rw [C12.fits_complete (S ++ U) _ S.length (by simp)]
  simp only [List.take_left']
  omega

/-- how many of the unsynced records `U` lie wholly within the first `k` unsynced bytes -/
def keptRecs (S U : List Bytes) (k : Nat) : Nat :=
  Journal.fits 0 (S ++ U) ((Journal.encode S).length + k) - S.length

/-- **One file.**  The tolerant reader with checksums on, run over a crash image of a log file (synced bytes,
    any number of bytes of the unsynced tail, silent junk), delivers the synced records and a prefix of the
    unsynced ones — nothing else, never an error. -/
theorem crash_file_records (S U : List Bytes) (k : Nat) (junk : Bytes) (hs : Silent ((encLog S U).kept k) junk) :
    (Journal.decode false true (crashFile k junk (encLog S U)).all).records = S ++ U.take (keptRecs S U k) := by
  have hf := fits_synced S U k
  simp only [crashFile, ByteFile.all, List.append_nil, keptRecs]
  rw [hs, kept_eq_take, (C12.decode_truncate_tolerant true (S ++ U) _).1, List.take_append,
    List.take_of_length_le hf]

theorem whole_file_records (S U : List Bytes) :
    (Journal.decode false true (encLog S U).all).records = S ++ U := by
  rw [encLog_all, (C12.decode_encode false true (S ++ U)).1]

/-! ## journals -/

theorem decJournal_image (f : LogFile Grp) (hf : ∀ g ∈ f.all, g.Encodable) (k : Nat) (junk : Bytes)
    (hs : Silent ((encJournal f).kept k) junk) :
    decJournal (crashFile k junk (encJournal f)).all =
      (crashLog (keptRecs (f.synced.map encGrpBytes) (f.unsynced.map encGrpBytes) k) f).all.map Grp.onDisk := by
  have hj := crash_file_records _ _ k junk hs
  unfold decJournal encJournal
  rw [hj, ← List.map_take, ← List.map_append]
  simp only [crashLog, LogFile.all, List.append_nil]
  apply filterMap_dec_map
  intro g hg
  refine decGrp_enc g (hf g ?_)
  simp only [LogFile.all, List.mem_append] at hg ⊢
  rcases hg with h | h
  · exact Or.inl h
  · exact Or.inr (List.mem_of_mem_take h)

theorem decJournal_whole (f : LogFile Grp) (hf : ∀ g ∈ f.all, g.Encodable) :
    decJournal (encJournal f).all = f.all.map Grp.onDisk := by
  unfold decJournal encJournal
  rw [whole_file_records, ← List.map_append]
  exact filterMap_dec_map _ _ _ _ fun g hg => decGrp_enc g (hf g hg)

/-! ## manifests -/

/-- the streaming reader of `session.recover` contributes exactly the complete records of `Journal.decode` -/
theorem decManifest_eq (bytes : Bytes) :
    decManifest bytes = (Journal.decode false true bytes).records.filterMap decMRec := by
  rw [← (readRecords_spec false bytes).1]
  unfold decManifest completeOnes
  rw [List.filterMap_filterMap]
  congr 1
  funext p
  cases p.2 <;> simp

/-- a prefix of the filtered list is the filtered image of a prefix -/
theorem exists_take_filter {α : Type} (p : α → Bool) (l : List α) (m : Nat) :
    ∃ k, (l.take k).filter p = (l.filter p).take m := by
  induction l generalizing m with
  | nil => exact ⟨0, by simp⟩
  | cons a l ih =>
    cases m with
    | zero => exact ⟨0, by simp⟩
    | succ m =>
      by_cases ha : p a = true
      · obtain ⟨k, hk⟩ := ih m
        exact ⟨k + 1, by simp [ha, hk]⟩
      · obtain ⟨k, hk⟩ := ih (m + 1)
        exact ⟨k + 1, by simp [ha, hk]⟩

/-- what the surviving complete payloads of a crashed manifest decode to -/
theorem decManifest_payloads (x : EncCtx) (hx : x.Valid) (l : List MRec)
    (hl : ∀ r ∈ l, r.torn = false ∧ r.Encodable) (bytes : Bytes)
    (hb : (Journal.decode false true bytes).records = l.map (encMRecBytes x)) : decManifest bytes = l := by
  rw [decManifest_eq, hb]
  have := filterMap_dec_map decMRec (encMRecBytes x) id l fun r hr => decMRec_enc x hx r (hl r hr).2 (hl r hr).1
  simpa using this

theorem crash_manifest_records (x : EncCtx) (f : LogFile MRec) (k : Nat) (junk : Bytes)
    (hs : Silent ((encManifest x f).kept k) junk) :
    ∃ j, (Journal.decode false true (crashFile k junk (encManifest x f)).all).records =
      ((crashLog j f).all.filter fun r => !r.torn).map (encMRecBytes x) := by
  have hj := crash_file_records _ _ k junk hs
  obtain ⟨j', hj'⟩ := exists_take_filter (fun r : MRec => !r.torn) f.unsynced
    (keptRecs ((f.synced.filter fun r => !r.torn).map (encMRecBytes x))
      ((f.unsynced.filter fun r => !r.torn).map (encMRecBytes x)) k)
  refine ⟨j', ?_⟩
  unfold encManifest
  rw [hj, ← List.map_take, ← List.map_append, ← hj', ← List.filter_append]
  simp only [crashLog, LogFile.all, List.append_nil]

theorem mem_crashLog_all {ρ : Type} {j : Nat} {f : LogFile ρ} {r : ρ} (h : r ∈ (crashLog j f).all) : r ∈ f.all := by
  simp only [crashLog, LogFile.all, List.append_nil, List.mem_append] at h ⊢
  rcases h with h | h
  · exact Or.inl h
  · exact Or.inr (List.mem_of_mem_take h)

theorem decManifest_image (x : EncCtx) (hx : x.Valid) (f : LogFile MRec)
    (hf : ∀ r ∈ f.all, r.torn = false → r.Encodable) (k : Nat) (junk : Bytes)
    (hs : Silent ((encManifest x f).kept k) junk) :
    ∃ j, decManifest (crashFile k junk (encManifest x f)).all = (crashLog j f).all.filter (fun r => !r.torn) := by
  obtain ⟨j, hj⟩ := crash_manifest_records x f k junk hs
  refine ⟨j, decManifest_payloads x hx _ ?_ _ hj⟩
  intro r hr
  simp only [List.mem_filter, Bool.not_eq_eq_eq_not, Bool.not_true] at hr
  exact ⟨hr.2, hf r (mem_crashLog_all hr.1) hr.2⟩

/-- without torn records the number of surviving records is explicit -/
theorem decManifest_image_notorn (x : EncCtx) (hx : x.Valid) (f : LogFile MRec)
    (hf : ∀ r ∈ f.all, r.torn = false ∧ r.Encodable) (k : Nat) (junk : Bytes)
    (hs : Silent ((encManifest x f).kept k) junk) :
    decManifest (crashFile k junk (encManifest x f)).all =
      (crashLog (keptRecs (f.synced.map (encMRecBytes x)) (f.unsynced.map (encMRecBytes x)) k) f).all := by
  have e1 : (f.synced.filter fun r => !r.torn) = f.synced :=
    List.filter_eq_self.2 fun r hr => by simp [(hf r (by simp [LogFile.all, hr])).1]
  have e2 : (f.unsynced.filter fun r => !r.torn) = f.unsynced :=
    List.filter_eq_self.2 fun r hr => by simp [(hf r (by simp [LogFile.all, hr])).1]
  have hj := crash_file_records _ _ k junk hs
  unfold encManifest at hj hs ⊢
  rw [e1, e2] at hj hs ⊢
  refine decManifest_payloads x hx _ (fun r hr => hf r (mem_crashLog_all hr)) _ ?_
  rw [hj, ← List.map_take, ← List.map_append]
  simp only [crashLog, LogFile.all, List.append_nil]

/-! ## the checks of `session.recover` beyond the records -/

theorem getLast?_replicate_like {α : Type} (a : α) (l : List α) (h : ∀ b ∈ l, b = a) :
    l.getLast? = none ∨ l.getLast? = some a := by
  cases hl : l.getLast? with
  | none => exact Or.inl rfl
  | some b => exact Or.inr (by rw [h b (List.mem_of_getLast? hl)])

/-- a manifest whose complete records are encodings of records with the DB's comparer passes -/
theorem manifestCheck_ok (x : EncCtx) (hx : x.Valid) (l : List MRec) (hl : ∀ r ∈ l, r.Encodable) (bytes : Bytes)
    (hb : (Journal.decode false true bytes).records = l.map (encMRecBytes x)) :
    manifestCheck x.cmpName bytes = none := by
  unfold manifestCheck
  have hp : ((readRecords false bytes).1.filterMap fun p => if p.2 then some p.1 else none) =
      l.map (encMRecBytes x) := by
    rw [← hb, ← (readRecords_spec false bytes).1]; rfl
  simp only [hp]
  have h1 : (l.map (encMRecBytes x)).any (fun p => (decodeInto {} p true).2 == some DecErr.eof) = false := by
    rw [List.any_eq_false]
    intro p hp
    obtain ⟨r, hr, rfl⟩ := List.mem_map.1 hp
    simp [encMRecBytes, Manifest.decodeInto_encode {} _ (encMRec_valid x hx r (hl r hr))]
  rw [h1]
  simp only [Bool.false_eq_true, if_false]
  have h2 : ∀ b ∈ (l.map (encMRecBytes x)).filterMap (fun p => (SessionRecord.decode p).bind (·.comparer)),
      b = x.cmpName := by
    intro b hb
    obtain ⟨p, hp, hb⟩ := List.mem_filterMap.1 hb
    obtain ⟨r, hr, rfl⟩ := List.mem_map.1 hp
    rw [show encMRecBytes x r = (encMRec x r).encode from rfl,
      Manifest.decode_encode _ (encMRec_valid x hx r (hl r hr))] at hb
    simp only [Option.bind_some, encMRec] at hb
    split at hb
    · cases hb; rfl
    · cases hb
  rcases getLast?_replicate_like x.cmpName _ h2 with e | e
  · rw [e]
  · rw [e]; simp

theorem decManifest_whole (x : EncCtx) (hx : x.Valid) (f : LogFile MRec)
    (hf : ∀ r ∈ f.all, r.torn = false → r.Encodable) :
    decManifest (encManifest x f).all = f.all.filter (fun r => !r.torn) := by
  rw [decManifest_eq]
  unfold encManifest
  rw [whole_file_records, ← List.map_append, ← List.filter_append]
  have := filterMap_dec_map decMRec (encMRecBytes x) id (f.all.filter fun r => !r.torn) (by
    intro r hr
    simp only [List.mem_filter, Bool.not_eq_eq_eq_not, Bool.not_true] at hr
    exact decMRec_enc x hx r (hf r hr.1 hr.2) hr.2)
  simpa [LogFile.all] using this

end GoLevel.Dur
