import GoLevel.Proofs.DurableBytesFile
/-!
When is the junk after the surviving bytes of a crashed log file *silent* (`Dur.Silent`)?  Always when there is
none; zeros after a cut at a record boundary; anything that ends in the block of the chunk that was cut when the
chunk found there fails the reader's header/CRC test (the hypothesis of `C12.decode_damage_partial`).
-/
namespace GoLevel.Dur
open GoLevel GoLevel.Journal
open GoLevel.Gen (journalBlockSize journalHeaderSize)

local notation "blockSize" => journalBlockSize
local notation "headerSize" => journalHeaderSize

theorem silent_nil_aux (base : Bytes) : Silent base [] := by simp [Silent]

/-- zeros (a preallocated extent) after a whole number of records -/
theorem silent_zeros_aux (rs : List Bytes) (z : Nat) : Silent (Journal.encode rs) (List.replicate z 0) := by
  unfold Silent
  rw [(C12.decode_zero_tail true rs z).1, (C12.decode_encode false true rs).1]

/-- a cut of a log file at a record boundary: the surviving bytes are the encoding of the surviving records -/
theorem kept_at_boundary (S U : List Bytes) (j : Nat) :
    (encLog S U).kept (Journal.encodeFrom (Journal.endPos 0 S) (U.take j)).length =
      Journal.encode (S ++ U.take j) := by
  simp only [ByteFile.kept, encLog, Journal.encode, Journal.encodeFrom_append]
  congr 1
  conv => lhs; rw [← List.take_append_drop j U, Journal.encodeFrom_append]
  simp

/-- `T`, read at a chunk boundary, is *dead*: it ends in the block of that chunk and is too short for a chunk
    header or fails the reader's test (zero header, invalid type, length beyond what is there, checksum) -/
def Dead (pos : Nat) (y : Option Bytes) (T : Bytes) : Prop :=
  T.length ≤ blockSize - zoneStart pos y ∧
  (T.length < headerSize ∨ ¬ Accepts true (zoneStart pos y) T (zoneStart pos y + T.length))

instance (pos : Nat) (y : Option Bytes) (T : Bytes) : Decidable (Dead pos y T) := by unfold Dead; infer_instance

/-- the reader finds no record in a dead tail -/
theorem decodeLoop_dead (pos : Nat) (cur y : Option Bytes) (T : Bytes)
    (hcy : cur.isSome = y.isSome) (hpos : if y.isSome then pos = blockSize else pos + headerSize ≤ blockSize)
    (hd : Dead pos y T) : eventRecords (decodeLoop false true ⟨pos, T⟩ cur).events = [] := by
  have h7 := headerSize_eq
  obtain ⟨hlen, hrej⟩ := hd
  by_cases hshort : T.length < headerSize
  · obtain ⟨st', hs', e⟩ := nextChunk_short false true cur.isNone ⟨pos, T⟩ (Or.inl hshort)
    unfold endOfStream corrupt at e
    cases cur with
    | none =>
      simp only [Option.isNone_none, Bool.not_true, Bool.false_eq_true, if_false] at e
      rw [decodeLoop_eof (cur := none) e]; rfl
    | some acc =>
      simp only [Option.isNone_some, Bool.not_false, if_true, Bool.false_and, Bool.false_eq_true, if_false] at e
      rw [decodeLoop_skip (cur := some acc) e, decodeLoop_short_none _ _ _ hs']
      rfl
  · have hR : headerSize ≤ T.length := by omega
    have hacc : ¬ Accepts true (zoneStart pos y) T (zoneStart pos y + T.length) := by
      rcases hrej with h | h
      · omega
      · exact h
    have hn := nextChunk_at false true cur.isNone pos y T hpos hR
    rw [Nat.min_eq_right hlen] at hn
    obtain ⟨w, _, _, hp⟩ := parseChunk_reject false true cur.isNone (zoneStart pos y) T _ hacc
    rw [hp] at hn
    unfold corrupt at hn
    simp only [Bool.false_and, Bool.false_eq_true, if_false, Nat.add_sub_cancel_left] at hn
    rw [decodeLoop_skip hn, decodeLoop_short_none _ _ _ (by simp; omega)]
    rfl

/-- **Junk in the block of the cut.**  `X` is an intact prefix of the stream ending at a chunk boundary
    (`Journal.Boundary`), `T0` what survives of the chunk that starts there, `J` the junk.  If both `T0` and
    `T0 ++ J` are dead, the junk is silent: the reader delivers the records wholly inside `X` either way. -/
theorem silent_at_boundary_aux {rs done : List Bytes} {X : Bytes} {pos : Nat} {cur y : Option Bytes}
    {rest : List Bytes} (hB : Boundary rs done X pos cur y rest) (T0 J : Bytes)
    (h0 : Dead pos y T0) (h1 : Dead pos y (T0 ++ J)) : Silent (X ++ T0) J := by
  obtain ⟨hcy, hpos, _⟩ := hB.shape
  unfold Silent Journal.decode
  rw [List.append_assoc, hB.reader false true (T0 ++ J), hB.reader false true T0, records_mk, records_mk,
    decodeLoop_dead pos cur y _ hcy hpos h0, decodeLoop_dead pos cur y _ hcy hpos h1]

end GoLevel.Dur
