import GoLevel.Proofs.MemDBRefine
/-! `Delete`, the reads, and the step-by-step refinement of the sorted map (C14). -/
set_option linter.unusedSectionVars false
set_option linter.unusedSimpArgs false
namespace GoLevel.MemDB

variable {cmp : Cmp}

theorem headD_map_filter (ls : List (List Bytes)) (p : Bytes → Bool) :
    (ls.map (·.filter p)).headD [] = (ls.headD []).filter p := by
  cases ls <;> simp

theorem value_filter_other (db : DB) {key k : Bytes} (hne : k ≠ key) (ls : List (List Bytes)) (a b c : Nat) :
    (DB.mk ls (db.kv.filter (·.1 != key)) a b c).value k = db.value k := by
  simp only [DB.value]
  rw [lookup_filter_ne]; simp [hne]

theorem pair_filter_other (db : DB) {key : Bytes} (ls : List (List Bytes)) (a b c : Nat)
    (l : List Bytes) (hl : ∀ x ∈ l, x ≠ key) :
    l.map (DB.mk ls (db.kv.filter (·.1 != key)) a b c).pair = l.map db.pair := by
  apply List.map_congr_left
  intro x hx
  simp only [DB.pair]
  rw [value_filter_other db (hl x hx)]

theorem head?_dropWhile_eq_find? (p : Bytes → Bool) (l : List Bytes) :
    (l.dropWhile p).head? = l.find? (fun x => !p x) := by
  induction l with
  | nil => simp
  | cons a as ih =>
    by_cases ha : p a = true
    · simp [List.dropWhile_cons, List.find?_cons, ha, ih]
    · have : p a = false := by simpa using ha
      simp [List.dropWhile_cons, List.find?_cons, this]

section
variable (hc : LawfulCmp cmp)
include hc

theorem SplitMem.filter {db : DB} {key : Bytes} {pre post : List Bytes} (s : SplitMem cmp db key pre post) :
    db.level0.filter (· != key) = pre ++ post := by
  rw [s.l0, List.filter_append, List.filter_cons]
  have e1 : pre.filter (· != key) = pre :=
    List.filter_eq_self.2 (fun x hx => by simpa using hc.ne_of_lt (s.lt x hx))
  have e2 : post.filter (· != key) = post :=
    List.filter_eq_self.2 (fun x hx => by simpa using (hc.ne_of_lt (s.gt x hx)).symm)
  simp [e1, e2]

/-! ## `Delete` -/

theorem delete_absent {db : DB} (h : Inv cmp db) {key : Bytes} (hk : key ∉ db.level0) :
    delete cmp db key = (db, false) := by
  unfold delete
  rw [findGE_prev hc h key]
  simp only [hk, decide_false]

theorem delete_present {db : DB} (h : Inv cmp db) {key : Bytes} (hk : key ∈ db.level0) :
    delete cmp db key =
      ({ db with
         levels := db.levels.map (·.filter (· != key))
         kv := db.kv.filter (·.1 != key)
         n := db.n - 1
         kvSize := db.kvSize - (key.length + (db.value key).length) }, true) := by
  unfold delete
  rw [findGE_prev hc h key]
  simp only [hk, decide_true, succ_of_mem hc h.sorted0 hk, DB.height]
  rw [unlinkLevels_eq hc key db.levels h.sorted h.towersSub]

theorem abs_delete {db : DB} (h : Inv cmp db) {key : Bytes} {pre post : List Bytes}
    (s : SplitMem cmp db key pre post) :
    (delete cmp db key).1.abs = pre.map db.pair ++ post.map db.pair := by
  have hk : key ∈ db.level0 := by rw [s.l0]; simp
  rw [delete_present hc h hk, abs_eq]
  simp only [level0_mk, headD_map_filter]
  show List.map _ (db.level0.filter _) = _
  rw [s.filter hc, List.map_append, pair_filter_other, pair_filter_other]
  · intro x hx; exact (hc.ne_of_lt (s.gt x hx)).symm
  · intro x hx; exact hc.ne_of_lt (s.lt x hx)

theorem delete_abs {db : DB} (h : Inv cmp db) (key : Bytes) :
    (delete cmp db key).1.abs = SMap.erase cmp key db.abs := by
  by_cases hk : key ∈ db.level0
  · obtain ⟨pre, post, s⟩ := splitMem hc h hk
    obtain ⟨e, hA, hB⟩ := s.abs hc
    rw [abs_delete hc h s, e, SMap.erase_split_mem hc _ hA hB]
  · obtain ⟨e, hA, hB⟩ := abs_split_new hc h hk
    rw [delete_absent hc h hk]
    conv => rhs; rw [e, SMap.erase_split hc hA hB]
    exact e

theorem delete_inv {db : DB} (h : Inv cmp db) (key : Bytes) : Inv cmp (delete cmp db key).1 := by
  by_cases hk : key ∈ db.level0
  · obtain ⟨pre, post, s⟩ := splitMem hc h hk
    have habs := abs_delete hc h s
    obtain ⟨e, _, _⟩ := s.abs hc
    rw [delete_present hc h hk] at habs ⊢
    refine ⟨?_, ?_, ?_, ?_, ?_, ?_, ?_⟩
    · simpa using h.ne
    · simpa using h.height
    · intro l hl
      simp only [List.mem_map] at hl
      obtain ⟨l0, hl0, rfl⟩ := hl
      exact (h.sorted l0 hl0).filter _
    · show (db.levels.map _).Pairwise _
      rw [List.pairwise_map]
      refine List.Pairwise.imp ?_ h.towers
      intro a b hsub
      exact hsub.filter _
    · intro k
      show k ∈ (db.levels.map _).headD [] ↔ _
      rw [headD_map_filter]
      show k ∈ db.level0.filter _ ↔ _
      simp only []
      rw [lookup_filter_ne, List.mem_filter]
      by_cases hkk : k = key
      · subst hkk; simp
      · simp [hkk, h.dom k]
    · show db.n - 1 = ((db.levels.map _).headD []).length
      rw [headD_map_filter]
      show _ = (db.level0.filter _).length
      rw [s.filter hc, h.len, s.l0]
      simp
    · show db.kvSize - (key.length + (db.value key).length) = _
      rw [habs, h.size, e]
      simp only [SMap.size_append, SMap.size_cons]
      omega
  · rw [delete_absent hc h hk]; exact h

theorem delete_ok {db : DB} (h : Inv cmp db) (key : Bytes) :
    (delete cmp db key).2 = (SMap.get cmp key db.abs).isSome := by
  by_cases hk : key ∈ db.level0
  · obtain ⟨pre, post, s⟩ := splitMem hc h hk
    obtain ⟨e, hA, hB⟩ := s.abs hc
    rw [delete_present hc h hk, e, SMap.get_split_mem hc _ hA]; rfl
  · obtain ⟨e, hA, hB⟩ := abs_split_new hc h hk
    rw [delete_absent hc h hk, e, SMap.get_split hc hA hB]; rfl

/-! ## the reads -/

theorem get_eq {db : DB} (h : Inv cmp db) (key : Bytes) : get cmp db key = SMap.get cmp key db.abs := by
  unfold get
  obtain ⟨hn, he⟩ := findGE_noprev hc h key
  simp only [hn, he]
  by_cases hk : key ∈ db.level0
  · obtain ⟨pre, post, s⟩ := splitMem hc h hk
    obtain ⟨e, hA, hB⟩ := s.abs hc
    rw [e, SMap.get_split_mem hc _ hA]
    simp [hk, succ_of_mem hc h.sorted0 hk]
  · obtain ⟨e, hA, hB⟩ := abs_split_new hc h hk
    rw [e, SMap.get_split hc hA hB]
    simp [hk]

theorem contains_eq {db : DB} (h : Inv cmp db) (key : Bytes) :
    contains cmp db key = (SMap.get cmp key db.abs).isSome := by
  unfold contains
  rw [(findGE_noprev hc h key).2]
  by_cases hk : key ∈ db.level0
  · obtain ⟨pre, post, s⟩ := splitMem hc h hk
    obtain ⟨e, hA, hB⟩ := s.abs hc
    rw [e, SMap.get_split_mem hc _ hA]; simp [hk]
  · obtain ⟨e, hA, hB⟩ := abs_split_new hc h hk
    rw [e, SMap.get_split hc hA hB]; simp [hk]

theorem find_eq {db : DB} (h : Inv cmp db) (key : Bytes) : find cmp db key = SMap.findGE cmp key db.abs := by
  unfold find
  rw [(findGE_noprev hc h key).1]
  unfold SMap.findGE succ
  rw [abs_eq, List.find?_map, head?_dropWhile_eq_find?]
  have : ((fun p : Bytes × Bytes => cmp p.1 key != .lt) ∘ db.pair) = (fun x => !below cmp key x) := by
    funext x; simp [below, DB.pair, bne]
  rw [this]
  cases db.level0.find? (fun x => !below cmp key x) <;> rfl

/-! ## one step, any number of steps -/

theorem step_refines {db : DB} (h : Inv cmp db) (op : Op) (hv : op.valid) :
    Inv cmp (step cmp db op).1 ∧ (step cmp db op).1.abs = (SMap.step cmp db.abs op).1 ∧
    (step cmp db op).2 = (SMap.step cmp db.abs op).2 := by
  cases op with
  | put k v ht => exact ⟨put_inv hc h k v hv.1 hv.2, put_abs hc h k v hv.1, rfl⟩
  | delete k =>
    refine ⟨delete_inv hc h k, delete_abs hc h k, ?_⟩
    simp only [step, SMap.step, delete_ok hc h k]
  | reset => exact ⟨inv_empty cmp, abs_empty, rfl⟩
  | get k => refine ⟨h, rfl, ?_⟩; simp only [step, SMap.step, get_eq hc h k]
  | find k => refine ⟨h, rfl, ?_⟩; simp only [step, SMap.step, find_eq hc h k]
  | contains k => refine ⟨h, rfl, ?_⟩; simp only [step, SMap.step, contains_eq hc h k]
  | len => refine ⟨h, rfl, ?_⟩; simp only [step, SMap.step, h.len, abs_eq, List.length_map]
  | size => refine ⟨h, rfl, ?_⟩; simp only [step, SMap.step, h.size]

theorem exec_inv : ∀ (ops : List Op) (db : DB), Inv cmp db → (∀ op ∈ ops, op.valid) →
    Inv cmp (exec cmp db ops) ∧ (exec cmp db ops).abs = SMap.exec cmp db.abs ops := by
  intro ops
  induction ops with
  | nil => intro db h _; exact ⟨h, rfl⟩
  | cons o os ih =>
    intro db h hv
    obtain ⟨h1, h2, _⟩ := step_refines hc h o (hv o (by simp))
    have := ih _ h1 (fun op hop => hv op (by simp [hop]))
    simp only [exec, SMap.exec]
    rw [← h2]; exact this

theorem run_refines : ∀ (ops : List Op) (db : DB), Inv cmp db → (∀ op ∈ ops, op.valid) →
    run cmp db ops = SMap.run cmp db.abs ops := by
  intro ops
  induction ops with
  | nil => intro db _ _; rfl
  | cons o os ih =>
    intro db h hv
    obtain ⟨h1, h2, h3⟩ := step_refines hc h o (hv o (by simp))
    simp only [run, SMap.run]
    rw [h3, ih _ h1 (fun op hop => hv op (by simp [hop])), h2]

end

end GoLevel.MemDB
