import GoLevel.Proofs.TableR
/-! C13(d,e): `find` / `get` / `offsetOf` on a written table. -/
namespace GoLevel.C13
open GoLevel GoLevel.TableAux BlockWriter TableWriter

/-- `Separator` contract: for `a < b` a non-nil result `d` satisfies `a ≤ d < b` -/
def SepOK (cfg : TableCfg) : Prop :=
  ∀ a b d, cfg.cmp a b = .lt → cfg.sep a b = some d → cfg.cmp a d ≠ .gt ∧ cfg.cmp d b = .lt

/-- `Successor` contract: a non-nil result `d` satisfies `b ≤ d` -/
def SuccOK (cfg : TableCfg) : Prop := ∀ b d, cfg.succ b = some d → cfg.cmp b d ≠ .gt

namespace LawfulCmp
variable {cmp : Bytes → Bytes → Ordering} (hc : LawfulCmp cmp)
include hc

theorem lt_of_le_of_lt {a b c : Bytes} (h1 : cmp a b ≠ .gt) (h2 : cmp b c = .lt) : cmp a c = .lt := by
  cases h : cmp a b with
  | lt => exact hc.trans _ _ _ h h2
  | eq => have := hc.eq_of _ _ h; subst this; exact h2
  | gt => exact absurd h h1

theorem lt_of_lt_of_le {a b c : Bytes} (h1 : cmp a b = .lt) (h2 : cmp b c ≠ .gt) : cmp a c = .lt := by
  cases h : cmp b c with
  | lt => exact hc.trans _ _ _ h1 h
  | eq => have := hc.eq_of _ _ h; subst this; exact h1
  | gt => exact absurd h h2

theorem le_refl (a : Bytes) : cmp a a ≠ .gt := by rw [hc.refl]; decide

omit hc in
theorem le_of_lt {a b : Bytes} (h : cmp a b = .lt) : cmp a b ≠ .gt := by rw [h]; decide

theorem not_lt_of_lt {a b : Bytes} (h : cmp a b = .lt) : cmp b a ≠ .lt := by
  intro h2
  have := hc.trans _ _ _ h h2
  rw [hc.refl] at this
  exact absurd this (by decide)

theorem le_trans {a b c : Bytes} (h1 : cmp a b ≠ .gt) (h2 : cmp b c ≠ .gt) : cmp a c ≠ .gt := by
  cases h : cmp b c with
  | lt => exact le_of_lt (hc.lt_of_le_of_lt h1 h)
  | eq => have := hc.eq_of _ _ h; subst this; exact h1
  | gt => exact absurd h h2

end LawfulCmp

/-- `last ≤ ixKey last next`, and `ixKey last next < next` when there is a (non-empty) next key -/
theorem ixKey_ge {cfg : TableCfg} (hc : LawfulCmp cfg.cmp) (hsep : SepOK cfg) (hsucc : SuccOK cfg)
    (last next : Bytes) (hlt : next ≠ [] → cfg.cmp last next = .lt) : cfg.cmp last (ixKey cfg last next) ≠ .gt := by
  unfold ixKey
  by_cases hn : next = []
  · subst hn
    simp only [List.isEmpty_nil, if_true]
    cases h : cfg.succ last with
    | none => exact hc.le_refl _
    | some d => exact hsucc _ _ h
  · have : next.isEmpty = false := by cases next <;> simp_all
    simp only [this, Bool.false_eq_true, if_false]
    cases h : cfg.sep last next with
    | none => exact hc.le_refl _
    | some d => exact (hsep _ _ _ (hlt hn) h).1

theorem ixKey_lt {cfg : TableCfg} (hsep : SepOK cfg) (last next : Bytes) (hn : next ≠ [])
    (hlt : cfg.cmp last next = .lt) : cfg.cmp (ixKey cfg last next) next = .lt := by
  unfold ixKey
  have : next.isEmpty = false := by cases next <;> simp_all
  simp only [this, Bool.false_eq_true, if_false]
  cases h : cfg.sep last next with
  | none => exact hlt
  | some d => exact (hsep _ _ _ hlt h).2

def KeysNE (l : List KV) : Prop := ∀ kv ∈ l, kv.1 ≠ []

theorem lastKeyD_mem (c : List KV) (h : c ≠ []) : ∃ v, (lastKeyD [] c, v) ∈ c := by
  refine ⟨(c.getLast h).2, ?_⟩
  have : lastKeyD [] c = (c.getLast h).1 := by
    simp [lastKeyD, List.getLast?_eq_some_getLast h]
  rw [this]
  exact List.getLast_mem h

theorem le_lastKey {cmp : Bytes → Bytes → Ordering} (hc : LawfulCmp cmp) (c : List KV) (hs : StrictSorted cmp c)
    (kv : KV) (hm : kv ∈ c) : cmp kv.1 (lastKeyD [] c) ≠ .gt := by
  have hne : c ≠ [] := List.ne_nil_of_mem hm
  have hl : lastKeyD [] c = (c.getLast hne).1 := by
    simp [lastKeyD, List.getLast?_eq_some_getLast hne]
  rw [hl]
  have hd := List.dropLast_concat_getLast hne
  rw [← hd] at hm hs
  rcases List.mem_append.mp hm with h1 | h1
  · have := (List.pairwise_append.mp hs).2.2 kv h1 (c.getLast hne) (by simp)
    exact LawfulCmp.le_of_lt this
  · simp at h1; rw [h1]; exact hc.le_refl _

/-- the index key of a chunk bounds the chunk from above and lies below everything that follows -/
theorem ixKey_chunk {cfg : TableCfg} (hc : LawfulCmp cfg.cmp) (hsep : SepOK cfg) (hsucc : SuccOK cfg)
    (c R : List KV) (hne : c ≠ []) (hs : StrictSorted cfg.cmp (c ++ R)) (hk : KeysNE R) :
    (∀ kv ∈ c, cfg.cmp kv.1 (ixKey cfg (lastKeyD [] c) (firstKeyD R)) ≠ .gt) ∧
    (∀ kv ∈ R, cfg.cmp (ixKey cfg (lastKeyD [] c) (firstKeyD R)) kv.1 = .lt) := by
  have hsc := (List.pairwise_append.mp hs).1
  obtain ⟨lv, hlm⟩ := lastKeyD_mem c hne
  cases R with
  | nil =>
    refine ⟨fun kv hm => ?_, by simp⟩
    exact hc.le_trans (le_lastKey hc c hsc kv hm) (ixKey_ge hc hsep hsucc _ _ (fun h => absurd rfl h))
  | cons r R' =>
    obtain ⟨k, v⟩ := r
    have hkne : k ≠ [] := hk (k, v) (by simp)
    have hlt : cfg.cmp (lastKeyD [] c) k = .lt := (List.pairwise_append.mp hs).2.2 _ hlm (k, v) (by simp)
    have hfk : firstKeyD ((k, v) :: R') = k := rfl
    rw [hfk]
    refine ⟨fun kv hm => ?_, fun kv hm => ?_⟩
    · exact hc.le_trans (le_lastKey hc c hsc kv hm) (ixKey_ge hc hsep hsucc _ _ (fun _ => hlt))
    · have h1 := ixKey_lt hsep _ k hkne hlt
      rcases List.mem_cons.mp hm with rfl | hm'
      · exact h1
      · have hsR := (List.pairwise_append.mp hs).2.1
        have : cfg.cmp k kv.1 = .lt := (List.pairwise_cons.mp hsR).1 kv hm'
        exact hc.trans _ _ _ h1 this

/-- keys after the first chunk are non-empty (only the very first key of a table may be empty) -/
def TailKeysNE (cs : List (List KV)) (tl : List KV) : Prop :=
  match cs with
  | [] => True
  | _ :: rest => KeysNE (rest.flatten ++ tl)

theorem TailKeysNE.tail {c : List KV} {rest : List (List KV)} {tl : List KV} (h : TailKeysNE (c :: rest) tl) :
    TailKeysNE rest tl := by
  cases rest with
  | nil => trivial
  | cons c2 r2 =>
    intro kv hm
    exact h kv (by simp only [List.flatten_cons, List.append_assoc]; exact List.mem_append_right _ hm)

/-- standing assumptions on the chunk partition -/
structure ChunksOK (cfg : TableCfg) (cs : List (List KV)) (tl : List KV) : Prop where
  sorted : StrictSorted cfg.cmp (cs.flatten ++ tl)
  ne : ∀ c ∈ cs, c ≠ []
  keys : TailKeysNE cs tl

theorem ChunksOK.tail {cfg : TableCfg} {c : List KV} {rest : List (List KV)} {tl : List KV}
    (h : ChunksOK cfg (c :: rest) tl) : ChunksOK cfg rest tl :=
  ⟨by have := h.sorted; simp only [List.flatten_cons, List.append_assoc] at this
      exact (List.pairwise_append.mp this).2.1,
   fun x hx => h.ne x (List.mem_cons_of_mem _ hx), h.keys.tail⟩

theorem ChunksOK.head {cfg : TableCfg} (hc : LawfulCmp cfg.cmp) (hsep : SepOK cfg) (hsucc : SuccOK cfg)
    {c : List KV} {rest : List (List KV)} {tl : List KV} (h : ChunksOK cfg (c :: rest) tl) :
    (∀ kv ∈ c, cfg.cmp kv.1 (ixKey cfg (lastKeyD [] c) (firstKeyD (rest.flatten ++ tl))) ≠ .gt) ∧
    (∀ kv ∈ rest.flatten ++ tl, cfg.cmp (ixKey cfg (lastKeyD [] c) (firstKeyD (rest.flatten ++ tl))) kv.1 = .lt) :=
  ixKey_chunk hc hsep hsucc c (rest.flatten ++ tl) (h.ne c (List.mem_cons_self ..))
    (by have := h.sorted; simpa only [List.flatten_cons, List.append_assoc] using this) h.keys

/-- every index entry bounds (from above) some chunk it was made for -/
theorem ixE_bounds {cfg : TableCfg} (hc : LawfulCmp cfg.cmp) (hsep : SepOK cfg) (hsucc : SuccOK cfg)
    (tl : List KV) : ∀ (cs : List (List KV)) (off : Nat), ChunksOK cfg cs tl →
    ∀ e ∈ ixE cfg off cs tl, ∃ c ∈ cs, ∀ kv ∈ c, cfg.cmp kv.1 e.1 ≠ .gt := by
  intro cs
  induction cs with
  | nil => intro off _ e he; simp [ixE] at he
  | cons c rest ih =>
    intro off h e he
    simp only [ixE, List.mem_cons] at he
    rcases he with rfl | he
    · exact ⟨c, List.mem_cons_self .., (h.head hc hsep hsucc).1⟩
    · obtain ⟨c', hc', hb⟩ := ih _ h.tail e he
      exact ⟨c', List.mem_cons_of_mem _ hc', hb⟩

theorem ixE_sorted {cfg : TableCfg} (hc : LawfulCmp cfg.cmp) (hsep : SepOK cfg) (hsucc : SuccOK cfg)
    (tl : List KV) : ∀ (cs : List (List KV)) (off : Nat), ChunksOK cfg cs tl →
    StrictSorted cfg.cmp (ixE cfg off cs tl) := by
  intro cs
  induction cs with
  | nil => intro off _; exact List.Pairwise.nil
  | cons c rest ih =>
    intro off h
    simp only [ixE, StrictSorted]
    refine List.pairwise_cons.mpr ⟨fun e he => ?_, ih _ h.tail⟩
    obtain ⟨c', hc', hb⟩ := ixE_bounds hc hsep hsucc tl rest _ h.tail e he
    obtain ⟨v, hlm⟩ := lastKeyD_mem c' (h.ne c' (List.mem_cons_of_mem _ hc'))
    have hmem : (lastKeyD [] c', v) ∈ rest.flatten ++ tl :=
      List.mem_append_left _ (List.mem_flatten.mpr ⟨c', hc', hlm⟩)
    exact hc.lt_of_lt_of_le ((h.head hc hsep hsucc).2 _ hmem) (hb _ hlm)

/-- chunks whose index keys are all below the target lie entirely below it -/
theorem below_of_ix_below {cfg : TableCfg} (hc : LawfulCmp cfg.cmp) (hsep : SepOK cfg) (hsucc : SuccOK cfg)
    (key : Bytes) (tl : List KV) : ∀ (cs : List (List KV)) (off : Nat), ChunksOK cfg cs tl →
    (∀ e ∈ ixE cfg off cs tl, cfg.cmp e.1 key = .lt) → ∀ kv ∈ cs.flatten, cfg.cmp kv.1 key = .lt := by
  intro cs
  induction cs with
  | nil => intro off _ _ kv hkv; simp at hkv
  | cons c rest ih =>
    intro off h hall kv hkv
    simp only [List.flatten_cons, List.mem_append] at hkv
    rcases hkv with hkv | hkv
    · have h1 := (h.head hc hsep hsucc).1 kv hkv
      have h2 := hall _ (by simp only [ixE]; exact List.mem_cons_self ..)
      exact hc.lt_of_le_of_lt h1 h2
    · exact ih _ h.tail (fun e he => hall e (by simp only [ixE]; exact List.mem_cons_of_mem _ he)) kv hkv

theorem ChunksOK.left {cfg : TableCfg} {tl : List KV} : ∀ {csL csR : List (List KV)},
    ChunksOK cfg (csL ++ csR) tl → ChunksOK cfg csL (csR.flatten ++ tl) := by
  intro csL csR h
  refine ⟨by have := h.sorted; simpa only [List.flatten_append, List.append_assoc] using this,
    fun c hc => h.ne c (List.mem_append_left _ hc), ?_⟩
  cases csL with
  | nil => trivial
  | cons c rest =>
    have := h.keys
    simp only [List.cons_append, TailKeysNE, List.flatten_append, List.append_assoc] at this
    exact this

theorem ChunksOK.right {cfg : TableCfg} {tl : List KV} : ∀ {csL csR : List (List KV)},
    ChunksOK cfg (csL ++ csR) tl → ChunksOK cfg csR tl := by
  intro csL
  induction csL with
  | nil => intro csR h; exact h
  | cons c rest ih => intro csR h; exact ih h.tail

/-- the index entries not below the target are those of a suffix of the chunks -/
theorem ixE_split (cfg : TableCfg) (p : KV → Bool) (tl : List KV) : ∀ (cs : List (List KV)) (off : Nat),
    ∃ csL csR, cs = csL ++ csR ∧
      (∀ e ∈ ixE cfg off csL (csR.flatten ++ tl), p e = true) ∧
      (ixE cfg off cs tl).dropWhile p = ixE cfg (off + (dataBytes cfg csL).length) csR tl ∧
      (∀ e, (ixE cfg (off + (dataBytes cfg csL).length) csR tl).head? = some e → p e = false) := by
  intro cs
  induction cs with
  | nil => intro off; exact ⟨[], [], rfl, by simp [ixE], by simp [ixE], by simp [ixE]⟩
  | cons c rest ih =>
    intro off
    cases hp : p (ixKey cfg (lastKeyD [] c) (firstKeyD (rest.flatten ++ tl)),
        BH.encode ⟨off, (Block.build cfg.restartInterval c).length⟩) with
    | true =>
      obtain ⟨L, R, hcs, hall, hdw, hhd⟩ := ih (off + (blockBytes cfg c).length)
      refine ⟨c :: L, R, by rw [hcs]; rfl, ?_, ?_, ?_⟩
      · intro e he
        simp only [ixE, List.mem_cons] at he
        rcases he with rfl | he
        · rw [hcs, List.flatten_append, List.append_assoc] at hp; exact hp
        · exact hall e he
      · simp only [ixE, List.dropWhile_cons, hp, if_true, hdw, dataBytes_cons, List.length_append, Nat.add_assoc]
      · simpa only [dataBytes_cons, List.length_append, Nat.add_assoc] using hhd
    | false =>
      refine ⟨[], c :: rest, rfl, by simp [ixE], ?_, ?_⟩
      · simp [ixE, hp, dataBytes]
      · intro e he
        simp only [dataBytes, List.map_nil, List.flatten_nil, List.length_nil, Nat.add_zero, ixE, List.head?_cons,
          Option.some.injEq] at he
        rw [← he]; exact hp

theorem dataBytes_append (cfg : TableCfg) (a b : List (List KV)) :
    dataBytes cfg (a ++ b) = dataBytes cfg a ++ dataBytes cfg b := by
  simp [dataBytes]

/-- reading the data block of the chunk `c` in a written table -/
theorem dataBlock_chunk (t : TableR) (cfg : TableCfg) (hck : Cksum32 cfg.cksum) (hc : t.cksum = cfg.cksum)
    (csL : List (List KV)) (c : List KV) (rest : List (List KV))
    (hfile : ∃ post, t.file = dataBytes cfg (csL ++ c :: rest) ++ post) (hsz : t.file.length < 2 ^ 32) :
    t.dataBlock ⟨(dataBytes cfg csL).length, (Block.build cfg.restartInterval c).length⟩ =
      some (layoutR (enc cfg.restartInterval c) (restartsOf cfg.restartInterval c)) := by
  obtain ⟨post, hpost⟩ := hfile
  refine dataBlock_at t cfg hck hc (dataBytes cfg csL) (dataBytes cfg rest ++ post) c ?_ hsz
  rw [hpost, dataBytes_append, dataBytes_cons]
  simp only [List.append_assoc]

def resultOf : Option KV → Result KV
  | some kv => .ok kv
  | none => .notFound

/-- what `find` computes once the index seek has landed on the chunk suffix `csR` -/
def findTail (cmp : Bytes → Bytes → Ordering) (key : Bytes) : List (List KV) → Result KV
  | [] => .notFound
  | c :: rest =>
    match c.find? (fun e => cmp e.1 key != .lt) with
    | some kv => .ok kv
    | none =>
      match rest with
      | [] => .notFound
      | c2 :: _ => resultOf c2.head?

theorem ixE_append (cfg : TableCfg) (a b : List (List KV)) (tl : List KV) : ∀ off,
    ixE cfg off (a ++ b) tl = ixE cfg off a (b.flatten ++ tl) ++ ixE cfg (off + (dataBytes cfg a).length) b tl := by
  induction a with
  | nil => intro off; simp [ixE, dataBytes]
  | cons c rest ih =>
    intro off
    simp only [List.cons_append, ixE, ih, List.flatten_append, List.append_assoc, dataBytes_cons, List.length_append,
      Nat.add_assoc]

theorem dataBytes_le_file (cfg : TableCfg) (cs : List (List KV)) (fb : Option Bytes) :
    (dataBytes cfg cs).length ≤ (tableFile cfg cs fb).length := by
  obtain ⟨post, hpost⟩ := tableFile_data_prefix cfg cs fb
  rw [hpost]; simp only [List.nil_append, List.length_append]; omega

theorem find_core (cfg : TableCfg) (hc : LawfulCmp cfg.cmp) (hck : Cksum32 cfg.cksum) (cs : List (List KV))
    (t : TableR) (hcmp : t.cmp = cfg.cmp) (hcks : t.cksum = cfg.cksum)
    (hfile : ∃ post, t.file = dataBytes cfg cs ++ post)
    (hidx : t.index = layoutR (enc 1 (ixE cfg 0 cs [])) (restartsOf 1 (ixE cfg 0 cs [])))
    (hfsz : t.file.length < 2 ^ 32) (hixl : (ixB cfg cs).length < 2 ^ 32)
    (hixs : StrictSorted cfg.cmp (ixE cfg 0 cs []))
    (hcs : ∀ c ∈ cs, StrictSorted cfg.cmp c ∧ SmallKV c) (key : Bytes) :
    ∃ csL csR, cs = csL ++ csR ∧
      (∀ e ∈ ixE cfg 0 csL (csR.flatten ++ []), (cfg.cmp e.1 key == .lt) = true) ∧
      (∀ e, (ixE cfg (0 + (dataBytes cfg csL).length) csR []).head? = some e → (cfg.cmp e.1 key == .lt) = false) ∧
      t.find key false = findTail cfg.cmp key csR := by
  obtain ⟨csL, csR, hsplit, hall, hdw, hhd⟩ := ixE_split cfg (fun e => cfg.cmp e.1 key == .lt) [] cs 0
  refine ⟨csL, csR, hsplit, hall, hhd, ?_⟩
  have hsix := smallKV_ix' cfg cs hixl
  have hseek := seekCursor_build hc 1 (ixE cfg 0 cs []) hsix hixs hixl key
  have hdl : (dataBytes cfg cs).length ≤ t.file.length := by
    obtain ⟨post, hpost⟩ := hfile
    rw [hpost]; simp only [List.length_append]; omega
  unfold TableR.find
  rw [hidx, hcmp, hseek, hdw]
  cases csR with
  | nil => simp [ixE, cursorAt, findTail]
  | cons c rest =>
    have hcm : c ∈ cs := by rw [hsplit]; simp
    have hbl : (dataBytes cfg csL).length + (blockBytes cfg c).length ≤ (dataBytes cfg cs).length := by
      rw [hsplit, dataBytes_append, dataBytes_cons]; simp only [List.length_append]; omega
    have hbb : (blockBytes cfg c).length = (Block.build cfg.restartInterval c).length + 5 := by
      simp [blockBytes, withTrailer_length]
    simp only [ixE, cursorAt, Nat.zero_add]
    rw [BH.decode_encode' _ (by simp only; omega) (by simp only; omega)]
    simp only [Bool.false_eq_true, ↓reduceIte]
    rw [dataBlock_chunk t cfg hck hcks csL c rest (by rw [← hsplit]; exact hfile) hfsz]
    simp only
    have hbsz : (Block.build cfg.restartInterval c).length < 2 ^ 32 := by omega
    rw [seekCursor_build hc cfg.restartInterval c (hcs c hcm).2 (hcs c hcm).1 hbsz key]
    have hfind : c.find? (fun e => cfg.cmp e.1 key != .lt) =
        (c.dropWhile fun e => cfg.cmp e.1 key == .lt).head? := by
      rw [head?_dropWhile_eq_find?]; rfl
    simp only [findTail, hfind]
    cases hdc : c.dropWhile (fun e => cfg.cmp e.1 key == .lt) with
    | cons kv _ => obtain ⟨k, v⟩ := kv; simp [cursorAt]
    | nil =>
      simp only [cursorAt, List.head?_nil]
      cases rest with
      | nil => simp [ixE, encFrom, Block.step]
      | cons c2 rest2 =>
        have hc2m : c2 ∈ cs := by rw [hsplit]; simp
        have hbl2 : (dataBytes cfg csL).length + (blockBytes cfg c).length + (blockBytes cfg c2).length
            ≤ (dataBytes cfg cs).length := by
          rw [hsplit, dataBytes_append, dataBytes_cons, dataBytes_cons]; simp only [List.length_append]; omega
        have hbb2 : (blockBytes cfg c2).length = (Block.build cfg.restartInterval c2).length + 5 := by
          simp [blockBytes, withTrailer_length]
        have hem : (ixKey cfg (lastKeyD [] c2) (firstKeyD (rest2.flatten ++ [])),
            BH.encode ⟨(dataBytes cfg csL).length + (blockBytes cfg c).length,
              (Block.build cfg.restartInterval c2).length⟩) ∈ ixE cfg 0 cs [] := by
          rw [hsplit, ixE_append]
          apply List.mem_append_right
          simp only [ixE, Nat.zero_add]
          exact List.mem_cons_of_mem _ (List.mem_cons_self ..)
        have hsm := hsix _ hem
        simp only [ixE]
        rw [step_encFrom 1 _ _ _ _ _ _ _ hsm.1 hsm.2 (fun _ => rfl)]
        simp only
        rw [BH.decode_encode' _ (by simp only; omega) (by simp only; omega)]
        simp only
        have hd2 := dataBlock_chunk t cfg hck hcks (csL ++ [c]) c2 rest2
          (by obtain ⟨post, hpost⟩ := hfile; exact ⟨post, by rw [hpost, hsplit]; simp⟩) hfsz
        rw [dataBytes_append, List.length_append] at hd2
        have : dataBytes cfg [c] = blockBytes cfg c := by simp [dataBytes]
        rw [this] at hd2
        rw [hd2]
        simp only [layoutR]
        cases c2 with
        | nil => simp [enc, encFrom, Block.step, resultOf]
        | cons kv t2 =>
          obtain ⟨k, v⟩ := kv
          have hs2 := (hcs _ hc2m).2 (k, v) (List.mem_cons_self ..)
          simp only [enc]
          rw [step_encFrom cfg.restartInterval 0 [] [] k v t2 _ hs2.1 hs2.2 (by simp)]
          simp [resultOf]

theorem find?_none_of_all_lt {cmp : Bytes → Bytes → Ordering} (key : Bytes) (l : List KV)
    (h : ∀ kv ∈ l, cmp kv.1 key = .lt) : l.find? (fun e => cmp e.1 key != .lt) = none := by
  rw [List.find?_eq_none]
  intro kv hm
  simp [h kv hm]

/-- the result of `find` after the index seek agrees with the first pair not below the target -/
theorem findTail_spec {cfg : TableCfg} (hc : LawfulCmp cfg.cmp) (hsep : SepOK cfg) (hsucc : SuccOK cfg)
    (key : Bytes) (csL csR : List (List KV)) (hok : ChunksOK cfg (csL ++ csR) [])
    (hall : ∀ e ∈ ixE cfg 0 csL (csR.flatten ++ []), (cfg.cmp e.1 key == .lt) = true)
    (hhd : ∀ e, (ixE cfg (0 + (dataBytes cfg csL).length) csR []).head? = some e → (cfg.cmp e.1 key == .lt) = false) :
    findTail cfg.cmp key csR = resultOf ((csL ++ csR).flatten.find? fun e => cfg.cmp e.1 key != .lt) := by
  have hbelow := below_of_ix_below hc hsep hsucc key (csR.flatten ++ []) csL 0 hok.left
    (fun e he => by simpa using hall e he)
  rw [List.flatten_append, List.find?_append, find?_none_of_all_lt key _ hbelow, Option.none_or]
  have hokR := hok.right
  cases csR with
  | nil => rfl
  | cons c rest =>
    simp only [findTail, List.flatten_cons, List.find?_append]
    cases hfc : c.find? (fun e => cfg.cmp e.1 key != .lt) with
    | some kv => rfl
    | none =>
      simp only [Option.none_or]
      cases rest with
      | nil => rfl
      | cons c2 rest2 =>
        have hne2 : c2 ≠ [] := hokR.ne c2 (by simp)
        cases c2 with
        | nil => exact absurd rfl hne2
        | cons kv t2 =>
          have h1 := (hokR.head hc hsep hsucc).2 kv (by simp)
          have h2 := hhd _ (by simp only [ixE, List.head?_cons]; rfl)
          have hp : (cfg.cmp kv.1 key != .lt) = true := by
            cases hk : cfg.cmp kv.1 key with
            | lt =>
              have h3 := hc.trans _ _ _ h1 hk
              rw [h3] at h2
              exact absurd h2 (by decide)
            | eq => rfl
            | gt => rfl
          simp [resultOf, hp]

theorem sorted_chunk {cmp : Bytes → Bytes → Ordering} (cs : List (List KV)) (hs : StrictSorted cmp cs.flatten)
    (c : List KV) (hm : c ∈ cs) : StrictSorted cmp c := by
  obtain ⟨A, B, rfl⟩ := List.append_of_mem hm
  simp only [List.flatten_append, List.flatten_cons] at hs
  exact (List.pairwise_append.mp (List.pairwise_append.mp hs).2.1).1

theorem small_chunk (cs : List (List KV)) (hs : SmallKV cs.flatten) (c : List KV) (hm : c ∈ cs) : SmallKV c :=
  fun kv hkv => hs kv (List.mem_flatten.mpr ⟨c, hm, hkv⟩)

/-- C13(d) for any reader over the data blocks and the index block of a written table -/
theorem find_reader (cfg : TableCfg) (hc : LawfulCmp cfg.cmp) (hsep : SepOK cfg) (hsucc : SuccOK cfg)
    (hck : Cksum32 cfg.cksum) (cs : List (List KV)) (t : TableR) (hcmp : t.cmp = cfg.cmp) (hcks : t.cksum = cfg.cksum)
    (hfile : ∃ post, t.file = dataBytes cfg cs ++ post)
    (hidx : t.index = layoutR (enc 1 (ixE cfg 0 cs [])) (restartsOf 1 (ixE cfg 0 cs [])))
    (hfsz : t.file.length < 2 ^ 32) (hixl : (ixB cfg cs).length < 2 ^ 32)
    (hshape : cs = [[]] ∨ ChunksOK cfg cs []) (hsm : SmallKV cs.flatten) (key : Bytes) :
    t.find key false = resultOf (cs.flatten.find? fun e => cfg.cmp e.1 key != .lt) := by
  rcases hshape with rfl | hok
  · obtain ⟨csL, csR, hsplit, _, _, hfind⟩ := find_core cfg hc hck [[]] t hcmp hcks hfile hidx hfsz hixl
      (by simp [ixE, StrictSorted]) (by intro c hm; simp at hm; subst hm; exact ⟨List.Pairwise.nil, by intro kv h; simp at h⟩) key
    rw [hfind]
    have : csR = [] ∨ csR = [[]] := by
      cases csL with
      | nil => right; simpa using hsplit.symm
      | cons a l =>
        left
        have := congrArg List.length hsplit
        simp at this
        cases csR with
        | nil => rfl
        | cons x y => simp at this
    rcases this with rfl | rfl
    · rfl
    · rfl
  · obtain ⟨csL, csR, hsplit, hall, hhd, hfind⟩ := find_core cfg hc hck cs t hcmp hcks hfile hidx hfsz hixl
      (ixE_sorted hc hsep hsucc [] cs 0 hok)
      (fun c hm => ⟨sorted_chunk cs (by simpa using hok.sorted) c hm, small_chunk cs hsm c hm⟩) key
    rw [hfind, hsplit]
    exact findTail_spec hc hsep hsucc key csL csR (hsplit ▸ hok) hall hhd

/-- the hypotheses of the reader-level lemmas, for the reader of the written file -/
theorem written_file_facts (cfg : TableCfg) (cs : List (List KV)) (fb : Option Bytes) (t : TableR)
    (hfile : t.file = tableFile cfg cs fb) (hsz : (tableFile cfg cs fb).length < 2 ^ 32) :
    (∃ post, t.file = dataBytes cfg cs ++ post) ∧ t.file.length < 2 ^ 32 ∧ (ixB cfg cs).length < 2 ^ 32 := by
  obtain ⟨post, hpost⟩ := tableFile_data_prefix cfg cs fb
  exact ⟨⟨post, by rw [hfile, hpost]; rfl⟩, by rw [hfile]; exact hsz, (sizes_of cfg cs fb hsz).iLen⟩

/-- C13(d) on the shape level -/
theorem find_written (cfg : TableCfg) (hc : LawfulCmp cfg.cmp) (hsep : SepOK cfg) (hsucc : SuccOK cfg)
    (hck : Cksum32 cfg.cksum) (cs : List (List KV)) (fb : Option Bytes)
    (hfb : fb.isSome = cfg.filter.isSome) (hsz : (tableFile cfg cs fb).length < 2 ^ 32)
    (hname : ∀ pol, cfg.filter = some pol → (filterMetaKey pol).length < 2 ^ 64) (v : Bool)
    (hshape : cs = [[]] ∨ ChunksOK cfg cs []) (hsm : SmallKV cs.flatten) (key : Bytes) :
    ∃ t, Table.open cfg v (tableFile cfg cs fb) = some t ∧ t.cmp = cfg.cmp ∧
      t.find key false = resultOf (cs.flatten.find? fun e => cfg.cmp e.1 key != .lt) := by
  obtain ⟨t, ho, hcmp, hcks, _, hfile, hidx, _, _⟩ := open_shape cfg hck cs fb hfb hsz hname v
  obtain ⟨hpost, hfsz, hixl⟩ := written_file_facts cfg cs fb t hfile hsz
  exact ⟨t, ho, hcmp, find_reader cfg hc hsep hsucc hck cs t hcmp hcks hpost hidx hfsz hixl hshape hsm key⟩

theorem ixE_takeWhile_length (cfg : TableCfg) (p : KV → Bool) (tl : List KV) : ∀ (cs : List (List KV)) (off : Nat),
    ∃ n, n ≤ cs.length ∧ ((ixE cfg off cs tl).takeWhile p).length = n ∧
      (ixE cfg off cs tl).dropWhile p = ixE cfg (off + (dataBytes cfg (cs.take n)).length) (cs.drop n) tl := by
  intro cs
  induction cs with
  | nil => intro off; exact ⟨0, by simp, by simp [ixE], by simp [ixE]⟩
  | cons c rest ih =>
    intro off
    cases hp : p (ixKey cfg (lastKeyD [] c) (firstKeyD (rest.flatten ++ tl)),
        BH.encode ⟨off, (Block.build cfg.restartInterval c).length⟩) with
    | true =>
      obtain ⟨n, hn, htw, hdw⟩ := ih (off + (blockBytes cfg c).length)
      refine ⟨n + 1, by simp; omega, by simp [ixE, hp, htw], ?_⟩
      simp only [ixE, List.dropWhile_cons, hp, if_true, hdw, List.take_succ_cons, List.drop_succ_cons, dataBytes_cons,
        List.length_append, Nat.add_assoc]
    | false =>
      exact ⟨0, by simp, by simp [ixE, hp], by simp [ixE, hp, dataBytes]⟩

theorem dataBytes_take_mono (cfg : TableCfg) : ∀ (cs : List (List KV)) (n m : Nat), n ≤ m →
    (dataBytes cfg (cs.take n)).length ≤ (dataBytes cfg (cs.take m)).length := by
  intro cs
  induction cs with
  | nil => intro n m _; simp
  | cons c rest ih =>
    intro n m h
    cases n with
    | zero => simp [dataBytes]
    | succ n =>
      cases m with
      | zero => omega
      | succ m =>
        have := ih n m (by omega)
        simp only [List.take_succ_cons, dataBytes_cons, List.length_append]
        omega

theorem takeWhile_length_mono {α : Type} (p q : α → Bool) (hpq : ∀ x, p x = true → q x = true) :
    ∀ l : List α, (l.takeWhile p).length ≤ (l.takeWhile q).length := by
  intro l
  induction l with
  | nil => simp
  | cons a t ih =>
    cases hp : p a with
    | true => simp [hp, hpq a hp]; exact ih
    | false => simp [hp]

/-- the block offset `OffsetOf` reports: the start of the first chunk whose index key is not below the key
(the end of the data blocks when there is none) -/
def offsetSpec (cfg : TableCfg) (cs : List (List KV)) (key : Bytes) : Nat :=
  (dataBytes cfg (cs.take ((ixE cfg 0 cs []).takeWhile fun e => cfg.cmp e.1 key == .lt).length)).length

theorem offsetOf_core (cfg : TableCfg) (hc : LawfulCmp cfg.cmp) (cs : List (List KV))
    (fb : Option Bytes) (t : TableR) (hcmp : t.cmp = cfg.cmp)
    (hidx : t.index = layoutR (enc 1 (ixE cfg 0 cs [])) (restartsOf 1 (ixE cfg 0 cs [])))
    (hde : t.dataEnd = (dataBytes cfg cs).length)
    (hsz : (tableFile cfg cs fb).length < 2 ^ 32)
    (hixs : StrictSorted cfg.cmp (ixE cfg 0 cs [])) (key : Bytes) :
    t.offsetOf key = .ok (offsetSpec cfg cs key) := by
  obtain ⟨n, hn, htw, hdw⟩ := ixE_takeWhile_length cfg (fun e => cfg.cmp e.1 key == .lt) [] cs 0
  have S := sizes_of cfg cs fb hsz
  have hsix := smallKV_ix cfg cs fb hsz
  have hseek := seekCursor_build hc 1 (ixE cfg 0 cs []) hsix hixs S.iLen key
  have hdl := dataBytes_le_file cfg cs fb
  unfold TableR.offsetOf offsetSpec
  rw [hidx, hcmp, hseek, hdw, htw]
  cases hdr : cs.drop n with
  | nil =>
    have : cs.take n = cs := by
      have := List.take_append_drop n cs
      rw [hdr, List.append_nil] at this; exact this
    simp [ixE, cursorAt, hde, this]
  | cons c rest =>
    have hle : (dataBytes cfg (cs.take n)).length ≤ (dataBytes cfg cs).length := by
      have := dataBytes_take_mono cfg cs n cs.length hn
      simpa using this
    simp only [ixE, cursorAt, Nat.zero_add]
    have hbl : (Block.build cfg.restartInterval c).length ≤ (dataBytes cfg cs).length := by
      have h1 := List.take_append_drop n cs
      rw [hdr] at h1
      rw [← h1, dataBytes_append, dataBytes_cons]
      simp only [List.length_append, blockBytes, withTrailer_length]; omega
    rw [BH.decode_encode' _ (by simp only; omega) (by simp only; omega)]

/-- C13(e) on the shape level: the reported offset never decreases as the key grows -/
theorem offsetSpec_mono {cfg : TableCfg} (hc : LawfulCmp cfg.cmp) (cs : List (List KV)) (k1 k2 : Bytes)
    (hle : cfg.cmp k1 k2 ≠ .gt) : offsetSpec cfg cs k1 ≤ offsetSpec cfg cs k2 := by
  unfold offsetSpec
  apply dataBytes_take_mono
  apply takeWhile_length_mono
  intro e he
  have h1 : cfg.cmp e.1 k1 = .lt := by
    cases h : cfg.cmp e.1 k1 <;> simp [h] at he ⊢
  simp [hc.lt_of_lt_of_le h1 hle]

theorem name_small (cfg : TableCfg) (cs : List (List KV)) (fb : Option Bytes)
    (hfb : fb.isSome = cfg.filter.isSome) (hsz : (tableFile cfg cs fb).length < 2 ^ 32) :
    ∀ pol, cfg.filter = some pol → (filterMetaKey pol).length < 2 ^ 64 := by
  intro pol hf
  obtain ⟨b, rfl⟩ : ∃ b, fb = some b := by
    cases fb with
    | none => simp [hf] at hfb
    | some b => exact ⟨b, rfl⟩
  have S := sizes_of cfg cs (some b) hsz
  have h1 : (metaB cfg cs (some b)).length < 2 ^ 32 := S.mLen
  have h2 := build_length cfg.restartInterval (metaKVs cfg (dataBytes cfg cs).length (some b))
  simp only [metaB] at h1
  simp only [metaKVs, hf, enc, encFrom, nSharedAt, Nat.zero_mod, if_true, List.append_nil] at h2
  have := encEntry_length_ge (filterMetaKey pol) (BH.encode ⟨(dataBytes cfg cs).length, b.length⟩)
  simp only [metaKVs, hf] at h1
  omega

end GoLevel.C13
