import GoLevel.Proofs.CRCTable
/-! CRC32C: changing one byte of the input changes the checksum (and the masked checksum). -/
namespace GoLevel.CRC

theorem hi_inj {i j : Nat} (hi' : i < 256) (hj : j < 256) (h : hi i = hi j) : i = j := by
  have hn := hiTab_nodup
  have hl : hiTab.length = 256 := by simp [hiTab]
  have h1 : hiTab[i]? = some (hi i) := by simp [hiTab, hi']
  have h2 : hiTab[j]? = some (hi j) := by simp [hiTab, hj]
  exact (List.getElem?_inj (by omega) hn).mp (by rw [h1, h2, h])

theorem tab_hi_inj {x y : UInt8} (h : (tab x >>> 24).toUInt8 = (tab y >>> 24).toUInt8) : x = y := by
  rw [tab_eq, tab_eq] at h
  exact UInt8.toNat_inj.mp (hi_inj (UInt8.toNat_lt x) (UInt8.toNat_lt y) h)

theorem tab_inj {x y : UInt8} (h : tab x = tab y) : x = y := tab_hi_inj (by rw [h])

/-- `step s ·` is injective -/
theorem step_inj_byte {s : UInt32} {b b' : UInt8} (h : step s b = step s b') : b = b' := by
  unfold step at h
  have h1 : tab (s.toUInt8 ^^^ b) = tab (s.toUInt8 ^^^ b') := (UInt32.xor_left_inj _).mp h
  exact (UInt8.xor_right_inj _).mp (tab_inj h1)

/-- the top byte of `t ^^^ (s >>> 8)` is the top byte of `t` -/
theorem hi_xor_shift (t s : UInt32) : ((t ^^^ (s >>> 8)) >>> 24).toUInt8 = (t >>> 24).toUInt8 := by
  apply UInt8.toNat_inj.mp
  have hs : s.toNat < 2 ^ 32 := UInt32.toNat_lt s
  simp only [UInt32.toNat_toUInt8, UInt32.toNat_shiftRight, UInt32.toNat_xor, Nat.shiftRight_xor_distrib]
  have : s.toNat >>> 8 >>> 24 = 0 := by
    rw [← Nat.shiftRight_add, Nat.shiftRight_eq_div_pow]
    exact Nat.div_eq_of_lt hs
  simp [this]

/-- `step · b` is injective -/
theorem step_inj_state {s s' : UInt32} {b : UInt8} (h : step s b = step s' b) : s = s' := by
  unfold step at h
  have h1 := congrArg (fun v : UInt32 => (v >>> 24).toUInt8) h
  simp only [hi_xor_shift] at h1
  have hx := tab_hi_inj h1
  rw [hx] at h
  have h2 : s >>> 8 = s' >>> 8 := (UInt32.xor_right_inj _).mp h
  have h3 : s.toUInt8 = s'.toUInt8 := (UInt8.xor_left_inj _).mp hx
  apply UInt32.toNat_inj.mp
  have a := congrArg UInt32.toNat h2
  have b := congrArg UInt8.toNat h3
  simp only [UInt32.toNat_shiftRight, UInt32.toNat_toUInt8, Nat.shiftRight_eq_div_pow] at a b
  have e1 := Nat.div_add_mod s.toNat 256
  have e2 := Nat.div_add_mod s'.toNat 256
  simp at a b
  omega

theorem update_inj_state {s s' : UInt32} {bs : Bytes} (h : update s bs = update s' bs) : s = s' := by
  induction bs generalizing s s' with
  | nil => exact h
  | cons b bs ih => exact step_inj_state (ih (by simpa [update] using h))

theorem update_append (s : UInt32) (a b : Bytes) : update s (a ++ b) = update (update s a) b := by
  simp [update]

/-- **Single-position damage.**  Two inputs that differ in exactly one byte have different CRC32C. -/
theorem crc32c_single_byte (a c : Bytes) (x y : UInt8) (h : x ≠ y) :
    crc32c (a ++ x :: c) ≠ crc32c (a ++ y :: c) := by
  intro e
  unfold crc32c at e
  have e1 := (UInt32.xor_left_inj _).mp e
  rw [update_append, update_append] at e1
  have e2 : step (update 0xFFFFFFFF a) x = step (update 0xFFFFFFFF a) y := update_inj_state (bs := c) e1
  exact h (step_inj_byte e2)

/-- the rotation in `util.CRC.Value` is a bijection -/
theorem rot_inj {c c' : UInt32} (h : (c >>> 15) ||| (c <<< 17) = (c' >>> 15) ||| (c' <<< 17)) : c = c' := by
  have key : ∀ c : UInt32, (((c >>> 15) ||| (c <<< 17)) <<< 15) ||| (((c >>> 15) ||| (c <<< 17)) >>> 17) = c := by
    intro c
    apply UInt32.eq_of_toBitVec_eq
    simp only [UInt32.toBitVec_or, UInt32.toBitVec_shiftLeft, UInt32.toBitVec_shiftRight]
    ext i hi
    simp
    have h3 : c.toBitVec.getLsbD (15 + (17 + i)) = false := by apply BitVec.getLsbD_of_ge; omega
    by_cases h : i < 15
    · have h1 : 17 + i < 32 := by omega
      have h2 : ¬ (17 + i < 17) := by omega
      simp [h, h1, h2, h3, BitVec.getLsbD_eq_getElem hi]
    · have h1 : ¬ (17 + i < 32) := by omega
      have h2 : i - 15 < 17 := by omega
      have h4 : 15 + (i - 15) = i := by omega
      simp [h, h1, h2, h3, h4, BitVec.getLsbD_eq_getElem hi]
  rw [← key c, ← key c', h]

theorem crcMask_inj {c c' : UInt32} (h : Gen.crcMask c = Gen.crcMask c') : c = c' := by
  unfold Gen.crcMask at h
  exact rot_inj ((UInt32.add_left_inj _).mp h)

theorem crcValue_single_byte (a c : Bytes) (x y : UInt8) (h : x ≠ y) :
    crcValue (a ++ x :: c) ≠ crcValue (a ++ y :: c) :=
  fun e => crc32c_single_byte a c x y h (crcMask_inj e)

end GoLevel.CRC
