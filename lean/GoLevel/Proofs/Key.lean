import GoLevel.Model.Key
import GoLevel.Proofs.Bytes
/-!
# Lemmas about `GoLevel/Model/Key.lean`

* side conditions on the generated constants (`decide`d, never inlined),
* `encode` / `parseIKey` / `icmpBytes` round trips,
* `icmp c` is a strict total order for every `LawfulUCmp c`,
* the probe `probe k s` and `seekGE`,
* the bytewise comparer satisfies the contract,
* routing through a table index (`tableFind`, mirrors `table.Reader.find`).
Core Lean only.
-/
namespace GoLevel

/-! ## side conditions on the generated constants -/

theorem keyMaxSeq_bound : Gen.keyMaxSeq * 256 + 255 < 2 ^ 64 := by decide
theorem keyTypeVal_lt : Gen.keyTypeVal < 256 := by decide
theorem keyTypeSeek_lt : Gen.keyTypeSeek < 256 := by decide
theorem keyTypeVal_le_seek : Gen.keyTypeVal ≤ Gen.keyTypeSeek := by decide
theorem keyTypeDel_le_val : Gen.keyTypeDel ≤ Gen.keyTypeVal := by decide
theorem keyMaxNum_eq : Gen.keyMaxNum = Gen.keyMaxSeq * 256 + Gen.keyTypeSeek := by decide
theorem keyMaxNum_lt : Gen.keyMaxNum < 2 ^ 64 := by decide

/-- the model's `seq * 256 + kt` is the Go expression `(seq << 8) | kt` printed by the extractor -/
theorem packNum_eq (seq kt : Nat) (h : kt < 256) : Gen.packNum seq kt = seq * 256 + kt := by
  have := Nat.shiftLeft_add_eq_or_of_lt (i := 8) (b := kt) (by simpa using h) seq
  rw [Gen.packNum, ← this, Nat.shiftLeft_eq]

/-! ## packing -/

@[simp] theorem mkIKey_ukey (u : Bytes) (seq kt : Nat) : (mkIKey u seq kt).ukey = u := rfl
@[simp] theorem mkIKey_num (u : Bytes) (seq kt : Nat) : (mkIKey u seq kt).num = seq * 256 + kt := rfl

theorem mkIKey_seq (u : Bytes) (seq kt : Nat) (h : kt < 256) : (mkIKey u seq kt).seq = seq := by
  simp only [IKey.seq, mkIKey_num]; omega

theorem mkIKey_kind (u : Bytes) (seq kt : Nat) (h : kt < 256) : (mkIKey u seq kt).kind = kt := by
  simp only [IKey.kind, mkIKey_num]; omega

theorem IKey.num_eq (k : IKey) : k.num = k.seq * 256 + k.kind := by
  simp only [IKey.seq, IKey.kind]; omega

theorem mkIKey_seq_kind (k : IKey) : mkIKey k.ukey k.seq k.kind = k := by
  cases k; simp only [mkIKey, IKey.seq, IKey.kind, IKey.mk.injEq, true_and]; omega

/-- everything `makeInternalKey` can produce without panicking is at most `keyMaxNum` -/
theorem mkIKey_num_le (u : Bytes) (seq kt : Nat) (hs : seq ≤ Gen.keyMaxSeq) (hk : kt ≤ Gen.keyTypeVal) :
    (mkIKey u seq kt).num ≤ Gen.keyMaxNum := by
  have := keyTypeVal_le_seek
  simp only [mkIKey_num, keyMaxNum_eq]; omega

theorem mkIKey_num_lt (u : Bytes) (seq kt : Nat) (hs : seq ≤ Gen.keyMaxSeq) (hk : kt ≤ Gen.keyTypeVal) :
    (mkIKey u seq kt).num < 2 ^ 64 :=
  Nat.lt_of_le_of_lt (mkIKey_num_le u seq kt hs hk) keyMaxNum_lt

theorem num_le_of_valid (k : IKey) (hs : k.seq ≤ Gen.keyMaxSeq) (hk : k.kind ≤ Gen.keyTypeVal) :
    k.num ≤ Gen.keyMaxNum := by
  have := mkIKey_num_le k.ukey k.seq k.kind hs hk
  rwa [mkIKey_seq_kind] at this

/-! ## encoding -/

@[simp] theorem IKey.encode_length (k : IKey) : k.encode.length = k.ukey.length + 8 := by
  simp [IKey.encode]

@[simp] theorem IKey.encode_take (k : IKey) : k.encode.take (k.encode.length - 8) = k.ukey := by
  simp [IKey.encode]

@[simp] theorem IKey.encode_drop (k : IKey) : k.encode.drop (k.encode.length - 8) = le64 k.num := by
  simp [IKey.encode]

theorem parseIKey_encode (k : IKey) (hn : k.num < 2 ^ 64) (hk : k.kind ≤ Gen.keyTypeVal) :
    parseIKey k.encode = some k := by
  have h8 : ¬ k.encode.length < 8 := by simp
  have hr : rd64 (le64 k.num) = k.num := rd64_le64 _ hn
  have hk' : ¬ k.num % 256 > Gen.keyTypeVal := by simpa [IKey.kind] using hk
  simp only [parseIKey, h8, if_false, IKey.encode_drop, hr, hk', IKey.encode_take]

/-- `parseInternalKey` only accepts byte strings that are encodings: it is injective on its domain -/
theorem encode_of_parseIKey (bs : Bytes) (k : IKey) (h : parseIKey bs = some k) :
    k.encode = bs ∧ k.num < 2 ^ 64 ∧ k.kind ≤ Gen.keyTypeVal := by
  simp only [parseIKey] at h
  split at h
  · exact absurd h (by simp)
  · rename_i h8
    split at h
    · exact absurd h (by simp)
    · rename_i hk
      have hk := Option.some.inj h
      subst hk
      have hlen : (bs.drop (bs.length - 8)).length = 8 := by simp; omega
      refine ⟨?_, rd64_lt _, by simpa [IKey.kind] using hk⟩
      simp only [IKey.encode, rd64, le64]
      have : (bs.drop (bs.length - 8)).take 8 = bs.drop (bs.length - 8) := by
        rw [List.take_of_length_le (by omega)]
      rw [this]
      have := leN_rdLE (bs.drop (bs.length - 8))
      rw [hlen] at this
      rw [this, List.take_append_drop]

theorem icmpBytes_encode (c : UCmp) (a b : IKey) (ha : a.num < 2 ^ 64) (hb : b.num < 2 ^ 64) :
    icmpBytes c a.encode b.encode = icmp c a b := by
  simp only [icmpBytes, IKey.encode_take, IKey.encode_drop, rd64_le64 _ ha, rd64_le64 _ hb]

/-! ## `icmp c` is a strict total order -/

section order
variable {c : UCmp} (hl : LawfulUCmp c)
include hl

theorem icmp_order (a b : IKey) :
    icmp c a b = .lt ↔ (c.cmp a.ukey b.ukey = .lt ∨ (a.ukey = b.ukey ∧ b.num < a.num)) := by
  cases h : c.cmp a.ukey b.ukey with
  | lt => simp [icmp, h]
  | eq =>
    have := hl.eq_of _ _ h
    simp only [icmp, h, Nat.compare_eq_lt]
    simp [this]
  | gt =>
    have : a.ukey ≠ b.ukey := fun e => by rw [e, hl.refl] at h; exact Ordering.noConfusion h
    simp [icmp, h, this]

theorem icmp_eq_iff (a b : IKey) : icmp c a b = .eq ↔ a = b := by
  constructor
  · intro h
    cases hc : c.cmp a.ukey b.ukey with
    | lt => simp [icmp, hc] at h
    | gt => simp [icmp, hc] at h
    | eq =>
      have hu := hl.eq_of _ _ hc
      simp only [icmp, hc, Nat.compare_eq_eq] at h
      cases a; cases b; simp_all
  · rintro rfl
    simp [icmp, hl.refl]

theorem icmp_irrefl (a : IKey) : icmp c a a ≠ .lt := by
  rw [(icmp_eq_iff hl a a).2 rfl]; exact fun h => Ordering.noConfusion h

theorem icmp_gt_iff (a b : IKey) : icmp c a b = .gt ↔ icmp c b a = .lt := by
  cases h : c.cmp a.ukey b.ukey with
  | lt =>
    have h' : c.cmp b.ukey a.ukey = .gt := (hl.gt_iff _ _).2 h
    simp [icmp, h, h']
  | eq =>
    have hu := hl.eq_of _ _ h
    have h' : c.cmp b.ukey a.ukey = .eq := by rw [hu]; exact hl.refl _
    simp [icmp, h, h', Nat.compare_eq_lt, Nat.compare_eq_gt]
  | gt =>
    have h' : c.cmp b.ukey a.ukey = .lt := (hl.gt_iff _ _).1 h
    simp [icmp, h, h']

theorem icmp_trans (a b d : IKey) (h1 : icmp c a b = .lt) (h2 : icmp c b d = .lt) :
    icmp c a d = .lt := by
  rw [icmp_order hl] at h1 h2 ⊢
  rcases h1 with h1 | ⟨e1, n1⟩ <;> rcases h2 with h2 | ⟨e2, n2⟩
  · exact .inl (hl.trans _ _ _ h1 h2)
  · exact .inl (by rw [← e2]; exact h1)
  · exact .inl (by rw [e1]; exact h2)
  · exact .inr ⟨e1.trans e2, by omega⟩

/-- trichotomy -/
theorem icmp_total (a b : IKey) : icmp c a b = .lt ∨ a = b ∨ icmp c b a = .lt := by
  cases h : icmp c a b with
  | lt => exact .inl rfl
  | eq => exact .inr (.inl ((icmp_eq_iff hl a b).1 h))
  | gt => exact .inr (.inr ((icmp_gt_iff hl a b).1 h))

theorem icmp_asymm (a b : IKey) (h : icmp c a b = .lt) : icmp c b a ≠ .lt := by
  intro h'
  exact icmp_irrefl hl a (icmp_trans hl a b a h h')

/-- `a ≤ b` is spelled `icmp c a b ≠ .gt` -/
theorem icmp_le_iff (a b : IKey) : icmp c a b ≠ .gt ↔ (icmp c a b = .lt ∨ a = b) := by
  rw [← icmp_eq_iff hl a b]
  cases icmp c a b <;> simp

/-- `¬ a < p` is `p ≤ a` -/
theorem icmp_not_lt_iff (a p : IKey) : icmp c a p ≠ .lt ↔ icmp c p a ≠ .gt := by
  rw [Ne, Ne, icmp_gt_iff hl p a]

theorem icmp_lt_of_le_of_lt (a b d : IKey) (h1 : icmp c a b ≠ .gt) (h2 : icmp c b d = .lt) :
    icmp c a d = .lt := by
  rcases (icmp_le_iff hl a b).1 h1 with h | rfl
  · exact icmp_trans hl a b d h h2
  · exact h2

theorem icmp_lt_of_lt_of_le (a b d : IKey) (h1 : icmp c a b = .lt) (h2 : icmp c b d ≠ .gt) :
    icmp c a d = .lt := by
  rcases (icmp_le_iff hl b d).1 h2 with h | rfl
  · exact icmp_trans hl a b d h1 h
  · exact h1

theorem icmp_le_trans (a b d : IKey) (h1 : icmp c a b ≠ .gt) (h2 : icmp c b d ≠ .gt) :
    icmp c a d ≠ .gt := by
  rcases (icmp_le_iff hl a b).1 h1 with h | rfl
  · have := icmp_lt_of_lt_of_le hl a b d h h2
    rw [this]; exact fun h => Ordering.noConfusion h
  · exact h2

theorem icmp_same_ukey (a b : IKey) (h : a.ukey = b.ukey) : icmp c a b = compare b.num a.num := by
  simp [icmp, h, hl.refl]

end order

/-! ## sorted lists, `seekGE` and the probe -/

/-- strictly ascending under `icmp c` (what a memdb, a block, a table, a sorted run is) -/
abbrev Sorted (c : UCmp) (es : List IKey) : Prop := es.Pairwise (fun a b => icmp c a b = .lt)

/-- position of a seek: the first entry that is not below `p` (`Seek` of every iterator) -/
def seekGE (c : UCmp) (es : List IKey) (p : IKey) : Option IKey :=
  es.find? (fun e => icmp c e p != .lt)

/-- `e` is the newest entry of user key `k` at or below sequence `s` -/
def IsNewest (es : List IKey) (k : Bytes) (s : Nat) (e : IKey) : Prop :=
  e ∈ es ∧ e.ukey = k ∧ e.seq ≤ s ∧ ∀ e' ∈ es, e'.ukey = k → e'.seq ≤ s → e'.seq ≤ e.seq

section probe
variable {c : UCmp} (hl : LawfulUCmp c)
include hl

/-- an entry of user key `k` is at or after the probe exactly when it is not newer than `s` -/
theorem ge_probe_same_key (e : IKey) (k : Bytes) (s : Nat) (hk : e.ukey = k)
    (hkind : e.kind ≤ Gen.keyTypeVal) :
    (icmp c e (probe k s) != .lt) = true ↔ e.seq ≤ s := by
  have hk' : e.ukey = (probe k s).ukey := by simp [probe, hk]
  rw [icmp_same_ukey hl e (probe k s) hk']
  have h1 := keyTypeVal_le_seek
  have h2 := keyTypeSeek_lt
  simp only [probe, mkIKey_num, bne_iff_ne, ne_eq, Nat.compare_eq_lt, IKey.seq, IKey.kind] at *
  omega

/-- an entry of another user key that is at or after the probe has a larger user key -/
theorem ge_probe_other_key (e : IKey) (k : Bytes) (s : Nat) (hk : e.ukey ≠ k)
    (h : (icmp c e (probe k s) != .lt) = true) : c.cmp e.ukey k = .gt := by
  cases hc : c.cmp e.ukey k with
  | lt => simp [icmp, probe, hc] at h
  | eq => exact absurd (hl.eq_of _ _ hc) hk
  | gt => rfl

theorem seekGE_newest (es : List IKey) (hs : Sorted c es) (hkind : ∀ e ∈ es, e.kind ≤ Gen.keyTypeVal)
    (k : Bytes) (s : Nat) (e : IKey) (hf : seekGE c es (probe k s) = some e) (hk : e.ukey = k) :
    IsNewest es k s e := by
  induction es with
  | nil => simp [seekGE] at hf
  | cons x xs ih =>
    have hsx : ∀ y ∈ xs, icmp c x y = .lt := (List.pairwise_cons.1 hs).1
    have hsxs : Sorted c xs := (List.pairwise_cons.1 hs).2
    have hkx : x.kind ≤ Gen.keyTypeVal := hkind x (by simp)
    have hkxs : ∀ e ∈ xs, e.kind ≤ Gen.keyTypeVal := fun e he => hkind e (List.mem_cons_of_mem _ he)
    simp only [seekGE, List.find?_cons] at hf
    by_cases hx : (icmp c x (probe k s) != .lt) = true
    · simp only [hx] at hf
      have hxe : x = e := Option.some.inj hf
      subst hxe
      have hle : x.seq ≤ s := (ge_probe_same_key hl x k s hk hkx).1 hx
      refine ⟨by simp, hk, hle, ?_⟩
      intro e' he' hk' _
      rcases List.mem_cons.1 he' with rfl | hmem
      · exact Nat.le_refl _
      · have hlt := hsx e' hmem
        rw [icmp_same_ukey hl x e' (by rw [hk, hk']), Nat.compare_eq_lt] at hlt
        simp only [IKey.seq]; omega
    · have hx' : (icmp c x (probe k s) != .lt) = false := by simpa using hx
      simp only [hx'] at hf
      obtain ⟨hm, hk2, hle, hall⟩ := ih hsxs hkxs (by simpa [seekGE] using hf)
      refine ⟨List.mem_cons_of_mem _ hm, hk2, hle, ?_⟩
      intro e' he' hk' hle'
      rcases List.mem_cons.1 he' with rfl | hmem
      · exfalso
        have := (ge_probe_same_key hl e' k s hk' hkx).2 hle'
        rw [this] at hx'; exact Bool.noConfusion hx'
      · exact hall e' hmem hk' hle'

/-- if the seek lands on another user key, or runs off the end, there is no visible entry of `k` -/
theorem seekGE_absent (es : List IKey) (hs : Sorted c es) (hkind : ∀ e ∈ es, e.kind ≤ Gen.keyTypeVal)
    (k : Bytes) (s : Nat)
    (hf : ∀ e, seekGE c es (probe k s) = some e → e.ukey ≠ k) :
    ∀ e' ∈ es, e'.ukey = k → ¬ e'.seq ≤ s := by
  intro e' he' hk' hle'
  have hge : (icmp c e' (probe k s) != .lt) = true :=
    (ge_probe_same_key hl e' k s hk' (hkind e' he')).2 hle'
  cases hfind : seekGE c es (probe k s) with
  | none =>
    simp only [seekGE, List.find?_eq_none] at hfind
    exact hfind e' he' hge
  | some e =>
    have hne := hf e hfind
    obtain ⟨hpe, as, bs, rfl, has⟩ := List.find?_eq_some_iff_append.1 hfind
    have hgt := ge_probe_other_key hl e k s hne hpe
    rcases List.mem_append.1 he' with hin | hin
    · have := has e' hin
      rw [hge] at this; exact Bool.noConfusion this
    · rcases List.mem_cons.1 hin with rfl | hin
      · exact hne hk'
      · have hlt : icmp c e e' = .lt :=
          (List.pairwise_cons.1 (List.pairwise_append.1 hs).2.1).1 e' hin
        rw [icmp_order hl] at hlt
        rcases hlt with h | ⟨h, _⟩
        · rw [hk', hgt] at h; exact Ordering.noConfusion h
        · exact hne (h.trans hk')

end probe

/-! ## shortened keys -/

section shorten
variable {c : UCmp} (hl : LawfulUCmp c)
include hl

/-- `Separator(u, u)` is nil: `sep_ok` read at `a = b` would ask for `u ≤ x < u` -/
theorem sep_self_of_lawful (u : Bytes) : c.sep u u = none := by
  cases h : c.sep u u with
  | none => rfl
  | some d =>
    have hs := hl.sep_ok u u d (by rw [hl.refl]; exact fun h => Ordering.noConfusion h) h
    exact absurd ((hl.gt_iff u d).2 hs.2) hs.1

/-- when `iSep` returns a key it is strictly between (for `a.ukey ≤ b.ukey`, the only calls the DB makes) -/
theorem iSep_some (a b x : IKey) (hle : c.cmp a.ukey b.ukey ≠ .gt) (h : iSep c a b = some x) :
    icmp c a x = .lt ∧ icmp c x b = .lt ∧ x.num = Gen.keyMaxNum ∧ x.ukey.length < a.ukey.length := by
  simp only [iSep] at h
  split at h
  · rename_i d hd
    split at h
    · rename_i hcond
      have := Option.some.inj h; subst this
      have hs := hl.sep_ok _ _ _ hle hd
      exact ⟨(icmp_order hl _ _).2 (.inl hcond.2), (icmp_order hl _ _).2 (.inl hs.2), rfl, hcond.1⟩
    · exact absurd h (by simp)
  · exact absurd h (by simp)

omit hl in
theorem iSep_none_of_sep_none (a b : IKey) (h : c.sep a.ukey b.ukey = none) : iSep c a b = none := by
  simp [iSep, h]

/-- `a ≤ indexSep a b < b`.  Consecutive entries of a table may share the user key; that case is covered
because `LawfulUCmp.sep_ok` is read for `a ≤ b` (see the remark on `sepOnEqCmp` below). -/
theorem indexSep_between (a b : IKey) (hab : icmp c a b = .lt) :
    icmp c a (indexSep c a b) ≠ .gt ∧ icmp c (indexSep c a b) b = .lt := by
  cases hs : iSep c a b with
  | none =>
    simp only [indexSep, hs, Option.getD_none]
    exact ⟨by rw [(icmp_eq_iff hl a a).2 rfl]; exact fun h => Ordering.noConfusion h, hab⟩
  | some x =>
    simp only [indexSep, hs, Option.getD_some]
    have hle : c.cmp a.ukey b.ukey ≠ .gt := by
      rcases (icmp_order hl a b).1 hab with h | ⟨h, _⟩
      · rw [h]; exact fun h => Ordering.noConfusion h
      · rw [h, hl.refl]; exact fun h => Ordering.noConfusion h
    obtain ⟨h1, h2, _⟩ := iSep_some hl a b x hle hs
    exact ⟨by rw [h1]; exact fun h => Ordering.noConfusion h, h2⟩

theorem indexSucc_ge (b : IKey) : icmp c b (indexSucc c b) ≠ .gt := by
  have hrefl : icmp c b b ≠ .gt := by
    rw [(icmp_eq_iff hl b b).2 rfl]; exact fun h => Ordering.noConfusion h
  simp only [indexSucc, iSucc]
  split
  · rename_i d hd
    split
    · rename_i hcond
      have : icmp c b ⟨d, Gen.keyMaxNum⟩ = .lt := (icmp_order hl _ _).2 (.inl hcond.2)
      simp only [Option.getD_some, this]; exact fun h => Ordering.noConfusion h
    · exact hrefl
  · exact hrefl

end shorten

/-! ## the bytewise comparer is lawful -/

theorem bytesCompare_cons (x y : UInt8) (xs ys : Bytes) :
    bytesCompare (x :: xs) (y :: ys)
      = if x.toNat < y.toNat then .lt else if y.toNat < x.toNat then .gt else bytesCompare xs ys := by
  simp only [bytesCompare, UInt8.lt_iff_toNat_lt]

theorem bytesCompare_refl (a : Bytes) : bytesCompare a a = .eq := by
  induction a with
  | nil => rfl
  | cons x xs ih => simp [bytesCompare_cons, ih]

theorem bytesCompare_eq (a b : Bytes) (h : bytesCompare a b = .eq) : a = b := by
  induction a generalizing b with
  | nil => cases b <;> simp_all [bytesCompare]
  | cons x xs ih =>
    cases b with
    | nil => simp [bytesCompare] at h
    | cons y ys =>
      rw [bytesCompare_cons] at h
      split at h
      · exact absurd h (by simp)
      · split at h
        · exact absurd h (by simp)
        · have : x = y := UInt8.toNat_inj.1 (by omega)
          rw [this, ih ys h]

theorem bytesCompare_gt_iff (a b : Bytes) : bytesCompare a b = .gt ↔ bytesCompare b a = .lt := by
  induction a generalizing b with
  | nil => cases b <;> simp [bytesCompare]
  | cons x xs ih =>
    cases b with
    | nil => simp [bytesCompare]
    | cons y ys =>
      rw [bytesCompare_cons, bytesCompare_cons]
      rcases Nat.lt_trichotomy x.toNat y.toNat with h | h | h
      · simp [h, Nat.lt_asymm h]
      · simp [h, ih]
      · simp [h, Nat.lt_asymm h]

theorem bytesCompare_trans (a b d : Bytes) (h1 : bytesCompare a b = .lt) (h2 : bytesCompare b d = .lt) :
    bytesCompare a d = .lt := by
  induction a generalizing b d with
  | nil =>
    cases d with
    | nil => cases b <;> simp [bytesCompare] at h1 h2
    | cons z zs => rfl
  | cons x xs ih =>
    cases b with
    | nil => simp [bytesCompare] at h1
    | cons y ys =>
      cases d with
      | nil => simp [bytesCompare] at h2
      | cons z zs =>
        rw [bytesCompare_cons] at h1 h2 ⊢
        split at h1
        · rename_i hxy
          split at h2
          · rename_i hyz; simp [Nat.lt_trans hxy hyz]
          · split at h2
            · exact absurd h2 (by simp)
            · have : x.toNat < z.toNat := by omega
              simp [this]
        · split at h1
          · exact absurd h1 (by simp)
          · split at h2
            · have : x.toNat < z.toNat := by omega
              simp [this]
            · split at h2
              · exact absurd h2 (by simp)
              · have e1 : ¬ x.toNat < z.toNat := by omega
                have e2 : ¬ z.toNat < x.toNat := by omega
                simp only [e1, e2, if_false]
                exact ih ys zs h1 h2

theorem toNat_succ_of_lt (x : UInt8) (h : x.toNat < 255) : (x + 1).toNat = x.toNat + 1 := by
  rw [UInt8.toNat_add, UInt8.toNat_one]; omega

/-- whatever `bytesSep` returns lies where it should — no premise on `a`, `b` at all: it returns nil
unless `a < b` at the first differing byte -/
theorem bytesSep_between (a b d : Bytes) (hs : bytesSep a b = some d) :
    bytesCompare a d ≠ .gt ∧ bytesCompare d b = .lt := by
  induction a generalizing b d with
  | nil => simp [bytesSep] at hs
  | cons x xs ih =>
    cases b with
    | nil => simp [bytesSep] at hs
    | cons y ys =>
      simp only [bytesSep] at hs
      split at hs
      · rename_i hxy
        subst hxy
        obtain ⟨d', hd', rfl⟩ := Option.map_eq_some_iff.1 hs
        have := ih ys d' hd'
        simpa [bytesCompare_cons] using this
      · split at hs
        · rename_i hcond
          have := Option.some.inj hs; subst this
          have h1 := toNat_succ_of_lt x hcond.1
          have hlt1 : x.toNat < (x + 1).toNat := by omega
          have hlt2 : (x + 1).toNat < y.toNat := by omega
          refine ⟨?_, ?_⟩
          · rw [bytesCompare_cons, if_pos hlt1]; exact fun h => Ordering.noConfusion h
          · rw [bytesCompare_cons, if_pos hlt2]
        · exact absurd hs (by simp)

theorem bytesSep_ok (a b d : Bytes) (_hab : bytesCompare a b ≠ .gt) (hs : bytesSep a b = some d) :
    bytesCompare a d ≠ .gt ∧ bytesCompare d b = .lt := bytesSep_between a b d hs

theorem bytesSep_self (a : Bytes) : bytesSep a a = none := by
  induction a with
  | nil => rfl
  | cons x xs ih => simp [bytesSep, ih]

theorem bytesSucc_ok (b d : Bytes) (hs : bytesSucc b = some d) : bytesCompare b d ≠ .gt := by
  induction b generalizing d with
  | nil => simp [bytesSucc] at hs
  | cons x xs ih =>
    simp only [bytesSucc] at hs
    split at hs
    · rename_i hx
      have := Option.some.inj hs; subst this
      have hx' : x.toNat < 255 := by
        have := x.toNat_lt
        have : x.toNat ≠ 255 := fun h' => hx (UInt8.toNat_inj.1 (by simpa using h'))
        omega
      have h1 := toNat_succ_of_lt x hx'
      have hlt1 : x.toNat < (x + 1).toNat := by omega
      rw [bytesCompare_cons, if_pos hlt1]; exact fun h => Ordering.noConfusion h
    · obtain ⟨d', hd', rfl⟩ := Option.map_eq_some_iff.1 hs
      have := ih d' hd'
      simpa [bytesCompare_cons] using this

theorem bytewise_lawful : LawfulUCmp bytewise where
  refl := bytesCompare_refl
  eq_of := bytesCompare_eq
  gt_iff := bytesCompare_gt_iff
  trans := bytesCompare_trans
  sep_ok := bytesSep_ok
  succ_ok := bytesSucc_ok

/-! ### why `sep_ok` is read for `a ≤ b` and not only for `a < b`

The Go doc comment ("x such that a <= x && x < b") can be read as constraining `Separator(a, b)` only for
`a < b`.  The table writer however also calls it for two consecutive internal keys with the *same* user
key, and `iComparer.Separator` then trusts the answer.  `sepOnEqCmp` satisfies every clause of the contract
under the weak reading (`sepOnEqCmp_weak`), yet makes the writer store an index key that sorts *after* the
next block's first key (`sepOnEqCmp_bad_index`).  With the premise `c.cmp a b ≠ .gt` it is not lawful
(`sepOnEqCmp_not_lawful`), and `indexSep_between` holds for all lawful comparers. -/

def sepOnEqCmp : UCmp :=
  ⟨bytesCompare, fun a b => if a = b then some [2] else bytesSep a b, bytesSucc⟩

/-- everything in `LawfulUCmp` except that `sep_ok` is only required for `a < b` -/
theorem sepOnEqCmp_weak :
    (∀ a, sepOnEqCmp.cmp a a = .eq) ∧ (∀ a b, sepOnEqCmp.cmp a b = .eq → a = b)
    ∧ (∀ a b, sepOnEqCmp.cmp a b = .gt ↔ sepOnEqCmp.cmp b a = .lt)
    ∧ (∀ a b d, sepOnEqCmp.cmp a b = .lt → sepOnEqCmp.cmp b d = .lt → sepOnEqCmp.cmp a d = .lt)
    ∧ (∀ a b d, sepOnEqCmp.cmp a b = .lt → sepOnEqCmp.sep a b = some d →
        sepOnEqCmp.cmp a d ≠ .gt ∧ sepOnEqCmp.cmp d b = .lt)
    ∧ (∀ b d, sepOnEqCmp.succ b = some d → sepOnEqCmp.cmp b d ≠ .gt) := by
  refine ⟨bytesCompare_refl, bytesCompare_eq, bytesCompare_gt_iff, bytesCompare_trans, ?_, bytesSucc_ok⟩
  intro a b d hab hs
  have hne : a ≠ b := by
    rintro rfl
    have : bytesCompare a a = .lt := hab
    rw [bytesCompare_refl] at this; exact Ordering.noConfusion this
  have hs' : bytesSep a b = some d := by simpa [sepOnEqCmp, hne] using hs
  exact bytesSep_between a b d hs'

/-- `[1,0]@7 < [1,0]@3`, but the index key computed for them, `[2]@max`, is above both -/
theorem sepOnEqCmp_bad_index :
    icmp sepOnEqCmp (mkIKey [1, 0] 7 1) (mkIKey [1, 0] 3 1) = .lt
    ∧ indexSep sepOnEqCmp (mkIKey [1, 0] 7 1) (mkIKey [1, 0] 3 1) = ⟨[2], Gen.keyMaxNum⟩
    ∧ icmp sepOnEqCmp (indexSep sepOnEqCmp (mkIKey [1, 0] 7 1) (mkIKey [1, 0] 3 1)) (mkIKey [1, 0] 3 1) = .gt := by
  decide

theorem sepOnEqCmp_not_lawful : ¬ LawfulUCmp sepOnEqCmp := by
  intro h
  have := (h.sep_ok [1, 0] [1, 0] [2] (by decide) (by decide)).2
  revert this; decide

/-! ## routing through a table index -/

/-- `table.Reader.find` on parsed keys: seek the index for the first index key `≥ p`, seek inside that
block, and if the block has nothing `≥ p` take the first entry of the next block. -/
def tableFind (c : UCmp) (bs : List (List IKey)) (ix : List IKey) (p : IKey) : Option IKey :=
  match ix.findIdx? (fun k => icmp c k p != .lt) with
  | none => none
  | some i => (seekGE c (bs[i]?.getD []) p).or ((bs[i + 1]?).bind List.head?)

/-- what the table writer guarantees about the index keys `ix` of the blocks `bs` -/
structure IndexOK (c : UCmp) (bs : List (List IKey)) (ix : List IKey) : Prop where
  len : ix.length = bs.length
  nonempty : ∀ b ∈ bs, b ≠ []
  /-- `last(b_i) ≤ ix_i` -/
  lo : ∀ (i : Nat) (b : List IKey) (k l : IKey), bs[i]? = some b → ix[i]? = some k → b.getLast? = some l → icmp c l k ≠ .gt
  /-- `ix_i < first(b_{i+1})` -/
  hi : ∀ (i : Nat) (b' : List IKey) (k f : IKey), bs[i + 1]? = some b' → ix[i]? = some k → b'.head? = some f → icmp c k f = .lt

theorem seekGE_append (c : UCmp) (xs ys : List IKey) (p : IKey) :
    seekGE c (xs ++ ys) p = (seekGE c xs p).or (seekGE c ys p) := by
  simp [seekGE, List.find?_append]

theorem seekGE_eq_none (c : UCmp) (xs : List IKey) (p : IKey) :
    seekGE c xs p = none ↔ ∀ e ∈ xs, icmp c e p = .lt := by
  simp [seekGE, List.find?_eq_none]

theorem IndexOK.tail {c : UCmp} {b : List IKey} {bs : List (List IKey)} {k : IKey} {ix : List IKey}
    (h : IndexOK c (b :: bs) (k :: ix)) : IndexOK c bs ix where
  len := by have := h.len; simpa using this
  nonempty := fun b' hb' => h.nonempty b' (List.mem_cons_of_mem _ hb')
  lo := fun i b' k' l h1 h2 h3 => h.lo (i + 1) b' k' l (by simpa using h1) (by simpa using h2) h3
  hi := fun i b' k' f h1 h2 h3 => h.hi (i + 1) b' k' f (by simpa using h1) (by simpa using h2) h3

section route
variable {c : UCmp} (hl : LawfulUCmp c)
include hl

/-- in a sorted list everything is at or below the last element -/
theorem le_getLast_of_sorted (es : List IKey) (hs : Sorted c es) (l : IKey) (hlast : es.getLast? = some l) :
    ∀ e ∈ es, icmp c e l ≠ .gt := by
  obtain ⟨ys, rfl⟩ := List.getLast?_eq_some_iff.1 hlast
  intro e he
  rcases List.mem_append.1 he with h | h
  · have := (List.pairwise_append.1 hs).2.2 e h l (by simp)
    rw [this]; exact fun h => Ordering.noConfusion h
  · have : e = l := by simpa using h
    subst this
    rw [(icmp_eq_iff hl e e).2 rfl]; exact fun h => Ordering.noConfusion h

/-- **Routing.**  The reader's two-level search returns exactly what a seek over the whole
(concatenated) table returns. -/
theorem tableFind_eq_seekGE (bs : List (List IKey)) (ix : List IKey) (hok : IndexOK c bs ix)
    (hs : Sorted c bs.flatten) (p : IKey) :
    tableFind c bs ix p = seekGE c bs.flatten p := by
  induction bs generalizing ix with
  | nil =>
    have : ix = [] := by have := hok.len; simpa using this
    subst this
    simp [tableFind, seekGE]
  | cons b bs ih =>
    cases ix with
    | nil => have := hok.len; simp at this
    | cons k ix =>
      have hok' := hok.tail
      rw [List.flatten_cons] at hs
      obtain ⟨hsb, hsrest, hcross⟩ := List.pairwise_append.1 hs
      rw [List.flatten_cons, seekGE_append]
      by_cases hk : (icmp c k p != .lt) = true
      · -- the index sends us to this block
        have hidx : (k :: ix).findIdx? (fun k => icmp c k p != .lt) = some 0 := by
          simp [List.findIdx?_cons, hk]
        simp only [tableFind, hidx, List.getElem?_cons_zero, Option.getD_some, Nat.zero_add,
          List.getElem?_cons_succ]
        congr 1
        -- the first entry of the next block (if any) is already ≥ p
        cases bs with
        | nil => simp [seekGE]
        | cons b' bs' =>
          cases b' with
          | nil => exact absurd rfl (hok.nonempty [] (by simp))
          | cons f fs =>
            have hkf : icmp c k f = .lt := hok.hi 0 (f :: fs) k f (by simp) (by simp) (by simp)
            have hpk : icmp c p k ≠ .gt := (icmp_not_lt_iff hl k p).1 (by simpa using hk)
            have hpf : icmp c p f = .lt := icmp_lt_of_le_of_lt hl p k f hpk hkf
            have hfp : (icmp c f p != .lt) = true := by
              have := icmp_asymm hl p f hpf
              simpa using this
            simp [seekGE, hfp]
      · -- everything in this block is below p
        have hk' : icmp c k p = .lt := by simpa using hk
        have hidx : (k :: ix).findIdx? (fun k => icmp c k p != .lt)
            = (ix.findIdx? (fun k => icmp c k p != .lt)).map (· + 1) := by
          simp [List.findIdx?_cons, hk']
        have hbnone : seekGE c b p = none := by
          rw [seekGE_eq_none]
          intro e he
          have hbne : b ≠ [] := hok.nonempty b (by simp)
          obtain ⟨l, hlast⟩ : ∃ l, b.getLast? = some l := by
            cases hb : b.getLast? with
            | none => exact absurd (List.getLast?_eq_none_iff.1 hb) hbne
            | some l => exact ⟨l, rfl⟩
          have h1 := le_getLast_of_sorted hl b hsb l hlast e he
          have h2 := hok.lo 0 b k l (by simp) (by simp) hlast
          exact icmp_lt_of_le_of_lt hl e k p (icmp_le_trans hl e l k h1 h2) hk'
        rw [hbnone, Option.none_or, ← ih ix hok' hsrest]
        simp only [tableFind, hidx]
        cases ix.findIdx? (fun k => icmp c k p != .lt) with
        | none => rfl
        | some i => simp

end route

/-! ## the index the table writer builds -/

/-- the index keys `table.Writer.flushPendingBH` emits: between two blocks the separator of the last key
of the finished block and the first key of the next, after the last block the successor of its last key
(in both cases the last key itself when the comparer returns nil) -/
def buildIndex (c : UCmp) : List (List IKey) → List IKey
  | [] => []
  | [b] => (b.getLast?.map (indexSucc c)).toList
  | b :: b' :: rest =>
    (match b.getLast?, b'.head? with
      | some l, some f => [indexSep c l f]
      | _, _ => []) ++ buildIndex c (b' :: rest)

theorem IndexOK.cons {c : UCmp} {b : List IKey} {bs : List (List IKey)} {k : IKey} {ix : List IKey}
    (h : IndexOK c bs ix) (hb : b ≠ [])
    (hlo : ∀ l, b.getLast? = some l → icmp c l k ≠ .gt)
    (hhi : ∀ b' f, bs.head? = some b' → b'.head? = some f → icmp c k f = .lt) :
    IndexOK c (b :: bs) (k :: ix) where
  len := by simp [h.len]
  nonempty := by
    intro b' hb'
    rcases List.mem_cons.1 hb' with rfl | hm
    · exact hb
    · exact h.nonempty b' hm
  lo := by
    intro i b' k' l h1 h2 h3
    cases i with
    | zero =>
      simp only [List.getElem?_cons_zero, Option.some.injEq] at h1 h2
      subst h1; subst h2; exact hlo l h3
    | succ i => exact h.lo i b' k' l (by simpa using h1) (by simpa using h2) h3
  hi := by
    intro i b' k' f h1 h2 h3
    cases i with
    | zero =>
      simp only [List.getElem?_cons_zero, Option.some.injEq] at h2
      subst h2
      have : bs.head? = some b' := by
        rw [List.head?_eq_getElem?]; simpa using h1
      exact hhi b' f this h3
    | succ i => exact h.hi i b' k' f (by simpa using h1) (by simpa using h2) h3

theorem buildIndex_ok {c : UCmp} (hl : LawfulUCmp c) (bs : List (List IKey))
    (hne : ∀ b ∈ bs, b ≠ []) (hs : Sorted c bs.flatten) : IndexOK c bs (buildIndex c bs) := by
  induction bs with
  | nil => exact ⟨rfl, by simp, by simp, by simp⟩
  | cons b bs ih =>
    have hbne : b ≠ [] := hne b (by simp)
    obtain ⟨l, hlast⟩ : ∃ l, b.getLast? = some l := by
      cases hb : b.getLast? with
      | none => exact absurd (List.getLast?_eq_none_iff.1 hb) hbne
      | some l => exact ⟨l, rfl⟩
    rw [List.flatten_cons] at hs
    obtain ⟨_, hsrest, hcross⟩ := List.pairwise_append.1 hs
    have ih' := ih (fun b' hb' => hne b' (List.mem_cons_of_mem _ hb')) hsrest
    cases bs with
    | nil =>
      simp only [buildIndex, hlast, Option.map_some, Option.toList_some]
      refine IndexOK.cons ⟨rfl, by simp, by simp, by simp⟩ hbne ?_ (by simp)
      intro l' hl'
      rw [hlast] at hl'; cases hl'
      exact indexSucc_ge hl l
    | cons b' rest =>
      have hb'ne : b' ≠ [] := hne b' (by simp)
      cases b' with
      | nil => exact absurd rfl hb'ne
      | cons f fs =>
        simp only [buildIndex, hlast, List.head?_cons, List.singleton_append]
        have hlf : icmp c l f = .lt :=
          hcross l (List.mem_of_getLast? hlast) f (by simp)
        have hbetween := indexSep_between hl l f hlf
        refine IndexOK.cons ih' hbne ?_ ?_
        · intro l' hl'
          rw [hlast] at hl'; cases hl'
          exact hbetween.1
        · intro b'' f' h1 h2
          simp only [List.head?_cons, Option.some.injEq] at h1
          subst h1
          simp only [List.head?_cons, Option.some.injEq] at h2
          subst h2
          exact hbetween.2

end GoLevel
