import GoLevel.Proofs.ConcSnaps
import GoLevel.Proofs.ConcTr
/-!
# One step of the interleaving model against the real snapshot list; the joint invariant along executions
-/
namespace GoLevel.Conc
open GoLevel.Snaps

variable {c : UCmp}

theorem ownerLive_keep {σ σ' : State} (hs : SnapInv σ) (sm : StepSum σ σ') :
    ∀ p ∈ σ.snaps, ownerLive σ' p.1 = ownerLive σ p.1 := by
  intro p hp
  obtain ⟨o, s⟩ := p
  cases o with
  | user id => rfl
  | reader i =>
    obtain ⟨r, h1, h2⟩ := hs.rdr i s hp
    obtain ⟨r', h3, ch⟩ := sm.rdOld i r h1
    simp only [ownerLive, h1, h3]
    exact (ch.seqKeep s h2).2

theorem old_rdr {σ σ' : State} (hs : SnapInv σ) (sm : StepSum σ σ') :
    ∀ i s, (Owner.reader i, s) ∈ σ.snaps → ∃ r, σ'.readers[i]? = some r ∧ r.seq? = some s := by
  intro i s hp
  obtain ⟨r, h1, h2⟩ := hs.rdr i s hp
  obtain ⟨r', h3, ch⟩ := sm.rdOld i r h1
  exact ⟨r', h3, (ch.seqKeep s h2).1⟩

theorem liveSeqs_le {σ : State} (hb : Basic σ) : ∀ s ∈ liveSeqs σ, s ≤ σ.pub := by
  intro s hs
  obtain ⟨o, h1, _⟩ := mem_liveOf.1 hs
  exact hb.snapsLe (o, s) h1

/-- registrations unchanged -/
theorem joint_same {σ σ' : State} {l : SList} (hs : SnapInv σ) (sm : StepSum σ σ') (hn : σ.nextId ≤ σ'.nextId)
    (hr : Rep l (liveSeqs σ)) (hsame : σ'.snaps = σ.snaps) : Rep l (liveSeqs σ') ∧ SnapInv σ' := by
  constructor
  · have : liveSeqs σ' = liveSeqs σ := by
      unfold liveSeqs; rw [hsame]; exact liveOf_congr (ownerLive_keep hs sm)
    rw [this]; exact hr
  · refine ⟨by rw [hsame]; exact hs.nodup, ?_, ?_⟩
    · intro i s hp; rw [hsame] at hp; exact old_rdr hs sm i s hp
    · intro id s hp; rw [hsame] at hp; exact Nat.lt_of_lt_of_le (hs.usr id s hp) hn

/-- one registration added -/
theorem snapInv_add {σ σ' : State} (hs : SnapInv σ) (sm : StepSum σ σ') (hn : σ.nextId ≤ σ'.nextId) (o : Owner)
    (s : Nat) (hsn : σ'.snaps = σ.snaps ++ [(o, s)]) (fresh : ∀ s', (o, s') ∉ σ.snaps)
    (newR : ∀ i, o = .reader i → ∃ r, σ'.readers[i]? = some r ∧ r.seq? = some s)
    (newU : ∀ id, o = .user id → id < σ'.nextId) : SnapInv σ' := by
  refine ⟨?_, ?_, ?_⟩
  · rw [hsn, List.map_append, List.nodup_append]
    refine ⟨hs.nodup, by simp, ?_⟩
    intro a ha b hb
    simp only [List.map_cons, List.map_nil, List.mem_singleton] at hb
    subst hb
    obtain ⟨p, hp, rfl⟩ := List.mem_map.1 ha
    intro heq
    exact fresh p.2 (by rw [← heq]; exact hp)
  · intro i s' hp
    rw [hsn] at hp
    rcases List.mem_append.1 hp with hp | hp
    · exact old_rdr hs sm i s' hp
    · simp only [List.mem_singleton, Prod.mk.injEq] at hp
      obtain ⟨h1, h2⟩ := hp
      subst h2
      exact newR i h1.symm
  · intro id s' hp
    rw [hsn] at hp
    rcases List.mem_append.1 hp with hp | hp
    · exact Nat.lt_of_lt_of_le (hs.usr id s' hp) hn
    · simp only [List.mem_singleton, Prod.mk.injEq] at hp
      exact newU id hp.1.symm

theorem liveSeqs_add {σ σ' : State} (hs : SnapInv σ) (sm : StepSum σ σ') (o : Owner) (s : Nat)
    (hsn : σ'.snaps = σ.snaps ++ [(o, s)]) :
    liveSeqs σ' = liveSeqs σ ++ (if ownerLive σ' o = true then [s] else []) := by
  unfold liveSeqs
  rw [hsn, liveOf_append, liveOf_congr (ownerLive_keep hs sm)]
  congr 1
  unfold liveOf
  rw [List.filter_cons]
  by_cases h : ownerLive σ' o = true <;> simp [h]

/-- one owner's registration removed -/
theorem snapInv_remove {σ σ' : State} (hs : SnapInv σ) (sm : StepSum σ σ') (hn : σ.nextId ≤ σ'.nextId) (o : Owner)
    (hsn : σ'.snaps = remove o σ.snaps) : SnapInv σ' := by
  refine ⟨?_, ?_, ?_⟩
  · rw [hsn]
    exact List.Nodup.sublist (List.Sublist.map _ List.filter_sublist) hs.nodup
  · intro i s hp
    rw [hsn] at hp
    exact old_rdr hs sm i s (mem_remove hp).1
  · intro id s hp
    rw [hsn] at hp
    exact Nat.lt_of_lt_of_le (hs.usr id s (mem_remove hp).1) hn

theorem liveSeqs_remove {σ σ' : State} (hs : SnapInv σ) (sm : StepSum σ σ') (o : Owner)
    (hsn : σ'.snaps = remove o σ.snaps) : liveSeqs σ' = liveOf (ownerLive σ) (remove o σ.snaps) := by
  unfold liveSeqs
  rw [hsn]
  exact liveOf_congr (fun p hp => ownerLive_keep hs sm p (mem_remove hp).1)

/-- removing the registration `(o, s)`: if it is live the list gives the reference back, otherwise nothing happens -/
theorem joint_remove {σ σ' : State} {l : SList} (hs : SnapInv σ) (sm : StepSum σ σ') (o : Owner) (s : Nat)
    (hsn : σ'.snaps = remove o σ.snaps) (hm : (o, s) ∈ σ.snaps) (hr : Rep l (liveSeqs σ)) :
    (ownerLive σ o = true → ∃ l', release l s = some l' ∧ Rep l' (liveSeqs σ'))
    ∧ (ownerLive σ o = false → Rep l (liveSeqs σ')) := by
  have hc := count_liveOf_remove (ownerLive σ) σ.snaps hs.nodup o s hm
  rw [liveSeqs_remove hs sm o hsn]
  constructor
  · intro hl
    have hmem : s ∈ liveSeqs σ := mem_liveOf.2 ⟨o, hm, hl⟩
    obtain ⟨l', h1, h2⟩ := rep_release hr s hmem
    refine ⟨l', h1, rep_of_count h2 ?_⟩
    intro x
    rw [List.count_erase]
    have := hc x
    unfold liveSeqs
    by_cases hx : s = x
    · simp [hl, hx] at this ⊢; omega
    · simp [hx] at this ⊢; omega
  · intro hl
    refine rep_of_count hr ?_
    intro x
    have := hc x
    simp [hl] at this
    unfold liveSeqs
    omega

/-- **One step against the real list**: it does not panic, still represents the live registrations, and the
registration invariant is kept. -/
theorem joint_step {σ σ' : State} {a : Action} {l : SList} (hi : Inv c σ) (hs : SnapInv σ)
    (hr : Rep l (liveSeqs σ)) (h : Step Cfg.real c σ a σ') :
    ∃ l', snapsStep σ l a = some l' ∧ Rep l' (liveSeqs σ') ∧ SnapInv σ' := by
  have sm := stepSum hi.basic h
  obtain ⟨hn, hsn⟩ := step_snaps h.1
  cases a with
  | snapAcquire =>
    obtain ⟨h1, h2⟩ := hsn
    obtain ⟨l', g1, g2⟩ := rep_acquire hr σ.pub (liveSeqs_le hi.basic)
    refine ⟨l', g1, ?_, ?_⟩
    · rw [liveSeqs_add hs sm _ _ h1]
      exact g2
    · refine snapInv_add hs sm hn _ _ h1 ?_ (fun i hh => by cases hh) ?_
      · intro s' hp; have := hs.usr _ _ hp; omega
      · intro id hh; cases hh; omega
  | rSeq i =>
    obtain ⟨h1, r, r', g1, g2, g3, g4, g5⟩ := hsn
    obtain ⟨l', k1, k2⟩ := rep_acquire hr σ.pub (liveSeqs_le hi.basic)
    refine ⟨l', k1, ?_, ?_⟩
    · rw [liveSeqs_add hs sm _ _ h1]
      have : ownerLive σ' (Owner.reader i) = true := by simp [ownerLive, g3, g5]
      rw [if_pos this]; exact k2
    · refine snapInv_add hs sm hn _ _ h1 ?_ ?_ (fun id hh => by cases hh)
      · intro s' hp
        obtain ⟨r0, q1, q2⟩ := hs.rdr i s' hp
        rw [g1] at q1; cases q1
        rw [g2] at q2; cases q2
      · intro j hh; cases hh; exact ⟨r', g3, g4⟩
  | rSeqSnap i id =>
    obtain ⟨s, r, r', g0, h1, g1, g2, g3, g4, g5⟩ := hsn
    refine ⟨l, rfl, ?_, ?_⟩
    · rw [liveSeqs_add hs sm _ _ h1]
      have : ¬ ownerLive σ' (Owner.reader i) = true := by simp [ownerLive, g3, g5]
      rw [if_neg this, List.append_nil]; exact hr
    · refine snapInv_add hs sm hn _ _ h1 ?_ ?_ (fun id hh => by cases hh)
      · intro s' hp
        obtain ⟨r0, q1, q2⟩ := hs.rdr i s' hp
        rw [g1] at q1; cases q1
        rw [g2] at q2; cases q2
      · intro j hh; cases hh; exact ⟨r', g3, g4⟩
  | snapRelease id =>
    have hsn : σ'.snaps = remove (.user id) σ.snaps := hsn
    have hinv := snapInv_remove hs sm hn _ hsn
    show ∃ l', (match σ.snaps.lookup (.user id) with | some s => release l s | none => some l) = some l' ∧ _
    cases hl : σ.snaps.lookup (.user id) with
    | none =>
      have hnm := lookup_none_not_mem _ _ hl
      rw [remove_of_not_mem hnm] at hsn
      exact ⟨l, rfl, (joint_same hs sm hn hr hsn).1, hinv⟩
    | some s =>
      have hm := lookup_some_mem _ _ _ hl
      obtain ⟨l', g1, g2⟩ := (joint_remove hs sm _ s hsn hm hr).1 rfl
      exact ⟨l', g1, g2, hinv⟩
  | rRelease i =>
    obtain ⟨h1, r, g1, g2⟩ := hsn
    have hinv := snapInv_remove hs sm hn _ h1
    obtain ⟨s, q1, q2⟩ := (hi.readers i r g1).regSnap g2
    have jr := joint_remove hs sm _ s h1 q2 hr
    show ∃ l', (match σ.readers[i]? with
      | some r => if r.live = true then (match r.seq? with | some s => release l s | none => some l) else some l
      | none => some l) = some l' ∧ _
    rw [g1]
    by_cases hlive : r.live = true
    · have : ownerLive σ (Owner.reader i) = true := by simp [ownerLive, g1, hlive]
      obtain ⟨l', k1, k2⟩ := jr.1 this
      refine ⟨l', ?_, k2, hinv⟩
      simp only [hlive, if_true, q1]
      exact k1
    · have : ownerLive σ (Owner.reader i) = false := by simp [ownerLive, g1, hlive]
      refine ⟨l, ?_, jr.2 this, hinv⟩
      simp only [hlive]
      rfl
  | writeInsert es => exact ⟨l, rfl, joint_same hs sm hn hr hsn⟩
  | publish => exact ⟨l, rfl, joint_same hs sm hn hr hsn⟩
  | seqSkip n => exact ⟨l, rfl, joint_same hs sm hn hr hsn⟩
  | rotate => exact ⟨l, rfl, joint_same hs sm hn hr hsn⟩
  | flushInstall => exact ⟨l, rfl, joint_same hs sm hn hr hsn⟩
  | flushDrop => exact ⟨l, rfl, joint_same hs sm hn hr hsn⟩
  | compStart => exact ⟨l, rfl, joint_same hs sm hn hr hsn⟩
  | compCommit nt => exact ⟨l, rfl, joint_same hs sm hn hr hsn⟩
  | rNew => exact ⟨l, rfl, joint_same hs sm hn hr hsn⟩
  | rMems i => exact ⟨l, rfl, joint_same hs sm hn hr hsn⟩
  | rVer i => exact ⟨l, rfl, joint_same hs sm hn hr hsn⟩
  | rLookup i k => exact ⟨l, rfl, joint_same hs sm hn hr hsn⟩
  | trOpen => exact ⟨l, rfl, joint_same hs sm hn hr hsn⟩
  | trPut e => exact ⟨l, rfl, joint_same hs sm hn hr hsn⟩
  | trGet k => exact ⟨l, rfl, joint_same hs sm hn hr hsn⟩
  | trInstall => exact ⟨l, rfl, joint_same hs sm hn hr hsn⟩
  | trPublish => exact ⟨l, rfl, joint_same hs sm hn hr hsn⟩
  | trDiscard => exact ⟨l, rfl, joint_same hs sm hn hr hsn⟩

/-- executions of the model together with the real snapshot list -/
inductive Joint (c : UCmp) : State → SList → Prop
  | init : Joint c Conc.init []
  | step {σ σ' : State} {l l' : SList} (a : Action) : Joint c σ l → Step Cfg.real c σ a σ' →
      snapsStep σ l a = some l' → Joint c σ' l'

theorem Joint.reachable {σ : State} {l : SList} (h : Joint c σ l) : Reachable Cfg.real c σ := by
  induction h with
  | init => exact Steps.refl _
  | step a _ hs _ ih => exact Steps.tail a ih hs

theorem Joint.inv {σ : State} {l : SList} (h : Joint c σ l) : SnapInv σ ∧ Rep l (liveSeqs σ) := by
  induction h with
  | init => exact ⟨snapInv_init, by simpa [liveSeqs, liveOf, Conc.init] using rep_nil⟩
  | step a hj hs hl ih =>
    obtain ⟨l2, g1, g2, g3⟩ := joint_step (inv_reachable hj.reachable) ih.1 ih.2 hs
    rw [g1] at hl; cases hl
    exact ⟨g3, g2⟩

/-- every reachable state has its list (the real list never panics) -/
theorem joint_of_reachable {σ : State} (h : Reachable Cfg.real c σ) : ∃ l, Joint c σ l := by
  induction h with
  | refl => exact ⟨[], Joint.init⟩
  | tail a hs hstep ih =>
    obtain ⟨l, hj⟩ := ih
    obtain ⟨l', g1, _, _⟩ := joint_step (inv_reachable hj.reachable) hj.inv.1 hj.inv.2 hstep
    exact ⟨l', Joint.step a hj hstep g1⟩

/-- a checked joint run of actions with decidable guards is a joint execution -/
theorem joint_of_runJ : ∀ (as : List Action) {σ σ' : State} {l l' : SList}, as.all Action.plain = true →
    Joint c σ l → runJ Cfg.real c σ l as = some (σ', l') → Joint c σ' l' := by
  intro as
  induction as with
  | nil => intro σ σ' l l' _ hj h; simp only [runJ] at h; cases h; exact hj
  | cons a as ih =>
    intro σ σ' l l' hp hj h
    simp only [List.all_cons, Bool.and_eq_true] at hp
    simp only [runJ] at h
    split at h
    · rename_i σ1 l1 h1 h2
      exact ih hp.2 (Joint.step a hj ⟨h1, guardP_plain σ a hp.1⟩ h2) h
    · cases h

/-! ## `minSeq` of the list against `Conc.minSeq` -/

theorem foldl_min_mem (l : List Nat) : ∀ a, l.foldl min a = a ∨ l.foldl min a ∈ l := by
  induction l with
  | nil => intro a; exact Or.inl rfl
  | cons x t ih =>
    intro a
    simp only [List.foldl]
    rcases ih (min a x) with h | h
    · rw [h]
      by_cases hax : a ≤ x
      · exact Or.inl (Nat.min_eq_left hax)
      · exact Or.inr (by rw [Nat.min_eq_right (by omega)]; exact List.mem_cons_self)
    · exact Or.inr (List.mem_cons_of_mem _ h)

/-- `Conc.minSeq` never exceeds the real one; they agree when the `snap.mu` protocol holds -/
theorem minSeq_list {σ : State} {l : SList} (hb : Basic σ) (hr : Rep l (liveSeqs σ)) :
    Conc.minSeq σ ≤ Snaps.minSeq l σ.pub ∧ (SnapHeld σ → Snaps.minSeq l σ.pub = Conc.minSeq σ) := by
  obtain ⟨h1, h2⟩ := rep_minSeq hr σ.pub
  have hle : Conc.minSeq σ ≤ Snaps.minSeq l σ.pub := by
    by_cases hl : liveSeqs σ = []
    · rw [h1 hl]; exact minSeq_le_pub σ
    · obtain ⟨hm, _⟩ := h2 hl
      obtain ⟨o, ho, _⟩ := mem_liveOf.1 hm
      exact minSeq_le_snap σ _ ho
  refine ⟨hle, ?_⟩
  intro held
  apply Nat.le_antisymm _ hle
  -- every registration is at or above the list's minimum
  have hpub : Snaps.minSeq l σ.pub ≤ σ.pub := by
    by_cases hl : liveSeqs σ = []
    · rw [h1 hl]; exact Nat.le_refl _
    · exact liveSeqs_le hb _ (h2 hl).1
  apply le_minSeq σ _ hpub
  intro p hp
  obtain ⟨o, s⟩ := p
  have live_le : ∀ o', (o', s) ∈ σ.snaps → ownerLive σ o' = true → Snaps.minSeq l σ.pub ≤ s := by
    intro o' ho hl
    have hm : s ∈ liveSeqs σ := mem_liveOf.2 ⟨o', ho, hl⟩
    have hne : liveSeqs σ ≠ [] := by intro h0; rw [h0] at hm; cases hm
    exact (h2 hne).2 s hm
  by_cases hl : ownerLive σ o = true
  · exact live_le o hp hl
  · cases o with
    | user id => exact absurd rfl hl
    | reader i =>
      obtain ⟨id, hid⟩ := held i s hp (by
        intro r hr'
        simp only [ownerLive, hr'] at hl
        cases h : r.live with
        | true => exact absurd h hl
        | false => rfl)
      exact live_le _ hid rfl

end GoLevel.Conc
