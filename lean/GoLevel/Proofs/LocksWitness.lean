import GoLevel.Proofs.LocksInv
/-! Explicit runs of the as-is configuration that end in a leaked resource. -/
namespace GoLevel.Locks

/-- state after the leaking `OpenTransaction` returned: thread 0 has its error, thread 1 is idle, the
token is in `writeLockC` -/
def otxLeakSt : St := { ws := [.ret false, .idle], tok := true }

/-- `OpenTransaction`: `rotateMem` fails in `newMem` after the first wait; the call returns, the token
stays in `writeLockC`. -/
theorem otxLeakRun : Steps Cfg.asIs (init 2) otxLeakSt := by
  have h := Steps.refl (cfg := Cfg.asIs) (init 2)
  have h := h.step (Step.startOtx _ 0 rfl)
  have h := h.step (Step.selTok _ 0 (.otxSel false) (.otxBranch false) rfl rfl rfl)
  have h := h.step (Step.otxRotate _ 0 false rfl)
  have h := h.step (Step.cwSendGo _ 0 false .otxRot1 false rfl rfl rfl)
  have h := h.step (Step.bgWorkOk _ false (some 0) rfl)
  have h := h.step (Step.bgSetErr _ false (some 0) true false rfl rfl)
  have h := h.step (Step.bgLockClk _ false (some 0) rfl rfl)
  have h := h.step (Step.bgCommitOk _ false (some 0) rfl)
  have h := h.step (Step.bgSetErr _ false (some 0) true true rfl rfl)
  have h := h.step (Step.bgAck _ false (some 0) rfl)
  have h := h.step (Step.otxNewMemFail _ 0 false rfl)
  have h := h.step (Step.otxFail _ 0 false rfl)
  exact h

/-- after `Transaction.Commit` failed three times: the user discarded the transaction, a later `Put`
(thread 2, holding the token) waits for a memdb compaction, `mCompaction` is blocked in
`compCommitLk.Lock()`; thread 4 is idle (a later `Close`) -/
def commitLeakSt : St :=
  { ws := [.ret true, .ret false, .cwAck false .put false, .ret true, .idle], tok := true, clk := true,
    mc := .run (some 2) .lockClk }

theorem commitLeakRun : Steps Cfg.asIs (init 5) commitLeakSt := by
  have h := Steps.refl (cfg := Cfg.asIs) (init 5)
  -- thread 0: OpenTransaction succeeds
  have h := h.step (Step.startOtx _ 0 rfl)
  have h := h.step (Step.selTok _ 0 (.otxSel false) (.otxBranch false) rfl rfl rfl)
  have h := h.step (Step.otxNoRotate _ 0 false rfl)
  have h := h.step (Step.cwSendGo _ 0 false .otxWaitM false rfl rfl rfl)
  have h := h.step (Step.bgWorkOk _ false (some 0) rfl)
  have h := h.step (Step.bgSetErr _ false (some 0) true false rfl rfl)
  have h := h.step (Step.bgLockClk _ false (some 0) rfl rfl)
  have h := h.step (Step.bgCommitOk _ false (some 0) rfl)
  have h := h.step (Step.bgSetErr _ false (some 0) true true rfl rfl)
  have h := h.step (Step.bgAck _ false (some 0) rfl)
  have h := h.step (Step.otxNoWaitComp _ 0 false rfl)
  have h := h.step (Step.otxDone _ 0 false rfl)
  -- thread 1: Commit, `s.commit` fails three times
  have h := h.step (Step.startCommit _ 1 rfl rfl)
  have h := h.step (Step.cmLockTr _ 1 false rfl rfl)
  have h := h.step (Step.cmFlushOk _ 1 false rfl)
  have h := h.step (Step.cmLockClk _ 1 false rfl rfl)
  have h := h.step (Step.cmTryFail _ 1 2 false rfl)
  have h := h.step (Step.cmSleepTimer _ 1 2 false rfl)
  have h := h.step (Step.cmTryFail _ 1 1 false rfl)
  have h := h.step (Step.cmSleepTimer _ 1 1 false rfl)
  have h := h.step (Step.cmTryFail _ 1 0 false rfl)
  have h := h.step (Step.cmSleepTimer _ 1 0 false rfl)
  have h := h.step (Step.cmFail3 _ 1 false rfl)
  have h := h.step (Step.cmRet _ 1 false false rfl)
  -- thread 3: Discard
  have h := h.step (Step.startDiscard _ 3 rfl rfl)
  have h := h.step (Step.dcLockTr _ 3 false rfl rfl)
  have h := h.step (Step.dcBody _ 3 false rfl)
  -- thread 2: Put, memdb full: waits for a memdb compaction, which wants to commit
  have h := h.step (Step.startPut _ 2 rfl)
  have h := h.step (Step.selTok _ 2 .putSel .putFlush rfl rfl rfl)
  have h := h.step (Step.putWait _ 2 false rfl)
  have h := h.step (Step.cwSendGo _ 2 false .put false rfl rfl rfl)
  have h := h.step (Step.bgWorkOk _ false (some 2) rfl)
  have h := h.step (Step.bgSetErr _ false (some 2) true false rfl rfl)
  exact h

/-- after `DB.Write` (large batch) returned the error of `tr.Commit()`: the internal transaction is still
open and owns the token -/
def lgLeakSt : St := { ws := [.ret false, .idle], tok := true, trOpen := true, trUser := false }

theorem lgLeakRun : Steps Cfg.asIs (init 2) lgLeakSt := by
  have h := Steps.refl (cfg := Cfg.asIs) (init 2)
  have h := h.step (Step.startWrite _ 0 rfl)
  have h := h.step (Step.selTok _ 0 (.otxSel true) (.otxBranch true) rfl rfl rfl)
  have h := h.step (Step.otxNoRotate _ 0 true rfl)
  have h := h.step (Step.cwSendGo _ 0 false .otxWaitM true rfl rfl rfl)
  have h := h.step (Step.bgWorkOk _ false (some 0) rfl)
  have h := h.step (Step.bgSetErr _ false (some 0) true false rfl rfl)
  have h := h.step (Step.bgLockClk _ false (some 0) rfl rfl)
  have h := h.step (Step.bgCommitOk _ false (some 0) rfl)
  have h := h.step (Step.bgSetErr _ false (some 0) true true rfl rfl)
  have h := h.step (Step.bgAck _ false (some 0) rfl)
  have h := h.step (Step.otxNoWaitComp _ 0 true rfl)
  have h := h.step (Step.otxDone _ 0 true rfl)
  have h := h.step (Step.lgWriteOk _ 0 rfl)
  have h := h.step (Step.cmLockTr _ 0 true rfl rfl)
  have h := h.step (Step.cmFlushFail _ 0 true rfl)
  have h := h.step (Step.cmRet _ 0 false true rfl)
  exact h

/-- `SetReadOnly` racing with `Close`: it took the token, `Close` closed `closeC`, `compactionError`
left its `noerr` loop, `SetReadOnly` returned `ErrClosed`; `Close` (thread 1) is about to take the token -/
def srLeakSt (c : Bool) : St :=
  { ws := [.ret false, .clAcq], tok := true, ehTok := true, cwl := c, closed := true, eh := .exited }

theorem srLeakRun (cfg : Cfg) (hm : cfg.m = .asCoded cfg.closeSel) (hf : cfg.setReadOnlyReleasesOnClose = false) :
    Steps cfg (init 2) (srLeakSt cfg.srSetsWriteLocking) := by
  have h := Steps.refl (cfg := cfg) (init 2)
  have h := h.step (Step.startSR _ 0 rfl rfl)
  have h := h.step (Step.selTok _ 0 .srSel .srSet rfl rfl rfl)
  have h := h.step (Step.startClose _ 1 rfl)
  have h := h.step (Step.ehClose _ (by rw [hm]; rfl) rfl)
  have e := Step.srClosed (cfg := cfg)
    { ws := [.srSet, .clCheckTr], tok := true, ehTok := true, cwl := cfg.srSetsWriteLocking, closed := true,
      eh := .exited } 0 rfl rfl
  simp only [hf] at e
  have h := h.step e
  have h := h.step (Step.clCheckTr _ 1 rfl)
  exact h

end GoLevel.Locks
