import GoLevel.Proofs.RefLoopFLoops
/-! One whole message over the full history; the loops run to completion; quiescence (C07). -/
namespace GoLevel.RefLoop

/-- One message of the full environment: no panic, the invariant is kept, only safe removals, exact removal
history (until `session.close`, while no file number is used twice). -/
theorem step_invF {S : State} {G G' : EnvF} {m : Msg} {R : List Nat} (hI : InvF S G) (hG : GL G S.next)
    (hH : HistC S G R) (hs : EnvStepF S.next G m G') :
    ∃ S' rm, step S m = some (S', rm) ∧ InvF S' G' ∧ S.next ≤ S'.next ∧ GL G' S'.next ∧ SafeF G' S'.next rm ∧
      HistC S' G' (R ++ rm) := by
  obtain ⟨S1, rm1, h1, h2, hnx, hG1, h3, h3'⟩ := handle_invF hI hG hH hs
  obtain ⟨S2, rm2, h4, h5, hle, h6, h6'⟩ := processTasks_invF h2 (by rw [hnx]; exact hG1) h3'
  rw [hnx] at hle
  exact ⟨S2, rm1 ++ rm2, by simp [step, h1, h4], h5, hle, gl_next hG1 hle,
    safeF_append (safeF_mono hle h3) h6, by rw [← List.append_assoc]; exact h6'⟩

/-- With enough fuel the release loop stops at an id that is neither abandoned nor released. -/
theorem release_settledF (fuel : Nat) {S S' : State} {rm : List Nat}
    (hf : S.abandoned.length + S.released.length < fuel) (h : releaseLoop fuel S = some (S', rm)) :
    S'.released.lookup S'.next = none ∧ S'.next ∉ S'.abandoned := by
  induction fuel generalizing S rm with
  | zero => omega
  | succ fuel ih =>
    rw [releaseLoop_succ] at h
    by_cases hab : S.next ∈ S.abandoned
    · simp only [hab, if_true] at h
      refine ih ?_ h
      show (S.abandoned.erase S.next).length + S.released.length < fuel
      rw [List.length_erase_of_mem hab]
      have := List.length_pos_of_mem hab
      omega
    · simp only [hab, if_false] at h
      cases hl : S.released.lookup S.next with
      | none =>
        simp only [hl, Option.some.injEq, Prod.mk.injEq] at h
        obtain ⟨rfl, _⟩ := h
        exact ⟨hl, hab⟩
      | some od =>
        simp only [hl] at h
        have hlt := length_filter_lt_of_lookup (l := S.released) (k := S.next) (by rw [hl]; rfl)
        split at h
        · cases h
        · rename_i m rm1 hr
          split at h
          · cases h
          · rename_i S2 rm2 hrec
            simp only [Option.some.injEq, Prod.mk.injEq] at h
            obtain ⟨rfl, _⟩ := h
            refine ih ?_ hrec
            show S.abandoned.length + (S.released.filter _).length < fuel
            omega

theorem processTasks_settledF {S S' : State} {rm : List Nat} (h : processTasks S = some (S', rm)) :
    S'.released.lookup S'.next = none ∧ S'.next ∉ S'.abandoned := by
  simp only [processTasks] at h
  split at h
  · cases h
  · rename_i S1 rm1 h1
    split at h
    · cases h
    · rename_i S2 rm2 h2
      simp only [Option.some.injEq, Prod.mk.injEq] at h
      obtain ⟨rfl, _⟩ := h
      exact release_settledF _ (by omega) h2

theorem step_settledF {S S' : State} {m : Msg} {rm : List Nat} (h : step S m = some (S', rm)) :
    S'.released.lookup S'.next = none ∧ S'.next ∉ S'.abandoned := by
  simp only [step] at h
  split at h
  · cases h
  · split at h
    · cases h
    · rename_i S2 rm2 h2
      simp only [Option.some.injEq, Prod.mk.injEq] at h
      obtain ⟨rfl, _⟩ := h
      exact processTasks_settledF h2

/-- Quiescence: no delta pending, every installed version below the current one (`dn`) released, every
message processed.  Then `next` has reached the current version and the counters cover the loop's view of it
and nothing outside its tables. -/
theorem quiescentF {S : State} {G : EnvF} (hI : InvF S G)
    (hs : S.released.lookup S.next = none ∧ S.next ∉ S.abandoned)
    (hN : 0 < G.N) (hcur : G.N ≤ G.up (G.dn + 1)) (hrel : ∀ k, k < G.dn → G.inst k → k ∈ G.rel) :
    G.dn ≤ S.next ∧ (∀ f, f ∈ G.L G.dn → f ∈ S.fileRef) ∧ (∀ f, f ∈ S.fileRef → f ∈ G.T G.dn) := by
  have hdn := hI.wf.dn_lt hN
  have hdi : G.inst G.dn := by rcases hI.wf.dn with h1 | h1; omega; exact h1
  have hge : G.dn ≤ S.next := by
    rcases Nat.lt_or_ge S.next G.dn with h | h
    · exfalso
      by_cases hi : G.inst S.next
      · have := hI.rld S.next
        rw [hs.1] at this
        simp [hrel _ h hi] at this
      · exact hs.2 ((hI.ab.2 _).mpr ⟨Nat.le_refl _, by omega, hi⟩)
    · exact h
  have hcb : G.cb S.next = G.dn := by
    unfold EnvF.cb; rw [Nat.min_eq_left hge]; exact EnvF.up_inst hdi
  refine ⟨hge, fun f hf => ?_, fun f hf => ?_⟩
  · apply List.count_pos_iff.mp
    rw [hI.cnt f, hcb, ind_pos hf]; omega
  · have hpos := List.count_pos_iff.mpr hf
    rw [hI.cnt f, hcb] at hpos
    by_cases hb : f ∈ G.L G.dn
    · exact hI.wf.sub _ f hb
    · rw [ind_neg hb, Nat.zero_add] at hpos
      obtain ⟨k, hk⟩ := List.exists_mem_of_length_pos hpos
      obtain ⟨hk1, hk2⟩ := List.mem_filter.mp hk
      obtain ⟨_, hik, hkr⟩ := (hI.rfd.2 k).mp hk1
      have hkd : G.dn ≤ k := by
        rcases Nat.lt_or_ge k G.dn with h | h
        · exact absurd (hrel k h hik) hkr
        · exact h
      have : k = G.dn := by
        rcases Nat.lt_or_ge G.dn k with h | h
        · have h1 : G.up (G.dn + 1) ≤ k := EnvF.up_le_of_inst (by omega) hik
          have := EnvF.inst_lt hik
          omega
        · omega
      subst this
      simpa using hk2

end GoLevel.RefLoop
