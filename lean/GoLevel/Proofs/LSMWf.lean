import GoLevel.Proofs.LSMCompact
/-!
# Well-formedness of versions under edits (`Version.apply`)

* `Version.WFi`: index-based Prop form of `Version.wfB`,
* the levels of `Version.apply c v e` (`padLevels`, the two `mapIdx`, `trimLevels`),
* `insertByKey` keeps a disjoint level disjoint,
* `apply_wf`: a generic sufficient condition (`EditOK`) for an edit to preserve well-formedness.
Core Lean only.
-/
namespace GoLevel

/-- level `i` of a version (`[]` beyond the last level) -/
def Version.lvl (v : Version) (i : Nat) : Level := v.levels[i]?.getD []

/-- Prop form of `Version.wfB`, by level index -/
structure Version.WFi (c : UCmp) (v : Version) : Prop where
  tables : ∀ i, ∀ t ∈ v.lvl i, t.wfB c = true
  disjoint : ∀ i, 1 ≤ i → (v.lvl i).Pairwise (tlt c)
  ordered : ∀ i j, i < j → NewerThan (Level.entries (v.lvl i)) (Level.entries (v.lvl j))

theorem Version.lvl_of_getElem? {v : Version} {i : Nat} {l : Level} (h : v.levels[i]? = some l) :
    v.lvl i = l := by simp [Version.lvl, h]

theorem Version.lvl_mem_or_nil (v : Version) (i : Nat) : v.lvl i ∈ v.levels ∨ v.lvl i = [] := by
  unfold Version.lvl
  cases h : v.levels[i]? with
  | none => exact .inr rfl
  | some l => exact .inl (List.mem_of_getElem? h)

theorem Version.mem_entries {v : Version} {x : Entry} :
    x ∈ v.entries ↔ ∃ i, x ∈ Level.entries (v.lvl i) := by
  simp only [Version.entries, List.mem_flatMap]
  constructor
  · rintro ⟨l, hl, hx⟩
    obtain ⟨i, hi⟩ := List.mem_iff_getElem?.1 hl
    exact ⟨i, by rw [Version.lvl_of_getElem? hi]; exact List.mem_flatMap.1 (by simpa [Level.entries] using hx)
      |> fun h => by simpa [Level.entries] using h⟩
  · rintro ⟨i, hx⟩
    rcases v.lvl_mem_or_nil i with h | h
    · exact ⟨_, h, hx⟩
    · rw [h] at hx; simp [Level.entries] at hx

section wfi
variable {c : UCmp} (hl : LawfulUCmp c)
include hl

theorem Version.wfB_iff_WFi (v : Version) : v.wfB c = true ↔ v.WFi c := by
  constructor
  · intro h
    obtain ⟨h1, h2, h3⟩ := Version.wfB_parts h
    have h3' := (levelsOrdered_pairwise hl v.levels).1 h3
    refine ⟨?_, ?_, ?_⟩
    · intro i t ht
      rcases v.lvl_mem_or_nil i with hm | hm
      · exact h1 _ hm t ht
      · rw [hm] at ht; cases ht
    · intro i hi
      unfold Version.lvl
      cases hv : v.levels[i]? with
      | none => exact List.Pairwise.nil
      | some l =>
        have hmem : l ∈ v.levels := List.mem_of_getElem? hv
        have hd : l ∈ v.levels.drop 1 := by
          apply List.mem_iff_getElem?.2
          refine ⟨i - 1, ?_⟩
          rw [List.getElem?_drop, show 1 + (i - 1) = i by omega]; exact hv
        exact (levelDisjoint_pairwise hl l (fun t ht => Table.wf_imin_le_imax hl (h1 l hmem t ht))).1 (h2 l hd)
    · intro i j hij
      unfold Version.lvl
      cases hvi : v.levels[i]? with
      | none => exact NewerThan.nil_left _
      | some li =>
        cases hvj : v.levels[j]? with
        | none => exact NewerThan.nil_right _
        | some lj =>
          obtain ⟨hi, hi'⟩ := List.getElem?_eq_some_iff.1 hvi
          obtain ⟨hj, hj'⟩ := List.getElem?_eq_some_iff.1 hvj
          have := List.pairwise_iff_getElem.1 h3' i j (by simpa using hi) (by simpa using hj) hij
          simpa [hi', hj'] using this
  · intro h
    have htab : ∀ l ∈ v.levels, ∀ t ∈ l, t.wfB c = true := by
      intro l hl' t ht
      obtain ⟨i, hi⟩ := List.mem_iff_getElem?.1 hl'
      exact h.tables i t (by rw [Version.lvl_of_getElem? hi]; exact ht)
    simp only [Version.wfB, Bool.and_eq_true, List.all_eq_true]
    refine ⟨⟨htab, ?_⟩, ?_⟩
    · intro l hl'
      obtain ⟨j, hj⟩ := List.mem_iff_getElem?.1 hl'
      rw [List.getElem?_drop] at hj
      have hmem : l ∈ v.levels := List.mem_of_getElem? hj
      have := h.disjoint (1 + j) (by omega)
      rw [Version.lvl_of_getElem? hj] at this
      exact (levelDisjoint_pairwise hl l (fun t ht => Table.wf_imin_le_imax hl (htab l hmem t ht))).2 this
    · rw [levelsOrdered_pairwise hl, List.pairwise_iff_getElem]
      intro i j hi hj hij
      simp only [List.length_map] at hi hj
      have := h.ordered i j hij
      simp only [Version.lvl, List.getElem?_eq_getElem hi, List.getElem?_eq_getElem hj,
        Option.getD_some] at this
      simpa using this

end wfi

/-! ## the levels of `Version.apply` -/

/-- tables of level `i` that the edit does not delete -/
def Edit.delAt (e : Edit) (i : Nat) (l : Level) : Level :=
  l.filter fun t => !(e.deleted.any fun (lv, n) => lv = i && n = t.num)

/-- level `i` after inserting the tables the edit adds there -/
def Edit.addAt (c : UCmp) (e : Edit) (i : Nat) (l : Level) : Level :=
  (e.added.filter (·.1 = i)).foldl (fun acc (_, t) =>
    if i = 0 then insertByNumDesc t acc else insertByKey c t acc) l

/-- the tables of level `i` that survive the edit -/
def Version.survivors (v : Version) (e : Edit) (i : Nat) : Level := e.delAt i (v.lvl i)

/-- level `i` of the new version -/
def Version.newLevel (c : UCmp) (v : Version) (e : Edit) (i : Nat) : Level :=
  e.addAt c i (v.survivors e i)

theorem Version.apply_levels (c : UCmp) (v : Version) (e : Edit) :
    (v.apply c e).levels = trimLevels
      (((padLevels v.levels ((e.added.map (·.1)).foldl max 0 + 1)).mapIdx (fun i l => e.delAt i l)).mapIdx
        (fun i l => e.addAt c i l)) := rfl

theorem padLevels_getElem? (ls : List Level) (n i : Nat) (l : Level)
    (h : (padLevels ls n)[i]? = some l) : l = ls[i]?.getD [] := by
  unfold padLevels at h
  rw [List.getElem?_append] at h
  split at h
  · rw [h]; rfl
  · rename_i hlt
    rw [List.getElem?_replicate] at h
    split at h
    · have := Option.some.inj h
      rw [List.getElem?_eq_none (by omega)]; exact this.symm
    · cases h

theorem padLevels_length (ls : List Level) (n : Nat) : (padLevels ls n).length = max ls.length n := by
  simp only [padLevels, List.length_append, List.length_replicate]; omega

theorem padLevels_getElem?_lt (ls : List Level) (n i : Nat) (h : i < max ls.length n) :
    (padLevels ls n)[i]? = some (ls[i]?.getD []) := by
  have : i < (padLevels ls n).length := by rw [padLevels_length]; exact h
  have h2 := List.getElem?_eq_getElem this
  rw [h2]
  congr 1
  exact padLevels_getElem? ls n i _ h2

/-- the level list of `Version.apply` before trailing empty levels are trimmed -/
def Version.rawLevels (c : UCmp) (v : Version) (e : Edit) : List Level :=
  ((padLevels v.levels ((e.added.map (·.1)).foldl max 0 + 1)).mapIdx (fun i l => e.delAt i l)).mapIdx
    (fun i l => e.addAt c i l)

theorem Version.rawLevels_getElem? (c : UCmp) (v : Version) (e : Edit) (i : Nat) (l : Level)
    (h : (v.rawLevels c e)[i]? = some l) : l = v.newLevel c e i := by
  unfold Version.rawLevels at h
  rw [List.getElem?_mapIdx, List.getElem?_mapIdx] at h
  cases hp : (padLevels v.levels ((e.added.map (·.1)).foldl max 0 + 1))[i]? with
  | none => rw [hp] at h; cases h
  | some l0 =>
    rw [hp] at h
    have := padLevels_getElem? _ _ _ _ hp
    simp only [Option.map_some, Option.some.injEq] at h
    rw [← h, this]; rfl

theorem Version.rawLevels_length (c : UCmp) (v : Version) (e : Edit) :
    (v.rawLevels c e).length = max v.levels.length ((e.added.map (·.1)).foldl max 0 + 1) := by
  simp [Version.rawLevels, padLevels_length]

theorem foldl_max_ge (l : List Nat) (a : Nat) : a ≤ l.foldl max a ∧ ∀ x ∈ l, x ≤ l.foldl max a := by
  induction l generalizing a with
  | nil => simp
  | cons y ys ih =>
    obtain ⟨h1, h2⟩ := ih (max a y)
    refine ⟨by simp only [List.foldl_cons]; omega, ?_⟩
    intro x hx
    simp only [List.foldl_cons]
    rcases List.mem_cons.1 hx with rfl | hx
    · omega
    · exact h2 x hx

/-- beyond the raw level list nothing is added and nothing was there -/
theorem Version.newLevel_beyond (c : UCmp) (v : Version) (e : Edit) (i : Nat)
    (h : (v.rawLevels c e).length ≤ i) : v.newLevel c e i = [] := by
  rw [Version.rawLevels_length] at h
  have h1 : v.lvl i = [] := by
    simp only [Version.lvl]; rw [List.getElem?_eq_none (by omega)]; rfl
  have h2 : e.added.filter (·.1 = i) = [] := by
    rw [List.filter_eq_nil_iff]
    intro p hp
    have := (foldl_max_ge (e.added.map (·.1)) 0).2 p.1 (List.mem_map.2 ⟨p, hp, rfl⟩)
    simp only [decide_eq_true_eq]; omega
  simp [Version.newLevel, Version.survivors, Edit.addAt, Edit.delAt, h1, h2]

theorem Version.rawLevels_getElem?_lt (c : UCmp) (v : Version) (e : Edit) (i : Nat)
    (h : i < (v.rawLevels c e).length) : (v.rawLevels c e)[i]? = some (v.newLevel c e i) := by
  have h2 := List.getElem?_eq_getElem h
  rw [h2]; congr 1
  exact Version.rawLevels_getElem? c v e i _ h2

theorem mem_takeWhile_imp' {α : Type} (p : α → Bool) (l : List α) : ∀ x ∈ l.takeWhile p, p x = true := by
  induction l with
  | nil => intro x hx; cases hx
  | cons y ys ih =>
    intro x hx
    rw [List.takeWhile_cons] at hx
    split at hx
    · rcases List.mem_cons.1 hx with rfl | hx
      · assumption
      · exact ih x hx
    · cases hx

theorem trimLevels_prefix (ls : List Level) :
    ∃ t, ls = trimLevels ls ++ t ∧ ∀ l ∈ t, l = [] := by
  refine ⟨(ls.reverse.takeWhile (·.isEmpty)).reverse, ?_, ?_⟩
  · unfold trimLevels
    rw [← List.reverse_append, List.takeWhile_append_dropWhile, List.reverse_reverse]
  · intro l hl'
    rw [List.mem_reverse] at hl'
    have := mem_takeWhile_imp' _ _ l hl'
    simpa using this

theorem Version.apply_lvl (c : UCmp) (v : Version) (e : Edit) (i : Nat) :
    (v.apply c e).lvl i = v.newLevel c e i := by
  obtain ⟨t, ht, hempty⟩ := trimLevels_prefix (v.rawLevels c e)
  have hlev : (v.apply c e).levels = trimLevels (v.rawLevels c e) := rfl
  unfold Version.lvl
  rw [hlev]
  by_cases hi : i < (trimLevels (v.rawLevels c e)).length
  · have h1 : (v.rawLevels c e)[i]? = (trimLevels (v.rawLevels c e))[i]? := by
      conv => lhs; rw [ht]
      rw [List.getElem?_append_left hi]
    have h2 := List.getElem?_eq_getElem hi
    rw [h2] at h1
    rw [h2, Option.getD_some]
    exact Version.rawLevels_getElem? c v e i _ h1
  · rw [List.getElem?_eq_none (by omega), Option.getD_none]
    by_cases hi2 : i < (v.rawLevels c e).length
    · have h1 := Version.rawLevels_getElem?_lt c v e i hi2
      have h3 : (v.rawLevels c e)[i]? = t[i - (trimLevels (v.rawLevels c e)).length]? := by
        conv => lhs; rw [ht]
        rw [List.getElem?_append_right (by omega)]
      rw [h1] at h3
      exact (hempty _ (List.mem_of_getElem? h3.symm)).symm
    · exact (Version.newLevel_beyond c v e i (by omega)).symm

/-! ## membership in the new levels -/

theorem mem_insertByKey (c : UCmp) (t x : Table) (l : Level) : x ∈ insertByKey c t l ↔ x = t ∨ x ∈ l := by
  induction l with
  | nil => simp [insertByKey]
  | cons y ys ih =>
    simp only [insertByKey]
    split
    · simp
    · split
      · simp
      · simp only [List.mem_cons, ih]; constructor <;> rintro (h | h | h) <;> simp [h]
    · simp only [List.mem_cons, ih]; constructor <;> rintro (h | h | h) <;> simp [h]

theorem mem_insertByNumDesc (t x : Table) (l : Level) : x ∈ insertByNumDesc t l ↔ x = t ∨ x ∈ l := by
  induction l with
  | nil => simp [insertByNumDesc]
  | cons y ys ih =>
    simp only [insertByNumDesc]
    split
    · simp
    · simp only [List.mem_cons, ih]; constructor <;> rintro (h | h | h) <;> simp [h]

theorem mem_foldl_insert (c : UCmp) (i : Nat) (ps : List (Nat × Table)) (l : Level) (x : Table) :
    x ∈ ps.foldl (fun acc (p : Nat × Table) =>
      if i = 0 then insertByNumDesc p.2 acc else insertByKey c p.2 acc) l ↔ x ∈ l ∨ ∃ p ∈ ps, p.2 = x := by
  induction ps generalizing l with
  | nil => simp
  | cons p ps ih =>
    rw [List.foldl_cons, ih]
    by_cases h0 : i = 0
    · simp only [h0, if_true, mem_insertByNumDesc, List.mem_cons, exists_eq_or_imp]
      constructor
      · rintro ((h | h) | h)
        · exact .inr (.inl h.symm)
        · exact .inl h
        · exact .inr (.inr h)
      · rintro (h | h | h)
        · exact .inl (.inr h)
        · exact .inl (.inl h.symm)
        · exact .inr h
    · simp only [h0, if_false, mem_insertByKey, List.mem_cons, exists_eq_or_imp]
      constructor
      · rintro ((h | h) | h)
        · exact .inr (.inl h.symm)
        · exact .inl h
        · exact .inr (.inr h)
      · rintro (h | h | h)
        · exact .inl (.inr h)
        · exact .inl (.inl h.symm)
        · exact .inr h

theorem Edit.mem_addAt (c : UCmp) (e : Edit) (i : Nat) (l : Level) (x : Table) :
    x ∈ e.addAt c i l ↔ x ∈ l ∨ (i, x) ∈ e.added := by
  unfold Edit.addAt
  rw [mem_foldl_insert]
  constructor
  · rintro (h | ⟨p, hp, rfl⟩)
    · exact .inl h
    · rw [List.mem_filter] at hp
      have : p.1 = i := by simpa using hp.2
      exact .inr (by rw [← this]; exact hp.1)
  · rintro (h | h)
    · exact .inl h
    · exact .inr ⟨(i, x), List.mem_filter.2 ⟨h, by simp⟩, rfl⟩

theorem Edit.mem_delAt (e : Edit) (i : Nat) (l : Level) (x : Table) :
    x ∈ e.delAt i l ↔ x ∈ l ∧ (i, x.num) ∉ e.deleted := by
  unfold Edit.delAt
  rw [List.mem_filter]
  apply and_congr_right
  intro _
  simp only [Bool.not_eq_true', List.any_eq_false, Bool.and_eq_true, decide_eq_true_eq, not_and]
  constructor
  · intro h hmem
    exact h (i, x.num) hmem rfl rfl
  · rintro h ⟨lv, n⟩ hmem rfl rfl
    exact h hmem

theorem Version.mem_survivors (v : Version) (e : Edit) (i : Nat) (x : Table) :
    x ∈ v.survivors e i ↔ x ∈ v.lvl i ∧ (i, x.num) ∉ e.deleted := Edit.mem_delAt e i _ x

theorem Version.mem_newLevel (c : UCmp) (v : Version) (e : Edit) (i : Nat) (x : Table) :
    x ∈ v.newLevel c e i ↔ x ∈ v.survivors e i ∨ (i, x) ∈ e.added := Edit.mem_addAt c e i _ x

/-! ## `insertByKey` keeps a disjoint level disjoint -/

section insert
variable {c : UCmp} (hl : LawfulUCmp c)
include hl

theorem icmp_lt_ule {a b : IKey} (h : icmp c a b = .lt) : c.le a.ukey b.ukey := by
  rcases (icmp_order hl a b).1 h with h | ⟨h, _⟩
  · exact ule_of_ult hl h
  · rw [h]; exact ule_refl hl _

theorem tlt_trans_le {a b d : Table} (hb : c.le b.imin.ukey b.imax.ukey) (h1 : tlt c a b) (h2 : tlt c b d) :
    tlt c a d := ult_trans hl h1 (ult_of_ule_of_ult hl hb h2)

theorem insertByKey_pairwise (t : Table) (l : Level) (hp : l.Pairwise (tlt c))
    (ht : c.le t.imin.ukey t.imax.ukey) (hle : ∀ x ∈ l, c.le x.imin.ukey x.imax.ukey)
    (hcmp : ∀ x ∈ l, tlt c t x ∨ tlt c x t) : (insertByKey c t l).Pairwise (tlt c) := by
  induction l with
  | nil => simp [insertByKey]
  | cons x xs ih =>
    obtain ⟨hx, hxs⟩ := List.pairwise_cons.1 hp
    have hxle := hle x (by simp)
    have ih' := ih hxs (fun y hy => hle y (List.mem_cons_of_mem _ hy))
      (fun y hy => hcmp y (List.mem_cons_of_mem _ hy))
    have before : tlt c t x → (t :: x :: xs).Pairwise (tlt c) := by
      intro htx
      refine List.pairwise_cons.2 ⟨?_, hp⟩
      intro y hy
      rcases List.mem_cons.1 hy with rfl | hy
      · exact htx
      · exact tlt_trans_le hl hxle htx (hx y hy)
    have after : tlt c x t → (x :: insertByKey c t xs).Pairwise (tlt c) := by
      intro hxt
      refine List.pairwise_cons.2 ⟨?_, ih'⟩
      intro y hy
      rcases (mem_insertByKey c t y xs).1 hy with rfl | hy
      · exact hxt
      · exact hx y hy
    simp only [insertByKey]
    split
    · rename_i hlt
      -- `t.imin < x.imin`: `x` cannot lie before `t`
      rcases hcmp x (by simp) with h | h
      · exact before h
      · exfalso
        have h1 := icmp_lt_ule hl hlt
        exact ult_irrefl hl _ (ult_of_ule_of_ult hl (ule_trans hl h1 hxle) h)
    · rename_i heq
      exfalso
      have := (icmp_eq_iff hl _ _).1 heq
      rcases hcmp x (by simp) with h | h
      · unfold tlt at h; rw [← this] at h
        exact ult_irrefl hl _ (ult_of_ule_of_ult hl ht h)
      · unfold tlt at h; rw [this] at h
        exact ult_irrefl hl _ (ult_of_ule_of_ult hl hxle h)
    · rename_i hgt
      have hlt := (icmp_gt_iff hl _ _).1 hgt
      rcases hcmp x (by simp) with h | h
      · exfalso
        have h1 := icmp_lt_ule hl hlt
        exact ult_irrefl hl _ (ult_of_ule_of_ult hl (ule_trans hl h1 ht) h)
      · exact after h

theorem foldl_insertByKey_pairwise (i : Nat) (hi : i ≠ 0) (ps : List (Nat × Table)) (l : Level)
    (hp : l.Pairwise (tlt c)) (hle : ∀ x ∈ l, c.le x.imin.ukey x.imax.ukey)
    (hple : ∀ p ∈ ps, c.le p.2.imin.ukey p.2.imax.ukey)
    (hcmp : ∀ p ∈ ps, ∀ x ∈ l, tlt c p.2 x ∨ tlt c x p.2)
    (hpp : ps.Pairwise (fun p q => tlt c p.2 q.2 ∨ tlt c q.2 p.2)) :
    (ps.foldl (fun acc (p : Nat × Table) =>
      if i = 0 then insertByNumDesc p.2 acc else insertByKey c p.2 acc) l).Pairwise (tlt c) := by
  induction ps generalizing l with
  | nil => exact hp
  | cons p ps ih =>
    obtain ⟨hp1, hp2⟩ := List.pairwise_cons.1 hpp
    rw [List.foldl_cons, if_neg hi]
    apply ih
    · exact insertByKey_pairwise hl p.2 l hp (hple p (by simp)) hle (hcmp p (by simp))
    · intro x hx
      rcases (mem_insertByKey c p.2 x l).1 hx with rfl | hx
      · exact hple p (by simp)
      · exact hle x hx
    · exact fun q hq => hple q (List.mem_cons_of_mem _ hq)
    · intro q hq x hx
      rcases (mem_insertByKey c p.2 x l).1 hx with rfl | hx
      · exact (hp1 q hq).symm
      · exact hcmp q (List.mem_cons_of_mem _ hq) x hx
    · exact hp2

end insert

/-! ## a generic sufficient condition -/

/-- what an edit must satisfy, relative to the version it is applied to, to keep it well formed -/
structure EditOK (c : UCmp) (v : Version) (e : Edit) : Prop where
  added_wf : ∀ p ∈ e.added, p.2.wfB c = true
  /-- an added table at a level ≥ 1 overlaps no surviving table of that level … -/
  disj : ∀ p ∈ e.added, 1 ≤ p.1 → ∀ x ∈ v.survivors e p.1, tlt c p.2 x ∨ tlt c x p.2
  /-- … and no other table added to the same level -/
  disj_added : e.added.Pairwise (fun p q => p.1 = q.1 → 1 ≤ p.1 → tlt c p.2 q.2 ∨ tlt c q.2 p.2)
  ord_below : ∀ p ∈ e.added, ∀ j, p.1 < j → NewerThan p.2.entries (Level.entries (v.survivors e j))
  ord_above : ∀ p ∈ e.added, ∀ i, i < p.1 → NewerThan (Level.entries (v.survivors e i)) p.2.entries
  ord_added : ∀ p ∈ e.added, ∀ q ∈ e.added, p.1 < q.1 → NewerThan p.2.entries q.2.entries

theorem Level.mem_entries {l : Level} {x : Entry} : x ∈ Level.entries l ↔ ∃ t ∈ l, x ∈ t.entries := by
  simp [Level.entries, List.mem_flatMap]

theorem apply_wf {c : UCmp} (hl : LawfulUCmp c) (v : Version) (e : Edit) (hv : v.wfB c = true)
    (he : EditOK c v e) : (v.apply c e).wfB c = true := by
  have hw := (Version.wfB_iff_WFi hl v).1 hv
  rw [Version.wfB_iff_WFi hl]
  have hsurv : ∀ i x, x ∈ v.survivors e i → x ∈ v.lvl i := fun i x hx => ((v.mem_survivors e i x).1 hx).1
  refine ⟨?_, ?_, ?_⟩
  · intro i t ht
    rw [Version.apply_lvl, Version.mem_newLevel] at ht
    rcases ht with ht | ht
    · exact hw.tables i t (hsurv i t ht)
    · exact he.added_wf _ ht
  · intro i hi
    rw [Version.apply_lvl]
    unfold Version.newLevel Edit.addAt
    have hsp : (v.survivors e i).Pairwise (tlt c) := (hw.disjoint i hi).filter _
    apply foldl_insertByKey_pairwise hl i (by omega) _ _ hsp
    · exact fun x hx => Table.wf_imin_le_imax hl (hw.tables i x (hsurv i x hx))
    · intro p hp
      exact Table.wf_imin_le_imax hl (he.added_wf p (List.mem_filter.1 hp).1)
    · intro p hp x hx
      obtain ⟨hp1, hp2⟩ := List.mem_filter.1 hp
      have hpi : p.1 = i := by simpa using hp2
      exact he.disj p hp1 (by omega) x (by rw [hpi]; exact hx)
    · refine List.Pairwise.imp_of_mem ?_ (he.disj_added.filter _)
      intro p q hp hq h
      have hpi : p.1 = i := by simpa using (List.mem_filter.1 hp).2
      have hqi : q.1 = i := by simpa using (List.mem_filter.1 hq).2
      exact h (hpi.trans hqi.symm) (by omega)
  · intro i j hij a ha b hb hk
    rw [Version.apply_lvl, Level.mem_entries] at ha hb
    obtain ⟨ta, hta, hata⟩ := ha
    obtain ⟨tb, htb, hbtb⟩ := hb
    rw [Version.mem_newLevel] at hta htb
    rcases hta with hta | hta <;> rcases htb with htb | htb
    · exact hw.ordered i j hij a (Level.mem_entries.2 ⟨ta, hsurv i ta hta, hata⟩) b
        (Level.mem_entries.2 ⟨tb, hsurv j tb htb, hbtb⟩) hk
    · exact he.ord_above (j, tb) htb i hij a (Level.mem_entries.2 ⟨ta, hta, hata⟩) b hbtb hk
    · exact he.ord_below (i, ta) hta j hij a hata b (Level.mem_entries.2 ⟨tb, htb, hbtb⟩) hk
    · exact he.ord_added (i, ta) hta (j, tb) htb hij a hata b hbtb hk

end GoLevel
