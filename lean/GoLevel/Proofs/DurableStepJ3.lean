import GoLevel.Proofs.DurableStepJ2
/-!
Job steps, part 3: the obligations of the edit (`EditOK`) follow from the phase facts at the moment of the
commit — for a memdb flush from `RunOK`, for the commits of a recovery from `RecOK`.
-/
namespace GoLevel.Dur

/-- the last view of the current manifest, with everything known about it -/
theorem DiskOK.last {cfg : Cfg} {d : Disk} {must issued : List Grp} (hd : DiskOK cfg d must issued) :
    ∃ mf v0 v, DiskOK.Parts cfg d must issued mf v0 ∧ lastView cfg d = some v ∧
      viewAt cfg mf mf.unsynced.length = some v ∧ ViewOK d must issued v ∧ v0.jn ≤ v.jn := by
  obtain ⟨mf, v0, hparts⟩ := hd.parts
  obtain ⟨v, hv, hok, hmono⟩ := hparts.views mf.unsynced.length (Nat.le_refl _)
  exact ⟨mf, v0, v, hparts, by rw [lastView_eq hparts.cur]; exact hv, hv, hok, hmono⟩

/-- facts about the groups of a journal file that the last view still replays -/
theorem rel_file_facts {cfg : Cfg} {d : Disk} {must issued : List Grp} (hd : DiskOK cfg d must issued)
    {v : MView} (hv : lastView cfg d = some v) {p : Nat × LogFile Grp} (hp : p ∈ d.journals) (hjn : v.jn ≤ p.1) :
    AscFrom 0 p.2.all ∧ (∀ g ∈ p.2.all, g ∈ issued ∧ (v.sq ≤ g.seq ∨ g ∉ must)) ∧
    (∀ h ∈ liveGrps d v, ∀ g ∈ p.2.all, Disj h g) ∧
    (∀ q ∈ d.journals, p.1 < q.1 → ∀ g ∈ p.2.all, ∀ g' ∈ q.2.all, g.fin ≤ g'.seq) := by
  obtain ⟨mf, v0, v', hparts, hlv, _, hok, hmono⟩ := hd.last
  rw [hv] at hlv
  cases hlv
  have hpr : p ∈ relJournals d v.jn := mem_relJournals.2 ⟨hp, hjn⟩
  refine ⟨hparts.jasc p (relJournals_mono hmono hpr), fun g hg => ?_, fun h hh g hg => hok.tj h hh p hpr g hg,
    fun q hq hlt => hparts.jord p (relJournals_mono hmono hpr) q
      (mem_relJournals.2 ⟨hq, by have := (mem_relJournals.1 (relJournals_mono hmono hpr)).2; omega⟩) hlt⟩
  obtain ⟨a, b⟩ := hok.jseq p hpr g hg
  exact ⟨b, a⟩

/-- a view the session mirrors, with everything the derivation of `EditOK` wants of it; it is the last view of the
    manifest, or — while the storage is ahead of the session by the edit of a discarded transaction — that view
    without the transaction's table -/
structure BaseView (cfg : Cfg) (s : St) (d : Disk) (v : MView) : Prop where
  mir : Mirror s v
  ok : ViewOK d (must s) (issuedGrps s) v
  jasc : ∀ p ∈ d.journals, v.jn ≤ p.1 → AscFrom 0 p.2.all
  jord : ∀ p ∈ d.journals, v.jn ≤ p.1 → ∀ q ∈ d.journals, p.1 < q.1 →
    ∀ g ∈ p.2.all, ∀ g' ∈ q.2.all, g.fin ≤ g'.seq
  sq : v.sq ≤ s.seq
  nf : v.nf ≤ s.nextFile
  jn : s.phase = .running → v.jn ≤ s.jcur
  fresh : Holds' s.job fun j => ∀ o ∈ j.outs, v.nf ≤ o.1
  rel : s.phase = .running → ∀ p ∈ d.journals, v.jn ≤ p.1 → p.1 = s.jcur ∨ some p.1 = s.jfrozen ∨ Stale s p.2

/-- facts about the groups of a journal file that a base view still replays -/
theorem BaseView.file_facts {cfg : Cfg} {s : St} {d : Disk} {v : MView} (hb : BaseView cfg s d v)
    {p : Nat × LogFile Grp} (hp : p ∈ d.journals) (hjn : v.jn ≤ p.1) :
    AscFrom 0 p.2.all ∧ (∀ g ∈ p.2.all, g ∈ issuedGrps s ∧ (v.sq ≤ g.seq ∨ g ∉ must s)) ∧
    (∀ h ∈ liveGrps d v, ∀ g ∈ p.2.all, Disj h g) ∧
    (∀ q ∈ d.journals, p.1 < q.1 → ∀ g ∈ p.2.all, ∀ g' ∈ q.2.all, g.fin ≤ g'.seq) := by
  have hpr : p ∈ relJournals d v.jn := mem_relJournals.2 ⟨hp, hjn⟩
  refine ⟨hb.jasc p hp hjn, fun g hg => ?_, fun h hh g hg => hb.ok.tj h hh p hpr g hg, hb.jord p hp hjn⟩
  obtain ⟨a, b⟩ := hb.ok.jseq p hpr g hg
  exact ⟨b, a⟩

/-- without a ghost edit the last view of the manifest is a base view, for a job before its commit -/
theorem Inv.baseView {cfg : Cfg} {s : St} {d : Disk} (h : Inv cfg s d) {j : Job} (hj : s.job = some j)
    (hbc : j.pc.beforeCommit = true) (hl : s.limbo = none) (hmir : Holds (lastView cfg d) (Mirror s)) :
    ∃ mf v0 v, DiskOK.Parts cfg d (must s) (issuedGrps s) mf v0 ∧ lastView cfg d = some v ∧
      viewAt cfg mf mf.unsynced.length = some v ∧ v0.jn ≤ v.jn ∧ BaseView cfg s d v := by
  obtain ⟨mf, v0, v, hparts, hv, hvl, hvok, hmono⟩ := h.disk.last
  have hph := h.not_crashed hj
  have hb := h.bounds hph
  have hbv := hb.all mf hparts.cur _ (Nat.le_refl _) v hvl
  rw [seqHi_eq (not_trWindow_of_bc hj hbc hl)] at hbv
  have hok := h.job
  rw [hj] at hok
  have hok : JobOK cfg s d j := hok
  rw [hv] at hmir
  refine ⟨mf, v0, v, hparts, hv, hvl, hmono, hmir, hvok, ?_, ?_, hbv.1, hbv.2.1, hbv.2.2, ?_, ?_⟩
  · intro p hp hge
    exact hparts.jasc p (mem_relJournals.2 ⟨hp, Nat.le_trans hmono hge⟩)
  · intro p hp hge q hq hlt
    exact hparts.jord p (mem_relJournals.2 ⟨hp, Nat.le_trans hmono hge⟩) q
      (mem_relJournals.2 ⟨hq, by have := Nat.le_trans hmono hge; omega⟩) hlt
  · rw [hj]
    intro o ho
    have hf := holds_some (holds_some (hok.fresh.2 hbc) hparts.cur _ (Nat.le_refl _)) hvl
    rcases hf.1 o ho with h0 | h0
    · exact h0
    · rw [hl] at h0; exact absurd h0.2.1 (by simp)
  · intro hr p hp hge
    have r1 := holds_some (h.run hr).rel hparts.cur
    have r2 := holds_some r1 hparts.hv0
    exact r2 p hp (Nat.le_trans hmono hge)

theorem Inv.editOK_flush {cfg : Cfg} {s : St} {d : Disk} (h : Inv cfg s d) {j : Job} (hj : s.job = some j)
    (hk : j.kind = .flush) {e : MRec} (he : j.edit = some e) (hbc : j.pc.beforeCommit = true)
    {v : MView} (hbase : BaseView cfg s d v) : EditOK s d j e v := by
  have hok := h.job
  rw [hj] at hok
  have hkind := hok.kind
  unfold JobKindOK at hkind
  rw [hk] at hkind
  simp only at hkind
  obtain ⟨hph, hkind⟩ := hkind
  have hrun := h.run hph
  have hnc : NoCommitYet s := by unfold NoCommitYet; rw [hj]; exact hbc
  rcases frozenOK_iff.1 hrun.frozen with ⟨h1, _⟩ | ⟨fz, jf, h1, h2, f1, f2, f3, f4, f5, f6⟩
  · rw [h1] at hkind; simp at hkind
  rw [h1, h2, he] at hkind
  simp only at hkind
  obtain ⟨houts, hejn, hesq, hrm, hmk, hfzne⟩ := hkind
  obtain ⟨⟨pf, hpf, hpfn⟩, hlv⟩ := f6 hnc.flushPending
  obtain ⟨m1, m2, m3⟩ := hbase.mir
  obtain ⟨hvjn, hvsq⟩ : v.jn ≤ jf ∧ v.sq ≤ s.frozenSeq := by rw [m2, m3]; exact hlv
  have hog : outsGrps j = fz := by simp [outsGrps, houts]
  obtain ⟨h5a, _, _, _⟩ := f5 pf hpf hpfn
  obtain ⟨hasc, hiss, hlive, _⟩ := hbase.file_facts hpf (by rw [hpfn]; exact hvjn)
  have hjn0 : e.jn.getD v.jn = s.jcur := by rw [hejn]; rfl
  have hsq0 : e.sq.getD v.sq = s.frozenSeq := by rw [hesq]; rfl
  have hcap : sqCap s j = s.seq := by unfold sqCap; rw [if_neg (by rw [hk]; exact fun hx => nomatch hx)]
  constructor
  · have x := hok.shape; rw [he] at x; exact x
  · have x := hok.inputs; rw [he] at x
    have x : InputsOK s d j e := x
    unfold InputsOK at x
    rw [if_neg (by rw [hk]; decide)] at x
    rw [x.1]
    simp
  · rw [hjn0, hog]
    intro p hp hge hlt g hg
    intro hgm
    rcases hbase.rel hph p hp hge with h3 | h3 | h3
    · omega
    · rw [h2] at h3
      cases h3
      exact (f5 p hp rfl).2.1 g hg hgm
    · exact absurd hgm (h3.1 g hg).1
  · rw [hsq0, hog]
    intro g hg
    have hgp := h5a g hg
    refine ⟨f3 g hg, (hiss g hgp).1, hasc.recs_ne hgp, fun x hx => (hlive x hx g hgp).symm,
      fun x hx => hasc.disj hgp (h5a x hx)⟩
  · rw [hjn0, hsq0, hog]
    intro p hp hge g hg
    rcases hrun.jmax.2 p hp with hle | hemp
    · have hpe : p.1 = s.jcur := Nat.le_antisymm hle hge
      have := f4 p hp hpe g hg
      refine ⟨Or.inl (Nat.le_of_lt this), fun x hx => Or.inr (Or.inl ?_)⟩
      have := f3 x hx
      omega
    · rw [hemp] at hg; cases hg
  · rw [hjn0, hsq0, hcap]
    have hjl : s.jcur < s.nextFile := hrun.jmax.1
    exact ⟨hbase.jn hph, hvsq, f2, fun _ => Nat.le_refl _, hjl⟩
  · intro o ho
    have hf := hbase.fresh
    rw [hj] at hf
    exact ⟨hf o ho, hok.fresh.1 o ho⟩


/-- the recovery memdb as the content of the outputs -/
theorem outsGrps_mdb {j : Job} {r : Recov} (h : j.outs = [] ∧ r.mdb = [] ∨ j.outs = [(j.outs.head?.map (·.1) |>.getD 0, r.mdb)]) :
    outsGrps j = r.mdb := by
  rcases h with ⟨h1, h2⟩ | h1
  · simp [outsGrps, h1, h2]
  · unfold outsGrps; rw [h1]; simp

theorem Inv.editOK_recovMid {cfg : Cfg} {s : St} {d : Disk} (h : Inv cfg s d) {j : Job} (hj : s.job = some j)
    (hk : j.kind = .recovMid) {e : MRec} (he : j.edit = some e) (hbc : j.pc.beforeCommit = true) :
    ∃ v, lastView cfg d = some v ∧ EditOK s d j e v := by
  have hok := h.job
  rw [hj] at hok
  have hkind := hok.kind
  unfold JobKindOK at hkind
  rw [hk] at hkind
  simp only at hkind
  obtain ⟨hph, hmk, hkind⟩ := hkind
  have hrec := h.recov hph
  have hb := h.bounds (by rw [hph]; decide)
  have hnc : NoCommitYet s := by unfold NoCommitYet; rw [hj]; exact hbc
  rw [holds_iff] at hrec hkind
  obtain ⟨r, hr, hrec⟩ := hrec
  obtain ⟨r', hr', hkind⟩ := hkind
  rw [hr] at hr'; cases hr'
  rw [holds_iff] at hkind
  obtain ⟨o, ho, hrm, houts, hkind⟩ := hkind
  rw [holds_iff] at hkind
  obtain ⟨n, hn, hkind⟩ := hkind
  rw [he] at hkind
  obtain ⟨hejn, hesq⟩ : e.jn = some n ∧ e.sq = some s.seq := hkind
  obtain ⟨mf, v0, v, hparts, hv, hvl, hvok, hmono⟩ := h.disk.last
  have hcur := hparts.cur
  have hmdb := hrec.mdb
  unfold MdbOK at hmdb
  rw [ho] at hmdb
  simp only at hmdb
  obtain ⟨m1, m2, m3⟩ := hmdb
  have hview := hrec.view hnc
  unfold Settled at hview
  have hview := (holds_some hview hcur).2
  rw [hv] at hview
  obtain ⟨_, hvo⟩ : Mirror s v ∧ ∀ o, r.ofd = some o → v.jn ≤ o := hview
  have hvjo := hvo o ho
  have hrel := hrec.rel
  rw [hv] at hrel
  have hrel : ∀ p ∈ d.journals, v.jn ≤ p.1 → p.1 ∈ r.todo ∨ some p.1 = r.ofd ∨ p.2.all = [] := hrel.1
  have hog := outsGrps_mdb houts
  have hmf : ∀ g ∈ r.mdb, g ∈ issuedGrps s ∧ g.recs ≠ [] ∧ (∀ x ∈ liveGrps d v, Disj g x) ∧
      (∀ x ∈ r.mdb, Disj g x) ∧
      ∀ q ∈ d.journals, o < q.1 → ∀ g' ∈ q.2.all, g.fin ≤ g'.seq := by
    rcases (m3 hnc).1 with ⟨pf, hpf, hpfn⟩ | hemp
    · obtain ⟨hasc, hiss, hlive, hord⟩ := rel_file_facts h.disk hv hpf (by rw [hpfn]; exact hvjo)
      have hsub := (m1 pf hpf hpfn).1
      exact fun g hg => ⟨(hiss g (hsub g hg)).1, hasc.recs_ne (hsub g hg), fun x hx => (hlive x hx g (hsub g hg)).symm,
        fun x hx => hasc.disj (hsub g hg) (hsub x hx),
        fun q hq hlt g' hg' => hord q hq (by rw [hpfn]; exact hlt) g (hsub g hg) g' hg'⟩
    · rw [hemp]; intro g hg; cases hg
  have hjn0 : e.jn.getD v.jn = n := by rw [hejn]; rfl
  have hsq0 : e.sq.getD v.sq = s.seq := by rw [hesq]; rfl
  have hbv := hb.all mf hcur _ (Nat.le_refl _) v hvl
  rw [seqHi_eq (not_trWindow_of_bc hj hbc hrec.idle.2.2.2)] at hbv
  have hcap : sqCap s j = s.seq := by unfold sqCap; rw [if_neg (by rw [hk]; exact fun hx => nomatch hx)]
  -- the head of the todo list
  obtain ⟨rest, htodo⟩ : ∃ rest, r.todo = n :: rest := by
    cases ht : r.todo with
    | nil => rw [ht] at hn; cases hn
    | cons x xs => rw [ht] at hn; cases hn; exact ⟨xs, rfl⟩
  have hnmin : ∀ x ∈ r.todo, n ≤ x := by
    intro x hx
    have hs := hrec.todoSorted
    rw [htodo] at hs hx
    rw [List.pairwise_cons] at hs
    rcases List.mem_cons.1 hx with rfl | hx'
    · exact Nat.le_refl _
    · exact Nat.le_of_lt (hs.1 x hx')
  have hon : o < n := hrec.ofdLt o ho n (by rw [htodo]; exact List.mem_cons_self)
  refine ⟨v, hv, ?_⟩
  constructor
  · have x := hok.shape; rw [he] at x; exact x
  · have x := hok.inputs; rw [he] at x
    have x : InputsOK s d j e := x
    unfold InputsOK at x
    rw [if_neg (by rw [hk]; decide)] at x
    rw [x.1]
    simp
  · rw [hjn0, hog]
    intro p hp hge hlt g hg
    rcases hrel p hp hge with h3 | h3 | h3
    · have := hnmin p.1 h3; omega
    · rw [ho] at h3
      cases h3
      intro hgm
      exact ((m1 p hp rfl).2 g hg).resolve_right (fun x => x hgm)
    · rw [h3] at hg; cases hg
  · rw [hsq0, hog]
    intro g hg
    obtain ⟨a, b, c, e', _⟩ := hmf g hg
    exact ⟨by have := m2 g hg; omega, a, b, c, e'⟩
  · rw [hjn0, hsq0, hog]
    intro p hp hge g hg
    rcases hrel p hp (by omega) with h3 | h3 | h3
    · have := hrec.todoSeq p hp h3 g hg
      refine ⟨this, fun x hx => Or.inr (Or.inl ?_)⟩
      exact (hmf x hx).2.2.2.2 p hp (by omega) g hg
    · rw [ho] at h3; cases h3; omega
    · rw [h3] at hg; cases hg
  · rw [hjn0, hsq0, hcap]
    exact ⟨by omega, hbv.1, Nat.le_refl _, (fun hr => by rw [hph] at hr; cases hr),
      hrec.nums.2.2 n (by rw [htodo]; exact List.mem_cons_self)⟩
  · intro o' ho'
    have hf := hok.fresh
    refine ⟨?_, hf.1 o' ho'⟩
    exact ((holds_some (holds_some (hf.2 hbc) hcur _ (Nat.le_refl _)) hvl).1 o' ho').resolve_right
      (fun x => by rw [hrec.idle.2.2.2] at x; exact absurd x.2.1 (by simp))


theorem Inv.editOK_recovFinal {cfg : Cfg} {s : St} {d : Disk} (h : Inv cfg s d) {j : Job} (hj : s.job = some j)
    (hk : j.kind = .recovFinal) {e : MRec} (he : j.edit = some e) (hbc : j.pc.beforeCommit = true)
    (hpc : j.pc ≠ .mkJournal ∧ j.pc.tablesDone = true) :
    ∃ v, lastView cfg d = some v ∧ EditOK s d j e v := by
  have hok := h.job
  rw [hj] at hok
  have hkind := hok.kind
  unfold JobKindOK at hkind
  rw [hk] at hkind
  simp only at hkind
  obtain ⟨hph, hkind⟩ := hkind
  have hrec := h.recov hph
  have hb := h.bounds (by rw [hph]; decide)
  have hnc : NoCommitYet s := by unfold NoCommitYet; rw [hj]; exact hbc
  rw [holds_iff] at hrec hkind
  obtain ⟨r, hr, hrec⟩ := hrec
  obtain ⟨r', hr', htodo, _, houts, hkind⟩ := hkind
  rw [hr] at hr'; cases hr'
  rw [holds_iff] at hkind
  obtain ⟨n, hn, hkind⟩ := hkind
  rw [he] at hkind
  obtain ⟨hejn, hesq⟩ : e.jn = some n ∧ e.sq = some s.seq := hkind
  obtain ⟨mf, v0, v, hparts, hv, hvl, hvok, hmono⟩ := h.disk.last
  have hcur := hparts.cur
  have hmkj := hok.mkj
  unfold MkJournalOK at hmkj
  rw [hn] at hmkj
  simp only at hmkj
  rw [if_neg (by rintro (h1 | h1); exact hpc.1 h1; rw [hpc.2] at h1; cases h1)] at hmkj
  obtain ⟨hnlt, hjc, _, hjall⟩ := hmkj
  have hrel := hrec.rel
  rw [hv] at hrel
  have hrel : ∀ p ∈ d.journals, v.jn ≤ p.1 → p.1 ∈ r.todo ∨ some p.1 = r.ofd ∨ p.2.all = [] := hrel.1
  have hog := outsGrps_mdb houts
  have hjn0 : e.jn.getD v.jn = n := by rw [hejn]; rfl
  have hsq0 : e.sq.getD v.sq = s.seq := by rw [hesq]; rfl
  have hbv := hb.all mf hcur _ (Nat.le_refl _) v hvl
  rw [seqHi_eq (not_trWindow_of_bc hj hbc hrec.idle.2.2.2)] at hbv
  have hcap : sqCap s j = s.seq := by unfold sqCap; rw [if_neg (by rw [hk]; exact fun hx => nomatch hx)]
  have hf := hok.fresh
  have hfv := holds_some (holds_some (hf.2 hbc) hcur _ (Nat.le_refl _)) hvl
  have hmdb := hrec.mdb
  unfold MdbOK at hmdb
  refine ⟨v, hv, ?_⟩
  constructor
  · have x := hok.shape; rw [he] at x; exact x
  · have x := hok.inputs; rw [he] at x
    have x : InputsOK s d j e := x
    unfold InputsOK at x
    rw [if_neg (by rw [hk]; decide)] at x
    rw [x.1]
    simp
  · rw [hjn0, hog]
    intro p hp hge hlt g hg
    rcases hrel p hp hge with h3 | h3 | h3
    · rw [htodo] at h3; cases h3
    · cases ho : r.ofd with
      | none => rw [ho] at h3; cases h3
      | some o =>
        rw [ho] at h3 hmdb
        cases h3
        simp only at hmdb
        intro hgm
        exact ((hmdb.1 p hp rfl).2 g hg).resolve_right (fun x => x hgm)
    · rw [h3] at hg; cases hg
  · rw [hsq0, hog]
    intro g hg
    cases ho : r.ofd with
    | none => rw [ho] at hmdb; simp only at hmdb; rw [hmdb] at hg; cases hg
    | some o =>
      rw [ho] at hmdb
      simp only at hmdb
      obtain ⟨m1, m2, m3⟩ := hmdb
      rcases (m3 hnc).1 with ⟨pf, hpf, hpfn⟩ | hemp
      · have hview := hrec.view hnc
        unfold Settled at hview
        have hview := (holds_some hview hcur).2
        rw [hv] at hview
        obtain ⟨_, hvo⟩ : Mirror s v ∧ ∀ o, r.ofd = some o → v.jn ≤ o := hview
        obtain ⟨hasc, hiss, hlive, _⟩ := rel_file_facts h.disk hv hpf (by rw [hpfn]; exact hvo o ho)
        have hsub := (m1 pf hpf hpfn).1
        exact ⟨by have := m2 g hg; omega, (hiss g (hsub g hg)).1, hasc.recs_ne (hsub g hg),
          fun x hx => (hlive x hx g (hsub g hg)).symm, fun x hx => hasc.disj (hsub g hg) (hsub x hx)⟩
      · rw [hemp] at hg; cases hg
  · rw [hjn0, hsq0, hog]
    intro p hp hge g hg
    rcases hjall p hp with h3 | ⟨_, h3⟩
    · omega
    · rw [h3] at hg; cases hg
  · rw [hjn0, hsq0, hcap]
    have := hfv.2 n hn
    have := hvok.jnf
    exact ⟨by omega, hbv.1, Nat.le_refl _, (fun hr => by rw [hph] at hr; cases hr), hnlt⟩
  · intro o' ho'
    exact ⟨(hfv.1 o' ho').resolve_right (fun x => by rw [hrec.idle.2.2.2] at x; exact absurd x.2.1 (by simp)),
      hf.1 o' ho'⟩

/-- the session mirrors the last view (or lags it by the ghost edit) while the job's edit is neither in the manifest
    nor in a manifest that `CURRENT` names -/
theorem JobOK.mirror_before {cfg : Cfg} {s : St} {d : Disk} {j : Job} (h : JobOK cfg s d j)
    (hbc : j.pc.beforeCommit = true) : Settled cfg s d (MirrorL s) := h.mirror_before' hbc

theorem Inv.editOK_compaction {cfg : Cfg} {s : St} {d : Disk} (h : Inv cfg s d) {j : Job} (hj : s.job = some j)
    (hk : j.kind = .compaction) {e : MRec} (he : j.edit = some e) (hbc : j.pc.beforeCommit = true)
    {v : MView} (hbase : BaseView cfg s d v) : EditOK s d j e v := by
  have hok := h.job
  rw [hj] at hok
  have hok : JobOK cfg s d j := hok
  have hkind := hok.kind
  unfold JobKindOK at hkind
  rw [hk] at hkind
  simp only at hkind
  obtain ⟨hph, hmk, hrmj, _⟩ := hkind
  have hvok := hbase.ok
  have hcap : sqCap s j = s.seq := by unfold sqCap; rw [if_neg (by rw [hk]; exact fun hx => nomatch hx)]
  have hin := hok.inputs
  rw [he] at hin
  have hin : InputsOK s d j e := hin
  unfold InputsOK at hin
  rw [if_pos hk] at hin
  obtain ⟨hejn, hesq, hdel, hdlt, hpre⟩ := hin
  obtain ⟨hdlive, hog⟩ := hpre hbc
  obtain ⟨hvlive, _, _⟩ := hbase.mir
  have hjn0 : e.jn.getD v.jn = v.jn := by rw [hejn]; rfl
  have hsq0 : e.sq.getD v.sq = v.sq := by rw [hesq]; rfl
  have hsub : ∀ g ∈ outsGrps j, g ∈ liveGrps d v := by
    intro g hg
    rw [hog] at hg
    obtain ⟨t, ht, hgt⟩ := List.mem_flatMap.1 hg
    exact List.mem_flatMap.2 ⟨t, by rw [hvlive]; exact hdlive t ht, hgt⟩
  constructor
  · have x := hok.shape; rw [he] at x; exact x
  · exact ⟨fun t ht => by rw [hvlive]; exact hdlive t ht, fun g hg => by rw [hog]; exact hg⟩
  · rw [hjn0]
    intro p _ hge hlt
    omega
  · rw [hsq0]
    intro g hg
    obtain ⟨a, b, c⟩ := hvok.tseq g (hsub g hg)
    exact ⟨a, b, c, fun x hx => hvok.tdisj g (hsub g hg) x hx, fun x hx => hvok.tdisj g (hsub g hg) x (hsub x hx)⟩
  · rw [hjn0, hsq0]
    intro p hp hge g hg
    have hpr : p ∈ relJournals d v.jn := mem_relJournals.2 ⟨hp, hge⟩
    exact ⟨(hvok.jseq p hpr g hg).1, fun x hx => hvok.tj x (hsub x hx) p hpr g hg⟩
  · rw [hjn0, hsq0, hcap]
    have := hvok.jnf
    exact ⟨Nat.le_refl _, Nat.le_refl _, hbase.sq, hbase.jn, by have := hbase.nf; omega⟩
  · intro o ho
    have hf := hbase.fresh
    rw [hj] at hf
    exact ⟨hf o ho, hok.fresh.1 o ho⟩

theorem Inv.editOK_tr {cfg : Cfg} {s : St} {d : Disk} (h : Inv cfg s d) {j : Job} (hj : s.job = some j)
    (hk : j.kind = .tr) {e : MRec} (he : j.edit = some e) (hbc : j.pc.beforeCommit = true)
    {v : MView} (hbase : BaseView cfg s d v) : EditOK s d j e v := by
  have hok := h.job
  rw [hj] at hok
  have hok : JobOK cfg s d j := hok
  have hkind := hok.kind
  unfold JobKindOK at hkind
  rw [hk] at hkind
  simp only at hkind
  obtain ⟨hph, hmk, hrmj, hrmt, hkind⟩ := hkind
  have hrun := h.run hph
  have hvok := hbase.ok
  rw [holds_iff] at hkind
  obtain ⟨g, hg, hkind⟩ := hkind
  rw [he] at hkind
  obtain ⟨hejn, hesq, houts, hgne, hgi⟩ :
    e.jn = none ∧ e.sq = some (g.fin - 1) ∧ j.outs = [(e.added.headD 0, [g])] ∧ g.recs ≠ [] ∧ g ∈ issuedGrps s := hkind
  have htr := hrun.norecov.2
  unfold TrOK at htr
  rw [hg] at htr
  obtain ⟨hw, hmem, hfz, hgs, _⟩ : s.w = .idle ∧ s.mem = [] ∧ s.frozen = none ∧ g.seq = s.seq + 1 ∧ g.sync = true := htr
  have hfin := Grp.seq_lt_fin hgne
  have hcap : sqCap s j = g.fin - 1 := by unfold sqCap; rw [if_pos hk, hg]
  have hjn0 : e.jn.getD v.jn = v.jn := by rw [hejn]; rfl
  have hsq0 : e.sq.getD v.sq = g.fin - 1 := by rw [hesq]; rfl
  have hog : outsGrps j = [g] := by simp [outsGrps, houts]
  have hsq := hbase.sq
  -- every journal the base view would replay holds at most records of failed writes, below the transaction
  have hstale : ∀ p ∈ d.journals, v.jn ≤ p.1 → ∀ x ∈ p.2.all, x ∉ must s ∧ x.fin ≤ s.seq + 1 := by
    intro p hp hge x hx
    rcases hbase.rel hph p hp hge with h3 | h3 | h3
    · have hl := hrun.jcur
      rw [holds_iff] at hl
      obtain ⟨jf, hjf, hall⟩ := hl
      have : lookup d.journals p.1 = some p.2 := lookup_of_mem (sorted_nodup h.disk.jsorted) (by cases p; exact hp)
      rw [h3, hjf] at this
      cases this
      rw [hmem, hw] at hall
      refine ⟨fun hxm => ?_, ?_⟩
      · have := hall.2.1 x hx hxm
        simp [inflight] at this
      · rcases hall.2.2.1 x hx with h4 | h4
        · simp [inflight] at h4
        · exact h4
    · rcases frozenOK_iff.1 hrun.frozen with ⟨_, h4⟩ | ⟨fz, jf, h4, _⟩
      · rw [h4] at h3; cases h3
      · rw [hfz] at h4; cases h4
    · exact h3.1 x hx
  have hin := hok.inputs
  rw [he] at hin
  have hin : InputsOK s d j e := hin
  unfold InputsOK at hin
  rw [if_neg (by rw [hk]; exact fun hx => nomatch hx)] at hin
  constructor
  · have x := hok.shape; rw [he] at x; exact x
  · rw [hin.1]; simp
  · rw [hjn0]
    intro p _ hge hlt
    omega
  · rw [hsq0, hog]
    intro x hx
    simp only [List.mem_singleton] at hx
    subst hx
    refine ⟨by omega, hgi, hgne, fun y hy => ?_, fun y hy => ?_⟩
    · have := (hvok.tseq y hy).1
      exact Or.inr (Or.inr (by omega))
    · simp only [List.mem_singleton] at hy
      exact Or.inl hy.symm
  · rw [hjn0]
    intro p hp hge x hx
    obtain ⟨a, b⟩ := hstale p hp hge x hx
    rw [hog]
    refine ⟨Or.inr a, fun y hy => ?_⟩
    simp only [List.mem_singleton] at hy
    subst hy
    exact Or.inr (Or.inr (by omega))
  · rw [hjn0, hsq0, hcap]
    have := hvok.jnf
    have := hbase.nf
    exact ⟨Nat.le_refl _, by omega, Nat.le_refl _, hbase.jn, by omega⟩
  · intro o ho
    have hf := hbase.fresh
    rw [hj] at hf
    exact ⟨hf o ho, hok.fresh.1 o ho⟩

/-- the output tables are on disk once the table phase is over -/
theorem JobOK.outs_on_disk {cfg : Cfg} {s : St} {d : Disk} {j : Job} (h : JobOK cfg s d j)
    (hbc : j.pc.beforeCommit = true) (htd : j.pc.tablesDone = true) :
    ∀ o ∈ j.outs, lookup d.tables o.1 = some ⟨o.2, true, false⟩ := by
  intro o ho
  obtain ⟨i, hi⟩ := List.getElem?_of_mem ho
  have := h.tables i o hi
  unfold OutOK at this
  split at this
  · rename_i heq; rw [heq] at htd; cases htd
  · rename_i heq; rw [heq] at htd; cases htd
  · rename_i heq; rw [heq] at htd; cases htd
  · have := this hbc
    rw [holds_iff] at this
    obtain ⟨tf, e1, e2⟩ := this
    rw [e1, e2]

end GoLevel.Dur
