import GoLevel.Model.RecoverOps
import GoLevel.Proofs.DurableRead
import GoLevel.Proofs.DurableDisk
/-!
`Recover` at the level of storage operations, part 1: prefixes of operation lists, the table loop as a pure
function, and the invariant of phases 1 and 2 — whatever prefix of `recoverTable`'s operations has been made,
a `Recover` started afterwards reads exactly what the first one read (`TSame`).
-/
namespace GoLevel.Dur
open GoLevel

/-! ## prefixes -/

/-- `r'` is the storage after some prefix of `ops` -/
def Reach (ops : List ROp) (r r' : RDisk) : Prop := ∃ k, r' = r.applyAll (ops.take k)

theorem applyAll_append (r : RDisk) (a b : List ROp) : r.applyAll (a ++ b) = (r.applyAll a).applyAll b := by
  simp [RDisk.applyAll, List.foldl_append]

theorem applyAll_nil (r : RDisk) : r.applyAll [] = r := rfl

theorem applyAll_cons (r : RDisk) (o : ROp) (os : List ROp) : r.applyAll (o :: os) = (r.apply o).applyAll os := rfl

theorem reach_refl (ops : List ROp) (r : RDisk) : Reach ops r r := ⟨0, by simp [applyAll_nil]⟩

theorem reach_all (ops : List ROp) (r : RDisk) : Reach ops r (r.applyAll ops) :=
  ⟨ops.length, by rw [List.take_of_length_le (Nat.le_refl _)]⟩

theorem reach_append {A B : List ROp} {r r' : RDisk} (h : Reach (A ++ B) r r') :
    Reach A r r' ∨ Reach B (r.applyAll A) r' := by
  obtain ⟨k, rfl⟩ := h
  rw [List.take_append, applyAll_append]
  by_cases hk : k ≤ A.length
  · left
    have : k - A.length = 0 := by omega
    rw [this, List.take_zero, applyAll_nil]
    exact ⟨k, rfl⟩
  · right
    rw [List.take_of_length_le (l := A) (i := k) (by omega)]
    exact ⟨_, rfl⟩

theorem reach_append_left {A B : List ROp} {r r' : RDisk} (h : Reach A r r') : Reach (A ++ B) r r' := by
  obtain ⟨k, rfl⟩ := h
  refine ⟨min k A.length, ?_⟩
  rw [List.take_append]
  have : min k A.length - A.length = 0 := by omega
  rw [this, List.take_zero, List.append_nil]
  congr 1
  rw [List.take_eq_take_iff]; simp

theorem reach_append_right {A B : List ROp} {r r' : RDisk} (h : Reach B (r.applyAll A) r') : Reach (A ++ B) r r' := by
  obtain ⟨k, rfl⟩ := h
  refine ⟨A.length + k, ?_⟩
  rw [List.take_append, List.take_of_length_le (l := A) (i := A.length + k) (by omega), applyAll_append]
  congr 2
  omega

theorem reach_nil {r r' : RDisk} (h : Reach [] r r') : r' = r := by
  obtain ⟨k, rfl⟩ := h; simp [applyAll_nil]

theorem reach_cons {o : ROp} {os : List ROp} {r r' : RDisk} (h : Reach (o :: os) r r') :
    r' = r ∨ Reach os (r.apply o) r' := by
  obtain ⟨k, rfl⟩ := h
  cases k with
  | zero => left; simp [applyAll_nil]
  | succ k => right; exact ⟨k, by simp [applyAll_cons]⟩

/-! ## `maxSeqOf` -/

theorem maxSeqOf_foldl (es : List Entry) (a : Nat) :
    es.foldl (fun m e => max m e.seq) a = max a (maxSeqOf es) := by
  unfold maxSeqOf
  induction es generalizing a with
  | nil => simp
  | cons e es ih =>
    simp only [List.foldl_cons]
    rw [ih (max a e.seq), ih (max 0 e.seq)]
    omega

theorem maxSeqOf_nil : maxSeqOf [] = 0 := rfl

theorem maxSeqOf_append (a b : List Entry) : maxSeqOf (a ++ b) = max (maxSeqOf a) (maxSeqOf b) := by
  show (a ++ b).foldl _ 0 = _
  rw [List.foldl_append, maxSeqOf_foldl]
  rfl

/-! ## one more fact about `Files.set` -/

section files
variable {α : Type}

theorem set_nums_of_mem {m : Files α} {n : Nat} (a : α) (h : n ∈ m.nums) : (m.set n a).nums = m.nums := by
  induction m with
  | nil => cases h
  | cons p m ih =>
    obtain ⟨j, b⟩ := p
    by_cases hj : j = n
    · simp [Files.set, hj, Files.nums]
    · have h' : n ∈ Files.nums m := by
        simp only [Files.nums, List.map_cons, List.mem_cons] at h
        rcases h with h | h
        · exact absurd h.symm hj
        · exact h
      have := ih h'
      simp only [Files.nums] at this ⊢
      simp [Files.set, hj, this]

theorem mem_set_imp {m : Files α} {n : Nat} {a : α} {q : Nat × α} (h : q ∈ m.set n a) : q = (n, a) ∨ q ∈ m := by
  induction m with
  | nil => simp [Files.set] at h; exact Or.inl h
  | cons p m ih =>
    obtain ⟨j, b⟩ := p
    by_cases hj : j = n
    · simp only [Files.set, hj, if_true, List.mem_cons] at h
      rcases h with h | h
      · exact Or.inl h
      · exact Or.inr (List.mem_cons_of_mem _ h)
    · simp only [Files.set, hj, if_false, List.mem_cons] at h
      rcases h with h | h
      · exact Or.inr (h ▸ List.mem_cons_self)
      · rcases ih h with h | h
        · exact Or.inl h
        · exact Or.inr (List.mem_cons_of_mem _ h)

end files

/-! ## the table loop as a pure function -/

/-- is table `n` recorded (`rec.addTable`) -/
def kept (cfg : RCfg) (r : RDisk) (n : Nat) : Bool := !(slotEnts cfg r n).isEmpty

theorem tableOne_acc (cfg : RCfg) (r : RDisk) (a : TAcc) (n : Nat) :
    (tableOne cfg r a n).2.added = a.added ++ (if kept cfg r n then [n] else []) ∧
    (tableOne cfg r a n).2.maxSeq = max a.maxSeq (maxSeqOf (slotEnts cfg r n)) := by
  unfold tableOne kept slotEnts
  cases hl : lookup r.disk.tables n with
  | none => simp [maxSeqOf_nil]
  | some t =>
    simp only
    by_cases hs : (cfg.strict && scanDamaged r n t) = true
    · simp [hs, maxSeqOf_nil]
    · have hs' : (cfg.strict && scanDamaged r n t) = false := by
        cases h : (cfg.strict && scanDamaged r n t) <;> simp_all
      by_cases he : ((scanGood t).flatMap Grp.ents).isEmpty = true
      · have : (scanGood t).flatMap Grp.ents = [] := List.isEmpty_iff.1 he
        simp [hs', this, maxSeqOf_nil]
      · have he' : ((scanGood t).flatMap Grp.ents).isEmpty = false := by
          cases h : ((scanGood t).flatMap Grp.ents).isEmpty <;> simp_all
        simp only [hs', he', Bool.false_or, Bool.false_eq_true, if_false, Bool.not_false, if_true]
        by_cases hd : scanDamaged r n t = true <;> simp [hd]

theorem tableLoop_acc (cfg : RCfg) (r : RDisk) (ns : List Nat) (a : TAcc) :
    (tableLoop cfg r a ns).2.added = a.added ++ ns.filter (kept cfg r) ∧
    (tableLoop cfg r a ns).2.maxSeq = max a.maxSeq (maxSeqOf (ns.flatMap (slotEnts cfg r))) := by
  induction ns generalizing a with
  | nil => simp [tableLoop, maxSeqOf_nil]
  | cons n ns ih =>
    obtain ⟨i1, i2⟩ := ih (tableOne cfg r a n).2
    obtain ⟨o1, o2⟩ := tableOne_acc cfg r a n
    simp only [tableLoop, i1, i2, o1, o2, List.filter_cons, List.flatMap_cons, maxSeqOf_append]
    refine ⟨?_, by omega⟩
    by_cases hk : kept cfg r n = true <;> simp [hk]

/-- what `recoverTable` has collected when it commits: the tables with a good key, the largest sequence number -/
theorem tablePhase_acc (cfg : RCfg) (r : RDisk) :
    (tablePhase cfg r).2.added = (tableNums r).filter (kept cfg r) ∧
    (tablePhase cfg r).2.maxSeq = maxSeqOf ((tableNums r).flatMap (slotEnts cfg r)) := by
  obtain ⟨h1, h2⟩ := tableLoop_acc cfg r (tableNums r) {}
  unfold tablePhase
  rw [h1, h2]
  simp

/-! ## the invariant of phases 1 and 2 -/

/-- `r` offers a `Recover` the same tables and journals as `r0`, and all its tables are durable -/
structure TSame (cfg : RCfg) (r0 r : RDisk) : Prop where
  nums : r.disk.tables.nums = r0.disk.tables.nums
  slot : ∀ n, slotEnts cfg r n = slotEnts cfg r0 n
  journals : r.disk.journals = r0.disk.journals
  tsynced : ∀ p ∈ r.disk.tables, p.2.synced = true
  dmgsub : ∀ n ∈ r.dmg, n ∈ r0.dmg

/-- `CURRENT` and the manifests are those of `r0` -/
def MSame (r0 r : RDisk) : Prop := r.disk.current = r0.disk.current ∧ r.disk.manifests = r0.disk.manifests

theorem TSame.refl (cfg : RCfg) {r0 : RDisk} (h : r0.durable) : TSame cfg r0 r0 :=
  ⟨rfl, fun _ => rfl, rfl, h.2.2, fun _ h => h⟩

/-- only the tables and the damage marks matter -/
theorem TSame.of_eq {cfg : RCfg} {r0 r r' : RDisk} (h : TSame cfg r0 r) (ht : r'.disk.tables = r.disk.tables)
    (hj : r'.disk.journals = r.disk.journals) (hd : r'.dmg = r.dmg) : TSame cfg r0 r' := by
  refine ⟨by rw [ht]; exact h.nums, fun n => ?_, by rw [hj]; exact h.journals, by rw [ht]; exact h.tsynced,
    by rw [hd]; exact h.dmgsub⟩
  rw [← h.slot n]
  simp only [slotEnts, scanDamaged, ht, hd]
  rfl

theorem slotEnts_ne_nil {cfg : RCfg} {r : RDisk} {n : Nat} (h : slotEnts cfg r n ≠ []) :
    ∃ t, lookup r.disk.tables n = some t ∧ t.bad = false ∧ t.grps.flatMap Grp.ents = slotEnts cfg r n ∧
      (cfg.strict && scanDamaged r n t) = false := by
  unfold slotEnts at h ⊢
  cases hl : lookup r.disk.tables n with
  | none => rw [hl] at h; exact absurd rfl h
  | some t =>
    rw [hl] at h
    simp only at h ⊢
    by_cases hs : (cfg.strict && scanDamaged r n t) = true
    · rw [if_pos hs] at h; exact absurd rfl h
    · have hs' : (cfg.strict && scanDamaged r n t) = false := by
        cases hh : (cfg.strict && scanDamaged r n t) <;> simp_all
      rw [if_neg hs] at h
      refine ⟨t, rfl, ?_, ?_, hs'⟩
      · cases hb : t.bad with
        | false => rfl
        | true => simp [scanGood, hb] at h
      · rw [if_neg hs]
        cases hb : t.bad with
        | false => simp [scanGood, hb]
        | true => simp [scanGood, hb] at h

/-- the rebuild of table `n` (`buildTable` + `Rename`), complete -/
theorem rebuild_block (r : RDisk) (k n : Nat) (good : List Grp) :
    r.applyAll [.createTemp k, .writeTemp k good, .syncTemp k, .renameTemp k n] =
      { disk := { r.disk with tables := r.disk.tables.set n ⟨good, true, false⟩ }
        temps := (((r.temps.set k {}).modify k fun t => { t with grps := good }).modify k
                    fun t => { t with synced := true }).erase k
        dmg := r.dmg.filter (· ≠ n) } := by
  simp only [RDisk.applyAll, List.foldl_cons, List.foldl_nil, RDisk.apply, lookup_modify, lookup_set, if_true,
    Option.map_some]

/-- a prefix of the rebuild of one table: only temp files differ, or the table has been replaced -/
theorem reach_rebuild_block {r r' : RDisk} {k n : Nat} {good : List Grp}
    (h : Reach [.createTemp k, .writeTemp k good, .syncTemp k, .renameTemp k n] r r') :
    (r'.disk = r.disk ∧ r'.dmg = r.dmg) ∨
    r' = r.applyAll [.createTemp k, .writeTemp k good, .syncTemp k, .renameTemp k n] := by
  rcases reach_cons h with rfl | h
  · exact Or.inl ⟨rfl, rfl⟩
  rcases reach_cons h with rfl | h
  · exact Or.inl ⟨rfl, rfl⟩
  rcases reach_cons h with rfl | h
  · exact Or.inl ⟨rfl, rfl⟩
  rcases reach_cons h with rfl | h
  · exact Or.inl ⟨rfl, rfl⟩
  · right; rw [reach_nil h]; rfl

/-- replacing a damaged table by its readable part does not change what a `Recover` reads -/
theorem TSame.rebuild {cfg : RCfg} {r0 r : RDisk} (h : TSame cfg r0 r) {n : Nat} {t0 : TableFile}
    (hl : lookup r0.disk.tables n = some t0) (hs : (cfg.strict && scanDamaged r0 n t0) = false) (k : Nat) :
    TSame cfg r0 (r.applyAll [.createTemp k, .writeTemp k (scanGood t0), .syncTemp k, .renameTemp k n]) := by
  rw [rebuild_block]
  have hn : n ∈ r.disk.tables.nums := by
    rw [h.nums]; exact lookup_isSome_iff.1 (by rw [hl]; rfl)
  refine ⟨?_, fun n' => ?_, h.journals, ?_, fun x hx => h.dmgsub x (List.mem_filter.1 hx).1⟩
  · show (r.disk.tables.set n _).nums = _
    rw [set_nums_of_mem _ hn]; exact h.nums
  · by_cases hn' : n' = n
    · subst hn'
      have h0 : slotEnts cfg r0 n' = (scanGood t0).flatMap Grp.ents := by
        simp only [slotEnts, hl, hs]; rfl
      rw [h0]
      simp only [slotEnts, lookup_set, if_true, scanDamaged, scanGood]
      simp
    · rw [← h.slot n']
      simp only [slotEnts, lookup_set, if_neg hn', scanDamaged]
      cases lookup r.disk.tables n' with
      | none => rfl
      | some t =>
        simp only
        have : (List.filter (fun x => decide (x ≠ n)) r.dmg).contains n' = r.dmg.contains n' := by
          rw [Bool.eq_iff_iff]
          simp only [List.contains_iff_mem, List.mem_filter, decide_eq_true_eq]
          exact ⟨fun x => x.1, fun x => ⟨x, hn'⟩⟩
        simp only [this]
        rfl
  · intro p hp
    rcases mem_set_imp hp with rfl | hp
    · rfl
    · exact h.tsynced p hp

/-- **phase 1**: after any prefix of the table loop's operations, a `Recover` reads what the first one read, and
    `CURRENT` and the manifests have not been touched -/
theorem tableLoop_reach (cfg : RCfg) (r0 : RDisk) (ns : List Nat) (a : TAcc) (r r' : RDisk)
    (hT : TSame cfg r0 r) (hM : MSame r0 r) (h : Reach (tableLoop cfg r0 a ns).1 r r') :
    TSame cfg r0 r' ∧ MSame r0 r' := by
  induction ns generalizing a r with
  | nil => rw [reach_nil h]; exact ⟨hT, hM⟩
  | cons n ns ih =>
    simp only [tableLoop] at h
    -- the operations for table `n`
    have hone : ∀ r'', Reach (tableOne cfg r0 a n).1 r r'' → TSame cfg r0 r'' ∧ MSame r0 r'' := by
      intro r'' hr
      unfold tableOne at hr
      cases hl : lookup r0.disk.tables n with
      | none => rw [hl] at hr; rw [reach_nil hr]; exact ⟨hT, hM⟩
      | some t0 =>
        rw [hl] at hr
        simp only at hr
        by_cases hc : (cfg.strict && scanDamaged r0 n t0 || ((scanGood t0).flatMap Grp.ents).isEmpty) = true
        · rw [if_pos hc] at hr; rw [reach_nil hr]; exact ⟨hT, hM⟩
        · rw [if_neg hc] at hr
          by_cases hd : scanDamaged r0 n t0 = true
          · rw [if_pos hd] at hr
            have hs : (cfg.strict && scanDamaged r0 n t0) = false := by
              cases hh : (cfg.strict && scanDamaged r0 n t0) <;> simp_all
            rcases reach_rebuild_block hr with ⟨e1, e2⟩ | rfl
            · exact ⟨hT.of_eq (by rw [e1]) (by rw [e1]) e2, by unfold MSame; rw [e1]; exact hM⟩
            · refine ⟨hT.rebuild hl hs _, ?_⟩
              rw [rebuild_block]; exact hM
          · rw [if_neg hd] at hr; rw [reach_nil hr]; exact ⟨hT, hM⟩
    rcases reach_append h with h1 | h2
    · exact hone _ h1
    · obtain ⟨t1, m1⟩ := hone _ (reach_all _ r)
      exact ih _ _ t1 m1 h2

end GoLevel.Dur
